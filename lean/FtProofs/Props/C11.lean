/-
  C11 — a refused edit changes nothing.

  "If a user action raises - invalid or missing arguments, a structural conflict without force,
   an unknown node or edge, a protected attribute - then the graph, all attribute values, the
   segmentation, the track lookups and the undo history are exactly as before the call and no
   refresh is emitted. For the paint-driven segmentation update, whose caller has already
   painted the array, the same holds once the caller has restored the painted pixels."

  User actions are `St → St × Except Err (List PrimRec)` (the state is returned also on
  failure), so "nothing changed" is a real statement about the returned state.
  Part 1: every validation that fires before the first mutation returns the input state
  itself (`= (s, .error _)`); where `get_track_neighbors` has re-sorted one lookup list first
  (UserAddNode) the returned state is `Equiv` to the input (same lookups as sets).
  Part 2: history / refresh log are untouched by every refused `step`.
  Part 3: rollback paths (errors raised after sub-edits were applied).
-/
import FtProofs.InverseLemmas
open Ft Ft.St List

/-! ### Part 1 — validations before the first mutation -/

/-- UserDeleteEdge: unknown edge -/
theorem C11_deleteEdge_unknown (s : St) (e : Edge) (h : s.hasEdge e = false) :
    s.uDeleteEdge e = (s, .error .invalid) := by
  unfold uDeleteEdge; simp [h]
example : exS.uDeleteEdge (2, 5) = (exS, .error .invalid) := C11_deleteEdge_unknown exS (2, 5) (by decide)
#print axioms C11_deleteEdge_unknown

/-- UserAddEdge: unknown endpoint, or an edge that does not go forward in time -/
theorem C11_addEdge_invalid (s : St) (e : Edge) (force : Bool)
    (h : s.hasNode e.1 = false ∨ s.hasNode e.2 = false ∨
         (s.timeOf e.1).getD 0 ≥ (s.timeOf e.2).getD 0) :
    s.uAddEdge e force = (s, .error .invalid) := by
  unfold uAddEdge
  split; · rfl
  split; · rfl
  split; · rfl
  rename_i h1 h2 h3
  rcases h with h | h | h
  · simp [h] at h1
  · simp [h] at h2
  · exact absurd h h3
example : exS.uAddEdge (4, 2) false = (exS, .error .invalid) :=
  C11_addEdge_invalid exS (4, 2) false (Or.inr (Or.inr (by decide)))
#print axioms C11_addEdge_invalid

/-- UserAddEdge: the target already has a parent and `force` was not given (merge) -/
theorem C11_addEdge_merge (s : St) (e : Edge)
    (h1 : s.hasNode e.1 = true) (h2 : s.hasNode e.2 = true)
    (ht : (s.timeOf e.1).getD 0 < (s.timeOf e.2).getD 0) (hin : s.indeg e.2 > 0) :
    s.uAddEdge e false = (s, .error .forceable) := by
  unfold uAddEdge
  simp [h1, h2, Nat.not_le.mpr ht, hin]
example : exS.uAddEdge (3, 4) false = (exS, .error .forceable) :=
  C11_addEdge_merge exS (3, 4) (by decide) (by decide) (by decide) (by decide)
#print axioms C11_addEdge_merge

/-- UserAddEdge: the source already divides and nothing had to be removed first (triple
    division); `_rollback` of the empty group is the identity -/
theorem C11_addEdge_triple (s : St) (e : Edge) (force : Bool)
    (h1 : s.hasNode e.1 = true) (h2 : s.hasNode e.2 = true)
    (ht : (s.timeOf e.1).getD 0 < (s.timeOf e.2).getD 0) (hin : s.indeg e.2 = 0)
    (hout : s.outdeg e.1 ≥ 2) :
    s.uAddEdge e force = (s, .error .invalid) := by
  unfold uAddEdge
  have h0 : (s.outdeg e.1 == 0) = false := by simp; omega
  have h1' : (s.outdeg e.1 == 1) = false := by simp; omega
  simp [h1, h2, Nat.not_le.mpr ht, hin, h0, h1', rollback, invGroup, thenPrim]
example : exS.uAddEdge (1, 5) true = (exS, .error .invalid) :=
  C11_addEdge_triple exS (1, 5) true (by decide) (by decide) (by decide) (by decide) (by decide)
#print axioms C11_addEdge_triple

/-- UserAddNode: missing time, missing track id, or the node exists already -/
theorem C11_addNode_invalid (s : St) (a : AddNodeArgs)
    (h : a.time = none ∨ a.tid = none ∨ s.hasNode a.node = true) :
    s.uAddNode a = (s, .error .invalid) := by
  unfold uAddNode
  split
  · rfl
  · rfl
  · rename_i t d ht hd
    rcases h with h | h | h
    · rw [h] at ht; cases ht
    · rw [h] at hd; cases hd
    · simp [h]
example : exS.uAddNode ⟨5, some 2, some 9, none, [], none, false⟩ = (exS, .error .invalid) :=
  C11_addNode_invalid exS _ (Or.inr (Or.inr (by decide)))
#print axioms C11_addNode_invalid

/-- UserDeleteNode: unknown node -/
theorem C11_deleteNode_unknown (s : St) (n : Node) (px : Option (List Pix))
    (h : s.hasNode n = false) : s.uDeleteNode n px = (s, .error .key) := by
  unfold uDeleteNode; simp [h]
example : exS.uDeleteNode 9 none = (exS, .error .key) := C11_deleteNode_unknown exS 9 none (by decide)
#print axioms C11_deleteNode_unknown

/-- UserSwapPredecessors: unknown node -/
theorem C11_swap_unknown (s : St) (n1 n2 : Node)
    (h : s.hasNode n1 = false ∨ s.hasNode n2 = false) : s.uSwap n1 n2 = (s, .error .key) := by
  unfold uSwap
  rcases h with h | h <;> simp [h]
example : exS.uSwap 1 9 = (exS, .error .key) := C11_swap_unknown exS 1 9 (Or.inr (by decide))
#print axioms C11_swap_unknown

/-- UserSwapPredecessors: all four argument validations (no predecessor at all; the same
    predecessor; a predecessor that is not strictly earlier than its new child) -/
theorem C11_swap_invalid (s : St) (n1 n2 : Node)
    (h1 : s.hasNode n1 = true) (h2 : s.hasNode n2 = true)
    (h : ((s.preds n1).head? = none ∧ (s.preds n2).head? = none) ∨
         (s.preds n1).head? = (s.preds n2).head? ∨
         (∃ p, (s.preds n1).head? = some p ∧ (s.timeOf p).getD 0 ≥ (s.timeOf n2).getD 0) ∨
         (∃ p, (s.preds n2).head? = some p ∧ (s.timeOf p).getD 0 ≥ (s.timeOf n1).getD 0)) :
    s.uSwap n1 n2 = (s, .error .invalid) := by
  unfold uSwap
  simp only [h1, h2, Bool.not_true, Bool.or_self, Bool.false_eq_true, if_false]
  generalize (s.preds n1).head? = p1 at h ⊢
  generalize (s.preds n2).head? = p2 at h ⊢
  rcases h with ⟨ha, hb⟩ | h | ⟨p, hp, ht⟩ | ⟨p, hp, ht⟩
  · subst ha hb; simp
  · subst h; simp
  · subst hp
    split; · rfl
    split; · rfl
    simp [ht]
  · subst hp
    split; · rfl
    split; · rfl
    cases p1 <;> simp [ht]
example : exS.uSwap 2 3 = (exS, .error .invalid) :=
  C11_swap_invalid exS 2 3 (by decide) (by decide) (Or.inr (Or.inl (by decide)))
example : exS.uSwap 4 3 = (exS, .error .invalid) :=
  C11_swap_invalid exS 4 3 (by decide) (by decide) (Or.inr (Or.inr (Or.inl ⟨2, by decide, by decide⟩)))
#print axioms C11_swap_invalid

/-- UserUpdateSegmentation: no segmentation -/
theorem C11_updateSeg_no_seg (s : St) (v : Nat) (groups : List (List Pix × Nat)) (tid : Nat)
    (force : Bool) (h : s.seg = none) :
    s.uUpdateSeg v groups tid force = ((s, .error .value), none) := by
  unfold uUpdateSeg; simp [h]
example : exS.uUpdateSeg 6 [([9], 0)] 1 false = ((exS, .error .value), none) :=
  C11_updateSeg_no_seg exS 6 _ 1 false rfl
#print axioms C11_updateSeg_no_seg

/-- UserUpdateNodeAttrs: every way it can raise (protected attribute, unknown node) returns
    the input state — the complete C11 statement for this action -/
theorem C11_updateAttrs (s : St) (n : Node) (attrs : List (Key × Val)) (e : Err)
    (h : (s.uUpdateAttrs n attrs).2 = .error e) : (s.uUpdateAttrs n attrs).1 = s := by
  unfold uUpdateAttrs thenPrim at h ⊢
  simp only at h ⊢
  split at h
  · cases h
  · rfl
example : (exS.uUpdateAttrs 9 [(8, .tok 1)]).1 = exS := C11_updateAttrs exS 9 _ .key (by rfl)
#print axioms C11_updateAttrs

theorem C11_updateAttrs_protected (s : St) (n : Node) (attrs : List (Key × Val))
    (h : ∃ kv ∈ attrs, kv.1 ∈ s.protectedKeys) :
    s.uUpdateAttrs n attrs = (s, .error .value) := by
  obtain ⟨kv, hm, hk⟩ := h
  have : attrs.any (fun kv => s.protectedKeys.contains kv.1) = true :=
    any_eq_true.mpr ⟨kv, hm, by simpa using hk⟩
  have hq : s.pUpdAttrs n attrs = .error .value := by unfold pUpdAttrs; rw [if_pos this]
  simp only [uUpdateAttrs, thenPrim, hq]
example : exSeg.uUpdateAttrs 1 [(8, .tok 1), (10, .tok 2)] = (exSeg, .error .value) :=
  C11_updateAttrs_protected exSeg 1 _ ⟨(10, .tok 2), by simp, by decide⟩
#print axioms C11_updateAttrs_protected

theorem C11_updateAttrs_unknown (s : St) (n : Node) (attrs : List (Key × Val))
    (hp : ∀ kv ∈ attrs, kv.1 ∉ s.protectedKeys) (h : s.hasNode n = false) :
    s.uUpdateAttrs n attrs = (s, .error .key) := by
  have h1 : attrs.any (fun kv => s.protectedKeys.contains kv.1) = false := by
    rw [Bool.eq_false_iff]; intro hh
    obtain ⟨kv, hm, hk⟩ := any_eq_true.mp hh
    exact hp kv hm (by simpa using hk)
  have h2 : s.findNode n = none := by
    simpa [hasNode] using h
  have hq : s.pUpdAttrs n attrs = .error .key := by
    unfold pUpdAttrs; rw [if_neg (by rw [h1]; exact Bool.false_ne_true), h2]
  simp only [uUpdateAttrs, thenPrim, hq]
example : exS.uUpdateAttrs 9 [(8, .tok 1)] = (exS, .error .key) :=
  C11_updateAttrs_unknown exS 9 _ (by decide) (by decide)
#print axioms C11_updateAttrs_unknown

/-- UserAddNode: a division conflict (upstream or downstream) without `force`. By then
    `get_track_neighbors` has sorted one lookup list in place, so the returned state equals the
    input up to the order inside that list (`Equiv`: same lookups as sets, everything else
    identical). -/
theorem C11_addNode_conflict (s : St) (a : AddNodeArgs) (hf : a.force = false)
    (h : (s.uAddNode a).2 = .error .forceable) : Equiv (s.uAddNode a).1 s := by
  cases ht : a.time with
  | none => rw [C11_addNode_invalid s a (Or.inl ht)]; exact Equiv.refl s
  | some time =>
    cases hd : a.tid with
    | none => rw [C11_addNode_invalid s a (Or.inr (Or.inl hd))]; exact Equiv.refl s
    | some tid0 =>
      cases hn : s.hasNode a.node with
      | true => rw [C11_addNode_invalid s a (Or.inr (Or.inr hn))]; exact Equiv.refl s
      | false =>
        rw [uAddNode_eq_pieces s a ht hd hn, hf] at h ⊢
        rcases anConflicts_noforce (s.trackNeighbors (anTid s tid0 time) time).1
          (s.trackNeighbors (anTid s tid0 time) time).2.1
          (s.trackNeighbors (anTid s tid0 time) time).2.2 with hc | hc
        · rw [hc] at h
          cases anTail_ok_err rfl h
        · rw [hc, anTail_err_acc rfl]
          exact trackNeighbors_equiv _ _ _
-- a new node at time 1 on track 1 sits below the dividing node 1: refused with `forceable`
example : Equiv (exS.uAddNode ⟨6, some 1, some 1, none, [(7, .tok 9)], none, false⟩).1 exS :=
  C11_addNode_conflict exS _ rfl (by rfl)
#print axioms C11_addNode_conflict

/-! ### Part 2 — no history entry, no refresh -/

/-- a refused `step` (any op: the seven edits, undo/redo whose inverse raises, unknown
    feature keys) leaves the undo history, the refresh counter and the last refresh payload
    exactly as they were -/
theorem C11_step_no_history_no_refresh (s : St) (op : Op) (e : Err)
    (h : (s.step op).2 = .err e) :
    (s.step op).1.hist = s.hist ∧ (s.step op).1.refreshes = s.refreshes ∧
    (s.step op).1.lastPayload = s.lastPayload := by
  have key : ∀ t : St, t.cfg = s.cfg →
      t.hist = s.hist ∧ t.refreshes = s.refreshes ∧ t.lastPayload = s.lastPayload := by
    intro t ht
    simp only [cfg, Prod.mk.injEq] at ht
    exact ⟨ht.1, ht.2.1, ht.2.2.1⟩
  have hc : ∀ (r : UOut) (p : Option Node), r.1.cfg = s.cfg → (commit r p).2 = .err e →
      (commit r p).1.cfg = s.cfg := by
    intro r p hr he
    unfold commit at he ⊢
    split
    · rename_i h'; simp only [h'] at he; cases he
    · exact hr
  apply key
  cases op with
  | addEdge e' f => exact hc _ _ (cfg_uAddEdge s e' f) h
  | delEdge e' => exact hc _ _ (cfg_uDeleteEdge s e') h
  | addNode a => exact hc _ _ (cfg_uAddNode s a) h
  | delNode n => exact hc _ _ (cfg_uDeleteNode s n none) h
  | swap a b => exact hc _ _ (cfg_uSwap s a b) h
  | updAttrs n at_ => exact hc _ _ (cfg_uUpdateAttrs s n at_) h
  | paint v groups tid f =>
    simp only [step] at h ⊢
    split
    · rfl
    · rename_i g hg
      simp only [hg] at h
      have hu := cfg_uUpdateSeg
        { s with seg := some (g.setPixels (groups.flatMap (fun (grp : List Pix × Nat) => grp.1)) v) }
        v groups tid f
      split
      · rename_i hok
        simp only [hok] at h
        exact hc _ _ hu h
      · split
        · exact hu
        · exact hu
  | undo =>
    rw [step_undo_eq] at h ⊢
    rw [histCore_err h]; exact cfg_undoStep _ _
  | redo =>
    rw [step_redo_eq] at h ⊢
    rw [histCore_err h]; exact cfg_redoStep _ _
  | enable ks rc =>
    simp only [step] at h ⊢
    split
    · rename_i hh; simp only [hh] at h; cases h
    · rfl
  | disable ks =>
    simp only [step] at h ⊢
    split
    · rename_i hh; simp only [hh] at h; cases h
    · rfl
  | qNeighbors tid time => simp [step] at h
  | qHasTrack tid time => simp [step] at h
  | qNewIds n => simp [step] at h
  | nop => simp [step] at h
example : (exS.step (.addEdge (3, 4) false)).1.hist = exS.hist :=
  (C11_step_no_history_no_refresh exS (.addEdge (3, 4) false) .forceable (by rfl)).1
#print axioms C11_step_no_history_no_refresh

/-! ### Part 3 — errors raised after sub-edits were applied (rollback paths) -/

/-- UserAddNode without `force` whose `AddNode` is refused (no pixels and a position key
    missing; or pixels given but no segmentation): the action raises, and the skip edge between
    the track neighbours — the only thing that can have been removed by then — has been put
    back by `_rollback`. The state is the input up to `Equiv` (the re-added edge sits at the end
    of the insertion order; one lookup list was sorted). `EdgesOK s`: edge keys distinct, end
    points exist, every edge attribute is a registered non-None feature and an active IoU is
    current — exactly what makes `DeleteEdge.inverse()` exact. -/
theorem C11_addNode_refused (s : St) (a : AddNodeArgs) (hf : a.force = false) (hok : EdgesOK s)
    (hpx : (a.pixels = none ∧ (s.posKeys.all (fun k => (alook k a.other).isSome)) = false) ∨
           (a.pixels.isSome = true ∧ s.seg = none)) :
    ∃ e, (s.uAddNode a).2 = .error e ∧ Equiv (s.uAddNode a).1 s := by
  cases ht : a.time with
  | none => rw [C11_addNode_invalid s a (Or.inl ht)]; exact ⟨_, rfl, Equiv.refl s⟩
  | some time =>
    cases hd : a.tid with
    | none => rw [C11_addNode_invalid s a (Or.inr (Or.inl hd))]; exact ⟨_, rfl, Equiv.refl s⟩
    | some tid0 =>
      cases hn : s.hasNode a.node with
      | true => rw [C11_addNode_invalid s a (Or.inr (Or.inr hn))]; exact ⟨_, rfl, Equiv.refl s⟩
      | false =>
        rw [uAddNode_eq_pieces s a ht hd hn, hf]
        have hfld := trackNeighbors_fields s (anTid s tid0 time) time
        have hcfg := cfg_trackNeighbors s (anTid s tid0 time) time
        have heq := trackNeighbors_equiv s (anTid s tid0 time) time
        generalize (s.trackNeighbors (anTid s tid0 time) time) = tn at hfld hcfg heq ⊢
        rcases anConflicts_noforce tn.1 tn.2.1 tn.2.2 with hc | hc
        · rw [hc]
          have hokN : EdgesOK tn.1 := hok.congr hfld.1 hfld.2.1 hfld.2.2 hcfg
          have hpos : tn.1.posKeys = s.posKeys := by
            simp only [cfg, Prod.mk.injEq] at hcfg; exact hcfg.2.2.2.2.1
          obtain ⟨e, he1, he2⟩ := anTail_refused (a := a) (time := time) (tid := anTid s tid0 time)
            (pred := tn.2.1) (succ := tn.2.2) hokN (by
              intro r hr; rw [hpos, hfld.2.2, hr]; exact hpx)
          exact ⟨e, he1, he2.trans heq⟩
        · rw [hc, anTail_err_acc rfl]
          exact ⟨_, rfl, heq⟩
-- a new node at time 2 on track 2 (between 2@1 and 4@3) without a position: the skip edge
-- (2,4) is removed, AddNode raises, the edge is put back by the rollback
example : ∃ e, (exS.uAddNode ⟨6, some 2, some 2, none, [], none, false⟩).2 = .error e ∧
    Equiv (exS.uAddNode ⟨6, some 2, some 2, none, [], none, false⟩).1 exS :=
  C11_addNode_refused exS _ rfl exS_edgesOK (Or.inl ⟨rfl, by decide⟩)
example : ((exS.uAddNode ⟨6, some 2, some 2, none, [], none, false⟩).1.edges.map (·.e))
    = [(1, 2), (1, 3), (2, 4)] := by decide
#print axioms C11_addNode_refused


/-
  Not proved (full statements, for the record) — the remaining rollback paths need the inverse
  law of `UpdateTrackIDs` (C01_prim_updTid, see Props/C01.lean) in its `Equiv`-robust form:

  * C11_addEdge_forced_dividing : Forest s → BookOK s → EdgesOK s → force = true →
      indeg e.2 > 0 → outdeg e.1 ≥ 2 (after the removal) →
      (s.uAddEdge e true).2 = .error .invalid ∧ Equiv (s.uAddEdge e true).1 s
      (the recorded group is [delEdge, updTid (, updTid)]; `C01_group_rollback` reduces it to
       `Chain s recs s₀`, i.e. to the inverse laws of those primitives).
  * C11_addNode_refused with `force = true` (forced division removals before the refusal):
      same reduction, the group is [delEdge, updTid, …, delEdge].
  * C11_updateSeg_nested_refused : the nested UserAddNode raises (division conflict) after
      nodes were deleted / shrunk: group of updSeg / delNode / delEdge / updTid records.
  * the errors raised *inside* UserDeleteEdge / UserDeleteNode after their first primitive
      (`.other`, `.key`, `.invalid` on outdeg ≥ 2 after removal) are unreachable under
      `Forest s ∧ BookOK s`; proving that needs "walk preserves node ids" (package PB/PC).
-/
