/-
  C10 (round 5, package R5B) — feature switching INSIDE histories.

  "For any order of enabling, disabling and editing, once a feature is enabled with recomputation
   all its values equal the reference values for the current state, exactly the static plus
   currently enabled features are listed in the feature registry, a disabled feature is no longer
   changed by edits, and asking for an unknown feature raises KeyError and changes nothing.  Time
   and every feature an annotator can manage are refused by attribute-update edits, enabled or not."

  The step-wise theorems are in `Props/C10.lean`, `Props/C10_R2G.lean`, `Props/C04_R2F.lean`; the
  whole-history theorems of R3D (`C03_reach` …) exclude `enable` / `disable`.  Here the operation
  language is `Ft.R5B.Op'` = ALL operations of `St.step` (the seven edits, undo, redo,
  `enable ks recompute`, `disable ks`, the queries) and `Ft.R5B.run s ops` is the state after the
  list.

  Part 1 — statements that need NO invariant and NO admissibility (any start state, any operation
  list, any arguments, accepted or refused, also a raising undo):
  * `C10_registry_reach`   `RegOK` (registry = static ∪ active) at every reached state;
  * `C10_unknown_reach`    at every reached state `enable` / `disable` naming a key no annotator
                           manages answers `err key` and returns the state unchanged;
  * `C10_protected_reach`  at every reached state `uUpdateAttrs` naming `time`, the track / lineage
                           key or any annotator key is refused with `err value`, state unchanged.
  "What an annotator can manage" (`annotKeys`) is a constant of the run (`avail_run`).

  Part 2 — values are current after `enable … recompute` at every state reached by an admissible
  session that mixes switching with edits, undo and redo:
  * `C10_inv_not_preserved_disable / _tid / _lin`  (witnesses) the bundle invariant `R3D.Inv` is NOT
        preserved: `disable` leaves the stored values behind (visible, no longer registered);
        recomputing the track ids / lineage ids inside a history renumbers them while the recorded
        `UpdateTrackIDs` still hold the old numbers, and a later undo writes those back — two
        segment heads with one track id, an edge across two lineage ids.
  * `C10_weak_invariant_reach`  (full, for the admissibility `Ft.R5B.SessOK'`) the WEAK invariant
        `Ft.R5B.WInv` — the bundle invariant of the annotation-free core — holds at every reached
        state; hence forward binary forest, labels ↔ nodes (`SegOK`), unique non-zero ids, whole
        frames.  Proof: every primitive, composite, commit, paint protocol, undo and redo commutes
        with forgetting the measurement features (`Ft.R5B.core_run`), `enable` / `disable` do not
        move the core, and the core run is a session of `C03_reach`.  In particular an entry
        recorded under one registry is undone / redone correctly under another one.
  * `C10_current_after_enable_reach_partial`  at every reached state `enable ks true` makes every
        value of every `k ∈ ks` current (`MeasOK` restricted to `ks`; ids: `C10_enable_ids_current`).
        Partial only in the admissibility: recomputing `enable` of the track-id / lineage key and
        `disable` of them INSIDE the session are excluded (see the witnesses); the final `enable`
        may name any key.

  Part 3 — a disabled feature is frozen:
  * `C10_disabled_frozen_reach_partial`  once `k` is an annotator key that is neither active nor
        registered (the situation right after `disable [k]`), the column `col k` (node id ↦ stored
        value of `k`, in insertion order) of the state reached by ANY operation list without
        `enable` of `k` — any arguments, accepted, refused or raising, undo and redo included, no
        invariant, no admissibility — is the old column with the entries of some nodes dropped,
        every other entry unchanged and in place, followed by entries of nodes that are not among the
        survivors (a node deleted and re-created re-appears at the end).  Hypotheses: no add-node of
        the list supplies a value under `k`, and no `DeleteNode` recorded in the history at the start
        carries a value of `k` (e.g. empty history, or recorded while `k` was off).  Node part only.
  * `C10_disabled_frozen_needs_record_condition`  (witness) without the condition on the recorded
        `DeleteNode`s the timeline-free statement is false: the inverse of such a record, applied in
        a state where the node exists, overwrites the stored value of a node that was never deleted.
-/
import FtProofs.R5BReachLemmas
import FtProofs.R5BShapeLemmas
import FtProofs.R5BFrozenLemmas
import FtProofs.Props.C04_R2F
open Ft Ft.St Ft.R5B Ft.R3D List

namespace Ft.R5B
/-- a session on `exSeg` (array, regionprops key 10 and IoU key 11 active, static key 7) that mixes
    switching with edits, undo and redo: disable area, delete node 2, enable area and IoU with
    recomputation, undo (node 2 comes back under a different registry), add an edge, disable IoU,
    redo (nothing to redo), undo, enable area without recomputation (already active) -/
def exSess : List Op' :=
  [.disable [10], .delNode 2, .enable [10, 11] true, .undo, .addEdge (3, 5) false, .disable [11],
   .redo, .undo, .enable [10] false]

theorem exSeg_regOK : RegOK exSeg [7] [] := by
  constructor <;> intro k <;> simp [exSeg, exS, eq_comm]
end Ft.R5B

/-- FULL. `RegOK` — the registry lists exactly the static keys and the keys of the currently active
    annotator features — holds at every state reached by ANY operation list from a `RegOK` state
    (no admissibility, no invariant; also after every prefix, since the list is arbitrary).  The
    static keys are keys no annotator manages (`hsn`, `hse`; cf. `C10_registry_disable`), and that
    notion does not move along the run. -/
theorem C10_registry_reach (s0 : St) (sn se : List Key)
    (hsn : ∀ k ∈ sn, k ∉ s0.annotKeys) (hse : ∀ k ∈ se, k ∉ s0.annotKeys)
    (hr : RegOK s0 sn se) (ops : List Op') :
    RegOK (run s0 ops) sn se ∧ (run s0 ops).annotKeys = s0.annotKeys ∧
    ∀ pre, pre <+: ops → RegOK (run s0 pre) sn se :=
  ⟨regOK_run s0 sn se hsn hse hr ops, annotKeys_run s0 ops,
    fun pre _ => regOK_run s0 sn se hsn hse hr pre⟩
example : RegOK (run exSeg exSess) [7] [] ∧ (run exSeg exSess).regNode = [7, 10] ∧
    (run exSeg exSess).regEdge = [] ∧ (run exSeg exSess).rpActive = [10] ∧
    (run exSeg exSess).iouActive = false ∧ (run exSeg exSess).hist.undo.length = 3 :=
  ⟨(C10_registry_reach exSeg [7] [] (by decide) (by decide) exSeg_regOK exSess).1,
    by decide, by decide, by decide, by decide, by decide⟩
#print axioms C10_registry_reach

/-- FULL. At every reached state, `enable` (with or without recomputation) and `disable` naming a
    key that no annotator manages answer `err key` (KeyError) and return the state unchanged —
    whatever else the key list contains.  "No annotator manages it" is decided at the START state:
    no operation changes the annotators' capabilities. -/
theorem C10_unknown_reach (s0 : St) (ops : List Op') (ks : List Key) (rc : Bool)
    (h : ∃ k ∈ ks, k ∉ s0.annotKeys) :
    (run s0 ops).step (.enable ks rc) = (run s0 ops, .err .key) ∧
    (run s0 ops).step (.disable ks) = (run s0 ops, .err .key) ∧
    run s0 (ops ++ [.enable ks rc]) = run s0 ops ∧ run s0 (ops ++ [.disable ks]) = run s0 ops := by
  have h' : ∃ k ∈ ks, k ∉ (run s0 ops).annotKeys := by rw [annotKeys_run]; exact h
  obtain ⟨-, -, h1, h2⟩ := C10_unknown (run s0 ops) ks rc h'
  refine ⟨h1, h2, ?_, ?_⟩
  · rw [run_snoc, h1]
  · rw [run_snoc, h2]
example : (run exSeg exSess).step (.enable [10, 99] true) = (run exSeg exSess, .err .key) ∧
    (run exSeg exSess).step (.disable [99]) = (run exSeg exSess, .err .key) :=
  let h := C10_unknown_reach exSeg exSess [10, 99] true ⟨99, by decide, by decide⟩
  ⟨h.1, (C10_unknown_reach exSeg exSess [99] true ⟨99, by decide, by decide⟩).2.1⟩
#print axioms C10_unknown_reach

/-- FULL. At every reached state an attribute update naming `time`, the track-id key, the lineage
    key or ANY key an annotator can manage is refused with `err value` (ValueError) and the state
    is unchanged — whether that feature is currently active or not, registered or not, and whatever
    happened before (the protected set is a constant of the run). -/
theorem C10_protected_reach (s0 : St) (ops : List Op') (n : Node) (attrs : List (Key × Val))
    (h : ∃ kv ∈ attrs, kv.1 = keyTime ∨ kv.1 ∈ s0.annotKeys) :
    (run s0 ops).uUpdateAttrs n attrs = (run s0 ops, .error .value) ∧
    (run s0 ops).step (.updAttrs n attrs) = (run s0 ops, .err .value) ∧
    run s0 (ops ++ [.updAttrs n attrs]) = run s0 ops ∧
    (run s0 ops).protectedKeys = s0.protectedKeys := by
  have h' : ∃ kv ∈ attrs, kv.1 = keyTime ∨ kv.1 ∈ (run s0 ops).annotKeys := by
    rw [annotKeys_run]; exact h
  obtain ⟨h1, h2⟩ := C10_protected (run s0 ops) n attrs h'
  exact ⟨h1, h2, by rw [run_snoc, h2], protectedKeys_run s0 ops⟩
-- after `exSess` the IoU key 11 is switched off and unregistered, the area key 10 is active: both
-- are refused, and so are time (0), track id (1) and lineage id (2)
example : (run exSeg exSess).iouActive = false ∧ 11 ∉ (run exSeg exSess).regEdge ∧
    (run exSeg exSess).step (.updAttrs 1 [(7, .tok 5), (11, .tok 2)]) = (run exSeg exSess, .err .value) ∧
    (run exSeg exSess).step (.updAttrs 1 [(10, .tok 2)]) = (run exSeg exSess, .err .value) ∧
    (run exSeg exSess).step (.updAttrs 3 [(1, .tok 9)]) = (run exSeg exSess, .err .value) :=
  ⟨by decide, by decide,
    (C10_protected_reach exSeg exSess 1 _ ⟨(11, .tok 2), by simp, Or.inr (by decide)⟩).2.1,
    (C10_protected_reach exSeg exSess 1 _ ⟨(10, .tok 2), by simp, Or.inr (by decide)⟩).2.1,
    (C10_protected_reach exSeg exSess 3 _ ⟨(1, .tok 9), by simp, Or.inr (by decide)⟩).2.1⟩
#print axioms C10_protected_reach

/-! ## Part 2 — the weak invariant and `enable … recompute` at every reached state -/

namespace Ft.R5B
open C01R3CEx C02R3DEx C01R3DEx

/-- a session on the array state `XA` (regionprops key 10 and IoU key 11 active and current) mixing
    switching with edits, undo and redo: a paint, disable area, delete node 5 (saved WITHOUT area),
    enable IoU without recomputation (already on), undo (node 5 back, under the registry without
    area), undo (area off: the paint is undone under a different registry than it was recorded),
    redo, disable IoU, a query, enable area WITHOUT recomputation, delete an edge -/
def exSessX : List Op' :=
  [.paint 3 [([5], 2)] 9 false, .disable [10], .delNode 5, .enable [11] false, .undo, .undo, .redo,
   .disable [11], .qHasTrack 1 0, .enable [10] false, .delEdge (1, 2)]

theorem exSessX_ok : SessOK' XA exSessX := by
  have p1 : OpPre XA (.paint 3 [([5], 2)] 9 false) := by
    intro g hg; rw [XA_seg] at hg; cases hg; exact ⟨1, by decide, by decide⟩
  exact ⟨opOK'_edit _ _ rfl p1, opOK'_disable _ _ (by decide), opOK'_edit _ _ rfl trivial,
    opOK'_enable_plain _ _ (by decide), .inl rfl, .inl rfl, .inr (.inl rfl), opOK'_disable _ _ (by decide),
    .inr (.inr (.inl trivial)), opOK'_enable_plain _ _ (by decide), opOK'_edit _ _ rfl trivial, trivial⟩
end Ft.R5B
open C01R3CEx C02R3DEx C01R3DEx

/-- WITNESS. `disable` alone breaks the bundle invariant `R3D.Inv` ("the visible node attributes are
    registered features"): the stored values of the disabled feature stay on the nodes. -/
theorem C10_inv_not_preserved_disable :
    Inv XA ∧ (XA.step (.disable [10])).2 = .ok ∧ ¬ Inv (XA.step (.disable [10])).1 := by
  refine ⟨XA_inv, by decide, fun h => ?_⟩
  exact absurd (h.node.registered 1 10 (by decide)) (by decide)
#print axioms C10_inv_not_preserved_disable

/-- WITNESS (false of the model, hence of the code). Recomputing the track ids inside a history
    and then undoing an older edit breaks C04: on `XA`, delete the division edge (1,2) — node 3 takes
    over the track id 1 of its parent, the record keeps "3 had id 3" —, `enable [track id] recompute`
    renumbers (the isolated node 5 becomes track 3), `undo` gives node 3 its recorded id 3 back:
    the two segment heads 3 and 5 carry the same track id.  All three calls are accepted. -/
theorem C10_inv_not_preserved_tid :
    Inv XA ∧
    (XA.step (.delEdge (1, 2))).2 = .ok ∧ ((run XA [.delEdge (1, 2)]).step (.enable [keyTid] true)).2 = .ok ∧
    ((run XA [.delEdge (1, 2), .enable [keyTid] true]).step .undo).2 = .bool true ∧
    (run XA [.delEdge (1, 2), .enable [keyTid] true, .undo]).Forest ∧
    ¬ (run XA [.delEdge (1, 2), .enable [keyTid] true, .undo]).TidOK := by
  refine ⟨XA_inv, by decide, by decide, by decide, (forestB_iff _).1 (by decide), fun h => ?_⟩
  have he : (run XA [.delEdge (1, 2), .enable [keyTid] true, .undo]).edgeList = [(1, 3), (2, 4), (1, 2)] := by
    decide
  have h3 : (run XA [.delEdge (1, 2), .enable [keyTid] true, .undo]).IsHead 3 := by
    refine ⟨by decide, fun p hp => ?_⟩
    rw [he] at hp
    have : p = 1 := by simpa using hp
    subst this
    decide
  have h5 : (run XA [.delEdge (1, 2), .enable [keyTid] true, .undo]).IsHead 5 := by
    refine ⟨by decide, fun p hp => ?_⟩
    rw [he] at hp
    simp at hp
  exact absurd (h.heads 3 5 h3 h5 (by decide)) (by decide)
#print axioms C10_inv_not_preserved_tid

/-- WITNESS (false of the model, hence of the code). The same for lineage ids: delete node 1 and undo
    (node 1 is re-inserted last), delete the edge (1,2) (the subtree of 2 gets a new lineage, the
    record keeps the old one), `enable [lineage id] recompute` renumbers in insertion order (the
    lineage of 1 is now 2), `undo` re-adds the edge (1,2) and writes the RECORDED lineage 1 on the
    subtree of 2: an edge whose end points carry different lineage ids. -/
theorem C10_inv_not_preserved_lin :
    Inv XA ∧
    (run XA [.delNode 1, .undo, .delEdge (1, 2), .enable [keyLin] true, .undo]).Forest ∧
    ((run XA [.delNode 1, .undo, .delEdge (1, 2)]).step (.enable [keyLin] true)).2 = .ok ∧
    ((run XA [.delNode 1, .undo, .delEdge (1, 2), .enable [keyLin] true]).step .undo).2 = .bool true ∧
    ¬ (run XA [.delNode 1, .undo, .delEdge (1, 2), .enable [keyLin] true, .undo]).LinOK := by
  refine ⟨XA_inv, (forestB_iff _).1 (by decide), by decide, by decide, fun h => ?_⟩
  exact absurd (h.along (1, 2) (by decide)) (by decide)
#print axioms C10_inv_not_preserved_lin

/-- FULL (for the admissibility `SessOK'`: edits with their argument preconditions, undo, redo,
    queries, `enable` / `disable` of any measurement feature in any order, recomputing or not;
    excluded: recomputing `enable` and `disable` of the track-id / lineage key).  From a start state
    with the bundle invariant, an array of whole frames and an empty history, the WEAK invariant
    holds at every reached state (also after every prefix): the annotation-free core satisfies the
    bundle invariant — in particular the state is a forward binary forest, labels and nodes
    correspond one to one (`SegOK`), ids are unique and non-zero, the array consists of whole frames
    — and the core of the reached state is the state the core reaches when the switches are removed
    from the session (history independence of everything but the measurement values). -/
theorem C10_weak_invariant_reach (s0 : St) (h0 : s0.hist = {}) (hI : Inv s0) (g0 : Seg)
    (hg0 : s0.seg = some g0) (hwf : g0.WF) (ops : List Op') (hok : SessOK' s0 ops) :
    WInv (run s0 ops) ∧
    (∀ pre, pre <+: ops → WInv (run s0 pre)) ∧
    (run s0 ops).Forest ∧ SegOK (run s0 ops) ∧ (run s0 ops).ids.Nodup ∧
    (∀ r ∈ (run s0 ops).nodes, r.id ≠ 0) ∧ (∀ g, (run s0 ops).seg = some g → g.WF) ∧
    coreWith (AKeys s0) (run s0 ops) = run (coreWith (AKeys s0) s0) (ops.map (coreOp (AKeys s0))) := by
  have hs : s0.seg.isSome = true := by rw [hg0]; rfl
  obtain ⟨hw, hc⟩ := winv_reach s0 h0 hs hI ops hok
  refine ⟨hw, fun pre hp => ?_, hw.forest, hw.segOK, hw.ids_nodup, hw.ids_ne0, ?_, hc⟩
  · obtain ⟨rest, rfl⟩ := hp
    exact (winv_reach s0 h0 hs hI pre (sessOK'_append pre rest s0 hok)).1
  · exact wf_run (fun g hg => by rw [hg0] at hg; cases hg; exact hwf) ops
example : WInv (run XA exSessX) ∧ SegOK (run XA exSessX) ∧
    ¬ Inv (run XA exSessX) ∧ (run XA exSessX).hist.undo.length = 4 :=
  have h := C10_weak_invariant_reach XA XA_hist XA_inv gA XA_seg (by decide) exSessX exSessX_ok
  ⟨h.1, h.2.2.2.1, fun hi => absurd (hi.node.cur ⟨4, [1,0,0,0, 2,3,3,0, 5,0,0,0, 4,4,0,0]⟩ (by decide) 5 2 (by decide) 10 (by decide))
    (by decide), by decide⟩
#print axioms C10_weak_invariant_reach

/-
  Full statement (C10, "once a feature is enabled with recomputation all its values equal the
  reference values for the current state, for any order of enabling, disabling and editing"):
    the theorem below for EVERY operation list over edits, undo, redo, enable, disable.
  Proved: for the lists admissible in the sense of `SessOK'`.  Missing: sessions in which the
  track-id or the lineage feature is recomputed (`enable [track id / lineage id] true`) or disabled
  in the middle — there the bundle invariant is genuinely lost (`C10_inv_not_preserved_tid`,
  `C10_inv_not_preserved_lin`) and the simulation argument does not apply (later add-node edits read
  the stale track-id lookup).  The FINAL `enable` may name any key, also those two.
-/
/-- PARTIAL (see above). At every state reached by an admissible session — edits, undo, redo,
    queries, `enable` / `disable` of measurement features in any order — an accepted
    `enable ks true` makes every value of every key of `ks` current, whatever is stored, registered
    or active at that moment: every regionprops key of `ks` is active afterwards and its stored
    value on EVERY node is the mask of the current array; if the IoU key is in `ks` the IoU feature
    is active and every edge carries `iouOf` of the final state; if the track-id / lineage key is
    in `ks`, equal id ⇔ same unbranched segment / connected.  (`MeasOK` restricted to `ks`.) -/
theorem C10_current_after_enable_reach_partial (s0 : St) (h0 : s0.hist = {}) (hI : Inv s0)
    (hwf : ∀ g, s0.seg = some g → g.WF) (ops : List Op') (hok : SessOK' s0 ops)
    (ks : List Key) (s' : St) (he : (run s0 ops).enable ks true = some s') :
    (∀ g, s'.seg = some g → (run s0 ops).seg = some g ∧
      (∀ k ∈ ks, k ∈ s0.rpAvail → k ∈ s'.rpActive ∧
        ∀ r ∈ s'.nodes, alook k r.other = some (Val.mask (g.pixelsOf r.time r.id))) ∧
      (∀ k, s0.iouKey = some k → k ∈ ks → s'.iouActive = true ∧
        ∀ er ∈ s'.edges, alook k er.attrs = some (s'.iouOf er.e))) ∧
    (s0.seg.isSome = true →
      (keyTid ∈ ks → ∀ a b, a ∈ s'.ids → b ∈ s'.ids → (s'.tidOf a = s'.tidOf b ↔ s'.SameSeg a b)) ∧
      (keyLin ∈ ks → ∀ a b, a ∈ s'.ids → b ∈ s'.ids → (s'.linOf a = s'.linOf b ↔ s'.Conn a b))) := by
  have hav : avail (run s0 ops) = avail s0 := avail_run s0 ops
  simp only [avail, Prod.mk.injEq] at hav
  constructor
  · intro g hg
    have hsg : (run s0 ops).seg = some g := by rw [← (R2G.Fs.enable he).seg]; exact hg
    cases hg0 : s0.seg with
    | none => rw [seg_none_run hg0 ops] at hsg; cases hsg
    | some g0 =>
      obtain ⟨hw, -⟩ := winv_reach s0 h0 (by rw [hg0]; rfl) hI ops hok
      have hgwf : g.WF := wf_run hwf ops g hsg
      obtain ⟨-, e2, e3⟩ := C10_enable_current (run s0 ops) s' ks g hsg hgwf hw.ids_nodup hw.ids_ne0 hw.segOK he
      refine ⟨hsg, fun k hk ha => e2 k hk (by rw [hav.1]; exact ha), fun k hk hm => e3 k (by rw [hav.2]; exact hk) hm⟩
  · intro hs
    obtain ⟨hw, -⟩ := winv_reach s0 h0 hs hI ops hok
    exact C10_enable_ids_current (run s0 ops) s' ks hw.forest he
/-- after `exSessX` the area key 10 is active but node 5 has no value (it was deleted and restored
    while area was off, then area was enabled WITHOUT recomputation) and the IoU is off with stale
    values; `enable [10, 11] true` makes everything current -/
example : ∃ s', (run XA exSessX).enable [10, 11] true = some s' ∧
    (run XA exSessX).nodes.map (fun r => alook 10 r.other) =
      [some (.mask [0]), some (.mask [4]), some (.mask [5, 6]), some (.mask [12, 13]), none] ∧
    s'.nodes.map (fun r => (r.id, alook 10 r.other)) =
      [(1, some (.mask [0])), (2, some (.mask [4])), (3, some (.mask [5, 6])), (4, some (.mask [12, 13])),
       (5, some (.mask [8]))] ∧
    s'.edges.map (fun r => (r.e, alook 11 r.attrs)) = [((1, 3), some .zero), ((2, 4), some (.iou 1 2))] ∧
    (∀ r ∈ s'.nodes, alook 10 r.other =
      some (Val.mask ((⟨4, [1,0,0,0, 2,3,3,0, 5,0,0,0, 4,4,0,0]⟩ : Seg).pixelsOf r.time r.id))) := by
  refine ⟨_, enable_eq _ [10, 11] true (by decide), by decide, by decide, by decide, ?_⟩
  have h := (C10_current_after_enable_reach_partial XA XA_hist XA_inv
    (fun g hg => by rw [XA_seg] at hg; cases hg; decide) exSessX exSessX_ok [10, 11] _
    (enable_eq _ [10, 11] true (by decide))).1 ⟨4, [1,0,0,0, 2,3,3,0, 5,0,0,0, 4,4,0,0]⟩ (by decide)
  exact (h.2.1 10 (by decide) (by decide)).2
#print axioms C10_current_after_enable_reach_partial

/-! ## Part 3 — a disabled feature is frozen -/

namespace Ft.R5B
/-- `exSeg` with current area values (key 10) -/
def exCurS : St := exSeg.rpCompute [10]

/-- run after `disable [10]`: delete node 2, undo, enable and recompute the IoU (key 11), add an
    edge, a redo with nothing to redo, a refused update of key 10 itself, delete node 4, undo,
    disable the IoU -/
def exSessF : List Op' :=
  [.delNode 2, .undo, .enable [11] true, .addEdge (3, 5) false, .redo, .updAttrs 1 [(10, .tok 3)],
   .delNode 4, .undo, .disable [11]]

/-- a state in which key 10 is off and unregistered, node 2 stores `mask [4]` under it, and the
    history holds a `DeleteNode` of node 2 recorded with another value of key 10 -/
def exBadHist : St :=
  { R2G.exOffStale with
    hist := { undo := [[.delNode ⟨2, 1, 2, some 1, [(7, .tok 1), (10, .mask [9])]⟩ none]], redo := [] } }
end Ft.R5B

/-
  Full statement (C10, "a disabled feature is no longer changed by edits" at whole-history
  strength): after `disable [k]`, for EVERY operation list without `enable` of `k`, the stored value
  of `k` on every node and every edge that survives is unchanged.
  Proved below: the node part, for every operation list (no admissibility at all), under the
  condition that the `DeleteNode`s recorded in the history at the start carry no value of `k`.
  Missing: (i) histories that still hold `DeleteNode`s recorded while `k` was registered — on
  reachable states their undo re-creates a node that is absent (so the statement holds), but that needs
  the timeline argument; without it the claim is false (`C10_disabled_frozen_needs_record_condition`);
  (ii) the edge part (the IoU key on edges).
-/
/-- PARTIAL (see above). -/
theorem C10_disabled_frozen_reach_partial (s1 : St) (k : Key) (hk : k ∈ s1.annotKeys)
    (hoff : k ∉ s1.rpActive) (hunreg : k ∉ s1.regNode) (hH : HistP (FzP k) s1)
    (ops : List Op') (hops : ∀ op ∈ ops, FzAdm k op) :
    (∃ dels extra, col k (run s1 ops) = R2G.colDrop k s1 dels ++ extra ∧
        (∀ p ∈ extra, p.1 ∉ (R2G.colDrop k s1 dels).map (·.1)) ∧
        (∀ p ∈ col k s1, p.1 ∉ dels → p ∈ col k (run s1 ops))) ∧
    k ∉ (run s1 ops).rpActive ∧ k ∉ (run s1 ops).regNode ∧ HistP (FzP k) (run s1 ops) := by
  obtain ⟨h1, h2⟩ := fz_run (k := k) (c0 := col k s1) ops s1 ⟨FrzL.refl _, hoff, hunreg, hk⟩ hH hops
  obtain ⟨dels, extra, he, hf⟩ := h1.frz
  refine ⟨⟨dels, extra, he, hf, fun p hp hd => ?_⟩, h1.off, h1.unreg, h2⟩
  rw [he]
  apply List.mem_append_left
  unfold dropC
  rw [List.mem_filter]
  exact ⟨hp, by simpa using hd⟩
-- `exCurS`: area current on all five nodes; disable it, run `exSessF`: nodes 1, 3, 5 survive with
-- their values, nodes 2 and 4 were deleted and re-created (without the unregistered key)
example : (exCurS.step (.disable [10])).2 = .ok ∧ (∀ op ∈ exSessF, FzAdm 10 op) ∧
    HistP (FzP 10) (exCurS.step (.disable [10])).1 ∧
    col 10 (exCurS.step (.disable [10])).1 =
      [(1, some (.mask [0])), (2, some (.mask [4, 5])), (3, some (.mask [6])), (4, some (.mask [12, 13])),
       (5, some (.mask [8]))] ∧
    col 10 (run (exCurS.step (.disable [10])).1 exSessF) =
      R2G.colDrop 10 (exCurS.step (.disable [10])).1 [2, 4] ++ [(2, none), (4, none)] ∧
    col 10 (run (exCurS.step (.disable [10])).1 exSessF) =
      [(1, some (.mask [0])), (3, some (.mask [6])), (5, some (.mask [8])), (2, none), (4, none)] := by
  refine ⟨by decide, ?_, ?_, by decide, by decide, by decide⟩
  · intro op hop
    simp only [exSessF, List.mem_cons, List.mem_nil_iff, or_false] at hop
    rcases hop with rfl | rfl | rfl | rfl | rfl | rfl | rfl | rfl | rfl <;>
      first | trivial | (show (10 : Key) ∉ _; decide)
  · intro a ha
    rcases ha with ha | ha <;> cases ha
#print axioms C10_disabled_frozen_reach_partial

/-- right after an accepted `disable` naming `k` the hypotheses on the state hold -/
theorem C10_disabled_frozen_after_disable (s s1 : St) (ks : List Key) (k : Key) (hk : k ∈ ks)
    (hd : s.disable ks = some s1) :
    k ∈ s1.annotKeys ∧ k ∉ s1.rpActive ∧ k ∉ s1.regNode ∧ s1.hist = s.hist := by
  unfold disable at hd
  split at hd
  · cases hd
  · rename_i hany
    injection hd with hd
    subst hd
    refine ⟨?_, fun hm => ?_, fun hm => ?_, rfl⟩
    · show k ∈ s.annotKeys
      apply Classical.byContradiction
      intro hn
      exact hany (any_eq_true.2 ⟨k, hk, by simpa using hn⟩)
    · have := (List.mem_filter.1 hm).2
      simp [hk] at this
    · have := (List.mem_filter.1 hm).2
      simp [hk] at this
example : ∃ s1, exCurS.disable [10] = some s1 ∧ 10 ∈ s1.annotKeys ∧ 10 ∉ s1.rpActive ∧ 10 ∉ s1.regNode := by
  cases hd : exCurS.disable [10] with
  | none => unfold disable at hd; rw [if_neg (by decide)] at hd; cases hd
  | some s1 =>
    have h := C10_disabled_frozen_after_disable exCurS s1 [10] 10 (by decide) hd
    exact ⟨s1, rfl, h.1, h.2.1, h.2.2.1⟩
#print axioms C10_disabled_frozen_after_disable

/-- WITNESS. The condition on the recorded `DeleteNode`s cannot be dropped from the timeline-free
    statement: in `exBadHist` key 10 is an annotator key, off and unregistered; `undo` succeeds, no
    node is deleted or created, and the stored value of key 10 on node 2 changes. -/
theorem C10_disabled_frozen_needs_record_condition :
    10 ∈ exBadHist.annotKeys ∧ 10 ∉ exBadHist.rpActive ∧ 10 ∉ exBadHist.regNode ∧
    (exBadHist.step .undo).2 = .bool true ∧ (exBadHist.step .undo).1.ids = exBadHist.ids ∧
    col 10 exBadHist = [(1, none), (2, some (.mask [4])), (3, none), (4, none), (5, none)] ∧
    col 10 (exBadHist.step .undo).1 = [(1, none), (2, some (.mask [9])), (3, none), (4, none), (5, none)] := by
  decide
#print axioms C10_disabled_frozen_needs_record_condition
