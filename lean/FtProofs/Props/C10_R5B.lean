/-
  C10 (round 5, package R5B) — feature switching INSIDE histories.

  "For any order of enabling, disabling and editing, once a feature is enabled with recomputation
   all its values equal the reference values for the current state, exactly the static plus
   currently enabled features are listed in the feature registry, a disabled feature is no longer
   changed by edits, and asking for an unknown feature raises KeyError and changes nothing.  Time
   and every feature an annotator can manage are refused by attribute-update edits, enabled or not."

  The step-wise theorems are in `Props/C10.lean`, `Props/C10_R2G.lean`, `Props/C04_R2F.lean`; the
  whole-history theorems of R3D (`C03_reach` …) exclude `enable` / `disable`.  Here the operation
  language is `Ft.R5B.Op'` = ALL operations of `St.step` (the seven edits, undo, redo,
  `enable ks recompute`, `disable ks`, the queries) and `Ft.R5B.run s ops` is the state after the
  list.

  Part 1 — statements that need NO invariant and NO admissibility (any start state, any operation
  list, any arguments, accepted or refused, also a raising undo):
  * `C10_registry_reach`   `RegOK` (registry = static ∪ active) at every reached state;
  * `C10_unknown_reach`    at every reached state `enable` / `disable` naming a key no annotator
                           manages answers `err key` and returns the state unchanged;
  * `C10_protected_reach`  at every reached state `uUpdateAttrs` naming `time`, the track / lineage
                           key or any annotator key is refused with `err value`, state unchanged.
  "What an annotator can manage" (`annotKeys`) is a constant of the run (`avail_run`).
-/
import FtProofs.R5BLemmas
open Ft Ft.St Ft.R5B List

namespace Ft.R5B
/-- a session on `exSeg` (array, regionprops key 10 and IoU key 11 active, static key 7) that mixes
    switching with edits, undo and redo: disable area, delete node 2, enable area and IoU with
    recomputation, undo (node 2 comes back under a different registry), add an edge, disable IoU,
    redo (nothing to redo), undo, enable area without recomputation (already active) -/
def exSess : List Op' :=
  [.disable [10], .delNode 2, .enable [10, 11] true, .undo, .addEdge (3, 5) false, .disable [11],
   .redo, .undo, .enable [10] false]

theorem exSeg_regOK : RegOK exSeg [7] [] := by
  constructor <;> intro k <;> simp [exSeg, exS, eq_comm]
end Ft.R5B

/-- FULL. `RegOK` — the registry lists exactly the static keys and the keys of the currently active
    annotator features — holds at every state reached by ANY operation list from a `RegOK` state
    (no admissibility, no invariant; also after every prefix, since the list is arbitrary).  The
    static keys are keys no annotator manages (`hsn`, `hse`; cf. `C10_registry_disable`), and that
    notion does not move along the run. -/
theorem C10_registry_reach (s0 : St) (sn se : List Key)
    (hsn : ∀ k ∈ sn, k ∉ s0.annotKeys) (hse : ∀ k ∈ se, k ∉ s0.annotKeys)
    (hr : RegOK s0 sn se) (ops : List Op') :
    RegOK (run s0 ops) sn se ∧ (run s0 ops).annotKeys = s0.annotKeys ∧
    ∀ pre, pre <+: ops → RegOK (run s0 pre) sn se :=
  ⟨regOK_run s0 sn se hsn hse hr ops, annotKeys_run s0 ops,
    fun pre _ => regOK_run s0 sn se hsn hse hr pre⟩
example : RegOK (run exSeg exSess) [7] [] ∧ (run exSeg exSess).regNode = [7, 10] ∧
    (run exSeg exSess).regEdge = [] ∧ (run exSeg exSess).rpActive = [10] ∧
    (run exSeg exSess).iouActive = false ∧ (run exSeg exSess).hist.undo.length = 3 :=
  ⟨(C10_registry_reach exSeg [7] [] (by decide) (by decide) exSeg_regOK exSess).1,
    by decide, by decide, by decide, by decide, by decide⟩
#print axioms C10_registry_reach

/-- FULL. At every reached state, `enable` (with or without recomputation) and `disable` naming a
    key that no annotator manages answer `err key` (KeyError) and return the state unchanged —
    whatever else the key list contains.  "No annotator manages it" is decided at the START state:
    no operation changes the annotators' capabilities. -/
theorem C10_unknown_reach (s0 : St) (ops : List Op') (ks : List Key) (rc : Bool)
    (h : ∃ k ∈ ks, k ∉ s0.annotKeys) :
    (run s0 ops).step (.enable ks rc) = (run s0 ops, .err .key) ∧
    (run s0 ops).step (.disable ks) = (run s0 ops, .err .key) ∧
    run s0 (ops ++ [.enable ks rc]) = run s0 ops ∧ run s0 (ops ++ [.disable ks]) = run s0 ops := by
  have h' : ∃ k ∈ ks, k ∉ (run s0 ops).annotKeys := by rw [annotKeys_run]; exact h
  obtain ⟨-, -, h1, h2⟩ := C10_unknown (run s0 ops) ks rc h'
  refine ⟨h1, h2, ?_, ?_⟩
  · rw [run_snoc, h1]
  · rw [run_snoc, h2]
example : (run exSeg exSess).step (.enable [10, 99] true) = (run exSeg exSess, .err .key) ∧
    (run exSeg exSess).step (.disable [99]) = (run exSeg exSess, .err .key) :=
  let h := C10_unknown_reach exSeg exSess [10, 99] true ⟨99, by decide, by decide⟩
  ⟨h.1, (C10_unknown_reach exSeg exSess [99] true ⟨99, by decide, by decide⟩).2.1⟩
#print axioms C10_unknown_reach

/-- FULL. At every reached state an attribute update naming `time`, the track-id key, the lineage
    key or ANY key an annotator can manage is refused with `err value` (ValueError) and the state
    is unchanged — whether that feature is currently active or not, registered or not, and whatever
    happened before (the protected set is a constant of the run). -/
theorem C10_protected_reach (s0 : St) (ops : List Op') (n : Node) (attrs : List (Key × Val))
    (h : ∃ kv ∈ attrs, kv.1 = keyTime ∨ kv.1 ∈ s0.annotKeys) :
    (run s0 ops).uUpdateAttrs n attrs = (run s0 ops, .error .value) ∧
    (run s0 ops).step (.updAttrs n attrs) = (run s0 ops, .err .value) ∧
    run s0 (ops ++ [.updAttrs n attrs]) = run s0 ops ∧
    (run s0 ops).protectedKeys = s0.protectedKeys := by
  have h' : ∃ kv ∈ attrs, kv.1 = keyTime ∨ kv.1 ∈ (run s0 ops).annotKeys := by
    rw [annotKeys_run]; exact h
  obtain ⟨h1, h2⟩ := C10_protected (run s0 ops) n attrs h'
  exact ⟨h1, h2, by rw [run_snoc, h2], protectedKeys_run s0 ops⟩
-- after `exSess` the IoU key 11 is switched off and unregistered, the area key 10 is active: both
-- are refused, and so are time (0), track id (1) and lineage id (2)
example : (run exSeg exSess).iouActive = false ∧ 11 ∉ (run exSeg exSess).regEdge ∧
    (run exSeg exSess).step (.updAttrs 1 [(7, .tok 5), (11, .tok 2)]) = (run exSeg exSess, .err .value) ∧
    (run exSeg exSess).step (.updAttrs 1 [(10, .tok 2)]) = (run exSeg exSess, .err .value) ∧
    (run exSeg exSess).step (.updAttrs 3 [(1, .tok 9)]) = (run exSeg exSess, .err .value) :=
  ⟨by decide, by decide,
    (C10_protected_reach exSeg exSess 1 _ ⟨(11, .tok 2), by simp, Or.inr (by decide)⟩).2.1,
    (C10_protected_reach exSeg exSess 1 _ ⟨(10, .tok 2), by simp, Or.inr (by decide)⟩).2.1,
    (C10_protected_reach exSeg exSess 3 _ ⟨(1, .tok 9), by simp, Or.inr (by decide)⟩).2.1⟩
#print axioms C10_protected_reach
