/-
  C01 / C02 / C03 / C11 (package R3D) — **the whole-history theorems, no hypothesis left.**

  `Props/C02_R3D.lean` proves the assembly over `St.step` from two explicit hypotheses: `PaintLaw`
  (C01 + C11 of a paint) and `RefusalHyps` (three refusal paths taken after sub-actions were applied).
  Both are discharged in `FtProofs/R3DFinalLemmas.lean`:
  * `paintLaw`     from `paint_step_ok` (R3DLemmas: the recorded primitives of an accepted paint are a
                   lawful chain when read against the UNPAINTED start state — shadow run, array-swap
                   simulation) and `paint_step_err` (R3DRefuseLemmas: the only refusal of a paint under
                   its preconditions is the nested add-node; the applied group is rolled back and the
                   caller restores the stroke; the result is `E`-equal to the start state);
  * `refusalHyps`  delete-node of an existing node (`uDeleteNode_accepts`), the nested actions of a
                   swap whose validations passed (`swapNested_holds`) and the late paths of add-node
                   (`addNodeLate_holds`) are never refused on an `Inv` state.
  What remains are the *argument* preconditions `OpPre` of each operation (R3DBase) and the start
  state invariant `Inv` — satisfied by the concrete states `XA` (array) and `XG` (graph only).
  `enable` / `disable` are not covered (they change the registry, which `E` compares).
-/
import FtProofs.R3DFinalLemmas
import FtProofs.Props.C01_R3D
open Ft Ft.St Ft.R2A1 Ft.R3P Ft.R3D List
open C02R3DEx C01R3CEx C01R3DEx

/-- **C11 for a paint.** From an `Inv` state, under the stroke preconditions: when
    `UserUpdateSegmentation` is refused (under the preconditions the only possible reason is that
    the nested `UserAddNode` for the new label is refused, e.g. a division conflict without
    `force`), the action has rolled back the shrink / delete sub-actions it had applied, `step`
    restores the painted pixels, and the resulting state is equal to the state before the paint up
    to the common equivalence: observationally equal (array bit for bit), and `Inv` again. -/
theorem C11_updateSeg_refused (s : St) (v : Nat) (groups : List (List Pix × Nat)) (tid : Nat) (f : Bool)
    (e : Err) (hI : Inv s) (hpre : OpPre s (.paint v groups tid f))
    (herr : (s.step (.paint v groups tid f)).2 = .err e) :
    E (s.step (.paint v groups tid f)).1 s ∧ ObsEq (s.step (.paint v groups tid f)).1 s ∧
    (s.step (.paint v groups tid f)).1.seg = s.seg ∧ Inv (s.step (.paint v groups tid f)).1 := by
  have h := paintLaw.err s v groups tid f e hI hpre herr
  exact ⟨h, h.1, h.1.seg, Inv.of_E h hI⟩
-- on `XA`: paint the new label 6 over pixel 5 of node 2 and the background pixel 7 (frame 1) on
-- track 1: node 2 shrinks first (`UpdateNodeSeg`), then the nested add-node finds the dividing track
-- predecessor 1 and is refused (`forceable`) — the shrink is rolled back, the stroke restored
example : (XA.step (.paint 6 [([5], 2), ([7], 0)] 1 false)).2 = .err .forceable ∧
    ObsEq (XA.step (.paint 6 [([5], 2), ([7], 0)] 1 false)).1 XA ∧
    (XA.step (.paint 6 [([5], 2), ([7], 0)] 1 false)).1.seg = some gA := by
  have hpre : OpPre XA (.paint 6 [([5], 2), ([7], 0)] 1 false) := by
    intro g hg
    rw [XA_seg] at hg; cases hg
    exact ⟨1, by decide, by decide⟩
  obtain ⟨_, h2, h3, _⟩ := C11_updateSeg_refused XA 6 [([5], 2), ([7], 0)] 1 false .forceable XA_inv hpre
    (by decide)
  exact ⟨by decide, h2, h3.trans XA_seg⟩
#print axioms C11_updateSeg_refused

/-- **C01 over `St.step`, all seven edit operations, no hypothesis beyond `Inv` and the argument
    preconditions `OpPre`.** An accepted edit appends exactly one history entry `recs`, a lawful
    chain over the common equivalence from the old to the new state (for a paint: from the state
    before the caller painted); the new state satisfies `Inv` again; `ActionGroup.inverse()` of the
    entry, from any state in the class of the new state, restores the old state up to `ObsEq`, and
    inverting that inverse reproduces the new state up to `ObsEq`.  A refused edit (C11, every
    refusal path of every operation) leaves a state in the `E`-class of the old one. -/
theorem C01_user_all (s : St) (op : Op) (he : op.isTopEdit = true) (hI : Inv s) (hpre : OpPre s op) :
    ((s.step op).2 = .ok → ∃ recs, (s.step op).1.hist = s.hist.add recs ∧
        Chain E s recs (s.step op).1 ∧ Inv (s.step op).1 ∧
        ∀ t, E t (s.step op).1 →
          ∃ s₂ recs', t.invGroup recs = (s₂, .ok recs') ∧ ObsEq s₂ s ∧ recs'.length = recs.length ∧
            ∃ s₃ recs'', s₂.invGroup recs' = (s₃, .ok recs'') ∧ ObsEq s₃ (s.step op).1) ∧
    (∀ e, (s.step op).2 = .err e →
        E (s.step op).1 s ∧ ObsEq (s.step op).1 s ∧ Inv (s.step op).1) :=
  C01_user_all_of paintLaw refusalHyps s op he hI hpre
-- delete-node, swap, forced add-node with pixels, paint — with array
example :
    (∃ recs, Chain E XA recs (XA.step (.delNode 2)).1 ∧ Inv (XA.step (.delNode 2)).1) ∧
    (∃ recs, Chain E XA recs (XA.step (.swap 4 5)).1 ∧ Inv (XA.step (.swap 4 5)).1) ∧
    (∃ recs, Chain E XA recs (XA.step (.paint 6 [([8], 5), ([9, 10], 0)] 2 false)).1 ∧
      Inv (XA.step (.paint 6 [([8], 5), ([9, 10], 0)] 2 false)).1 ∧
      ∃ s₂ recs', (XA.step (.paint 6 [([8], 5), ([9, 10], 0)] 2 false)).1.invGroup recs = (s₂, .ok recs') ∧
        ObsEq s₂ XA) := by
  refine ⟨?_, ?_, ?_⟩
  · obtain ⟨recs, _, b, c, _⟩ := (C01_user_all XA (.delNode 2) rfl XA_inv trivial).1 rfl
    exact ⟨recs, b, c⟩
  · obtain ⟨recs, _, b, c, _⟩ := (C01_user_all XA (.swap 4 5) rfl XA_inv trivial).1 rfl
    exact ⟨recs, b, c⟩
  · have hpre : OpPre XA (.paint 6 [([8], 5), ([9, 10], 0)] 2 false) := by
      intro g hg
      rw [XA_seg] at hg; cases hg
      exact ⟨2, by decide, by decide⟩
    obtain ⟨recs, _, b, c, d⟩ := (C01_user_all XA (.paint 6 [([8], 5), ([9, 10], 0)] 2 false) rfl XA_inv hpre).1 rfl
    obtain ⟨s₂, recs', h1, h2, _⟩ := d _ (E_isEquiv.refl _)
    exact ⟨recs, b, c, s₂, recs', h1, h2⟩
#print axioms C01_user_all

/-- **C02 for every admissible session, no hypothesis left.** From a start state with `Inv` and an
    empty history, for EVERY operation list in which each operation is undo, redo, a query, or one
    of the seven top-level edits whose arguments satisfy `OpPre` at the state where it is applied
    (accepted or refused): the session refines the never-forgetting timeline — the current state is
    `E`-equal (so `ObsEq`) to the timeline state under the cursor, `|states| = |undo_stack| + 1`,
    `cursor + |redo_stack| = |undo_stack|`, every `undo` / `redo` returned the Boolean the timeline
    predicts (in particular never raised), and the refinement invariant holds (`Rec := Chain E`). -/
theorem C02_session_valid (s0 : St) (h0 : s0.hist = {}) (hI : Inv s0) (ops : List Op) (hs : SessOK s0 ops) :
    (∃ x, (sessFinal s0 ⟨[s0], 0⟩ ops).2.states[(sessFinal s0 ⟨[s0], 0⟩ ops).2.cur]? = some x ∧
          E (sessFinal s0 ⟨[s0], 0⟩ ops).1 x ∧ ObsEq (sessFinal s0 ⟨[s0], 0⟩ ops).1 x) ∧
    (sessFinal s0 ⟨[s0], 0⟩ ops).2.states.length = (sessFinal s0 ⟨[s0], 0⟩ ops).1.hist.undo.length + 1 ∧
    (sessFinal s0 ⟨[s0], 0⟩ ops).2.cur + (sessFinal s0 ⟨[s0], 0⟩ ops).1.hist.redo.length
      = (sessFinal s0 ⟨[s0], 0⟩ ops).1.hist.undo.length ∧
    SessAgree s0 ⟨[s0], 0⟩ ops ∧
    Hist.Refines RecE E ((sessFinal s0 ⟨[s0], 0⟩ ops).1.hist, (sessFinal s0 ⟨[s0], 0⟩ ops).1)
      (sessFinal s0 ⟨[s0], 0⟩ ops).2 ∧
    SessValid RecE E s0 ops :=
  C02_session_valid_of paintLaw refusalHyps s0 h0 hI ops hs

namespace C02R3DMainEx
/-- a session on the array state `XA`: paint (node 2 shrinks, node 3 grows), delete-node, undo, undo,
    redo, a refused paint (nested add-node refused, rolled back), a paint that creates node 6, undo -/
def sessA : List Op :=
  [.paint 3 [([5], 2)] 9 false, .delNode 5, .undo, .undo, .redo,
   .paint 6 [([6], 3), ([7], 0)] 1 false, .qHasTrack 1 0, .undo]
theorem sessA_ok : SessOK XA sessA := by
  have p1 : OpPre XA (.paint 3 [([5], 2)] 9 false) := by
    intro g hg; rw [XA_seg] at hg; cases hg; exact ⟨1, by decide, by decide⟩
  refine ⟨.inr (.inr (.inr ⟨rfl, p1⟩)), .inr (.inr (.inr ⟨rfl, trivial⟩)), .inl rfl, .inl rfl,
    .inr (.inl rfl), .inr (.inr (.inr ⟨rfl, ?_⟩)), .inr (.inr (.inl trivial)), .inl rfl, trivial⟩
  intro g hg
  have hs : (sessFinal XA ⟨[XA], 0⟩ [.paint 3 [([5], 2)] 9 false, .delNode 5, .undo, .undo, .redo]).1.seg
      = some ⟨4, [1,0,0,0, 2,3,3,0, 5,0,0,0, 4,4,0,0]⟩ := by decide
  change (sessFinal XA ⟨[XA], 0⟩ [.paint 3 [([5], 2)] 9 false, .delNode 5, .undo, .undo, .redo]).1.seg
      = some g at hg
  rw [hs] at hg; cases hg
  exact ⟨1, by decide, by decide⟩
end C02R3DMainEx
open C02R3DMainEx

example : (sessFinal XA ⟨[XA], 0⟩ sessA).2.cur = 0 ∧ (sessFinal XA ⟨[XA], 0⟩ sessA).2.states.length = 3 ∧
    (sessFinal XA ⟨[XA], 0⟩ sessA).1.hist.redo.length = 2 ∧
    ∃ x, (sessFinal XA ⟨[XA], 0⟩ sessA).2.states[0]? = some x ∧ ObsEq (sessFinal XA ⟨[XA], 0⟩ sessA).1 x := by
  obtain ⟨⟨x, h1, _, h3⟩, _⟩ := C02_session_valid XA XA_hist XA_inv sessA sessA_ok
  have hc : (sessFinal XA ⟨[XA], 0⟩ sessA).2.cur = 0 := by decide
  rw [hc] at h1
  exact ⟨hc, by decide, by decide, x, h1, h3⟩
#print axioms C02_session_valid

/-- **C03 (– C07) for every admissible session, no hypothesis left.** Every state reached — after
    the whole list and after every prefix of it —, and every state on the timeline, satisfies the
    bundle invariant; in particular it is `Valid`: a forward-in-time binary forest (`Forest`) with
    exact track ids (`TidOK`: equal id ⇔ same unbranched segment), exact lineage ids (`LinOK`: equal
    id ⇔ connected) and exact lookups / id maxima (`BookOK`); labels and nodes correspond
    one-to-one (`SegOK`). -/
theorem C03_reach (s0 : St) (h0 : s0.hist = {}) (hI : Inv s0) (ops : List Op) (hs : SessOK s0 ops) :
    (∀ pre, pre <+: ops → Inv (sessFinal s0 ⟨[s0], 0⟩ pre).1) ∧
    Inv (sessFinal s0 ⟨[s0], 0⟩ ops).1 ∧
    (sessFinal s0 ⟨[s0], 0⟩ ops).1.Valid ∧
    (sessFinal s0 ⟨[s0], 0⟩ ops).1.Forest ∧ (sessFinal s0 ⟨[s0], 0⟩ ops).1.TidOK ∧
    (sessFinal s0 ⟨[s0], 0⟩ ops).1.LinOK ∧ (sessFinal s0 ⟨[s0], 0⟩ ops).1.BookOK ∧
    SegOK (sessFinal s0 ⟨[s0], 0⟩ ops).1 ∧
    (∀ a b, a ∈ (sessFinal s0 ⟨[s0], 0⟩ ops).1.ids → b ∈ (sessFinal s0 ⟨[s0], 0⟩ ops).1.ids →
      ((sessFinal s0 ⟨[s0], 0⟩ ops).1.tidOf a = (sessFinal s0 ⟨[s0], 0⟩ ops).1.tidOf b ↔
        (sessFinal s0 ⟨[s0], 0⟩ ops).1.SameSeg a b)) ∧
    (∀ a b, a ∈ (sessFinal s0 ⟨[s0], 0⟩ ops).1.ids → b ∈ (sessFinal s0 ⟨[s0], 0⟩ ops).1.ids →
      ((sessFinal s0 ⟨[s0], 0⟩ ops).1.linOf a = (sessFinal s0 ⟨[s0], 0⟩ ops).1.linOf b ↔
        (sessFinal s0 ⟨[s0], 0⟩ ops).1.Conn a b)) ∧
    (∀ x ∈ (sessFinal s0 ⟨[s0], 0⟩ ops).2.states, Inv x) := by
  obtain ⟨a, b, c, d, e, f, g, h⟩ := C03_reach_of paintLaw refusalHyps s0 h0 hI ops hs
  obtain ⟨i, j⟩ := C03_reach_ids_of paintLaw refusalHyps s0 h0 hI ops hs
  exact ⟨a, b, b.valid, c, d, e, f, g, i, j, h⟩
example : (sessFinal XA ⟨[XA], 0⟩ sessA).1.Valid ∧ SegOK (sessFinal XA ⟨[XA], 0⟩ sessA).1 ∧
    (sessFinal XG ⟨[XG], 0⟩ sessG).1.Valid := by
  have hG : SessOK XG sessG := by
    refine ⟨.inr (.inr (.inr ⟨rfl, trivial⟩)), .inr (.inr (.inr ⟨rfl, ?_⟩)), .inl rfl, .inl rfl,
      .inr (.inl rfl), .inr (.inr (.inr ⟨rfl, trivial⟩)), .inr (.inr (.inl trivial)),
      .inr (.inr (.inr ⟨rfl, trivial⟩)), .inl rfl, .inr (.inl rfl), .inl rfl, trivial⟩
    intro kv hkv
    rw [List.mem_singleton.1 hkv]
    exact ⟨fun _ => by decide, fun _ _ => by decide⟩
  have h := C03_reach XA XA_hist XA_inv sessA sessA_ok
  exact ⟨h.2.2.1, h.2.2.2.2.2.2.2.1, (C03_reach XG XG_hist XG_inv sessG hG).2.2.1⟩
#print axioms C03_reach

/-- **undo restores, redo re-applies — after any admissible session.** Let `s` be the state reached
    from an `Inv` start state with empty history by any admissible operation list. For every edit
    `op` with `OpPre s op` that is accepted at `s`: the following `undo()` answers `True` and restores
    `s` up to `ObsEq`; the `redo()` after it answers `True` and reproduces the post-edit state up to
    `ObsEq`; both states satisfy `Inv`. -/
theorem C01_undo_restores (s0 : St) (h0 : s0.hist = {}) (hI : Inv s0) (ops : List Op) (hs : SessOK s0 ops)
    (op : Op) (he : op.isTopEdit = true) (hpre : OpPre (sessFinal s0 ⟨[s0], 0⟩ ops).1 op)
    (hok : ((sessFinal s0 ⟨[s0], 0⟩ ops).1.step op).2 = .ok) :
    let s := (sessFinal s0 ⟨[s0], 0⟩ ops).1
    ((s.step op).1.step .undo).2 = .bool true ∧ ObsEq ((s.step op).1.step .undo).1 s ∧
    (((s.step op).1.step .undo).1.step .redo).2 = .bool true ∧
    ObsEq (((s.step op).1.step .undo).1.step .redo).1 (s.step op).1 ∧
    Inv ((s.step op).1.step .undo).1 ∧ Inv (((s.step op).1.step .undo).1.step .redo).1 :=
  C01_undo_restores_of paintLaw refusalHyps _ op he (C03_reach s0 h0 hI ops hs).2.1 hpre hok
-- after the session `sessA` (which ends `ObsEq` to `XA`): erase node 5, undo, redo
example : ObsEq (((sessFinal XA ⟨[XA], 0⟩ sessA).1.step (.paint 0 [([8], 5)] 9 false)).1.step .undo).1
    (sessFinal XA ⟨[XA], 0⟩ sessA).1 := by
  have hpre : OpPre (sessFinal XA ⟨[XA], 0⟩ sessA).1 (.paint 0 [([8], 5)] 9 false) := by
    intro g hg
    have hs : (sessFinal XA ⟨[XA], 0⟩ sessA).1.seg = some gA := by decide
    rw [hs] at hg; cases hg
    exact ⟨2, by decide, by decide⟩
  exact (C01_undo_restores XA XA_hist XA_inv sessA sessA_ok (.paint 0 [([8], 5)] 9 false) rfl hpre
    (by decide)).2.1
#print axioms C01_undo_restores
