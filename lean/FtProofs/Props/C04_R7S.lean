/-
  C04 / C05 / C06 on the CONSTRUCTION of a SolutionTracks object — package R7S.

  C04: "In a tracking solution — after construction from a graph without ids and after every
        accepted user action, undo or redo — two nodes carry the same track id iff they lie on the
        same unbranched segment …"; C05 the same for lineage ids and connected components;
  C06: the lookups list exactly the nodes that carry the id.

  `_check_existing_feature` samples the FIRST node of the graph only:
  * the first node lacks the tracklet key  → the ids of ALL nodes are (re)computed by
    `_assign_tracklet_ids` = `St.assignTracklets` on the graph as the TrackAnnotator reads it
    (`graphSt`), the bookkeeping is the computed one (`C04_construct_ids`, first part; with
    `Forest`: `C04_construct_ids_segments` = the text of C04 via `C04_assign_iff`);
  * the first node carries it → nothing is computed, every node keeps what it had (also a node
    WITHOUT an id, and also ids that label no segment: `C04_note_first_node_sampled`), and the
    bookkeeping is `_get_max_id_and_map` over the existing values (`C06_construct_book_from_graph`:
    it lists exactly the nodes that carry a non-None id).
  The same for the lineage key (`C05_construct_ids`, `C05_construct_ids_components`).

  Hypotheses (explicit, decidable, satisfied by every sensible call): no FeatureDict, a solution,
  the tracklet key differs from the lineage key, and with an array neither is one of the
  regionprops / IoU keys (`Ft.R7S.segKeyList`).
-/
import FtProofs.R7SIdLemmas
import FtProofs.Props.C04_R2F
import FtProofs.Props.C10_R7S
open Ft Ft.Construct Ft.R7S Ft.St List

namespace Ft.R7S

theorem mem_computed_track (o : COut) (k : Name) : (AKind.track, k) ∈ o.computed ↔ k ∈ trackLog o := by
  unfold trackLog
  simp only [mem_map, mem_filter]
  constructor
  · intro h; exact ⟨(AKind.track, k), ⟨h, rfl⟩, rfl⟩
  · rintro ⟨⟨kind, k'⟩, ⟨h, hb⟩, rfl⟩
    cases kind
    · have hb' : (AKind.rp == AKind.track) = true := hb
      exact absurd hb' (by decide)
    · have hb' : (AKind.edge == AKind.track) = true := hb
      exact absurd hb' (by decide)
    · exact h

def idT (v : NV) : Node × Option Nat := (v.id, v.tid)
def idL (v : NV) : Node × Option Nat := (v.id, v.lin)

theorem map_idT_view (tk lk : Name) (ns : List CNode) :
    ns.map (fun n => (n.id, attrVal n tk)) = (ns.map (view tk lk)).map idT := by
  rw [map_map]; rfl

theorem map_idL_view (tk lk : Name) (ns : List CNode) :
    ns.map (fun n => (n.id, attrVal n lk)) = (ns.map (view tk lk)).map idL := by
  rw [map_map]; rfl

theorem map_idT_writeLin (s : St) (vs : List NV) : (vs.map (writeLin s)).map idT = vs.map idT := by
  rw [map_map]; rfl

theorem map_idL_writeTid (s : St) (vs : List NV) : (vs.map (writeTid s)).map idL = vs.map idL := by
  rw [map_map]; rfl

theorem mkTrack_cons (n0 : CNode) (rest : List CNode) (tk lk : Name) :
    (mkTrack (n0 :: rest) (some tk) (some lk)).tSrc = BookSrc.fromGraph ∧
    (mkTrack (n0 :: rest) (some tk) (some lk)).lSrc = BookSrc.fromGraph ∧
    ((mkTrack (n0 :: rest) (some tk) (some lk)).maxT, (mkTrack (n0 :: rest) (some tk) (some lk)).t2n) =
      maxIdMap (n0 :: rest) tk ∧
    ((mkTrack (n0 :: rest) (some tk) (some lk)).maxL, (mkTrack (n0 :: rest) (some tk) (some lk)).l2n) =
      maxIdMap (n0 :: rest) lk := by
  unfold mkTrack
  simp

/-- `exSol` with ids on every node -/
def exSolIds : CInput := { solution := true, hasSeg := false, ndim := 3, nodes := exNodesIds, edges := exEdges }

/-- the nodes after the tracklet step of the constructor -/
def nodesAfterT (i : CInput) : List CNode :=
  let tk := i.trackletAttr.getD "track_id"
  let lk := i.lineageAttr.getD "lineage_id"
  if checkExisting { nodes := i.nodes } tk then i.nodes
  else i.nodes.map (fun n => setAttr n tk ((graphSt i.nodes i.edges tk lk).assignTracklets.tidOf n.id))

end Ft.R7S

/-! ## C04: track ids at construction -/

/-- a solution built (without FeatureDict) from a graph with at least one node: if the FIRST node
    lacks the tracklet key, the track ids of all nodes are computed by the bulk assignment
    `assignTracklets` (on the graph as the TrackAnnotator reads it) and the bookkeeping is the
    computed one; if the first node carries the key, nothing is computed, every node keeps its
    value and the bookkeeping is built from the existing values -/
theorem C04_construct_ids (i : CInput) (hp : i.prebuilt = none) (hsol : i.solution = true)
    (hne : i.trackletAttr.getD "track_id" ≠ i.lineageAttr.getD "lineage_id")
    (hsep : i.hasSeg = true → i.trackletAttr.getD "track_id" ∉ segKeyList ∧
                               i.lineageAttr.getD "lineage_id" ∉ segKeyList)
    (n0 : CNode) (rest : List CNode) (hn : i.nodes = n0 :: rest) :
    let tk := i.trackletAttr.getD "track_id"
    let lk := i.lineageAttr.getD "lineage_id"
    let sT := (graphSt i.nodes i.edges tk lk).assignTracklets
    ∃ a, (construct i).track = some a ∧ a.tKey = tk ∧ a.lKey = lk ∧ (construct i).edges = i.edges ∧
      (hasKey tk n0.attrs = false →
        (AKind.track, tk) ∈ (construct i).computed ∧ a.tSrc = BookSrc.computed ∧
        a.t2n = sT.t2n ∧ a.maxT = sT.maxTid ∧
        (construct i).nodes.map (fun n => (n.id, attrVal n tk)) = i.nodes.map (fun n => (n.id, sT.tidOf n.id))) ∧
      (hasKey tk n0.attrs = true →
        (AKind.track, tk) ∉ (construct i).computed ∧ a.tSrc = BookSrc.fromGraph ∧
        (a.maxT, a.t2n) = maxIdMap i.nodes tk ∧
        (construct i).nodes.map (fun n => (n.id, attrVal n tk)) = i.nodes.map (fun n => (n.id, attrVal n tk))) := by
  dsimp only
  obtain ⟨h1, h2, h3, aF, h4, h5, h6, h7, _⟩ := construct_ids i hp hsol hne hsep
  generalize i.trackletAttr.getD "track_id" = tk at *
  generalize i.lineageAttr.getD "lineage_id" = lk at *
  have hfirst : firstHas (·.hasT) (i.nodes.map (view tk lk)) = hasKey tk n0.attrs := by rw [hn]; rfl
  have hgs : graphSt i.nodes i.edges tk lk = stOfViews (i.nodes.map (view tk lk)) i.edges := graphSt_eq_views _ _ _ _
  refine ⟨aF, h4, h5, h6, h1, fun hf => ?_, fun hf => ?_⟩
  · rw [hfirst, hf] at h7 h3 h2
    simp only [Bool.false_eq_true, if_false] at h7 h3 h2
    injection h7 with e1 e2
    injection e2 with e2 e3
    refine ⟨?_, e3, ?_, ?_, ?_⟩
    · rw [mem_computed_track, h3]; simp
    · rw [e1, hgs]
    · rw [e2, hgs]
    · rw [map_idT_view tk lk, h2]
      have : ∀ vs1 : List NV, (if firstHas (·.hasL) (i.nodes.map (view tk lk)) = true then vs1
          else vs1.map (writeLin (stOfViews vs1 i.edges).assignLineages)).map idT = vs1.map idT := by
        intro vs1; split
        · rfl
        · exact map_idT_writeLin _ _
      rw [this, hgs, map_map, map_map]
      rfl
  · rw [hfirst, hf] at h7 h3 h2
    simp only [if_true] at h7 h3 h2
    injection h7 with e1 e2
    injection e2 with e2 e3
    obtain ⟨m1, _, m3, _⟩ := mkTrack_cons n0 rest tk lk
    refine ⟨?_, ?_, ?_, ?_⟩
    · rw [mem_computed_track, h3]
      simp only [nil_append]
      split
      · simp
      · simp only [mem_singleton]; exact hne
    · rw [e3, hn]; exact m1
    · rw [e2, e1, hn]; exact m3
    · rw [map_idT_view tk lk, h2, map_idT_view tk lk]
      split
      · rfl
      · exact map_idT_writeLin _ _

-- first node without ids (nodes 2 and 3 carry stale ones): everything recomputed
example : exSol.prebuilt = none ∧ exSol.nodes = exNodes ∧
    (construct exSol).nodes.map (fun n => (n.id, attrVal n "track_id")) = [(1, some 1), (2, some 2), (3, some 3)] ∧
    (construct exSol).track.map (fun a => (a.tSrc, a.t2n, a.maxT)) =
      some (.computed, [(1, [1]), (2, [2]), (3, [3])], 3) := by decide
-- first node with ids: kept, bookkeeping read from the graph
example : (construct exSolIds).computed = [] ∧
    (construct exSolIds).track.map (fun a => (a.tSrc, a.t2n, a.maxT)) =
      some (.fromGraph, [(4, [1]), (7, [2]), (8, [3])], 8) ∧
    (construct exSolIds).track.map (fun a => (a.lSrc, a.l2n, a.maxL)) = some (.fromGraph, [(9, [1, 2, 3])], 9) :=
  ⟨by decide, by decide, by decide⟩
#print axioms C04_construct_ids

/-- the text of C04 for the computed case: on a forward binary forest, after construction two
    nodes carry the same track id iff they lie on the same unbranched segment -/
theorem C04_construct_ids_segments (i : CInput) (hp : i.prebuilt = none) (hsol : i.solution = true)
    (hne : i.trackletAttr.getD "track_id" ≠ i.lineageAttr.getD "lineage_id")
    (hsep : i.hasSeg = true → i.trackletAttr.getD "track_id" ∉ segKeyList ∧
                               i.lineageAttr.getD "lineage_id" ∉ segKeyList)
    (n0 : CNode) (rest : List CNode) (hn : i.nodes = n0 :: rest)
    (hfirst : hasKey (i.trackletAttr.getD "track_id") n0.attrs = false)
    (hF : (graphSt i.nodes i.edges (i.trackletAttr.getD "track_id") (i.lineageAttr.getD "lineage_id")).Forest) :
    ∀ x ∈ (construct i).nodes, ∀ y ∈ (construct i).nodes,
      (attrVal x (i.trackletAttr.getD "track_id")).isSome ∧
      (attrVal x (i.trackletAttr.getD "track_id") = attrVal y (i.trackletAttr.getD "track_id") ↔
        (graphSt i.nodes i.edges (i.trackletAttr.getD "track_id") (i.lineageAttr.getD "lineage_id")).SameSeg x.id y.id) := by
  obtain ⟨a, _, _, _, _, hc, _⟩ := C04_construct_ids i hp hsol hne hsep n0 rest hn
  obtain ⟨_, _, _, _, hlist⟩ := hc hfirst
  generalize i.trackletAttr.getD "track_id" = tk at *
  generalize i.lineageAttr.getD "lineage_id" = lk at *
  have hids : (graphSt i.nodes i.edges tk lk).ids = i.nodes.map (·.id) := by
    unfold graphSt St.ids; simp [map_map, Function.comp_def]
  have key : ∀ x ∈ (construct i).nodes, x.id ∈ (graphSt i.nodes i.edges tk lk).ids ∧
      attrVal x tk = (graphSt i.nodes i.edges tk lk).assignTracklets.tidOf x.id := by
    intro x hx
    have : (x.id, attrVal x tk) ∈ (construct i).nodes.map (fun n => (n.id, attrVal n tk)) :=
      mem_map.2 ⟨x, hx, rfl⟩
    rw [hlist, mem_map] at this
    obtain ⟨n, hnm, he⟩ := this
    injection he with e1 e2
    refine ⟨?_, ?_⟩
    · rw [hids, ← e1]; exact mem_map.2 ⟨n, hnm, rfl⟩
    · rw [← e2, e1]
  intro x hx y hy
  obtain ⟨hxi, hxv⟩ := key x hx
  obtain ⟨hyi, hyv⟩ := key y hy
  have hiff := (C04_assign_iff _ hF x.id y.id hxi hyi).1
  refine ⟨?_, by rw [hxv, hyv]; exact hiff⟩
  rw [hxv]
  have hids' : x.id ∈ (graphSt i.nodes i.edges tk lk).assignTracklets.ids := by
    have := (C04_assign_forest (graphSt i.nodes i.edges tk lk)).2.1
    have h2 : (graphSt i.nodes i.edges tk lk).assignTracklets.ids = (graphSt i.nodes i.edges tk lk).ids := by
      have := congrArg (fun g => g.1.map (·.1)) this
      simpa [G, nt, St.ids, map_map, Function.comp_def] using this
    rw [h2]; exact hxi
  unfold St.tidOf St.findNode
  unfold St.ids at hids'
  rw [mem_map] at hids'
  obtain ⟨r, hr, hrid⟩ := hids'
  cases hfind : find? (fun r => r.id == x.id) (graphSt i.nodes i.edges tk lk).assignTracklets.nodes with
  | none =>
    have := find?_eq_none.1 hfind r hr
    simp [hrid] at this
  | some r' => rfl

-- every hypothesis holds of `exSol` (first node without ids, division 1 → {2, 3}): three segments
example : ∀ x ∈ (construct exSol).nodes, ∀ y ∈ (construct exSol).nodes,
    (attrVal x "track_id").isSome ∧
    (attrVal x "track_id" = attrVal y "track_id" ↔
      (graphSt exSol.nodes exSol.edges "track_id" "lineage_id").SameSeg x.id y.id) :=
  C04_construct_ids_segments exSol rfl rfl (by decide) (by intro h; cases h) _ _ rfl (by decide) (by decide)
#print axioms C04_construct_ids_segments

/-! ## C05: lineage ids at construction -/

namespace Ft.R7S

theorem nodesAfterT_views (i : CInput) (tk lk : Name) (htk : tk = i.trackletAttr.getD "track_id")
    (hlk : lk = i.lineageAttr.getD "lineage_id") (hne : tk ≠ lk) :
    (nodesAfterT i).map (view tk lk) =
      (if firstHas (·.hasT) (i.nodes.map (view tk lk)) = true then i.nodes.map (view tk lk)
       else (i.nodes.map (view tk lk)).map (writeTid (stOfViews (i.nodes.map (view tk lk)) i.edges).assignTracklets)) := by
  subst htk hlk
  unfold nodesAfterT
  simp only
  have hc := checkExisting_tk { nodes := i.nodes } (i.trackletAttr.getD "track_id") (i.lineageAttr.getD "lineage_id")
  simp only at hc
  rw [hc]
  split
  · rfl
  · rw [map_map, map_map, graphSt_eq_views]
    apply map_congr_left
    intro n _
    simp only [Function.comp]
    rw [view_setAttr_tk _ _ _ n hne]
    rfl

theorem map_id_writeTid (s : St) (vs : List NV) : (vs.map (writeTid s)).map (·.id) = vs.map (·.id) := by
  rw [map_map]; rfl

end Ft.R7S

/-- the lineage side of `C04_construct_ids`: the FIRST node decides; computed lineage ids are
    `assignLineages` of the graph as it stands after the tracklet step (`nodesAfterT`: same nodes,
    same edges, same lineage values — only track ids may have been rewritten) -/
theorem C05_construct_ids (i : CInput) (hp : i.prebuilt = none) (hsol : i.solution = true)
    (hne : i.trackletAttr.getD "track_id" ≠ i.lineageAttr.getD "lineage_id")
    (hsep : i.hasSeg = true → i.trackletAttr.getD "track_id" ∉ segKeyList ∧
                               i.lineageAttr.getD "lineage_id" ∉ segKeyList)
    (n0 : CNode) (rest : List CNode) (hn : i.nodes = n0 :: rest) :
    let tk := i.trackletAttr.getD "track_id"
    let lk := i.lineageAttr.getD "lineage_id"
    let sL := (graphSt (nodesAfterT i) i.edges tk lk).assignLineages
    ∃ a, (construct i).track = some a ∧ a.tKey = tk ∧ a.lKey = lk ∧
      (hasKey lk n0.attrs = false →
        (AKind.track, lk) ∈ (construct i).computed ∧ a.lSrc = BookSrc.computed ∧
        a.l2n = sL.l2n ∧ a.maxL = sL.maxLin ∧
        (construct i).nodes.map (fun n => (n.id, attrVal n lk)) = i.nodes.map (fun n => (n.id, sL.linOf n.id))) ∧
      (hasKey lk n0.attrs = true →
        (AKind.track, lk) ∉ (construct i).computed ∧ a.lSrc = BookSrc.fromGraph ∧
        (a.maxL, a.l2n) = maxIdMap i.nodes lk ∧
        (construct i).nodes.map (fun n => (n.id, attrVal n lk)) = i.nodes.map (fun n => (n.id, attrVal n lk))) := by
  dsimp only
  obtain ⟨_, h2, h3, aF, h4, h5, h6, _, h8⟩ := construct_ids i hp hsol hne hsep
  have hV := nodesAfterT_views i _ _ rfl rfl hne
  generalize hgt : i.trackletAttr.getD "track_id" = tk at *
  generalize hgl : i.lineageAttr.getD "lineage_id" = lk at *
  have hfirst : firstHas (·.hasL) (i.nodes.map (view tk lk)) = hasKey lk n0.attrs := by rw [hn]; rfl
  have hgs : graphSt (nodesAfterT i) i.edges tk lk = stOfViews ((nodesAfterT i).map (view tk lk)) i.edges :=
    graphSt_eq_views _ _ _ _
  rw [hV] at hgs
  refine ⟨aF, h4, h5, h6, fun hf => ?_, fun hf => ?_⟩
  · rw [hfirst, hf] at h8 h3 h2
    simp only [Bool.false_eq_true, if_false] at h8 h3 h2
    injection h8 with e1 e2
    injection e2 with e2 e3
    refine ⟨?_, e3, ?_, ?_, ?_⟩
    · rw [mem_computed_track, h3]; simp
    · rw [e1, hgs]
    · rw [e2, hgs]
    · rw [map_idL_view tk lk, h2, hgs, map_map]
      have hidl : ∀ (s : St) (vs : List NV), vs.map (idL ∘ writeLin s) = vs.map (fun v => (v.id, s.linOf v.id)) := by
        intro s vs; rfl
      rw [hidl]
      have hids : ∀ vs' : List NV, vs'.map (·.id) = i.nodes.map (·.id) →
          ∀ s : St, vs'.map (fun v => (v.id, s.linOf v.id)) = i.nodes.map (fun n => (n.id, s.linOf n.id)) := by
        intro vs' h s
        have h1 : vs'.map (fun v => (v.id, s.linOf v.id)) = (vs'.map (·.id)).map (fun x => (x, s.linOf x)) := by
          rw [map_map]; rfl
        have h2 : i.nodes.map (fun n => (n.id, s.linOf n.id)) = (i.nodes.map (·.id)).map (fun x => (x, s.linOf x)) := by
          rw [map_map]; rfl
        rw [h1, h2, h]
      apply hids
      split
      · rw [map_map]; rfl
      · rw [map_id_writeTid, map_map]; rfl
  · rw [hfirst, hf] at h8 h3 h2
    simp only [if_true] at h8 h3 h2
    injection h8 with e1 e2
    injection e2 with e2 e3
    obtain ⟨_, m2, _, m4⟩ := mkTrack_cons n0 rest tk lk
    refine ⟨?_, ?_, ?_, ?_⟩
    · rw [mem_computed_track, h3]
      simp only [append_nil]
      split
      · simp
      · simp only [mem_singleton]; exact fun h => hne h.symm
    · rw [e3, hn]; exact m2
    · rw [e2, e1, hn]; exact m4
    · rw [map_idL_view tk lk, h2, map_idL_view tk lk]
      split
      · rfl
      · exact map_idL_writeTid _ _

example : (construct exSol).nodes.map (fun n => (n.id, attrVal n "lineage_id")) = [(1, some 1), (2, some 1), (3, some 1)] ∧
    (construct exSol).track.map (fun a => (a.lSrc, a.l2n, a.maxL)) = some (.computed, [(1, [1, 2, 3])], 1) :=
  ⟨by decide, by decide⟩
#print axioms C05_construct_ids

/-- the text of C05 for the computed case: on a forward binary forest, after construction two
    nodes carry the same lineage id iff they are connected (ignoring edge direction) -/
theorem C05_construct_ids_components (i : CInput) (hp : i.prebuilt = none) (hsol : i.solution = true)
    (hne : i.trackletAttr.getD "track_id" ≠ i.lineageAttr.getD "lineage_id")
    (hsep : i.hasSeg = true → i.trackletAttr.getD "track_id" ∉ segKeyList ∧
                               i.lineageAttr.getD "lineage_id" ∉ segKeyList)
    (n0 : CNode) (rest : List CNode) (hn : i.nodes = n0 :: rest)
    (hfirst : hasKey (i.lineageAttr.getD "lineage_id") n0.attrs = false)
    (hF : (graphSt i.nodes i.edges (i.trackletAttr.getD "track_id") (i.lineageAttr.getD "lineage_id")).Forest) :
    ∀ x ∈ (construct i).nodes, ∀ y ∈ (construct i).nodes,
      (attrVal x (i.lineageAttr.getD "lineage_id") = attrVal y (i.lineageAttr.getD "lineage_id") ↔
        (graphSt i.nodes i.edges (i.trackletAttr.getD "track_id") (i.lineageAttr.getD "lineage_id")).Conn x.id y.id) := by
  obtain ⟨a, _, _, _, hc, _⟩ := C05_construct_ids i hp hsol hne hsep n0 rest hn
  obtain ⟨_, _, _, _, hlist⟩ := hc hfirst
  have hV := nodesAfterT_views i _ _ rfl rfl hne
  generalize i.trackletAttr.getD "track_id" = tk at *
  generalize i.lineageAttr.getD "lineage_id" = lk at *
  -- the graph after the tracklet step has the same nodes, times and edges
  have hG : G (graphSt (nodesAfterT i) i.edges tk lk) = G (graphSt i.nodes i.edges tk lk) := by
    rw [graphSt_eq_views (nodesAfterT i), graphSt_eq_views i.nodes, hV]
    split
    · rfl
    · unfold G nt St.edgeList stOfViews
      simp only [map_map]
      rfl
  have hF1 : (graphSt (nodesAfterT i) i.edges tk lk).Forest := forest_congr hG hF
  have hids1 : (graphSt (nodesAfterT i) i.edges tk lk).ids = (graphSt i.nodes i.edges tk lk).ids := by
    have := congrArg (fun g => g.1.map (·.1)) hG
    simpa [G, nt, St.ids, map_map, Function.comp_def] using this
  have hes1 : (graphSt (nodesAfterT i) i.edges tk lk).edgeList = (graphSt i.nodes i.edges tk lk).edgeList := by
    have := congrArg (fun g => g.2) hG
    simpa [G] using this
  have hids : (graphSt i.nodes i.edges tk lk).ids = i.nodes.map (·.id) := by
    unfold graphSt St.ids; simp [map_map, Function.comp_def]
  have key : ∀ x ∈ (construct i).nodes, x.id ∈ (graphSt (nodesAfterT i) i.edges tk lk).ids ∧
      attrVal x lk = (graphSt (nodesAfterT i) i.edges tk lk).assignLineages.linOf x.id := by
    intro x hx
    have : (x.id, attrVal x lk) ∈ (construct i).nodes.map (fun n => (n.id, attrVal n lk)) :=
      mem_map.2 ⟨x, hx, rfl⟩
    rw [hlist, mem_map] at this
    obtain ⟨n, hnm, he⟩ := this
    injection he with e1 e2
    refine ⟨?_, ?_⟩
    · rw [hids1, hids, ← e1]; exact mem_map.2 ⟨n, hnm, rfl⟩
    · rw [← e2, e1]
  intro x hx y hy
  obtain ⟨hxi, hxv⟩ := key x hx
  obtain ⟨hyi, hyv⟩ := key y hy
  rw [hxv, hyv, (C05_assign_iff _ hF1 x.id y.id hxi hyi).1]
  constructor
  · exact Ft.R2F.conn_congr hG.symm
  · exact Ft.R2F.conn_congr hG
example : ∀ x ∈ (construct exSol).nodes, ∀ y ∈ (construct exSol).nodes,
    (attrVal x "lineage_id" = attrVal y "lineage_id" ↔
      (graphSt exSol.nodes exSol.edges "track_id" "lineage_id").Conn x.id y.id) :=
  C05_construct_ids_components exSol rfl rfl (by decide) (by intro h; cases h) _ _ rfl (by decide) (by decide)
-- with an array (`hsep` is a real hypothesis there): same graph, `pos`/`area` steps come first
example : ∀ x ∈ (construct exSolSeg).nodes, ∀ y ∈ (construct exSolSeg).nodes,
    (attrVal x "lineage_id" = attrVal y "lineage_id" ↔
      (graphSt exSolSeg.nodes exSolSeg.edges "track_id" "lineage_id").Conn x.id y.id) :=
  C05_construct_ids_components exSolSeg rfl rfl (by decide) (fun _ => ⟨by decide, by decide⟩) _ _ rfl
    (by decide) (by decide)
#print axioms C05_construct_ids_components

/-! ## C06: the bookkeeping built from existing ids -/

namespace Ft.R7S

/-- one iteration of `_get_max_id_and_map` -/
def mmStep (key : Name) (acc : Nat × List (Nat × List Node)) (n : CNode) : Nat × List (Nat × List Node) :=
  match attrVal n key with
  | none => acc
  | some v => (if v > acc.1 then v else acc.1, aset v ((alook v acc.2).getD [] ++ [n.id]) acc.2)

theorem maxIdMap_eq (nodes : List CNode) (key : Name) : maxIdMap nodes key = nodes.foldl (mmStep key) (0, []) := rfl

structure MMInv (key : Name) (done : List CNode) (acc : Nat × List (Nat × List Node)) : Prop where
  iff : ∀ id n, (∃ l, alook id acc.2 = some l ∧ n ∈ l) ↔ ∃ c ∈ done, c.id = n ∧ attrVal c key = some id
  max : ∀ c ∈ done, ∀ v, attrVal c key = some v → v ≤ acc.1
  keys : (acc.2.map (·.1)).Nodup

theorem mmStep_inv (key : Name) (done : List CNode) (acc : Nat × List (Nat × List Node)) (n : CNode)
    (h : MMInv key done acc) : MMInv key (done ++ [n]) (mmStep key acc n) := by
  unfold mmStep
  cases hv : attrVal n key with
  | none =>
    refine ⟨fun id x => ?_, fun c hc v hcv => ?_, h.keys⟩
    · rw [h.iff]
      constructor
      · rintro ⟨c, hc, h1, h2⟩; exact ⟨c, mem_append_left _ hc, h1, h2⟩
      · rintro ⟨c, hc, h1, h2⟩
        rw [mem_append, mem_singleton] at hc
        rcases hc with hc | rfl
        · exact ⟨c, hc, h1, h2⟩
        · rw [hv] at h2; cases h2
    · rw [mem_append, mem_singleton] at hc
      rcases hc with hc | rfl
      · exact h.max c hc v hcv
      · rw [hv] at hcv; cases hcv
  | some v =>
    refine ⟨fun id x => ?_, fun c hc w hcw => ?_, PC.nodup_keys_aset h.keys⟩
    · simp only
      rw [PC.alook_aset]
      by_cases hid : id = v
      · subst hid
        simp only [if_true, Option.some.injEq, exists_eq_left', mem_append, mem_singleton]
        constructor
        · rintro (hx | rfl)
          · have : ∃ l, alook id acc.2 = some l ∧ x ∈ l := by
              cases hl : alook id acc.2 with
              | none => rw [hl] at hx; simp at hx
              | some l => rw [hl] at hx; exact ⟨l, rfl, hx⟩
            obtain ⟨c, hc, h1, h2⟩ := (h.iff id x).1 this
            exact ⟨c, Or.inl hc, h1, h2⟩
          · exact ⟨n, Or.inr rfl, rfl, hv⟩
        · rintro ⟨c, hc, h1, h2⟩
          rcases hc with hc | rfl
          · obtain ⟨l, hl, hx⟩ := (h.iff id x).2 ⟨c, hc, h1, h2⟩
            left; rw [hl]; exact hx
          · right; exact h1.symm
      · rw [if_neg hid, h.iff]
        constructor
        · rintro ⟨c, hc, h1, h2⟩; exact ⟨c, mem_append_left _ hc, h1, h2⟩
        · rintro ⟨c, hc, h1, h2⟩
          rw [mem_append, mem_singleton] at hc
          rcases hc with hc | rfl
          · exact ⟨c, hc, h1, h2⟩
          · rw [hv] at h2; injection h2 with h2; exact absurd h2.symm hid
    · simp only
      rw [mem_append, mem_singleton] at hc
      rcases hc with hc | rfl
      · have := h.max c hc w hcw
        split <;> omega
      · rw [hv] at hcw; injection hcw with hcw; subst hcw
        split <;> omega

theorem mmFold_inv (key : Name) (rest done : List CNode) (acc : Nat × List (Nat × List Node))
    (h : MMInv key done acc) : MMInv key (done ++ rest) (rest.foldl (mmStep key) acc) := by
  induction rest generalizing done acc with
  | nil => simpa using h
  | cons n r ih =>
    simp only [foldl_cons]
    have := ih (done ++ [n]) (mmStep key acc n) (mmStep_inv key done acc n h)
    simpa using this

end Ft.R7S

/-- `_get_max_id_and_map` (the bookkeeping a TrackAnnotator builds from ids that already exist on
    the graph): the lookup lists under each id exactly the nodes whose attribute holds that id
    (nodes whose value is missing or None are skipped), its keys are distinct, and the maximum
    bounds every id in use — the track part of `BookOK` for the nodes that carry an id -/
theorem C06_construct_book_from_graph (nodes : List CNode) (key : Name) :
    (∀ id n, (∃ l, alook id (maxIdMap nodes key).2 = some l ∧ n ∈ l) ↔
        ∃ c ∈ nodes, c.id = n ∧ attrVal c key = some id) ∧
    (∀ c ∈ nodes, ∀ v, attrVal c key = some v → v ≤ (maxIdMap nodes key).1) ∧
    ((maxIdMap nodes key).2.map (·.1)).Nodup := by
  have h0 : MMInv key [] (0, []) :=
    ⟨fun id n => by simp [alook], fun c hc => absurd hc not_mem_nil, by simp⟩
  have := mmFold_inv key nodes [] (0, []) h0
  rw [nil_append, ← maxIdMap_eq] at this
  exact ⟨this.iff, this.max, this.keys⟩

example : maxIdMap exNodes "track_id" = (7, [(7, [2, 3])]) ∧ maxIdMap exNodesIds "lineage_id" = (9, [(9, [1, 2, 3])]) := by
  decide
#print axioms C06_construct_book_from_graph

/-! ## notes: what the first-node sample does not see -/

/-- only the FIRST node is sampled: a graph whose first node carries ids keeps everything as it
    is — a later node WITHOUT a track id stays without one (and is in no lookup), and ids that do
    not label the unbranched segments (here 1 → 2 is one segment with ids 4 and 7) are kept.
    (The documented contract of `tracklet_attr`: "must be there for every node and already hold
    valid tracklet ids"; `SolutionTracks.from_tracks` checks every node for that reason.) -/
theorem C04_note_first_node_sampled :
    let i : CInput :=
      { solution := true, hasSeg := false, ndim := 3, edges := [(1, 2)],
        nodes := [{ id := 1, time := 0, attrs := [("time", some 0), ("pos", some 0), ("track_id", some 4), ("lineage_id", some 1)] },
                  { id := 2, time := 1, attrs := [("time", some 1), ("pos", some 0), ("track_id", some 7), ("lineage_id", some 1)] },
                  { id := 3, time := 1, attrs := [("time", some 1), ("pos", some 0), ("lineage_id", some 2)] }] }
    (construct i).computed = [] ∧
    (construct i).nodes.map (fun n => (n.id, attrVal n "track_id")) = [(1, some 4), (2, some 7), (3, none)] ∧
    (construct i).track.map (fun a => (a.tSrc, a.t2n, a.maxT)) = some (.fromGraph, [(4, [1]), (7, [2])], 7) :=
  ⟨by decide, by decide, by decide⟩
#print axioms C04_note_first_node_sampled

/-- a graph without nodes: both id features are activated (nothing to compute), the bookkeeping
    is left empty -/
theorem C04_construct_ids_empty (i : CInput) (hp : i.prebuilt = none) (hsol : i.solution = true)
    (hne : i.trackletAttr.getD "track_id" ≠ i.lineageAttr.getD "lineage_id")
    (hsep : i.hasSeg = true → i.trackletAttr.getD "track_id" ∉ segKeyList ∧
                               i.lineageAttr.getD "lineage_id" ∉ segKeyList)
    (hn : i.nodes = []) :
    (construct i).nodes = [] ∧ trackLog (construct i) = [] ∧
    ∃ a, (construct i).track = some a ∧ a.t2n = [] ∧ a.l2n = [] ∧ a.maxT = 0 ∧ a.maxL = 0 ∧
      a.tSrc = BookSrc.notBuilt ∧ a.lSrc = BookSrc.notBuilt ∧
      i.trackletAttr.getD "track_id" ∈ activeKeys (construct i) ∧
      i.lineageAttr.getD "lineage_id" ∈ activeKeys (construct i) := by
  obtain ⟨_, h2, h3, aF, h4, _, _, h7, h8⟩ := construct_ids i hp hsol hne hsep
  have hact := (C10_construct_registry i hp).2.2.2.2.2 hsol
  rw [hn] at h2 h3 h7 h8
  simp only [map_nil, firstHas, if_true] at h2 h3 h7 h8
  injection h7 with e1 e2
  injection e2 with e2 e3
  injection h8 with g1 g2
  injection g2 with g2 g3
  refine ⟨?_, h3, aF, h4, ?_, ?_, ?_, ?_, ?_, ?_, hact.2.2.2.2.1, hact.2.2.2.2.2⟩
  · exact map_eq_nil_iff.1 h2
  · rw [e1]; rfl
  · rw [g1]; rfl
  · rw [e2]; rfl
  · rw [g2]; rfl
  · rw [e3]; rfl
  · rw [g3]; rfl

example : (construct { solution := true, hasSeg := true, ndim := 4 }).computed = [] ∧
    activeKeys (construct { solution := true, hasSeg := true, ndim := 4 }) = ["pos", "area", "track_id", "lineage_id"] :=
  ⟨by decide, by decide⟩
#print axioms C04_construct_ids_empty

/-! ## `SolutionTracks.from_tracks` as repaired (fix commit 895cc32) -/

/-- `from_tracks` of ANY tracks object whose FeatureDict names a tracklet key `tk` (in particular
    a plain `Tracks` built without FeatureDict, whose FeatureDict names the id keys without
    registering them): the call returns normally; the result is a solution whose TrackAnnotator
    manages `tk` (and the lineage key `lk` if the FeatureDict names one); these keys are the
    FeatureDict's special keys, registered and active; the ids are recomputed in bulk iff some
    node lacked a value under `tk` or under the lineage key (`fromForce`; a FeatureDict without
    lineage key counts as "every node lacks it") — then the lookups are the computed ones —, and
    otherwise nothing is computed, the graph is untouched and the lookups are the ones
    `_get_max_id_and_map` builds from the existing ids (`C06_construct_book_from_graph`). -/
theorem C04_from_tracks_ids_active (t : COut) (tk : Name) (htk : t.trackletKey = some tk) :
    ∃ s a, fromTracks t = some s ∧ s.solution = true ∧ s.track = some a ∧ a.tKey = tk ∧
      s.trackletKey = some tk ∧ tk ∈ regKeys s ∧ tk ∈ activeKeys s ∧
      (∀ lk, t.lineageKey = some lk →
        a.lKey = lk ∧ s.lineageKey = some lk ∧ lk ∈ regKeys s ∧ lk ∈ activeKeys s) ∧
      (t.lineageKey = none → tk ≠ "lineage_id" → s.lineageKey = none) ∧
      (fromForce t = true →
        (AKind.track, tk) ∈ s.computed ∧ a.tSrc = BookSrc.computed ∧
        ∀ lk, t.lineageKey = some lk → (AKind.track, lk) ∈ s.computed ∧ a.lSrc = BookSrc.computed) ∧
      (fromForce t = false →
        s.computed = [] ∧ s.nodes = t.nodes ∧
        (t.nodes ≠ [] → a.tSrc = BookSrc.fromGraph ∧ (a.maxT, a.t2n) = maxIdMap t.nodes tk ∧
          ∀ lk, t.lineageKey = some lk → a.lSrc = BookSrc.fromGraph ∧ (a.maxL, a.l2n) = maxIdMap t.nodes lk)) := by
  -- the constructor call inside `from_tracks`
  let i : CInput := { solution := true, hasSeg := t.hasSeg, ndim := t.ndim,
                      prebuilt := some (prebuiltOf t), nodes := t.nodes, edges := t.edges }
  let m := mkAnnotators (ofPrebuilt i (prebuiltOf t))
  have hsoln : fromSoln t = activateFromDict m := rfl
  have hA := activateFromDict_actOnly m
  have hB := trackBook_activateFromDict m
  rw [← hsoln] at hA hB
  have hm_track : m.track = some (mkTrack t.nodes t.trackletKey t.lineageKey) := rfl
  have hm_nodes : m.nodes = t.nodes := rfl
  have hm_comp : m.computed = [] := rfl
  have hS_tk : (fromSoln t).trackletKey = some tk := hA.same.trackletKey.trans htk
  have hS_lk : (fromSoln t).lineageKey = t.lineageKey := hA.same.lineageKey
  -- the TrackAnnotator of `soln`
  have hbook : trackBook (fromSoln t) = trackBook m := hB
  obtain ⟨a1, ha1⟩ : ∃ a1, (fromSoln t).track = some a1 := by
    unfold trackBook at hbook
    rw [hm_track] at hbook
    cases h : (fromSoln t).track with
    | none => rw [h] at hbook; simp at hbook
    | some a1 => exact ⟨a1, rfl⟩
  have hb1 : (a1.tKey, a1.lKey, keysOf a1.table, a1.t2n, a1.l2n, a1.maxT, a1.maxL, a1.tSrc, a1.lSrc) =
      ((mkTrack t.nodes t.trackletKey t.lineageKey).tKey, (mkTrack t.nodes t.trackletKey t.lineageKey).lKey,
       keysOf (mkTrack t.nodes t.trackletKey t.lineageKey).table, (mkTrack t.nodes t.trackletKey t.lineageKey).t2n,
       (mkTrack t.nodes t.trackletKey t.lineageKey).l2n, (mkTrack t.nodes t.trackletKey t.lineageKey).maxT,
       (mkTrack t.nodes t.trackletKey t.lineageKey).maxL, (mkTrack t.nodes t.trackletKey t.lineageKey).tSrc,
       (mkTrack t.nodes t.trackletKey t.lineageKey).lSrc) := by
    unfold trackBook at hbook
    rw [hm_track, ha1] at hbook
    simpa using hbook
  simp only [Prod.mk.injEq] at hb1
  obtain ⟨b1, b2, b3, b4, b5, b6, b7, b8, b9⟩ := hb1
  have ha1t : a1.tKey = tk := by rw [b1, mkTrack_tKey, htk]; rfl
  have ha1l : a1.lKey = t.lineageKey.getD "lineage_id" := by rw [b2, mkTrack_lKey]
  have hkeys1 : ∀ k, k ∈ keysOf a1.table ↔ k = tk ∨ k = t.lineageKey.getD "lineage_id" := by
    intro k; rw [b3, mem_tableKeys_mkTrack, htk]; rfl
  -- the keys handed to `enable_features`
  generalize hkeys : ([(fromSoln t).trackletKey, (fromSoln t).lineageKey].filterMap id) = keys
  have hkeys' : keys = tk :: (match t.lineageKey with | some lk => [lk] | none => []) := by
    rw [← hkeys, hS_tk, hS_lk]; cases t.lineageKey <;> rfl
  have htk_mem : tk ∈ keys := by rw [hkeys']; exact mem_cons_self
  have hlk_mem : ∀ lk, t.lineageKey = some lk → lk ∈ keys := by
    intro lk hl; rw [hkeys', hl]; simp
  have hsub : ∀ k ∈ keys, k ∈ keysOf a1.table := by
    intro k hk
    rw [hkeys'] at hk
    rw [hkeys1]
    rcases mem_cons.1 hk with h | h
    · exact Or.inl h
    · cases hl : t.lineageKey with
      | none => rw [hl] at h; cases h
      | some lk => rw [hl] at h; right; simpa using h
  have hall : ∀ k ∈ keys, k ∈ tableKeys (fromSoln t) := by
    intro k hk
    rw [mem_tableKeys]
    have := hsub k hk
    simp only [keysOf, mem_map] at this
    obtain ⟨e, he, hek⟩ := this
    refine ⟨(AKind.track, a1.table), ?_, e, he, hek⟩
    unfold annTables; rw [ha1]; simp
  have hen : enable (fromSoln t) keys (fromForce t) =
      some (if fromForce t then computeAll (enableCore (fromSoln t) keys) keys else enableCore (fromSoln t) keys) :=
    (enable_eq_some_iff _ _ _ _).2 ⟨hall, rfl⟩
  have hft : fromTracks t = enable (fromSoln t) keys (fromForce t) := by
    unfold fromTracks; rw [htk]; simp only; rw [hkeys]
  generalize hs : (if fromForce t then computeAll (enableCore (fromSoln t) keys) keys
      else enableCore (fromSoln t) keys) = s at hen
  have hG := enable_grow hen
  have hsp := enable_special hen ha1
  obtain ⟨a, hsa, hat, hal⟩ := trackKeys_some hG.trackKeys ha1
  have hsol : s.solution = true := by rw [hG.solution]; exact hA.same.solution
  have hct : keys.contains a1.tKey = true := by rw [ha1t]; simpa using htk_mem
  refine ⟨s, a, hft.trans hen, hsol, hsa, hat.trans ha1t, ?_, (hG.reg _).2 (Or.inr htk_mem),
    (hG.act _).2 (Or.inr htk_mem), ?_, ?_, ?_, ?_⟩
  · rw [hsp.1, if_pos hct, ha1t]
  · intro lk hl
    have hl1 : a1.lKey = lk := by rw [ha1l, hl]; rfl
    have hcl : keys.contains a1.lKey = true := by rw [hl1]; simpa using hlk_mem lk hl
    refine ⟨hal.trans hl1, ?_, (hG.reg _).2 (Or.inr (hlk_mem lk hl)), (hG.act _).2 (Or.inr (hlk_mem lk hl))⟩
    rw [hsp.2, if_pos hcl, hl1]
  · intro hl hne
    have hcl : keys.contains a1.lKey = false := by
      rw [ha1l, hl, hkeys', hl]
      simp only [Option.getD_none, contains_cons, contains_nil, Bool.or_false, beq_eq_false_iff_ne, ne_eq]
      exact fun h => hne h.symm
    rw [hsp.2, hcl]
    simp only [Bool.false_eq_true, if_false]
    rw [hS_lk, hl]
  · intro hf
    rw [hf] at hs
    simp only [if_true] at hs
    obtain ⟨hce, hct3⟩ := computeAll_track_eq (enableCore (fromSoln t) keys) keys
    obtain ⟨_, _, _, _, _, _, f7⟩ := enableCore_fields (fromSoln t) keys
    have h3 : (edgeCompute (rpCompute (enableCore (fromSoln t) keys) keys) keys).track =
        some { a1 with table := activateTbl keys a1.table } := by rw [hct3, f7, ha1]; rfl
    have hact_t : a1.tKey ∈ filterActive (activateTbl keys a1.table) keys :=
      mem_filterActive_activate (by rw [ha1t]; exact htk_mem) (by rw [ha1t]; exact hsub tk htk_mem)
    obtain ⟨r1, a', r2, r3⟩ := trackCompute_runs_t _ keys _ h3 hact_t
    rw [← hce, hs] at r1 r2
    rw [hsa] at r2; injection r2 with r2
    refine ⟨by rw [← ha1t]; exact r1, by rw [r2]; exact r3, ?_⟩
    intro lk hl
    have hl1 : a1.lKey = lk := by rw [ha1l, hl]; rfl
    have hact_l : a1.lKey ∈ filterActive (activateTbl keys a1.table) keys :=
      mem_filterActive_activate (by rw [hl1]; exact hlk_mem lk hl) (by rw [hl1]; exact hsub lk (hlk_mem lk hl))
    obtain ⟨q1, a'', q2, q3⟩ := trackCompute_runs_l _ keys _ h3 hact_l
    rw [← hce, hs] at q1 q2
    rw [hsa] at q2; injection q2 with q2
    exact ⟨by rw [← hl1]; exact q1, by rw [q2]; exact q3⟩
  · intro hf
    rw [hf] at hs
    simp only [Bool.false_eq_true, if_false] at hs
    obtain ⟨f1, _, f3, _, _, _, f7⟩ := enableCore_fields (fromSoln t) keys
    rw [hs] at f1 f3 f7
    have hsa' : a = { a1 with table := activateTbl keys a1.table } := by
      rw [hsa, ha1] at f7; injection f7 with f7
    refine ⟨by rw [f3, hA.computed]; exact hm_comp, by rw [f1, hA.nodes]; exact hm_nodes, ?_⟩
    intro hne
    obtain ⟨n0, rest, hn⟩ : ∃ n0 rest, t.nodes = n0 :: rest := by
      cases hnn : t.nodes with
      | nil => exact absurd hnn hne
      | cons n0 rest => exact ⟨n0, rest, rfl⟩
    obtain ⟨g1, g2, g3⟩ := mkTrack_cons_gen n0 rest t.trackletKey t.lineageKey
    rw [← hn] at g1 g2 g3
    have hgd : t.trackletKey.getD "tracklet_id" = tk := by rw [htk]; rfl
    rw [hgd] at g2
    refine ⟨by rw [hsa']; exact b8.trans g1, by rw [hsa']; show (a1.maxT, a1.t2n) = _; rw [b6, b4]; exact g2, ?_⟩
    intro lk hl
    obtain ⟨g4, g5⟩ := g3 lk hl
    exact ⟨by rw [hsa']; exact b9.trans g4, by rw [hsa']; show (a1.maxL, a1.l2n) = _; rw [b7, b5]; exact g5⟩

-- plain tracks with ids on every node: activated and registered, nothing recomputed
example : (construct exPlain).trackletKey = some "track_id" ∧ fromForce (construct exPlain) = false := by decide
-- first node without ids: recomputed
example : fromForce (construct { solution := false, hasSeg := false, ndim := 3, nodes := exNodes, edges := exEdges }) = true := by
  decide
example : ∃ s a, fromTracks (construct exPlain) = some s ∧ s.solution = true ∧ s.track = some a ∧ a.tKey = "track_id" ∧
    s.trackletKey = some "track_id" ∧ "track_id" ∈ regKeys s ∧ "track_id" ∈ activeKeys s := by
  obtain ⟨s, a, h1, h2, h3, h4, h5, h6, h7, _⟩ := C04_from_tracks_ids_active (construct exPlain) "track_id" (by decide)
  exact ⟨s, a, h1, h2, h3, h4, h5, h6, h7⟩
#print axioms C04_from_tracks_ids_active
