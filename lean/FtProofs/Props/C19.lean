/-
  C19 — label utilities.
  "Making labels unique returns an array in which no label occurs in two different frames (or
   hypotheses) while each frame's partition into regions and background is unchanged.
   Relabelling a segmentation by track gives all detections of one unbranched track segment the
   same label, different segments different labels, and removes detections that are not in the
   solution."

  Arrays: any number of frames, any number of pixels per frame, any label values (`px a i p` is
  pixel `p` of frame `i`; frames are flat, see FtModel/Labels.lean; with `multiseg=True` the frames
  are the (hypothesis, time) pairs).  `ensureUnique` models the function AS REPAIRED by
  fixes/D8_ensure_unique_labels.patch; `ensureUniqueOrig` is the unrepaired loop.
-/
import FtProofs.LabelsLemmas
open Ft Ft.Labels

/-- No non-zero label occurs in two different frames of the result. -/
theorem C19_unique (a : Arr) (i j p q x : Nat) (hij : i ≠ j)
    (hi : px (ensureUnique a) i p = some x) (hj : px (ensureUnique a) j q = some x) : x = 0 := by
  obtain ⟨fi, hfi, hpi⟩ := px_eq_some.mp hi
  obtain ⟨fj, hfj, hpj⟩ := px_eq_some.mp hj
  have mi : x ∈ fi := List.mem_of_getElem? hpi
  have mj : x ∈ fj := List.mem_of_getElem? hpj
  apply Classical.byContradiction
  intro hx
  rcases Nat.lt_or_gt_of_ne hij with h | h
  · exact Nat.lt_irrefl x (euGo_lt a 0 i j fi fj x x h hfi hfj mi mj hx)
  · exact Nat.lt_irrefl x (euGo_lt a 0 j i fj fi x x h hfj hfi mj mi hx)

example : ensureUnique [[1, 2, 0], [0, 0, 0], [1, 0, 1], [2, 2, 7]]
    = [[1, 2, 0], [0, 0, 0], [3, 0, 3], [5, 5, 10]] := by decide
#print axioms C19_unique

/-- The result has the same shape, and inside every frame the partition into regions and
    background is unchanged: two pixels carry equal labels after iff they did before, and a pixel
    is background after iff it was before. -/
theorem C19_partition (a : Arr) (i p q x y : Nat)
    (hx : px a i p = some x) (hy : px a i q = some y) :
    ∃ x' y', px (ensureUnique a) i p = some x' ∧ px (ensureUnique a) i q = some y' ∧
      (x' = y' ↔ x = y) ∧ (x' = 0 ↔ x = 0) := by
  obtain ⟨c, hc⟩ := euGo_frame a 0 i
  have h := px_of_frame (a := a) (b := ensureUnique a) hc
  refine ⟨_, _, by rw [h p, hx]; rfl, by rw [h q, hy]; rfl, ?_, ?_⟩
  · by_cases hx0 : x = 0 <;> by_cases hy0 : y = 0 <;> simp [hx0, hy0] <;> omega
  · by_cases hx0 : x = 0 <;> simp [hx0]

/-- shape: a pixel exists in the result iff it exists in the input -/
theorem C19_shape (a : Arr) (i p : Nat) :
    (px (ensureUnique a) i p).isSome = (px a i p).isSome := by
  obtain ⟨c, hc⟩ := euGo_frame a 0 i
  rw [px_of_frame (a := a) (b := ensureUnique a) hc p]
  cases px a i p <;> rfl

example : ∃ x' y', px (ensureUnique [[4, 4, 0], [4, 9, 0]]) 1 0 = some x' ∧
    px (ensureUnique [[4, 4, 0], [4, 9, 0]]) 1 1 = some y' ∧ x' ≠ y' ∧ x' ≠ 0 :=
  ⟨8, 13, by decide, by decide, by decide, by decide⟩
#print axioms C19_partition
#print axioms C19_shape

/-- `multiseg=True` is the same loop over the (hypothesis, time) frames in C order: cutting the
    result back into hypotheses loses nothing, so `C19_unique` / `C19_partition` about
    `ensureUnique hs.flatten` are statements about the multi-hypothesis result. -/
theorem C19_multiseg (hs : List Arr) :
    (ensureUniqueMulti hs).flatten = ensureUnique hs.flatten := by
  unfold ensureUniqueMulti
  apply flatten_chunk
  unfold ensureUnique
  rw [euGo_length, List.length_flatten]

example : ensureUniqueMulti [[[1, 0], [1, 2]], [[0, 0], [2, 1]]]
    = [[[1, 0], [2, 3]], [[0, 0], [5, 4]]] := by decide
#print axioms C19_multiseg

/-- The UNREPAIRED loop (defect D8) violates uniqueness: an empty frame resets the running
    maximum, label 1 comes back in frames 0 and 2. -/
theorem C19_counterexample_unfixed :
    ∃ (a : Arr) (i j p q x : Nat), i ≠ j ∧ x ≠ 0 ∧
      px (ensureUniqueOrig a) i p = some x ∧ px (ensureUniqueOrig a) j q = some x :=
  ⟨[[1, 2], [0, 0], [1, 0]], 0, 2, 0, 0, 1, by decide, by decide, by decide, by decide⟩

example : ensureUniqueOrig [[1, 2], [0, 0], [1, 0]] = [[1, 2], [0, 0], [1, 0]] := by decide
example : ensureUnique [[1, 2], [0, 0], [1, 0]] = [[1, 2], [0, 0], [3, 0]] := by decide
#print axioms C19_counterexample_unfixed

/-! ### relabel_segmentation_with_track_id

  Well-formedness (explicit, decidable; what networkx guarantees plus "one node per detection"):
    `∀ e ∈ g.edges, e.1, e.2 ∈ g.ids`  edges join nodes of the graph
    `solOK T g`                         every node has a seg id and a time inside the array
    `hdist`                             distinct nodes have distinct (time, seg id)
  `SameSeg g.edges n m` (LabelsLemmas) is the inductively defined relation "connected, ignoring
  direction, through edges whose source has out-degree ≤ 1"; the executable component
  computation (`classes`, merging along edges) is proved sound and complete for it
  (`classOf_eq_iff_sameSeg`), so the statement below is relative to the relation, not to the
  executable function.  No forest hypothesis is needed for it; under the forest hypothesis
  (in-degree ≤ 1) `C19_bytrack_unbranched` adds that these segments are unbranched paths.
-/

/-- Relabelling by track: pixels of two detections of the solution get the same non-zero label
    iff the detections lie in the same unbranched segment; pixels whose label is not a detection
    of the solution (other detections, background) become 0. -/
theorem C19_bytrack (g : Sol) (orig : Arr)
    (hends : ∀ e ∈ g.edges, e.1 ∈ g.ids ∧ e.2 ∈ g.ids)
    (hok : solOK orig.length g = true)
    (hdist : ∀ n ∈ g.nodes, ∀ m ∈ g.nodes, n.time = m.time → n.seg = m.seg → n = m) :
    ∃ out, relabelByTrack g orig = some out ∧
      (∀ n ∈ g.nodes, ∀ m ∈ g.nodes, ∀ i p x j q y,
          n.time = some i → n.seg = some x → px orig i p = some x →
          m.time = some j → m.seg = some y → px orig j q = some y →
          ∃ a b, px out i p = some a ∧ px out j q = some b ∧ a ≠ 0 ∧ b ≠ 0 ∧
            (a = b ↔ SameSeg g.edges n.id m.id)) ∧
      (∀ i p x, px orig i p = some x →
          (∀ n ∈ g.nodes, ¬ (n.time = some i ∧ n.seg = some x)) → px out i p = some 0) := by
  refine ⟨applyWrites orig (trackWrites g), by simp [relabelByTrack, hok], ?_, ?_⟩
  · intro n hn m hm i p x j q y hnt hns hpx hmt hms hpy
    have h1 := (track_pixel g orig hends hok hdist i x).1 n hn hnt hns
    have h2 := (track_pixel g orig hends hok hdist j y).1 m hm hmt hms
    have hnid : n.id ∈ g.ids := List.mem_map.mpr ⟨n, hn, rfl⟩
    have hmid : m.id ∈ g.ids := List.mem_map.mpr ⟨m, hm, rfl⟩
    have mem : ∀ k ∈ g.ids, classOf (classes g.ids (pruned g.edges)) k ∈
        compOrder g.ids (classes g.ids (pruned g.edges)) := by
      intro k hk
      unfold compOrder
      rw [mem_dedup]
      exact List.mem_map.mpr ⟨k, hk, rfl⟩
    refine ⟨_, _, by rw [px_applyWrites, hpx]; rfl, by rw [px_applyWrites, hpy]; rfl, ?_, ?_, ?_⟩
    · show pxWrite i x (trackWrites g) ≠ 0
      rw [h1]; have := pos_ge (classOf (classes g.ids (pruned g.edges)) n.id)
        (compOrder g.ids (classes g.ids (pruned g.edges))) 1; omega
    · show pxWrite j y (trackWrites g) ≠ 0
      rw [h2]; have := pos_ge (classOf (classes g.ids (pruned g.edges)) m.id)
        (compOrder g.ids (classes g.ids (pruned g.edges))) 1; omega
    · show pxWrite i x (trackWrites g) = pxWrite j y (trackWrites g) ↔ _
      rw [h1, h2, pos_inj _ _ _ 1 (mem _ hnid) (mem _ hmid)]
      exact classOf_eq_iff_sameSeg g.ids g.edges hends n.id m.id hnid hmid
  · intro i p x hpx hno
    rw [px_applyWrites, hpx]
    show some (pxWrite i x (trackWrites g)) = some 0
    rw [(track_pixel g orig hends hok hdist i x).2 hno]

/-- non-vacuity: 1 →(divides) 2, 3;  2 → 4;  5 isolated;  detection (1, 9) not in the solution.
    Segments {1}, {2,4}, {3}, {5} get 1, 2, 3, 4 in discovery order. -/
example :
    relabelByTrack
      ⟨[⟨1, some 0, some 7⟩, ⟨2, some 1, some 7⟩, ⟨3, some 1, some 8⟩, ⟨4, some 2, some 5⟩,
        ⟨5, some 2, some 6⟩], [(1, 2), (1, 3), (2, 4)]⟩
      [[7, 7, 0], [7, 8, 9], [5, 6, 0]]
    = some [[1, 1, 0], [2, 3, 0], [2, 4, 0]] := by decide

example : SameSeg [(1, 2), (1, 3), (2, 4)] 2 4 := SameSeg.step (by decide)
#print axioms C19_bytrack

/-- The segments really are unbranched: among the kept edges every node has at most one
    successor (always) and, in a forest (in-degree ≤ 1, DESIGN §2.2), at most one predecessor. -/
theorem C19_bytrack_unbranched (es : List (Nat × Nat)) (hnd : es.Nodup) :
    (∀ u v v', (u, v) ∈ pruned es → (u, v') ∈ pruned es → v = v') ∧
    ((∀ v, (es.filter (fun e => e.2 == v)).length ≤ 1) →
      ∀ u u' v, (u, v) ∈ pruned es → (u', v) ∈ pruned es → u = u') := by
  have one : ∀ (l : List (Nat × Nat)), l.Nodup → l.length ≤ 1 → ∀ a ∈ l, ∀ b ∈ l, a = b := by
    intro l hl hlen a ha b hb
    match l, hl, hlen, ha, hb with
    | [c], _, _, ha, hb =>
      rw [List.mem_singleton.mp ha, List.mem_singleton.mp hb]
  constructor
  · intro u v v' h1 h2
    have h1' := List.mem_filter.mp h1
    have h2' := List.mem_filter.mp h2
    have hdeg : outdeg es u ≤ 1 := by simpa using h1'.2
    have := one (es.filter (fun e => e.1 == u)) (List.Nodup.sublist List.filter_sublist hnd) hdeg
      (u, v) (List.mem_filter.mpr ⟨h1'.1, by simp⟩) (u, v') (List.mem_filter.mpr ⟨h2'.1, by simp⟩)
    exact (Prod.mk.inj this).2
  · intro hin u u' v h1 h2
    have h1' := pruned_sub h1
    have h2' := pruned_sub h2
    have := one (es.filter (fun e => e.2 == v)) (List.Nodup.sublist List.filter_sublist hnd) (hin v)
      (u, v) (List.mem_filter.mpr ⟨h1', by simp⟩) (u', v) (List.mem_filter.mpr ⟨h2', by simp⟩)
    exact (Prod.mk.inj this).1

example : pruned [(1, 2), (1, 3), (2, 4)] = [(2, 4)] := by decide
#print axioms C19_bytrack_unbranched
