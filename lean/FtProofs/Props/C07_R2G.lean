/-
  C07 (round 2, package R2G) — the statements left open in `Props/C07.lean`.

  * `C07_paint_combinatorial` — the list/array-only lemma: a consistent (array, skeleton) pair and
    the stroke preconditions `PaintPre` give a consistent pair (painted array, `paintSkel`).
  * `C07_step_paint` (FULL) — `SegOK` is preserved by every accepted paint / erase whose stroke
    meets the documented preconditions (DESIGN §3, `Ft.R2G.PaintPre`): one frame, in range,
    non-empty groups of pixels that carried the group's label, previous label ≠ new value, an
    existing label painted only in its node's own frame.  (Pairwise disjointness of the groups is
    a consequence of `prev` for different labels and is not needed.)
    `C07_step_paint_ids` — unique non-zero ids are preserved too (so the hypotheses of
    `C07_step_paint` hold again afterwards).
  * `C07_step_updSeg` (FULL) — `SegOK` through the primitive UpdateNodeSeg: grow on pixels of the
    node's frame that carry background or the label; shrink pixels that carry the label (or
    background) while one pixel of the node remains.
  * `C07_step` (FULL, session level) — every accepted `St.step` (seven edits, enable / disable, nop)
    keeps `SegOK`, unique non-zero ids and the frame size; paint and add-node under their
    documented preconditions `Ft.R2G.StepPre`, everything else unconditionally.  (Undo / redo are
    not covered: they answer `.bool`, and need the inverse laws of C01.)
  * `C07_undo_bits_addNode` (FULL, "if" direction) — inverting a recorded `addNode r (some px)`
    (= DeleteNode with the pixels recomputed from the array) restores the array bit for bit when
    `px` was background, lies in frame `r.time`, and no cell of that frame carried `r.id` before;
    `C07_note_undo_bits_addNode_needs_absent` shows on a concrete state that the last condition
    cannot be dropped.
-/
import FtProofs.R2GLemmas
import FtProofs.Props.C07
open Ft Ft.St Ft.R2G List

theorem C07_paint_combinatorial (g : Seg) (k : List (Node × Nat)) (v : Nat)
    (groups : List (List Pix × Nat)) (t0 : Nat) (hpos : 0 < g.frame) (hnd : (k.map (·.1)).Nodup)
    (h0 : ∀ p ∈ k, p.1 ≠ 0) (hs : SegOKk g k) (hp : PaintPre g k v groups t0) :
    SegOKk (g.setPixels (groups.flatMap (·.1)) v)
      (paintSkel (g.setPixels (groups.flatMap (·.1)) v) k v groups) :=
  segOKk_paint hpos hnd h0 hs hp

example : PaintPre exC07g exC07.skel 9 [([1], 1), ([3], 3), ([2], 0)] 0 ∧ 0 < exC07g.frame ∧
    (exC07.skel.map (·.1)).Nodup ∧ (∀ p ∈ exC07.skel, p.1 ≠ 0) ∧
    paintSkel (exC07g.setPixels [1, 3, 2] 9) exC07.skel 9 [([1], 1), ([3], 3), ([2], 0)]
      = [(1, 0), (2, 1), (9, 0)] := by decide
#print axioms C07_paint_combinatorial

/-- FULL. An accepted paint / erase under the stroke preconditions preserves the one-to-one
    correspondence of labels and nodes. -/
theorem C07_step_paint (s s' : St) (v : Nat) (groups : List (List Pix × Nat)) (tid : Nat)
    (force : Bool) (g : Seg) (t0 : Nat) (hg : s.seg = some g) (hpos : 0 < g.frame)
    (hnd : s.ids.Nodup) (h0 : ∀ r ∈ s.nodes, r.id ≠ 0) (hs : SegOK s)
    (hpre : PaintPre g s.skel v groups t0)
    (h : s.step (.paint v groups tid force) = (s', .ok)) : SegOK s' := by
  obtain ⟨e1, e2⟩ := C07_step_paint_partial s s' v groups tid force g hg h
  rw [segOK_iff_skel] at hs ⊢
  intro g' hg'
  rw [e1] at hg'; cases hg'
  rw [e2]
  exact segOKk_paint hpos (skel_nodup_of_ids hnd) (skel_ne_zero h0) (hs g hg) hpre

/-- overwrite part of node 1, all of node 3 and a free pixel with the new label 9 (frame 0):
    node 3 disappears, node 9 appears -/
example : ∃ s', exC07.step (.paint 9 [([1], 1), ([3], 3), ([2], 0)] 5 false) = (s', .ok) ∧
    PaintPre exC07g exC07.skel 9 [([1], 1), ([3], 3), ([2], 0)] 0 ∧ SegOK exC07 ∧
    exC07.ids.Nodup ∧ s'.ids = [1, 2, 9] ∧
    s'.seg = some { frame := 4, data := [1, 9, 9, 9, 2, 2, 2, 0] } :=
  ⟨_, rfl, by decide, exC07_segOK, by decide, by decide, by decide⟩
/-- erase (v = 0) all of node 3 -/
example : ∃ s', exC07.step (.paint 0 [([3], 3)] 5 false) = (s', .ok) ∧
    PaintPre exC07g exC07.skel 0 [([3], 3)] 0 ∧ s'.ids = [1, 2] := ⟨_, rfl, by decide, by decide⟩
#print axioms C07_step_paint

/-- unique non-zero ids survive an accepted paint (with `v ≠ 0` or nothing to add) -/
theorem C07_step_paint_ids (s s' : St) (v : Nat) (groups : List (List Pix × Nat)) (tid : Nat)
    (force : Bool) (g : Seg) (hg : s.seg = some g) (hnd : s.ids.Nodup)
    (h0 : ∀ r ∈ s.nodes, r.id ≠ 0) (h : s.step (.paint v groups tid force) = (s', .ok)) :
    s'.ids.Nodup ∧ ∀ r ∈ s'.nodes, r.id ≠ 0 := by
  obtain ⟨-, e2⟩ := C07_step_paint_partial s s' v groups tid force g hg h
  have hsub := foldl_segAbsStep_sublist groups (g.setPixels (groups.flatMap (·.1)) v, s.skel)
  simp only at hsub
  have hk : (s'.skel.map (·.1)).Nodup ∧ ∀ p ∈ s'.skel, p.1 ≠ 0 := by
    rw [e2]
    exact paintSkelR_ids hsub (skel_nodup_of_ids hnd) (skel_ne_zero h0)
  refine ⟨by rw [ids_eq_skel_sg]; exact hk.1, fun r hr => hk.2 _ (mem_skel_of_mem hr)⟩
example : ∃ s', exC07.step (.paint 9 [([1], 1), ([3], 3), ([2], 0)] 5 false) = (s', .ok) ∧
    s'.ids = [1, 2, 9] := ⟨_, rfl, by decide⟩
#print axioms C07_step_paint_ids

/-- FULL. `SegOK` through the primitive UpdateNodeSeg.
    Grow (`added = true`): the pixels (in range) lie in the node's frame and carry background or
    the label.  Shrink (`added = false`): the pixels carry the label or background, and one pixel of
    the node in its frame is not among them. -/
theorem C07_step_updSeg (s s' : St) (n : Node) (px : List Pix) (added : Bool) (rec : PrimRec)
    (g : Seg) (t : Nat) (hg : s.seg = some g) (hnd : s.ids.Nodup) (h0 : ∀ r ∈ s.nodes, r.id ≠ 0)
    (ht : s.timeOf n = some t)
    (hgrow : added = true → ∀ p ∈ px, p < g.data.length →
      (g.data.getD p 0 = 0 ∨ g.data.getD p 0 = n) ∧ p / g.frame = t)
    (hshrink : added = false →
      (∀ p ∈ px, p < g.data.length → g.data.getD p 0 = n ∨ g.data.getD p 0 = 0) ∧
      ∃ q, q ∉ px ∧ q / g.frame = t ∧ g.data.getD q 0 = n)
    (hs : SegOK s) (h : s.pUpdSeg n px added = .ok (s', rec)) : SegOK s' := by
  obtain ⟨e1, e2, -⟩ := pUpdSeg_seg_skel h hg
  rw [segOK_iff_skel] at hs ⊢
  intro g' hg'
  rw [e1] at hg'; cases hg'
  rw [e2]
  have hmem : (n, t) ∈ s.skel := mem_skel_of_timeOf ht
  cases added with
  | true =>
    simp only [if_true]
    exact segOKk_grow (hs g hg) (skel_ne_zero h0) hmem
      (fun p hp hlt => (hgrow rfl p hp hlt).1) (fun p hp hlt => (hgrow rfl p hp hlt).2)
  | false =>
    simp only [Bool.false_eq_true, if_false]
    obtain ⟨honly, q, hq1, hq2, hq3⟩ := hshrink rfl
    obtain ⟨_, _, hpos, _⟩ := Seg.pixelsOf_ne_nil.mp ((hs g hg).1 (n, t) hmem)
    exact segOKk_shrink (hs g hg) (skel_nodup_of_ids hnd) (skel_ne_zero h0) hmem honly
      ⟨q, hq1, hq2, hpos, hq3⟩

/-- grow node 1 onto the free pixel 2; shrink node 2 by pixel 6 -/
example : ∃ s1 r1 s2 r2, exC07.pUpdSeg 1 [2] true = .ok (s1, r1) ∧
    exC07.pUpdSeg 2 [6] false = .ok (s2, r2) ∧ exC07.timeOf 1 = some 0 ∧ exC07.timeOf 2 = some 1 ∧
    s1.seg = some { frame := 4, data := [1, 1, 1, 3, 2, 2, 2, 0] } ∧
    s2.seg = some { frame := 4, data := [1, 1, 0, 3, 2, 2, 0, 0] } ∧ SegOK exC07 :=
  ⟨_, _, _, _, rfl, rfl, by decide, by decide, by decide, by decide, exC07_segOK⟩
#print axioms C07_step_updSeg

/-- Undo of a recorded AddNode with pixels (the inverse is DeleteNode, which recomputes the pixels
    from the array of the state it runs in) restores the array bit for bit, provided the painted
    pixels were background, lie in the node's frame, and no cell of that frame carried the label
    before.  `s1'` is any later state with the same array in which the node still has its time. -/
theorem C07_undo_bits_addNode (s s1 s1' s2 : St) (r : NodeRec) (px : List Pix) (rec rec' : PrimRec)
    (g : Seg) (hg : s.seg = some g) (hnew : s.hasNode r.id = false)
    (hbg : ∀ p ∈ px, p < g.data.length → g.data.getD p 0 = 0)
    (hfr : ∀ p ∈ px, p < g.data.length → 0 < g.frame ∧ p / g.frame = r.time)
    (habs : g.pixelsOf r.time r.id = [])
    (h1 : s.pAddNode r (some px) = .ok (s1, rec)) (hsame : s1'.seg = s1.seg)
    (htime : s1'.timeOf r.id = some r.time)
    (h2 : s1'.invPrim rec = .ok (s2, rec')) : s2.seg = s.seg := by
  obtain ⟨e1, -⟩ := pAddNode_seg_skel h1 hg hnew
  obtain ⟨hrec, -, -⟩ := pAddNode_ok_sg h1
  subst hrec
  simp only [St.invPrim] at h2
  have hg1 : s1'.seg = some (g.setPixels px r.id) := hsame.trans e1
  have hdp : s1'.delPixels r.id none = some ((g.setPixels px r.id).pixelsOf r.time r.id) := by
    simp only [delPixels, getPixels, hg1, htime]
  obtain ⟨e2, -⟩ := pDelNode_seg_skel' h2 hg1 hdp
  rw [e2, hg]
  congr 1
  exact setPixels_undo_add hbg hfr habs

example : ∃ s1 r s2 r', exC07.pAddNode { id := 5, time := 1, tid := 3, lin := some 3 } (some [7]) = .ok (s1, r) ∧
    s1.invPrim r = .ok (s2, r') ∧ exC07g.pixelsOf 1 5 = [] ∧
    s1.seg = some { frame := 4, data := [1, 1, 0, 3, 2, 2, 2, 5] } ∧ s2.seg = exC07.seg :=
  ⟨_, _, _, _, rfl, rfl, by decide, by decide, by decide⟩
#print axioms C07_undo_bits_addNode

/-- The absence condition of `C07_undo_bits_addNode` cannot be dropped: if a cell of the frame
    already carries the label (an orphan label 5 at pixel 6 here), AddNode on the free pixel 7
    followed by its inverse also zeroes that cell. -/
theorem C07_note_undo_bits_addNode_needs_absent :
    ∃ s1 r s2 r', ({ exC07 with seg := some { frame := 4, data := [1, 1, 0, 3, 2, 2, 5, 0] } } : St).pAddNode
        { id := 5, time := 1, tid := 3, lin := some 3 } (some [7]) = .ok (s1, r) ∧
      s1.invPrim r = .ok (s2, r') ∧
      s2.seg = some { frame := 4, data := [1, 1, 0, 3, 2, 2, 0, 0] } :=
  ⟨_, _, _, _, rfl, rfl, by decide⟩
#print axioms C07_note_undo_bits_addNode_needs_absent

/-- FULL, session level: `C07_step`.  Every accepted `St.step` — the seven edits, feature switching,
    `nop`; undo / redo / queries do not answer `.ok` — keeps the consistent state of C07: `SegOK`,
    unique non-zero ids, an array with the same frame size.  The two array-writing operations carry
    their documented preconditions `StepPre`: the stroke preconditions `PaintPre` for a paint; for
    add-node a non-zero id and pixels (at least one in range) that lie in the node's frame on
    background.  All other operations need no precondition at all. -/
theorem C07_step (s s' : St) (op : Op) (g : Seg) (hg : s.seg = some g) (hpos : 0 < g.frame)
    (hnd : s.ids.Nodup) (h0 : ∀ r ∈ s.nodes, r.id ≠ 0) (hs : SegOK s) (hpre : StepPre s g op)
    (h : s.step op = (s', .ok)) :
    SegOK s' ∧ s'.ids.Nodup ∧ (∀ r ∈ s'.nodes, r.id ≠ 0) ∧
    ∃ g', s'.seg = some g' ∧ g'.frame = g.frame := by
  have hgd : Good s g.frame := (good_iff s g.frame).mpr ⟨g, hg, rfl, hs, hnd, h0⟩
  suffices Good s' g.frame by
    obtain ⟨g', a, b, c, d, e⟩ := (good_iff s' g.frame).mp this
    exact ⟨c, d, e, g', a, b⟩
  have hc : ∀ {r : UOut} {p : Option Node}, commit r p = (s', .ok) →
      ∃ recs, r.2 = .ok recs ∧ Fs r.1 s' := by
    intro r p hh
    obtain ⟨recs, hr, a, b, -⟩ := commit_ok hh
    exact ⟨recs, hr, b, by simp only [St.skel, a]⟩
  cases op with
  | addEdge e f =>
    obtain ⟨recs, hr, hfs⟩ := hc h
    exact Good.ofFs ((uAddEdge_okc hr).toFs.trans hfs) hgd
  | delEdge e =>
    obtain ⟨recs, hr, hfs⟩ := hc h
    exact Good.ofFs ((Fs.uDeleteEdge s e).trans hfs) hgd
  | swap a b =>
    obtain ⟨recs, hr, hfs⟩ := hc h
    exact Good.ofFs ((uSwap_okc hr).toFs.trans hfs) hgd
  | updAttrs n attrs =>
    obtain ⟨recs, hr, hfs⟩ := hc h
    exact Good.ofFs ((Fs.uUpdateAttrs s n attrs).trans hfs) hgd
  | delNode n =>
    obtain ⟨recs, hr, hfs⟩ := hc h
    obtain ⟨st, r, hfs1, hd⟩ := uDeleteNode_ok_sg hr
    exact Good.ofFs hfs (Good.pDelNode (Good.ofFs hfs1 hgd) hd)
  | addNode a =>
    obtain ⟨recs, hr, hfs⟩ := hc h
    obtain ⟨hid, px, t, hpx, ht, hbg, hne⟩ := hpre
    obtain ⟨time, tid, lin, st, s2, r, ht', hnew, hfs1, hadd, hfs2⟩ := uAddNode_ok_sg hr
    rw [ht] at ht'; cases ht'
    rw [hpx] at hadd
    have hnew' : st.hasNode a.node = false := by rw [hfs1.hasNode]; exact hnew
    exact Good.ofFs hfs (Good.ofFs hfs2
      (Good.pAddNode (r := ⟨a.node, t, tid, lin, a.other⟩) (Good.ofFs hfs1 hgd) hpos
        (hfs1.seg.trans hg) hnew' hid hbg hne hadd))
  | paint v groups tid f =>
    obtain ⟨t0, hp⟩ := hpre
    obtain ⟨e1, e2⟩ := C07_step_paint_partial s s' v groups tid f g hg h
    have hsub := foldl_segAbsStep_sublist groups (g.setPixels (groups.flatMap (·.1)) v, s.skel)
    simp only at hsub
    have hk : (s'.skel.map (·.1)).Nodup ∧ ∀ p ∈ s'.skel, p.1 ≠ 0 := by
      rw [e2]; exact paintSkelR_ids hsub (skel_nodup_of_ids hnd) (skel_ne_zero h0)
    refine ⟨_, e1, rfl, ?_, hk.1, hk.2⟩
    rw [e2]
    exact segOKk_paint hpos (skel_nodup_of_ids hnd) (skel_ne_zero h0)
      ((segOK_iff_skel s).mp hs g hg) hp
  | undo =>
    have := congrArg Prod.snd h
    rw [step_undo_eq] at this
    exact absurd this (histCore_ne_ok s _ _)
  | redo =>
    have := congrArg Prod.snd h
    rw [step_redo_eq] at this
    exact absurd this (histCore_ne_ok s _ _)
  | enable ks rc =>
    simp only [St.step] at h
    split at h
    · rename_i s1 he
      simp only [Prod.mk.injEq, and_true] at h
      subst h
      exact Good.ofFs (Fs.enable he) hgd
    · cases h
  | disable ks =>
    simp only [St.step] at h
    split at h
    · rename_i s1 hd
      simp only [Prod.mk.injEq, and_true] at h
      subst h
      exact Good.ofFs (Fs.disable hd) hgd
    · cases h
  | qNeighbors tid time => simp [St.step] at h
  | qHasTrack tid time => simp [St.step] at h
  | qNewIds n => simp [St.step] at h
  | nop =>
    simp only [St.step, Prod.mk.injEq, and_true] at h
    subst h
    exact hgd

/-- a paint, a delete-node and an add-node with pixels on `exC07`, all meeting `StepPre` -/
example : StepPre exC07 exC07g (.paint 9 [([1], 1), ([3], 3), ([2], 0)] 5 false) ∧
    StepPre exC07 exC07g (.addNode ⟨5, some 1, some 3, none, [], some [7], false⟩) ∧
    (∃ s', exC07.step (.paint 9 [([1], 1), ([3], 3), ([2], 0)] 5 false) = (s', .ok)) ∧
    (∃ s', exC07.step (.addNode ⟨5, some 1, some 3, none, [], some [7], false⟩) = (s', .ok) ∧
      s'.seg = some { frame := 4, data := [1, 1, 0, 3, 2, 2, 2, 5] }) ∧
    (∃ s', exC07.step (.delNode 3) = (s', .ok) ∧
      s'.seg = some { frame := 4, data := [1, 1, 0, 0, 2, 2, 2, 0] } ∧ s'.ids = [1, 2]) :=
  ⟨⟨0, by decide⟩, ⟨by decide, [7], 1, rfl, rfl, by decide, by decide⟩, ⟨_, rfl⟩, ⟨_, rfl, by decide⟩,
    ⟨_, rfl, by decide, by decide⟩⟩
#print axioms C07_step
