/-
  C04 (round 2, package R2B) — the joint invariant `St.Valid`
  (= `Forest ∧ TidOK ∧ LinOK ∧ BookOK ∧ linOn = true`, SessionSpec.lean) is re-established by every
  accepted `uDeleteEdge`, `uAddEdge` (forced or not) and `uSwap`; with it the missing per-action
  pieces: `C04_step_addEdge`, `C04_frame_addEdge`, `C04_step_swap`, `C04_frame_swap`,
  `C05_frame_swap`.

  Property text (C04): "… after every accepted user action … two nodes carry the same track id iff
  they lie on the same unbranched segment.  An edit leaves the track id of every node unchanged
  whose connected component contains neither a node the edit names nor a node of the track it
  names."  The first sentence is `TidOK` + `C04_tid_iff_sameSeg`; the second the `C04_frame_*`
  clauses (for `uAddEdge (u,v)` the named nodes are `u`, `v`; for `uSwap n1 n2` they are `n1`, `n2`;
  the former parents are connected to these).

  Helper lemmas: FtProofs/R2BLemmas.lean (namespace `Ft.R2B`): `graftTid0/1` are the grafting
  counterparts of the edge-cut lemmas `tk_cutTid0/1`.
-/
import FtProofs.R2BLemmas
open Ft Ft.St

-- example state `Ft.R2B.exState`: 1 → 2 → {3, 4} (division at 2), 5 → 6 (skip edge), 7 isolated
-- (time 4); `Ft.R2B.exState_valid : exState.Valid`

/-- accepted `uAddEdge` (forced or not) re-establishes `TidOK` (with the forest shape and the bound
    that makes `nextTid` fresh) -/
theorem C04_step_addEdge {s : St} (hF : s.Forest) (hT : s.TidOK)
    (hmax : ∀ n t, s.tidOf n = some t → t ≤ s.maxTid) {e : Edge} {force : Bool} {recs}
    (hok : (s.uAddEdge e force).2 = .ok recs) :
    let s' := (s.uAddEdge e force).1
    s'.TidOK ∧ s'.Forest ∧ (∀ n t, s'.tidOf n = some t → t ≤ s'.maxTid) := by
  have h := (Ft.R2B.uAddEdge_tidInv ⟨hF, hT, hmax⟩ hok).1
  exact ⟨h.tidOK, h.forest, h.max⟩

-- plain append (6,7): 7 joins track 4; new division (5,7): the old child 6 gets the fresh id 6;
-- forced (4,6): the edge (5,6) is removed first, 6 joins track 3 of the leaf 4
example : Ft.R2B.exState.Forest ∧ Ft.R2B.exState.TidOK ∧ (∀ n t, Ft.R2B.exState.tidOf n = some t → t ≤ Ft.R2B.exState.maxTid) ∧
    (∃ recs, (Ft.R2B.exState.uAddEdge (6, 7) false).2 = .ok recs) ∧
    (∃ recs, (Ft.R2B.exState.uAddEdge (5, 7) false).2 = .ok recs) ∧
    (∃ recs, (Ft.R2B.exState.uAddEdge (4, 6) true).2 = .ok recs) ∧
    (∃ err, (Ft.R2B.exState.uAddEdge (4, 6) false).2 = .error err) ∧
    (Ft.R2B.exState.uAddEdge (6, 7) false).1.tidOf 7 = some 4 ∧
    (Ft.R2B.exState.uAddEdge (5, 7) false).1.tidOf 6 = some 6 ∧
    (Ft.R2B.exState.uAddEdge (5, 7) false).1.tidOf 7 = some 5 ∧
    (Ft.R2B.exState.uAddEdge (4, 6) true).1.tidOf 6 = some 3 ∧
    (Ft.R2B.exState.uAddEdge (4, 6) true).1.tidOf 5 = some 4 :=
  ⟨tk_forestB_sound (by decide), tk_tidOKB_sound (by decide), tk_tidMaxB_sound (by decide),
   ⟨_, rfl⟩, ⟨_, rfl⟩, ⟨_, rfl⟩, ⟨_, rfl⟩, by decide, by decide, by decide, by decide, by decide⟩
#print axioms C04_step_addEdge

/-- frame clause for `uAddEdge`: a node connected to neither end point keeps its track id -/
theorem C04_frame_addEdge {s : St} (hF : s.Forest) (hT : s.TidOK)
    (hmax : ∀ n t, s.tidOf n = some t → t ≤ s.maxTid) {e : Edge} {force : Bool} {recs}
    (hok : (s.uAddEdge e force).2 = .ok recs) (n : Node)
    (hn1 : ¬ s.Conn n e.1) (hn2 : ¬ s.Conn n e.2) :
    (s.uAddEdge e force).1.tidOf n = s.tidOf n :=
  Ft.R2B.uAddEdge_tid_frame ⟨hF, hT, hmax⟩ hok n hn1 hn2

example : ¬ Ft.R2B.exState.Conn 7 4 ∧ ¬ Ft.R2B.exState.Conn 7 6 ∧ ¬ Ft.R2B.exState.Conn 3 5 ∧ ¬ Ft.R2B.exState.Conn 3 7 ∧
    (Ft.R2B.exState.uAddEdge (4, 6) true).1.tidOf 7 = Ft.R2B.exState.tidOf 7 ∧
    (Ft.R2B.exState.uAddEdge (5, 7) false).1.tidOf 3 = Ft.R2B.exState.tidOf 3 :=
  ⟨Ft.R2B.exState_notConn (by decide), Ft.R2B.exState_notConn (by decide), Ft.R2B.exState_notConn (by decide),
   Ft.R2B.exState_notConn (by decide), by decide, by decide⟩
#print axioms C04_frame_addEdge

/-- accepted `uSwap` (two `uDeleteEdge`, two unforced `uAddEdge`) re-establishes `TidOK` -/
theorem C04_step_swap {s : St} (hF : s.Forest) (hT : s.TidOK)
    (hmax : ∀ n t, s.tidOf n = some t → t ≤ s.maxTid) {n1 n2 : Node} {recs}
    (hok : (s.uSwap n1 n2).2 = .ok recs) :
    let s' := (s.uSwap n1 n2).1
    s'.TidOK ∧ s'.Forest ∧ (∀ n t, s'.tidOf n = some t → t ≤ s'.maxTid) := by
  have h := Ft.R2B.uSwap_tidInv ⟨hF, hT, hmax⟩ hok
  exact ⟨h.tidOK, h.forest, h.max⟩

-- swap the parents of 3 (child of the division 2) and 6 (child of 5): afterwards 2 → {4, 6}, 5 → 3
example : Ft.R2B.exState.Forest ∧ Ft.R2B.exState.TidOK ∧ (∀ n t, Ft.R2B.exState.tidOf n = some t → t ≤ Ft.R2B.exState.maxTid) ∧
    (∃ recs, (Ft.R2B.exState.uSwap 3 6).2 = .ok recs) ∧
    (Ft.R2B.exState.uSwap 3 6).1.edgeList = [(1, 2), (2, 4), (2, 6), (5, 3)] ∧
    (Ft.R2B.exState.uSwap 3 6).1.tidOf 3 = (Ft.R2B.exState.uSwap 3 6).1.tidOf 5 ∧
    (Ft.R2B.exState.uSwap 3 6).1.tidOf 6 ≠ (Ft.R2B.exState.uSwap 3 6).1.tidOf 4 ∧
    (Ft.R2B.exState.uSwap 3 6).1.tidOf 4 ≠ (Ft.R2B.exState.uSwap 3 6).1.tidOf 2 :=
  ⟨tk_forestB_sound (by decide), tk_tidOKB_sound (by decide), tk_tidMaxB_sound (by decide),
   ⟨_, rfl⟩, by decide, by decide, by decide, by decide⟩
#print axioms C04_step_swap

/-- frame clause for `uSwap`: a node connected to neither of the two named nodes keeps its track id -/
theorem C04_frame_swap {s : St} (hF : s.Forest) (hT : s.TidOK)
    (hmax : ∀ n t, s.tidOf n = some t → t ≤ s.maxTid) {n1 n2 : Node} {recs}
    (hok : (s.uSwap n1 n2).2 = .ok recs) (n : Node)
    (hn1 : ¬ s.Conn n n1) (hn2 : ¬ s.Conn n n2) :
    (s.uSwap n1 n2).1.tidOf n = s.tidOf n :=
  Ft.R2B.uSwap_tid_frame ⟨hF, hT, hmax⟩ hok n (fun h => hn1 (h.symm hF)) (fun h => hn2 (h.symm hF))

example : ¬ Ft.R2B.exState.Conn 7 3 ∧ ¬ Ft.R2B.exState.Conn 7 6 ∧
    (Ft.R2B.exState.uSwap 3 6).1.tidOf 7 = Ft.R2B.exState.tidOf 7 :=
  ⟨Ft.R2B.exState_notConn (by decide), Ft.R2B.exState_notConn (by decide), by decide⟩
#print axioms C04_frame_swap

/-- frame clause of C05 for `uSwap`: a node connected to neither of the two named nodes keeps its
    lineage id (only descendants of `n1` or `n2` are relabelled) -/
theorem C05_frame_swap {s : St} (hF : s.Forest) (hL : s.LinOK) (hon : s.linOn = true)
    (hmax : ∀ n l, s.linOf n = some l → l ≤ s.maxLin) {n1 n2 : Node} {recs}
    (hok : (s.uSwap n1 n2).2 = .ok recs) (n : Node)
    (hn1 : ¬ s.Conn n n1) (hn2 : ¬ s.Conn n n2) :
    (s.uSwap n1 n2).1.linOf n = s.linOf n := by
  obtain ⟨hm1, hm2⟩ := Ft.R2B.uSwap_ok_nodes hok
  exact Ft.R2B.uSwap_lin_frame ⟨hF, hL, hon, hmax⟩ hok n
    (fun h => hn1 ((h.conn hm1).symm hF)) (fun h => hn2 ((h.conn hm2).symm hF))

-- 7 is in neither component; 4 is connected to 3 but not below 3 or 6 and keeps its lineage too;
-- 3 and its new parent 5 share a lineage afterwards
example : Ft.R2B.exState.tk_LinInv ∧ (∃ recs, (Ft.R2B.exState.uSwap 3 6).2 = .ok recs) ∧
    ¬ Ft.R2B.exState.Conn 7 3 ∧ ¬ Ft.R2B.exState.Conn 7 6 ∧
    (Ft.R2B.exState.uSwap 3 6).1.linOf 7 = Ft.R2B.exState.linOf 7 ∧
    (Ft.R2B.exState.uSwap 3 6).1.linOf 3 ≠ Ft.R2B.exState.linOf 3 ∧
    (Ft.R2B.exState.uSwap 3 6).1.linOf 3 = (Ft.R2B.exState.uSwap 3 6).1.linOf 5 :=
  ⟨tk_linInv_of_check (by decide) (by decide) rfl (by decide), ⟨_, rfl⟩,
   Ft.R2B.exState_notConn (by decide), Ft.R2B.exState_notConn (by decide), by decide, by decide, by decide⟩
#print axioms C05_frame_swap

/-! ## `Valid` is preserved -/

/-- accepted `uDeleteEdge` preserves the joint invariant -/
theorem C04_valid_uDeleteEdge {s : St} (h : s.Valid) {e : Edge} {recs}
    (hok : (s.uDeleteEdge e).2 = .ok recs) : (s.uDeleteEdge e).1.Valid :=
  Ft.R2B.valid_del h hok

-- a non-division edge and a division edge; the results pass the independent Boolean check as well
example : Ft.R2B.exState.Valid ∧ (∃ recs, (Ft.R2B.exState.uDeleteEdge (1, 2)).2 = .ok recs) ∧
    (∃ recs, (Ft.R2B.exState.uDeleteEdge (2, 3)).2 = .ok recs) ∧
    (Ft.R2B.exState.uDeleteEdge (2, 3)).1.tidOf 4 = some 1 ∧
    Ft.R2B.validB (Ft.R2B.exState.uDeleteEdge (2, 3)).1 = true :=
  ⟨Ft.R2B.exState_valid, ⟨_, rfl⟩, ⟨_, rfl⟩, by decide, by decide⟩
#print axioms C04_valid_uDeleteEdge

/-- accepted `uAddEdge` (forced or not) preserves the joint invariant -/
theorem C04_valid_uAddEdge {s : St} (h : s.Valid) {e : Edge} {force : Bool} {recs}
    (hok : (s.uAddEdge e force).2 = .ok recs) : (s.uAddEdge e force).1.Valid :=
  Ft.R2B.valid_add h hok

example : Ft.R2B.exState.Valid ∧ (∃ recs, (Ft.R2B.exState.uAddEdge (6, 7) false).2 = .ok recs) ∧
    (∃ recs, (Ft.R2B.exState.uAddEdge (5, 7) false).2 = .ok recs) ∧
    (∃ recs, (Ft.R2B.exState.uAddEdge (4, 6) true).2 = .ok recs) ∧
    (∃ recs, (Ft.R2B.exState.uAddEdge (5, 3) true).2 = .ok recs) ∧
    Ft.R2B.validB (Ft.R2B.exState.uAddEdge (5, 3) true).1 = true ∧
    (Ft.R2B.exState.uAddEdge (5, 3) true).1.edgeList = [(1, 2), (2, 4), (5, 6), (5, 3)] :=
  ⟨Ft.R2B.exState_valid, ⟨_, rfl⟩, ⟨_, rfl⟩, ⟨_, rfl⟩, ⟨_, rfl⟩, by decide, by decide⟩
#print axioms C04_valid_uAddEdge

/-- accepted `uSwap` preserves the joint invariant -/
theorem C04_valid_uSwap {s : St} (h : s.Valid) {n1 n2 : Node} {recs}
    (hok : (s.uSwap n1 n2).2 = .ok recs) : (s.uSwap n1 n2).1.Valid :=
  Ft.R2B.valid_swap h hok

-- both nodes have a parent (3, 6); only one has (3, 7): then 7 takes over the parent of 3
example : Ft.R2B.exState.Valid ∧ (∃ recs, (Ft.R2B.exState.uSwap 3 6).2 = .ok recs) ∧
    (∃ recs, (Ft.R2B.exState.uSwap 3 7).2 = .ok recs) ∧
    (Ft.R2B.exState.uSwap 3 7).1.edgeList = [(1, 2), (2, 4), (5, 6), (2, 7)] ∧
    Ft.R2B.validB (Ft.R2B.exState.uSwap 3 6).1 = true ∧ Ft.R2B.validB (Ft.R2B.exState.uSwap 3 7).1 = true :=
  ⟨Ft.R2B.exState_valid, ⟨_, rfl⟩, ⟨_, rfl⟩, by decide, by decide, by decide⟩
#print axioms C04_valid_uSwap
