/-
  C08 — node measurements equal those of the current mask.

  "Whenever a segmentation-derived node feature is enabled, its stored value for every node equals
   the value computed from that node's current mask and the scale alone ... no matter which edits,
   undos and redos produced the mask."

  Model: a stored regionprops value IS the mask it was computed from (`Val.mask ps`, `Val.none`
  for an empty mask), so "equals the value computed from the current mask" is
  `alook k r.other = some (g.maskVal r.time r.id)` for every active key `k` — the node clause
  `RpOK` of `MeasOK` (`measOK_iff_sg`).  Parametric in the measure function, hence it covers area,
  position and the shape features alike.

  Status.  Proved at the level of the primitives (every user action, undo and redo is a sequence
  of primitives): the incremental recomputation (`C08_meas_update`), preservation of the node
  clause by each of the seven primitives (`C08_meas_step_*`) and the bulk computation
  (`C08_bulk`).  The array-writing primitives need the explicit precondition that the written
  pixels do not carry (and the written value is not) the label of another node
  (`Seg.Untouched`); inside `UserUpdateSegmentation` this precondition is deliberately violated
  between the sub-actions (the caller has already painted the new label over the pixels that the
  "shrink" sub-action then zeroes), so the node clause is NOT a step invariant of the individual
  sub-actions of a paint, only of the whole paint; the composition over a whole paint is not
  proved here (see `C08_meas_step_paint` below, statement only).
-/
import FtProofs.SegLemmas
open Ft Ft.St List

namespace Ft.St

/-- example: two frames of 4 pixels; node 1 in frame 0, node 2 in frame 1; key 5 = "area",
    active, values current; key 9 = a static user attribute -/
def exC08 : St :=
  { nodes := [{ id := 1, time := 0, tid := 1, lin := some 1, other := [(5, Val.mask [0, 1]), (9, Val.tok 3)] },
              { id := 2, time := 1, tid := 1, lin := some 1, other := [(5, Val.mask [4, 5, 6])] }],
    edges := [{ e := (1, 2) }],
    seg := some { frame := 4, data := [1, 1, 0, 0,  2, 2, 2, 0] },
    rpAvail := [5, 6], rpActive := [5], regNode := [5, 9],
    t2n := [(1, [1, 2])], l2n := [(1, [1, 2])], maxTid := 1, maxLin := 1, counter := 3 }

def exC08g : Seg := { frame := 4, data := [1, 1, 0, 0,  2, 2, 2, 0] }

theorem exC08_rpOK : RpOK exC08 := by
  intro g hg
  have : g = exC08g := by cases hg; rfl
  subst this
  decide

end Ft.St

/-- `rpUpdate n` (the incremental recomputation after AddNode / UpdateNodeSeg) makes every active
    key of node `n` equal to the snapshot of `n`'s mask in the current array, leaves every other
    node record, the array, the node skeleton and the edges alone, and does not write inactive
    keys. -/
theorem C08_meas_update (s : St) (n : Node) (g : Seg) (hg : s.seg = some g) (hnd : s.ids.Nodup) :
    (∀ r ∈ (s.rpUpdate n).nodes, r.id = n → ∀ k ∈ s.rpActive,
        alook k r.other = some (g.maskVal r.time n)) ∧
    (∀ r ∈ (s.rpUpdate n).nodes, r.id ≠ n → r ∈ s.nodes) ∧
    (∀ r ∈ (s.rpUpdate n).nodes, r.id = n → ∀ k, k ∉ s.rpActive →
        ∃ r0 ∈ s.nodes, r0.id = n ∧ alook k r.other = alook k r0.other) ∧
    (s.rpUpdate n).seg = s.seg ∧ (s.rpUpdate n).skel = s.skel ∧ (s.rpUpdate n).edges = s.edges := by
  obtain ⟨h1, h2, h3⟩ := rpUpdate_spec s n g hg hnd
  exact ⟨h1, h2, h3, rpUpdate_seg s n, rpUpdate_skel s n, rpUpdate_edges s n⟩

example : ((exC08.withSeg (exC08g.setPixels [2] 1)).rpUpdate 1).nodes.map (·.other) =
    [[(5, Val.mask [0, 1, 2]), (9, Val.tok 3)], [(5, Val.mask [4, 5, 6])]] := by decide
#print axioms C08_meas_update

/-- UpdateNodeSeg keeps every stored measurement current, provided the written pixels do not
    carry the label of another node and the written value is not another node's label. -/
theorem C08_meas_step_updSeg (s s' : St) (n : Node) (px : List Pix) (added : Bool) (rec : PrimRec)
    (g : Seg) (hg : s.seg = some g) (hnd : s.ids.Nodup) (hm : RpOK s)
    (hpre : ∀ r ∈ s.nodes, r.id ≠ n → g.Untouched px (if added then n else 0) r.id)
    (h : s.pUpdSeg n px added = .ok (s', rec)) : RpOK s' := by
  obtain ⟨g', hg', -, -, rfl⟩ := pUpdSeg_ok_sg h
  rw [hg] at hg'; cases hg'
  exact rpOK_congr (iouUpdateNode_seg _ _) (iouUpdateNode_nodes _ _) (iouUpdateNode_rpActive _ _)
    (rpOK_write hg hnd hm hpre)

example : ∃ s' r, exC08.pUpdSeg 1 [2] true = .ok (s', r) ∧
    (∀ r ∈ exC08.nodes, r.id ≠ 1 → exC08g.Untouched [2] (if true then 1 else 0) r.id) ∧
    s'.nodes.map (·.other) = [[(5, Val.mask [0, 1, 2]), (9, Val.tok 3)], [(5, Val.mask [4, 5, 6])]] :=
  ⟨_, _, rfl, by decide, by decide⟩
#print axioms C08_meas_step_updSeg

/-- AddNode of a new node (with or without pixels) keeps every stored measurement current and
    computes those of the new node, provided it paints on pixels that carry no other node's label. -/
theorem C08_meas_step_addNode (s s' : St) (r : NodeRec) (pixels : Option (List Pix)) (rec : PrimRec)
    (hnd : s.ids.Nodup) (hnew : s.hasNode r.id = false) (hm : RpOK s)
    (hpre : ∀ ps g, pixels = some ps → s.seg = some g → ∀ r' ∈ s.nodes, g.Untouched ps r.id r'.id)
    (h : s.pAddNode r pixels = .ok (s', rec)) : RpOK s' := by
  obtain ⟨-, -, rfl⟩ := pAddNode_ok_sg h
  apply (Fr.trackAdd _ _).rpOK
  have hnew1 : (s.paintWith pixels r.id).hasNode r.id = false := by rw [paintWith_hasNode, hnew]
  rw [addNodeRaw_new hnew1]
  have hnotin : r.id ∉ s.ids := fun hmem => by
    have := (hasNode_iff_mem_ids_sg s r.id).mpr hmem
    rw [hnew] at this; cases this
  apply rpOK_rpUpdate
  · rw [ids_append_sg, paintWith_ids]
    exact List.nodup_append.mpr ⟨hnd, by simp, fun a ha b hb => by
      simp only [List.mem_singleton] at hb; subst hb; exact fun e => hnotin (e ▸ ha)⟩
  · intro g' hg' k hk r' hr' hne
    have hr0 : r' ∈ s.nodes := by
      simp only [paintWith_nodes, List.mem_append, List.mem_singleton] at hr'
      rcases hr' with h1 | h1
      · exact h1
      · exact absurd (by rw [h1]) hne
    change (s.paintWith pixels r.id).seg = some g' at hg'
    change k ∈ (s.paintWith pixels r.id).rpActive at hk
    rw [paintWith_rpActive] at hk
    rcases paintWith_cases s pixels r.id with ⟨ps, g, hp, hg, heq⟩ | ⟨-, heq⟩
    · rw [heq, withSeg_seg] at hg'
      cases hg'
      rw [Seg.maskVal_setPixels_other (hpre ps g hp hg r' hr0)]
      exact hm g hg k hk r' hr0
    · rw [heq] at hg'
      exact hm g' hg' k hk r' hr0

example : ∃ s' r, exC08.pAddNode { id := 3, time := 0, tid := 2, lin := some 2 } (some [2, 3]) = .ok (s', r) ∧
    exC08.hasNode 3 = false ∧ (∀ r' ∈ exC08.nodes, exC08g.Untouched [2, 3] 3 r'.id) ∧
    s'.nodes.map (·.other) =
      [[(5, Val.mask [0, 1]), (9, Val.tok 3)], [(5, Val.mask [4, 5, 6])], [(5, Val.mask [2, 3])]] :=
  ⟨_, _, rfl, by decide, by decide, by decide⟩
#print axioms C08_meas_step_addNode

/-- DeleteNode keeps the stored measurements of the remaining nodes current, provided the zeroed
    pixels do not carry another node's label (and 0 is not a node id). -/
theorem C08_meas_step_delNode (s s' : St) (n : Node) (pixels : Option (List Pix)) (rec : PrimRec)
    (hm : RpOK s)
    (hpre : ∀ ps g, s.delPixels n pixels = some ps → s.seg = some g →
      ∀ r' ∈ s.nodes, r'.id ≠ n → g.Untouched ps 0 r'.id)
    (h : s.pDelNode n pixels = .ok (s', rec)) : RpOK s' := by
  obtain ⟨r, -, -, rfl⟩ := pDelNode_ok_sg h
  apply (Fr.trackOnDelete _ _).rpOK
  intro g' hg' k hk r' hr'
  change (s.paintWith (s.delPixels n pixels) 0).seg = some g' at hg'
  change k ∈ (s.paintWith (s.delPixels n pixels) 0).rpActive at hk
  rw [paintWith_rpActive] at hk
  have hr0 : r' ∈ s.nodes ∧ r'.id ≠ n := by
    simp only [delRaw, paintWith_nodes, List.mem_filter, bne_iff_ne] at hr'
    exact hr'
  rcases paintWith_cases s (s.delPixels n pixels) 0 with ⟨ps, g, hp, hg, heq⟩ | ⟨-, heq⟩
  · rw [heq, withSeg_seg] at hg'
    cases hg'
    rw [Seg.maskVal_setPixels_other (hpre ps g hp hg r' hr0.1 hr0.2)]
    exact hm g hg k hk r' hr0.1
  · rw [heq] at hg'
    exact hm g' hg' k hk r' hr0.1

example : ∃ s' r, exC08.pDelNode 2 none = .ok (s', r) ∧
    exC08.delPixels 2 none = some [4, 5, 6] ∧
    (∀ r' ∈ exC08.nodes, r'.id ≠ 2 → exC08g.Untouched [4, 5, 6] 0 r'.id) ∧
    s'.seg = some { frame := 4, data := [1, 1, 0, 0, 0, 0, 0, 0] } ∧
    s'.nodes.map (·.other) = [[(5, Val.mask [0, 1]), (9, Val.tok 3)]] :=
  ⟨_, _, rfl, by decide, by decide, by decide, by decide⟩
#print axioms C08_meas_step_delNode

/-- The primitives that do not touch the array — AddEdge, DeleteEdge, UpdateTrackIDs — keep every
    stored measurement current (they change neither a mask nor a stored regionprops value). -/
theorem C08_meas_step_noarray (s s' : St) (rec : PrimRec) (hm : RpOK s)
    (h : (∃ e attrs, s.pAddEdge e attrs = .ok (s', rec)) ∨ (∃ e, s.pDelEdge e = .ok (s', rec)) ∨
         (∃ start newT newL, s.pUpdTid start newT newL = .ok (s', rec))) : RpOK s' := by
  rcases h with ⟨e, attrs, h⟩ | ⟨e, h⟩ | ⟨start, newT, newL, h⟩
  · obtain ⟨-, -, -, rfl⟩ := pAddEdge_ok_sg h
    exact rpOK_congr ((iouUpdateEdge_seg _ _).trans (addEdgeRaw_seg ..))
      ((iouUpdateEdge_nodes _ _).trans (addEdgeRaw_nodes ..))
      ((iouUpdateEdge_rpActive _ _).trans (addEdgeRaw_rpActive ..)) hm
  · rw [pDelEdge_ok_sg h]
    exact rpOK_congr rfl rfl rfl hm
  · exact (Fr.pUpdTid h).rpOK hm

example : ∃ s' r, exC08.pUpdTid 2 7 (some 4) = .ok (s', r) ∧ s'.tidOf 2 = some 7 ∧
    s'.nodes.map (·.other) = exC08.nodes.map (·.other) :=
  ⟨_, _, rfl, by decide, by decide⟩
#print axioms C08_meas_step_noarray

/-- UpdateNodeAttrs keeps every stored measurement current: it refuses every annotator key, so
    (active keys being annotator keys) no active regionprops value is overwritten. -/
theorem C08_meas_step_updAttrs (s s' : St) (n : Node) (attrs : List (Key × Val)) (rec : PrimRec)
    (hm : RpOK s) (hreg : ∀ k ∈ s.rpActive, k ∈ s.rpAvail)
    (h : s.pUpdAttrs n attrs = .ok (s', rec)) : RpOK s' := by
  unfold pUpdAttrs at h
  split at h
  · cases h
  · rename_i hprot
    split at h
    · cases h
    · simp only [Except.ok.injEq, Prod.mk.injEq] at h
      obtain ⟨rfl, -⟩ := h
      have hfree : ∀ kv ∈ attrs, kv.1 ∉ s.rpActive := by
        intro kv hkv hact
        apply hprot
        simp only [List.any_eq_true]
        refine ⟨kv, hkv, ?_⟩
        simp only [protectedKeys, annotKeys, List.contains_iff_mem, List.mem_cons, List.mem_append]
        exact Or.inr (Or.inl (Or.inr (hreg _ hact)))
      clear hprot
      -- generalised over the running state of the fold
      suffices H : ∀ (l : List (Key × Val)) (st : St), RpOK st → st.rpActive = s.rpActive →
          (∀ kv ∈ l, kv.1 ∉ s.rpActive) →
          RpOK (l.foldl (fun st kv => st.setOther n kv.1 kv.2) st) from H attrs s hm rfl hfree
      intro l
      induction l with
      | nil => intro st h1 _ _; exact h1
      | cons kv l ih =>
        intro st h1 h2 h3
        rw [List.foldl_cons]
        refine ih _ ?_ h2 (fun kv' hkv' => h3 kv' (List.mem_cons_of_mem _ hkv'))
        have hkv : kv.1 ∉ st.rpActive := by rw [h2]; exact h3 kv (List.mem_cons_self ..)
        intro g hg k hk r hr
        change k ∈ st.rpActive at hk
        change st.seg = some g at hg
        simp only [setOther, updNode, List.mem_map] at hr
        obtain ⟨r0, hr0, rfl⟩ := hr
        have := h1 g hg k hk r0 hr0
        split
        · have hne : k ≠ kv.1 := fun e => hkv (e ▸ hk)
          simp only
          rw [alook_aset_ne_sg hne]; exact this
        · exact this

example : ∃ s' r, exC08.pUpdAttrs 1 [(9, Val.tok 8)] = .ok (s', r) ∧
    s'.nodes.map (·.other) = [[(5, Val.mask [0, 1]), (9, Val.tok 8)], [(5, Val.mask [4, 5, 6])]] ∧
    exC08.pUpdAttrs 1 [(5, Val.tok 8)] = .error .value :=
  ⟨_, _, rfl, by decide, rfl⟩
#print axioms C08_meas_step_updAttrs

/-- Bulk computation (`RegionpropsAnnotator.compute`, run by `enable_features`): on a state whose
    labels and nodes correspond (`SegOK`, unique non-zero ids, whole frames) every requested
    active key of EVERY node ends up equal to the snapshot of that node's current mask; the array,
    the node skeleton, the edges and the active set are unchanged. -/
theorem C08_bulk (s : St) (keys : List Key) (g : Seg) (hg : s.seg = some g) (hwf : g.WF)
    (hnd : s.ids.Nodup) (h0 : ∀ r ∈ s.nodes, r.id ≠ 0) (hseg : SegOK s) :
    (∀ k ∈ keys, k ∈ s.rpActive → ∀ r ∈ (s.rpCompute keys).nodes,
        alook k r.other = some (g.maskVal r.time r.id)) ∧
    (s.rpCompute keys).seg = s.seg ∧ (s.rpCompute keys).skel = s.skel ∧
    (s.rpCompute keys).edges = s.edges ∧ (s.rpCompute keys).rpActive = s.rpActive := by
  by_cases hemp : (keys.filter (s.rpActive.contains ·)).isEmpty = true
  · have hs : s.rpCompute keys = s := by
      unfold rpCompute; simp only [hg, hemp, if_true]
    rw [hs]
    refine ⟨?_, rfl, rfl, rfl, rfl⟩
    intro k hk hact
    have : k ∈ keys.filter (s.rpActive.contains ·) := by
      simp [List.mem_filter, hk, hact]
    rw [List.isEmpty_iff.mp hemp] at this; cases this
  · have hemp' : (keys.filter (s.rpActive.contains ·)).isEmpty = false := by simpa using hemp
    rw [rpCompute_eq s keys g hg hemp']
    obtain ⟨g1, g2, g3, g4, g5⟩ := rpFold_inv g (keys.filter (s.rpActive.contains ·)) s
      (rpWrites g) s [] rfl (fun w hw r hr hid => rpWrites_time hg hnd hseg hw hr hid)
      (fun r _ hd => by cases hd)
    refine ⟨?_, g2, g1, g4, g3⟩
    intro k hk hact r hr
    -- the record corresponds to a record of `s` with the same id and time
    have hsk : (r.id, r.time) ∈ s.skel := by rw [← g1]; exact mem_skel_of_mem hr
    obtain ⟨r0, hr0, he⟩ := List.mem_map.mp hsk
    simp only [Prod.mk.injEq] at he
    have hw : (r.time, r.id) ∈ rpWrites g := by
      rw [← he.1, ← he.2]; exact mem_rpWrites_of_node hg hwf hseg hr0 (h0 r0 hr0)
    have hne : g.pixelsOf r.time r.id ≠ [] := by
      rw [← he.1, ← he.2]; exact (hseg g hg).1 r0 hr0
    rw [g5 r hr (Or.inr hw) k (by simp [List.mem_filter, hk, hact])]
    simp [Seg.maskVal, hne]

/-- stale values everywhere: bulk recomputation repairs them -/
def exC08stale : St :=
  { exC08 with nodes := [{ id := 1, time := 0, tid := 1, lin := some 1, other := [(5, Val.mask [0]), (9, Val.tok 3)] },
                          { id := 2, time := 1, tid := 1, lin := some 1 }] }

theorem exC08_segOK : SegOK exC08stale := by
  intro g hg
  have : g = exC08g := by cases hg; rfl
  subst this
  decide

example : exC08g.WF ∧ exC08stale.ids.Nodup ∧ (∀ r ∈ exC08stale.nodes, r.id ≠ 0) ∧
    (exC08stale.rpCompute [5, 6]).nodes.map (·.other) =
      [[(5, Val.mask [0, 1]), (9, Val.tok 3)], [(5, Val.mask [4, 5, 6])]] := by decide
#print axioms C08_bulk

/-
  Not proved (statement only): the node clause over a whole accepted paint.

  theorem C08_meas_step_paint (s s' : St) (v groups tid force) :
      Forest s → BookOK s → SegOK s → MeasOK s → PaintPre s v groups →
      s.step (.paint v groups tid force) = (s', .ok) → MeasOK s'

  Missing: the composition of `C08_meas_step_*` over the sub-actions of `uUpdateSeg` with the
  weakened intermediate invariant "every node except `v` is current w.r.t. the array in which
  the stroke pixels are read as `v`" (see the header), and the corresponding statement for undo /
  redo (inverse primitives in reverse order).
-/
