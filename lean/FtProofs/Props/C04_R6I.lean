/-
  C04 / C05 / C03 (package R6I) — **an imported solution satisfies the invariant of the editing
  theorems.**

  C04: "In a tracking solution - after construction from a graph without ids and after every accepted
        user action, undo or redo - two nodes carry the same track id iff they lie on the same
        unbranched segment …"  (C05: lineage ids / connected components; C03: forward binary forest.)

  The whole-history theorems `C03_reach`, `C01_user_all`, `C02_session_valid` (Props/C02_R3D_main.lean)
  start from a state with the bundle invariant `R3D.Inv` and an empty history.  The documented
  precondition "imported graphs are forests with forward edges when the editing properties are applied
  to them" was an assumption.  This file discharges it for the import model `FtModel/Import.lean`:

  * `Ft.R6I.toStR enc reg g` (FtProofs/R6ILemmas.lean) is the state `TracksBuilder.build` step 6
    constructs from the imported graph `g`: `SolutionTracks(graph, segmentation=None, pos_attr="pos",
    time_attr="time")` — nodes in table order (id, time, every other loaded attribute), edges = the
    parent links, no array, lineage feature on, position key `pos`, registered static features `reg`,
    track ids then lineage ids by the bulk assignment (`assignTracklets`, `assignLineages` — the source
    has no id columns), lookups and maxima rebuilt from them, empty history.
    `toSt enc g` registers every loaded property (`reg := names g`).
  * `C04_import_inv`        every table the importer accepts (rectangular, unambiguous name map) whose
                            links go forward in time with ≤ 2 children per node gives `Inv (toStR …)`
                            (preconditions read on the imported graph, any key numbering `enc`);
    `C04_import_inv_std`    … with the standard key numbering no hypothesis on the encoding is left;
    `C04_import_inv_table`  … with every precondition read on the TABLE (`TTimed`, `TForward`,
                            `TBinary`, `TNonNeg`) — the statement of the package;
    `C04_import_inv_geff`   the same for a GEFF store (which may contain merges: `OneParent` is needed);
  * `C03_reach_imported`, `C03_reach_imported_table`, `C01_user_imported`
                            the whole-history theorems on an imported solution;
  * `C04_import_ids`        same id ⇔ same unbranched segment / connected component on the imported state;
  * `C04_import_state`      what the imported state contains (reading of `toStR`);
    `C04_import_as_enable`  `toStR` = `enable_features([track_id])`, `enable_features([lineage_id])` of the
                            session model on the bare graph state;
  * witnesses: `C04_import_needs_forward`, `C04_import_needs_binary`, `C04_import_geff_needs_one_parent`
    (accepted by the importer — not among C12's malformations — and `Forest` fails),
    `C04_import_needs_registered` (a loaded but unregistered property: `Inv` fails),
    `C04_import_needs_nonneg` (negative ids: outside the session model),
    `C04_import_needs_namemap_ok` (an ambiguous name map is accepted and loses the position).
    The five table witnesses were replayed on the real code (`tracks_from_df`, throwaway probe; the GEFF
    merge was not): backward link, three children, negative ids are
    accepted; the unrequested mapped column sits on the graph and is not in
    `tracks.features`; the ambiguous map is accepted and `get_positions` raises `KeyError: 'pos'`.

  Hypotheses, exactly:  acceptance `importTable sp nm t = .ok g`;  `NameMapOK nm`, `t.header ≠ []`,
  `RectAll t` (C12's vocabulary; they give "every node has a `pos` value", which `Inv` needs without an
  array);  `NonNeg g` for an integer id column (the session model has natural node ids; renumbered ids
  are 1 … n);  `Timed` (every time cell is read by `enc.time`; `timeN`: the token `n<k>` of a
  non-negative integral number), `Forward`, `Binary`;  `Registered reg g` (every loaded property besides
  the time is a registered feature — `tracks_from_df(…, features=…)` registers the requested columns,
  time and pos always; a property that is mapped but NOT requested stays an unregistered graph attribute,
  see `C04_import_needs_registered`);  `KeyInj enc g` (the harness' key numbering separates names).
-/
import FtProofs.R6ILemmas
import FtProofs.Props.C03_R4A
open Ft Ft.St Ft.Import Ft.R6I Ft.R3D Ft.R3P Ft.R2A1

/-! ## a concrete table (non-vacuity) -/

namespace C04R6IEx

/-- id, parent, time, pos = (y, x) and a custom column `score` -/
def nmX : NameMap := [("id", .one "id"), ("parent_id", .one "p"), ("time", .one "t"),
  ("pos", .many ["y", "x"]), ("score", .one "sc")]

def rowX (id : Tok) (p : Option Tok) (t y x sc : Tok) : Row :=
  ⟨id, p, [("t", .sc t), ("y", .sc y), ("x", .sc x), ("id", .sc id), ("p", .sc (p.getD "na")), ("sc", .sc sc)]⟩

/-- six rows with string ids: `a → b`, `b` divides into `c` (next frame) and `d` (skip edge), and a
    second lineage `e → f` whose root has the "no parent" cell `"-1"` -/
def tabX : Table := ⟨["t", "y", "x", "id", "p", "sc"], false,
  [rowX "sa" none "n0" "f1.5" "n2" "f0.25",
   rowX "sb" (some "sa") "n1" "n3" "n2" "f0.5",
   rowX "sc" (some "sb") "n2" "n4" "n1" "n7",
   rowX "sd" (some "sb") "n3" "n5" "n3" "n8",
   rowX "se" (some "s-1") "n1" "n9" "n9" "na",
   rowX "sf" (some "se") "n2" "n9" "n8" "n1"]⟩

def atX (t y x sc : Tok) : Attrs := [("time", .sc t), ("score", .sc sc), ("pos", .vec [y, x])]

/-- what the importer returns for `tabX` -/
def gX : Graph := ⟨[(1, atX "n0" "f1.5" "n2" "f0.25"), (2, atX "n1" "n3" "n2" "f0.5"),
  (3, atX "n2" "n4" "n1" "n7"), (4, atX "n3" "n5" "n3" "n8"), (5, atX "n1" "n9" "n9" "na"),
  (6, atX "n2" "n9" "n8" "n1")], [(1, 2), (2, 3), (2, 4), (5, 6)]⟩

/-- some numbering of the opaque values -/
def valX : Import.Val → Int := fun v => (v.flat.map String.length).sum

/-- standard key numbering: `score ↦ 3`, `pos ↦ 4` -/
def encX : Enc := encStd gX valX

theorem tabX_ok : importTable ["pos"] nmX tabX = .ok gX := by decide

/-- the imported state, written out -/
theorem toSt_gX :
    (toSt encX gX).nodes = [⟨1, 0, 1, some 1, [(3, .tok 5), (4, .tok 6)]⟩, ⟨2, 1, 1, some 1, [(3, .tok 4), (4, .tok 4)]⟩,
      ⟨3, 2, 2, some 1, [(3, .tok 2), (4, .tok 4)]⟩, ⟨4, 3, 3, some 1, [(3, .tok 2), (4, .tok 4)]⟩,
      ⟨5, 1, 4, some 2, [(3, .tok 2), (4, .tok 4)]⟩, ⟨6, 2, 4, some 2, [(3, .tok 2), (4, .tok 4)]⟩] ∧
    (toSt encX gX).edges = [⟨(1, 2), []⟩, ⟨(2, 3), []⟩, ⟨(2, 4), []⟩, ⟨(5, 6), []⟩] ∧
    (toSt encX gX).t2n = [(1, [1, 2]), (2, [3]), (3, [4]), (4, [5, 6])] ∧
    (toSt encX gX).l2n = [(1, [1, 2, 3, 4]), (2, [5, 6])] ∧
    (toSt encX gX).maxTid = 4 ∧ (toSt encX gX).maxLin = 2 ∧
    (toSt encX gX).regNode = [3, 4] ∧ (toSt encX gX).posKeys = [4] ∧ (toSt encX gX).seg = none := by
  decide

/-- a session on the imported solution: cut the division edge `b → d`, re-link `c → d` (a new edge
    forward in time), add a node 9 at time 4 with a position and a score on track 1 (after `d`), delete
    node `f`, update the score of `a`, undo twice, redo, a query, a refused edge (backward in time) -/
def sessX : List Op :=
  [.delEdge (2, 4), .addEdge (3, 4) false,
   .addNode ⟨9, some 4, some 1, none, [(4, .tok 77), (3, .tok 1)], none, false⟩,
   .delNode 6, .updAttrs 1 [(3, .tok 9)], .undo, .undo, .redo, .qHasTrack 1 0, .addEdge (4, 1) false]

end C04R6IEx
open C04R6IEx

/-! ## the invariant -/

/-- **an imported solution satisfies the bundle invariant.**  For every table the import model
    accepts (`importTable … = .ok g`; rectangular, with an unambiguous name map and a non-empty header —
    C12's vocabulary) whose links go forward in time (`Timed`, `Forward`) with at most two children per
    node (`Binary`), with non-negative ids when the id column is of integer type, every loaded property
    registered and a key numbering that separates the names: the state `SolutionTracks.__init__`
    builds from the imported graph (`toStR`) satisfies `R3D.Inv`, has an empty history, and — spelled
    out — is a valid solution: a forward-in-time binary forest with exact track / lineage ids and exact
    lookups and maxima. -/
theorem C04_import_inv (enc : Enc) (reg sp : List String) (nm : NameMap) (t : Table) (g : Graph)
    (h : importTable sp nm t = .ok g) (hok : NameMapOK nm) (hne : t.header ≠ []) (hrect : RectAll t)
    (hN : t.intIds = true → NonNeg g) (hT : Timed enc g) (hF : Forward enc g) (hB : Binary g)
    (hR : Registered reg g) (hK : KeyInj enc g) :
    Inv (toStR enc reg g) ∧ (toStR enc reg g).hist = {} ∧
    (toStR enc reg g).Valid ∧ (toStR enc reg g).Forest ∧ (toStR enc reg g).TidOK ∧
    (toStR enc reg g).LinOK ∧ (toStR enc reg g).BookOK := by
  have hN' : NonNeg g := by
    cases hi : t.intIds with
    | true => exact hN hi
    | false => exact importTable_nonneg_of_renumbered h hi
  have hI := inv_of_gok (gok_of_importTable (reg := reg) h hok hne hrect hN' hT hF hB hR hK)
  exact ⟨hI, toStR_hist enc reg g, hI.valid, hI.valid.forest, hI.valid.tid, hI.valid.lin, hI.valid.book⟩

example : importTable ["pos"] nmX tabX = .ok gX ∧ NameMapOK nmX ∧ tabX.header ≠ [] ∧ RectAll tabX ∧
    Timed encX gX ∧ Forward encX gX ∧ Binary gX ∧ Registered (names gX) gX ∧ KeyInj encX gX := by decide
example : Inv (toSt encX gX) :=
  (C04_import_inv encX (names gX) ["pos"] nmX tabX gX tabX_ok (by decide) (by decide) (by decide)
    (fun h => by cases h) (by decide) (by decide) (by decide) (by decide) (by decide)).1
#print axioms C04_import_inv

/-- **… with the standard key numbering and every loaded property registered** (`toSt`, `encStd`: a
    name's key is its position among the attribute names of the graph, after the reserved keys 0, 1, 2;
    time cells are the tokens `n<k>`): no hypothesis on the encoding is left — acceptance, the
    rectangular table / unambiguous name map, non-negative ids for an integer id column, and the two
    documented preconditions "links go forward in time" and "at most two children per node". -/
theorem C04_import_inv_std (val : Import.Val → Int) (sp : List String) (nm : NameMap) (t : Table)
    (g : Graph) (h : importTable sp nm t = .ok g) (hok : NameMapOK nm) (hne : t.header ≠ [])
    (hrect : RectAll t) (hN : t.intIds = true → NonNeg g)
    (hT : Timed (encStd g val) g) (hF : Forward (encStd g val) g) (hB : Binary g) :
    Inv (toSt (encStd g val) g) ∧ (toSt (encStd g val) g).hist = {} :=
  let r := C04_import_inv (encStd g val) (names g) sp nm t g h hok hne hrect hN hT hF hB
    (registered_names g) (keyInj_encStd g val)
  ⟨r.1, r.2.1⟩

example : Inv (toSt (encStd gX valX) gX) ∧ (toSt (encStd gX valX) gX).hist = {} :=
  C04_import_inv_std valX ["pos"] nmX tabX gX tabX_ok (by decide) (by decide) (by decide)
    (fun h => by cases h) (by decide) (by decide) (by decide)
-- the executable checker agrees
example : R4A.invB (toSt encX gX) = true := by decide
#print axioms C04_import_inv_std

/-- **… with every precondition read on the TABLE** (the statement of the package): for every table
    the import model accepts — rectangular, unambiguous name map — in which every time cell is a
    non-negative integral number (`TTimed`), every link goes strictly forward in time (`TForward`: for
    every row `r` whose parent cell the importer resolves to the row `r'`, `time r' < time r`), every
    row is the parent of at most two rows (`TBinary`), and an integer id column holds non-negative ids
    (`TNonNeg`): the imported solution satisfies `Inv` and has an empty history — and the graph-level
    preconditions of `C04_import_inv` hold. -/
theorem C04_import_inv_table (val : Import.Val → Int) (sp : List String) (nm : NameMap) (t : Table)
    (g : Graph) (h : importTable sp nm t = .ok g) (hok : NameMapOK nm) (hne : t.header ≠ [])
    (hrect : RectAll t) (hN : TNonNeg t) (hT : TTimed timeN nm t) (hF : TForward timeN nm t)
    (hB : TBinary t) :
    Inv (toSt (encStd g val) g) ∧ (toSt (encStd g val) g).hist = {} ∧
    NonNeg g ∧ Timed (encStd g val) g ∧ Forward (encStd g val) g ∧ Binary g := by
  obtain ⟨a, b, c, d⟩ := graph_pre_of_table (enc := encStd g val) rfl h hok hne hN hT hF hB
  have r := C04_import_inv_std val sp nm t g h hok hne hrect (fun _ => a) b c d
  exact ⟨r.1, r.2, a, b, c, d⟩

example : TNonNeg tabX ∧ TTimed timeN nmX tabX ∧ TForward timeN nmX tabX ∧ TBinary tabX := by decide
-- the links of `tabX` as the importer resolves them: (parent row, row)
example : (tabX.rows.flatMap (fun r' => (tabX.rows.filter (fun r => decide (IsParentRow tabX r' r))).map
    (fun r => (r'.id, r.id)))) = [("sa", "sb"), ("sb", "sc"), ("sb", "sd"), ("se", "sf")] := by decide
example : Inv (toSt (encStd gX valX) gX) :=
  (C04_import_inv_table valX ["pos"] nmX tabX gX tabX_ok (by decide) (by decide) (by decide) (by decide)
    (by decide) (by decide) (by decide)).1
#print axioms C04_import_inv_table

/-- **GEFF import.**  The same for `import_from_geff`; a GEFF store may contain merges (two edges
    into one node are not among the rejected malformations), so "at most one parent per node" is a
    hypothesis here — for a table it is automatic (one parent cell per row). -/
theorem C04_import_inv_geff (enc : Enc) (reg sp : List String) (nm : NameMap) (header : List String)
    (nodes : List (Int × Attrs)) (edges : List (Int × Int)) (g : Graph)
    (h : importGeff sp nm header nodes edges = .ok g) (hok : NameMapOK nm) (hne : header ≠ [])
    (hrect : ∀ n ∈ nodes, Rect header n.2) (hO : OneParent g)
    (hN : NonNeg g) (hT : Timed enc g) (hF : Forward enc g) (hB : Binary g)
    (hR : Registered reg g) (hK : KeyInj enc g) :
    Inv (toStR enc reg g) ∧ (toStR enc reg g).hist = {} :=
  ⟨inv_of_gok (gok_of_importGeff h hok hne hrect hO hN hT hF hB hR hK), toStR_hist enc reg g⟩

namespace C04R6IEx
def nmG : NameMap := [("time", .one "t"), ("pos", .one "p"), ("score", .one "sc")]
def geffNodes : List (Int × Attrs) :=
  [(5, [("t", .sc "n0"), ("p", .vec ["n1", "f2.5"]), ("sc", .sc "f0.5")]),
   (2, [("t", .sc "n1"), ("p", .vec ["n3", "n4"]), ("sc", .sc "n1")]),
   (9, [("t", .sc "n1"), ("p", .vec ["n3", "n7"]), ("sc", .sc "n2")]),
   (0, [("t", .sc "n3"), ("p", .vec ["n0", "n0"]), ("sc", .sc "n3")])]
def gG : Graph :=
  ⟨[(5, [("time", .sc "n0"), ("pos", .vec ["n1", "f2.5"]), ("score", .sc "f0.5")]),
    (2, [("time", .sc "n1"), ("pos", .vec ["n3", "n4"]), ("score", .sc "n1")]),
    (9, [("time", .sc "n1"), ("pos", .vec ["n3", "n7"]), ("score", .sc "n2")]),
    (0, [("time", .sc "n3"), ("pos", .vec ["n0", "n0"]), ("score", .sc "n3")])], [(5, 2), (5, 9), (9, 0)]⟩
theorem geff_ok : importGeff ["pos"] nmG ["t", "p", "sc"] geffNodes [(5, 2), (5, 9), (9, 0)] = .ok gG := by decide
end C04R6IEx

example : Inv (toSt (encStd gG valX) gG) ∧
    (toSt (encStd gG valX) gG).nodes.map (fun r => (r.id, r.time, r.tid, r.lin)) =
      [(5, 0, 1, some 1), (2, 1, 2, some 1), (9, 1, 3, some 1), (0, 3, 3, some 1)] :=
  ⟨(C04_import_inv_geff (encStd gG valX) (names gG) ["pos"] nmG ["t", "p", "sc"] geffNodes
      [(5, 2), (5, 9), (9, 0)] gG geff_ok (by decide) (by decide)
      (by intro n hn; unfold Rect; revert n hn; decide) (by decide) (by decide) (by decide) (by decide) (by decide)
      (registered_names gG) (keyInj_encStd gG valX)).1, by decide⟩
#print axioms C04_import_inv_geff

/-! ## what the imported state contains -/

/-- **reading of `toStR`**: the node table is the imported node list in table order — id, time (the
    decoded time cell), every other loaded attribute under its key as an opaque value — up to the track
    and lineage ids; the edges are the imported links without attributes; there is no array, no
    annotator besides the track annotator, the lineage feature is on, the position key is `pos`, the
    registered features are `reg`, the node-id counter is at its initial value, the history is empty. -/
theorem C04_import_state (enc : Enc) (reg : List String) (g : Graph) :
    (toStR enc reg g).nodes.map (fun r => (r.id, r.time, r.other)) =
      g.nodes.map (fun n => (n.1.toNat, (gTime enc n.2).getD 0, gOther enc n.2)) ∧
    (toStR enc reg g).edges = g.edges.map (fun e => ⟨(e.1.toNat, e.2.toNat), []⟩) ∧
    (toStR enc reg g).seg = none ∧ (toStR enc reg g).linOn = true ∧
    (toStR enc reg g).posKeys = [enc.key "pos"] ∧ (toStR enc reg g).regNode = reg.map enc.key ∧
    (toStR enc reg g).regEdge = [] ∧ (toStR enc reg g).rpAvail = [] ∧ (toStR enc reg g).rpActive = [] ∧
    (toStR enc reg g).iouKey = none ∧ (toStR enc reg g).iouActive = false ∧
    (toStR enc reg g).counter = 1 ∧ (toStR enc reg g).hist = {} ∧
    (toStR enc reg g) = ((base enc reg g).assignTracklets).assignLineages := by
  have hC := cfg_toStR enc reg g
  refine ⟨?_, hC.edges, hC.seg, hC.linOn, hC.posKeys, hC.regNode, hC.regEdge, hC.rpAvail, hC.rpActive,
    hC.iouKey, hC.iouActive, hC.counter, hC.hist, rfl⟩
  have := hC.nstrip
  unfold R2A2.nstrip at this
  rw [show (fun r : NodeRec => (r.id, r.time, r.other)) = R2A2.strip from rfl, this]
  simp [base, nodeOf, R2A2.strip, List.map_map, Function.comp_def]

example : (toSt encX gX).nodes.map (fun r => (r.id, r.time, r.other)) =
    [(1, 0, [(3, .tok 5), (4, .tok 6)]), (2, 1, [(3, .tok 4), (4, .tok 4)]), (3, 2, [(3, .tok 2), (4, .tok 4)]),
     (4, 3, [(3, .tok 2), (4, .tok 4)]), (5, 1, [(3, .tok 2), (4, .tok 4)]), (6, 2, [(3, .tok 2), (4, .tok 4)])] := by
  decide
#print axioms C04_import_state

/-- **`toStR` is what the model's `enable_features` makes of the bare graph state** — the path
    `Tracks._setup_core_computed_features` takes when the graph carries no id columns: on the state
    `bare` (the imported nodes and edges, no ids, lineage feature off) `enable_features([track_id])`
    runs the bulk track-id assignment, then `enable_features([lineage_id])` switches the lineage feature
    on and runs the bulk lineage assignment; the result is `toStR`. -/
theorem C04_import_as_enable (enc : Enc) (reg : List String) (g : Graph) :
    ((bare enc reg g).enable [keyTid] true).bind (fun s => s.enable [keyLin] true) = some (toStR enc reg g) ∧
    (bare enc reg g).nodes = g.nodes.map (nodeOf enc) ∧ (bare enc reg g).edges = g.edges.map edgeOf ∧
    (bare enc reg g).linOn = false ∧ (bare enc reg g).t2n = [] ∧ (bare enc reg g).l2n = [] := by
  refine ⟨?_, rfl, rfl, rfl, rfl, rfl⟩
  rw [enable_tid_bare, Option.bind_some]
  exact enable_lin_bare enc reg g

example : ((bare encX (names gX) gX).step (.enable [keyTid] true)).2 = .ok ∧
    (((bare encX (names gX) gX).step (.enable [keyTid] true)).1.step (.enable [keyLin] true)).1.nodes =
      (toSt encX gX).nodes ∧
    (bare encX (names gX) gX).nodes.map (fun r => (r.id, r.tid, r.lin)) =
      [(1, 0, none), (2, 0, none), (3, 0, none), (4, 0, none), (5, 0, none), (6, 0, none)] := by
  decide +kernel
#print axioms C04_import_as_enable

/-! ## the ids -/

/-- **C04 / C05 on the imported state** (from `C04_assign`, `C05_assign` and the completeness of the
    component search): the nodes are the source ids and the edges the source links; two nodes carry
    the same track id iff they lie on the same unbranched segment, the same lineage id iff they are
    connected — segments and components of the imported graph itself (`base`: the graph before the
    ids were written); the lookups list exactly the nodes of each id. -/
theorem C04_import_ids (enc : Enc) (reg sp : List String) (nm : NameMap) (t : Table) (g : Graph)
    (h : importTable sp nm t = .ok g) (hok : NameMapOK nm) (hne : t.header ≠ []) (hrect : RectAll t)
    (hN : t.intIds = true → NonNeg g) (hT : Timed enc g) (hF : Forward enc g) (hB : Binary g)
    (hR : Registered reg g) (hK : KeyInj enc g) :
    (toStR enc reg g).ids = g.nodes.map (fun n => n.1.toNat) ∧
    (toStR enc reg g).edgeList = g.edges.map (fun e => (e.1.toNat, e.2.toNat)) ∧
    (∀ a b, a ∈ (toStR enc reg g).ids → b ∈ (toStR enc reg g).ids →
      ((toStR enc reg g).tidOf a = (toStR enc reg g).tidOf b ↔ (toStR enc reg g).SameSeg a b)) ∧
    (∀ a b, a ∈ (toStR enc reg g).ids → b ∈ (toStR enc reg g).ids →
      ((toStR enc reg g).linOf a = (toStR enc reg g).linOf b ↔ (toStR enc reg g).Conn a b)) ∧
    (∀ a b, (toStR enc reg g).SameSeg a b ↔ (base enc reg g).SameSeg a b) ∧
    (∀ a b, (toStR enc reg g).Conn a b ↔ (base enc reg g).Conn a b) ∧
    (∀ id n, (∃ l, alook id (toStR enc reg g).t2n = some l ∧ n ∈ l) ↔
      (n ∈ (toStR enc reg g).ids ∧ (toStR enc reg g).tidOf n = some id)) ∧
    (∀ id n, (∃ l, alook id (toStR enc reg g).l2n = some l ∧ n ∈ l) ↔
      (n ∈ (toStR enc reg g).ids ∧ (toStR enc reg g).linOf n = some id)) := by
  have hN' : NonNeg g := by
    cases hi : t.intIds with
    | true => exact hN hi
    | false => exact importTable_nonneg_of_renumbered h hi
  have hG := gok_of_importTable (reg := reg) h hok hne hrect hN' hT hF hB hR hK
  have hI := inv_of_gok hG
  exact ⟨toStR_ids enc reg g, toStR_edgeList enc reg g, fun a b ha hb => toStR_tid_iff hG ha hb,
    fun a b ha hb => toStR_lin_iff hG ha hb, fun a b => R2F.sameSeg_iff_of_G (G_toStR enc reg g),
    fun a b => R2F.conn_iff_of_G (G_toStR enc reg g), hI.valid.book.t_iff,
    hI.valid.book.l_iff hI.valid.linOn⟩

-- a, b on one segment; c, d (children of the dividing b) on their own; e, f on one; lineages {a,b,c,d}, {e,f}
example : (toSt encX gX).ids = [1, 2, 3, 4, 5, 6] ∧
    (toSt encX gX).edgeList = [(1, 2), (2, 3), (2, 4), (5, 6)] ∧
    (toSt encX gX).nodes.map (fun r => (r.id, r.tid, r.lin)) =
      [(1, 1, some 1), (2, 1, some 1), (3, 2, some 1), (4, 3, some 1), (5, 4, some 2), (6, 4, some 2)] := by
  decide
example : (toSt encX gX).SameSeg 1 2 ∧ ¬ (toSt encX gX).SameSeg 2 3 ∧ (toSt encX gX).Conn 1 4 ∧
    ¬ (toSt encX gX).Conn 4 5 := by
  have hh := C04_import_ids encX (names gX) ["pos"] nmX tabX gX tabX_ok (by decide) (by decide) (by decide)
    (fun h => by cases h) (by decide) (by decide) (by decide) (by decide) (by decide)
  obtain ⟨_, _, ht, hl, _⟩ := hh
  exact ⟨(ht 1 2 (by decide) (by decide)).1 (by decide),
    fun c => absurd ((ht 2 3 (by decide) (by decide)).2 c) (by decide),
    (hl 1 4 (by decide) (by decide)).1 (by decide),
    fun c => absurd ((hl 4 5 (by decide) (by decide)).2 c) (by decide)⟩
#print axioms C04_import_ids

/-! ## the whole-history theorems on an imported solution -/

/-- **C03 (– C06) and C02 for every editing session on an imported solution.**  Under the hypotheses
    of `C04_import_inv`, for EVERY operation list that is admissible from the imported state
    (`SessOK`: each operation is undo, redo, a query, or one of the seven top-level edits whose
    arguments satisfy `OpPre` at the state where it is applied — accepted or refused): every state
    reached (after the whole list, after every prefix) and every state on the timeline satisfies the
    bundle invariant, is a forward-in-time binary forest with exact track ids, lineage ids and lookups
    (equal id ⇔ same segment / component), and the session refines the never-forgetting timeline
    (`C02_session_valid`). -/
theorem C03_reach_imported (enc : Enc) (reg sp : List String) (nm : NameMap) (t : Table) (g : Graph)
    (h : importTable sp nm t = .ok g) (hok : NameMapOK nm) (hne : t.header ≠ []) (hrect : RectAll t)
    (hN : t.intIds = true → NonNeg g) (hT : Timed enc g) (hF : Forward enc g) (hB : Binary g)
    (hR : Registered reg g) (hK : KeyInj enc g)
    (s0 : St) (hs0 : s0 = toStR enc reg g) (ops : List Op) (hs : SessOK s0 ops) :
    ((∀ pre, pre <+: ops → Inv (sessFinal s0 ⟨[s0], 0⟩ pre).1) ∧
      Inv (sessFinal s0 ⟨[s0], 0⟩ ops).1 ∧
      (sessFinal s0 ⟨[s0], 0⟩ ops).1.Valid ∧
      (sessFinal s0 ⟨[s0], 0⟩ ops).1.Forest ∧ (sessFinal s0 ⟨[s0], 0⟩ ops).1.TidOK ∧
      (sessFinal s0 ⟨[s0], 0⟩ ops).1.LinOK ∧ (sessFinal s0 ⟨[s0], 0⟩ ops).1.BookOK ∧
      SegOK (sessFinal s0 ⟨[s0], 0⟩ ops).1 ∧
      (∀ a b, a ∈ (sessFinal s0 ⟨[s0], 0⟩ ops).1.ids → b ∈ (sessFinal s0 ⟨[s0], 0⟩ ops).1.ids →
        ((sessFinal s0 ⟨[s0], 0⟩ ops).1.tidOf a = (sessFinal s0 ⟨[s0], 0⟩ ops).1.tidOf b ↔
          (sessFinal s0 ⟨[s0], 0⟩ ops).1.SameSeg a b)) ∧
      (∀ a b, a ∈ (sessFinal s0 ⟨[s0], 0⟩ ops).1.ids → b ∈ (sessFinal s0 ⟨[s0], 0⟩ ops).1.ids →
        ((sessFinal s0 ⟨[s0], 0⟩ ops).1.linOf a = (sessFinal s0 ⟨[s0], 0⟩ ops).1.linOf b ↔
          (sessFinal s0 ⟨[s0], 0⟩ ops).1.Conn a b)) ∧
      (∀ x ∈ (sessFinal s0 ⟨[s0], 0⟩ ops).2.states, Inv x)) ∧
    ((∃ x, (sessFinal s0 ⟨[s0], 0⟩ ops).2.states[(sessFinal s0 ⟨[s0], 0⟩ ops).2.cur]? = some x ∧
          E (sessFinal s0 ⟨[s0], 0⟩ ops).1 x ∧ ObsEq (sessFinal s0 ⟨[s0], 0⟩ ops).1 x) ∧
      (sessFinal s0 ⟨[s0], 0⟩ ops).2.states.length = (sessFinal s0 ⟨[s0], 0⟩ ops).1.hist.undo.length + 1 ∧
      (sessFinal s0 ⟨[s0], 0⟩ ops).2.cur + (sessFinal s0 ⟨[s0], 0⟩ ops).1.hist.redo.length
        = (sessFinal s0 ⟨[s0], 0⟩ ops).1.hist.undo.length ∧
      SessAgree s0 ⟨[s0], 0⟩ ops ∧
      Hist.Refines RecE E ((sessFinal s0 ⟨[s0], 0⟩ ops).1.hist, (sessFinal s0 ⟨[s0], 0⟩ ops).1)
        (sessFinal s0 ⟨[s0], 0⟩ ops).2 ∧
      SessValid RecE E s0 ops) := by
  have hI := C04_import_inv enc reg sp nm t g h hok hne hrect hN hT hF hB hR hK
  subst hs0
  exact ⟨C03_reach _ hI.2.1 hI.1 ops hs, C02_session_valid _ hI.2.1 hI.1 ops hs⟩

-- the session `sessX` on the imported table is admissible (executable check), so every state it
-- reaches is a valid solution; written out: the state after the session
example : R4A.sessOKB (toSt encX gX) sessX = true := by decide +kernel
example : (sessFinal (toSt encX gX) ⟨[toSt encX gX], 0⟩ sessX).1.Valid ∧
    (sessFinal (toSt encX gX) ⟨[toSt encX gX], 0⟩ sessX).1.nodes.map (fun r => (r.id, r.time, r.tid, r.lin)) =
      [(1, 0, 1, some 1), (2, 1, 1, some 1), (3, 2, 1, some 1), (4, 3, 1, some 1), (5, 1, 4, some 2),
       (9, 4, 1, some 1)] ∧
    (sessFinal (toSt encX gX) ⟨[toSt encX gX], 0⟩ sessX).1.edgeList = [(1, 2), (2, 3), (3, 4), (4, 9)] :=
  ⟨(C03_reach_imported encX (names gX) ["pos"] nmX tabX gX tabX_ok (by decide) (by decide) (by decide)
      (fun h => by cases h) (by decide) (by decide) (by decide) (by decide) (by decide)
      (toSt encX gX) rfl sessX (R4A.sessOKB_sound (by decide +kernel))).1.2.2.1,
    by decide +kernel, by decide +kernel⟩
#print axioms C03_reach_imported

/-- **… with every hypothesis read on the table** (standard key numbering, every loaded property
    registered): for every accepted table whose time cells are non-negative integral numbers, whose
    links go strictly forward in time, with at most two children per row and non-negative integer
    ids, EVERY admissible editing session on the imported solution reaches only states that satisfy the
    bundle invariant — forward-in-time binary forests with exact track ids, lineage ids and lookups —
    and refines the never-forgetting timeline. -/
theorem C03_reach_imported_table (val : Import.Val → Int) (sp : List String) (nm : NameMap) (t : Table)
    (g : Graph) (h : importTable sp nm t = .ok g) (hok : NameMapOK nm) (hne : t.header ≠ [])
    (hrect : RectAll t) (hN : TNonNeg t) (hT : TTimed timeN nm t) (hF : TForward timeN nm t)
    (hB : TBinary t) (s0 : St) (hs0 : s0 = toSt (encStd g val) g) (ops : List Op) (hs : SessOK s0 ops) :
    (∀ pre, pre <+: ops → Inv (sessFinal s0 ⟨[s0], 0⟩ pre).1) ∧
    (sessFinal s0 ⟨[s0], 0⟩ ops).1.Valid ∧
    (∀ a b, a ∈ (sessFinal s0 ⟨[s0], 0⟩ ops).1.ids → b ∈ (sessFinal s0 ⟨[s0], 0⟩ ops).1.ids →
      ((sessFinal s0 ⟨[s0], 0⟩ ops).1.tidOf a = (sessFinal s0 ⟨[s0], 0⟩ ops).1.tidOf b ↔
        (sessFinal s0 ⟨[s0], 0⟩ ops).1.SameSeg a b)) ∧
    (∀ a b, a ∈ (sessFinal s0 ⟨[s0], 0⟩ ops).1.ids → b ∈ (sessFinal s0 ⟨[s0], 0⟩ ops).1.ids →
      ((sessFinal s0 ⟨[s0], 0⟩ ops).1.linOf a = (sessFinal s0 ⟨[s0], 0⟩ ops).1.linOf b ↔
        (sessFinal s0 ⟨[s0], 0⟩ ops).1.Conn a b)) ∧
    (∀ x ∈ (sessFinal s0 ⟨[s0], 0⟩ ops).2.states, Inv x) ∧
    SessAgree s0 ⟨[s0], 0⟩ ops ∧ SessValid RecE E s0 ops := by
  obtain ⟨a, b, c, d⟩ := graph_pre_of_table (enc := encStd g val) rfl h hok hne hN hT hF hB
  obtain ⟨h1, h2⟩ := C03_reach_imported (encStd g val) (names g) sp nm t g h hok hne hrect (fun _ => a) b c d
    (registered_names g) (keyInj_encStd g val) s0 hs0 ops hs
  exact ⟨h1.1, h1.2.2.1, h1.2.2.2.2.2.2.2.2.1, h1.2.2.2.2.2.2.2.2.2.1, h1.2.2.2.2.2.2.2.2.2.2,
    h2.2.2.2.1, h2.2.2.2.2.2⟩

example : (sessFinal (toSt encX gX) ⟨[toSt encX gX], 0⟩ sessX).1.Valid ∧
    SessAgree (toSt encX gX) ⟨[toSt encX gX], 0⟩ sessX :=
  let r := C03_reach_imported_table valX ["pos"] nmX tabX gX tabX_ok (by decide) (by decide) (by decide)
    (by decide) (by decide) (by decide) (by decide) (toSt encX gX) rfl sessX
    (R4A.sessOKB_sound (by decide +kernel))
  ⟨r.2.1, r.2.2.2.2.2.1⟩
#print axioms C03_reach_imported_table

/-- **C01 / C11 for the first edit on an imported solution** (`C01_user_all` at the imported state):
    an accepted edit appends one history entry, a lawful chain; the invariant holds again; the
    inverse of the entry restores the imported state up to `ObsEq` and inverting again reproduces the
    edited one; a refused edit leaves the imported state observationally unchanged. -/
theorem C01_user_imported (enc : Enc) (reg sp : List String) (nm : NameMap) (t : Table) (g : Graph)
    (h : importTable sp nm t = .ok g) (hok : NameMapOK nm) (hne : t.header ≠ []) (hrect : RectAll t)
    (hN : t.intIds = true → NonNeg g) (hT : Timed enc g) (hF : Forward enc g) (hB : Binary g)
    (hR : Registered reg g) (hK : KeyInj enc g)
    (s : St) (hs0 : s = toStR enc reg g) (op : Op) (he : op.isTopEdit = true) (hpre : OpPre s op) :
    ((s.step op).2 = .ok → ∃ recs, (s.step op).1.hist = s.hist.add recs ∧
        Chain E s recs (s.step op).1 ∧ Inv (s.step op).1 ∧
        ∀ t', E t' (s.step op).1 →
          ∃ s₂ recs', t'.invGroup recs = (s₂, .ok recs') ∧ ObsEq s₂ s ∧ recs'.length = recs.length ∧
            ∃ s₃ recs'', s₂.invGroup recs' = (s₃, .ok recs'') ∧ ObsEq s₃ (s.step op).1) ∧
    (∀ e, (s.step op).2 = .err e →
        E (s.step op).1 s ∧ ObsEq (s.step op).1 s ∧ Inv (s.step op).1) := by
  have hI := C04_import_inv enc reg sp nm t g h hok hne hrect hN hT hF hB hR hK
  subst hs0
  exact C01_user_all _ op he hI.1 hpre

-- delete the dividing node `b` of the imported table (accepted: one entry, invertible); add the
-- backward edge d → a (refused: nothing changes)
example :
    (∃ recs, Chain E (toSt encX gX) recs ((toSt encX gX).step (.delNode 2)).1 ∧
      Inv ((toSt encX gX).step (.delNode 2)).1) ∧
    ObsEq ((toSt encX gX).step (.addEdge (4, 1) false)).1 (toSt encX gX) := by
  have hh := fun op he hpre => C01_user_imported encX (names gX) ["pos"] nmX tabX gX tabX_ok (by decide)
    (by decide) (by decide) (fun h => by cases h) (by decide) (by decide) (by decide) (by decide) (by decide)
    (toSt encX gX) rfl op he hpre
  refine ⟨?_, ?_⟩
  · obtain ⟨recs, _, b, c, _⟩ := (hh (.delNode 2) rfl trivial).1 (by decide)
    exact ⟨recs, b, c⟩
  · exact ((hh (.addEdge (4, 1) false) rfl trivial).2 .invalid (by decide)).2.1
#print axioms C01_user_imported

/-! ## the hypotheses are needed (witnesses by evaluation) -/

namespace C04R6IEx
/-- `b`'s parent `a` lies in a LATER frame (2 → 1) -/
def tabBack : Table := ⟨["t", "y", "x", "id", "p", "sc"], false,
  [rowX "sa" none "n2" "n1" "n1" "n0", rowX "sb" (some "sa") "n1" "n1" "n2" "n0"]⟩
def gBack : Graph := ⟨[(1, atX "n2" "n1" "n1" "n0"), (2, atX "n1" "n1" "n2" "n0")], [(1, 2)]⟩
/-- `a` has three children -/
def tabTri : Table := ⟨["t", "y", "x", "id", "p", "sc"], false,
  [rowX "sa" none "n0" "n1" "n1" "n0", rowX "sb" (some "sa") "n1" "n1" "n2" "n0",
   rowX "sc" (some "sa") "n1" "n2" "n2" "n0", rowX "sd" (some "sa") "n1" "n3" "n2" "n0"]⟩
def gTri : Graph := ⟨[(1, atX "n0" "n1" "n1" "n0"), (2, atX "n1" "n1" "n2" "n0"),
  (3, atX "n1" "n2" "n2" "n0"), (4, atX "n1" "n3" "n2" "n0")], [(1, 2), (1, 3), (1, 4)]⟩
/-- integer ids `-3` and `0` -/
def tabNeg : Table := ⟨["t", "y", "x", "id", "p", "sc"], true,
  [rowX "-3" none "n0" "n1" "n1" "n0", rowX "0" (some "-3") "n1" "n1" "n2" "n0"]⟩
def gNeg : Graph := ⟨[(-3, atX "n0" "n1" "n1" "n0"), (0, atX "n1" "n1" "n2" "n0")], [(-3, 0)]⟩
/-- a GEFF store with a merge: 1 → 3 ← 2 -/
def gMerge : Graph :=
  ⟨[(1, [("time", .sc "n0"), ("pos", .vec ["n1", "n1"])]), (2, [("time", .sc "n0"), ("pos", .vec ["n5", "n5"])]),
    (3, [("time", .sc "n1"), ("pos", .vec ["n3", "n3"])])], [(1, 3), (2, 3)]⟩
/-- an ambiguous name map: the list-mapped property `extra` stacks the column `pos`, which is also
    the name of the standard key `pos` (mapped to the column `q`) -/
def nmAmb : NameMap := [("id", .one "id"), ("parent_id", .one "p"), ("time", .one "t"),
  ("pos", .one "q"), ("extra", .many ["pos", "sc"])]
def tabAmb : Table := ⟨["t", "q", "pos", "id", "p", "sc"], false,
  [⟨"sa", none, [("t", .sc "n0"), ("q", .sc "n1"), ("pos", .sc "n2"), ("id", .sc "sa"), ("p", .sc "na"),
     ("sc", .sc "n3")]⟩]⟩
def gAmb : Graph := ⟨[(1, [("time", .sc "n0"), ("extra", .vec ["n1", "n3"])])], []⟩
end C04R6IEx

/-- **"links go forward in time" is needed.**  A table whose only link goes from frame 2 to frame 1
    is accepted by the importer (a backward link is not among C12's malformations); every other
    hypothesis of `C04_import_inv_std` holds; the constructed state is not a `Forest` (hence not `Inv`,
    and `UserAddEdge` etc. may never be applied to it under the documented precondition). -/
theorem C04_import_needs_forward :
    importTable ["pos"] nmX tabBack = .ok gBack ∧ NameMapOK nmX ∧ tabBack.header ≠ [] ∧ RectAll tabBack ∧
    NonNeg gBack ∧ Timed (encStd gBack valX) gBack ∧ Binary gBack ∧
    TNonNeg tabBack ∧ TTimed timeN nmX tabBack ∧ TBinary tabBack ∧
    ¬ Forward (encStd gBack valX) gBack ∧ ¬ TForward timeN nmX tabBack ∧
    ¬ (toSt (encStd gBack valX) gBack).Forest ∧ ¬ Inv (toSt (encStd gBack valX) gBack) := by
  have hF : ¬ (toSt (encStd gBack valX) gBack).Forest :=
    fun hF => absurd ((forestB_iff _).2 hF) (by decide)
  exact ⟨by decide, by decide, by decide, by decide, by decide, by decide, by decide, by decide, by decide,
    by decide, by decide, by decide, hF, fun hI => hF hI.valid.forest⟩
#print axioms C04_import_needs_forward

/-- **"at most two children per node" is needed.**  A table in which one node has three children is
    accepted; every other hypothesis holds; the constructed state is not a `Forest`. -/
theorem C04_import_needs_binary :
    importTable ["pos"] nmX tabTri = .ok gTri ∧ NameMapOK nmX ∧ tabTri.header ≠ [] ∧ RectAll tabTri ∧
    NonNeg gTri ∧ Timed (encStd gTri valX) gTri ∧ Forward (encStd gTri valX) gTri ∧
    TNonNeg tabTri ∧ TTimed timeN nmX tabTri ∧ TForward timeN nmX tabTri ∧
    ¬ Binary gTri ∧ ¬ TBinary tabTri ∧
    ¬ (toSt (encStd gTri valX) gTri).Forest ∧ ¬ Inv (toSt (encStd gTri valX) gTri) := by
  have hF : ¬ (toSt (encStd gTri valX) gTri).Forest :=
    fun hF => absurd ((forestB_iff _).2 hF) (by decide)
  exact ⟨by decide, by decide, by decide, by decide, by decide, by decide, by decide, by decide, by decide,
    by decide, by decide, by decide, hF, fun hI => hF hI.valid.forest⟩
#print axioms C04_import_needs_binary

/-- **a GEFF store may contain a merge.**  Two edges into one node are accepted by `import_from_geff`
    (unique ids, known end points, no self edge, no repeated edge); every other hypothesis of
    `C04_import_inv_geff` holds; the constructed state is not a `Forest`.  (For a table this cannot
    happen: one parent cell per row.) -/
theorem C04_import_geff_needs_one_parent :
    importGeff ["pos"] [("time", .one "time"), ("pos", .one "pos")] ["time", "pos"] gMerge.nodes gMerge.edges
      = .ok gMerge ∧
    NonNeg gMerge ∧ Timed (encStd gMerge valX) gMerge ∧ Forward (encStd gMerge valX) gMerge ∧ Binary gMerge ∧
    ¬ OneParent gMerge ∧ ¬ (toSt (encStd gMerge valX) gMerge).Forest := by
  exact ⟨by decide, by decide, by decide, by decide, by decide, by decide,
    fun hF => absurd ((forestB_iff _).2 hF) (by decide)⟩
#print axioms C04_import_geff_needs_one_parent

/-- **a loaded property must be a registered feature.**  `tracks_from_df(df, node_name_map=nm)`
    without `features=` registers time and position only; a further mapped column (`score`) is loaded
    onto the graph but not registered.  On the table `tabX` with `reg = ["pos"]` every other hypothesis
    holds, the state is a valid solution, but `Inv` fails: a visible node attribute under an
    unregistered key (`NodeInv.registered` — what the executable checker reports as `nodeReg`). -/
theorem C04_import_needs_registered :
    importTable ["pos"] nmX tabX = .ok gX ∧ Timed encX gX ∧ Forward encX gX ∧ Binary gX ∧ KeyInj encX gX ∧
    ¬ Registered ["pos"] gX ∧ (toStR encX ["pos"] gX).Valid ∧ ¬ Inv (toStR encX ["pos"] gX) ∧
    R4A.invBits (toStR encX ["pos"] gX) = [true, true, true, true, false, true, true, true] := by
  refine ⟨by decide, by decide, by decide, by decide, by decide, by decide, R4A.validB_sound (by decide), ?_,
    by decide⟩
  intro hI
  exact absurd (hI.node.registered 1 3 (by decide)) (by decide)
#print axioms C04_import_needs_registered

/-- **negative node ids are outside the session model** (`Ft.St` has natural node ids; `toStR` reads an
    id with `Int.toNat`).  An integer id column with the ids `-3` and `0` is accepted by the importer;
    both become node `0`. -/
theorem C04_import_needs_nonneg :
    importTable ["pos"] nmX tabNeg = .ok gNeg ∧ NameMapOK nmX ∧ RectAll tabNeg ∧
    Timed (encStd gNeg valX) gNeg ∧ Forward (encStd gNeg valX) gNeg ∧ Binary gNeg ∧ ¬ NonNeg gNeg ∧
    (toSt (encStd gNeg valX) gNeg).ids = [0, 0] ∧ ¬ (toSt (encStd gNeg valX) gNeg).Forest := by
  exact ⟨by decide, by decide, by decide, by decide, by decide, by decide, by decide, by decide,
    fun hF => absurd ((forestB_iff _).2 hF) (by decide)⟩
#print axioms C04_import_needs_nonneg

/-- **the name map must be unambiguous (`NameMapOK`).**  With the list-mapped property `extra` stacking
    a column called `pos` while the standard key `pos` is mapped to another column, the import model
    accepts the (rectangular) table, `_combine_multi_value_props` deletes the component column `pos` —
    which by then holds the renamed position — and the imported node has no position: the state is a
    valid solution, but `Inv` fails (`NodeInv.pos`: without an array every node carries a position). -/
theorem C04_import_needs_namemap_ok :
    importTable ["pos"] nmAmb tabAmb = .ok gAmb ∧ ¬ NameMapOK nmAmb ∧ tabAmb.header ≠ [] ∧ RectAll tabAmb ∧
    NonNeg gAmb ∧ Timed (encStd gAmb valX) gAmb ∧ Forward (encStd gAmb valX) gAmb ∧ Binary gAmb ∧
    (toSt (encStd gAmb valX) gAmb).Valid ∧ ¬ Inv (toSt (encStd gAmb valX) gAmb) := by
  refine ⟨by decide, by decide, by decide, by decide, by decide, by decide, by decide, by decide,
    R4A.validB_sound (by decide), ?_⟩
  intro hI
  exact absurd (hI.node.pos (by decide) 1 (by decide) 4 (by decide)) (by decide)
#print axioms C04_import_needs_namemap_ok
