/-
  C14 — "Writing any reachable tracks - also after an editing session - to CSV, GEFF or the
  internal save format and reading it back with the corresponding key mapping yields the same
  nodes, edges, times, positions and track ids and the same values of the features that were
  loaded rather than recomputed.  GEFF and the internal format also return the same segmentation,
  and the internal format the same scale and feature registry."

  Model: FtModel/Export.lean.  A tracks value is a table (node records, edge records, optional
  label array, optional scale, registry keys); float values are opaque tokens, so "the same
  value" means "the same token": what a file format does to the BITS of a float (pandas' float
  parser, zarr, json) is outside Lean and is checked by harness/fam_export.py on every case (the
  file the real exporter wrote is compared token by token with `encode`, the re-imported object
  with `decode ∘ encode`).  The theorems hold for tables of any size; the only hypotheses are the
  explicit well-formedness facts named in each statement.

  Not in the model: the importer's optional validations (track-id / lineage-id consistency,
  seg-id-at-position check) — they only ever REFUSE or recompute, and are exercised on the real
  code by the harness.
-/
import FtProofs.ExportLemmas
open Ft Ft.Export

/-! ## CSV -/

/-- Default column layout `t,[z],y,x,id,parent_id,track_id`, key map
    `{time:t, pos:[axes], id:id, parent_id:parent_id, track_id:track_id}`.
    For every well-formed table (distinct node ids, distinct edges whose child is a node, at most
    one parent per node — the parent column can carry only one —, one position value per axis):
    the re-import succeeds, its nodes are the original nodes in the original order with the same
    id, time, track id and position, and its edges are the original edges (as a list up to order:
    the parent column lists them by child).  The default layout carries no other feature; the
    lineage id is not written and is recomputed by the importer (not part of this statement). -/
theorem C14_csv (s : Tracks) (hw : WF s) :
    ∃ t : CsvTracks, decodeCsv (nax s) (encodeCsv s none) = some t ∧
      t.nodes = s.nodes.map core ∧ t.edges.Perm (edgePairs s) :=
  ⟨_, decodeCsv_encodeCsv s none hw.pos_len, rfl, parentEdges_perm s hw⟩

/-- 2D+t: a division (1 → 2, 1 → 7), a skip edge (7 → 30, t 1 → 3), an isolated node (12),
    non-contiguous node and track ids. -/
def exC14 : Tracks :=
  { ndim := 3
    nodes := [⟨7, 1, 5, 2, [40, 41], [(9, [50])]⟩, ⟨1, 0, 3, 2, [42, 43], []⟩,
              ⟨30, 3, 5, 2, [44, 45], [(9, [51]), (8, [52, 53])]⟩, ⟨2, 1, 11, 2, [46, 47], []⟩,
              ⟨12, 2, 4, 6, [48, 49], []⟩]
    edges := [⟨7, 30, [(6, [60])]⟩, ⟨1, 2, []⟩, ⟨1, 7, []⟩]
    seg := some [[1, 1, 0, 0], [7, 2, 2, 0], [0, 12, 0, 0], [30, 0, 0, 30]]
    scale := none
    registry := [0, 1, 2, 3, 9, 6]
    perAxis := false }

example : WF exC14 ∧
    decodeCsv (nax exC14) (encodeCsv exC14 none) =
      some ⟨[⟨7, 1, 5, [40, 41]⟩, ⟨1, 0, 3, [42, 43]⟩, ⟨30, 3, 5, [44, 45]⟩, ⟨2, 1, 11, [46, 47]⟩,
             ⟨12, 2, 4, [48, 49]⟩], [(1, 7), (7, 30), (1, 2)]⟩ := by decide

#print axioms C14_csv

/-! ## GEFF -/

/-- `export_to_geff` (position split per axis) followed by `import_from_geff` with the key map
    `{time, pos:[axes], track_id, lineage_id, k:k for k ∈ ks}` and edge key map `{k:k for k ∈ eks}`:
    for every table with one position value per axis the import succeeds and returns the original
    nodes (same order, id, time, track id, lineage id, position recombined in axis order) carrying
    exactly the features named in `ks` with their original values, the original edges with the
    features named in `eks`, and the original label array. -/
theorem C14_geff (one : Val) (s : Tracks) (ks eks : List Key)
    (hpos : ∀ n ∈ s.nodes, n.pos.length = nax s) :
    decodeGeff (nax s) ks eks (encodeGeff one s none) =
      some ⟨s.nodes.map (restrictN ks), s.edges.map (restrictE eks), s.seg⟩ :=
  decodeGeff_encodeGeff one s none ks eks hpos

/-- what `restrictN` keeps: everything but the feature list, and of that every loaded key -/
theorem C14_geff_loaded (ks : List Key) (n : NodeRec) :
    (restrictN ks n).id = n.id ∧ (restrictN ks n).time = n.time ∧ (restrictN ks n).tid = n.tid ∧
    (restrictN ks n).lin = n.lin ∧ (restrictN ks n).pos = n.pos ∧
    (∀ k ∈ ks, alook k (restrictN ks n).feats = alook k n.feats) ∧
    (∀ k, k ∉ ks → alook k (restrictN ks n).feats = none) := by
  refine ⟨rfl, rfl, rfl, rfl, rfl, ?_, ?_⟩
  · intro k hk
    show alook k (restrict ks n.feats) = _
    rw [alook_restrict, if_pos hk]
  · intro k hk
    show alook k (restrict ks n.feats) = _
    rw [alook_restrict, if_neg hk]

theorem C14_geff_loaded_edge (eks : List Key) (e : EdgeRec) :
    (restrictE eks e).src = e.src ∧ (restrictE eks e).dst = e.dst ∧
    (∀ k ∈ eks, alook k (restrictE eks e).feats = alook k e.feats) := by
  refine ⟨rfl, rfl, ?_⟩
  intro k hk
  show alook k (restrict eks e.feats) = _
  rw [alook_restrict, if_pos hk]

example : (∀ n ∈ exC14.nodes, n.pos.length = nax exC14) ∧
    decodeGeff (nax exC14) [9, 8] [6] (encodeGeff 99 exC14 none) =
      some ⟨exC14.nodes, exC14.edges, exC14.seg⟩ ∧
    (decodeGeff (nax exC14) [8] [] (encodeGeff 99 exC14 none)).map (fun l => l.nodes.map NodeRec.feats) =
      some [[], [], [(8, [52, 53])], [], []] := by decide

#print axioms C14_geff
#print axioms C14_geff_loaded
#print axioms C14_geff_loaded_edge

/-! ## internal format -/

/-- `save_tracks` followed by `load_tracks`: the whole table comes back — nodes and edges with
    ALL their attributes in the stored order, the label array, the scale (None stays None), the
    dimensionality and the feature registry including the position-storage style.  Only
    hypothesis: with per-axis position storage every node has one value per axis. -/
theorem C14_internal (s : Tracks)
    (hpos : s.perAxis = true → ∀ n ∈ s.nodes, n.pos.length = nax s) :
    decodeInternal (encodeInternal s) = some s :=
  decodeInternal_encodeInternal s hpos

example : decodeInternal (encodeInternal exC14) = some exC14 ∧
    decodeInternal (encodeInternal { exC14 with perAxis := true, scale := some [70, 71, 72] }) =
      some { exC14 with perAxis := true, scale := some [70, 71, 72] } := by decide

#print axioms C14_internal
