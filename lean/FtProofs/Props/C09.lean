/-
  C09 — edge IoU equals the true overlap.

  "Whenever the IoU edge feature is enabled, every edge's stored value equals |A and B| / |A or B|
   of its two endpoints' current masks, each taken in its own time frame - also for edges that
   skip frames. The value is the same whether it was produced by bulk computation or by
   incremental updates."

  Model: a stored IoU is the exact pair of counts `Val.iou inter union` (or the literal `Val.zero`
  the code writes when there is no overlap / a mask is missing).  `St.iouOf s e` is the value the
  incremental path (`EdgeAnnotator.update`) computes; `C09_value` shows it is the overlap count of
  the two masks, each read in the frame of its own node.  `St.iouCompute` is the bulk path AS
  REPAIRED (fix "bulk IoU computation compares each edge's endpoints in their own frames");
  `iouComputeUnfixed` mirrors the pinned frame-pair loop and `C09_counterexample_unfixed` shows it
  stores 0 on a frame-skipping edge whose masks overlap (defect D4).
-/
import FtProofs.SegLemmas
open Ft Ft.St List

namespace Ft.St

/-- |A ∩ B| : offsets of the frame at which frame `t1` carries `a` and frame `t2` carries `b` -/
def interCount (g : Seg) (t1 t2 : Nat) (a b : Nat) : Nat :=
  (List.range g.frame).countP (fun o =>
    g.data.getD (t1 * g.frame + o) 0 == a && g.data.getD (t2 * g.frame + o) 0 == b)

/-- |A| : number of pixels of frame `t` that carry `a` -/
def maskCount (g : Seg) (t : Nat) (a : Nat) : Nat :=
  (List.range g.frame).countP (fun o => g.data.getD (t * g.frame + o) 0 == a)

/-- the pinned (unrepaired) bulk loop: for t in range(T-1): the out-edges of the nodes of frame t
    get the overlap of label u in frame t with label v in frame t+1; "anything left has IOU 0" -/
def iouPair (g : Seg) (t : Nat) (e : Edge) : Val :=
  let a := g.offsetsOf t e.1
  let b := g.offsetsOf (t + 1) e.2
  let inter := (a.filter (b.contains ·)).length
  if e.1 == 0 || e.2 == 0 || inter == 0 then Val.zero else Val.iou inter (a.length + b.length - inter)

def iouComputeUnfixed (s : St) : St :=
  match s.seg, s.iouKey with
  | some g, some k =>
    if !s.iouActive then s else
    (List.range (g.nframes - 1)).foldl (fun st t =>
      let nodesT := (st.nodes.filter (·.time == t)).map (·.id)
      let es := (st.edges.map (·.e)).filter (fun e => nodesT.contains e.1)
      es.foldl (fun st2 e => st2.setEdgeAttr e k (iouPair g t e)) st) s
  | _, _ => s

/-- example state: node 1 in frame 0, node 2 in frame 1, node 3 in frame 2 (3 pixels per frame);
    a consecutive edge (1,2) and a frame-skipping edge (1,3); IoU feature = key 7, active -/
def exC09 : St :=
  { nodes := [{ id := 1, time := 0, tid := 1, lin := some 1 },
              { id := 2, time := 1, tid := 1, lin := some 1 },
              { id := 3, time := 2, tid := 2, lin := some 1 }],
    edges := [{ e := (1, 2) }, { e := (1, 3) }],
    seg := some { frame := 3, data := [1, 1, 0,  0, 2, 2,  3, 3, 3] },
    iouKey := some 7, iouActive := true, regEdge := [7] }

end Ft.St

/-- The stored value is |A ∩ B| and |A ∪ B| = |A| + |B| - |A ∩ B| of the two masks, the source
    mask read in the source node's frame and the target mask in the target node's frame
    (whatever the distance between the two frames); the literal 0 iff the masks do not meet. -/
theorem C09_value (s : St) (g : Seg) (e : Edge) (t1 t2 : Nat) (hg : s.seg = some g)
    (h1 : s.timeOf e.1 = some t1) (h2 : s.timeOf e.2 = some t2) :
    s.iouOf e =
      if interCount g t1 t2 e.1 e.2 = 0 then Val.zero
      else Val.iou (interCount g t1 t2 e.1 e.2)
             (maskCount g t1 e.1 + maskCount g t2 e.2 - interCount g t1 t2 e.1 e.2) := by
  have hinter : ((g.offsetsOf t1 e.1).filter ((g.offsetsOf t2 e.2).contains ·)).length
      = interCount g t1 t2 e.1 e.2 := by
    simp only [Seg.offsetsOf, interCount, List.filter_filter, List.countP_eq_length_filter]
    congr 1
    apply List.filter_congr
    intro o ho
    have ho' : o < g.frame := by simpa using ho
    by_cases hb : g.data[t2 * g.frame + o]?.getD 0 = e.2 <;> simp [ho', hb]
  have ha : (g.offsetsOf t1 e.1).length = maskCount g t1 e.1 := by
    simp [Seg.offsetsOf, maskCount, List.countP_eq_length_filter]
  have hb : (g.offsetsOf t2 e.2).length = maskCount g t2 e.2 := by
    simp [Seg.offsetsOf, maskCount, List.countP_eq_length_filter]
  simp only [iouOf, hg, h1, h2, hinter, ha, hb]
  by_cases hz : interCount g t1 t2 e.1 e.2 = 0
  · simp [hz]
  · have hane : g.offsetsOf t1 e.1 ≠ [] := by
      intro h; rw [h] at hinter; exact hz hinter.symm
    have hbne : g.offsetsOf t2 e.2 ≠ [] := by
      intro h; rw [h] at hinter
      have hf : ∀ l : List Nat, l.filter (fun _ => false) = [] := by
        intro l; induction l <;> simp_all
      simp [hf] at hinter; exact hz hinter.symm
    simp [hz, hane, hbne]

example : exC09.iouOf (1, 3) = Val.iou 2 3 := by decide
example : interCount { frame := 3, data := [1, 1, 0,  0, 2, 2,  3, 3, 3] } 0 2 1 3 = 2 := by decide
#print axioms C09_value

/-- Bulk computation makes every edge current — consecutive and frame-skipping edges alike —
    and changes neither the array, the nodes nor the edge set. -/
theorem C09_bulk (s : St) (k : Key) (hk : s.iouKey = some k) (ha : s.iouActive = true)
    (hs : s.seg.isSome = true) :
    (∀ er ∈ s.iouCompute.edges, alook k er.attrs = some (s.iouCompute.iouOf er.e)) ∧
    s.iouCompute.seg = s.seg ∧ s.iouCompute.nodes = s.nodes ∧
    s.iouCompute.edgeList = s.edgeList := by
  refine ⟨?_, foldl_iouUpdateEdge_seg _ _, foldl_iouUpdateEdge_nodes _ _,
    foldl_iouUpdateEdge_edgeList _ _⟩
  intro er her
  have hin : er.e ∈ s.edges.map (·.e) := by
    have : er.e ∈ s.iouCompute.edges.map (·.e) := List.mem_map.mpr ⟨er, her, rfl⟩
    rwa [show s.iouCompute.edges.map (·.e) = s.edges.map (·.e) from
      foldl_iouUpdateEdge_edgeList _ _] at this
  unfold iouCompute at her ⊢
  rw [iouOf_foldl_iouUpdateEdge]
  exact mem_foldl_iouUpdateEdge_in _ s hk ha hs her hin

example : exC09.iouCompute.edges =
    [{ e := (1, 2), attrs := [(7, Val.iou 1 3)] }, { e := (1, 3), attrs := [(7, Val.iou 2 3)] }] := by
  decide
#print axioms C09_bulk

/-- The MeasOK edge clause holds after bulk computation (consequence of `C09_bulk`). -/
theorem C09_bulk_measOK (s : St) :
    ∀ g, s.iouCompute.seg = some g → s.iouCompute.iouActive = true → ∀ k, s.iouCompute.iouKey = some k →
      ∀ er ∈ s.iouCompute.edges, alook k er.attrs = some (s.iouCompute.iouOf er.e) := by
  intro g hg ha k hk
  have hg' : s.seg = some g := by rw [← hg]; exact (foldl_iouUpdateEdge_seg _ _).symm
  have ha' : s.iouActive = true := by rw [← ha]; exact (foldl_iouUpdateEdge_iouActive _ _).symm
  have hk' : s.iouKey = some k := by rw [← hk]; exact (foldl_iouUpdateEdge_iouKey _ _).symm
  exact (C09_bulk s k hk' ha' (by simp [hg'])).1

example : exC09.iouCompute.seg = exC09.seg ∧ exC09.iouCompute.iouActive = true ∧
    exC09.iouCompute.iouKey = some 7 := by decide
#print axioms C09_bulk_measOK

/-- Incremental path, AddEdge: after the primitive the new (or re-added) edge carries the IoU of
    the current state; every other edge record is untouched and its true value did not move. -/
theorem C09_incr_addEdge (s s' : St) (e : Edge) (attrs : List (Key × Val)) (rec : PrimRec) (k : Key)
    (hk : s.iouKey = some k) (ha : s.iouActive = true) (hs : s.seg.isSome = true)
    (h : s.pAddEdge e attrs = .ok (s', rec)) :
    (∃ er ∈ s'.edges, er.e = e) ∧
    (∀ er ∈ s'.edges, er.e = e → alook k er.attrs = some (s'.iouOf e)) ∧
    (∀ er ∈ s'.edges, er.e ≠ e → er ∈ s.edges ∧ s'.iouOf er.e = s.iouOf er.e) := by
  obtain ⟨-, -, -, rfl⟩ := pAddEdge_ok_sg h
  have hk1 : (s.addEdgeRaw e attrs).iouKey = some k := by rw [addEdgeRaw_iouKey, hk]
  have ha1 : (s.addEdgeRaw e attrs).iouActive = true := by rw [addEdgeRaw_iouActive, ha]
  have hs1 : (s.addEdgeRaw e attrs).seg.isSome = true := by rw [addEdgeRaw_seg, hs]
  refine ⟨?_, ?_, ?_⟩
  · obtain ⟨er, her, hee⟩ := addEdgeRaw_has s e attrs
    have : e ∈ ((s.addEdgeRaw e attrs).iouUpdateEdge e).edges.map (·.e) := by
      rw [iouUpdateEdge_edgeList]; exact List.mem_map.mpr ⟨er, her, hee⟩
    obtain ⟨er', her', hee'⟩ := List.mem_map.mp this
    exact ⟨er', her', hee'⟩
  · intro er her hee
    rw [iouOf_iouUpdateEdge]
    exact mem_iouUpdateEdge_eq hk1 ha1 hs1 her hee
  · intro er her hne
    refine ⟨addEdgeRaw_ne (mem_iouUpdateEdge_ne her hne) hne, ?_⟩
    rw [iouOf_iouUpdateEdge]
    exact iouOf_congr_sg (addEdgeRaw_seg ..) (addEdgeRaw_nodes ..) _

example : ∃ s' r, exC09.pAddEdge (2, 3) [] = .ok (s', r) ∧
    s'.edges.getLast? = some { e := (2, 3), attrs := [(7, Val.iou 2 3)] } :=
  ⟨_, _, rfl, by decide⟩
#print axioms C09_incr_addEdge

/-- Incremental path, UpdateNodeSeg: after the primitive every edge incident to the re-segmented
    node carries the IoU of the current state (array after the edit). -/
theorem C09_incr_updSeg (s s' : St) (n : Node) (px : List Pix) (added : Bool) (rec : PrimRec) (k : Key)
    (hk : s.iouKey = some k) (ha : s.iouActive = true)
    (h : s.pUpdSeg n px added = .ok (s', rec)) :
    ∀ er ∈ s'.edges, (er.e.1 = n ∨ er.e.2 = n) → alook k er.attrs = some (s'.iouOf er.e) := by
  obtain ⟨g, -, -, -, rfl⟩ := pUpdSeg_ok_sg h
  intro er her hinc
  generalize hs1 : (s.withSeg (g.setPixels px (if added then n else 0))).rpUpdate n = s1 at her ⊢
  have hk1 : s1.iouKey = some k := by rw [← hs1, rpUpdate_iouKey]; exact hk
  have ha1 : s1.iouActive = true := by rw [← hs1, rpUpdate_iouActive]; exact ha
  have hg1 : s1.seg.isSome = true := by rw [← hs1, rpUpdate_seg]; rfl
  rw [iouOf_iouUpdateNode]
  exact mem_iouUpdateNode_incident hk1 ha1 hg1 her hinc

example : ∃ s' r, exC09.iouCompute.pUpdSeg 3 [6] false = .ok (s', r) ∧
    s'.edges = [{ e := (1, 2), attrs := [(7, Val.iou 1 3)] }, { e := (1, 3), attrs := [(7, Val.iou 1 3)] }] :=
  ⟨_, _, rfl, by decide⟩
#print axioms C09_incr_updSeg

/-- Bulk = incremental: the value the bulk computation stores on an edge is the value one
    incremental update of that edge stores (both are `iouOf` of the same masks). -/
theorem C09_agree (s : St) (k : Key) (hk : s.iouKey = some k) (ha : s.iouActive = true)
    (hs : s.seg.isSome = true) (e : Edge) :
    ∀ er ∈ s.iouCompute.edges, er.e = e → ∀ er' ∈ (s.iouUpdateEdge e).edges, er'.e = e →
      alook k er.attrs = alook k er'.attrs := by
  intro er her hee er' her' hee'
  rw [(C09_bulk s k hk ha hs).1 er her, mem_iouUpdateEdge_eq hk ha hs her' hee', hee]
  simp only [iouCompute, iouOf_foldl_iouUpdateEdge]

example : ∀ e ∈ exC09.edgeList, ∀ er ∈ exC09.iouCompute.edges, er.e = e →
    ∀ er' ∈ (exC09.iouUpdateEdge e).edges, er'.e = e → alook 7 er.attrs = alook 7 er'.attrs := by
  decide
#print axioms C09_agree

/-- D4: the pinned frame-pair loop stores the literal 0 on the frame-skipping edge (1,3) of
    `exC09` although the two masks overlap in two pixels (true value 2/3, which the incremental
    path and the repaired bulk path store). -/
theorem C09_counterexample_unfixed :
    (∃ er ∈ exC09.iouComputeUnfixed.edges, er.e = (1, 3) ∧ alook 7 er.attrs = some Val.zero) ∧
    exC09.iouOf (1, 3) = Val.iou 2 3 ∧
    (∃ er ∈ exC09.iouCompute.edges, er.e = (1, 3) ∧ alook 7 er.attrs = some (Val.iou 2 3)) ∧
    -- on the consecutive edge the unrepaired loop agrees
    (∃ er ∈ exC09.iouComputeUnfixed.edges, er.e = (1, 2) ∧ alook 7 er.attrs = some (exC09.iouOf (1, 2))) := by
  decide
#print axioms C09_counterexample_unfixed
