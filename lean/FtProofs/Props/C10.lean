/-
  C10 — feature switching is history-independent; managed features are protected.

  "For any order of enabling, disabling and editing, once a feature is enabled with
   recomputation all its values equal the reference values for the current state, exactly the
   static plus currently enabled features are listed in the feature registry, a disabled
   feature is no longer changed by edits, and asking for an unknown feature raises KeyError and
   changes nothing. Time and every feature an annotator can manage are refused by
   attribute-update edits, enabled or not."
-/
import FtProofs.InverseLemmas
open Ft Ft.St List

/-! ### unknown feature: KeyError, nothing changed -/

theorem C10_unknown (s : St) (ks : List Key) (rc : Bool) (h : ∃ k ∈ ks, k ∉ s.annotKeys) :
    s.enable ks rc = none ∧ s.disable ks = none ∧
    s.step (.enable ks rc) = (s, .err .key) ∧ s.step (.disable ks) = (s, .err .key) := by
  obtain ⟨k, hk, hn⟩ := h
  have hany : ks.any (fun k => !(s.annotKeys.contains k)) = true :=
    any_eq_true.mpr ⟨k, hk, by simpa using hn⟩
  have h1 : s.enable ks rc = none := enable_none s ks rc hany
  have h2 : s.disable ks = none := by unfold disable; rw [if_pos hany]
  refine ⟨h1, h2, ?_, ?_⟩
  · simp only [step, h1]
  · simp only [step, h2]
example : exSeg.step (.enable [10, 99] true) = (exSeg, .err .key) :=
  (C10_unknown exSeg [10, 99] true ⟨99, by decide, by decide⟩).2.2.1
#print axioms C10_unknown

/-! ### managed features are refused by attribute updates -/

/-- time and every annotator-managed key (track id, lineage id, every regionprops key, the
    IoU key) are refused with ValueError and the state is unchanged -/
theorem C10_protected (s : St) (n : Node) (attrs : List (Key × Val))
    (h : ∃ kv ∈ attrs, kv.1 = keyTime ∨ kv.1 ∈ s.annotKeys) :
    s.uUpdateAttrs n attrs = (s, .error .value) ∧
    s.step (.updAttrs n attrs) = (s, .err .value) := by
  obtain ⟨kv, hm, hk⟩ := h
  have hp : kv.1 ∈ s.protectedKeys := by
    unfold protectedKeys; rcases hk with hk | hk
    · rw [hk]; exact mem_cons_self
    · exact mem_cons_of_mem _ hk
  have hany : attrs.any (fun kv => s.protectedKeys.contains kv.1) = true :=
    any_eq_true.mpr ⟨kv, hm, by simpa using hp⟩
  have hq : s.pUpdAttrs n attrs = .error .value := by unfold pUpdAttrs; rw [if_pos hany]
  have hu : s.uUpdateAttrs n attrs = (s, .error .value) := by
    simp only [uUpdateAttrs, thenPrim, hq]
  exact ⟨hu, by simp only [step, hu, commit]⟩
-- key 10 is a regionprops key that is *not* active in `exS`; key 0 is time
example : exS.step (.updAttrs 1 [(8, .tok 1), (10, .tok 2)]) = (exS, .err .value) :=
  (C10_protected exS 1 _ ⟨(10, .tok 2), by simp, Or.inr (by decide)⟩).2
example : exSeg.uUpdateAttrs 1 [(0, .tok 5)] = (exSeg, .error .value) :=
  (C10_protected exSeg 1 _ ⟨(0, .tok 5), by simp, Or.inl rfl⟩).1
#print axioms C10_protected

/-- "enabled or not": the protected set does not depend on which features are active or
    registered -/
theorem C10_protected_any_activation (s : St) (act : List Key) (iouOn linOn : Bool)
    (rn re : List Key) :
    ({ s with rpActive := act, iouActive := iouOn, linOn := linOn, regNode := rn, regEdge := re } : St).protectedKeys
      = s.protectedKeys := rfl
example : ({ exSeg with rpActive := [], iouActive := false } : St).protectedKeys = [0, 1, 2, 10, 11] := by decide
#print axioms C10_protected_any_activation

/-! ### registry = static ∪ active -/

/-- `enable` (with or without recomputation) keeps the registry equal to static ∪ active -/
theorem C10_registry_enable (s s' : St) (ks : List Key) (rc : Bool) (sn se : List Key)
    (hr : RegOK s sn se) (h : s.enable ks rc = some s') : RegOK s' sn se := by
  cases hany : ks.any (fun k => !(s.annotKeys.contains k)) with
  | true => rw [enable_none s ks rc hany] at h; cases h
  | false =>
    rw [enable_eq s ks rc hany] at h
    injection h with h
    have hreg : RegOK (enableReg s ks) sn se := by
      obtain ⟨hn, he⟩ := hr
      constructor
      · intro k
        simp only [enableReg, mem_append, mem_eraseDups, mem_filter, Bool.and_eq_true,
          Bool.not_eq_true', contains_eq_mem, decide_eq_true_eq, decide_eq_false_iff_not]
        rw [hn k]
        constructor
        · rintro (h | ⟨hk, ha, hnr⟩)
          · rcases h with h | h
            · exact Or.inl h
            · exact Or.inr (Or.inl h)
          · by_cases hact : k ∈ s.rpActive
            · exact Or.inr (Or.inl hact)
            · exact Or.inr (Or.inr ⟨hk, ha, hact⟩)
        · rintro (h | h | ⟨hk, ha, hact⟩)
          · exact Or.inl (Or.inl h)
          · exact Or.inl (Or.inr h)
          · by_cases hrn : k ∈ sn ∨ k ∈ s.rpActive
            · exact Or.inl hrn
            · exact Or.inr ⟨hk, ha, hrn⟩
      · intro k
        simp only [enableReg]
        cases hik : s.iouKey with
        | none =>
          simp only [Bool.or_false]
          rw [he k, hik]
        | some ik =>
          simp only
          rw [hik] at he
          by_cases hc : ik ∈ ks
          · by_cases hre : ik ∈ s.regEdge
            · simp only [contains_eq_mem, hc, hre, decide_true, Bool.not_true, Bool.and_false,
                Bool.false_eq_true, if_false, Bool.or_true]
              rw [he k]
              constructor
              · rintro (h | ⟨_, h⟩)
                · exact Or.inl h
                · exact Or.inr ⟨trivial, h⟩
              · rintro (h | ⟨_, h⟩)
                · exact Or.inl h
                · injection h with h; subst h
                  exact (he ik).mp hre
            · simp only [contains_eq_mem, hc, hre, decide_true, decide_false, Bool.not_false,
                Bool.and_true, if_true, Bool.or_true, mem_append, mem_singleton]
              rw [he k]
              constructor
              · rintro ((h | ⟨_, h⟩) | h)
                · exact Or.inl h
                · exact Or.inr ⟨trivial, h⟩
                · exact Or.inr ⟨trivial, by rw [h]⟩
              · rintro (h | ⟨_, h⟩)
                · exact Or.inl (Or.inl h)
                · injection h with h; exact Or.inr h.symm
          · simp only [contains_eq_mem, hc, decide_false, Bool.false_and, Bool.false_eq_true,
              if_false, Bool.or_false]
            exact he k
    cases rc with
    | false => rw [← h]; exact hreg
    | true => rw [← h]; exact RegOK_of_reg (reg_enableRecompute _ _) hreg
example : ∃ s', exS.enable [10] true = some s' ∧ RegOK s' [7] [] := by
  have hr : RegOK exS [7] [] := by constructor <;> intro k <;> simp [exS]
  refine ⟨_, enable_eq exS [10] true (by decide), ?_⟩
  exact C10_registry_enable exS _ [10] true [7] [] hr (enable_eq exS [10] true (by decide))
#print axioms C10_registry_enable

/-- `disable` keeps the registry equal to static ∪ active. The static keys are the keys no
    annotator manages (`hsn`, `hse`): a static key that is also an annotator key would be
    dropped from the registry by `disable_features`. -/
theorem C10_registry_disable (s s' : St) (ks : List Key) (sn se : List Key)
    (hsn : ∀ k ∈ sn, k ∉ s.annotKeys) (hse : ∀ k ∈ se, k ∉ s.annotKeys)
    (hr : RegOK s sn se) (h : s.disable ks = some s') : RegOK s' sn se := by
  unfold disable at h
  split at h
  · cases h
  · rename_i hany
    have hsub : ∀ k ∈ ks, k ∈ s.annotKeys := by
      intro k hk
      apply Classical.byContradiction
      intro hn
      exact hany (any_eq_true.mpr ⟨k, hk, by simpa using hn⟩)
    injection h with h
    subst h
    obtain ⟨hn, he⟩ := hr
    constructor
    · intro k
      simp only [mem_filter, Bool.not_eq_true', contains_eq_mem, decide_eq_false_iff_not]
      rw [hn k]
      constructor
      · rintro ⟨h | h, hk⟩
        · exact Or.inl h
        · exact Or.inr ⟨h, hk⟩
      · rintro (h | ⟨h, hk⟩)
        · exact ⟨Or.inl h, fun hk => hsn k h (hsub k hk)⟩
        · exact ⟨Or.inr h, hk⟩
    · intro k
      simp only [mem_filter, Bool.not_eq_true', contains_eq_mem, decide_eq_false_iff_not]
      rw [he k]
      cases hik : s.iouKey with
      | none => simp only [reduceCtorEq, and_false, or_false]
                exact ⟨fun h => h.1, fun h => ⟨h, fun hk => hse k h (hsub k hk)⟩⟩
      | some ik =>
        simp only
        constructor
        · rintro ⟨h | ⟨ha, hk'⟩, hk⟩
          · exact Or.inl h
          · injection hk' with hk'; subst hk'
            refine Or.inr ⟨?_, rfl⟩
            simp [hk, ha]
        · rintro (h | ⟨ha, hk'⟩)
          · exact ⟨Or.inl h, fun hk => hse k h (hsub k hk)⟩
          · injection hk' with hk'; subst hk'
            by_cases hk : ik ∈ ks
            · simp [hk] at ha
            · simp only [hk, decide_false, Bool.false_eq_true, if_false] at ha
              exact ⟨Or.inr ⟨ha, rfl⟩, hk⟩
example : ∃ s', exSeg.disable [10, 11] = some s' ∧ RegOK s' [7] [] := by
  have hr : RegOK exSeg [7] [] := by
    constructor <;> intro k <;> simp [exSeg, exS, eq_comm]
  cases hd : exSeg.disable [10, 11] with
  | none => unfold disable at hd; rw [if_neg (by decide)] at hd; cases hd
  | some s' => exact ⟨s', rfl, C10_registry_disable exSeg s' [10, 11] [7] [] (by decide) (by decide) hr hd⟩
#print axioms C10_registry_disable

/-- every other `step` (the seven edits accepted or refused, undo, redo, queries) leaves the
    registry and the activation flags untouched, hence keeps `RegOK` -/
theorem C10_registry_step (s : St) (op : Op) (sn se : List Key)
    (hop : ∀ ks rc, op ≠ .enable ks rc) (hop' : ∀ ks, op ≠ .disable ks)
    (hr : RegOK s sn se) : RegOK (s.step op).1 sn se := by
  refine RegOK_of_reg ?_ hr
  have hc : ∀ (r : UOut) (p : Option Node), r.1.cfg = s.cfg → (commit r p).1.reg = s.reg := by
    intro r p h
    unfold commit
    split
    · exact (show _ = r.1.reg from rfl).trans (reg_of_cfg h)
    · exact reg_of_cfg h
  have hh : ∀ (r : Hist ActRec × St × Bool) (bad : Bool), r.2.1.cfg = s.cfg →
      (histCore s r bad).1.reg = s.reg := by
    intro r bad h
    unfold histCore
    split
    · exact reg_of_cfg h
    · split
      · exact (show _ = r.2.1.reg from rfl).trans (reg_of_cfg h)
      · rfl
  cases op with
  | addEdge e' f => exact hc _ _ (cfg_uAddEdge s e' f)
  | delEdge e' => exact hc _ _ (cfg_uDeleteEdge s e')
  | addNode a => exact hc _ _ (cfg_uAddNode s a)
  | delNode n => exact hc _ _ (cfg_uDeleteNode s n none)
  | swap a b => exact hc _ _ (cfg_uSwap s a b)
  | updAttrs n at_ => exact hc _ _ (cfg_uUpdateAttrs s n at_)
  | paint v groups tid f =>
    simp only [step]
    split
    · rfl
    · rename_i g hg
      have hu := cfg_uUpdateSeg
        { s with seg := some (g.setPixels (groups.flatMap (fun (grp : List Pix × Nat) => grp.1)) v) }
        v groups tid f
      split
      · exact hc _ _ hu
      · split
        · exact reg_of_cfg hu
        · exact reg_of_cfg hu
  | undo => rw [step_undo_eq]; exact hh _ _ (cfg_undoStep _ _)
  | redo => rw [step_redo_eq]; exact hh _ _ (cfg_redoStep _ _)
  | enable ks rc => exact absurd rfl (hop ks rc)
  | disable ks => exact absurd rfl (hop' ks)
  | qNeighbors tid time => exact reg_of_cfg (cfg_trackNeighbors s tid time)
  | qHasTrack tid time => rfl
  | qNewIds n => rfl
  | nop => rfl
example : RegOK (exSeg.step (.addEdge (3, 5) false)).1 [7] [] :=
  C10_registry_step exSeg _ [7] [] (fun _ _ h => by cases h) (fun _ h => by cases h)
    (by constructor <;> intro k <;> simp [exSeg, exS, eq_comm])
#print axioms C10_registry_step

/-! ### a disabled feature is no longer written

  `col k s` is the `k`-column of the node table: the list of `(node id, stored value of k)` in
  insertion order. A regionprops key that is not active is written neither by the incremental
  update (AddNode / UpdateNodeSeg call `rpUpdate`), nor by a bulk recomputation for any
  requested key list, nor by the primitive `UpdateNodeSeg` as a whole; with the IoU switched
  off the edge annotator is the identity. -/

theorem C10_disabled_frozen_update (s : St) (k : Key) (n : Node) (hk : k ∉ s.rpActive) :
    col k (s.rpUpdate n) = col k s := col_rpUpdate hk n
-- `exOff`: the array is there, key 10 is available but switched off
example : col 10 (({ exSeg with rpActive := [] } : St).rpUpdate 2) = col 10 { exSeg with rpActive := [] } :=
  C10_disabled_frozen_update _ 10 2 (by decide)
#print axioms C10_disabled_frozen_update

theorem C10_disabled_frozen_compute (s : St) (k : Key) (keys : List Key) (hk : k ∉ s.rpActive) :
    col k (s.rpCompute keys) = col k s := col_rpCompute hk keys
example : col 10 (({ exSeg with rpActive := [] } : St).rpCompute [10]) = col 10 { exSeg with rpActive := [] } :=
  C10_disabled_frozen_compute _ 10 [10] (by decide)
#print axioms C10_disabled_frozen_compute

theorem C10_disabled_frozen_updSeg (s s' : St) (k : Key) (n : Node) (px : List Pix) (added : Bool)
    (rec : PrimRec) (hk : k ∉ s.rpActive) (h : s.pUpdSeg n px added = .ok (s', rec)) :
    col k s' = col k s := col_pUpdSeg hk h
example : ∃ s' rec, ({ exSeg with rpActive := [] } : St).pUpdSeg 2 [6] true = .ok (s', rec) ∧
    col 10 s' = col 10 { exSeg with rpActive := [] } := by
  refine ⟨_, _, rfl, ?_⟩
  exact C10_disabled_frozen_updSeg _ _ 10 2 [6] true _ (by decide) rfl
#print axioms C10_disabled_frozen_updSeg

theorem C10_disabled_frozen_iou (s : St) (h : s.iouActive = false) :
    (∀ e, s.iouUpdateEdge e = s) ∧ (∀ n, s.iouUpdateNode n = s) ∧ s.iouCompute = s :=
  ⟨iouUpdateEdge_off h, iouUpdateNode_off h, iouCompute_off h⟩
example : ({ exSeg with iouActive := false } : St).iouCompute = { exSeg with iouActive := false } :=
  (C10_disabled_frozen_iou _ rfl).2.2
#print axioms C10_disabled_frozen_iou

/-- an attribute-update edit can never write a managed key either (it is refused, see
    `C10_protected`), so on acceptance the column of every annotator key is untouched -/
theorem C10_disabled_frozen_updAttrs (s s' : St) (k : Key) (n : Node) (attrs : List (Key × Val))
    (rec : PrimRec) (hk : k ∈ s.annotKeys) (h : s.pUpdAttrs n attrs = .ok (s', rec)) :
    col k s' = col k s := by
  unfold pUpdAttrs at h
  split at h
  · cases h
  · rename_i hany
    split at h
    · cases h
    · injection h with h; injection h with h _; subst h
      refine foldl_col k (fun st (kv : Key × Val) => st.setOther n kv.1 kv.2) _ ?_ s
      intro a kv hkv
      apply col_setOther
      intro hh
      apply hany
      exact any_eq_true.mpr ⟨kv, hkv, by
        have : kv.1 ∈ s.protectedKeys := by
          unfold protectedKeys; rw [← hh]; exact mem_cons_of_mem _ hk
        simpa using this⟩
example : ∃ s' rec, exS.pUpdAttrs 1 [(8, .tok 1)] = .ok (s', rec) ∧ col 10 s' = col 10 exS :=
  ⟨_, _, rfl, C10_disabled_frozen_updAttrs exS _ 10 1 [(8, .tok 1)] _ (by decide) rfl⟩
#print axioms C10_disabled_frozen_updAttrs


/-
  Not proved (full statement, for the record):

  * C10_enable_current : SegOK s → s.ids.Nodup → no node has id 0 → s.enable ks true = some s' →
      (∀ k ∈ ks, k ∈ s.rpAvail → ∀ g, s'.seg = some g → ∀ r ∈ s'.nodes,
          alook k r.other = some (Val.mask (g.pixelsOf r.time r.id))) ∧
      (∀ k, s.iouKey = some k → k ∈ ks → ∀ er ∈ s'.edges, alook k er.attrs = some (s'.iouOf er.e))
    i.e. `MeasOK` restricted to the enabled keys holds after `enable ks true` whatever was stored
    before. Needs the fold characterisation of `rpCompute` (last write per node wins; under
    SegOK a label lives in one frame) and of `iouCompute` — the array lemmas of package PD.
    What *is* proved about `enable` here: the registry part (`C10_registry_enable`) and that
    recomputation never touches the registry / activation flags (`reg_enableRecompute`).
  * C10_disabled_frozen at the level of whole user actions (every surviving node keeps its
    stored value of a disabled key through uAddEdge … uUpdateSeg): proved above for the
    writers themselves (`rpUpdate`, `rpCompute`, `pUpdSeg`, `pUpdAttrs`, the IoU annotator);
    the remaining primitives do not call a writer, the lifting through the seven composites
    is the same fold argument as `cfg_u*` in InverseLemmas and was not carried out.
-/
