/-
  C05 (package R9C) — the caller's attributes dict of `UserAddNode` (defect D23, fixed by commit
  2ffa171 in /repo: the constructor works on a copy of the dict).

  Model: `FtModel/UserDict.lean` (`Ft.R9C.addWithDict fixed s node pixels force d : St × Out × Dict`,
  the caller loops `addMany` = ONE dict object, `addManyFresh` = a copy of the template per call).

  * `C05_reused_dict_fixed`            with the fix, the loop over one re-used dict is the iteration of
                                       `St.step (.addNode …)` over fresh dicts (`freshOps`) — state,
                                       outcomes, and the dict holds only what the caller wrote
  * `C05_reused_dict_fixed_reach`      … so `C03_reach` applies: lineage ids label the components
  * `C05_counterexample_reused_dict_unfixed`   before the fix: nodes 10 and 11, unconnected, get ONE
                                       lineage id (corpus/C05-addnode-reused-attributes-dict.json);
                                       replayed on the real code before / after 2ffa171 (final report)
  * `C05_reused_dict_unfixed_needs_reuse`      before the fix but with a fresh dict per call: same
                                       result as with the fix
  * `C05_unfixed_dict_lineage_sticks`  the mechanism: once a lineage id is in the dict, neither the
                                       unfixed constructor nor the caller's overwrite removes it
-/
import FtProofs.R9CLemmas
import FtProofs.R5ALemmas
import FtProofs.Props.C03_R4A
open Ft Ft.St Ft.R3D Ft.R4A Ft.R9C

namespace Ft.R9C
/-- the start state of the corpus case: one node 1 (time 0, track 1, lineage 1), position key 7 -/
def exW : St := {
  nodes := [⟨1, 0, 1, some 1, [(7, .tok 1)]⟩],
  posKeys := [7], regNode := [7],
  t2n := [(1, [1])], l2n := [(1, [1])], maxTid := 1, maxLin := 1, counter := 2 }

/-- the two adds of the corpus case: node 10 at time 1 on track 2, node 11 at time 3 on track 3 -/
def exCalls : List Call := [(10, 1, 2, .tok 5), (11, 3, 3, .tok 9)]
end Ft.R9C

/-- **With the fix (2ffa171), re-using one attributes dict is harmless.** The caller loop over ONE
    dict object (time, track id and position overwritten before every call, nothing else touched)
    reaches the state, and returns the outcomes, of the plain iteration of `St.step (.addNode …)`
    over the operations `freshOps pk d0 calls` — every call with its own copy of the template `d0` —;
    that state is the one `sessFinal` (the session of `C03_reach`) reaches; the dict afterwards holds
    what the caller wrote and nothing else; and when the template has no lineage id, no operation
    of the session gives one (the precondition of `OpPre` for add-node). -/
theorem C05_reused_dict_fixed (pk : Key) (s : St) (calls : List Call) (d0 : Dict) :
    (addMany true pk s calls d0).1 = (freshOps pk d0 calls).foldl (fun x op => (x.step op).1) s ∧
    (addMany true pk s calls d0).1 = (sessFinal s ⟨[s], 0⟩ (freshOps pk d0 calls)).1 ∧
    (addMany true pk s calls d0).2.1 = stepOuts s (freshOps pk d0 calls) ∧
    (addMany true pk s calls d0).2.2 = calls.foldl (overwrite pk) d0 ∧
    (d0.lin = none → ∀ op ∈ freshOps pk d0 calls,
      ∃ a, op = Op.addNode a ∧ a.lin = none ∧ a.pixels = none ∧ a.force = false) := by
  obtain ⟨h1, h2⟩ := addMany_fixed_fresh pk calls s d0 d0 (fun _ => rfl)
  have e := addManyFresh_state true pk calls s d0
  refine ⟨h1.trans e, ?_, ?_, addMany_fixed_dict pk calls s d0,
    fun h0 => freshOps_lin_none pk d0 h0 calls⟩
  · rw [R5A.sessFinal_fst]; exact h1.trans e
  · rw [h2]; exact addManyFresh_outs true pk calls s d0
example : (addMany true 7 exW exCalls {}).2.1 = [.ok, .ok] ∧
    (addMany true 7 exW exCalls {}).1.linOf 10 = some 2 ∧
    (addMany true 7 exW exCalls {}).1.linOf 11 = some 3 ∧
    (addMany true 7 exW exCalls {}).2.2 = { time := some 3, tid := some 3, lin := none, other := [(7, .tok 9)] } := by
  decide +kernel
#print axioms C05_reused_dict_fixed

/-- **… so C03 / C05 hold after the loop.** From an `Inv` start state with empty history, when the
    fresh-dict session is admissible (`SessOK`; for add-node: no lineage given, registered keys,
    a position), the state the re-used-dict loop reaches satisfies the bundle invariant and two
    nodes carry the same lineage id iff they are connected. Instantiates `C03_reach`. -/
theorem C05_reused_dict_fixed_reach (pk : Key) (s : St) (calls : List Call) (d0 : Dict)
    (h0 : s.hist = {}) (hI : Inv s) (hs : SessOK s (freshOps pk d0 calls)) :
    Inv (addMany true pk s calls d0).1 ∧ (addMany true pk s calls d0).1.Forest ∧
    (addMany true pk s calls d0).1.LinOK ∧
    (∀ a b, a ∈ (addMany true pk s calls d0).1.ids → b ∈ (addMany true pk s calls d0).1.ids →
      ((addMany true pk s calls d0).1.linOf a = (addMany true pk s calls d0).1.linOf b ↔
        (addMany true pk s calls d0).1.Conn a b)) := by
  have h := C03_reach s h0 hI (freshOps pk d0 calls) hs
  rw [← (C05_reused_dict_fixed pk s calls d0).2.1] at h
  exact ⟨h.2.1, h.2.2.2.1, h.2.2.2.2.2.1, h.2.2.2.2.2.2.2.2.2.1⟩
-- the corpus case meets the hypotheses (both by evaluation)
example : exW.hist = {} ∧ Inv exW ∧ SessOK exW (freshOps 7 {} exCalls) ∧
    ¬ (addMany true 7 exW exCalls {}).1.Conn 10 11 := by
  have hI : Inv exW := invB_sound (by decide)
  have hs : SessOK exW (freshOps 7 {} exCalls) := sessOKB_sound (by decide +kernel)
  refine ⟨rfl, hI, hs, fun hc => ?_⟩
  have h := ((C05_reused_dict_fixed_reach 7 exW exCalls {} rfl hI hs).2.2.2 10 11
    (by decide +kernel) (by decide +kernel)).2 hc
  revert h; decide +kernel
#print axioms C05_reused_dict_fixed_reach

/-- **Before the fix, a re-used dict breaks C05** (corpus/C05-addnode-reused-attributes-dict.json).
    Start: the `Inv` state `exW` (one node). The caller adds node 10 (time 1, new track 2) and node
    11 (time 3, new track 3) with ONE dict. Both calls are accepted; the first writes the lineage id
    it determined (2) into the dict, the second finds it there and keeps it: 10 and 11 carry
    lineage id 2 although the graph has no edge at all — they are not connected, `LinOK` fails.
    (The second call is `.addNode` with `lin = some 2`: outside `OpPre`, which is why `C03_reach`
    does not contradict this.) With the fix node 11 gets lineage id 3. -/
theorem C05_counterexample_reused_dict_unfixed :
    invB exW = true ∧
    (addMany false 7 exW exCalls {}).2.1 = [.ok, .ok] ∧
    (addMany false 7 exW exCalls {}).1.ids = [1, 10, 11] ∧
    (addMany false 7 exW exCalls {}).1.edges = [] ∧
    (addMany false 7 exW exCalls {}).1.tidOf 10 = some 2 ∧
    (addMany false 7 exW exCalls {}).1.tidOf 11 = some 3 ∧
    (addMany false 7 exW exCalls {}).1.linOf 10 = some 2 ∧
    (addMany false 7 exW exCalls {}).1.linOf 11 = some 2 ∧
    (addMany false 7 exW exCalls {}).2.2.lin = some 2 ∧
    (addWithDict false exW 10 none false (overwrite 7 {} (10, 1, 2, .tok 5))).2.2.lin = some 2 ∧
    (addMany true 7 exW exCalls {}).1.linOf 11 = some 3 := by
  decide +kernel
#print axioms C05_counterexample_reused_dict_unfixed

/-- the property text on the witness: equal lineage ids, not connected; the local invariant fails -/
theorem C05_counterexample_reused_dict_unfixed_prop :
    (addMany false 7 exW exCalls {}).1.linOf 10 = (addMany false 7 exW exCalls {}).1.linOf 11 ∧
    10 ∈ (addMany false 7 exW exCalls {}).1.ids ∧ 11 ∈ (addMany false 7 exW exCalls {}).1.ids ∧
    ¬ (addMany false 7 exW exCalls {}).1.Conn 10 11 ∧
    ¬ (addMany false 7 exW exCalls {}).1.LinOK := by
  obtain ⟨_, _, hids, he, _, _, h10, h11, _⟩ := C05_counterexample_reused_dict_unfixed
  have hn : ¬ (addMany false 7 exW exCalls {}).1.Conn 10 11 :=
    fun hc => absurd (conn_eq_of_no_edges he hc) (by decide)
  have hel : (addMany false 7 exW exCalls {}).1.edgeList = [] := by
    unfold St.edgeList; rw [he]; rfl
  refine ⟨h10.trans h11.symm, by rw [hids]; decide, by rw [hids]; decide, hn, fun hL => ?_⟩
  refine hL.roots 10 11 ⟨by rw [hids]; decide, fun p hp => ?_⟩ ⟨by rw [hids]; decide, fun p hp => ?_⟩
    (by decide) (h10.trans h11.symm)
  · rw [hel] at hp; cases hp
  · rw [hel] at hp; cases hp
#print axioms C05_counterexample_reused_dict_unfixed_prop

/-- **The defect needs the re-use.** The unfixed constructor called with a FRESH dict per call (a
    copy of the template, then time / track id / position) reaches the same state with the same
    outcomes as the fixed constructor called with one re-used dict. -/
theorem C05_reused_dict_unfixed_needs_reuse (pk : Key) (s : St) (calls : List Call) (d0 : Dict) :
    addManyFresh false pk s calls d0 =
      ((addMany true pk s calls d0).1, (addMany true pk s calls d0).2.1) := by
  obtain ⟨h1, h2⟩ := addMany_fixed_fresh pk calls s d0 d0 (fun _ => rfl)
  rw [addManyFresh_indep, h1, h2]
example : (addManyFresh false 7 exW exCalls {}).2 = [.ok, .ok] ∧
    (addManyFresh false 7 exW exCalls {}).1.linOf 10 = some 2 ∧
    (addManyFresh false 7 exW exCalls {}).1.linOf 11 = some 3 ∧
    (addMany false 7 exW exCalls {}).1.linOf 11 = some 2 := by
  decide +kernel
#print axioms C05_reused_dict_unfixed_needs_reuse

/-- **The mechanism.** Once the dict holds a lineage id, the unfixed constructor leaves it there
    (it only writes a lineage id into a dict that has none) and so does the caller's overwrite:
    every later call of the loop is made with that lineage id given explicitly. -/
theorem C05_unfixed_dict_lineage_sticks (pk : Key) (s : St) (node : Node) (px : Option (List Pix))
    (force : Bool) (d : Dict) (c : Call) (l : Nat) (h : d.lin = some l) :
    (addWithDict false s node px force d).2.2.lin = some l ∧ (overwrite pk d c).lin = some l ∧
    ((overwrite pk d c).args c.1 none false).lin = some l := by
  refine ⟨?_, h, h⟩
  rw [addWithDict_dict_unfixed]
  unfold dictAfterUnfixed
  split
  · exact h
  · exact h
  · split
    · exact h
    · simp only []
      split
      · split <;> exact h
      · have hl : ∀ t : Option Nat, (({ d with tid := t } : Dict).lin.isNone) = false := by
          intro t; simp [h]
        split <;> simp_all
example : ((addWithDict false exW 10 none false (overwrite 7 {} (10, 1, 2, .tok 5))).2.2).lin = some 2 ∧
    (addWithDict false (addWithDict false exW 10 none false (overwrite 7 {} (10, 1, 2, .tok 5))).1 11 none false
      (overwrite 7 (addWithDict false exW 10 none false (overwrite 7 {} (10, 1, 2, .tok 5))).2.2
        (11, 3, 3, .tok 9))).2.2.lin = some 2 := by
  decide +kernel
#print axioms C05_unfixed_dict_lineage_sticks

-- the track id write (replayed on the real code: `{'time': 0, 'track_id': 2, …, 'lineage_id': 2}`
-- before 2ffa171, `{'time': 0, 'track_id': 1, …}` after): track 1 is taken at time 0
example : (addWithDict false exW 12 none false (overwrite 7 {} (12, 0, 1, .tok 2))).2.2 =
      { time := some 0, tid := some 2, lin := some 2, other := [(7, .tok 2)] } ∧
    (addWithDict true exW 12 none false (overwrite 7 {} (12, 0, 1, .tok 2))).2.2 =
      { time := some 0, tid := some 1, lin := none, other := [(7, .tok 2)] } ∧
    (addWithDict true exW 12 none false (overwrite 7 {} (12, 0, 1, .tok 2))).1.tidOf 12 = some 2 := by
  decide +kernel

-- a REFUSED add still leaves the lineage id behind (replayed on the real code: no position and no
-- pixels → `ValueError` from `AddNode`, state rolled back; dict `{'time': 1, 'track_id': 2,
-- 'lineage_id': 2}` before 2ffa171, `{'time': 1, 'track_id': 2}` after)
example : (addWithDict false exW 10 none false { time := some 1, tid := some 2 }).2.1 = .err .value ∧
    (addWithDict false exW 10 none false { time := some 1, tid := some 2 }).1.ids = [1] ∧
    (addWithDict false exW 10 none false { time := some 1, tid := some 2 }).2.2 =
      { time := some 1, tid := some 2, lin := some 2 } ∧
    (addWithDict true exW 10 none false { time := some 1, tid := some 2 }).2.2 =
      { time := some 1, tid := some 2 } := by
  decide +kernel
