/-
  C08 (round 6, package R6P) — node measurements on ARBITRARY graphs, over the primitive protocol.

  "Whenever a segmentation-derived node feature is enabled, its stored value for every node equals
   the value computed from that node's current mask … no matter which edits, undos and redos
   produced the mask."

  `RegionpropsAnnotator` serves plain `Tracks` (candidate graphs with merges) edited through the
  seven primitive actions, `action.inverse()` and `enable_features` / `disable_features`; this is
  the protocol `SP` of `FtModel/PrimDrv.lean` which the harness compares with the real code step by
  step.  Command language `Ft.R6P.Cmd` (`prim c | inv | enable ks rc | disable ks`), run function
  `Ft.R6P.exec` / `runs`; `exec` IS the state / last-record part of `PrimDrv.stepRaw`
  (`Ft.R6P.exec_ofDrv`, `stepRaw_prim`, `stepRaw_enable`, `stepRaw_disable`).

  Invariant `Ft.R6P.InvP` (see `R6PReachLemmas.lean`): array of whole frames, duplicate-free
  non-zero node ids, every node's time inside the array, a label that is a node id occurs only in
  that node's frame, duplicate-free edge list with endpoints that are nodes, active regionprops keys
  are annotator keys.  NO forest hypothesis, no `TidOK` / `LinOK` / `BookOK`: merges, any out-degree,
  backward edges, self loops and cycles are all allowed (acyclicity is never needed).

  Hypotheses beyond the ones named in the task, and why:
  * "a label that is a node id occurs only in that node's frame" (`LabelsInFrame`; labels that are
    no node are unconstrained): the bulk path writes, for every frame, every label of the frame
    that is a node — the last frame wins (`C08_prim_reach_needs_labels_in_frame`).  It is kept by
    every command under the preconditions, which is also what makes the inverse of a shrink / a
    DeleteNode admissible again ("pixels in the node's own frame").
  * edge endpoints are nodes, duplicate-free edge list: what a networkx graph is (not used for C08).
  * `CmdPre8` for `enable`: see `EnPre8` — FALSE OF THE MODEL without it
    (`C08_counterexample_prim_stale_after_reenable`): a node that lost all its pixels while the
    feature was off keeps its old value when the feature is switched on again with recomputation,
    because `RegionpropsAnnotator.compute` only visits the labels present in the array.

  Theorems
  * `C08_prim_reach`            FULL under the above: `InvP ∧ RpOK` at every state reached by any
                                admissible command list; `inv` right after an accepted command needs
                                no precondition, a later `inv` needs that of the inverse command.
  * `C08_prim_inv_admissible`   the inverse of the record of an accepted command (under its
                                precondition) satisfies the precondition in the new state.
  * `C08_prim_frozen`           FULL, no invariant, no argument precondition: the column of a key
                                that is not active, along any command list that does not `enable`
                                it and does not carry it explicitly (AddNode attributes on an
                                existing node, UpdateNodeAttrs of a non-managed key).
  * `C08_prim_reach_pixels`     FULL, the same for the reading "every node WITH pixels is current"
                                (what the Python oracle checks): no precondition on `enable ks true`.
  * witnesses: `C08_prim_reach_needs_labels_in_frame`, `C08_counterexample_prim_stale_after_reenable`,
    `C08_prim_enable_absent_is_not_none`, `C08_prim_enable_norecompute_breaks`.
-/
import FtProofs.R6PReachLemmas
open Ft Ft.St Ft.R2G Ft.R5B Ft.R6P List

/-- **C08 over the primitive protocol, any graph.**  From a state with `InvP` and current node
    measurements (`RpOK`: every ACTIVE regionprops key of every node stores the mask of the node's
    current pixels in its own frame, `None` iff it has none), every state reached by an admissible
    command list — `cs.take n` for every `n` — satisfies `InvP` and `RpOK` again.  Admissible
    (`Adm8`): every primitive satisfies `PrimPre` in the state it is applied to, `enable` satisfies
    `EnPre8`, an `inv` satisfies the precondition of the inverse command unless its record is fresh
    (produced by the last accepted command), in which case nothing is asked. -/
theorem C08_prim_reach (s : St) (last : Option PrimRec) (cs : List Cmd)
    (hI : InvP s) (hR : RpOK s) (hA : Adm8 false (s, last) cs) (n : Nat) :
    InvP (runs (s, last) (cs.take n)).1 ∧ RpOK (runs (s, last) (cs.take n)).1 := by
  have hA' : Adm8 false (s, last) (cs.take n) :=
    AdmG.prefix (cs.take n) (cs.drop n) false (s, last) (by rw [List.take_append_drop]; exact hA)
  have := closedRp.reach (cs.take n) false (s, last) ⟨(invP_iff_str s).1 hI, hR⟩
    (fun h => by cases h) hA'
  exact ⟨(invP_iff_str _).2 this.1, this.2⟩

/-- six nodes with a merge, a division and a skip edge; twelve commands: grow, AddEdge with a stale
    IoU attribute, disable, shrink, enable with recomputation, `inv` without record, DeleteNode of
    the merge hub, its inverse, AddEdge, its inverse, erase, its inverse (the four `inv` need no
    precondition: their records are fresh) -/
example : InvP exP ∧ RpOK exP ∧ Adm8 false (exP, none) exCmds2 ∧
    (runs (exP, none) exCmds).1.nodes.map (fun r => (r.id, alook 10 r.other)) =
      [(1, some (.mask [0, 1])), (2, some (.mask [2])), (3, some (.mask [4, 5, 6])),
       (4, some (.mask [8, 9])), (5, some (.mask [11])), (6, some (.mask [12, 13]))] ∧
    (runs (exP, none) exCmds2).1.nodes.map (fun r => (r.id, alook 10 r.other)) =
      [(1, some (.mask [0, 1])), (2, some (.mask [2])), (4, some (.mask [8, 9])), (5, some (.mask [11])),
       (6, some (.mask [12, 13])), (3, some (.mask [4, 5, 6]))] ∧
    (runs (exP, none) exCmds2).1.seg = some ⟨4, [1, 1, 2, 0,  3, 3, 3, 0,  4, 4, 0, 5,  6, 6, 0, 9]⟩ :=
  ⟨exP_invP, exP_rpOK, by decide, by decide, by decide, by decide⟩
example : RpOK (runs (exP, none) exCmds2).1 :=
  (C08_prim_reach exP none exCmds2 exP_invP exP_rpOK (by decide) exCmds2.length).2
#print axioms C08_prim_reach

/-- **The inverse is admissible.**  If a primitive (or an inverse) is accepted under its
    precondition in a state with `InvP`, the command that `inverse()` constructs from the returned
    record satisfies its precondition in the new state — so `inv` may follow immediately. -/
theorem C08_prim_inv_admissible (s s' : St) (c : PCmd) (r : PrimRec) (hI : InvP s)
    (hpre : PrimPre s c) (h : c.run s = .ok (s', r)) :
    PrimPre s' (invCmd r) ∧ s'.invPrim r = (invCmd r).run s' ∧ CmdPre8 s' (some r) .inv := by
  have h2 := (str_prim ((invP_iff_str s).1 hI) hpre h).2
  exact ⟨h2, invPrim_eq s' r, fun r' hr' => by cases hr'; exact h2⟩

/-- DeleteNode of the merge hub: the record holds the saved attributes and the erased pixels; the
    inverse `AddNode` is admissible: fresh id, pixels on background in frame 1 -/
example : ∃ s' r, (PCmd.delNode 3 none).run exP = .ok (s', r) ∧ PrimPre exP (.delNode 3 none) ∧
    r = .delNode ⟨3, 1, 3, some 1, [(10, .mask [4, 5, 6])]⟩ (some [4, 5, 6]) ∧
    invCmd r = .addNode ⟨3, 1, 3, some 1, [(10, .mask [4, 5, 6])]⟩ (some [4, 5, 6]) ∧
    PrimPre s' (invCmd r) :=
  ⟨_, _, rfl, by decide, by decide, by decide, by decide⟩
#print axioms C08_prim_inv_admissible

/-- **A key that is not active is not written.**  ANY start state (no invariant), any command
    list (accepted or refused commands, no argument precondition) in which no `enable` names `k`,
    no AddNode on an EXISTING node and no UpdateNodeAttrs of a non-managed key carries `k`
    explicitly (`FzNPre`; an `inv` whose record is not fresh: the same for the inverse command):
    `k` stays inactive and the column `col k` (node id ↦ stored value of `k`) of the reached state
    is the old column with the entries of some nodes dropped (`dels`: deleted nodes), every other
    entry unchanged and in place, followed by entries of nodes that are not among the survivors. -/
theorem C08_prim_frozen (k : Key) (s : St) (last : Option PrimRec) (cs : List Cmd)
    (hoff : k ∉ s.rpActive)
    (hA : AdmG (FzNPre k) (fun _ ks _ => k ∉ ks) (fun _ _ => True) false (s, last) cs) :
    k ∉ (runs (s, last) cs).1.rpActive ∧
    ∃ dels extra, col k (runs (s, last) cs).1 = dropC (col k s) dels ++ extra ∧
      (∀ p ∈ extra, p.1 ∉ (dropC (col k s) dels).map (·.1)) ∧
      (∀ p ∈ col k s, p.1 ∉ dels → p ∈ col k (runs (s, last) cs).1) := by
  have := (closedFzN k (col k s)).reach cs false (s, last) ⟨hoff, FrzL.refl _⟩ (fun h => by cases h) hA
  obtain ⟨h1, dels, extra, he, hf⟩ := this
  refine ⟨h1, dels, extra, he, hf, fun p hp hd => ?_⟩
  rw [he]
  apply List.mem_append_left
  unfold dropC
  rw [List.mem_filter]
  exact ⟨hp, by simpa using hd⟩

namespace Ft.R6P
/-- shrink node 5 to nothing, add node 7 (with an explicit value of key 10: allowed, the node is
    new), delete the hub 3 and invert that, a refused UpdateNodeAttrs of key 10 itself, enable the IoU -/
def exCmdsF : List Cmd :=
  [.prim (.updSeg 5 [10] false), .prim (.addNode ⟨7, 3, 7, some 1, [(10, .tok 5)]⟩ (some [14])),
   .prim (.delNode 3 none), .inv, .prim (.updAttrs 1 [(10, .tok 3)]), .enable [11] true]
end Ft.R6P

example : 10 ∉ exPoff.rpActive ∧
    AdmG (FzNPre 10) (fun _ ks _ => 10 ∉ ks) (fun _ _ => True) false (exPoff, none) exCmdsF ∧
    col 10 exPoff = [(1, some (.mask [0, 1])), (2, some (.mask [2])), (3, some (.mask [4, 5, 6])),
       (4, some (.mask [8, 9])), (5, some (.mask [10])), (6, some (.mask [12, 13]))] ∧
    col 10 (runs (exPoff, none) exCmdsF).1 = [(1, some (.mask [0, 1])), (2, some (.mask [2])),
       (4, some (.mask [8, 9])), (5, some (.mask [10])), (6, some (.mask [12, 13])), (7, some (.tok 5)), (3, none)] ∧
    (runs (exPoff, none) exCmdsF).1.seg = some ⟨4, [1, 1, 2, 0,  3, 3, 3, 0,  4, 4, 0, 0,  6, 6, 7, 9]⟩ := by
  decide
#print axioms C08_prim_frozen

/-- WITNESS: the hypothesis "a label that is a node id occurs only in that node's frame" cannot be
    dropped.  `exP` with the orphan pixel 15 (frame 3) relabelled to 1 — node 1 lives in frame 0 —
    satisfies every other clause of `InvP` and `RpOK`; the admissible command `enable [10] true`
    (recompute an ACTIVE key) makes node 1 store the mask of frame 3. -/
theorem C08_prim_reach_needs_labels_in_frame :
    let s : St := { exP with seg := some ⟨4, [1, 1, 2, 0,  3, 3, 3, 0,  4, 4, 5, 0,  6, 6, 0, 1]⟩ }
    let g : Seg := ⟨4, [1, 1, 2, 0,  3, 3, 3, 0,  4, 4, 5, 0,  6, 6, 0, 1]⟩
    s.seg = some g ∧ g.WF ∧ (∀ r ∈ s.nodes, r.time < g.nframes) ∧ ¬ LabelsInFrame s g ∧
    s.ids.Nodup ∧ (∀ r ∈ s.nodes, r.id ≠ 0) ∧ s.edgeList.Nodup ∧
    (∀ e ∈ s.edgeList, e.1 ∈ s.ids ∧ e.2 ∈ s.ids) ∧ (∀ k ∈ s.rpActive, k ∈ s.rpAvail) ∧
    (∀ k ∈ s.rpActive, ∀ r ∈ s.nodes, alook k r.other = some (g.maskVal r.time r.id)) ∧
    Adm8 false (s, none) [.enable [10] true] ∧
    (runs (s, none) [.enable [10] true]).1.seg = some g ∧
    (runs (s, none) [.enable [10] true]).1.nodes.map (fun r => (r.id, alook 10 r.other)) =
      [(1, some (.mask [15])), (2, some (.mask [2])), (3, some (.mask [4, 5, 6])),
       (4, some (.mask [8, 9])), (5, some (.mask [10])), (6, some (.mask [12, 13]))] ∧
    g.maskVal 0 1 = .mask [0, 1] := by
  decide
#print axioms C08_prim_reach_needs_labels_in_frame

/-- COUNTEREXAMPLE (false of the model without `EnPre8`): from `exP` (`InvP`, `RpOK`), switch the
    area off, erase the only pixel of node 5 (admissible: it carries the node's label), switch the
    area on again WITH recomputation.  Every primitive satisfies its precondition, all three
    commands are accepted, `InvP` still holds — but node 5, which has no pixels, still stores the
    mask `[10]` it had before: the bulk path only visits labels that occur in the array.
    (`EnPre8` fails for the `enable`: node 5 has no pixels and does not store `None`.) -/
theorem C08_counterexample_prim_stale_after_reenable :
    let cs : List Cmd := [.disable [10], .prim (.updSeg 5 [10] false), .enable [10] true]
    let s' := (runs (exP, none) cs).1
    InvP exP ∧ RpOK exP ∧
    PrimPre (runs (exP, none) (cs.take 1)).1 (.updSeg 5 [10] false) ∧
    (List.range 3).all (fun i => accepted (runs (exP, none) (cs.take i)) (cs.getD i .inv)) = true ∧
    ¬ EnPre8 (runs (exP, none) (cs.take 2)).1 [10] true ∧
    InvP s' ∧ 10 ∈ s'.rpActive ∧
    s'.seg = some ⟨4, [1, 1, 2, 0,  3, 3, 3, 0,  4, 4, 0, 0,  6, 6, 0, 9]⟩ ∧
    s'.otherOf 5 10 = .mask [10] ∧ ¬ RpOK s' := by
  refine ⟨exP_invP, exP_rpOK, by decide, by decide, by decide, ?_, by decide, by decide, by decide, ?_⟩
  · exact ⟨⟨⟨4, [1, 1, 2, 0,  3, 3, 3, 0,  4, 4, 0, 0,  6, 6, 0, 9]⟩, by decide, by decide, by decide, by decide⟩,
      by decide, by decide, by decide, by decide, by decide⟩
  · intro h
    have := h ⟨4, [1, 1, 2, 0,  3, 3, 3, 0,  4, 4, 0, 0,  6, 6, 0, 9]⟩ (by decide) 10 (by decide)
      ⟨5, 2, 5, some 1, [(10, .mask [10])]⟩
      (List.mem_of_getElem? (i := 4) (by decide))
    revert this
    decide
#print axioms C08_counterexample_prim_stale_after_reenable

/-- **C08 in the reading of the oracle** (`rp_problems`: a node whose mask is empty is not
    examined; `RpPx`: every active key of every node WITH pixels stores the mask of those pixels).
    In this reading NOTHING is asked of `enable ks true` (`Adm8px`; `enable ks false` must not
    activate a new key): `InvP ∧ RpPx` at every state reached by an admissible list — in particular
    along the command list of `C08_counterexample_prim_stale_after_reenable`. -/
theorem C08_prim_reach_pixels (s : St) (last : Option PrimRec) (cs : List Cmd)
    (hI : InvP s) (hR : RpPx s) (hA : Adm8px false (s, last) cs) (n : Nat) :
    InvP (runs (s, last) (cs.take n)).1 ∧ RpPx (runs (s, last) (cs.take n)).1 := by
  have hA' : Adm8px false (s, last) (cs.take n) :=
    AdmG.prefix (cs.take n) (cs.drop n) false (s, last) (by rw [List.take_append_drop]; exact hA)
  have := closedPx.reach (cs.take n) false (s, last) ⟨(invP_iff_str s).1 hI, hR⟩
    (fun h => by cases h) hA'
  exact ⟨(invP_iff_str _).2 this.1, this.2⟩

example : InvP exP ∧ RpPx exP ∧
    Adm8px false (exP, none) [.disable [10], .prim (.updSeg 5 [10] false), .enable [10] true] ∧
    Adm8px false (exP, none) [.disable [10], .prim (.addNode ⟨7, 3, 7, some 1, []⟩ none), .enable [10] true] ∧
    Adm8px false (exP, none) exCmds2 :=
  ⟨exP_invP, rpPx_of_rpOK exP_rpOK, by decide, by decide, by decide⟩
#print axioms C08_prim_reach_pixels

/-- WITNESS (formulation): a node WITHOUT pixels that is added while the feature is off stores
    nothing under the key; after `enable … true` it still stores nothing — "absent", which every
    reader of the model treats like `None` (`St.otherOf`), but which is not the explicit `None` that
    `RpOK` (and `rpUpdate`) writes.  This is why `EnPre8` asks for an explicit `None`. -/
theorem C08_prim_enable_absent_is_not_none :
    let cs : List Cmd := [.disable [10], .prim (.addNode ⟨7, 3, 7, some 1, []⟩ none), .enable [10] true]
    let s' := (runs (exP, none) cs).1
    PrimPre (runs (exP, none) (cs.take 1)).1 (.addNode ⟨7, 3, 7, some 1, []⟩ none) ∧
    (List.range 3).all (fun i => accepted (runs (exP, none) (cs.take i)) (cs.getD i .inv)) = true ∧
    s'.nodes.map (fun r => (r.id, alook 10 r.other)) =
      [(1, some (.mask [0, 1])), (2, some (.mask [2])), (3, some (.mask [4, 5, 6])),
       (4, some (.mask [8, 9])), (5, some (.mask [10])), (6, some (.mask [12, 13])), (7, none)] ∧
    s'.otherOf 7 10 = Val.none := by
  decide
#print axioms C08_prim_enable_absent_is_not_none

/-- WITNESS: `enable ks false` (no recomputation) of a regionprops key that is not active breaks
    `RpOK` at once — the first clause of `EnPre8`. -/
theorem C08_prim_enable_norecompute_breaks :
    let s' := (runs (exP, none) [.enable [12] false]).1
    accepted (exP, none) (.enable [12] false) = true ∧ ¬ EnPre8 exP [12] false ∧
    s'.rpActive = [10, 12] ∧ s'.nodes.map (fun r => alook 12 r.other) = [none, none, none, none, none, none] := by
  decide
#print axioms C08_prim_enable_norecompute_breaks
