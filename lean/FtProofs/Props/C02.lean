/-
  C02 — undo/redo follow a never-forgetting linear timeline.

  "For any interleaving of edits, undo() and redo(), the tracks state always equals the state
   predicted by a linear timeline of visited states: undo steps one state back, redo one state
   forward, and a new edit made after some undos keeps the undone steps on the timeline
   (appended in reverse) before adding the new state, so every state ever visited stays
   reachable by undoing far enough. undo()/redo() return False exactly when there is nothing
   to step to and then change nothing, and every top-level user action is exactly one step
   however many primitive edits it contains."

  Abstract part (`FtModel.History`, any state type `σ`, action type `α`, `inv : σ → α → σ × α`):
  the concrete system is `(Hist α, current state)` driven by `Hist.add / undoStep / redoStep`
  (`Hist.stepC`, `Hist.runC`), the specification is `Timeline.edit / undo / redo`
  (`Hist.stepA`, `Hist.runA`).  Assumptions (`Hist.Laws inv Rec E`): `E` is an equivalence,
  `Rec a s t` ("`a` records a step `s ⟶ t`") is `E`-invariant, and the inverse law
  `Rec a s t → E t' t → E (inv t' a).1 s ∧ Rec (inv t' a).2 t s` — this is exactly what C01
  provides.  A run is admissible (`Hist.ValidRun`) when every edit `edit a s'` satisfies
  `Rec a cur s'`.  `Hist.Refines` is the refinement invariant (ghost zipper, see
  `FtProofs/HistoryLemmas.lean`).

  Session part (`FtModel.Session`): `C02_one_step*` are unconditional facts about `St.step`;
  `C02_session` instantiates the abstract theorem with `σ := St`, `α := ActRec`,
  `inv := St.invTotal` under the hypothesis `St.C01Obligation Rec E` (THE C01 OBLIGATION) and the
  per-step side conditions `St.SessValid` (accepted edits produce `Rec`-records = C01 for the
  user actions; refused edits / queries leave the state `E`-unchanged = C11).
-/
import FtProofs.HistoryLemmas
open Ft Ft.Hist Ft.St

/-! ### refinement -/

/-- One call: from any pair related by the refinement invariant, the concrete call and the
    timeline call stay related and return the same Boolean. -/
theorem C02_refines_step {α σ : Type} {inv : σ → α → σ × α} {Rec : α → σ → σ → Prop}
    {E : σ → σ → Prop} (L : Laws inv Rec E) {c : Hist α × σ} {t : Timeline σ}
    (hr : Refines Rec E c t) (op : HOp α σ) (hv : OpValid Rec c op) :
    Refines Rec E (stepC inv c op).1 (stepA t op).1 ∧ (stepC inv c op).2 = (stepA t op).2 :=
  hr.step L op hv

/-- Every admissible interleaving of edits, `undo()` and `redo()` from a fresh history: all
    returned Booleans agree with the timeline's, the current state is (`E`-)equal to the timeline
    state under the cursor, `|states| = |undo_stack| + 1` and `cursor = |undo_stack| − |redo_stack|`;
    and the refinement invariant holds at the end (so the statement composes). -/
theorem C02_refines {α σ : Type} {inv : σ → α → σ × α} {Rec : α → σ → σ → Prop}
    {E : σ → σ → Prop} (L : Laws inv Rec E) (s0 : σ) (ops : List (HOp α σ))
    (hv : ValidRun Rec inv (({} : Hist α), s0) ops) :
    (runC inv (({} : Hist α), s0) ops).2 = (runA ⟨[s0], 0⟩ ops).2 ∧
    (∃ x, (runA ⟨[s0], 0⟩ ops).1.states[(runA ⟨[s0], 0⟩ ops).1.cur]? = some x ∧
          E (runC inv (({} : Hist α), s0) ops).1.2 x) ∧
    (runA ⟨[s0], 0⟩ ops).1.states.length = (runC inv (({} : Hist α), s0) ops).1.1.undo.length + 1 ∧
    (runA ⟨[s0], 0⟩ ops).1.cur + (runC inv (({} : Hist α), s0) ops).1.1.redo.length
      = (runC inv (({} : Hist α), s0) ops).1.1.undo.length ∧
    Refines Rec E (runC inv (({} : Hist α), s0) ops).1 (runA ⟨[s0], 0⟩ ops).1 := by
  obtain ⟨h1, h2⟩ := Refines.run L ops (Refines.init Rec L.refl s0) hv
  exact ⟨h2, h1.current, h1.sizes.1, h1.sizes.2, h1⟩

/-- The entries `undo()` / `redo()` invert are records of the step into / out of the current
    state, i.e. C01's law is applied exactly where it is applicable. -/
theorem C02_inverts_at_post {α σ : Type} {Rec : α → σ → σ → Prop} {E : σ → σ → Prop}
    {c : Hist α × σ} {t : Timeline σ} (hr : Refines Rec E c t) :
    (c.1.redo.length < c.1.undo.length →
      ∃ a y x, c.1.undo[c.1.undo.length - c.1.redo.length - 1]? = some a ∧ Rec a y x ∧ E c.2 x ∧
        t.states[t.cur - 1]? = some y ∧ 0 < t.cur) ∧
    (∀ r, c.1.redo.getLast? = some r →
      ∃ z x, Rec r z x ∧ E c.2 x ∧ t.states[t.cur + 1]? = some z) :=
  ⟨hr.undo_entry, hr.redo_entry⟩

/-- The abstraction function of the design: entry `i` of the undo stack is a record of the step
    from timeline state `i` to timeline state `i+1` (so `states = pre(U₀) :: map post U`). -/
theorem C02_abstraction {α σ : Type} {Rec : α → σ → σ → Prop} {E : σ → σ → Prop}
    {c : Hist α × σ} {t : Timeline σ} (hr : Refines Rec E c t) (i : Nat) (hi : i < c.1.undo.length) :
    ∃ s s', t.states[i]? = some s ∧ t.states[i + 1]? = some s' ∧ Rec c.1.undo[i] s s' :=
  hr.undo_records i hi

/-! non-vacuity: states are numbers, an action records (from, to), its inverse jumps back -/
namespace C02Ex
def inv (_ : Nat) (a : Nat × Nat) : Nat × (Nat × Nat) := (a.1, (a.2, a.1))
def Rec (a : Nat × Nat) (s t : Nat) : Prop := a = (s, t)
theorem laws : Laws inv Rec Eq :=
  ⟨fun _ => rfl, fun h => h.symm, fun h k => h.trans k,
   fun h hs ht => by subst hs; subst ht; exact h,
   fun h he => by subst he; unfold Rec at h; subst h; exact ⟨rfl, rfl⟩⟩
/-- two edits, two undos, a new edit in the middle of the timeline, undo, redo, redo(nothing) -/
def ops : List (HOp (Nat × Nat) Nat) :=
  [.edit (0, 1) 1, .edit (1, 2) 2, .undo, .undo, .undo, .edit (0, 3) 3, .undo, .redo, .redo]
theorem valid : ValidRun Rec inv (({} : Hist (Nat × Nat)), 0) ops := by
  refine ⟨rfl, rfl, trivial, trivial, trivial, rfl, trivial, trivial, trivial, trivial⟩
end C02Ex

example : (runA ⟨[0], 0⟩ C02Ex.ops).1.states = [0, 1, 2, 1, 0, 3] ∧ (runA ⟨[0], 0⟩ C02Ex.ops).1.cur = 5 ∧
    (runC C02Ex.inv (({} : Hist (Nat × Nat)), 0) C02Ex.ops).1.2 = 3 ∧
    (runC C02Ex.inv (({} : Hist (Nat × Nat)), 0) C02Ex.ops).2
      = [true, true, true, true, false, true, true, true, false] := by decide
example := C02_refines C02Ex.laws 0 C02Ex.ops C02Ex.valid
#print axioms C02_refines_step
#print axioms C02_refines
#print axioms C02_inverts_at_post
#print axioms C02_abstraction

/-! ### `False` exactly when there is nothing to step to, and then nothing changes -/

theorem C02_false_iff {α σ : Type} {inv : σ → α → σ × α} {Rec : α → σ → σ → Prop}
    {E : σ → σ → Prop} {c : Hist α × σ} {t : Timeline σ} (hr : Refines Rec E c t) :
    ((c.1.undoStep inv c.2).2.2 = false ↔ t.cur = 0) ∧
    ((c.1.undoStep inv c.2).2.2 = false → c.1.undoStep inv c.2 = (c.1, c.2, false)) ∧
    ((c.1.redoStep inv c.2).2.2 = false ↔ t.cur + 1 = t.states.length) ∧
    ((c.1.redoStep inv c.2).2.2 = false → c.1.redoStep inv c.2 = (c.1, c.2, false)) := by
  obtain ⟨h1, h2⟩ := hr.sizes
  refine ⟨?_, undoStep_false_unchanged inv c.1 c.2, ?_, redoStep_false_unchanged inv c.1 c.2⟩
  · rw [undoStep_false_iff]; omega
  · rw [redoStep_false_iff, ← List.length_eq_zero_iff]; omega

/-- the same along runs from a fresh history -/
theorem C02_false_iff_run {α σ : Type} {inv : σ → α → σ × α} {Rec : α → σ → σ → Prop}
    {E : σ → σ → Prop} (L : Laws inv Rec E) (s0 : σ) (ops : List (HOp α σ))
    (hv : ValidRun Rec inv (({} : Hist α), s0) ops) :
    ((stepC inv (runC inv (({} : Hist α), s0) ops).1 .undo).2 = false ↔ (runA ⟨[s0], 0⟩ ops).1.cur = 0) ∧
    ((stepC inv (runC inv (({} : Hist α), s0) ops).1 .undo).2 = false →
      (stepC inv (runC inv (({} : Hist α), s0) ops).1 .undo).1 = (runC inv (({} : Hist α), s0) ops).1) ∧
    ((stepC inv (runC inv (({} : Hist α), s0) ops).1 .redo).2 = false ↔
      (runA ⟨[s0], 0⟩ ops).1.cur + 1 = (runA ⟨[s0], 0⟩ ops).1.states.length) ∧
    ((stepC inv (runC inv (({} : Hist α), s0) ops).1 .redo).2 = false →
      (stepC inv (runC inv (({} : Hist α), s0) ops).1 .redo).1 = (runC inv (({} : Hist α), s0) ops).1) := by
  obtain ⟨h1, h2, h3, h4⟩ := C02_false_iff (inv := inv) (C02_refines L s0 ops hv).2.2.2.2
  refine ⟨h1, fun h => ?_, h3, fun h => ?_⟩
  · simp only [stepC] at h ⊢; rw [h2 h]
  · simp only [stepC] at h ⊢; rw [h4 h]

example : (stepC C02Ex.inv (runC C02Ex.inv (({} : Hist (Nat × Nat)), 0) C02Ex.ops).1 .redo).2 = false ∧
    (stepC C02Ex.inv (runC C02Ex.inv (({} : Hist (Nat × Nat)), 0) C02Ex.ops).1 .undo).2 = true := by decide
#print axioms C02_false_iff
#print axioms C02_false_iff_run

/-! ### nothing is ever forgotten -/

/-- prefix monotonicity: whatever is done next (edits, undos, redos — admissible or not), the
    list of visited states only grows at the end; undo/redo do not touch it -/
theorem C02_reachable_prefix {α σ : Type} (t : Timeline σ) (ops : List (HOp α σ)) :
    t.states <+: (runA t ops).1.states ∧ t.undo.1.states = t.states ∧ t.redo.1.states = t.states :=
  ⟨runA_prefix ops t, stepA_undo_states t, stepA_redo_states t⟩

/-- every state on the timeline is reached again by undoing (or redoing) far enough: state `i`
    is the current state (up to `E`) after `cur − i` undos if `i ≤ cur`, after `i − cur` redos
    otherwise.  After an edit `cur` is the last index, so undoing alone reaches everything. -/
theorem C02_reachable {α σ : Type} {inv : σ → α → σ × α} {Rec : α → σ → σ → Prop}
    {E : σ → σ → Prop} (L : Laws inv Rec E) {c : Hist α × σ} {t : Timeline σ}
    (hr : Refines Rec E c t) (i : Nat) (hi : i < t.states.length) :
    ∃ x, t.states[i]? = some x ∧
      E (runC inv c (if i ≤ t.cur then List.replicate (t.cur - i) .undo
                      else List.replicate (i - t.cur) .redo)).1.2 x :=
  hr.reach L i hi

/-- after an edit the cursor is at the end of the timeline -/
theorem C02_reachable_edit_last {σ : Type} (t : Timeline σ) (s' : σ) :
    (t.edit s').cur + 1 = (t.edit s').states.length := by
  unfold Timeline.edit; simp; omega

example : ∃ x, (runA ⟨[0], 0⟩ C02Ex.ops).1.states[2]? = some x ∧
    (runC C02Ex.inv (runC C02Ex.inv (({} : Hist (Nat × Nat)), 0) C02Ex.ops).1
      (List.replicate 3 .undo)).1.2 = x := ⟨2, by decide, by decide⟩
#print axioms C02_reachable_prefix
#print axioms C02_reachable
#print axioms C02_reachable_edit_last

/-! ### every top-level user action is exactly one step -/

/-- no user action touches the history (nor the refresh log), accepted or refused, nested or not -/
theorem C02_one_step_user (s : St) :
    (∀ e f, (s.uAddEdge e f).1.hist = s.hist) ∧ (∀ e, (s.uDeleteEdge e).1.hist = s.hist) ∧
    (∀ a, (s.uAddNode a).1.hist = s.hist) ∧ (∀ n px, (s.uDeleteNode n px).1.hist = s.hist) ∧
    (∀ a b, (s.uSwap a b).1.hist = s.hist) ∧
    (∀ v g t f, (s.uUpdateSeg v g t f).1.1.hist = s.hist) ∧
    (∀ n at_, (s.uUpdateAttrs n at_).1.hist = s.hist) :=
  ⟨fun e f => hist_of_ctl (ctl_uAddEdge s e f), fun e => hist_of_ctl (ctl_uDeleteEdge s e),
   fun a => hist_of_ctl (ctl_uAddNode s a), fun n px => hist_of_ctl (ctl_uDeleteNode s n px),
   fun a b => hist_of_ctl (ctl_uSwap s a b), fun v g t f => hist_of_ctl (ctl_uUpdateSeg s v g t f),
   fun n at_ => hist_of_ctl (ctl_uUpdateAttrs s n at_)⟩

/-- a top-level edit op is either accepted — then exactly one entry is appended after the kept
    redo entries and the redo stack is cleared (`add_new_action`) — or refused with an error, and
    then the history is unchanged -/
theorem C02_one_step (s : St) (op : Op) (he : op.isTopEdit = true) :
    ((step s op).2 = .ok ∧ ∃ recs, (step s op).1.hist.undo = s.hist.undo ++ s.hist.redo ++ [recs] ∧
        (step s op).1.hist.redo = []) ∨
    ((∃ e, (step s op).2 = .err e) ∧ (step s op).1.hist = s.hist) := by
  rcases step_edit s op he with ⟨u, recs, h1, hc⟩ | ⟨e, h1, hc⟩
  · refine .inl ⟨by rw [h1], recs, ?_, ?_⟩
    · rw [h1]; show (u.hist.add recs).undo = _; rw [add_eq, hist_of_ctl hc]
    · rw [h1]; show (u.hist.add recs).redo = _; rw [add_eq]
  · exact .inr ⟨⟨e, h1⟩, hist_of_ctl hc⟩

/-- … and that one entry is the complete flattened primitive list of the user action, however
    long it is -/
theorem C02_one_step_group (s : St) (op : Op) (he : op.isTopEdit = true) (hok : (step s op).2 = .ok) :
    ∃ r recs, userPart s op = some r ∧ r.2 = .ok recs ∧
      (step s op).1.hist = s.hist.add recs := by
  obtain ⟨r, recs, h1, h2, h3⟩ := step_edit_group s op he hok
  refine ⟨r, recs, h1, h2, ?_⟩
  rw [h3]
  show r.1.hist.add recs = _
  rw [hist_of_ctl (userPart_ctl s op r h1)]

/-! non-vacuity: two nodes in consecutive frames (with their masks); linking them is a composite
    action of two primitives (relabel the target track, add the edge) = one history entry -/
namespace C02Ex
def s : St :=
  { nodes := [{ id := 1, time := 0, tid := 1, lin := some 1 }, { id := 2, time := 1, tid := 2, lin := some 2 }],
    seg := some ⟨4, [1, 0, 0, 0, 2, 0, 0, 0]⟩,
    t2n := [(1, [1]), (2, [2])], l2n := [(1, [1]), (2, [2])], maxTid := 2, maxLin := 2 }
end C02Ex

example : (step C02Ex.s (.addEdge (1, 2) false)).2 = .ok ∧
    (step C02Ex.s (.addEdge (1, 2) false)).1.hist.undo.map List.length = [2] ∧
    (step (step C02Ex.s (.addEdge (1, 2) false)).1 .undo).2 = .bool true ∧
    ((step (step (step C02Ex.s (.addEdge (1, 2) false)).1 .undo).1 (.delNode 2)).1.hist.undo.map List.length,
     (step (step (step C02Ex.s (.addEdge (1, 2) false)).1 .undo).1 (.delNode 2)).1.hist.redo.length) = ([2, 2, 1], 0) ∧
    (step C02Ex.s (.addEdge (2, 1) false)).2 = .err .invalid ∧
    (step C02Ex.s (.addEdge (2, 1) false)).1.hist.undo.length = 0 := by decide
#print axioms C02_one_step_user
#print axioms C02_one_step
#print axioms C02_one_step_group

/-! ### the session model refines the timeline, given C01 -/

/-- `St.step` refines the timeline.  Hypotheses: `hC01` — **the C01 obligation** for the record
    relation `Rec` and the observational equivalence `E` (for `E := St.Equiv` build it with
    `St.C01Obligation.ofEquiv` from the inverse law alone); `hv` — along the run every accepted
    edit appended a `Rec`-record of the step it made (C01 for the user actions) and every other
    op except undo/redo left the state `E`-unchanged (C11 for refused edits; queries).
    Conclusion: after the run the tracks state is `E`-equal to the timeline state under the
    cursor, the stack sizes match the abstraction, every `undo`/`redo` returned the timeline's
    Boolean (in particular never raised), and the refinement invariant holds. -/
theorem C02_session {Rec : ActRec → St → St → Prop} {E : St → St → Prop}
    (hC01 : C01Obligation Rec E) (s0 : St) (h0 : s0.hist = {}) (ops : List Op)
    (hv : SessValid Rec E s0 ops) :
    (∃ x, (sessFinal s0 ⟨[s0], 0⟩ ops).2.states[(sessFinal s0 ⟨[s0], 0⟩ ops).2.cur]? = some x ∧
          E (sessFinal s0 ⟨[s0], 0⟩ ops).1 x) ∧
    (sessFinal s0 ⟨[s0], 0⟩ ops).2.states.length = (sessFinal s0 ⟨[s0], 0⟩ ops).1.hist.undo.length + 1 ∧
    (sessFinal s0 ⟨[s0], 0⟩ ops).2.cur + (sessFinal s0 ⟨[s0], 0⟩ ops).1.hist.redo.length
      = (sessFinal s0 ⟨[s0], 0⟩ ops).1.hist.undo.length ∧
    SessAgree s0 ⟨[s0], 0⟩ ops ∧
    Refines Rec E ((sessFinal s0 ⟨[s0], 0⟩ ops).1.hist, (sessFinal s0 ⟨[s0], 0⟩ ops).1)
      (sessFinal s0 ⟨[s0], 0⟩ ops).2 := by
  have hinit : Refines Rec E (s0.hist, s0) ⟨[s0], 0⟩ := by
    rw [h0]; exact Refines.init Rec hC01.refl s0
  obtain ⟨h1, h2⟩ := sess_run hC01 ops hinit hv
  exact ⟨h1.current, h1.sizes.1, h1.sizes.2, h2, h1⟩

/-- one session step, from any related pair -/
theorem C02_session_step {Rec : ActRec → St → St → Prop} {E : St → St → Prop}
    (hC01 : C01Obligation Rec E) {s : St} {t : Timeline St}
    (hr : Refines Rec E (s.hist, s) t) (op : Op) (hv : SessOpOK Rec E s op) :
    Refines Rec E ((step s op).1.hist, (step s op).1) (absStep t op (step s op)) ∧
    (op = .undo → (step s op).2 = .bool t.undo.2) ∧ (op = .redo → (step s op).2 = .bool t.redo.2) :=
  sess_step hC01 hr op hv

/-! non-vacuity (hypotheses satisfiable): the smallest honest instance of the C01 obligation —
    records of actions that recorded no primitive (an empty paint stroke) — on a real session.
    Instances for the real user actions are what C01 has to supply. -/
namespace C02Ex
def Rec0 (a : ActRec) (s t : St) : Prop := a = [] ∧ Equiv s t
theorem c01 : C01Obligation Rec0 Equiv :=
  C01Obligation.ofEquiv
    (fun h hs ht => ⟨h.1, hEquiv_trans (hEquiv_trans (hEquiv_symm hs) h.2) ht⟩)
    (fun {a s t t'} h he => by
      obtain ⟨ha, hst⟩ := h
      subst ha
      exact ⟨⟨[], rfl⟩, hEquiv_trans he (hEquiv_symm hst), rfl, hEquiv_symm hst⟩)
def sess : List Op := [.paint 0 [] 0 false, .undo, .redo, .qHasTrack 1 0, .undo, .undo]
theorem sessValid : SessValid Rec0 Equiv s sess := by
  refine ⟨.inr (.inr (.inl ⟨rfl, by decide, [], rfl, rfl, ?_⟩)), .inl rfl, .inr (.inl rfl),
    .inr (.inr (.inr ⟨fun h => (by cases h), fun h => (by cases h), fun h => (by cases h), hEquiv_refl _⟩)),
    .inl rfl, .inl rfl, trivial⟩
  exact ⟨fun _ => Iff.rfl, fun _ => Iff.rfl, rfl, fun _ _ => Iff.rfl, fun _ _ => Iff.rfl,
    ⟨rfl, rfl, rfl, rfl, rfl, rfl, rfl, rfl⟩⟩
end C02Ex

example := C02_session C02Ex.c01 C02Ex.s rfl C02Ex.sess C02Ex.sessValid
example : (sessFinal C02Ex.s ⟨[C02Ex.s], 0⟩ C02Ex.sess).2.cur = 0 ∧
    (sessFinal C02Ex.s ⟨[C02Ex.s], 0⟩ C02Ex.sess).2.states.length = 2 ∧
    (step (sessFinal C02Ex.s ⟨[C02Ex.s], 0⟩ C02Ex.sess).1 .undo).2 = .bool false := by decide
#print axioms C02_session
#print axioms C02_session_step
