import FtModel.History
theorem C02_dummy : 1 + 1 = 2 := rfl
