/-
  C06 (round 2, package R2B) — the lookups stay exact through `uAddEdge` with `force = true` and
  through `uSwap`: the two full statements left open in Props/C06.lean,

    C06_book_uAddEdge : Forest s → BookOK s → LinOK s → (s.uAddEdge e force).2 = .ok recs →
        BookOK (s.uAddEdge e force).1
    C06_book_uSwap    : Forest s → BookOK s → LinOK s → (s.uSwap a b).2 = .ok recs →
        BookOK (s.uSwap a b).1

  As `C06_counterexample_book_needs_lineage_rule` (Props/C06.lean) shows, the lineage rule is a
  genuine hypothesis.  It is used only when the lineage feature is on (`linOn = true`): then the
  invariant carried from sub-action to sub-action is `Ft.R2B.LB` (= the C05 bundle `tk_LinInv`
  together with `BookOK`; the walk of the second sub-action needs `LinOK.along` of the state the
  first one produced).  With `linOn = false` the walks never touch lineages or the lineage lookup
  and `Forest ∧ BookOK` alone is carried (`Ft.R2B.JOff`).
-/
import FtProofs.R2BLemmas
import FtProofs.Props.C06
open Ft Ft.St Ft.PC

/-- `UserAddEdge`, accepted, forced or not -/
theorem C06_book_uAddEdge (s : St) (e : Edge) (force : Bool) (recs : List PrimRec)
    (hF : Forest s) (h : BookOK s) (hL : LinOK s) (hok : (s.uAddEdge e force).2 = .ok recs) :
    BookOK (s.uAddEdge e force).1 ∧ Forest (s.uAddEdge e force).1 := by
  rcases Ft.R2B.LB_or_JOff hF h hL with hI | hI
  · have := Ft.R2B.LB_add hI hok
    exact ⟨this.book, this.lin.forest⟩
  · have := Ft.R2B.JOff_add hI hok
    exact ⟨this.book, this.forest⟩

theorem Ft.R2B.ex06_lin : LinOK C06_ex := tk_linOKB_sound (by decide)

-- forced: 3 has the parent 2; the edge (2,3) is removed (3 is a division node: it alone gets the
-- fresh track 8, its subtree the fresh lineage 5), then 3 joins track 7 and lineage 4 of node 9
example : Forest C06_ex ∧ BookOK C06_ex ∧ LinOK C06_ex ∧
    (∃ err, (C06_ex.uAddEdge (9, 3) false).2 = .error err) ∧
    ∃ recs, (C06_ex.uAddEdge (9, 3) true).2 = .ok recs ∧
      (C06_ex.uAddEdge (9, 3) true).1.t2n = [(1, [1, 2]), (2, [4]), (3, [5]), (7, [9, 3])] ∧
      (C06_ex.uAddEdge (9, 3) true).1.l2n = [(1, [1, 2]), (4, [9, 3, 4, 5])] ∧
      bookCheck (C06_ex.uAddEdge (9, 3) true).1 = true :=
  ⟨ex06_forest, ex06_book, Ft.R2B.ex06_lin, ⟨_, rfl⟩, _, rfl, by decide, by decide, by decide⟩

-- the same with the lineage feature switched off: the lineage lookup is left alone
example : Forest { C06_ex with linOn := false } ∧ BookOK { C06_ex with linOn := false } ∧
    LinOK { C06_ex with linOn := false } ∧
    ∃ recs, (({ C06_ex with linOn := false } : St).uAddEdge (9, 3) true).2 = .ok recs ∧
      (({ C06_ex with linOn := false } : St).uAddEdge (9, 3) true).1.l2n = C06_ex.l2n :=
  ⟨forest_of_check (by decide), bookOK_of_check (by decide), tk_linOKB_sound (by decide), _, rfl,
   by decide⟩
#print axioms C06_book_uAddEdge

/-- `UserSwapPredecessors`, accepted -/
theorem C06_book_uSwap (s : St) (a b : Node) (recs : List PrimRec)
    (hF : Forest s) (h : BookOK s) (hL : LinOK s) (hok : (s.uSwap a b).2 = .ok recs) :
    BookOK (s.uSwap a b).1 ∧ Forest (s.uSwap a b).1 := by
  rcases Ft.R2B.LB_or_JOff hF h hL with hI | hI
  · have := Ft.R2B.LB_swap hI hok
    exact ⟨this.book, this.lin.forest⟩
  · have := Ft.R2B.JOff_swap hI hok
    exact ⟨this.book, this.forest⟩

-- 1 → 2 → {3, 4}, 5 → 6: swap the parents of 3 and 6
example : Forest tk_exState ∧ BookOK tk_exState ∧ LinOK tk_exState ∧
    ∃ recs, (tk_exState.uSwap 3 6).2 = .ok recs ∧
      (tk_exState.uSwap 3 6).1.edgeList = [(1, 2), (2, 4), (2, 6), (5, 3)] ∧
      (tk_exState.uSwap 3 6).1.t2n = [(1, [1, 2]), (4, [5, 3]), (6, [4]), (5, [6])] ∧
      bookCheck (tk_exState.uSwap 3 6).1 = true :=
  ⟨tk_forestB_sound (by decide), bookOK_of_check (by decide), tk_linOKB_sound (by decide), _, rfl,
   by decide, by decide, by decide⟩
#print axioms C06_book_uSwap
