/-
  C05 — lineage ids label exactly the connected components.

  "In a tracking solution with lineage ids - after construction and after every accepted user
   action, undo or redo - two nodes carry the same lineage id if and only if they are connected
   (ignoring edge direction). An edit leaves the lineage id of every node unchanged whose
   connected component contains neither a node the edit names nor a node of the track it names."

  Structure: the local invariant `LinOK` (+ `Forest`) is turned into the property text by
  `C05_lin_iff_conn`; `C05_walk_*` characterise the relabel walk; `C05_step_*` show that the
  accepted user actions re-establish the invariant bundle, `C05_frame_*` the frame clause.
  Hypothesis `s.linOn = true` = "a tracking solution with lineage ids"; the bound
  `∀ n l, linOf n = some l → l ≤ maxLin` is `BookOK.l_max`.

  Not proved here (statements for the record):
    C05_step_addNode / C05_step_deleteNode / C05_step_updateSeg :
        same bundle, `(uX s args).2 = .ok recs → LinOK (uX s args).1` — the nested `uDeleteEdge`
        calls chain exactly as in `C05_step_swap`; missing are effect lemmas for `pAddNode`,
        `pDelNode`, `trackNeighbors` and the orphan loop of `uDeleteNode`.
    C05_frame_swap : ¬ Conn s n n1 → ¬ Conn s n n2 → linOf' n = linOf n  (needs `Conn` transported
        through the intermediate graphs)
    C05_assign : Forest s → LinOK (assignLineages s)  (`components` = BFS closure with fuel)
-/
import FtProofs.TrackLemmas
open Ft Ft.St

/-- equal lineage id ⇔ connected ignoring direction (from the local invariants) -/
theorem C05_lin_iff_conn {s : St} (hF : s.Forest) (hL : s.LinOK) {a b : Node}
    (ha : a ∈ s.ids) (hb : b ∈ s.ids) : s.linOf a = s.linOf b ↔ s.Conn a b :=
  tk_lin_iff_conn hF hL ha hb

example : tk_exState.Forest ∧ tk_exState.LinOK ∧ (3 : Node) ∈ tk_exState.ids ∧ (4 : Node) ∈ tk_exState.ids ∧
    tk_exState.linOf 3 = tk_exState.linOf 4 ∧ tk_exState.linOf 3 ≠ tk_exState.linOf 6 :=
  ⟨tk_forestB_sound (by decide), tk_linOKB_sound (by decide), by decide, by decide, by decide, by decide⟩
#print axioms C05_lin_iff_conn

/-- the walk visits exactly the descendants-or-self of `start`, each exactly once (the list of
    nodes it writes the lineage on is duplicate-free and its members are the `Anc s start ·`) -/
theorem C05_walk_visits_once {s : St} (hF : s.Forest) {start : Node} (hs : start ∈ s.ids)
    (oldT newT : Nat) (nl : Option Nat) :
    let visited := (walkLevels oldT newT nl true (s.nodes.length + 1)
      { s := s, flag := true, tNodes := [], lNodes := [], next := [start] }).lNodes
    visited.Nodup ∧ ∀ n, n ∈ visited ↔ s.Anc start n := by
  simp only [tk_walkLevels_lNodes]
  exact tk_bfs_walk hF hs

example : tk_exState.Forest ∧ (2 : Node) ∈ tk_exState.ids ∧
    (walkLevels 1 9 (some 7) true (tk_exState.nodes.length + 1)
      { s := tk_exState, flag := true, tNodes := [], lNodes := [], next := [2] }).lNodes = [2, 3, 4] :=
  ⟨tk_forestB_sound (by decide), by decide, by decide⟩
#print axioms C05_walk_visits_once

/-- in a forest, `walk s start _ _ _ (some l)` (lineage feature on) writes lineage `l` on exactly
    the descendants-or-self of `start`, changes no other lineage, and leaves the graph alone -/
theorem C05_walk_subtree {s : St} (hF : s.Forest) {start : Node} (hs : start ∈ s.ids)
    (hon : s.linOn = true) (oldT newT : Nat) (oldL : Option Nat) (l : Nat) :
    let s' := s.walk start oldT newT oldL (some l)
    (∀ n, s.Anc start n → s'.linOf n = some l) ∧
    (∀ n, ¬ s.Anc start n → s'.linOf n = s.linOf n) ∧
    s'.ids = s.ids ∧ s'.edges = s.edges ∧ (∀ n, s'.timeOf n = s.timeOf n) := by
  have h := tk_walk_lin hF hs hon oldT newT oldL l
  have g := tk_walk_sameG s start oldT newT oldL (some l)
  exact ⟨h.1, h.2.1, g.ids, g.edges, g.time⟩

example : tk_exState.Forest ∧ (2 : Node) ∈ tk_exState.ids ∧ tk_exState.linOn = true ∧
    (tk_exState.walk 2 1 9 (some 1) (some 7)).linOf 4 = some 7 ∧
    (tk_exState.walk 2 1 9 (some 1) (some 7)).linOf 1 = some 1 :=
  ⟨tk_forestB_sound (by decide), by decide, rfl, by decide, by decide⟩
#print axioms C05_walk_subtree

/-- accepted `uDeleteEdge` re-establishes the invariant bundle (forest, `LinOK`, lineage maximum
    bounds every lineage in use — the part of `BookOK` that makes `nextLin` fresh) -/
theorem C05_step_deleteEdge {s : St} (hF : s.Forest) (hL : s.LinOK) (hon : s.linOn = true)
    (hmax : ∀ n l, s.linOf n = some l → l ≤ s.maxLin) {e : Edge} {recs}
    (hok : (s.uDeleteEdge e).2 = .ok recs) :
    let s' := (s.uDeleteEdge e).1
    s'.LinOK ∧ s'.Forest ∧ s'.linOn = true ∧ (∀ n l, s'.linOf n = some l → l ≤ s'.maxLin) := by
  have h := (tk_uDeleteEdge_linInv ⟨hF, hL, hon, hmax⟩ hok).1
  exact ⟨h.linOK, h.forest, h.on, h.max⟩

-- both branches: a non-division edge (1,2) and a division edge (2,3)
example : tk_exState.tk_LinInv ∧ (∃ recs, (tk_exState.uDeleteEdge (1, 2)).2 = .ok recs) ∧
    (∃ recs, (tk_exState.uDeleteEdge (2, 3)).2 = .ok recs) ∧
    (tk_exState.uDeleteEdge (2, 3)).1.linOf 3 = some 3 :=
  ⟨tk_linInv_of_check (by decide) (by decide) rfl (by decide), ⟨_, rfl⟩, ⟨_, rfl⟩, by decide⟩
#print axioms C05_step_deleteEdge

/-- frame clause for `uDeleteEdge`: a node not connected to the edge's target keeps its lineage -/
theorem C05_frame_deleteEdge {s : St} (hF : s.Forest) (hL : s.LinOK) (hon : s.linOn = true)
    (hmax : ∀ n l, s.linOf n = some l → l ≤ s.maxLin) {e : Edge} {recs}
    (hok : (s.uDeleteEdge e).2 = .ok recs) (n : Node) (hn : ¬ s.Conn n e.2) :
    (s.uDeleteEdge e).1.linOf n = s.linOf n := by
  have h := tk_uDeleteEdge_eff ⟨hF, hL, hon, hmax⟩ hok
  apply h.lin_out
  intro hanc
  exact hn ((hanc.conn (hF.dst_mem _ h.mem)).symm hF)

example : ¬ tk_exState.Conn 5 3 := by
  intro h
  have := (C05_lin_iff_conn (tk_forestB_sound (by decide)) (tk_linOKB_sound (by decide))
    (by decide) (by decide)).2 h
  revert this; decide
#print axioms C05_frame_deleteEdge

/-- accepted `uAddEdge` (forced or not) re-establishes the invariant bundle -/
theorem C05_step_addEdge {s : St} (hF : s.Forest) (hL : s.LinOK) (hon : s.linOn = true)
    (hmax : ∀ n l, s.linOf n = some l → l ≤ s.maxLin) {e : Edge} {force : Bool} {recs}
    (hok : (s.uAddEdge e force).2 = .ok recs) :
    let s' := (s.uAddEdge e force).1
    s'.LinOK ∧ s'.Forest ∧ s'.linOn = true ∧ (∀ n l, s'.linOf n = some l → l ≤ s'.maxLin) := by
  have h := (tk_uAddEdge_linInv ⟨hF, hL, hon, hmax⟩ hok).1
  exact ⟨h.linOK, h.forest, h.on, h.max⟩

-- forced (6 has parent 5; 4 is a leaf), creating a division (source 1 has one child), plain
example : tk_exState.tk_LinInv ∧ (∃ recs, (tk_exState.uAddEdge (4, 6) true).2 = .ok recs) ∧
    (∃ recs, (tk_exState.uAddEdge (1, 5) false).2 = .error recs) ∧
    (∃ recs, ((tk_exState.uDeleteEdge (5, 6)).1.uAddEdge (1, 6) false).2 = .ok recs) ∧
    (tk_exState.uAddEdge (4, 6) true).1.linOf 6 = some 1 ∧
    (tk_exState.uAddEdge (4, 6) true).1.linOf 5 = some 2 :=
  ⟨tk_linInv_of_check (by decide) (by decide) rfl (by decide), ⟨_, rfl⟩, ⟨_, rfl⟩, ⟨_, rfl⟩,
   by decide, by decide⟩
#print axioms C05_step_addEdge

/-- frame clause for `uAddEdge`: a node not connected to the edge's target keeps its lineage -/
theorem C05_frame_addEdge {s : St} (hF : s.Forest) (hL : s.LinOK) (hon : s.linOn = true)
    (hmax : ∀ n l, s.linOf n = some l → l ≤ s.maxLin) {e : Edge} {force : Bool} {recs}
    (hok : (s.uAddEdge e force).2 = .ok recs) (n : Node) (hn : ¬ s.Conn n e.2) :
    (s.uAddEdge e force).1.linOf n = s.linOf n := by
  have h := (tk_uAddEdge_linInv ⟨hF, hL, hon, hmax⟩ hok).2
  apply h
  intro hanc
  exact hn ((hanc.conn (tk_uAddEdge_ok_nodes hok).2.1).symm hF)
#print axioms C05_frame_addEdge

/-- accepted `uSwap` (two `uDeleteEdge`, two `uAddEdge`) re-establishes the invariant bundle: the
    bundle chains through nested user actions -/
theorem C05_step_swap {s : St} (hF : s.Forest) (hL : s.LinOK) (hon : s.linOn = true)
    (hmax : ∀ n l, s.linOf n = some l → l ≤ s.maxLin) {n1 n2 : Node} {recs}
    (hok : (s.uSwap n1 n2).2 = .ok recs) :
    let s' := (s.uSwap n1 n2).1
    s'.LinOK ∧ s'.Forest ∧ s'.linOn = true ∧ (∀ n l, s'.linOf n = some l → l ≤ s'.maxLin) := by
  have h := tk_uSwap_linInv ⟨hF, hL, hon, hmax⟩ hok
  exact ⟨h.linOK, h.forest, h.on, h.max⟩

example : tk_exState.tk_LinInv ∧ (∃ recs, (tk_exState.uSwap 3 6).2 = .ok recs) ∧
    (tk_exState.uSwap 3 6).1.linOf 6 = some 1 ∧ (tk_exState.uSwap 3 6).1.linOf 3 = (tk_exState.uSwap 3 6).1.linOf 5 :=
  ⟨tk_linInv_of_check (by decide) (by decide) rfl (by decide), ⟨_, rfl⟩, by decide, by decide⟩
#print axioms C05_step_swap
