/-
  C14 (package R8V) — **the id validators of the importer accept the ids of every reached state.**

  C14: "Writing any reachable tracks - also after an editing session - to CSV, GEFF or the internal
  save format and reading it back with the corresponding key mapping yields the same nodes, edges,
  times, positions and track ids …".

  On import, funtracks' `validate_in_memory_geff` runs geff's `validate_tracklets` /
  `validate_lineages` on the loaded `track_id` / `lineage_id` column; a verdict "invalid" makes the
  importer warn, DROP the column and recompute the ids.  The round-trip theorems so far took the
  verdicts as trusted flags (`tv lv : Bool` of `ExportDisplay.decodeCsvDisplay`; the default-layout
  `decodeCsv` and `decodeGeff` simply return the ids as written, i.e. assume "valid").
  `FtModel/IdValidate.lean` models the two validators as total computable functions (validated
  against the real functions on 11 100 random small graphs: forests with right and perturbed ids,
  DAGs with merges, cyclic graphs, self-loops, repeated edges, repeated node ids, edges between
  unknown nodes — no difference).  Here:

  * `C14_reached_tracklets_validate`  forest + `TidOK` ⇒ `validateTracklets … = true`
  * `C14_reached_lineages_validate`   forest + `LinOK` ⇒ `validateLineages … = true`
        (both for ANY listing `es` of the state's edges — any order, any multiplicity: the CSV
         importer rebuilds the edge list from the parent column, in child order)
  * `C14_inv_ids_validate`            the same from the bundle invariant `R3D.Inv`
  * `C14_reached_ids_validate`        composed with `C03_reach`: the table of every state reached by
        an admissible session (exactly the hypotheses of `C03_reach`)
  * `C14_reached_roundtrip_keeps_ids` the instance `tv = true`, `lv = true` of `C14_csv_display` on the
        table of a reached state, with its hypotheses `WF` / `EdgesIn` / `NoSelf` discharged
        (`C14_export_wf_of_inv`) and the two flags JUSTIFIED: the validators, run on the re-imported
        nodes, edges and id columns, answer `true` — so the importer keeps the columns and the ids
        come back as written
  * `C14_reached_roundtrip_keeps_ids_csv` / `_geff`   the same for `C14_after_session_csv` /
        `C14_after_session_geff` (whose decoders have no flag: they return the ids as written, which
        is what the real importer does exactly when the validators accept)
  * model facts: `C14_validator_tracklets_spec` / `C14_validator_lineages_spec` (what the two verdicts
        mean on ANY graph and column, in declarative terms: paths, ranks, degrees),
        `C14_validator_start_end_determined`, `C14_validator_acyclic_spec`, `C14_validator_reach_spec`
  * witnesses: `C14_validator_accepts_all_singletons`, `C14_validator_accepts_id_through_division`
        (acceptance does not imply `TidOK`),
        `C14_validator_rejects_shared_id` (two segments sharing an id), `C14_validator_rejects_merged_lineages`,
        `C14_validator_rejects_subset_export` (the ancestor closure of a selection that keeps one child of
        a division: the case `tv = false` of `C15_csv_display_subset`) — all five replayed on the real
        geff functions.
-/
import FtProofs.R8VLemmas
import FtProofs.Props.C14_R5A
import FtProofs.Props.C14_R6H
open Ft Ft.R3D Ft.R5A Ft.Export Ft.ExportDisplay Ft.R6H Ft.IdValidate Ft.R8V
open C14R5AEx

/-! ## one state -/

/-- **`validate_tracklets` accepts the track ids of every valid solution.**  For a state whose graph
    is a forward-in-time forest with duplicate-free node ids (`Forest`) and whose track ids are exact
    (`TidOK`: same id ⇔ same unbranched segment, `C04_*`): geff's `validate_tracklets`, run on the
    node ids in graph order, ANY listing `es` of the edges (any order, any multiplicity) and the
    `track_id` column, answers "valid". -/
theorem C14_reached_tracklets_validate (s : St) (hF : s.Forest) (hT : s.TidOK) (es : List (Nat × Nat))
    (hes : ∀ e, e ∈ es ↔ e ∈ s.edgeList) :
    validateTracklets s.ids es (s.nodes.map (·.tid)) = true :=
  validateTracklets_of_forest hF hT hes
-- `X6`: 1@0 → 2@1 → {3@2, 4@2}, 5 and 6 isolated; tracklet 1 = {1, 2} ends at the division.  Rejected
-- labellings: 5 and 6 share an id; the siblings 3 and 4 share an id; 1 and 2 carry different ids.
example : X6.Forest ∧ X6.TidOK ∧ X6.ids = [1, 2, 3, 4, 5, 6] ∧ X6.edgeList = [(1, 2), (2, 3), (2, 4)] ∧
    X6.nodes.map (·.tid) = [1, 1, 2, 3, 4, 5] ∧
    validateTracklets X6.ids X6.edgeList (X6.nodes.map (·.tid)) = true ∧
    validateTracklets X6.ids [(2, 4), (1, 2), (2, 3), (1, 2)] (X6.nodes.map (·.tid)) = true ∧
    validateTracklets X6.ids X6.edgeList [1, 1, 2, 3, 4, 4] = false ∧
    validateTracklets X6.ids X6.edgeList [1, 1, 2, 2, 4, 5] = false ∧
    validateTracklets X6.ids X6.edgeList [1, 1, 2, 3, 2, 5] = false :=
  ⟨X6_inv.valid.forest, X6_inv.valid.tid, by decide, by decide, by decide,
   C14_reached_tracklets_validate X6 X6_inv.valid.forest X6_inv.valid.tid _ (fun _ => Iff.rfl),
   C14_reached_tracklets_validate X6 X6_inv.valid.forest X6_inv.valid.tid _ (sameEdges_iff (by decide)),
   by decide, by decide, by decide⟩
#print axioms C14_reached_tracklets_validate

/-- **`validate_lineages` accepts the lineage ids of every valid solution.**  Forest with exact
    lineage ids (`LinOK`: same id ⇔ same weakly connected component, `C05_*`; every node has one):
    geff's `validate_lineages` on the node ids, any listing of the edges and the `lineage_id` column
    (as `R5A.toExport` writes it) answers "valid". -/
theorem C14_reached_lineages_validate (s : St) (hF : s.Forest) (hL : s.LinOK) (es : List (Nat × Nat))
    (hes : ∀ e, e ∈ es ↔ e ∈ s.edgeList) :
    validateLineages s.ids es (s.nodes.map (fun r => r.lin.getD 0)) = true :=
  validateLineages_of_forest hF hL hes
example : X6.LinOK ∧ X6.nodes.map (fun r => r.lin.getD 0) = [1, 1, 1, 1, 2, 3] ∧
    validateLineages X6.ids X6.edgeList (X6.nodes.map (fun r => r.lin.getD 0)) = true ∧
    validateLineages X6.ids X6.edgeList [1, 1, 1, 4, 2, 3] = false ∧
    validateLineages X6.ids X6.edgeList [1, 1, 1, 1, 2, 2] = false :=
  ⟨X6_inv.valid.lin, by decide,
   C14_reached_lineages_validate X6 X6_inv.valid.forest X6_inv.valid.lin _ (fun _ => Iff.rfl),
   by decide, by decide⟩
#print axioms C14_reached_lineages_validate

/-- both validators on a state with the bundle invariant of the whole-history theorems -/
theorem C14_inv_ids_validate (s : St) (hI : Inv s) :
    validateTracklets s.ids s.edgeList (s.nodes.map (·.tid)) = true ∧
    validateLineages s.ids s.edgeList (s.nodes.map (fun r => r.lin.getD 0)) = true :=
  ⟨C14_reached_tracklets_validate s hI.valid.forest hI.valid.tid _ (fun _ => Iff.rfl),
   C14_reached_lineages_validate s hI.valid.forest hI.valid.lin _ (fun _ => Iff.rfl)⟩
-- the array state `XP` (1@0 → {2@1, 3@1}, 2 → 4@3 a skip edge, 5@2 isolated)
example : XP.edgeList = [(1, 2), (1, 3), (2, 4)] ∧ XP.nodes.map (·.tid) = [1, 2, 3, 2, 4] ∧
    validateTracklets XP.ids XP.edgeList (XP.nodes.map (·.tid)) = true ∧
    validateLineages XP.ids XP.edgeList (XP.nodes.map (fun r => r.lin.getD 0)) = true :=
  ⟨by decide, by decide, (C14_inv_ids_validate XP XP_inv).1, (C14_inv_ids_validate XP XP_inv).2⟩
#print axioms C14_inv_ids_validate

/-! ## every reached state -/

/-- **the ids of every state an editing session can reach pass both validators** — exactly the
    hypotheses of `C03_reach` (`Inv` start state, empty history, admissible operation list).  `T` is
    the table the exporters see; `es` is any permutation of its edges (the importers rebuild the edge
    list in their own order). -/
theorem C14_reached_ids_validate (enc : Ft.Val → Nat) (ndim : Nat) (scale : Option (List Nat))
    (s0 : St) (h0 : s0.hist = {}) (hI : Inv s0) (ops : List Op) (hs : SessOK s0 ops)
    (T : Tracks) (hT : T = toExport enc ndim scale (reached s0 ops))
    (es : List (Nat × Nat)) (hes : es.Perm (edgePairs T)) :
    validateTracklets (Export.ids T) es (T.nodes.map Export.NodeRec.tid) = true ∧
    validateLineages (Export.ids T) es (T.nodes.map Export.NodeRec.lin) = true ∧
    Export.ids T = (reached s0 ops).ids ∧
    T.nodes.map Export.NodeRec.tid = (reached s0 ops).nodes.map (·.tid) ∧
    T.nodes.map Export.NodeRec.lin = (reached s0 ops).nodes.map (fun r => r.lin.getD 0) := by
  obtain ⟨-, -, -, hF, hTid, hL, -⟩ := C03_reach s0 h0 hI ops hs
  subst hT
  have e1 : Export.ids (toExport enc ndim scale (reached s0 ops)) = (reached s0 ops).ids :=
    ids_toExportP _
  have e2 : (toExport enc ndim scale (reached s0 ops)).nodes.map Export.NodeRec.tid =
      (reached s0 ops).nodes.map (·.tid) := by
    show ((reached s0 ops).nodes.map _).map _ = _
    rw [List.map_map]; rfl
  have e3 : (toExport enc ndim scale (reached s0 ops)).nodes.map Export.NodeRec.lin =
      (reached s0 ops).nodes.map (fun r => r.lin.getD 0) := by
    show ((reached s0 ops).nodes.map _).map _ = _
    rw [List.map_map]; rfl
  have hes' : ∀ e, e ∈ es ↔ e ∈ (reached s0 ops).edgeList := by
    intro e
    rw [hes.mem_iff]
    show e ∈ edgePairs (toExportP _ enc ndim scale (reached s0 ops)) ↔ _
    rw [edgePairs_toExportP]
  rw [e1, e2, e3]
  exact ⟨C14_reached_tracklets_validate _ hF hTid es hes', C14_reached_lineages_validate _ hF hL es hes',
    rfl, rfl, rfl⟩
-- `T6`: the table of `X6` after `[addEdge (4, 6), delNode 2, undo]`; track 3 = {4, 6}, track 1 = {1, 2}
example : Export.ids T6 = [1, 3, 4, 5, 6, 2] ∧ edgePairs T6 = [(4, 6), (2, 4), (2, 3), (1, 2)] ∧
    T6.nodes.map Export.NodeRec.tid = [1, 2, 3, 4, 3, 1] ∧ T6.nodes.map Export.NodeRec.lin = [1, 1, 1, 2, 1, 1] ∧
    validateTracklets (Export.ids T6) [(2, 3), (2, 4), (4, 6), (1, 2)] (T6.nodes.map Export.NodeRec.tid) = true ∧
    validateLineages (Export.ids T6) [(2, 3), (2, 4), (4, 6), (1, 2)] (T6.nodes.map Export.NodeRec.lin) = true := by
  obtain ⟨h1, h2, -⟩ := C14_reached_ids_validate encEx 3 none X6 rfl X6_inv sess6 sess6_ok T6 T6_eq.symm
    [(2, 3), (2, 4), (4, 6), (1, 2)] (by decide)
  exact ⟨by decide, by decide, by decide, by decide, h1, h2⟩
#print axioms C14_reached_ids_validate

/-! ## the round trips keep the ids -/

/-- id, track id and lineage id of a re-imported node of the display-name layout -/
def idsOfD (d : DNode) : Nat × Option Nat × Option Nat := (d.id, d.tid, d.lin)

/-- **display-name CSV round trip of every reached state: `tv = true`, `lv = true` are no longer
    assumptions.**  Instantiates `C14_csv_display` at `tv = lv = true` on the table `T` of the state
    reached by an admissible session (hypotheses of `C03_reach`, `PosSrc` and one position key per
    axis as in `C14_after_session_csv`; `WF` / `EdgesIn` / `NoSelf` of `C14_csv_display` are derived;
    its hypotheses on the registry description `feats` — the layout of the file — remain).
    The export does not raise, the re-import succeeds, every node agrees with the original, the
    edges come back up to order, AND the two flags are the verdicts of the validators on the loaded
    data: when the registry has a track-id (lineage-id) feature, `validate_tracklets`
    (`validate_lineages`) run on the re-imported node ids, the re-imported edges and the loaded
    column answers `true`, so the importer keeps the column and every node comes back with the
    track id (lineage id) it had in the reached state. -/
theorem C14_reached_roundtrip_keeps_ids (enc : Ft.Val → Nat) (ndim : Nat) (scale : Option (List Nat))
    (feats : List FeatDesc)
    (s0 : St) (h0 : s0.hist = {}) (hI : Inv s0) (hP : PosSrc s0) (hd : s0.posKeys.length = ndim - 1)
    (ops : List Op) (hs : SessOK s0 ops) (T : Tracks) (hT : T = toExport enc ndim scale (reached s0 ops))
    (hnax : 2 ≤ nax T) (hR : RegOK (nax T) feats T.nodes) (hok : ∀ n ∈ T.nodes, NodeOK feats n)
    (ht : ∃ f ∈ feats, f.role = Role.time)
    (hp : PosFeat (nax T) feats ∨ AxisFeats (nax T) feats) :
    exportOk T feats none = true ∧
    ∃ t, decodeCsvDisplay true true (nameMapOf (nax T) feats T.nodes) (encodeCsvDisplay T feats none) = some t ∧
      Pointwise (Agrees feats true true) T.nodes t.nodes ∧ t.edges.Perm (edgePairs T) ∧
      t.nodes.map DNode.id = (reached s0 ops).ids ∧ t.edges.Perm (reached s0 ops).edgeList ∧
      ((∃ f ∈ feats, f.role = Role.tid) →
        t.nodes.map DNode.tid = (reached s0 ops).nodes.map (fun r => some r.tid) ∧
        validateTracklets (t.nodes.map DNode.id) t.edges (t.nodes.map (fun d => d.tid.getD 0)) = true) ∧
      ((∃ f ∈ feats, f.role = Role.lin) →
        t.nodes.map DNode.lin = (reached s0 ops).nodes.map (·.lin) ∧
        validateLineages (t.nodes.map DNode.id) t.edges (t.nodes.map (fun d => d.lin.getD 0)) = true) := by
  obtain ⟨hIr, -, hV, -⟩ := reached_facts s0 h0 hI hP ops hs
  have hk := reached_posKeys s0 h0 hI ops hs
  obtain ⟨hw, hti, hei⟩ := C14_export_wf_of_inv enc ndim scale _ hIr hV (hk ▸ hd)
  obtain ⟨-, -, i1, -, -⟩ := C14_reached_ids_validate enc ndim scale s0 h0 hI ops hs T hT _ (List.Perm.refl _)
  subst hT
  obtain ⟨hx, t, hdec, hA, hE⟩ := C14_csv_display (toExport enc ndim scale (reached s0 ops)) feats true true
    hw hei (NoSelf.of_timeInc hti) hnax hR hok ht hp
  have hE' : t.edges.Perm (reached s0 ops).edgeList := by
    rw [← edgePairs_toExportP (encP := fun v => [enc v]) (enc := enc) (ndim := ndim) (scale := scale)]
    exact hE
  -- the id columns of the re-imported nodes
  have hid : ∀ (ns : List Export.NodeRec) (ds : List DNode), Pointwise (Agrees feats true true) ns ds →
      ds.map DNode.id = ns.map Export.NodeRec.id := by
    intro ns ds h
    induction h with
    | nil => rfl
    | cons hab _ ih => simp [hab.id, ih]
  have htid : (∃ f ∈ feats, f.role = Role.tid) → ∀ (ns : List Export.NodeRec) (ds : List DNode),
      Pointwise (Agrees feats true true) ns ds → ds.map DNode.tid = ns.map (fun n => some n.tid) := by
    intro hf ns ds h
    induction h with
    | nil => rfl
    | cons hab _ ih => simp [hab.tid hf rfl, ih]
  have hlin : (∃ f ∈ feats, f.role = Role.lin) → ∀ (ns : List Export.NodeRec) (ds : List DNode),
      Pointwise (Agrees feats true true) ns ds → ds.map DNode.lin = ns.map (fun n => some n.lin) := by
    intro hf ns ds h
    induction h with
    | nil => rfl
    | cons hab _ ih => simp [hab.lin hf rfl, ih]
  have hids : t.nodes.map DNode.id = Export.ids (toExport enc ndim scale (reached s0 ops)) := hid _ _ hA
  refine ⟨hx, t, hdec, hA, hE, hids.trans i1, hE', fun hf => ?_, fun hf => ?_⟩
  · have hc := htid hf _ _ hA
    have hcol : t.nodes.map (fun d => d.tid.getD 0) =
        (toExport enc ndim scale (reached s0 ops)).nodes.map Export.NodeRec.tid := by
      have := congrArg (List.map (fun o : Option Nat => o.getD 0)) hc
      simpa [List.map_map, Function.comp_def] using this
    refine ⟨?_, ?_⟩
    · rw [hc]
      show ((reached s0 ops).nodes.map _).map _ = _
      rw [List.map_map]; rfl
    · rw [hids, hcol]
      exact (C14_reached_ids_validate enc ndim scale s0 h0 hI ops hs _ rfl t.edges hE).1
  · have hc := hlin hf _ _ hA
    have hcol : t.nodes.map (fun d => d.lin.getD 0) =
        (toExport enc ndim scale (reached s0 ops)).nodes.map Export.NodeRec.lin := by
      have := congrArg (List.map (fun o : Option Nat => o.getD 0)) hc
      simpa [List.map_map, Function.comp_def] using this
    refine ⟨?_, ?_⟩
    · rw [hc]
      show ((reached s0 ops).nodes.map _).map _ = _
      rw [List.map_map]
      apply List.map_congr_left
      intro r hr
      exact (lin_some hIr hr).symm
    · rw [hids, hcol]
      exact (C14_reached_ids_validate enc ndim scale s0 h0 hI ops hs _ rfl t.edges hE).2.1

namespace C14R8VEx

/-- registry description of `T6` (2D+t, per-axis position keys 7 = y, 8 = x, free feature 9) -/
def feats6 : List FeatDesc :=
  [⟨0, "time", .time, .one "Time"⟩, ⟨7, "y", .axis 0, .one "y"⟩, ⟨8, "x", .axis 1, .one "x"⟩,
   ⟨1, "track_id", .tid, .one "Tracklet ID"⟩, ⟨2, "lineage_id", .lin, .one "Lineage ID"⟩,
   ⟨9, "score", .other, .one "Score"⟩]

end C14R8VEx
open C14R8VEx

-- the reached table `T6` through the display-name layout: the ids come back, the validators accept
example : (decodeCsvDisplay true true (nameMapOf (nax T6) feats6 T6.nodes) (encodeCsvDisplay T6 feats6 none)).map
      (fun t => (t.nodes.map idsOfD, t.edges)) =
      some ([(1, some 1, some 1), (3, some 2, some 1), (4, some 3, some 1), (5, some 4, some 2),
             (6, some 3, some 1), (2, some 1, some 1)], [(2, 3), (2, 4), (4, 6), (1, 2)]) ∧
    ∃ t, decodeCsvDisplay true true (nameMapOf (nax T6) feats6 T6.nodes) (encodeCsvDisplay T6 feats6 none) = some t ∧
      validateTracklets (t.nodes.map DNode.id) t.edges (t.nodes.map (fun d => d.tid.getD 0)) = true ∧
      validateLineages (t.nodes.map DNode.id) t.edges (t.nodes.map (fun d => d.lin.getD 0)) = true := by
  obtain ⟨_, t, h1, _, _, _, _, h6, h7⟩ :=
    C14_reached_roundtrip_keeps_ids encEx 3 none feats6 X6 rfl X6_inv (by decide) rfl sess6 sess6_ok T6
      T6_eq.symm (by decide) (by decide) (by decide) (by decide) (Or.inr (by decide))
  exact ⟨by decide, t, h1, (h6 (by decide)).2, (h7 (by decide)).2⟩
#print axioms C14_reached_roundtrip_keeps_ids

/-- **default-layout CSV round trip of every reached state** (`C14_after_session_csv`; `decodeCsv` has
    no flag — it returns the track ids as written, which the real importer does exactly when
    `validate_tracklets` accepts): the validator, run on the re-imported node ids, the re-imported
    links (rebuilt from the parent column) and the re-imported track ids, answers `true`. -/
theorem C14_reached_roundtrip_keeps_ids_csv (enc : Ft.Val → Nat) (ndim : Nat) (scale : Option (List Nat))
    (s0 : St) (h0 : s0.hist = {}) (hI : Inv s0) (hP : PosSrc s0) (hd : s0.posKeys.length = ndim - 1)
    (ops : List Op) (hs : SessOK s0 ops) (T : Tracks) (hT : T = toExport enc ndim scale (reached s0 ops)) :
    ∃ t : CsvTracks, decodeCsv (nax T) (encodeCsv T none) = some t ∧
      t.nodes.map (fun n => (n.id, n.time, n.tid)) =
        (reached s0 ops).nodes.map (fun r => (r.id, r.time, r.tid)) ∧
      t.edges.Perm (reached s0 ops).edgeList ∧
      validateTracklets (t.nodes.map CsvNode.id) t.edges (t.nodes.map CsvNode.tid) = true := by
  obtain ⟨t, h1, h2, h3, h4, -, h6⟩ := C14_after_session_csv enc ndim scale s0 h0 hI hP hd ops hs T hT
  refine ⟨t, h1, h4, h6, ?_⟩
  have e1 : t.nodes.map CsvNode.id = Export.ids T := by
    rw [h2, List.map_map]; rfl
  have e2 : t.nodes.map CsvNode.tid = T.nodes.map Export.NodeRec.tid := by
    rw [h2, List.map_map]; rfl
  rw [e1, e2]
  exact (C14_reached_ids_validate enc ndim scale s0 h0 hI ops hs T hT t.edges h3).1
example : (decodeCsv (nax T6) (encodeCsv T6 none)).map (fun t => (t.nodes.map CsvNode.tid, t.edges)) =
      some ([1, 2, 3, 4, 3, 1], [(2, 3), (2, 4), (4, 6), (1, 2)]) ∧
    ∃ t, decodeCsv (nax T6) (encodeCsv T6 none) = some t ∧
      validateTracklets (t.nodes.map CsvNode.id) t.edges (t.nodes.map CsvNode.tid) = true := by
  obtain ⟨t, h1, _, _, h4⟩ :=
    C14_reached_roundtrip_keeps_ids_csv encEx 3 none X6 rfl X6_inv (by decide) rfl sess6 sess6_ok T6 T6_eq.symm
  exact ⟨by decide, t, h1, h4⟩
#print axioms C14_reached_roundtrip_keeps_ids_csv

/-- **GEFF round trip of every reached state** (`C14_after_session_geff`; `decodeGeff` returns track
    and lineage ids as written): both validators accept the re-imported nodes, edges and id columns. -/
theorem C14_reached_roundtrip_keeps_ids_geff (enc : Ft.Val → Nat) (ndim : Nat) (scale : Option (List Nat))
    (one : Nat) (ks eks : List Nat)
    (s0 : St) (h0 : s0.hist = {}) (hI : Inv s0) (hP : PosSrc s0) (hd : s0.posKeys.length = ndim - 1)
    (ops : List Op) (hs : SessOK s0 ops) (T : Tracks) (hT : T = toExport enc ndim scale (reached s0 ops)) :
    decodeGeff (nax T) ks eks (encodeGeff one T none) =
      some ⟨T.nodes.map (restrictN ks), T.edges.map (restrictE eks), T.seg⟩ ∧
    validateTracklets ((T.nodes.map (restrictN ks)).map Export.NodeRec.id)
      ((T.edges.map (restrictE eks)).map endpoints) ((T.nodes.map (restrictN ks)).map Export.NodeRec.tid) = true ∧
    validateLineages ((T.nodes.map (restrictN ks)).map Export.NodeRec.id)
      ((T.edges.map (restrictE eks)).map endpoints) ((T.nodes.map (restrictN ks)).map Export.NodeRec.lin) = true := by
  obtain ⟨h1, -, -, -⟩ := C14_after_session_geff enc ndim scale one ks eks s0 h0 hI hP hd ops hs T hT
  have e1 : (T.nodes.map (restrictN ks)).map Export.NodeRec.id = Export.ids T := by rw [List.map_map]; rfl
  have e2 : (T.nodes.map (restrictN ks)).map Export.NodeRec.tid = T.nodes.map Export.NodeRec.tid := by
    rw [List.map_map]; rfl
  have e3 : (T.nodes.map (restrictN ks)).map Export.NodeRec.lin = T.nodes.map Export.NodeRec.lin := by
    rw [List.map_map]; rfl
  have e4 : (T.edges.map (restrictE eks)).map endpoints = edgePairs T := by rw [List.map_map]; rfl
  rw [e1, e2, e3, e4]
  obtain ⟨v1, v2, -⟩ := C14_reached_ids_validate enc ndim scale s0 h0 hI ops hs T hT _ (List.Perm.refl _)
  exact ⟨h1, v1, v2⟩
example : validateTracklets ((TP.nodes.map (restrictN [7])).map Export.NodeRec.id)
      ((TP.edges.map (restrictE [11])).map endpoints) ((TP.nodes.map (restrictN [7])).map Export.NodeRec.tid) = true ∧
    (TP.nodes.map (restrictN [7])).map Export.NodeRec.tid = [1, 2, 1, 2, 4] ∧
    (TP.edges.map (restrictE [11])).map endpoints = [(1, 3), (2, 4)] :=
  ⟨(C14_reached_roundtrip_keeps_ids_geff encEx 2 (some [1, 1]) 1 [7] [11] XP rfl XP_inv (by decide) rfl sessP
      sessP_ok TP TP_eq.symm).2.1, by decide, by decide⟩
#print axioms C14_reached_roundtrip_keeps_ids_geff

/-! ## what the computable checks mean -/

/-- **start and end node of a tracklet are determined.**  After the degree, cycle and connectivity
    checks of `validate_tracklets` on a non-empty node set `S`: `next(n for n, d in S.in_degree if
    d == 0)` and `next(… S.out_degree …)` find a node (no `StopIteration`), and it is THE ONLY node of
    `S` without predecessor (successor) in `S` — the iteration order of networkx' subgraph view (a
    Python set) cannot influence the verdict. -/
theorem C14_validator_start_end_determined (es : List (Nat × Nat)) (S : List Nat) (hne : S ≠ [])
    (hdeg : degOk es S = true) (hacy : acyclic es S = true) (hcon : connectedIn es S = true) :
    (∃ a, S.find? (fun n => indegIn es S n == 0) = some a ∧
      ∀ a', a' ∈ S → indegIn es S a' = 0 → a' = a) ∧
    (∃ b, S.find? (fun n => outdegIn es S n == 0) = some b ∧
      ∀ b', b' ∈ S → outdegIn es S b' = 0 → b' = b) := by
  obtain ⟨a, ha⟩ := start_exists hne hacy
  obtain ⟨b, hb⟩ := end_exists hne hacy
  refine ⟨⟨a, ha, fun a' h1 h2 => ?_⟩, ⟨b, hb, fun b' h1 h2 => ?_⟩⟩
  · exact start_unique hdeg hcon h1 (List.mem_of_find?_eq_some ha) h2 (by simpa using List.find?_some ha)
  · exact end_unique hdeg hcon h1 (List.mem_of_find?_eq_some hb) h2 (by simpa using List.find?_some hb)
example : degOk [(4, 6), (2, 4), (2, 3), (1, 2)] [4, 6] = true ∧
    acyclic [(4, 6), (2, 4), (2, 3), (1, 2)] [4, 6] = true ∧
    connectedIn [(4, 6), (2, 4), (2, 3), (1, 2)] [4, 6] = true ∧
    [4, 6].find? (fun n => indegIn [(4, 6), (2, 4), (2, 3), (1, 2)] [4, 6] n == 0) = some 4 ∧
    [4, 6].find? (fun n => outdegIn [(4, 6), (2, 4), (2, 3), (1, 2)] [4, 6] n == 0) = some 6 := by decide
#print axioms C14_validator_start_end_determined

/-- **the cycle check.**  `acyclic es S` (Kahn's algorithm on the subgraph induced by `S`) answers
    `true` iff some rank increases along every edge inside `S` (a topological order exists), and
    `false` whenever `S` contains a non-empty set of nodes each of which has a predecessor in the set
    (a directed cycle, a self-loop). -/
theorem C14_validator_acyclic_spec (es : List (Nat × Nat)) (S : List Nat) :
    (acyclic es S = true ↔ ∃ rk : Nat → Nat, ∀ e, e ∈ es → e.1 ∈ S → e.2 ∈ S → rk e.1 < rk e.2) ∧
    (∀ C : List Nat, C ≠ [] → (∀ n, n ∈ C → n ∈ S ∧ ∃ p, p ∈ C ∧ (p, n) ∈ es) → acyclic es S = false) :=
  ⟨acyclic_iff_rank, fun _ hne hC => acyclic_no_cycle hne hC⟩
example : acyclic [(1, 2), (2, 3), (3, 1), (3, 4)] [1, 2, 3, 4] = false ∧
    acyclic [(1, 2), (2, 3), (3, 1), (3, 4)] [1, 2, 4] = true ∧ acyclic [(5, 5)] [5] = false ∧
    acyclic [(1, 2), (1, 3), (2, 4), (3, 4)] [1, 2, 3, 4] = true := by decide
#print axioms C14_validator_acyclic_spec

/-- **the closure.**  `reach es X` lists exactly the nodes joined to a node of `X` by a directed path
    along `es`; `component es n` (= `reach` over both directions of every edge) is the weakly
    connected component of `n`. -/
theorem C14_validator_reach_spec (es : List (Nat × Nat)) (X : List Nat) (n x : Nat) :
    (x ∈ reach es X ↔ ∃ a, a ∈ X ∧ Path es a x) ∧
    (x ∈ IdValidate.component es n ↔ Path (sym es) n x) := by
  refine ⟨mem_reach_iff, ?_⟩
  unfold IdValidate.component
  rw [mem_reach_iff]
  constructor
  · rintro ⟨a, ha, hp⟩
    simp at ha
    subst ha; exact hp
  · intro h; exact ⟨n, by simp, h⟩
example : reach [(1, 2), (2, 3), (4, 3), (5, 6)] [1] = [1, 2, 3] ∧
    IdValidate.component [(1, 2), (2, 3), (4, 3), (5, 6)] 1 = [1, 2, 3, 4] ∧
    IdValidate.component [(1, 2), (2, 3), (4, 3), (5, 6)] 6 = [6, 5] := by decide
#print axioms C14_validator_reach_spec

/-- **what `validate_tracklets` decides**, on ANY graph and any column: the verdict is `true` iff for
    every id `t` of the column the list `tn` of the nodes that carry it has fewer than two entries, or
    (1) inside `tn` every node has at most one predecessor and at most one successor, (2) the subgraph
    induced by `tn` has a topological rank (is acyclic), (3) any two nodes of `tn` are joined by an
    undirected path inside `tn`, (4) a node of `tn` without predecessor in `tn` does not have exactly
    one predecessor in `G` that has exactly one successor in `G`, (5) a node of `tn` without successor
    in `tn` does not have exactly one successor in `G` that has exactly one predecessor in `G`.
    (`predsG` / `succsG` list the DISTINCT predecessors / successors, as a DiGraph does.) -/
theorem C14_validator_tracklets_spec (nodes : List Nat) (es : List (Nat × Nat)) (tids : List Nat) :
    validateTracklets nodes es tids = true ↔
      ∀ t, (∃ n, (n, t) ∈ nodes.zip tids) → ∀ tn, tn = group nodes tids t →
        tn.length < 2 ∨
        ((∀ n, n ∈ tn →
            (∀ p q, p ∈ tn → q ∈ tn → (p, n) ∈ es → (q, n) ∈ es → p = q) ∧
            (∀ c d, c ∈ tn → d ∈ tn → (n, c) ∈ es → (n, d) ∈ es → c = d)) ∧
         (∃ rk : Nat → Nat, ∀ e, e ∈ es → e.1 ∈ tn → e.2 ∈ tn → rk e.1 < rk e.2) ∧
         (∀ a b, a ∈ tn → b ∈ tn → Path (sym (subEdges es tn)) a b) ∧
         (∀ a, a ∈ tn → (∀ p, p ∈ tn → (p, a) ∉ es) →
            ¬ ∃ p, predsG es a = [p] ∧ (succsG es p).length = 1) ∧
         (∀ b, b ∈ tn → (∀ c, c ∈ tn → (b, c) ∉ es) →
            ¬ ∃ c, succsG es b = [c] ∧ (predsG es c).length = 1)) := by
  unfold validateTracklets
  rw [List.all_eq_true]
  constructor
  · intro h t ht tn htn
    subst htn
    exact trackletOk_spec.mp (h t (mem_keys.mpr ht))
  · intro h t ht
    exact trackletOk_spec.mpr (h t (mem_keys.mp ht) _ rfl)
example : group [1, 2, 3, 4, 5, 6] [1, 1, 2, 3, 4, 5] 1 = [1, 2] ∧ keys [1, 2, 3, 4, 5, 6] [1, 1, 2, 3, 4, 5] = [1, 2, 3, 4, 5] ∧
    predsG [(1, 2), (2, 3), (2, 4), (1, 2)] 2 = [1] ∧ succsG [(1, 2), (2, 3), (2, 4), (1, 2)] 2 = [3, 4] ∧
    validateTracklets [1, 2, 3, 4, 5, 6] [(1, 2), (2, 3), (2, 4), (1, 2)] [1, 1, 2, 3, 4, 5] = true := by decide
#print axioms C14_validator_tracklets_spec

/-- **what `validate_lineages` decides**, on ANY graph and any column: the verdict is `true` iff for
    every node `n` with lineage id `l`, the nodes that carry `l` are exactly the nodes weakly
    connected to `n`. -/
theorem C14_validator_lineages_spec (nodes : List Nat) (es : List (Nat × Nat)) (lins : List Nat) :
    validateLineages nodes es lins = true ↔
      ∀ n l, (n, l) ∈ nodes.zip lins → ∀ m, ((m, l) ∈ nodes.zip lins ↔ Path (sym es) n m) := by
  unfold validateLineages
  rw [List.all_eq_true]
  constructor
  · intro h n l hnl m
    have hk : l ∈ keys nodes lins := mem_keys.mpr ⟨n, hnl⟩
    have hl := h l hk
    unfold lineageOk at hl
    cases hg : group nodes lins l with
    | nil => exact absurd hg (group_ne_nil hk)
    | cons n0 rest =>
      rw [hg] at hl
      simp only at hl
      rw [← hg] at hl
      unfold sameSet at hl
      rw [Bool.and_eq_true, List.all_eq_true, List.all_eq_true] at hl
      have hn0 : n0 ∈ group nodes lins l := by rw [hg]; simp
      have c1 : ∀ x, x ∈ group nodes lins l → Path (sym es) n0 x := fun x hx =>
        (C14_validator_reach_spec es [] n0 x).2.mp (List.contains_iff_mem.mp (hl.1 x hx))
      have c2 : ∀ x, Path (sym es) n0 x → x ∈ group nodes lins l := fun x hx =>
        List.contains_iff_mem.mp (hl.2 x ((C14_validator_reach_spec es [] n0 x).2.mpr hx))
      have hn : Path (sym es) n0 n := c1 n (mem_group.mpr hnl)
      constructor
      · intro hm
        exact Path.trans hn.symm_sym (c1 m (mem_group.mpr hm))
      · intro hm
        exact mem_group.mp (c2 m (Path.trans hn hm))
  · intro h l hk
    unfold lineageOk
    cases hg : group nodes lins l with
    | nil => rfl
    | cons n0 rest =>
      simp only
      rw [← hg]
      have hn0 : (n0, l) ∈ nodes.zip lins := mem_group.mp (by rw [hg]; simp)
      unfold sameSet
      rw [Bool.and_eq_true, List.all_eq_true, List.all_eq_true]
      constructor
      · intro x hx
        rw [List.contains_iff_mem, (C14_validator_reach_spec es [] n0 x).2]
        exact (h n0 l hn0 x).mp (mem_group.mp hx)
      · intro x hx
        rw [(C14_validator_reach_spec es [] n0 x).2] at hx
        exact List.contains_iff_mem.mpr (mem_group.mpr ((h n0 l hn0 x).mpr hx))
example : validateLineages [1, 2, 3, 4] [(1, 2), (3, 4)] [5, 5, 9, 9] = true ∧
    validateLineages [1, 2, 3, 4] [(1, 2), (3, 4)] [5, 5, 5, 5] = false ∧
    validateLineages [1, 2, 3, 4] [(1, 2), (3, 4)] [5, 6, 9, 9] = false := by decide
#print axioms C14_validator_lineages_spec

/-! ## witnesses -/

namespace C14R8VEx

/-- a chain 1@0 → 2@1 → 3@2 whose three nodes carry three DIFFERENT track ids -/
def W3 : St :=
  { nodes := [⟨1, 0, 7, some 1, []⟩, ⟨2, 1, 8, some 1, []⟩, ⟨3, 2, 9, some 1, []⟩]
    edges := [⟨(1, 2), []⟩, ⟨(2, 3), []⟩] }

/-- a division 1@0 → {2@1, 3@1}; the dividing node and its first daughter share the track id 5 -/
def W2 : St :=
  { nodes := [⟨1, 0, 5, some 1, []⟩, ⟨2, 1, 5, some 1, []⟩, ⟨3, 1, 6, some 1, []⟩]
    edges := [⟨(1, 2), []⟩, ⟨(1, 3), []⟩] }

end C14R8VEx

/-- **acceptance does not imply `TidOK`** (witness, replayed on the real `validate_tracklets`: `(True,
    [])`).  On the chain 1 → 2 → 3 with the three different track ids 7, 8, 9 every tracklet has one
    node and is skipped (`len(t_nodes) < 2: continue`): the validator accepts, the importer keeps the
    column, although the ids do not label the segment (`TidOK.along` fails on the edge 1 → 2). -/
theorem C14_validator_accepts_all_singletons :
    W3.Forest ∧ W3.LinOK ∧ ¬ W3.TidOK ∧ W3.ids = [1, 2, 3] ∧ W3.edgeList = [(1, 2), (2, 3)] ∧
    W3.nodes.map (·.tid) = [7, 8, 9] ∧
    validateTracklets [1, 2, 3] [(1, 2), (2, 3)] [7, 8, 9] = true ∧
    validateTracklets [1, 2, 3] [(1, 2), (2, 3)] [7, 7, 7] = true := by
  refine ⟨St.tk_forestB_sound (by decide), St.tk_linOKB_sound (by decide), ?_, by decide, by decide,
    by decide, by decide, by decide⟩
  intro h
  have := h.along (1, 2) (by decide) (by decide)
  revert this
  decide
#print axioms C14_validator_accepts_all_singletons

/-- **an id that runs through a division into ONE daughter is accepted** (witness, replayed on the real
    `validate_tracklets`: `(True, [])`).  1@0 → {2@1, 3@1} with the track ids 5, 5, 6: the tracklet
    {1, 2} is a path in its induced subgraph, its end node 2 has no successor and its start node 1 no
    predecessor, so none of the checks fires (the out-degree of node 1 IN G is never looked at) —
    although nodes 1 and 2 are two different segment heads with one id (`TidOK.heads` fails).  So the
    validator is strictly weaker than `TidOK` also on tracklets with more than one node. -/
theorem C14_validator_accepts_id_through_division :
    W2.Forest ∧ ¬ W2.TidOK ∧ W2.ids = [1, 2, 3] ∧ W2.edgeList = [(1, 2), (1, 3)] ∧
    W2.nodes.map (·.tid) = [5, 5, 6] ∧
    validateTracklets [1, 2, 3] [(1, 2), (1, 3)] [5, 5, 6] = true := by
  refine ⟨St.tk_forestB_sound (by decide), ?_, by decide, by decide, by decide, by decide⟩
  intro h
  refine h.heads 1 2 ⟨by decide, ?_⟩ ⟨by decide, ?_⟩ (by decide) (by decide)
  · intro p hp
    have : (p, 1) ∈ [((1 : Nat), (2 : Nat)), (1, 3)] := hp
    simp at this
  · intro p hp
    have : (p, 2) ∈ [((1 : Nat), (2 : Nat)), (1, 3)] := hp
    simp at this
    subst this
    decide
#print axioms C14_validator_accepts_id_through_division

/-- **two separate segments sharing an id are rejected** (witness, replayed: "Tracklet 5: Not fully
    connected"): 1 → 2 and 3 → 4 with the id 5 on all four nodes; also rejected: the two halves of one
    segment under two ids ("Not maximal": 1 → 2 → 3 → 4 labelled 5, 5, 6, 6), and an id on a dividing
    node and BOTH its children ("branch or merge": 1 → {2, 3} labelled 5, 5, 5). -/
theorem C14_validator_rejects_shared_id :
    validateTracklets [1, 2, 3, 4] [(1, 2), (3, 4)] [5, 5, 5, 5] = false ∧
    validateTracklets [1, 2, 3, 4] [(1, 2), (3, 4)] [5, 5, 6, 6] = true ∧
    validateTracklets [1, 2, 3, 4] [(1, 2), (2, 3), (3, 4)] [5, 5, 6, 6] = false ∧
    validateTracklets [1, 2, 3] [(1, 2), (1, 3)] [5, 5, 5] = false ∧
    validateTracklets [1, 2, 3] [(1, 2), (1, 3)] [5, 6, 7] = true := by decide
#print axioms C14_validator_rejects_shared_id

/-- **lineage ids**: two components under one id, or one component under two ids, are rejected
    (witness, replayed: "Lineage 5: Does not form a valid, isolated connected component"). -/
theorem C14_validator_rejects_merged_lineages :
    validateLineages [1, 2, 3] [(1, 2)] [5, 5, 5] = false ∧
    validateLineages [1, 2, 3] [(1, 2)] [5, 6, 7] = false ∧
    validateLineages [1, 2, 3] [(1, 2)] [5, 5, 7] = true := by decide
#print axioms C14_validator_rejects_merged_lineages

/-- **a subset export is typically rejected** — the case `tv = false` of `C15_csv_display_subset`
    (witness, replayed: "Tracklet 5: Not maximal. Path can extend backward to node 1").  Selecting
    node 30 of the table `exD` (1 → {2, 7}, 7 → 30) exports 30 and its ancestors 7 and 1: one child of
    the division is gone, the track ids 3 (node 1) and 5 (nodes 7, 30) now sit on ONE unbranched path
    and `validate_tracklets` rejects the column; on the whole table it accepts it. -/
theorem C14_validator_rejects_subset_export :
    (exported exD (some [30])).map (fun n => (n.id, n.tid)) = [(7, 5), (1, 3), (30, 5)] ∧
    (exportedEdges exD (some [30])).map endpoints = [(7, 30), (1, 7)] ∧
    validateTracklets [7, 1, 30] [(7, 30), (1, 7)] [5, 3, 5] = false ∧
    validateTracklets (Export.ids exD) (edgePairs exD) (exD.nodes.map Export.NodeRec.tid) = true ∧
    validateLineages [7, 1, 30] [(7, 30), (1, 7)] [2, 2, 2] = true := by decide
#print axioms C14_validator_rejects_subset_export
