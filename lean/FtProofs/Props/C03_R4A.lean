/-
  C01 / C02 / C03 (package R4A) — **the whole-history theorems with executable hypotheses.**

  `Props/C02_R3D_main.lean` proves `C01_user_all`, `C02_session_valid`, `C03_reach`,
  `C01_undo_restores` from the bundle invariant `Inv s0` of the start state and the admissibility
  `SessOK s0 ops` of the session (`OpPre` at the state where each edit is applied).  Here the two
  hypotheses are replaced by Boolean checks that a compiled binary can evaluate on every state of
  every real session (`FtProofs/R4ALemmas.lean`, namespace `Ft.R4A`):
    `invB s = true → Inv s`,  `opPreB s op = true → OpPre s op`,  `sessOKB s ops = true → SessOK s ops`.
  So whenever the harness measures `invB s0 = 1` at the start of a session and `opPreB s op = 1` at
  every edit (`sessOKB`), the theorems below apply to that very session.
-/
import FtProofs.R4ALemmas
import FtProofs.Props.C02_R3D_main
open Ft Ft.St Ft.R2A1 Ft.R3P Ft.R3D Ft.R4A List
open C02R3DEx C01R3CEx C01R3DEx C02R3DMainEx

/-- **the checkers are sound**: a `true` answer of `invB` is a proof of the bundle invariant, a
    `true` answer of `opPreB` a proof of the argument preconditions of the operation (`false` for
    `enable` / `disable`), a `true` answer of `sessOKB` a proof that the session is admissible. -/
theorem C03_checkers_sound :
    (∀ s, invB s = true → Inv s) ∧ (∀ s op, opPreB s op = true → OpPre s op) ∧
    (∀ s ops, sessOKB s ops = true → SessOK s ops) ∧
    (∀ s ks rc, opPreB s (.enable ks rc) = false) ∧ (∀ s ks, opPreB s (.disable ks) = false) :=
  ⟨fun _ h => invB_sound h, fun _ _ h => opPreB_sound h, fun _ _ h => sessOKB_sound h,
    fun _ _ _ => rfl, fun _ _ => rfl⟩
-- non-vacuity: the checkers answer `true` on the two example states …
example : invB XA = true ∧ invB XG = true := by decide
-- … on every state of the two example sessions (start state and after every step) …
example : invAlongB XG sessG = true := by decide +kernel
example : invAlongB XA sessA = true := by decide +kernel
-- … the sessions are admissible by the executable check (paints, delete-node, update-attrs, undo /
-- redo, refused edits, queries) …
example : sessOKB XG sessG = true ∧ sessOKB XA sessA = true := by decide +kernel
-- … and they reject what the invariant / preconditions exclude.  `XL`: one node with label 1 in a
-- 2-frame array, regionprops key 10 active and current.  Rejected: a stale regionprops value, a
-- label without node, an unsound track-id maximum, an unregistered stored attribute; an update-attrs
-- under an unregistered key, a paint whose group lists a pixel with another label, a paint with two
-- groups of the same previous label, an add-node with a caller-supplied lineage id
example :
    let XL : St :=
      { nodes := [⟨1, 0, 1, some 1, [(10, .mask [0])]⟩], seg := some ⟨2, [1, 0, 0, 0]⟩,
        rpAvail := [10], rpActive := [10], regNode := [10], t2n := [(1, [1])], l2n := [(1, [1])],
        maxTid := 1, maxLin := 1 }
    invB XL = true ∧
    invB { XL with seg := some ⟨2, [1, 1, 0, 0]⟩ } = false ∧
    invB { XL with seg := some ⟨2, [1, 0, 7, 0]⟩ } = false ∧
    invB { XG with maxTid := 0 } = false ∧
    invB { XG with regNode := [] } = false ∧
    opPreB XG (.updAttrs 5 [(8, .tok 1)]) = false ∧
    opPreB XA (.paint 6 [([5, 6], 2)] 1 false) = false ∧
    opPreB XA (.paint 6 [([4], 2), ([5], 2)] 1 false) = false ∧
    opPreB XG (.addNode ⟨9, some 2, some 1, some 1, [(7, .tok 1)], none, false⟩) = false ∧
    opPreB XG (.addNode ⟨9, some 2, some 1, none, [(7, .tok 1)], none, false⟩) = true := by
  decide +kernel
#print axioms C03_checkers_sound

/-- **C03 (– C07) for every session that passes the executable checks.** From a start state with
    an empty history on which `invB` answers `true`, for EVERY operation list on which `sessOKB`
    answers `true` (each operation is undo, redo, a query, or one of the seven top-level edits with
    `opPreB = true` at the state where it is applied — accepted or refused): every state reached —
    after the whole list and after every prefix of it —, and every state on the timeline, satisfies
    the bundle invariant; in particular it is `Valid`: a forward-in-time binary forest with exact
    track ids (equal id ⇔ same unbranched segment), exact lineage ids (equal id ⇔ connected) and
    exact lookups / id maxima; labels and nodes correspond one-to-one. -/
theorem C03_reach_checked (s0 : St) (h0 : s0.hist = {}) (hI : invB s0 = true) (ops : List Op)
    (hs : sessOKB s0 ops = true) :
    (∀ pre, pre <+: ops → Inv (sessFinal s0 ⟨[s0], 0⟩ pre).1) ∧
    Inv (sessFinal s0 ⟨[s0], 0⟩ ops).1 ∧
    (sessFinal s0 ⟨[s0], 0⟩ ops).1.Valid ∧
    (sessFinal s0 ⟨[s0], 0⟩ ops).1.Forest ∧ (sessFinal s0 ⟨[s0], 0⟩ ops).1.TidOK ∧
    (sessFinal s0 ⟨[s0], 0⟩ ops).1.LinOK ∧ (sessFinal s0 ⟨[s0], 0⟩ ops).1.BookOK ∧
    SegOK (sessFinal s0 ⟨[s0], 0⟩ ops).1 ∧
    (∀ a b, a ∈ (sessFinal s0 ⟨[s0], 0⟩ ops).1.ids → b ∈ (sessFinal s0 ⟨[s0], 0⟩ ops).1.ids →
      ((sessFinal s0 ⟨[s0], 0⟩ ops).1.tidOf a = (sessFinal s0 ⟨[s0], 0⟩ ops).1.tidOf b ↔
        (sessFinal s0 ⟨[s0], 0⟩ ops).1.SameSeg a b)) ∧
    (∀ a b, a ∈ (sessFinal s0 ⟨[s0], 0⟩ ops).1.ids → b ∈ (sessFinal s0 ⟨[s0], 0⟩ ops).1.ids →
      ((sessFinal s0 ⟨[s0], 0⟩ ops).1.linOf a = (sessFinal s0 ⟨[s0], 0⟩ ops).1.linOf b ↔
        (sessFinal s0 ⟨[s0], 0⟩ ops).1.Conn a b)) ∧
    (∀ x ∈ (sessFinal s0 ⟨[s0], 0⟩ ops).2.states, Inv x) :=
  C03_reach s0 h0 (invB_sound hI) ops (sessOKB_sound hs)
-- both hypotheses by evaluation: the array session `sessA` and the graph-only session `sessG`
example : (sessFinal XA ⟨[XA], 0⟩ sessA).1.Valid ∧ SegOK (sessFinal XA ⟨[XA], 0⟩ sessA).1 ∧
    (sessFinal XG ⟨[XG], 0⟩ sessG).1.Valid := by
  have hA := C03_reach_checked XA rfl (by decide) sessA (by decide +kernel)
  have hG := C03_reach_checked XG rfl (by decide) sessG (by decide +kernel)
  exact ⟨hA.2.2.1, hA.2.2.2.2.2.2.2.1, hG.2.2.1⟩
#print axioms C03_reach_checked

/-- **C02 for every session that passes the executable checks**: the session refines the
    never-forgetting timeline — the current state is `E`-equal (so `ObsEq`) to the timeline state
    under the cursor, `|states| = |undo_stack| + 1`, `cursor + |redo_stack| = |undo_stack|`, every
    `undo` / `redo` returned the Boolean the timeline predicts (in particular never raised), and the
    refinement invariant holds (`Rec := Chain E`). -/
theorem C02_session_valid_checked (s0 : St) (h0 : s0.hist = {}) (hI : invB s0 = true) (ops : List Op)
    (hs : sessOKB s0 ops = true) :
    (∃ x, (sessFinal s0 ⟨[s0], 0⟩ ops).2.states[(sessFinal s0 ⟨[s0], 0⟩ ops).2.cur]? = some x ∧
          E (sessFinal s0 ⟨[s0], 0⟩ ops).1 x ∧ ObsEq (sessFinal s0 ⟨[s0], 0⟩ ops).1 x) ∧
    (sessFinal s0 ⟨[s0], 0⟩ ops).2.states.length = (sessFinal s0 ⟨[s0], 0⟩ ops).1.hist.undo.length + 1 ∧
    (sessFinal s0 ⟨[s0], 0⟩ ops).2.cur + (sessFinal s0 ⟨[s0], 0⟩ ops).1.hist.redo.length
      = (sessFinal s0 ⟨[s0], 0⟩ ops).1.hist.undo.length ∧
    SessAgree s0 ⟨[s0], 0⟩ ops ∧
    Hist.Refines RecE E ((sessFinal s0 ⟨[s0], 0⟩ ops).1.hist, (sessFinal s0 ⟨[s0], 0⟩ ops).1)
      (sessFinal s0 ⟨[s0], 0⟩ ops).2 ∧
    SessValid RecE E s0 ops :=
  C02_session_valid s0 h0 (invB_sound hI) ops (sessOKB_sound hs)
example : (sessFinal XA ⟨[XA], 0⟩ sessA).2.cur = 0 ∧
    ∃ x, (sessFinal XA ⟨[XA], 0⟩ sessA).2.states[0]? = some x ∧ ObsEq (sessFinal XA ⟨[XA], 0⟩ sessA).1 x := by
  obtain ⟨⟨x, h1, _, h3⟩, _⟩ := C02_session_valid_checked XA rfl (by decide) sessA (by decide +kernel)
  have hc : (sessFinal XA ⟨[XA], 0⟩ sessA).2.cur = 0 := by decide
  rw [hc] at h1
  exact ⟨hc, x, h1, h3⟩
#print axioms C02_session_valid_checked

/-- **C01 / C11 for one edit on a checked state**: at a state with `invB = true`, for a top-level
    edit with `opPreB = true`: accepted ⇒ one history entry, a lawful chain, the invariant again, and
    `ActionGroup.inverse()` of the entry restores the old state up to `ObsEq` (and inverting again
    reproduces the new one); refused ⇒ the state is observationally unchanged. -/
theorem C01_user_all_checked (s : St) (op : Op) (he : op.isTopEdit = true) (hI : invB s = true)
    (hpre : opPreB s op = true) :
    ((s.step op).2 = .ok → ∃ recs, (s.step op).1.hist = s.hist.add recs ∧
        Chain E s recs (s.step op).1 ∧ Inv (s.step op).1 ∧
        ∀ t, E t (s.step op).1 →
          ∃ s₂ recs', t.invGroup recs = (s₂, .ok recs') ∧ ObsEq s₂ s ∧ recs'.length = recs.length ∧
            ∃ s₃ recs'', s₂.invGroup recs' = (s₃, .ok recs'') ∧ ObsEq s₃ (s.step op).1) ∧
    (∀ e, (s.step op).2 = .err e →
        E (s.step op).1 s ∧ ObsEq (s.step op).1 s ∧ Inv (s.step op).1) :=
  C01_user_all s op he (invB_sound hI) (opPreB_sound hpre)
-- a paint that creates node 6 (accepted), a paint whose nested add-node is refused
example :
    (∃ recs, Chain E XA recs (XA.step (.paint 6 [([8], 5), ([9, 10], 0)] 2 false)).1 ∧
      Inv (XA.step (.paint 6 [([8], 5), ([9, 10], 0)] 2 false)).1) ∧
    ObsEq (XA.step (.paint 6 [([5], 2), ([7], 0)] 1 false)).1 XA := by
  refine ⟨?_, ?_⟩
  · obtain ⟨recs, _, b, c, _⟩ := (C01_user_all_checked XA (.paint 6 [([8], 5), ([9, 10], 0)] 2 false) rfl
      (by decide) (by decide)).1 rfl
    exact ⟨recs, b, c⟩
  · exact ((C01_user_all_checked XA (.paint 6 [([5], 2), ([7], 0)] 1 false) rfl (by decide) (by decide)).2
      .forceable (by decide)).2.1
#print axioms C01_user_all_checked

/-- **the measurement is self-consistent**: if `invB` answers `true` at the start and `sessOKB`
    answers `true` for the session, the state after every prefix satisfies `Inv` — so a `false`
    answer of `invB` at a later state of such a session can only be an incompleteness of the
    checker, never a violation (and the harness counts it separately). -/
theorem C03_reach_checked_prefix (s0 : St) (h0 : s0.hist = {}) (hI : invB s0 = true) (pre rest : List Op)
    (hs : sessOKB s0 (pre ++ rest) = true) : Inv (sessFinal s0 ⟨[s0], 0⟩ pre).1 :=
  (C03_reach_checked s0 h0 hI (pre ++ rest) hs).1 pre ⟨rest, rfl⟩
example : Inv (sessFinal XA ⟨[XA], 0⟩ (sessA.take 3)).1 :=
  C03_reach_checked_prefix XA rfl (by decide) (sessA.take 3) (sessA.drop 3) (by decide +kernel)
#print axioms C03_reach_checked_prefix
