/-
  C09 (package R5F) — the IoU code paths of `EdgeAnnotator` mirrored as written
  (`FtModel/IouFaithful.lean`: `computeIous`, `iouUpdateFrames`, `iouComputeFaithful`,
  `iouUpdateIncrFaithful`) coincide with the per-edge model (`St.iouOf`, `iouUpdateEdge`,
  `iouCompute`) that `C09_value` / `C09_bulk` / `C09_incr_*` / `C09_agree` talk about.

  Hypotheses used (and shown necessary by witnesses at the end of the file):
    * unique node ids (a networkx graph has them by construction) — only needed because
      `graph.edges()` is enumerated node by node; `C09_faithful_bulk_eq_on` needs no such
      hypothesis for an arbitrary duplicate-free enumeration of the edge set;
    * duplicate-free edge list whose endpoints are nodes;
    * node ids are non-zero (label 0 is the background: `_compute_ious` drops it and
      `np.where(frame == 0, 0, 0)` is empty, whereas `iouOf` would count background pixels).
  NO forest hypothesis: merges (several in-edges of one node, also from the same source frame),
  divisions and frame-skipping edges are all covered.  No `SegOK`-style hypothesis is needed.
-/
import FtProofs.R5FLemmas
open Ft Ft.St Ft.IouF Ft.R5F List

namespace Ft.R5F

/-- merges from one source frame (1,3),(2,3), a division (3,4),(3,5), frame-skipping edges (1,5)
    (overlap) and (2,4) (no overlap); 4 pixels per frame, 3 frames.  The edge list is NOT in
    networkx order. Edge (2,4) carries a stale value. -/
def exR5F : St :=
  { nodes := [{ id := 1, time := 0, tid := 1, lin := some 1 },
              { id := 2, time := 0, tid := 2, lin := some 1 },
              { id := 3, time := 1, tid := 3, lin := some 1 },
              { id := 4, time := 2, tid := 4, lin := some 1 },
              { id := 5, time := 2, tid := 5, lin := some 1 }],
    edges := [{ e := (3, 4) }, { e := (1, 3) }, { e := (2, 3), attrs := [(9, Val.tok 5)] },
              { e := (3, 5) }, { e := (1, 5) }, { e := (2, 4), attrs := [(7, Val.iou 1 2)] }],
    seg := some { frame := 4, data := [1, 1, 2, 0,   3, 3, 3, 0,   4, 5, 5, 5] },
    iouKey := some 7, iouActive := true, regEdge := [7, 9] }

/-- hypotheses of the bulk theorem as one decidable bundle -/
def BulkHyp (s : St) : Prop :=
  s.ids.Nodup ∧ s.edgeList.Nodup ∧ (∀ e ∈ s.edgeList, e.1 ∈ s.ids ∧ e.2 ∈ s.ids) ∧
  (∀ r ∈ s.nodes, r.id ≠ 0)

instance (s : St) : Decidable (BulkHyp s) := by unfold BulkHyp; infer_instance

theorem timeOf_isSome_of_mem_ids {s : St} {n : Node} (h : n ∈ s.ids) : (s.timeOf n).isSome = true := by
  rw [← hasNode_eq_timeOf_sg]; exact (hasNode_iff_mem_ids_sg s n).mpr h

theorem ne_zero_of_mem_ids {s : St} (hnz : ∀ r ∈ s.nodes, r.id ≠ 0) {n : Node} (h : n ∈ s.ids) : n ≠ 0 := by
  obtain ⟨r, hr, rfl⟩ := List.mem_map.mp h
  exact hnz r hr

end Ft.R5F

/-- **Specification of `_compute_ious`.**  A quadruple `(a, b, i, u)` is produced iff both labels
    are non-zero, `i` is the number of positions carrying `a` in the first and `b` in the second
    frame, `i > 0`, and `u = |f1 = a| + |f2 = b| − i`; the list is strictly sorted
    lexicographically by `(a, b)` (the `np.unique(axis=1)` order), hence duplicate-free in `(a, b)`.
    For frames of equal length `n` the position count is the count over the indices `0 … n−1`. -/
theorem C09_computeIous_spec (f1 f2 : List Nat) :
    (∀ a b i u, (a, b, i, u) ∈ computeIous f1 f2 ↔
        a ≠ 0 ∧ b ≠ 0 ∧
        i = (List.range (min f1.length f2.length)).countP (fun p => f1.getD p 0 == a && f2.getD p 0 == b) ∧
        0 < i ∧ u = f1.count a + f2.count b - i) ∧
    ((computeIous f1 f2).map (fun q => (q.1, q.2.1))).Pairwise
        (fun p q => p.1 < q.1 ∨ (p.1 = q.1 ∧ p.2 < q.2)) ∧
    ((computeIous f1 f2).map (fun q => (q.1, q.2.1))).Nodup := by
  refine ⟨?_, computeIous_sorted f1 f2, computeIous_nodup f1 f2⟩
  intro a b i u
  rw [mem_computeIous, zip_count_index]

example : computeIous [1, 1, 0, 2, 2, 3] [4, 5, 5, 0, 4, 4] =
    [(1, 4, 1, 4), (1, 5, 1, 3), (2, 4, 1, 4), (3, 4, 1, 3)] := by decide
#print axioms C09_computeIous_spec

/-- `_compute_ious` on two frames of the label array: the counts are the model's `interCount`
    (positions of the frame carrying `a` in frame `t1` and `b` in frame `t2`) and `maskCount`. -/
theorem C09_computeIous_frames (g : Seg) (t1 t2 a b i u : Nat) :
    (a, b, i, u) ∈ computeIous (g.frameAt t1) (g.frameAt t2) ↔
      a ≠ 0 ∧ b ≠ 0 ∧ i = interCount g t1 t2 a b ∧ 0 < i ∧
      u = maskCount g t1 a + maskCount g t2 b - i :=
  mem_computeIous_frameAt

example : computeIous (({ frame := 4, data := [1, 1, 2, 0, 3, 3, 3, 0, 4, 5, 5, 5] } : Seg).frameAt 0)
    (({ frame := 4, data := [1, 1, 2, 0, 3, 3, 3, 0, 4, 5, 5, 5] } : Seg).frameAt 2) =
    [(1, 4, 1, 2), (1, 5, 1, 4), (2, 5, 1, 3)] := by decide
#print axioms C09_computeIous_frames

/-- **Faithful bulk = per-edge model, any enumeration.**  Whatever duplicate-free order `es` the
    edge set is enumerated in (hence whatever the order of the `edges_by_frames` dict and of the
    lists inside it), grouping by frame pair, `_iou_update` per group with removal from the list
    and the leftover loop produce exactly the state the per-edge fold `iouCompute` produces. -/
theorem C09_faithful_bulk_eq_on (s : St) (es : List Edge)
    (hndE : s.edgeList.Nodup) (hes : es.Nodup) (hmem : ∀ e, e ∈ es ↔ e ∈ s.edgeList)
    (hend : ∀ e ∈ s.edgeList, e.1 ∈ s.ids ∧ e.2 ∈ s.ids)
    (hnz : ∀ r ∈ s.nodes, r.id ≠ 0) :
    s.iouComputeFaithfulOn es = s.iouCompute := by
  cases hg : s.seg with
  | none => rw [iouComputeFaithfulOn_off es s (Or.inl hg), iouCompute, foldl_iouUpdateEdge_off _ s (Or.inl hg)]
  | some g =>
    cases hk : s.iouKey with
    | none =>
      rw [iouComputeFaithfulOn_off es s (Or.inr (Or.inl hk)), iouCompute,
        foldl_iouUpdateEdge_off _ s (Or.inr (Or.inl hk))]
    | some k =>
      cases ha : s.iouActive with
      | false =>
        rw [iouComputeFaithfulOn_off es s (Or.inr (Or.inr ha)), iouCompute,
          foldl_iouUpdateEdge_off _ s (Or.inr (Or.inr ha))]
      | true =>
        refine iouComputeFaithfulOn_eq s g k es hg hk ha hndE hes hmem ?_ ?_
        · intro e he
          exact ⟨timeOf_isSome_of_mem_ids (hend e he).1, timeOf_isSome_of_mem_ids (hend e he).2⟩
        · intro e he
          exact ⟨ne_zero_of_mem_ids hnz (hend e he).1, ne_zero_of_mem_ids hnz (hend e he).2⟩

example : BulkHyp exR5F ∧ exR5F.edgeList.reverse.Nodup ∧
    (exR5F.iouComputeFaithfulOn exR5F.edgeList.reverse).edges = exR5F.iouCompute.edges := by decide
#print axioms C09_faithful_bulk_eq_on

/-- **C09, faithful bulk path.**  For every state with unique non-zero node ids and a
    duplicate-free edge list whose endpoints are nodes — any DAG: merges (also from one source
    frame), divisions, skip edges — `EdgeAnnotator.compute` as written (`graph.edges()` order,
    `edges_by_frames` dict, `_compute_ious` per frame pair, `edges.remove`, leftovers ↦ 0) yields
    THE SAME STATE as the per-edge model `iouCompute`: every edge attribute equal, nothing else
    changed.  (Array / key / active flag need not be assumed: without them both are the identity.) -/
theorem C09_faithful_bulk_eq (s : St) (hids : s.ids.Nodup) (hndE : s.edgeList.Nodup)
    (hend : ∀ e ∈ s.edgeList, e.1 ∈ s.ids ∧ e.2 ∈ s.ids)
    (hnz : ∀ r ∈ s.nodes, r.id ≠ 0) :
    s.iouComputeFaithful = s.iouCompute :=
  C09_faithful_bulk_eq_on s s.edgesNx hndE (edgesNx_nodup hids hndE)
    (mem_edgesNx (fun e he => (hend e he).1)) hend hnz

example : BulkHyp exR5F ∧ exR5F.edgesNx = [(1, 3), (1, 5), (2, 3), (2, 4), (3, 4), (3, 5)] ∧
    exR5F.groupEdges exR5F.edgesNx =
      [((0, 1), [(1, 3), (2, 3)]), ((0, 2), [(1, 5), (2, 4)]), ((1, 2), [(3, 4), (3, 5)])] ∧
    exR5F.iouComputeFaithful.edges =
      [{ e := (3, 4), attrs := [(7, Val.iou 1 3)] }, { e := (1, 3), attrs := [(7, Val.iou 2 3)] },
       { e := (2, 3), attrs := [(9, Val.tok 5), (7, Val.iou 1 3)] },
       { e := (3, 5), attrs := [(7, Val.iou 2 4)] }, { e := (1, 5), attrs := [(7, Val.iou 1 4)] },
       { e := (2, 4), attrs := [(7, Val.zero)] }] ∧
    exR5F.iouComputeFaithful.edges = exR5F.iouCompute.edges := by decide
#print axioms C09_faithful_bulk_eq

/-- Consequence (with `C09_bulk`, `C09_value`): after the faithful bulk computation every edge
    carries the true overlap of its endpoints' masks, each read in its own frame — the exact
    counts `|A ∩ B|`, `|A| + |B| − |A ∩ B|`, or the literal 0 iff the masks do not meet — and
    array, nodes and edge set are unchanged. -/
theorem C09_faithful_bulk_true (s : St) (g : Seg) (k : Key)
    (hg : s.seg = some g) (hk : s.iouKey = some k) (ha : s.iouActive = true)
    (hids : s.ids.Nodup) (hndE : s.edgeList.Nodup)
    (hend : ∀ e ∈ s.edgeList, e.1 ∈ s.ids ∧ e.2 ∈ s.ids)
    (hnz : ∀ r ∈ s.nodes, r.id ≠ 0) :
    (∀ er ∈ s.iouComputeFaithful.edges, ∃ t1 t2, s.timeOf er.e.1 = some t1 ∧ s.timeOf er.e.2 = some t2 ∧
        alook k er.attrs = some (s.iouOf er.e) ∧
        s.iouOf er.e =
          if interCount g t1 t2 er.e.1 er.e.2 = 0 then Val.zero
          else Val.iou (interCount g t1 t2 er.e.1 er.e.2)
                 (maskCount g t1 er.e.1 + maskCount g t2 er.e.2 - interCount g t1 t2 er.e.1 er.e.2)) ∧
    s.iouComputeFaithful.seg = s.seg ∧ s.iouComputeFaithful.nodes = s.nodes ∧
    s.iouComputeFaithful.edgeList = s.edgeList := by
  rw [C09_faithful_bulk_eq s hids hndE hend hnz]
  obtain ⟨hb, h2, h3, h4⟩ := C09_bulk s k hk ha (by simp [hg])
  refine ⟨?_, h2, h3, h4⟩
  intro er her
  have hin : er.e ∈ s.edgeList := by
    rw [← h4]; exact List.mem_map.mpr ⟨er, her, rfl⟩
  obtain ⟨t1, ht1⟩ := Option.isSome_iff_exists.mp (timeOf_isSome_of_mem_ids (hend _ hin).1)
  obtain ⟨t2, ht2⟩ := Option.isSome_iff_exists.mp (timeOf_isSome_of_mem_ids (hend _ hin).2)
  refine ⟨t1, t2, ht1, ht2, ?_, C09_value s g er.e t1 t2 hg ht1 ht2⟩
  rw [hb er her]
  simp only [iouCompute, iouOf_foldl_iouUpdateEdge]

example : BulkHyp exR5F ∧ exR5F.seg.isSome = true ∧ exR5F.iouKey = some 7 ∧ exR5F.iouActive = true ∧
    (∀ er ∈ exR5F.iouComputeFaithful.edges, alook 7 er.attrs = some (exR5F.iouOf er.e)) := by decide
#print axioms C09_faithful_bulk_true

/-- **C09, faithful incremental path.**  The value `EdgeAnnotator.update` computes — mask both
    frames to the one label, 0 if `np.max` of a mask is 0, else the FIRST triple of
    `_compute_ious(masked_start, masked_end)` (0 if there is none) — equals `iouOf`, and one loop
    iteration of `update` is the per-edge model's `iouUpdateEdge` (same resulting state). -/
theorem C09_faithful_incr_eq (s : St) (g : Seg) (e : Edge) (t1 t2 : Nat) (hg : s.seg = some g)
    (h1 : s.timeOf e.1 = some t1) (h2 : s.timeOf e.2 = some t2) (hnz : e.1 ≠ 0 ∧ e.2 ≠ 0) :
    iouIncrVal g t1 t2 e = s.iouOf e ∧ s.iouUpdateIncrFaithful e = s.iouUpdateEdge e := by
  constructor
  · rw [iouIncrVal_eq g t1 t2 e hnz.1 hnz.2, iouOf_eq_trueVal hg h1 h2]
  · exact iouUpdateIncrFaithful_eq s e ⟨by simp [h1], by simp [h2]⟩ hnz

example : exR5F.seg = some { frame := 4, data := [1, 1, 2, 0, 3, 3, 3, 0, 4, 5, 5, 5] } ∧
    exR5F.timeOf 1 = some 0 ∧ exR5F.timeOf 5 = some 2 ∧
    iouIncrVal { frame := 4, data := [1, 1, 2, 0, 3, 3, 3, 0, 4, 5, 5, 5] } 0 2 (1, 5) = Val.iou 1 4 ∧
    (exR5F.iouUpdateIncrFaithful (2, 4)).edges.getLast? = some { e := (2, 4), attrs := [(7, Val.zero)] } := by
  decide
#print axioms C09_faithful_incr_eq

/-- `EdgeAnnotator.update(UpdateNodeSeg)` as written (all in-edges, then all out-edges of the
    node, each through the masked computation) is the per-edge model's `iouUpdateNode`. -/
theorem C09_faithful_incr_node_eq (s : St) (n : Node)
    (hend : ∀ e ∈ s.edgeList, e.1 ∈ s.ids ∧ e.2 ∈ s.ids) (hnz : ∀ r ∈ s.nodes, r.id ≠ 0) :
    s.iouUpdateNodeFaithful n = s.iouUpdateNode n := by
  have hsub : ∀ e ∈ s.incident n, e ∈ s.edgeList := by
    intro e he
    simp only [incident, List.mem_append, List.mem_map, List.mem_filter] at he
    rcases he with ⟨r, ⟨hr, -⟩, rfl⟩ | ⟨r, ⟨hr, -⟩, rfl⟩ <;> exact List.mem_map.mpr ⟨r, hr, rfl⟩
  show (s.incident n).foldl iouUpdateIncrFaithful s = (s.incident n).foldl iouUpdateEdge s
  apply foldl_iouUpdateIncrFaithful_eq
  · intro e he
    exact ⟨timeOf_isSome_of_mem_ids (hend e (hsub e he)).1, timeOf_isSome_of_mem_ids (hend e (hsub e he)).2⟩
  · intro e he
    exact ⟨ne_zero_of_mem_ids hnz (hend e (hsub e he)).1, ne_zero_of_mem_ids hnz (hend e (hsub e he)).2⟩

example : (exR5F.iouUpdateNodeFaithful 3).edges =
      [{ e := (3, 4), attrs := [(7, Val.iou 1 3)] }, { e := (1, 3), attrs := [(7, Val.iou 2 3)] },
       { e := (2, 3), attrs := [(9, Val.tok 5), (7, Val.iou 1 3)] },
       { e := (3, 5), attrs := [(7, Val.iou 2 4)] }, { e := (1, 5) },
       { e := (2, 4), attrs := [(7, Val.iou 1 2)] }] := by decide
#print axioms C09_faithful_incr_node_eq

/-! ### mutation guards -/

namespace Ft.R5F

/-- two nodes of frame 0 merging into node 3 of frame 1 (2 pixels per frame) -/
def exMerge : St :=
  { nodes := [{ id := 1, time := 0, tid := 1, lin := some 1 },
              { id := 2, time := 0, tid := 2, lin := some 1 },
              { id := 3, time := 1, tid := 3, lin := some 1 }],
    edges := [{ e := (1, 3) }, { e := (2, 3) }],
    seg := some { frame := 2, data := [1, 2,  3, 3] },
    iouKey := some 7, iouActive := true, regEdge := [7] }

/-- source frame with two labels under the target mask: label 1 (one pixel) sorts before
    label 2 (two pixels) -/
def exTwoSrc : St :=
  { nodes := [{ id := 1, time := 0, tid := 1, lin := some 1 },
              { id := 2, time := 0, tid := 2, lin := some 1 },
              { id := 3, time := 1, tid := 3, lin := some 1 }],
    edges := [{ e := (2, 3) }],
    seg := some { frame := 3, data := [1, 2, 2,  3, 3, 3] },
    iouKey := some 7, iouActive := true, regEdge := [7] }

/-- an edge that carries a value from an earlier computation; the masks no longer meet -/
def exStale : St :=
  { nodes := [{ id := 1, time := 0, tid := 1, lin := some 1 },
              { id := 2, time := 1, tid := 1, lin := some 1 }],
    edges := [{ e := (1, 2), attrs := [(7, Val.iou 1 2)] }],
    seg := some { frame := 2, data := [1, 0,  0, 2] },
    iouKey := some 7, iouActive := true, regEdge := [7] }

end Ft.R5F

/-- Mutation (i): a bulk variant that keeps the edges of a group as a dict `{target: source}`
    loses an edge of a merge — `(1,3)` is overwritten by `(2,3)` in the dict and never gets a
    value, while the code as written (and the per-edge model) stores 1/2 on both. -/
theorem C09_variant_bytarget_differs :
    BulkHyp exMerge ∧
    exMerge.iouComputeFaithful.edges =
      [{ e := (1, 3), attrs := [(7, Val.iou 1 2)] }, { e := (2, 3), attrs := [(7, Val.iou 1 2)] }] ∧
    exMerge.iouCompute.edges = exMerge.iouComputeFaithful.edges ∧
    exMerge.iouComputeByTarget.edges =
      [{ e := (1, 3), attrs := [] }, { e := (2, 3), attrs := [(7, Val.iou 1 2)] }] := by
  decide
#print axioms C09_variant_bytarget_differs

/-- Mutation (ii): an incremental variant that does not mask the source frame takes the first
    triple of the unmasked list — the pair of the LOWEST overlapping source label `(1,3)`: 1/3 —
    instead of the edge's own pair `(2,3)`: 2/3. -/
theorem C09_variant_nosrcmask_differs :
    exTwoSrc.seg = some { frame := 3, data := [1, 2, 2, 3, 3, 3] } ∧
    exTwoSrc.timeOf 2 = some 0 ∧ exTwoSrc.timeOf 3 = some 1 ∧
    iouIncrVal { frame := 3, data := [1, 2, 2, 3, 3, 3] } 0 1 (2, 3) = Val.iou 2 3 ∧
    exTwoSrc.iouOf (2, 3) = Val.iou 2 3 ∧
    iouIncrValNoSrcMask { frame := 3, data := [1, 2, 2, 3, 3, 3] } 0 1 (2, 3) = Val.iou 1 3 := by
  decide
#print axioms C09_variant_nosrcmask_differs

/-- Mutation (iii): a bulk variant whose leftover loop uses `setdefault` keeps the stale 1/2 on an
    edge whose masks no longer overlap; the code as written (and the per-edge model) stores 0. -/
theorem C09_variant_setdefault_differs :
    BulkHyp exStale ∧ exStale.iouOf (1, 2) = Val.zero ∧
    exStale.iouComputeFaithful.edges = [{ e := (1, 2), attrs := [(7, Val.zero)] }] ∧
    exStale.iouCompute.edges = exStale.iouComputeFaithful.edges ∧
    exStale.iouComputeSetdefault.edges = [{ e := (1, 2), attrs := [(7, Val.iou 1 2)] }] := by
  decide
#print axioms C09_variant_setdefault_differs

/-! ### the hypotheses are needed -/

/-- Node id 0 (never produced with an array: label 0 is the background): the code as written
    stores 0 on an edge `(0, v)` — `_compute_ious` ignores label 0, `np.where(frame == 0, 0, 0)` is
    empty — whereas the per-edge model `iouOf` counts the background pixels. Hence the hypothesis
    "node ids are non-zero" of `C09_faithful_bulk_eq` / `C09_faithful_incr_eq`. -/
theorem C09_faithful_hyp_nonzero_needed :
    let s : St :=
      { nodes := [{ id := 0, time := 0, tid := 1, lin := some 1 }, { id := 2, time := 1, tid := 1, lin := some 1 }],
        edges := [{ e := (0, 2) }], seg := some { frame := 2, data := [0, 0,  2, 0] },
        iouKey := some 7, iouActive := true, regEdge := [7] }
    s.iouComputeFaithful.edges = [{ e := (0, 2), attrs := [(7, Val.zero)] }] ∧
    (s.iouUpdateIncrFaithful (0, 2)).edges = [{ e := (0, 2), attrs := [(7, Val.zero)] }] ∧
    s.iouCompute.edges = [{ e := (0, 2), attrs := [(7, Val.iou 1 2)] }] := by
  decide
#print axioms C09_faithful_hyp_nonzero_needed

/-- Two node records with the same id (impossible in a networkx graph): the node-by-node
    enumeration `graph.edges()` would list the edge twice, `edges.remove` removes one copy and the
    leftover loop overwrites the value with 0. Hence the hypothesis "unique node ids". -/
theorem C09_faithful_hyp_unique_ids_needed :
    let s : St :=
      { nodes := [{ id := 1, time := 0, tid := 1, lin := some 1 }, { id := 1, time := 0, tid := 1, lin := some 1 },
                  { id := 2, time := 1, tid := 1, lin := some 1 }],
        edges := [{ e := (1, 2) }], seg := some { frame := 2, data := [1, 1,  2, 0] },
        iouKey := some 7, iouActive := true, regEdge := [7] }
    s.iouComputeFaithful.edges = [{ e := (1, 2), attrs := [(7, Val.zero)] }] ∧
    s.iouCompute.edges = [{ e := (1, 2), attrs := [(7, Val.iou 1 2)] }] := by
  decide
#print axioms C09_faithful_hyp_unique_ids_needed
