/-
  C12, work package R8I — the parts of the import pipeline that FtModel/Import.lean leaves out:
  `_preprocess_name_map` (None / [] entries, legacy z / y / x keys), the order of the checks of
  `TracksBuilder.build`, GEFF edge properties with their own `edge_name_map`.
  Model: FtModel/ImportExt.lean (the node side IS `importTable` / `importGeff` of Import.lean applied
  to the preprocessed map).  Helper lemmas: FtProofs/R8ILemmas.lean (namespace Ft.R8I).

  Vocabulary
    RawNameMap               a name map as the caller writes it: value None | "col" | [cols]
    dropBlank raw            `raw` without the entries whose value is None or []
    preprocess raw           `_preprocess_name_map` on the node map
    importTableRaw           `tracks_from_df(df, node_name_map=raw)`
    importGeffX              `GeffTracksBuilder.build` with raw node map and raw edge map
                             (`none` = `edge_name_map is None`); `importFromGeffX` = the
                             `import_from_geff` wrapper (drops None / "None" entries first)
    R8I.legacyComps raw      the columns given under the legacy keys, in z, y, x order
    R8I.explicitPos raw      `raw` with the legacy keys replaced by `"pos": legacyComps raw`
    R8I.BlankPosFree raw     there is no "pos" entry with value None / [] next to a legacy key

  What is FALSE of the real code (witnesses below, each replayed on funtracks):
    * `{"pos": None, "y": "y", "x": "x", …}` is refused (posMissing) although the same map without
      the None entry is imported: a blank "pos" entry switches the legacy conversion off
      (`C12_counterexample_blank_pos_shadows_legacy`).  Through `import_from_geff` the None entry
      is filtered first and the import succeeds; `"pos": []` is refused there as well.
    * a non-empty map whose entries are all None / [] is refused with "cannot contain None values",
      the empty map with "node_name_map must be set" (`C12_counterexample_all_blank_map`).
    * legacy keys and the explicit `"pos": [..]` list are NOT interchangeable when the edge map
      stacks columns under a key with spatial extent (`C12_counterexample_legacy_edge_spatial`).
-/
import FtProofs.R8ILemmas
open Ft Ft.Import Ft.ImportExt

/-! ## None / [] entries -/

/- Full statement asked for: "a map with None / [] entries imports exactly like the map without
   them", i.e. for every raw:  importTableRaw sp raw t = importTableRaw sp (dropBlank raw) t.
   FALSE in two ways (the two counterexamples after the theorem).  Proved: the statement for every
   dict (`Nodup` keys) that is `BlankPosFree` and keeps at least one entry; what is missing is
   exactly the two excluded classes, where the real code itself distinguishes the maps. -/
theorem C12_preprocess_none_is_absent_partial (raw : RawNameMap) (hn : (raw.map (·.1)).Nodup)
    (hfree : R8I.BlankPosFree raw) (hne : dropBlank raw ≠ []) :
    preprocess raw = preprocess (dropBlank raw) ∧
    (∀ sp t, importTableRaw sp raw t = importTableRaw sp (dropBlank raw) t) ∧
    (∀ sp rawE header eheader nodes edges,
      importGeffX sp raw rawE header eheader nodes edges =
        importGeffX sp (dropBlank raw) (rawE.map dropBlank) header eheader nodes edges) := by
  have hpre := R8I.preprocess_dropBlank raw hn hfree
  have h1 : raw.isEmpty = false := by
    cases raw with
    | nil => exact absurd rfl hne
    | cons _ _ => rfl
  have h2 : (dropBlank raw).isEmpty = false := by
    cases h : dropBlank raw with
    | nil => exact absurd h hne
    | cons _ _ => rfl
  refine ⟨hpre, ?_, ?_⟩
  · intro sp t
    unfold importTableRaw
    rw [h1, h2, ← hpre]
  · intro sp rawE header eheader nodes edges
    unfold importGeffX
    have hE : (rawE.map dropBlank).map (fun r => toNameMap (dropBlank r)) =
        rawE.map (fun r => toNameMap (dropBlank r)) := by
      cases rawE with
      | none => rfl
      | some r => simp [R8I.dropBlank_idem]
    rw [h1, h2, ← hpre, hE]
    simp only [Bool.false_eq_true, if_false]
    rcases R8I.ndimEarly_dropBlank raw hn with h | h
    · rw [h]
    · exact R8I.core_nd_irrelevant _ _ _ _ _ _ _ _ _ (R8I.pos_blank_no_pos raw hn h)

example : R8I.BlankPosFree [("time", .one "t"), ("sc", .none), ("y", .one "y"), ("foo", .many []),
    ("x", .one "x"), ("z", .none)] := by decide
example : ([("time", RawSrc.one "t"), ("sc", .none), ("y", .one "y"), ("foo", .many []),
    ("x", .one "x"), ("z", .none)].map (·.1)).Nodup ∧
    dropBlank [("time", .one "t"), ("sc", .none), ("y", .one "y"), ("foo", .many []),
      ("x", .one "x"), ("z", .none)] = [("time", .one "t"), ("y", .one "y"), ("x", .one "x")] := by
  decide
example : importTableRaw ["pos"] [("time", .one "t"), ("id", .one "id"), ("sc", .none),
      ("y", .one "y"), ("parent_id", .one "p"), ("foo", .many []), ("x", .one "x"), ("z", .none)]
    ⟨["t", "y", "x", "id", "p"], true,
      [⟨"4", some "-1", [("t", .sc "n0"), ("y", .sc "n1"), ("x", .sc "n2")]⟩,
       ⟨"9", some "4", [("t", .sc "n1"), ("y", .sc "n3"), ("x", .sc "n4")]⟩]⟩
    = .ok ⟨[(4, [("time", .sc "n0"), ("pos", .vec ["n1", "n2"])]),
            (9, [("time", .sc "n1"), ("pos", .vec ["n3", "n4"])])], [(4, 9)]⟩ := by decide

#print axioms C12_preprocess_none_is_absent_partial

/-- a blank "pos" entry switches the legacy conversion off: with `"pos": None` the map is refused,
    without the entry it is imported (replayed on `tracks_from_df` and on `GeffTracksBuilder`) -/
theorem C12_counterexample_blank_pos_shadows_legacy :
    ∃ (raw : RawNameMap) (t : Table) (g : Graph),
      (raw.map (·.1)).Nodup ∧ ¬ R8I.BlankPosFree raw ∧
      importTableRaw ["pos"] raw t = .error .posMissing ∧
      importTableRaw ["pos"] (dropBlank raw) t = .ok g :=
  ⟨[("time", .one "t"), ("id", .one "id"), ("parent_id", .one "p"), ("y", .one "y"), ("x", .one "x"),
     ("pos", .none)],
   ⟨["t", "y", "x", "id", "p"], true, [⟨"1", some "-1", [("t", .sc "n0"), ("y", .sc "n1"), ("x", .sc "n2")]⟩]⟩,
   ⟨[(1, [("time", .sc "n0"), ("pos", .vec ["n1", "n2"])])], []⟩,
   by decide, by decide, by decide, by decide⟩

#print axioms C12_counterexample_blank_pos_shadows_legacy

/-- a non-empty map that consists of None / [] entries only is refused by the check for None
    values of required keys, the empty map by the emptiness test of `build()` -/
theorem C12_counterexample_all_blank_map :
    ∃ (raw : RawNameMap) (t : Table),
      importTableRaw [] raw t = .error .missingRequired ∧
      importTableRaw [] (dropBlank raw) t = .error .nmEmpty :=
  ⟨[("foo", .none), ("bar", .many [])], ⟨["t"], true, []⟩, by decide, by decide⟩

#print axioms C12_counterexample_all_blank_map

/-- the edge map: None / [] entries are the same as absent entries, without any side condition -/
theorem C12_preprocess_none_is_absent_edge (sp : List String) (rawN rawE : RawNameMap)
    (header eheader : List String) (nodes : List (Int × Attrs))
    (edges : List ((Int × Int) × Attrs)) :
    importGeffX sp rawN (some rawE) header eheader nodes edges =
      importGeffX sp rawN (some (dropBlank rawE)) header eheader nodes edges := by
  unfold importGeffX
  simp [R8I.dropBlank_idem]

example : importGeffX ["pos"] [("time", .one "t"), ("pos", .many ["y", "x"])]
      (some [("iou", .one "w"), ("unused", .none), ("empty", .many [])]) ["t", "y", "x"] ["w", "q"]
      [(1, [("t", .sc "n0"), ("y", .sc "n1"), ("x", .sc "n2")]),
       (2, [("t", .sc "n1"), ("y", .sc "n3"), ("x", .sc "n4")])]
      [((1, 2), [("w", .sc "f0.5"), ("q", .sc "n7")])]
    = .ok ⟨[(1, [("time", .sc "n0"), ("pos", .vec ["n1", "n2"])]),
            (2, [("time", .sc "n1"), ("pos", .vec ["n3", "n4"])])],
           [((1, 2), [("iou", .sc "f0.5")])]⟩ := by decide

#print axioms C12_preprocess_none_is_absent_edge

/-- `import_from_geff` drops the entries whose value is None or the string "None" from both maps
    before the builder sees them (so there a `"pos": None` entry does NOT block the legacy keys) -/
theorem C12_wrapper_none_is_absent (sp : List String) (rawN rawE : RawNameMap)
    (header eheader : List String) (nodes : List (Int × Attrs))
    (edges : List ((Int × Int) × Attrs)) :
    importFromGeffX sp rawN rawE header eheader nodes edges =
      importFromGeffX sp (wrapperFilter rawN) (wrapperFilter rawE) header eheader nodes edges := by
  unfold importFromGeffX wrapperFilter
  simp [List.filter_filter]

example : importFromGeffX ["pos"] [("time", .one "t"), ("pos", .none), ("y", .one "y"), ("x", .one "x"),
      ("lineage_id", .one "None")] [("iou", .one "None")] ["t", "y", "x"] ["w"]
      [(1, [("t", .sc "n0"), ("y", .sc "n1"), ("x", .sc "n2")])] []
    = .ok ⟨[(1, [("time", .sc "n0"), ("pos", .vec ["n1", "n2"])])], []⟩ := by decide

#print axioms C12_wrapper_none_is_absent

/-! ## legacy coordinate keys -/

/-- Legacy keys: when "pos" is not a key and at least two of z / y / x are mapped to a column, the
    import is the import with the explicit composite entry `"pos": [those columns, in z-y-x order]`
    appended and the legacy keys removed — for tables, and for GEFF stores provided the edge map
    does not stack columns under a key with spatial extent (else see
    `C12_counterexample_legacy_edge_spatial`).  A legacy key whose value is None or a list is
    deleted without contributing. -/
theorem C12_legacy_axes (raw : RawNameMap) (hp : alook "pos" raw = none)
    (h2 : 2 ≤ (R8I.legacyComps raw).length) :
    R8I.legacyComps raw = R8I.legacyC raw "z" ++ R8I.legacyC raw "y" ++ R8I.legacyC raw "x" ∧
    preprocess raw = dropBlank (R8I.dropLegacy raw) ++ [("pos", .many (R8I.legacyComps raw))] ∧
    (∀ sp t, importTableRaw sp raw t = importTableRaw sp (R8I.explicitPos raw) t) ∧
    (∀ sp rawE header eheader nodes edges,
      R8I.EdgeSpatialFree sp (rawE.map (fun r => toNameMap (dropBlank r))) →
      importGeffX sp raw rawE header eheader nodes edges =
        importGeffX sp (R8I.explicitPos raw) rawE header eheader nodes edges) := by
  have hpre := R8I.preprocess_legacy raw hp h2
  have hne : raw ≠ [] := R8I.raw_ne_nil_of_comps raw (by
    intro h; rw [h] at h2; simp at h2)
  have h1 : raw.isEmpty = false := by
    cases raw with
    | nil => exact absurd rfl hne
    | cons _ _ => rfl
  have h3 : (R8I.explicitPos raw).isEmpty = false := by
    unfold R8I.explicitPos
    cases R8I.dropLegacy raw <;> rfl
  refine ⟨rfl, ?_, ?_, ?_⟩
  · unfold preprocess
    rw [R8I.legacyFold_eq, hp]
    simp only [Option.isSome_none, Bool.false_eq_true, if_false, h2, if_true]
    exact R8I.dropBlank_append_pos _ _ h2
  · intro sp t
    unfold importTableRaw
    rw [h1, h3, hpre]
  · intro sp rawE header eheader nodes edges hfree
    unfold importGeffX
    rw [h1, h3, hpre]
    simp only [Bool.false_eq_true, if_false]
    exact R8I.core_nd_free _ _ _ _ _ _ _ _ _ hfree

/-- x before y before z in the dict, z mapped to None: pos = [y-column, x-column] -/
example : importTableRaw ["pos"] [("x", .one "cx"), ("time", .one "t"), ("id", .one "id"),
      ("y", .one "cy"), ("parent_id", .one "p"), ("z", .none)]
    ⟨["t", "cy", "cx", "id", "p"], true,
      [⟨"4", some "-1", [("t", .sc "n0"), ("cy", .sc "n1"), ("cx", .sc "n2")]⟩,
       ⟨"9", some "4", [("t", .sc "n1"), ("cy", .sc "n3"), ("cx", .sc "n4")]⟩]⟩
    = .ok ⟨[(4, [("time", .sc "n0"), ("pos", .vec ["n1", "n2"])]),
            (9, [("time", .sc "n1"), ("pos", .vec ["n3", "n4"])])], [(4, 9)]⟩ := by decide
example : R8I.legacyComps [("x", .one "cx"), ("time", .one "t"), ("y", .one "cy"), ("z", .one "cz")]
    = ["cz", "cy", "cx"] := by decide
example : alook "pos" [("x", RawSrc.one "cx"), ("time", .one "t"), ("id", .one "id"),
      ("y", .one "cy"), ("parent_id", .one "p"), ("z", .none)] = none ∧
    R8I.explicitPos [("x", .one "cx"), ("time", .one "t"), ("id", .one "id"),
      ("y", .one "cy"), ("parent_id", .one "p"), ("z", .none)] =
      [("time", .one "t"), ("id", .one "id"), ("parent_id", .one "p"), ("pos", .many ["cy", "cx"])] := by
  decide
/-- GEFF store, legacy keys next to an edge map without a stacked spatial key -/
example : R8I.EdgeSpatialFree ["ellipse_axis_radii", "pos"]
    ((some [("iou", RawSrc.one "w"), ("pair", .many ["w", "r"])]).map (fun r => toNameMap (dropBlank r))) := by
  decide
example : importGeffX ["ellipse_axis_radii", "pos"] [("x", .one "x"), ("time", .one "t"), ("z", .one "z"),
      ("y", .one "y")] (some [("iou", .one "w"), ("pair", .many ["w", "r"])]) ["t", "z", "y", "x"] ["w", "r"]
      [(3, [("t", .sc "n0"), ("z", .sc "n7"), ("y", .sc "n1"), ("x", .sc "n2")]),
       (8, [("t", .sc "n1"), ("z", .sc "n8"), ("y", .sc "n3"), ("x", .sc "n4")])]
      [((3, 8), [("w", .sc "f0.5"), ("r", .sc "n6")])]
    = .ok ⟨[(3, [("time", .sc "n0"), ("pos", .vec ["n7", "n1", "n2"])]),
            (8, [("time", .sc "n1"), ("pos", .vec ["n8", "n3", "n4"])])],
           [((3, 8), [("iou", .sc "f0.5"), ("pair", .vec ["f0.5", "n6"])])]⟩ := by decide

#print axioms C12_legacy_axes

/-- the composite position is in z, y, x order whatever the order of the entries in the dict -/
theorem C12_legacy_axes_order (raw raw' : RawNameMap) (hperm : raw.Perm raw')
    (hn : (raw.map (·.1)).Nodup) : R8I.legacyComps raw = R8I.legacyComps raw' :=
  R8I.legacyComps_perm raw raw' hperm hn

example : R8I.legacyComps [("x", .one "cx"), ("time", .one "t"), ("z", .one "cz"), ("y", .one "cy")]
    = R8I.legacyComps [("time", .one "t"), ("z", .one "cz"), ("y", .one "cy"), ("x", .one "cx")] := by
  decide

#print axioms C12_legacy_axes_order

/-- Fewer than two legacy keys with a column: no position is mapped (the legacy keys are deleted
    all the same), and without a segmentation the import is refused — with `posMissing` as soon as
    the required keys are mapped; with a segmentation the validation does not fail for the
    position. -/
theorem C12_legacy_axes_few (raw : RawNameMap) (hn : (raw.map (·.1)).Nodup)
    (hp : alook "pos" raw = none) (h2 : (R8I.legacyComps raw).length < 2) :
    preprocess raw = dropBlank (R8I.dropLegacy raw) ∧
    (∀ sp t, importTableRaw sp raw t = .error .nmEmpty ∨
      importTableRaw sp raw t = .error .missingRequired ∨
      importTableRaw sp raw t = .error .posMissing) ∧
    (∀ sp t, (∀ k ∈ csvRequired, ∃ v, alook k raw = some v ∧ v.blank = false) →
      importTableRaw sp raw t = .error .posMissing) ∧
    (∀ sp rawE header eheader nodes edges,
      (∃ v, alook "time" raw = some v ∧ v.blank = false) →
      importGeffX sp raw rawE header eheader nodes edges = .error (.base .posMissing)) ∧
    (∀ d req header sp, validateRawSeg (some d) req header sp raw ≠ .error .posMissing) := by
  have hnp := R8I.no_pos_few raw hp h2
  refine ⟨R8I.preprocess_few raw hp h2, ?_, ?_, ?_, ?_⟩
  · intro sp t
    unfold importTableRaw
    split
    · exact Or.inl rfl
    · rcases R8I.vnm_no_pos csvRequired t.header sp _ hnp with h | h | h
      · rw [R8I.importTable_vnm_err _ _ _ _ h]; exact Or.inr (Or.inl rfl)
      · rw [R8I.importTable_vnm_err _ _ _ _ h]; exact Or.inr (Or.inl rfl)
      · rw [R8I.importTable_vnm_err _ _ _ _ h]; exact Or.inr (Or.inr rfl)
  · intro sp t hreq
    have hsome : ∀ k ∈ csvRequired, (alook k (toNameMap (preprocess raw))).isSome = true := by
      intro k hk
      obtain ⟨v, hv, hb⟩ := hreq k hk
      have hkc : k ∉ coordKeys := by
        simp only [csvRequired, List.mem_cons, List.not_mem_nil, or_false] at hk
        rcases hk with rfl | rfl | rfl <;> decide
      exact R8I.alook_pre_few raw hn hp h2 k hkc v hv hb
    have hne : toNameMap (preprocess raw) ≠ [] := by
      intro h
      have := hsome "time" (by simp [csvRequired])
      rw [h] at this
      cases this
    have h1 : raw.isEmpty = false := by
      obtain ⟨v, hv, _⟩ := hreq "time" (by simp [csvRequired])
      cases raw with
      | nil => cases hv
      | cons _ _ => rfl
    unfold importTableRaw
    rw [h1, R8I.importTable_vnm_err _ _ _ _ (R8I.vnm_no_pos_req _ _ _ _ hnp hne hsome)]
    rfl
  · intro sp rawE header eheader nodes edges hreq
    obtain ⟨v, hv, hb⟩ := hreq
    have hsome : ∀ k ∈ ["time"], (alook k (toNameMap (preprocess raw))).isSome = true := by
      intro k hk
      simp only [List.mem_cons, List.not_mem_nil, or_false] at hk
      subst hk
      exact R8I.alook_pre_few raw hn hp h2 "time" (by decide) v hv hb
    have hne : toNameMap (preprocess raw) ≠ [] := by
      intro h
      have := hsome "time" (by simp)
      rw [h] at this
      cases this
    have h1 : raw.isEmpty = false := by
      cases raw with
      | nil => cases hv
      | cons _ _ => rfl
    unfold importGeffX importGeffCore
    rw [h1, R8I.vnm_no_pos_req _ _ _ _ hnp hne hsome]
    rfl
  · intro d req header sp
    unfold validateRawSeg
    split
    · simp
    · exact R8I.liftEmpty_not_posMissing _ (R8I.vnmSeg_not_posMissing d req header sp _)

example : importTableRaw ["pos"] [("time", .one "t"), ("id", .one "id"), ("parent_id", .one "p"),
      ("x", .one "x"), ("y", .none), ("z", .many ["z"])]
    ⟨["t", "y", "x", "z", "id", "p"], true, [⟨"1", some "-1", []⟩]⟩ = .error .posMissing := by decide
example : validateRawSeg (some 2) csvRequired ["t", "y", "x", "id", "p"] ["pos"]
    [("time", .one "t"), ("id", .one "id"), ("parent_id", .one "p"), ("x", .one "x")] = .ok () := by
  decide
example : R8I.legacyComps [("time", RawSrc.one "t"), ("id", .one "id"), ("parent_id", .one "p"),
    ("x", .one "x"), ("y", .none), ("z", .many ["z"])] = ["x"] := by decide

#print axioms C12_legacy_axes_few

/-- the validation without a segmentation is the validation of Import.lean -/
theorem C12_validate_seg_none (req header sp : List String) (nm : NameMap) :
    validateNameMapSeg none req header sp nm = validateNameMap req header sp nm :=
  R8I.vnmSeg_none req header sp nm

example : validateNameMapSeg none ["time"] ["t", "y", "x"] ["pos"]
    [("time", .one "t"), ("pos", .many ["y", "x"])] = .ok () := by decide

#print axioms C12_validate_seg_none

/-- Legacy keys and the explicit list differ when the edge map stacks columns under a key with
    spatial extent: `build()` derives `ndim` from an explicit "pos" list BEFORE the name maps are
    validated, from legacy keys only afterwards, so the edge entry `"ellipse_axis_radii": ["w"]` is
    accepted next to `{"y": .., "x": ..}` and refused ("has 1 values but expected 2 spatial
    dimensions") next to `{"pos": ["y", "x"]}`.  Replayed on GeffTracksBuilder and import_from_geff. -/
theorem C12_counterexample_legacy_edge_spatial :
    ∃ (raw : RawNameMap) (rawE : RawNameMap) (g : GraphX),
      alook "pos" raw = none ∧ 2 ≤ (R8I.legacyComps raw).length ∧
      importGeffX ["ellipse_axis_radii", "pos"] raw (some rawE) ["t", "y", "x"] ["w"]
        [(1, [("t", .sc "n0"), ("y", .sc "n1"), ("x", .sc "n4")]),
         (2, [("t", .sc "n1"), ("y", .sc "n2"), ("x", .sc "n5")])]
        [((1, 2), [("w", .sc "f0.5")])] = .ok g ∧
      importGeffX ["ellipse_axis_radii", "pos"] (R8I.explicitPos raw) (some rawE) ["t", "y", "x"] ["w"]
        [(1, [("t", .sc "n0"), ("y", .sc "n1"), ("x", .sc "n4")]),
         (2, [("t", .sc "n1"), ("y", .sc "n2"), ("x", .sc "n5")])]
        [((1, 2), [("w", .sc "f0.5")])] = .error (.base .spatialDims) :=
  ⟨[("time", .one "t"), ("y", .one "y"), ("x", .one "x")], [("ellipse_axis_radii", .many ["w"])],
   ⟨[(1, [("time", .sc "n0"), ("pos", .vec ["n1", "n4"])]), (2, [("time", .sc "n1"), ("pos", .vec ["n2", "n5"])])],
    [((1, 2), [("ellipse_axis_radii", .vec ["f0.5"])])]⟩,
   by decide, by decide, by decide, by decide⟩

#print axioms C12_counterexample_legacy_edge_spatial

/-! ## edge properties -/

/-- Edge properties of a GEFF store under an explicit edge map: the edges of the result are the
    source edges, each once and in source order, between nodes of the result; the nodes and bare
    edges are those of the node-only import (so `C12_geff_import` applies to them); and when the
    edge map is unambiguous (`NameMapOK`) and the store has edge properties, every edge carries
    under a single-mapped key exactly the stored value of the mapped property (nothing if it is
    missing on that edge), under a list-mapped key the stored values stacked in mapped order
    (nothing if one of them is missing), and NO attribute under any name that is not a key of
    the edge map: unmapped edge properties are not loaded. -/
theorem C12_edge_props_faithful (sp : List String) (rawN rawE : RawNameMap)
    (header eheader : List String) (nodes : List (Int × Attrs))
    (edges : List ((Int × Int) × Attrs)) (g : GraphX)
    (h : importGeffX sp rawN (some rawE) header eheader nodes edges = .ok g) :
    g.edges.map (·.1) = edges.map (·.1) ∧ (g.edges.map (·.1)).Nodup ∧
    (∀ e ∈ g.edges, e.1.1 ∈ g.nodes.map (·.1) ∧ e.1.2 ∈ g.nodes.map (·.1) ∧ e.1.1 ≠ e.1.2) ∧
    importGeffRaw sp rawN header nodes (edges.map (·.1)) = .ok ⟨g.nodes, g.edges.map (·.1)⟩ ∧
    (NameMapOK (toNameMap (dropBlank rawE)) → eheader ≠ [] →
      ∀ (i : Nat) (e : (Int × Int) × Attrs), edges[i]? = some e →
        ∃ e', g.edges[i]? = some e' ∧ e'.1 = e.1 ∧
          (∀ k c, (k, Src.one c) ∈ toNameMap (dropBlank rawE) → alook k e'.2 = alook c e.2) ∧
          (∀ k cs, (k, Src.many cs) ∈ toNameMap (dropBlank rawE) →
            alook k e'.2 =
              if ∀ c ∈ cs, (alook c e.2).isSome = true then some (stack cs e.2) else none) ∧
          (∀ k, (alook k e'.2).isSome = true → k ∈ (toNameMap (dropBlank rawE)).map (·.1))) := by
  unfold importGeffX at h
  split at h
  · cases h
  · rename_i hemp
    simp only [Option.map_some] at h
    obtain ⟨hvem, _, g0, hg0, hnodes, hedges⟩ := R8I.core_ok _ _ _ _ _ _ _ _ _ h
    obtain ⟨_, _, he0, hnd, hends, hendup⟩ := importGeff_ok _ _ _ _ _ _ hg0
    have hkeys : g.edges.map (·.1) = edges.map (·.1) := by
      rw [hedges]; simp [Function.comp_def]
    have hnodeids : g.nodes.map (·.1) = nodes.map (·.1) := by
      rw [hnodes, (importGeff_ok _ _ _ _ _ _ hg0).2.1]; simp [Function.comp_def]
    refine ⟨hkeys, by rw [hkeys]; exact hendup, ?_, ?_, ?_⟩
    · intro e he
      have : e.1 ∈ edges.map (·.1) := by
        rw [← hkeys]; exact List.mem_map.mpr ⟨e, he, rfl⟩
      rw [hnodeids]
      exact hends e.1 this
    · unfold importGeffRaw
      have hemp' : rawN.isEmpty = false := by simpa using hemp
      rw [hemp', hg0, hkeys, hnodes, ← he0]
      cases g0
      rfl
    · intro hok hne i e hi
      obtain ⟨hcols, _, _⟩ := R8I.validateEdgeMap_none _ _ _ _ _ hvem
      have hcolmem := R8I.colsOk_mem eheader _ hcols hne
      have hplan := R8I.plan_nodup_some eheader (toNameMap (dropBlank rawE))
      refine ⟨(e.1, edgeAttrs (edgePlan eheader (some (toNameMap (dropBlank rawE)))) e.2), ?_, rfl,
        ?_, ?_, ?_⟩
      · rw [hedges]; simp [hi]
      · intro k c hk
        simp only
        rw [R8I.alook_edgeAttrs _ _ _ hplan,
          R8I.plan_one eheader _ hok k c hk (hcolmem _ hk c (by simp [Src.cols]))]
        rfl
      · intro k cs hk
        have hcs : ∀ c ∈ cs, c ∈ eheader := fun c hc => hcolmem _ hk c (by simpa [Src.cols] using hc)
        simp only
        rw [R8I.alook_edgeAttrs _ _ _ hplan,
          R8I.plan_many eheader _ hok k cs hk (R8I.toNameMap_dropBlank_many_ne rawE k cs hk) hcs]
        simp only [Option.bind_some]
        exact R8I.resolve_vec e.2 cs
      · intro k hk
        simp only at hk
        rw [R8I.alook_edgeAttrs _ _ _ hplan] at hk
        apply R8I.plan_keys_sub eheader _ hok (fun e' he' c hc => hcolmem e' he' c hc) k
        cases hpl : alook k (edgePlan eheader (some (toNameMap (dropBlank rawE)))) with
        | none => rw [hpl] at hk; cases hk
        | some v => rfl

/-- renamed, copied twice, stacked (one component missing on the second edge), unmapped column -/
example : importGeffX ["pos"] [("time", .one "t"), ("pos", .many ["y", "x"])]
      (some [("iou", .one "w"), ("w2", .one "w"), ("both", .many ["r", "q"]), ("none", .none)])
      ["t", "y", "x"] ["w", "q", "r", "unmapped"]
      [(5, [("t", .sc "n0"), ("y", .sc "n1"), ("x", .sc "n2")]),
       (2, [("t", .sc "n1"), ("y", .sc "n3"), ("x", .sc "n4")]),
       (7, [("t", .sc "n1"), ("y", .sc "n5"), ("x", .sc "n6")])]
      [((5, 2), [("w", .sc "f0.5"), ("q", .sc "n1"), ("r", .sc "n3"), ("unmapped", .sc "n9")]),
       ((5, 7), [("w", .sc "f0.25"), ("r", .sc "n4"), ("unmapped", .sc "n8")])]
    = .ok ⟨[(5, [("time", .sc "n0"), ("pos", .vec ["n1", "n2"])]),
            (2, [("time", .sc "n1"), ("pos", .vec ["n3", "n4"])]),
            (7, [("time", .sc "n1"), ("pos", .vec ["n5", "n6"])])],
           [((5, 2), [("iou", .sc "f0.5"), ("w2", .sc "f0.5"), ("both", .vec ["n3", "n1"])]),
            ((5, 7), [("iou", .sc "f0.25"), ("w2", .sc "f0.25")])]⟩ := by decide
example : NameMapOK (toNameMap (dropBlank [("iou", .one "w"), ("w2", .one "w"),
    ("both", .many ["r", "q"]), ("none", .none)])) := by decide

#print axioms C12_edge_props_faithful

/-- `builder.edge_name_map is None` (direct builder use without `prepare()`): every stored edge
    property is loaded under its own name -/
theorem C12_edge_props_all_loaded (sp : List String) (rawN : RawNameMap)
    (header eheader : List String) (nodes : List (Int × Attrs))
    (edges : List ((Int × Int) × Attrs)) (g : GraphX) (hnd : eheader.Nodup)
    (h : importGeffX sp rawN none header eheader nodes edges = .ok g) :
    g.edges.map (·.1) = edges.map (·.1) ∧
    ∀ (i : Nat) (e : (Int × Int) × Attrs), edges[i]? = some e →
      ∃ e', g.edges[i]? = some e' ∧ e'.1 = e.1 ∧
        ∀ c, alook c e'.2 = if c ∈ eheader then alook c e.2 else none := by
  unfold importGeffX at h
  split at h
  · cases h
  · simp only [Option.map_none] at h
    obtain ⟨_, _, g0, _, _, hedges⟩ := R8I.core_ok _ _ _ _ _ _ _ _ _ h
    refine ⟨by rw [hedges]; simp [Function.comp_def], ?_⟩
    intro i e hi
    refine ⟨(e.1, edgeAttrs (edgePlan eheader none) e.2), by rw [hedges]; simp [hi], rfl, ?_⟩
    intro c
    simp only
    rw [R8I.alook_edgeAttrs _ _ _ (R8I.plan_nodup_none eheader hnd)]
    show (alook c (symRow eheader)).bind (resolve e.2) = _
    rw [R8I.alook_symRow]
    by_cases hc : c ∈ eheader
    · simp [hc, R8I.resolve_sc]
    · simp [hc]

example : importGeffX ["pos"] [("time", .one "t"), ("pos", .one "p")] none ["t", "p"] ["w", "q"]
      [(1, [("t", .sc "n0"), ("p", .vec ["n1", "n2"])]), (2, [("t", .sc "n1"), ("p", .vec ["n3", "n4"])])]
      [((1, 2), [("q", .sc "n7")])]
    = .ok ⟨[(1, [("time", .sc "n0"), ("pos", .vec ["n1", "n2"])]),
            (2, [("time", .sc "n1"), ("pos", .vec ["n3", "n4"])])], [((1, 2), [("q", .sc "n7")])]⟩ := by
  decide

#print axioms C12_edge_props_all_loaded

/-! ## refusals of the edge map -/

/-- An edge map that names a property the store does not have is refused: with
    "edge_name_map contains mappings to non-existent properties" when the store has edge
    properties and the node map is valid; when the store has NO edge property the existence check
    is skipped by the real code and the read fails in zarr (`storeMissingProp`) unless an earlier
    check has refused the maps. -/
theorem C12_edge_map_unknown_refused (sp : List String) (rawN rawE : RawNameMap)
    (header eheader : List String) (nodes : List (Int × Attrs))
    (edges : List ((Int × Int) × Attrs))
    (hbad : ∃ e ∈ toNameMap (dropBlank rawE), ∃ c ∈ e.2.cols, c ∉ eheader) :
    (∃ err, importGeffX sp rawN (some rawE) header eheader nodes edges = .error err) ∧
    (eheader ≠ [] → rawN ≠ [] →
      validateNameMap ["time"] header sp (toNameMap (preprocess rawN)) = .ok () →
      importGeffX sp rawN (some rawE) header eheader nodes edges = .error .edgeUnknownColumn) := by
  obtain ⟨e, he, c, hc, hnot⟩ := hbad
  unfold importGeffX
  simp only [Option.map_some]
  have hvem : eheader ≠ [] → validateEdgeMap sp (ndimEarly rawN) (toNameMap (preprocess rawN)) eheader
      (some (toNameMap (dropBlank rawE))) = some .edgeUnknownColumn := by
    intro hne
    have : colsOk eheader (toNameMap (dropBlank rawE)) = false := by
      cases hco : colsOk eheader (toNameMap (dropBlank rawE)) with
      | false => rfl
      | true => exact absurd (R8I.colsOk_mem eheader _ hco hne e he c hc) hnot
    simp [validateEdgeMap, this]
  constructor
  · split
    · exact ⟨_, rfl⟩
    · by_cases hne : eheader = []
      · cases hv : validateEdgeMap sp (ndimEarly rawN) (toNameMap (preprocess rawN)) eheader
            (some (toNameMap (dropBlank rawE))) with
        | some err => exact (R8I.core_err_of_vem _ _ _ _ _ _ _ _ _ hv).1
        | none =>
          apply R8I.core_err_of_load _ _ _ _ _ _ _ _ .storeMissingProp
          unfold loadCheck
          split
          · rfl
          · have hm : mapsSomething (toNameMap (dropBlank rawE)) = true := by
              unfold mapsSomething
              rw [List.any_eq_true]
              refine ⟨e, he, ?_⟩
              cases hcs : e.2.cols with
              | nil => rw [hcs] at hc; cases hc
              | cons _ _ => rfl
            simp [hne, hm]
      · exact (R8I.core_err_of_vem _ _ _ _ _ _ _ _ _ (hvem hne)).1
  · intro hne hraw hv
    have h1 : rawN.isEmpty = false := by
      cases rawN with
      | nil => exact absurd rfl hraw
      | cons _ _ => rfl
    simp only [h1, Bool.false_eq_true, if_false]
    exact (R8I.core_err_of_vem _ _ _ _ _ _ _ _ _ (hvem hne)).2 hv

example : importGeffX ["pos"] [("time", .one "t"), ("pos", .many ["y", "x"])] (some [("iou", .one "nope")])
      ["t", "y", "x"] ["w"] [(1, [("t", .sc "n0"), ("y", .sc "n1"), ("x", .sc "n2")])] []
    = .error .edgeUnknownColumn := by decide
example : importGeffX ["pos"] [("time", .one "t"), ("pos", .many ["y", "x"])] (some [("iou", .one "w")])
      ["t", "y", "x"] [] [(1, [("t", .sc "n0"), ("y", .sc "n1"), ("x", .sc "n2")])] []
    = .error .storeMissingProp := by decide

#print axioms C12_edge_map_unknown_refused

/-- A key that is a node feature and an edge feature at once is refused (the real code does
    refuse it: "Feature keys cannot be shared between nodes and edges"), with `keyCollision` when
    all earlier checks pass. -/
theorem C12_node_edge_key_collision_refused (sp : List String) (rawN rawE : RawNameMap)
    (header eheader : List String) (nodes : List (Int × Attrs))
    (edges : List ((Int × Int) × Attrs))
    (hcol : ∃ k, k ∈ (toNameMap (preprocess rawN)).map (·.1) ∧
      k ∈ (toNameMap (dropBlank rawE)).map (·.1)) :
    (∃ err, importGeffX sp rawN (some rawE) header eheader nodes edges = .error err) ∧
    (rawN ≠ [] → validateNameMap ["time"] header sp (toNameMap (preprocess rawN)) = .ok () →
      colsOk eheader (toNameMap (dropBlank rawE)) = true →
      edgeSpatialOk sp (ndimEarly rawN) (toNameMap (dropBlank rawE)) = true →
      importGeffX sp rawN (some rawE) header eheader nodes edges = .error .keyCollision) := by
  obtain ⟨k, hk1, hk2⟩ := hcol
  have hc := R8I.keysCollide_of_common _ _ k hk1 hk2
  obtain ⟨⟨err, herr⟩, hexact⟩ := R8I.validateEdgeMap_collide sp (ndimEarly rawN) _ eheader _ hc
  unfold importGeffX
  simp only [Option.map_some]
  constructor
  · split
    · exact ⟨_, rfl⟩
    · exact (R8I.core_err_of_vem _ _ _ _ _ _ _ _ _ herr).1
  · intro hraw hv h1 h2
    have hemp : rawN.isEmpty = false := by
      cases rawN with
      | nil => exact absurd rfl hraw
      | cons _ _ => rfl
    simp only [hemp, Bool.false_eq_true, if_false]
    exact (R8I.core_err_of_vem _ _ _ _ _ _ _ _ _ (hexact h1 h2)).2 hv

example : importGeffX ["pos"] [("time", .one "t"), ("pos", .many ["y", "x"]), ("sc", .one "sc")]
      (some [("sc", .one "w")]) ["t", "y", "x", "sc"] ["w"]
      [(1, [("t", .sc "n0"), ("y", .sc "n1"), ("x", .sc "n2"), ("sc", .sc "n3")])] []
    = .error .keyCollision := by decide
/-- the position assembled from legacy keys collides with an edge key "pos" as well -/
example : importGeffX ["pos"] [("time", .one "t"), ("y", .one "y"), ("x", .one "x")]
      (some [("pos", .many ["w", "r"])]) ["t", "y", "x"] ["w", "r"]
      [(1, [("t", .sc "n0"), ("y", .sc "n1"), ("x", .sc "n2")])] []
    = .error .keyCollision := by decide

#print axioms C12_node_edge_key_collision_refused
