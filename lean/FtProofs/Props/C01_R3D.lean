/-
  C01 (package R3D, paint part) — user-level inverse law of `UserUpdateSegmentation`.

  "Applying any edit - a primitive action or a composite user action - and then inverting it
   restores the observable tracks state exactly … Inverting the inverse reproduces the post-edit
   state exactly."  (C01)

  The caller of `UserUpdateSegmentation` paints first: `St.step (.paint v groups tid force)` writes
  the new value `v` over the stroke and then runs `uUpdateSeg` on the painted array
  (`s.withSeg P`, `P = g.setPixels stroke v`).  Per group (pixels, previous label) the action
  shrinks the node of the previous label (`UpdateNodeSeg`) or deletes it (`UserDeleteNode` with the
  group's pixels) when nothing of it is left in the frame; then it grows the node `v`
  (`UpdateNodeSeg`) or creates it (`UserAddNode` with the whole stroke, possibly forced).
  The recorded primitives are NOT lawful when read against the painted start state (the stroke
  pixels no longer carry the labels the inverses write back); they are lawful when read against
  the UNPAINTED state `s` — the state `undo` has to restore.  That is what is proved here.

  Vocabulary (`Ft.R3D`, FtProofs/R3DBase.lean): `Inv` (bundle invariant: `Valid ∧ Good ∧ EdgeInv ∧
  NodeInv ∧ SegOK ∧ …`), `PaintArgs s g v groups` (= `R2G.PaintPre` on the unpainted array + the
  labels of the groups are pairwise distinct: "grouped by previous label").  The pixel list of a
  group may come in any order (a deleted node's pixels are compared as sets with
  `tracks.get_pixels`).  `E` is the common equivalence of R3P.
-/
import FtProofs.R3DLemmas
import FtProofs.Props.C02_R3D
open Ft Ft.St Ft.R2A1 Ft.R3P Ft.R3D List

/-- **user-level C01 for `UserUpdateSegmentation`** (every path: erase, shrink / grow of existing
    nodes, deletion of nodes whose last pixels of the frame are overwritten, creation of the new
    node by a nested — possibly forced — `UserAddNode`). `s` is the state BEFORE the caller painted,
    `s.withSeg P` the state the action runs in. If the action is accepted, its record list is a
    lawful chain over the common equivalence from the unpainted state `s` to the result, the result
    satisfies the bundle invariant again, and `ActionGroup.inverse()` from any state in the class of
    the result restores `s` — array included — up to `ObsEq`; inverting that inverse reproduces the
    result up to `ObsEq`. -/
theorem C01_user_updateSeg (s : St) (g : Seg) (v : Nat) (groups : List (List Pix × Nat)) (tid : Nat)
    (force : Bool) (recs : List PrimRec) (hI : Inv s) (hg : s.seg = some g)
    (hP : PaintArgs s g v groups)
    (hok : ((s.withSeg (g.setPixels (groups.flatMap (·.1)) v)).uUpdateSeg v groups tid force).1.2 = .ok recs) :
    Chain E s recs ((s.withSeg (g.setPixels (groups.flatMap (·.1)) v)).uUpdateSeg v groups tid force).1.1 ∧
    Inv ((s.withSeg (g.setPixels (groups.flatMap (·.1)) v)).uUpdateSeg v groups tid force).1.1 ∧
    ∀ t, E t ((s.withSeg (g.setPixels (groups.flatMap (·.1)) v)).uUpdateSeg v groups tid force).1.1 →
      ∃ s₂ recs', t.invGroup recs = (s₂, .ok recs') ∧ ObsEq s₂ s ∧ recs'.length = recs.length ∧
        ∃ s₃ recs'', s₂.invGroup recs' = (s₃, .ok recs'') ∧
          ObsEq s₃ ((s.withSeg (g.setPixels (groups.flatMap (·.1)) v)).uUpdateSeg v groups tid force).1.1 := by
  obtain ⟨h1, h2⟩ := paint_user hI hg hP hok
  exact ⟨h1, h2, R3C.chain_reading h1⟩

namespace C01R3DEx
open C02R3DEx C01R3CEx
/-- the array of `XA` (= `R2A1.exCur`): 4 frames of 4 pixels -/
abbrev gA : Seg := ⟨4, [1,0,0,0, 2,2,3,0, 5,0,0,0, 4,4,0,0]⟩
theorem XA_seg : XA.seg = some gA := exCur_seg
end C01R3DEx
open C01R3DEx C02R3DEx C01R3CEx

-- (a) erase the only pixel of node 5 (frame 2): the node is deleted by a nested `UserDeleteNode`
-- with the stroke's pixels; undo re-creates it with its pixel, regionprops value and lookup entries
example : PaintArgs XA gA 0 [([8], 5)] ∧
    ∃ recs, ((XA.withSeg (gA.setPixels [8] 0)).uUpdateSeg 0 [([8], 5)] 9 false).1.2 = .ok recs ∧
      Chain E XA recs ((XA.withSeg (gA.setPixels [8] 0)).uUpdateSeg 0 [([8], 5)] 9 false).1.1 ∧
      ((XA.withSeg (gA.setPixels [8] 0)).uUpdateSeg 0 [([8], 5)] 9 false).1.1.hasNode 5 = false ∧
      ∃ s₂ recs', ((XA.withSeg (gA.setPixels [8] 0)).uUpdateSeg 0 [([8], 5)] 9 false).1.1.invGroup recs
        = (s₂, .ok recs') ∧ ObsEq s₂ XA := by
  have hP : PaintArgs XA gA 0 [([8], 5)] := ⟨2, by decide, by decide⟩
  have hok : ∃ recs, ((XA.withSeg (gA.setPixels [8] 0)).uUpdateSeg 0 [([8], 5)] 9 false).1.2 = .ok recs :=
    ⟨_, rfl⟩
  obtain ⟨recs, hok⟩ := hok
  obtain ⟨h1, _, h3⟩ := C01_user_updateSeg XA gA 0 [([8], 5)] 9 false recs XA_inv XA_seg hP hok
  obtain ⟨s₂, recs', a, b, _⟩ := h3 _ (E_isEquiv.refl _)
  exact ⟨hP, recs, hok, h1, by decide, s₂, recs', a, b⟩

-- (b) paint label 3 over pixel 5 of node 2 (frame 1): node 2 shrinks, node 3 grows — two
-- `UpdateNodeSeg` records; both are read against the unpainted array
example : ∃ recs, ((XA.withSeg (gA.setPixels [5] 3)).uUpdateSeg 3 [([5], 2)] 9 false).1.2 = .ok recs ∧
    recs = [.updSeg 2 [5] false, .updSeg 3 [5] true] ∧
    Chain E XA recs ((XA.withSeg (gA.setPixels [5] 3)).uUpdateSeg 3 [([5], 2)] 9 false).1.1 ∧
    ∃ s₂ recs', ((XA.withSeg (gA.setPixels [5] 3)).uUpdateSeg 3 [([5], 2)] 9 false).1.1.invGroup recs
      = (s₂, .ok recs') ∧ ObsEq s₂ XA ∧ s₂.seg = some gA := by
  have hP : PaintArgs XA gA 3 [([5], 2)] := ⟨1, by decide, by decide⟩
  have hok : ∃ recs, ((XA.withSeg (gA.setPixels [5] 3)).uUpdateSeg 3 [([5], 2)] 9 false).1.2 = .ok recs :=
    ⟨_, rfl⟩
  obtain ⟨recs, hok⟩ := hok
  obtain ⟨h1, _, h3⟩ := C01_user_updateSeg XA gA 3 [([5], 2)] 9 false recs XA_inv XA_seg hP hok
  obtain ⟨s₂, recs', a, b, _⟩ := h3 _ (E_isEquiv.refl _)
  refine ⟨recs, hok, ?_, h1, s₂, recs', a, b, b.seg.trans XA_seg⟩
  exact (Except.ok.inj (hok.symm.trans rfl))

-- (c) paint the new label 6 over two background pixels of frame 2 and the pixel of node 5: node 5 is
-- deleted, node 6 is created on track 2 by a nested `UserAddNode` (spliced into the skip edge (2, 4))
example : ∃ recs, ((XA.withSeg (gA.setPixels [8, 9, 10] 6)).uUpdateSeg 6 [([8], 5), ([9, 10], 0)] 2 false).1.2
      = .ok recs ∧
    Chain E XA recs ((XA.withSeg (gA.setPixels [8, 9, 10] 6)).uUpdateSeg 6 [([8], 5), ([9, 10], 0)] 2 false).1.1 ∧
    Inv ((XA.withSeg (gA.setPixels [8, 9, 10] 6)).uUpdateSeg 6 [([8], 5), ([9, 10], 0)] 2 false).1.1 ∧
    ∃ s₂ recs', ((XA.withSeg (gA.setPixels [8, 9, 10] 6)).uUpdateSeg 6 [([8], 5), ([9, 10], 0)] 2 false).1.1.invGroup
      recs = (s₂, .ok recs') ∧ ObsEq s₂ XA := by
  have hP : PaintArgs XA gA 6 [([8], 5), ([9, 10], 0)] := ⟨2, by decide, by decide⟩
  have hok : ∃ recs, ((XA.withSeg (gA.setPixels [8, 9, 10] 6)).uUpdateSeg 6 [([8], 5), ([9, 10], 0)] 2 false).1.2
      = .ok recs := ⟨_, rfl⟩
  obtain ⟨recs, hok⟩ := hok
  obtain ⟨h1, h2, h3⟩ := C01_user_updateSeg XA gA 6 [([8], 5), ([9, 10], 0)] 2 false recs XA_inv XA_seg hP hok
  obtain ⟨s₂, recs', a, b, _⟩ := h3 _ (E_isEquiv.refl _)
  exact ⟨recs, hok, h1, h2, s₂, recs', a, b⟩
#print axioms C01_user_updateSeg

/-- **… at session level**: an accepted `step (.paint …)` from an `Inv` state under the stroke
    preconditions appends one history entry that is a lawful chain from the unpainted state to the
    new state, which satisfies `Inv` again (the `ok` half of `PaintLaw`) -/
theorem C01_step_paint (s : St) (v : Nat) (groups : List (List Pix × Nat)) (tid : Nat) (f : Bool)
    (hI : Inv s) (hpre : OpPre s (.paint v groups tid f)) (hok : (s.step (.paint v groups tid f)).2 = .ok) :
    ∃ recs, (s.step (.paint v groups tid f)).1.hist = s.hist.add recs ∧
      Chain E s recs (s.step (.paint v groups tid f)).1 ∧ Inv (s.step (.paint v groups tid f)).1 :=
  paint_step_ok hI hpre hok
example : (XA.step (.paint 3 [([5], 2)] 9 false)).2 = .ok ∧
    ∃ recs, Chain E XA recs (XA.step (.paint 3 [([5], 2)] 9 false)).1 ∧
      Inv (XA.step (.paint 3 [([5], 2)] 9 false)).1 := by
  have hpre : OpPre XA (.paint 3 [([5], 2)] 9 false) := by
    intro g hg
    rw [XA_seg] at hg; cases hg
    exact ⟨1, by decide, by decide⟩
  obtain ⟨recs, _, b, c⟩ := C01_step_paint XA 3 [([5], 2)] 9 false XA_inv hpre rfl
  exact ⟨rfl, recs, b, c⟩
#print axioms C01_step_paint
