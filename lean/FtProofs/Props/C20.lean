/-
  C20 — exactly one refresh per successful change.

  "Every successful top-level user action, undo and redo emits the tracks' refresh signal
   exactly once - carrying the new node for edits that create one - while sub-actions nested
   inside a composite action, refused actions, and undo/redo calls with nothing to do emit
   none."

  Model: `St.refreshes` counts the emissions of `tracks.refresh`, `St.lastPayload` is the
  argument of the last emission.  `St.refreshDue op out` says when a call has to emit: an
  accepted top-level edit (`out = .ok`) or an `undo`/`redo` that returned `True`.
  `St.expectedPayload s op` is the payload the property asks for: the new node for `addNode`,
  for a paint the painted label `v` exactly when the paint creates node `v` (label non-zero,
  stroke non-empty, no node `v` left once the erased parts of the stroke are processed),
  `none` for everything else.  All theorems are unconditional (every state, every op).
-/
import FtProofs.HistoryLemmas
open Ft Ft.St

/-- One call of the session: the refresh counter goes up by exactly one, with the right payload,
    if the call is an accepted top-level edit or an undo/redo that returned `True`; otherwise
    (refused edit, undo/redo with nothing to do, an undo/redo whose inverse raised, feature
    switching, queries) the refresh log is untouched. -/
theorem C20_refresh (s : St) (op : Op) :
    (step s op).1.refreshes = s.refreshes + (if refreshDue op (step s op).2 then 1 else 0) ∧
    (step s op).1.lastPayload =
      (if refreshDue op (step s op).2 then expectedPayload s op else s.lastPayload) := by
  cases hd : refreshDue op (step s op).2
  · obtain ⟨h1, h2⟩ := (step_signal s op).2 hd
    simp [h1, h2]
  · obtain ⟨h1, h2⟩ := (step_signal s op).1 hd
    simp [h1, h2]

/-- the cases of the property text, spelled out -/
theorem C20_refresh_cases (s : St) (op : Op) :
    -- accepted top-level edit: one emission, payload = the node it created (if any)
    (op.isTopEdit = true → (step s op).2 = .ok →
      (step s op).1.refreshes = s.refreshes + 1 ∧ (step s op).1.lastPayload = expectedPayload s op) ∧
    -- refused edit: none
    (∀ e, (step s op).2 = .err e →
      (step s op).1.refreshes = s.refreshes ∧ (step s op).1.lastPayload = s.lastPayload) ∧
    -- undo / redo: one emission (no payload) iff they returned True
    ((op = .undo ∨ op = .redo) → (step s op).2 = .bool true →
      (step s op).1.refreshes = s.refreshes + 1 ∧ (step s op).1.lastPayload = none) ∧
    ((op = .undo ∨ op = .redo) → (step s op).2 = .bool false → (step s op).1 = s) := by
  refine ⟨fun he hok => ?_, fun e herr => ?_, fun hop hb => ?_, fun hop hb => ?_⟩
  · exact (step_signal s op).1 (by rw [hok]; exact refreshDue_edit_ok op he)
  · exact (step_signal s op).2 (by rw [herr]; exact refreshDue_err op e)
  · have hd : refreshDue op (step s op).2 = true := by
      rcases hop with h | h <;> subst h <;> rw [hb] <;> rfl
    have hp : expectedPayload s op = none := by rcases hop with h | h <;> subst h <;> rfl
    rw [← hp]; exact (step_signal s op).1 hd
  · rcases hop with h | h <;> subst h
    · by_cases hle : s.hist.undo.length ≤ s.hist.redo.length
      · rw [step_undo_none s hle]
      · exfalso
        have hlt : s.hist.redo.length < s.hist.undo.length := by omega
        have hidx : s.hist.undo.length - s.hist.redo.length - 1 < s.hist.undo.length := by omega
        have ha := List.getElem?_eq_getElem hidx
        cases hg : (s.invGroup (s.hist.undo[s.hist.undo.length - s.hist.redo.length - 1])).2 with
        | ok r => rw [step_undo_ok s _ r hlt ha hg] at hb; cases hb
        | error e => rw [step_undo_err s _ e hlt ha hg] at hb; cases hb
    · rcases List.eq_nil_or_concat s.hist.redo with hnil | ⟨rs, a, hcat⟩
      · rw [step_redo_none s hnil]
      · exfalso
        have hcat' : s.hist.redo = rs ++ [a] := by simpa using hcat
        cases hg : (s.invGroup a).2 with
        | ok r => rw [step_redo_ok s rs a r hcat' hg] at hb; cases hb
        | error e => rw [step_redo_err s rs a e hcat' hg] at hb; cases hb

/-- sub-actions nested inside a composite action emit nothing: no user action (and no
    primitive, no `ActionGroup.inverse`) touches the refresh log — only `step` does, once, at
    top level -/
theorem C20_refresh_nested (s : St) :
    (∀ e f, (s.uAddEdge e f).1.refreshes = s.refreshes ∧ (s.uAddEdge e f).1.lastPayload = s.lastPayload) ∧
    (∀ e, (s.uDeleteEdge e).1.refreshes = s.refreshes ∧ (s.uDeleteEdge e).1.lastPayload = s.lastPayload) ∧
    (∀ a, (s.uAddNode a).1.refreshes = s.refreshes ∧ (s.uAddNode a).1.lastPayload = s.lastPayload) ∧
    (∀ n px, (s.uDeleteNode n px).1.refreshes = s.refreshes ∧ (s.uDeleteNode n px).1.lastPayload = s.lastPayload) ∧
    (∀ a b, (s.uSwap a b).1.refreshes = s.refreshes ∧ (s.uSwap a b).1.lastPayload = s.lastPayload) ∧
    (∀ v g t f, (s.uUpdateSeg v g t f).1.1.refreshes = s.refreshes ∧
                (s.uUpdateSeg v g t f).1.1.lastPayload = s.lastPayload) ∧
    (∀ n at_, (s.uUpdateAttrs n at_).1.refreshes = s.refreshes ∧
              (s.uUpdateAttrs n at_).1.lastPayload = s.lastPayload) ∧
    (∀ recs, (s.invGroup recs).1.refreshes = s.refreshes ∧ (s.invGroup recs).1.lastPayload = s.lastPayload) :=
  ⟨fun e f => ⟨refreshes_of_ctl (ctl_uAddEdge s e f), lastPayload_of_ctl (ctl_uAddEdge s e f)⟩,
   fun e => ⟨refreshes_of_ctl (ctl_uDeleteEdge s e), lastPayload_of_ctl (ctl_uDeleteEdge s e)⟩,
   fun a => ⟨refreshes_of_ctl (ctl_uAddNode s a), lastPayload_of_ctl (ctl_uAddNode s a)⟩,
   fun n px => ⟨refreshes_of_ctl (ctl_uDeleteNode s n px), lastPayload_of_ctl (ctl_uDeleteNode s n px)⟩,
   fun a b => ⟨refreshes_of_ctl (ctl_uSwap s a b), lastPayload_of_ctl (ctl_uSwap s a b)⟩,
   fun v g t f => ⟨refreshes_of_ctl (ctl_uUpdateSeg s v g t f), lastPayload_of_ctl (ctl_uUpdateSeg s v g t f)⟩,
   fun n at_ => ⟨refreshes_of_ctl (ctl_uUpdateAttrs s n at_), lastPayload_of_ctl (ctl_uUpdateAttrs s n at_)⟩,
   fun recs => ⟨refreshes_of_ctl (ctl_invGroup s recs), lastPayload_of_ctl (ctl_invGroup s recs)⟩⟩

/-- over a whole sequence of calls: total emissions = number of calls that had to emit -/
theorem C20_refresh_run (s : St) (ops : List Op) :
    (finalSt s ops).refreshes = s.refreshes + dueCount s ops :=
  finalSt_refreshes ops s

/-! non-vacuity: two nodes with masks in consecutive frames (frame size 4) -/
namespace C20Ex
def s : St :=
  { nodes := [{ id := 1, time := 0, tid := 1, lin := some 1 }, { id := 2, time := 1, tid := 2, lin := some 2 }],
    seg := some ⟨4, [1, 0, 0, 0, 2, 0, 0, 0]⟩,
    t2n := [(1, [1]), (2, [2])], l2n := [(1, [1]), (2, [2])], maxTid := 2, maxLin := 2 }
/-- accepted composite edit (2 primitives), refused edit, paint creating node 3, paint extending
    node 1, undo ×4 (the 4th has nothing to do), redo, query, add-node by position -/
def ops : List Op :=
  [.addEdge (1, 2) false, .addEdge (2, 1) false, .paint 3 [([1], 0)] 5 false, .paint 1 [([2], 0)] 1 false,
   .undo, .undo, .undo, .undo, .redo, .qHasTrack 1 0,
   .addNode { node := 7, time := some 1, tid := some 9, lin := none, other := [], pixels := none, force := false }]
end C20Ex

example :
    -- accepted composite edit: one refresh, no payload
    ((step C20Ex.s (.addEdge (1, 2) false)).2, (step C20Ex.s (.addEdge (1, 2) false)).1.refreshes,
      (step C20Ex.s (.addEdge (1, 2) false)).1.lastPayload) = (.ok, 1, none) ∧
    -- refused: none
    ((step C20Ex.s (.addEdge (2, 1) false)).2, (step C20Ex.s (.addEdge (2, 1) false)).1.refreshes)
      = (.err .invalid, 0) ∧
    -- paint that creates node 3: payload 3;  paint that extends node 1: no payload
    ((step C20Ex.s (.paint 3 [([1], 0)] 5 false)).2, (step C20Ex.s (.paint 3 [([1], 0)] 5 false)).1.refreshes,
      (step C20Ex.s (.paint 3 [([1], 0)] 5 false)).1.lastPayload) = (.ok, 1, some 3) ∧
    expectedPayload C20Ex.s (.paint 3 [([1], 0)] 5 false) = some 3 ∧
    ((step C20Ex.s (.paint 1 [([2], 0)] 1 false)).2, (step C20Ex.s (.paint 1 [([2], 0)] 1 false)).1.lastPayload)
      = (.ok, none) ∧
    -- undo with nothing to do: False, none
    ((step C20Ex.s .undo).2, (step C20Ex.s .undo).1.refreshes) = (.bool false, 0) ∧
    -- the whole sequence: 11 calls, 8 emissions, last payload = the added node
    (dueCount C20Ex.s C20Ex.ops, (finalSt C20Ex.s C20Ex.ops).refreshes,
      (finalSt C20Ex.s C20Ex.ops).lastPayload) = (8, 8, some 7) := by decide

#print axioms C20_refresh
#print axioms C20_refresh_cases
#print axioms C20_refresh_nested
#print axioms C20_refresh_run
