/-
  C15 — "Exporting with a node selection writes exactly the selected nodes plus all their
  ancestors, with every edge among them, so no exported node has a missing parent; an
  accompanying exported segmentation contains the masks of exactly those nodes and background
  elsewhere."

  Model: FtModel/Export.lean — `ancestorsClosure` (= `filter_graph_with_ancestors`: the selection
  plus `nx.ancestors` of every selected node, computed by climbing ALL predecessor links with
  fuel = time of the start node), `exported` / `exportedEdges` (rows of the CSV, nodes and edges
  of the GEFF subgraph), `maskSeg` (GEFF's chunk-wise `np.where(np.isin(block, keep), block, 0)`),
  `csvSeg` (CSV's `map_array(seg, ids, track_ids)`).
  `Anc s a n` is the specification: there is a directed path a → … → n (or a = n).
  Hypotheses: every edge goes forward in time (`TimeInc`), edge endpoints are nodes (`EdgesIn`),
  the selection names nodes of the graph (networkx raises otherwise; the driver answers `err:nx`).
  No forest assumption is needed for the closure (merges are climbed through as well); the CSV
  edge statement needs `WF` because the parent column can carry only one parent.
  All statements hold for graphs and selections of any size.
-/
import FtProofs.ExportLemmas
open Ft Ft.Export

/-- exported node set = { n | ∃ m ∈ sel, n is m or an ancestor of m } -/
theorem C15_closure (s : Tracks) (ht : TimeInc s) (he : EdgesIn s) (sel : List Nat)
    (hsel : ∀ m ∈ sel, m ∈ ids s) (n : Nat) :
    n ∈ (exported s (some sel)).map NodeRec.id ↔ ∃ m ∈ sel, Anc s n m := by
  rw [mem_exported_ids, mem_ancestorsClosure ht]
  constructor
  · exact fun h => h.2
  · rintro ⟨m, hm, ha⟩
    exact ⟨ha.mem_ids he (hsel m hm), m, hm, ha⟩

/-- the files contain exactly the exported nodes: ids of the CSV rows / of the GEFF node table -/
theorem C15_closure_files (one : Val) (s : Tracks) (sel : Option (List Nat)) :
    (encodeCsv s sel).rows.filterMap (fun d => getNat d .id) = (exported s sel).map NodeRec.id ∧
    (encodeGeff one s sel).nodes.map Prod.fst = (exported s sel).map NodeRec.id := by
  constructor
  · show ((exported s sel).map (csvRow s)).filterMap _ = _
    rw [List.filterMap_map]
    rw [show ((fun d => getNat d Col.id) ∘ csvRow s) = (fun n => some n.id) from by
      funext n
      show getNat (csvRow s n) .id = _
      unfold getNat
      rw [alook_csvRow s n .id ((mem_csvHeader s _).mpr (by simp))]
      rfl]
    generalize exported s sel = l
    induction l with
    | nil => rfl
    | cons a r ih => simp [ih]
  · show ((exported s sel).map (fun n => (n.id, geffNodeProps s n))).map Prod.fst = _
    rw [List.map_map]
    rfl

/-- 1 → 2 → {3, 4}, 4 → 6 (skip edge), 5 isolated, 8 → 9 a second lineage -/
def exC15 : Tracks :=
  { ndim := 3
    nodes := [⟨4, 2, 3, 1, [0, 0], []⟩, ⟨1, 0, 1, 1, [0, 0], []⟩, ⟨2, 1, 1, 1, [0, 0], []⟩,
              ⟨3, 2, 2, 1, [0, 0], []⟩, ⟨6, 4, 3, 1, [0, 0], []⟩, ⟨5, 2, 7, 4, [0, 0], []⟩,
              ⟨8, 0, 9, 5, [0, 0], []⟩, ⟨9, 1, 9, 5, [0, 0], []⟩]
    edges := [⟨2, 4, []⟩, ⟨1, 2, []⟩, ⟨2, 3, []⟩, ⟨4, 6, []⟩, ⟨8, 9, []⟩]
    seg := some [[1, 8, 8], [2, 9, 0], [3, 4, 5], [0, 0, 0], [6, 6, 0]]
    scale := none
    registry := []
    perAxis := false }

example : TimeInc exC15 ∧ EdgesIn exC15 ∧ WF exC15 ∧
    (exported exC15 (some [6, 9])).map NodeRec.id = [4, 1, 2, 6, 8, 9] ∧
    (exported exC15 (some [3])).map NodeRec.id = [1, 2, 3] ∧
    (exported exC15 (some [1, 5])).map NodeRec.id = [1, 5] ∧
    (exported exC15 (some [])).map NodeRec.id = [] := by decide

#print axioms C15_closure
#print axioms C15_closure_files

/-- no exported node has a missing parent: every predecessor of an exported node is exported -/
theorem C15_parent_closed (s : Tracks) (ht : TimeInc s) (he : EdgesIn s) (sel : List Nat)
    (hsel : ∀ m ∈ sel, m ∈ ids s) (n p : Nat)
    (hn : n ∈ (exported s (some sel)).map NodeRec.id) (hp : p ∈ preds s n) :
    p ∈ (exported s (some sel)).map NodeRec.id := by
  rw [C15_closure s ht he sel hsel] at hn ⊢
  obtain ⟨m, hm, ha⟩ := hn
  exact ⟨m, hm, (Anc.step hp (Anc.refl p)).trans ha⟩

example : preds exC15 6 = [4] ∧ preds exC15 4 = [2] ∧ preds exC15 1 = [] := by decide

#print axioms C15_parent_closed

/-- GEFF: the exported edges are exactly the edges of the graph among the exported nodes
    (with their attributes: `exportedEdges` is a sublist of `s.edges`) -/
theorem C15_edges (s : Tracks) (sel : List Nat) (e : EdgeRec) :
    e ∈ exportedEdges s (some sel) ↔
      e ∈ s.edges ∧ e.src ∈ (exported s (some sel)).map NodeRec.id ∧
        e.dst ∈ (exported s (some sel)).map NodeRec.id := by
  unfold exportedEdges
  simp only [List.mem_filter, Bool.and_eq_true, List.contains_iff_mem]

/-- CSV: the links read back from the parent column of the exported rows are exactly the edges
    of the graph among the exported nodes -/
theorem C15_edges_csv (s : Tracks) (hw : WF s) (ht : TimeInc s) (he : EdgesIn s) (sel : List Nat)
    (hsel : ∀ m ∈ sel, m ∈ ids s) (p c : Nat) :
    (∃ t, decodeCsv (nax s) (encodeCsv s (some sel)) = some t ∧ ((p, c) ∈ t.edges ↔
      (p, c) ∈ edgePairs s ∧ p ∈ (exported s (some sel)).map NodeRec.id ∧
        c ∈ (exported s (some sel)).map NodeRec.id)) := by
  refine ⟨_, decodeCsv_encodeCsv s (some sel) hw.pos_len, ?_⟩
  show (p, c) ∈ parentEdges s (exported s (some sel)) ↔ _
  rw [mem_parentEdges]
  constructor
  · rintro ⟨n, hn, hid, hq⟩
    obtain ⟨e, hem, hd, hs⟩ := parentOf_some hq
    have hc : c ∈ (exported s (some sel)).map NodeRec.id := List.mem_map.mpr ⟨n, hn, hid⟩
    refine ⟨List.mem_map.mpr ⟨e, hem, by simp [endpoints, hd, hs]⟩, ?_, hc⟩
    exact C15_parent_closed s ht he sel hsel c p hc (List.mem_of_mem_head? hq)
  · rintro ⟨hedge, _, hc⟩
    obtain ⟨n, hn, hid⟩ := List.mem_map.mp hc
    obtain ⟨e, hem, hx⟩ := List.mem_map.mp hedge
    simp only [endpoints, Prod.mk.injEq] at hx
    refine ⟨n, hn, hid, ?_⟩
    rw [← hx.2, ← hx.1]
    exact parentOf_of_edge hw hem

example : (exportedEdges exC15 (some [6, 9])).map endpoints = [(2, 4), (1, 2), (4, 6), (8, 9)] ∧
    (decodeCsv (nax exC15) (encodeCsv exC15 (some [6, 9]))).map (·.edges) =
      some [(2, 4), (1, 2), (4, 6), (8, 9)] := by decide

#print axioms C15_edges
#print axioms C15_edges_csv

/-- GEFF: the exported array has the shape of the original and is, pixel by pixel, the label if
    the label is an exported node and background (0) otherwise -/
theorem C15_seg (one : Val) (s : Tracks) (ht : TimeInc s) (he : EdgesIn s) (sel : List Nat)
    (hsel : ∀ m ∈ sel, m ∈ ids s) (frames : List (List Nat)) (hseg : s.seg = some frames) :
    ∃ out : List (List Nat), (encodeGeff one s (some sel)).seg = some out ∧
      out.map List.length = frames.map List.length ∧
      ∀ (t p : Nat) (fr : List Nat) (l : Nat), frames[t]? = some fr → fr[p]? = some l →
        (out[t]?.bind (fun r => r[p]?)) =
          some (if l ∈ (exported s (some sel)).map NodeRec.id then l else 0) := by
  refine ⟨maskSeg (ancestorsClosure s sel) frames, ?_, by simp [maskSeg], ?_⟩
  · show Option.map _ s.seg = _
    rw [hseg]; rfl
  · intro t p fr l hfr hl
    have hval : ((maskSeg (ancestorsClosure s sel) frames)[t]?.bind (fun r => r[p]?)) =
        some (if (ancestorsClosure s sel).contains l then l else 0) := by
      simp [maskSeg, hfr, hl]
    rw [hval]
    by_cases hc : l ∈ ancestorsClosure s sel
    · have hids : l ∈ ids s := by
        obtain ⟨m, hm, ha⟩ := (mem_ancestorsClosure ht sel l).mp hc
        exact ha.mem_ids he (hsel m hm)
      rw [if_pos (List.contains_iff_mem.mpr hc), if_pos ((mem_exported_ids sel l).mpr ⟨hids, hc⟩)]
    · rw [if_neg (by simpa using hc), if_neg (fun h => hc ((mem_exported_ids sel l).mp h).2)]

/-- CSV (`export_seg=True`): every pixel of an exported node carries that node's track id,
    every other pixel is background -/
theorem C15_seg_csv (s : Tracks) (hw : WF s) (sel : Option (List Nat)) (frames : List (List Nat))
    (t p : Nat) (fr : List Nat) (l : Nat) (hfr : frames[t]? = some fr) (hl : fr[p]? = some l) :
    (l ∉ (exported s sel).map NodeRec.id →
      ((csvSeg s sel frames)[t]?.bind (fun r => r[p]?)) = some 0) ∧
    (∀ n ∈ exported s sel, n.id = l →
      ((csvSeg s sel frames)[t]?.bind (fun r => r[p]?)) = some n.tid) := by
  have hval : ((csvSeg s sel frames)[t]?.bind (fun r => r[p]?)) = some (csvLabel s sel l) := by
    simp [csvSeg, hfr, hl]
  refine ⟨?_, ?_⟩
  · intro hnot
    rw [hval]
    have : (exported s sel).find? (fun n => n.id == l) = none := by
      rw [List.find?_eq_none]
      intro n hn hb
      exact hnot (List.mem_map.mpr ⟨n, hn, by simpa using hb⟩)
    unfold csvLabel
    rw [this]
  · intro n hn hid
    rw [hval]
    unfold csvLabel
    cases hf : (exported s sel).find? (fun n => n.id == l) with
    | none =>
      rw [List.find?_eq_none] at hf
      exact absurd (by simpa using hid) (hf n hn)
    | some m =>
      have hm := List.mem_of_find?_eq_some hf
      have hmid : m.id = l := by simpa using List.find?_some hf
      -- distinct node ids: the found node is `n`
      have hinj : m = n :=
        nodup_map_inj NodeRec.id s.nodes hw.ids_nodup m (exported_sub s sel m hm) n
          (exported_sub s sel n hn) (hmid.trans hid.symm)
      rw [hinj]

example : (encodeGeff 99 exC15 (some [3, 9])).seg =
      some [[1, 8, 8], [2, 9, 0], [3, 0, 0], [0, 0, 0], [0, 0, 0]] ∧
    csvSeg exC15 (some [3, 9]) [[1, 8, 8], [2, 9, 0], [3, 4, 5], [0, 0, 0], [6, 6, 0]] =
      [[1, 9, 9], [1, 9, 0], [2, 0, 0], [0, 0, 0], [0, 0, 0]] := by decide

#print axioms C15_seg
#print axioms C15_seg_csv
