/-
  Package R2D — the joint invariant `Valid` (= `Forest ∧ TidOK ∧ LinOK ∧ BookOK ∧ linOn`) through
  an accepted `UserAddNode`, for every path of the action:

    new track (no neighbours) · append after a track end · prepend before a track start ·
    splice into a skip edge · forced upstream division (both division edges removed) ·
    forced downstream division of the parent (one division edge removed).

  C04_step_addNode          `TidOK` re-established
  C05_step_addNode          `LinOK` re-established (lineage chosen by the action: `a.lin = none`)
  C05_note_addNode_caller_lineage   with a caller-supplied lineage `LinOK` can break (decide)
  C06_book_uAddNode         `BookOK` re-established
  C04_valid_uAddNode        `Valid` preserved
  C04_valid_step_addNode    … also by the top-level operation `step (.addNode a)` (history entry, refresh)
  C04_valid_trackNeighbors  the neighbour query (re-sorts one lookup entry) preserves `Valid`
  C04_frame_addNode / C05_frame_addNode          a node not connected to the target track keeps its
                            track id / lineage id; `_unforced`: without `force` every old node does;
                            `C04_frame_addNode_sharp`: only nodes below the track predecessor or below
                            the parent of the track successor can change
  C06_track_present_diverts the requested track id is replaced by the fresh `nextTid` exactly when
                            the track already has a node in that frame

  Shape of the proof (helpers in `FtProofs/R2DLemmas.lean`, namespace `Ft.R2D`):
  `uAddNode_main` exposes the state `s0` after neighbour query + division checks, shows
  `PreOK s0 …` (still `Valid`; predecessor is a childless track end or the source of the skip edge;
  successor is a root or the target of the skip edge; a new track id is unused) and describes the
  final state as an insertion `Ins s0 s' …`; `tid_insert` / `lin_insert` do the graph reasoning.
-/
import FtProofs.R2DLemmas
open Ft Ft.St Ft.R2D

/-! ## C04: track ids -/

/-- accepted `UserAddNode` (forced or not, any of the six paths) re-establishes `TidOK` -/
theorem C04_step_addNode {s : St} {a : AddNodeArgs} {recs : List PrimRec} (hV : s.Valid)
    (hok : (s.uAddNode a).2 = .ok recs) : (s.uAddNode a).1.TidOK :=
  uAddNode_tidOK hV hok

-- new track 9 · append to track 4 · prepend to track 5 · splice into 5→6 ·
-- forced below the division at 2 (track 1, frame 2) · forced above the division child 3
example : exS.Valid ∧
    (∃ r, (exS.uAddNode ⟨9, some 1, some 9, none, [], none, false⟩).2 = .ok r) ∧
    (∃ r, (exS.uAddNode ⟨9, some 5, some 4, none, [], none, false⟩).2 = .ok r) ∧
    (∃ r, (exS.uAddNode ⟨9, some 1, some 5, none, [], none, false⟩).2 = .ok r) ∧
    (∃ r, (exS.uAddNode ⟨9, some 1, some 4, none, [], none, false⟩).2 = .ok r) ∧
    (∃ r, (exS.uAddNode ⟨9, some 2, some 1, none, [], none, true⟩).2 = .ok r) ∧
    (∃ r, (exS.uAddNode ⟨9, some 1, some 2, none, [], none, true⟩).2 = .ok r) ∧
    (exS.uAddNode ⟨9, some 1, some 4, none, [], none, false⟩).1.edgeList =
      [(1, 2), (2, 3), (2, 4), (5, 9), (9, 6)] ∧
    (exS.uAddNode ⟨9, some 2, some 1, none, [], none, true⟩).1.edgeList = [(1, 2), (5, 6), (2, 9)] ∧
    (exS.uAddNode ⟨9, some 1, some 2, none, [], none, true⟩).1.edgeList =
      [(1, 2), (2, 4), (5, 6), (9, 3)] :=
  ⟨exS_valid, ⟨_, rfl⟩, ⟨_, rfl⟩, ⟨_, rfl⟩, ⟨_, rfl⟩, ⟨_, rfl⟩, ⟨_, rfl⟩, by decide, by decide, by decide⟩
#print axioms C04_step_addNode

/-! ## C05: lineage ids -/

/-- accepted `UserAddNode` re-establishes `LinOK` when the action chooses the lineage itself
    (what every caller in the code base does) -/
theorem C05_step_addNode {s : St} {a : AddNodeArgs} {recs : List PrimRec} (hV : s.Valid)
    (hlin : a.lin = none) (hok : (s.uAddNode a).2 = .ok recs) : (s.uAddNode a).1.LinOK :=
  uAddNode_linOK hV hlin hok

-- forced downstream: the cut-off child 3 gets the fresh lineage 4 and the new root 9 inherits it;
-- new track: fresh lineage 4
example : exS.Valid ∧
    (∃ r, (exS.uAddNode ⟨9, some 1, some 2, none, [], none, true⟩).2 = .ok r) ∧
    (exS.uAddNode ⟨9, some 1, some 2, none, [], none, true⟩).1.linOf 3 = some 4 ∧
    (exS.uAddNode ⟨9, some 1, some 2, none, [], none, true⟩).1.linOf 9 = some 4 ∧
    (exS.uAddNode ⟨9, some 1, some 9, none, [], none, false⟩).1.linOf 9 = some 4 ∧
    (exS.uAddNode ⟨9, some 1, some 4, none, [], none, false⟩).1.linOf 9 = some 2 :=
  ⟨exS_valid, ⟨_, rfl⟩, by decide, by decide, by decide, by decide⟩
#print axioms C05_step_addNode

/-- the hypothesis `a.lin = none` is needed: a caller-supplied lineage is stored as given, so an
    isolated new node with the lineage of another root breaks (L2) -/
theorem C05_note_addNode_caller_lineage :
    exS.Valid ∧ (∃ r, (exS.uAddNode ⟨9, some 1, some 9, some 1, [], none, false⟩).2 = .ok r) ∧
    ¬ (exS.uAddNode ⟨9, some 1, some 9, some 1, [], none, false⟩).1.LinOK := by
  refine ⟨exS_valid, ⟨_, rfl⟩, fun h => ?_⟩
  exact h.roots 1 9 (tk_isRoot_iff.2 (by decide)) (tk_isRoot_iff.2 (by decide)) (by decide) (by decide)
#print axioms C05_note_addNode_caller_lineage

/-! ## C06: bookkeeping -/

/-- accepted `UserAddNode` keeps the lookups exact (the new id is fresh: the action refuses
    existing ids) -/
theorem C06_book_uAddNode {s : St} {a : AddNodeArgs} {recs : List PrimRec} (hV : s.Valid)
    (hok : (s.uAddNode a).2 = .ok recs) : (s.uAddNode a).1.BookOK :=
  (uAddNode_bookOK hV hok).1

example : exS.Valid ∧
    (∃ r, (exS.uAddNode ⟨9, some 2, some 1, none, [], none, true⟩).2 = .ok r) ∧
    (exS.uAddNode ⟨9, some 2, some 1, none, [], none, true⟩).1.t2n =
      [(1, [1, 2, 9]), (4, [5, 6]), (5, [7]), (2, [3]), (6, [4])] ∧
    (exS.uAddNode ⟨9, some 2, some 1, none, [], none, true⟩).1.l2n =
      [(1, [1, 2, 9]), (2, [5, 6]), (3, [7]), (4, [3]), (5, [4])] :=
  ⟨exS_valid, ⟨_, rfl⟩, by decide, by decide⟩
#print axioms C06_book_uAddNode

/-- if the requested track already has a node in the frame, the new node is put on the fresh
    track `nextTid` (unused by `C06_fresh_tid`); otherwise it gets the requested id -/
theorem C06_track_present_diverts {s : St} {a : AddNodeArgs} {recs : List PrimRec} (hV : s.Valid)
    (hok : (s.uAddNode a).2 = .ok recs) {time tid0 : Nat} (ht : a.time = some time)
    (hd : a.tid = some tid0) :
    ((∃ n, n ∈ s.ids ∧ s.tidOf n = some tid0 ∧ s.timeOf n = some time) →
        (s.uAddNode a).1.tidOf a.node = some s.nextTid) ∧
    ((¬ ∃ n, n ∈ s.ids ∧ s.tidOf n = some tid0 ∧ s.timeOf n = some time) →
        (s.uAddNode a).1.tidOf a.node = some tid0) ∧
    (∀ n, s.tidOf n ≠ some s.nextTid) := by
  have hnew := uAddNode_tid_new hV hok ht hd
  have hT := ((PC.bookOK_iff s).1 hV.book).1
  have hspec := PC.hasTrackAt_spec s hT tid0 time
  refine ⟨?_, ?_, ?_⟩
  · intro h
    rw [hnew]; unfold addTid; rw [if_pos (hspec.2 h)]
  · intro h
    rw [hnew]; unfold addTid; rw [if_neg (fun hh => h (hspec.1 hh))]
  · intro n hn
    have := hV.book.t_max n _ hn
    unfold nextTid at this; omega

-- track 1 has node 2 in frame 1: the new node goes to track 6 = nextTid
example : exS.Valid ∧ (∃ r, (exS.uAddNode ⟨9, some 1, some 1, none, [], none, false⟩).2 = .ok r) ∧
    (∃ n, n ∈ exS.ids ∧ exS.tidOf n = some 1 ∧ exS.timeOf n = some 1) ∧ exS.nextTid = 6 ∧
    (exS.uAddNode ⟨9, some 1, some 1, none, [], none, false⟩).1.tidOf 9 = some 6 :=
  ⟨exS_valid, ⟨_, rfl⟩, ⟨2, by decide, by decide, by decide⟩, rfl, by decide⟩
#print axioms C06_track_present_diverts

/-! ## the joint invariant -/

/-- **accepted `UserAddNode` preserves `Valid`** -/
theorem C04_valid_uAddNode {s : St} {a : AddNodeArgs} {recs : List PrimRec} (hV : s.Valid)
    (hlin : a.lin = none) (hok : (s.uAddNode a).2 = .ok recs) : (s.uAddNode a).1.Valid :=
  uAddNode_valid hV hlin hok

-- the six paths again, with the Boolean checker confirming the conclusion
example : exS.Valid ∧
    validB (exS.uAddNode ⟨9, some 1, some 9, none, [], none, false⟩).1 = true ∧
    validB (exS.uAddNode ⟨9, some 5, some 4, none, [], none, false⟩).1 = true ∧
    validB (exS.uAddNode ⟨9, some 1, some 5, none, [], none, false⟩).1 = true ∧
    validB (exS.uAddNode ⟨9, some 1, some 4, none, [], none, false⟩).1 = true ∧
    validB (exS.uAddNode ⟨9, some 2, some 1, none, [], none, true⟩).1 = true ∧
    validB (exS.uAddNode ⟨9, some 1, some 2, none, [], none, true⟩).1 = true :=
  ⟨exS_valid, by decide, by decide, by decide, by decide, by decide, by decide⟩
#print axioms C04_valid_uAddNode

/-- session level: an accepted top-level `addNode` operation (history entry + refresh included)
    preserves `Valid` -/
theorem C04_valid_step_addNode {s : St} {a : AddNodeArgs} (hV : s.Valid) (hlin : a.lin = none)
    (hok : (s.step (.addNode a)).2 = .ok) : (s.step (.addNode a)).1.Valid :=
  valid_commit (fun _ h => uAddNode_valid hV hlin h) hok

example : exS.Valid ∧ (exS.step (.addNode ⟨9, some 1, some 2, none, [], none, true⟩)).2 = .ok ∧
    (exS.step (.addNode ⟨9, some 1, some 2, none, [], none, true⟩)).1.refreshes = 1 :=
  ⟨exS_valid, by decide, by decide⟩
#print axioms C04_valid_step_addNode

/-- the neighbour query (which re-sorts one lookup entry in place) preserves `Valid` -/
theorem C04_valid_trackNeighbors {s : St} (hV : s.Valid) (tid time : Nat) :
    (s.trackNeighbors tid time).1.Valid ∧ (s.step (.qNeighbors tid time)).1.Valid :=
  ⟨valid_trackNeighbors hV tid time, valid_trackNeighbors hV tid time⟩

example : exS.Valid ∧ (exS.trackNeighbors 4 1).2 = (some 5, some 6) := ⟨exS_valid, by decide⟩
#print axioms C04_valid_trackNeighbors

/-! ## frame clauses -/

/-- a node that is not connected to any node of the target track keeps its track id -/
theorem C04_frame_addNode {s : St} {a : AddNodeArgs} {recs : List PrimRec} (hV : s.Valid)
    (hok : (s.uAddNode a).2 = .ok recs) {time tid0 : Nat} (ht : a.time = some time)
    (hd : a.tid = some tid0) (n : Node) (hn : n ≠ a.node)
    (hfar : ∀ m, s.tidOf m = some (addTid s tid0 time) → ¬ s.Conn n m) :
    (s.uAddNode a).1.tidOf n = s.tidOf n :=
  (uAddNode_frame_conn hV hok ht hd n hn hfar).1

/-- a node that is not connected to any node of the target track keeps its lineage id -/
theorem C05_frame_addNode {s : St} {a : AddNodeArgs} {recs : List PrimRec} (hV : s.Valid)
    (hok : (s.uAddNode a).2 = .ok recs) {time tid0 : Nat} (ht : a.time = some time)
    (hd : a.tid = some tid0) (n : Node) (hn : n ≠ a.node)
    (hfar : ∀ m, s.tidOf m = some (addTid s tid0 time) → ¬ s.Conn n m) :
    (s.uAddNode a).1.linOf n = s.linOf n :=
  (uAddNode_frame_conn hV hok ht hd n hn hfar).2

-- forced upstream division on track 1: node 6 (other lineage) is not connected to track 1
example : exS.Valid ∧ (∃ r, (exS.uAddNode ⟨9, some 2, some 1, none, [], none, true⟩).2 = .ok r) ∧
    addTid exS 1 2 = 1 ∧ (∀ m, exS.tidOf m = some 1 → ¬ exS.Conn 6 m) ∧
    (exS.uAddNode ⟨9, some 2, some 1, none, [], none, true⟩).1.tidOf 4 = some 6 := by
  refine ⟨exS_valid, ⟨_, rfl⟩, by decide, ?_, by decide⟩
  intro m hm hc
  have h1 := LinOK.of_conn exS_valid.lin hc
  have hmem := PC.tidOf_some_mem hm
  have : ∀ m ∈ exS.ids, exS.tidOf m = some 1 → exS.linOf 6 ≠ exS.linOf m := by decide
  exact this m hmem hm h1
#print axioms C04_frame_addNode
#print axioms C05_frame_addNode

/-- without `force` an accepted `UserAddNode` changes no id of an old node -/
theorem C04_frame_addNode_unforced {s : St} {a : AddNodeArgs} {recs : List PrimRec} (hV : s.Valid)
    (hok : (s.uAddNode a).2 = .ok recs) (hf : a.force = false) (n : Node) (hn : n ≠ a.node) :
    (s.uAddNode a).1.tidOf n = s.tidOf n ∧ (s.uAddNode a).1.linOf n = s.linOf n :=
  uAddNode_frame_unforced hV hok hf n hn

example : exS.Valid ∧ (∃ r, (exS.uAddNode ⟨9, some 1, some 4, none, [], none, false⟩).2 = .ok r) :=
  ⟨exS_valid, _, rfl⟩
#print axioms C04_frame_addNode_unforced

/-- sharp form: only nodes below the track predecessor, or below the parent of the track
    successor, can change an id (these are relabelled by the forced removal of division edges);
    the neighbours are what `get_track_neighbors` returns (`C06_neighbors`) -/
theorem C04_frame_addNode_sharp {s : St} {a : AddNodeArgs} {recs : List PrimRec} (hV : s.Valid)
    (hok : (s.uAddNode a).2 = .ok recs) {time tid0 : Nat} (ht : a.time = some time)
    (hd : a.tid = some tid0) (n : Node) (hn : n ≠ a.node)
    (hp : ∀ p, (s.trackNeighbors (addTid s tid0 time) time).2.1 = some p → ¬ s.Anc p n)
    (hs : ∀ sc pos, (s.trackNeighbors (addTid s tid0 time) time).2.2 = some sc →
      (pos, sc) ∈ s.edgeList → ¬ s.Anc pos n) :
    (s.uAddNode a).1.tidOf n = s.tidOf n ∧ (s.uAddNode a).1.linOf n = s.linOf n :=
  uAddNode_frame hV hok ht hd n hn hp hs

-- forced upstream division below 2: node 1 (above the predecessor 2) keeps its ids, although it
-- is connected to the track
example : exS.Valid ∧ (∃ r, (exS.uAddNode ⟨9, some 2, some 1, none, [], none, true⟩).2 = .ok r) ∧
    (exS.trackNeighbors (addTid exS 1 2) 2).2 = (some 2, none) ∧ ¬ exS.Anc 2 1 := by
  refine ⟨exS_valid, ⟨_, rfl⟩, by decide, ?_⟩
  intro h
  have := h.tm_le exS_valid.forest
  revert this; decide
#print axioms C04_frame_addNode_sharp
