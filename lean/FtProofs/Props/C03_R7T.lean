/-
  C02 / C03 / C11 (package R7T) — the `TracksController` entry points
  (`/repo/src/funtracks/data_model/tracks_controller.py`, model `FtModel/Controller.lean`).

  Vocabulary (`FtProofs/R7TLemmas.lean`, namespace `Ft.R7T`)
  * `ctlStep s c`     one controller call (model).  `ctlSilent s c` = the warning of a silent refusal.
  * `ctlExpand s c`   the list of `St.step` operations the call IS: the `_get_new_node_ids` query of
                      `add_nodes` without pixels, then the elements up to and including the first
                      one that raises; `[]` for a silent refusal or an exception before the loop.
  * `CtlPre s c`      the lifted argument precondition: every element that is reached satisfies
                      `OpOK` (= `OpPre` for an edit) at the state where it is applied; the calls
                      `delete_nodes / add_edges / delete_edges / swap_predecessors / undo / redo /
                      is_valid` have NO precondition (`ctlPre_free`); `update_node_attrs`: `OpPre` of
                      every row (`AttrsPre`) — since the repair of `_update_node_attrs` (rollback of
                      the applied updates when a later node raises; `C11_controller_update_attrs_refused`)
                      nothing else is needed.
  * `ctlFinal s t cs` a controller session with its timeline; `CtlSessOK s cs` every call admissible.
  * `Added s s' k`    `s'` = `s` after `k` × `add_new_action` and `k` × `refresh.emit`.
-/
import FtProofs.R7TLemmas
import FtProofs.Props.C02_R3D_main
open Ft Ft.St Ft.R2A1 Ft.R3P Ft.R3D Ft.R7T List
open C02R3DEx C01R3CEx C01R3DEx

namespace C03R7TEx
/-- a controller session on the graph-only state `XG` (1@0 → {2@1, 3@1}, 2 → 4@3, 5@2; position key 7):
    update two nodes in one call (ONE history entry), an update of two nodes whose second node does
    not exist (raises; the first node is rolled back), delete two edges in one call (two entries), add
    two edges in one call, undo ×2, redo, an `add_edges` silently refused (the edge exists),
    `delete_nodes` whose second element raises (the first stays deleted), a swap turned into a
    warning, `add_edges` with a backward pair (`is_valid` accepts, `UserAddEdge` raises), `is_valid` -/
def sessC : List CtlOp :=
  [.updateNodeAttrs [5, 4] [(7, [.tok 9, .tok 8])],
   .updateNodeAttrs [5, 99] [(7, [.tok 1, .tok 2])],
   .deleteEdges [(1, 2), (2, 4)],
   .addEdges [(2, 5), (5, 4)] false,
   .undo, .undo, .redo,
   .addEdges [(1, 3)] false,
   .deleteNodes [3, 99],
   .swapPredecessors 1 2,
   .addEdges [(4, 2)] false,
   .isValid (2, 5)]

theorem rows_pre (s : St) (hr : s.regNode = [7]) (n0 n1 : Node) (v0 v1 : Int) :
    CtlPre s (.updateNodeAttrs [n0, n1] [(7, [.tok v0, .tok v1])]) := by
  intro p hp row hrow
  have h1 : p ∈ [((0 : Nat), n0), (1, n1)] := hp
  have h2 : p = (0, n0) ∨ p = (1, n1) := by
    simpa only [List.mem_cons, List.mem_nil_iff, or_false] using h1
  have key : ∀ v : Int, OpPre s (.updAttrs p.2 [(7, .tok v)]) := by
    intro v kv hkv
    rw [List.mem_singleton.1 hkv]
    exact ⟨fun _ => by rw [hr]; exact List.mem_singleton.2 rfl, fun _ _ => by intro h; cases h⟩
  rcases h2 with rfl | rfl
  · have h : attrRow [(7, [Val.tok v0, Val.tok v1])] 0 = some [(7, .tok v0)] := rfl
    rw [h] at hrow; cases hrow; exact key v0
  · have h : attrRow [(7, [Val.tok v0, Val.tok v1])] 1 = some [(7, .tok v1)] := rfl
    rw [h] at hrow; cases hrow; exact key v1

theorem upd_pre : CtlPre XG (.updateNodeAttrs [5, 4] [(7, [.tok 9, .tok 8])]) :=
  rows_pre XG rfl 5 4 9 8

theorem sessC_ok : CtlSessOK XG sessC :=
  ⟨upd_pre, rows_pre _ (by decide) 5 99 1 2,
    ctlPre_free _ trivial, ctlPre_free _ trivial, ctlPre_free _ trivial, ctlPre_free _ trivial,
    ctlPre_free _ trivial, ctlPre_free _ trivial, ctlPre_free _ trivial, ctlPre_free _ trivial,
    ctlPre_free _ trivial, ctlPre_free _ trivial, trivial⟩

/-- `add_nodes` without pixels: two rows (time 2 / 3 on the new track 9, position column 7); the ids
    6, 7 come from `_get_new_node_ids` -/
def addTwo : CtlOp :=
  .addNodes { cols := { time := some [2, 3], tid := some [9, 9], other := [(7, [.tok 1, .tok 2])] },
              pixels := none, force := false, idKey := 30 }
def sessN : List CtlOp := [addTwo, .undo, .deleteNodes [6]]

/-- `add_nodes` WITH pixels on the array state `XA`: node 6 at frame 2 on pixels 9, 10, new track 7;
    `k` = the attribute key under which the column "node_id" ends up on the node -/
def addPx (k : Key) : CtlOp :=
  .addNodes { cols := { time := some [2], tid := some [7], nodeId := some [6] },
              pixels := some [[9, 10]], force := false, idKey := k }
/-- `update_segmentations`: paint the new label 6 over pixel 8 of node 5 and the background pixels 9, 10 -/
def paintC : CtlOp := .updateSegmentations 6 [([8], 5), ([9, 10], 0)] 2 false
/-- a controller session on `XA`: paint (node 5 is erased, node 6 created), undo, `add_nodes` with pixels
    (the "node_id" column stored under the registered key 7), `delete_edges` of two edges, undo -/
def sessA2 : List CtlOp := [paintC, .undo, addPx 7, .deleteEdges [(1, 2), (2, 4)], .undo]

theorem sessA2_ok : CtlSessOK XA sessA2 := by
  have p1 : CtlPre XA paintC := by
    show ElemsPre XA [some (.paint 6 [([8], 5), ([9, 10], 0)] 2 false)]
    refine ⟨.inr (.inr (.inr ⟨rfl, ?_⟩)), fun _ => trivial⟩
    intro g hg; rw [XA_seg] at hg; cases hg; exact ⟨2, by decide, by decide⟩
  refine ⟨p1, ctlPre_free _ trivial, ?_, ctlPre_free _ trivial, ctlPre_free _ trivial, trivial⟩
  have hs : ((XA.ctlStep paintC).1.ctlStep .undo).1.seg = some gA := by decide
  show ElemsPre ((XA.ctlStep paintC).1.ctlStep .undo).1
    [some (.addNode { node := 6, time := some 2, tid := some 7, lin := none, other := [(7, .tok 6)],
                      pixels := some [9, 10], force := false })]
  refine ⟨.inr (.inr (.inr ⟨rfl, rfl, ⟨by decide, by decide, fun h => ?_, fun _ _ => by decide,
    fun g t hg ht => ?_, fun g ps t hg hp ht => ?_⟩, fun g hg => ?_⟩)), fun _ => trivial⟩
  · rw [hs] at h; cases h
  · rw [hs] at hg; cases hg; cases ht; decide
  · rw [hs] at hg; cases hg; cases hp; cases ht; decide
  · rw [hs] at hg; cases hg
    exact ⟨by decide, [9, 10], 2, rfl, rfl, by decide, by decide⟩

/-- three nodes in a row on one track -/
def chain3 : St :=
  { nodes := [⟨1, 0, 1, some 1, []⟩, ⟨2, 1, 1, some 1, []⟩, ⟨3, 2, 1, some 1, []⟩],
    edges := [⟨(1, 2), []⟩, ⟨(2, 3), []⟩],
    t2n := [(1, [1, 2, 3])], l2n := [(1, [1, 2, 3])], maxTid := 1, maxLin := 1, counter := 4 }
/-- one root and three isolated nodes in the next frame -/
def star4 : St :=
  { nodes := [⟨1, 0, 1, some 1, []⟩, ⟨2, 1, 2, some 2, []⟩, ⟨3, 1, 3, some 3, []⟩, ⟨4, 1, 4, some 4, []⟩],
    t2n := [(1, [1]), (2, [2]), (3, [3]), (4, [4])], l2n := [(1, [1]), (2, [2]), (3, [3]), (4, [4])],
    maxTid := 4, maxLin := 4, counter := 5 }
end C03R7TEx
open C03R7TEx

/-- **a controller call is a list of session steps.** Every call other than `update_node_attrs`
    leaves exactly the state that the fold of `St.step` over `ctlExpand s c` leaves — including the
    silent refusals (`ctlExpand = []`), the generated node ids of `add_nodes` (a `qNewIds` step first)
    and an exception raised by the k-th element (the first k−1 elements and the raising one are the
    list). Under `CtlPre` that list is an admissible session (`SessOK`). `update_node_attrs` is the one
    call that is not a list of steps: it registers ONE history entry for all its nodes. -/
theorem C03_controller_expand (s : St) (c : CtlOp) (hc : ¬ IsUpdAttrs c) :
    (s.ctlStep c).1 = finalSt s (ctlExpand s c) ∧
    (CtlPre s c → SessOK s (ctlExpand s c)) ∧
    (∀ r, s.ctlSilent c = some r → ctlElems s c = [] ∨ ∃ a b, c = .swapPredecessors a b) := by
  refine ⟨ctlStep_expand s c hc, fun h => ?_, fun r hr => ?_⟩
  · rw [ctlPre_of_not hc] at h; exact sessOK_expand h
  · cases c with
    | addEdges es f =>
      left
      simp only [ctlSilent] at hr
      simp only [ctlElems]
      split at hr
      · rename_i q hq; rw [hq]
      · cases hr
    | deleteEdges es =>
      left
      simp only [ctlSilent] at hr
      simp only [ctlElems]
      split at hr
      · cases hr
      · rename_i hq; rw [if_neg hq]
    | swapPredecessors a b => exact .inr ⟨a, b, rfl⟩
    | _ => cases hr
-- `add_edges` of two edges = two `addEdge` steps; a silent refusal = no step; `delete_nodes [3, 99]`
-- = the accepted `delNode 3` and the raising `delNode 99`; `add_nodes` of two rows = `qNewIds 2` and
-- two `addNode` steps with the generated ids
example : (ctlExpand XG (.addEdges [(3, 5), (5, 4)] true)).length = 2 ∧
    ctlExpand XG (.addEdges [(1, 2)] false) = [] ∧ XG.ctlSilent (.addEdges [(1, 2)] false) = some (.reject .exists_) ∧
    (ctlExpand XG (.deleteNodes [3, 99, 5])).length = 2 ∧ (XG.ctlStep (.deleteNodes [3, 99, 5])).2 = .err .key ∧
    (ctlExpand XG addTwo).length = 3 ∧
    (XG.ctlStep addTwo).1.ids = [1, 2, 3, 4, 5, 6, 7] := by
  refine ⟨by decide, rfl, by decide, by decide, by decide, by decide, by decide⟩
#print axioms C03_controller_expand

/-- **C03 (– C07) and C02 for every admissible controller session.** From a start state with `Inv`
    and an empty history, for EVERY list of controller calls — `add_nodes`, `delete_nodes`,
    `add_edges`, `delete_edges`, `swap_predecessors`, `update_node_attrs`, `update_segmentations`,
    `undo`, `redo`, `is_valid`, with any number of elements per call, accepted, silently refused or
    raising midway — whose arguments satisfy the lifted precondition `CtlPre` at the state where the
    call is made: every state reached (after the whole list and after every prefix) satisfies the
    bundle invariant, in particular it is a forward-in-time binary forest with exact track ids,
    lineage ids and lookups and labels ↔ nodes; the session refines the never-forgetting timeline (the
    current state is `E`-equal, hence `ObsEq`-equal, to the timeline state under the cursor, `|states| = |undo| + 1`,
    `cursor + |redo| = |undo|`), and every timeline state satisfies `Inv`. -/
theorem C03_controller_reach (s0 : St) (h0 : s0.hist = {}) (hI : Inv s0) (cs : List CtlOp)
    (hs : CtlSessOK s0 cs) :
    (∀ pre, pre <+: cs → Inv (ctlFinal s0 ⟨[s0], 0⟩ pre).1) ∧
    Inv (ctlFinal s0 ⟨[s0], 0⟩ cs).1 ∧
    (ctlFinal s0 ⟨[s0], 0⟩ cs).1.Valid ∧
    (ctlFinal s0 ⟨[s0], 0⟩ cs).1.Forest ∧ (ctlFinal s0 ⟨[s0], 0⟩ cs).1.TidOK ∧
    (ctlFinal s0 ⟨[s0], 0⟩ cs).1.LinOK ∧ (ctlFinal s0 ⟨[s0], 0⟩ cs).1.BookOK ∧
    SegOK (ctlFinal s0 ⟨[s0], 0⟩ cs).1 ∧
    (∃ x, (ctlFinal s0 ⟨[s0], 0⟩ cs).2.states[(ctlFinal s0 ⟨[s0], 0⟩ cs).2.cur]? = some x ∧
      E (ctlFinal s0 ⟨[s0], 0⟩ cs).1 x ∧ ObsEq (ctlFinal s0 ⟨[s0], 0⟩ cs).1 x) ∧
    (ctlFinal s0 ⟨[s0], 0⟩ cs).2.states.length = (ctlFinal s0 ⟨[s0], 0⟩ cs).1.hist.undo.length + 1 ∧
    (ctlFinal s0 ⟨[s0], 0⟩ cs).2.cur + (ctlFinal s0 ⟨[s0], 0⟩ cs).1.hist.redo.length
      = (ctlFinal s0 ⟨[s0], 0⟩ cs).1.hist.undo.length ∧
    (∀ x ∈ (ctlFinal s0 ⟨[s0], 0⟩ cs).2.states, Inv x) := by
  have h := ctl_run_inv cs (CInv.init s0 h0 hI) hs
  obtain ⟨x, hx, hE⟩ := h.ref.current
  obtain ⟨z1, z2⟩ := h.ref.sizes
  refine ⟨fun pre hp => ?_, h.inv, h.inv.valid, h.inv.valid.forest, h.inv.valid.tid, h.inv.valid.lin,
    h.inv.valid.book, h.inv.segOK, ⟨x, hx, hE, hE.1⟩, z1, z2, h.all⟩
  obtain ⟨rest, rfl⟩ := hp
  exact (ctl_run_inv pre (CInv.init s0 h0 hI) (ctlSessOK_append pre rest s0 hs)).inv
-- the session `sessC` on `XG` (12 calls, one of them a refused two-node update; 7 history entries,
-- 8 timeline states) and the `add_nodes`
-- session `sessN`
example : (ctlFinal XG ⟨[XG], 0⟩ sessC).1.Valid ∧ (ctlFinal XG ⟨[XG], 0⟩ sessC).1.Forest ∧
    (ctlFinal XG ⟨[XG], 0⟩ sessC).1.ids = [1, 2, 4, 5] ∧
    (ctlFinal XG ⟨[XG], 0⟩ sessC).1.edgeList = [(2, 5)] ∧
    (ctlFinal XG ⟨[XG], 0⟩ sessC).1.hist.undo.length = 7 ∧
    (ctlFinal XG ⟨[XG], 0⟩ sessC).2.states.length = 8 := by
  have h := C03_controller_reach XG XG_hist XG_inv sessC sessC_ok
  exact ⟨h.2.2.1, h.2.2.2.1, by decide, by decide, by decide, by decide⟩
example : (ctlFinal XG ⟨[XG], 0⟩ sessN).1.Valid ∧ (ctlFinal XG ⟨[XG], 0⟩ sessN).1.ids = [1, 2, 3, 4, 5] := by
  have hpre : CtlPre XG addTwo := by
    show ElemsPre (finalSt XG (ctlPrefix XG addTwo)) (ctlElems XG addTwo)
    have h1 : ctlElems XG addTwo =
        [some (.addNode { node := 6, time := some 2, tid := some 9, lin := none, other := [(7, .tok 1)],
                          pixels := none, force := false }),
         some (.addNode { node := 7, time := some 3, tid := some 9, lin := none, other := [(7, .tok 2)],
                          pixels := none, force := false })] := rfl
    rw [h1]
    refine ⟨.inr (.inr (.inr ⟨rfl, rfl, R3C.AddArgsPre.of_noSeg rfl (by decide) (by decide) (by decide),
      fun g hg => (by cases hg)⟩)), fun _ => ⟨.inr (.inr (.inr ⟨rfl, rfl, R3C.AddArgsPre.of_noSeg rfl (by decide)
        (by decide) (by decide), fun g hg => (by cases hg)⟩)), fun _ => trivial⟩⟩
  have hs : CtlSessOK XG sessN := ⟨hpre, ctlPre_free _ trivial, ctlPre_free _ trivial, trivial⟩
  exact ⟨(C03_controller_reach XG XG_hist XG_inv sessN hs).2.2.1, by decide⟩
-- with an array: paint through `update_segmentations`, undo, `add_nodes` with pixels, `delete_edges`
example : (ctlFinal XA ⟨[XA], 0⟩ sessA2).1.Valid ∧ SegOK (ctlFinal XA ⟨[XA], 0⟩ sessA2).1 ∧
    (ctlFinal XA ⟨[XA], 0⟩ sessA2).1.ids = [1, 2, 3, 4, 5, 6] ∧
    (ctlFinal XA ⟨[XA], 0⟩ sessA2).1.edgeList = [(1, 3), (2, 4)] := by
  have h := C03_controller_reach XA XA_hist XA_inv sessA2 sessA2_ok
  exact ⟨h.2.2.1, h.2.2.2.2.2.2.2.1, by decide, by decide⟩
#print axioms C03_controller_reach

/-- **finding (C01, not covered by `CtlPre`).** `add_nodes(attributes, pixels)` takes the node ids from
    the column `"node_id"` and hands the WHOLE row to `UserAddNode`, so every new node carries an
    attribute `node_id` that no feature registers (here under key 30). `DeleteNode` saves registered
    features only: after `undo()` and `redo()` the node is back without it. The lifted `OpPre`
    (`AddArgsPre.registered`) therefore fails for this call unless the application has registered a
    feature `node_id` (as in `sessA2`, where the key is a registered one). -/
theorem C01_controller_add_nodes_node_id_lost :
    (XA.ctlStep (addPx 30)).2 = .ok ∧ 30 ∉ XA.regNode ∧
    (XA.ctlStep (addPx 30)).1.otherOf 6 30 = .tok 6 ∧
    (((XA.ctlStep (addPx 30)).1.ctlStep .undo).1.ctlStep .redo).2 = .bool true ∧
    (((XA.ctlStep (addPx 30)).1.ctlStep .undo).1.ctlStep .redo).1.hasNode 6 = true ∧
    (((XA.ctlStep (addPx 30)).1.ctlStep .undo).1.ctlStep .redo).1.otherOf 6 30 = Val.none := by
  refine ⟨by decide, by decide, by decide, by decide, by decide, by decide⟩
#print axioms C01_controller_add_nodes_node_id_lost

/-- **C02 / C20 for one controller call.** For every state and every edit call of the controller:
    a call that returns normally has made exactly one history entry (`add_new_action`) and one
    refresh per element — `update_node_attrs`, `swap_predecessors`, `update_segmentations`: one in
    all —, a silently refused call (warning + `return`) none; a call that raises has made one per
    element BEFORE the raising one (`update_node_attrs`: none at all — and what it had written is
    rolled back: C11 below). A silently refused `add_edges` / `delete_edges` returns the very state
    it was given. -/
theorem C02_controller_steps (s : St) :
    (∀ a, StepsSpec s (.addNodes a)) ∧ (∀ ns, StepsSpec s (.deleteNodes ns)) ∧
    (∀ es f, StepsSpec s (.addEdges es f)) ∧ (∀ es, StepsSpec s (.deleteEdges es)) ∧
    (∀ a b, StepsSpec s (.swapPredecessors a b)) ∧ (∀ ns cols, StepsSpec s (.updateNodeAttrs ns cols)) ∧
    (∀ v g t f, StepsSpec s (.updateSegmentations v g t f)) ∧
    (∀ es f r, s.ctlSilent (.addEdges es f) = some r → s.ctlStep (.addEdges es f) = (s, .ok)) ∧
    (∀ es r, s.ctlSilent (.deleteEdges es) = some r → s.ctlStep (.deleteEdges es) = (s, .ok)) :=
  ⟨steps_addNodes s, steps_deleteNodes s, steps_addEdges s, steps_deleteEdges s, steps_swap s,
    steps_updateNodeAttrs s, steps_updateSeg s, (silent_edges_state s).1, (silent_edges_state s).2⟩
-- on `XG`: two deleted edges = two entries / refreshes; two nodes updated = ONE; a silent refusal =
-- none; `add_edges [(3,5),(5,4)]` raises on the second edge (merge) = one entry; `add_nodes` of 2 = 2
example :
    ((XG.ctlStep (.deleteEdges [(1, 2), (2, 4)])).2, (XG.ctlStep (.deleteEdges [(1, 2), (2, 4)])).1.hist.undo.length,
      (XG.ctlStep (.deleteEdges [(1, 2), (2, 4)])).1.refreshes) = (.ok, 2, 2) ∧
    ((XG.ctlStep (.updateNodeAttrs [5, 4] [(7, [.tok 9, .tok 8])])).2,
      (XG.ctlStep (.updateNodeAttrs [5, 4] [(7, [.tok 9, .tok 8])])).1.hist.undo.length,
      (XG.ctlStep (.updateNodeAttrs [5, 4] [(7, [.tok 9, .tok 8])])).1.refreshes) = (.ok, 1, 1) ∧
    ((XG.ctlStep (.addEdges [(1, 4)] true)).2, (XG.ctlStep (.addEdges [(1, 4)] true)).1.refreshes,
      XG.ctlSilent (.addEdges [(1, 4)] true)) = (.ok, 0, some (.reject .triple)) ∧
    ((XG.ctlStep (.addEdges [(3, 5), (5, 4)] false)).2, (XG.ctlStep (.addEdges [(3, 5), (5, 4)] false)).1.hist.undo.length,
      (XG.ctlStep (.addEdges [(3, 5), (5, 4)] false)).1.refreshes) = (.err .forceable, 1, 1) ∧
    ((XG.ctlStep addTwo).2, (XG.ctlStep addTwo).1.hist.undo.length, (XG.ctlStep addTwo).1.refreshes,
      (XG.ctlStep addTwo).1.lastPayload) = (.ok, 2, 2, some 7) := by
  refine ⟨by decide, by decide, by decide, by decide, by decide⟩
#print axioms C02_controller_steps

/-- **C11 was violated by `update_node_attrs` before the repair (witness about the UNFIXED function
    `ctlUpdateNodeAttrsUnfixed` = the code before `fix:` a7bb82b).**
    `update_node_attrs([5, 99], {k: [9, 8]})` on `XG` (node 99 does not exist): the call raised
    `KeyError` AFTER node 5 was updated — its attribute was 9 instead of 4 —, nothing was registered
    in the history (`_update_node_attrs` raised before `add_new_action`), no refresh was emitted,
    `undo()` answered `False`: the change could not be undone. The same happened when a column was
    shorter than the node list (`IndexError`). The repaired function restores node 5 in both cases. -/
theorem C11_controller_update_attrs_counterexample_unfixed :
    -- unknown second node
    (XG.ctlUpdateNodeAttrsUnfixed [5, 99] [(7, [.tok 9, .tok 8])]).2 = .err .key ∧
    XG.otherOf 5 7 = .tok 4 ∧
    (XG.ctlUpdateNodeAttrsUnfixed [5, 99] [(7, [.tok 9, .tok 8])]).1.otherOf 5 7 = .tok 9 ∧
    (XG.ctlUpdateNodeAttrsUnfixed [5, 99] [(7, [.tok 9, .tok 8])]).1.hist.undo = [] ∧
    (XG.ctlUpdateNodeAttrsUnfixed [5, 99] [(7, [.tok 9, .tok 8])]).1.hist.redo = [] ∧
    (XG.ctlUpdateNodeAttrsUnfixed [5, 99] [(7, [.tok 9, .tok 8])]).1.refreshes = XG.refreshes ∧
    ((XG.ctlUpdateNodeAttrsUnfixed [5, 99] [(7, [.tok 9, .tok 8])]).1.ctlStep .undo).2 = .bool false ∧
    -- a column shorter than the node list
    (XG.ctlUpdateNodeAttrsUnfixed [5, 4] [(7, [.tok 9])]).2 = .err .other ∧
    (XG.ctlUpdateNodeAttrsUnfixed [5, 4] [(7, [.tok 9])]).1.otherOf 5 7 = .tok 9 ∧
    (XG.ctlUpdateNodeAttrsUnfixed [5, 4] [(7, [.tok 9])]).1.hist.undo = [] ∧
    -- the repaired function on the same calls
    (XG.ctlStep (.updateNodeAttrs [5, 99] [(7, [.tok 9, .tok 8])])).2 = .err .key ∧
    (XG.ctlStep (.updateNodeAttrs [5, 99] [(7, [.tok 9, .tok 8])])).1.otherOf 5 7 = .tok 4 ∧
    (XG.ctlStep (.updateNodeAttrs [5, 4] [(7, [.tok 9])])).2 = .err .other ∧
    (XG.ctlStep (.updateNodeAttrs [5, 4] [(7, [.tok 9])])).1.otherOf 5 7 = .tok 4 := by
  refine ⟨by decide, by decide, by decide, by decide, by decide, by decide, by decide, by decide,
    by decide, by decide, by decide, by decide, by decide, by decide⟩
#print axioms C11_controller_update_attrs_counterexample_unfixed

/-- **C11 for `update_node_attrs` (repaired code), any number of nodes.** From a state with the
    graph invariants (`Valid`, well-formed with sound maxima, edge invariant — all part of `Inv`;
    NO hypothesis on the nodes, keys or values: unknown nodes, unregistered keys, protected keys,
    short columns …): whenever `update_node_attrs(nodes, attributes)` raises, the state it leaves is
    equal to the state before the call up to the common equivalence — observationally equal
    (`ObsEq`: every node, edge, attribute with `None` ≡ absent, the array) —, nothing was registered
    in the history, no refresh was emitted; and `Inv` is inherited. -/
theorem C11_controller_update_attrs_refused (s : St) (ns : List Node) (cols : List (Key × List Val))
    (e : Err) (hV : s.Valid) (hG : Good s) (hE : EdgeInv s)
    (herr : (s.ctlStep (.updateNodeAttrs ns cols)).2 = .err e) :
    E (s.ctlStep (.updateNodeAttrs ns cols)).1 s ∧ ObsEq (s.ctlStep (.updateNodeAttrs ns cols)).1 s ∧
    (s.ctlStep (.updateNodeAttrs ns cols)).1.hist = s.hist ∧
    (s.ctlStep (.updateNodeAttrs ns cols)).1.refreshes = s.refreshes ∧
    (s.ctlStep (.updateNodeAttrs ns cols)).1.lastPayload = s.lastPayload ∧
    (Inv s → Inv (s.ctlStep (.updateNodeAttrs ns cols)).1) := by
  obtain ⟨h1, h2⟩ := updateNodeAttrs_refused (ns := ns) (cols := cols) ⟨hV, hG, hE⟩ herr
  exact ⟨h1, h1.1, hist_of_ctl h2, refreshes_of_ctl h2, lastPayload_of_ctl h2, fun hI => Inv.of_E h1 hI⟩
-- on `XG`: three nodes, the third unknown — nodes 5 and 4 were updated and are restored; a short
-- column; an unregistered key (8) on the first node
example :
    (XG.ctlStep (.updateNodeAttrs [5, 4, 99] [(7, [.tok 9, .tok 8, .tok 7])])).2 = .err .key ∧
    ((XG.updLoop [5, 4, 99] [(7, [.tok 9, .tok 8, .tok 7])]).2.1.length,
      (XG.updLoop [5, 4, 99] [(7, [.tok 9, .tok 8, .tok 7])]).1.otherOf 5 7,
      (XG.updLoop [5, 4, 99] [(7, [.tok 9, .tok 8, .tok 7])]).1.otherOf 4 7) = (2, .tok 9, .tok 8) ∧
    ObsEq (XG.ctlStep (.updateNodeAttrs [5, 4, 99] [(7, [.tok 9, .tok 8, .tok 7])])).1 XG ∧
    (XG.ctlStep (.updateNodeAttrs [5, 4, 99] [(7, [.tok 9, .tok 8, .tok 7])])).1.otherOf 5 7 = .tok 4 ∧
    ObsEq (XG.ctlStep (.updateNodeAttrs [5, 4] [(8, [.tok 1])])).1 XG := by
  have h1 : (XG.ctlStep (.updateNodeAttrs [5, 4, 99] [(7, [.tok 9, .tok 8, .tok 7])])).2 = .err .key := by decide
  have h2 : (XG.ctlStep (.updateNodeAttrs [5, 4] [(8, [.tok 1])])).2 = .err .other := by decide
  exact ⟨h1, by decide,
    (C11_controller_update_attrs_refused XG _ _ _ XG_inv.valid XG_inv.good XG_inv.edge h1).2.1, by decide,
    (C11_controller_update_attrs_refused XG _ _ _ XG_inv.valid XG_inv.good XG_inv.edge h2).2.1⟩
#print axioms C11_controller_update_attrs_refused

/-- what IS true of a raising `update_node_attrs`: (1) a protected key (time, an annotator-managed
    feature) cannot cause a partial application through this API — the columns give every node the
    same keys, so the FIRST node raises `ValueError` (or `IndexError`) and the state is untouched;
    (2) in every state, whatever the arguments, a raising call registers nothing and emits no
    refresh. -/
theorem C11_controller_update_attrs_protected (s : St) :
    (∀ n ns cols, (∃ kv ∈ cols, kv.1 ∈ s.protectedKeys) →
      ∃ e, s.ctlStep (.updateNodeAttrs (n :: ns) cols) = (s, .err e)) ∧
    (∀ ns cols e, (s.ctlStep (.updateNodeAttrs ns cols)).2 = .err e →
      (s.ctlStep (.updateNodeAttrs ns cols)).1.hist = s.hist ∧
      (s.ctlStep (.updateNodeAttrs ns cols)).1.refreshes = s.refreshes) := by
  refine ⟨fun n ns cols hp => updateNodeAttrs_protected s n ns cols hp, fun ns cols e herr => ?_⟩
  obtain ⟨k, hk, l, hl, hh, hr⟩ := (steps_updateNodeAttrs s ns cols).2 e herr
  have hk0 : k = 0 := by
    rcases hk with h | h
    · simp only [ctlCount] at h; omega
    · exact h
  subst hk0
  have : l = [] := List.length_eq_zero_iff.1 hl
  subst this
  exact ⟨hh, hr⟩
-- time (key 0) and track id (key 1) are protected: nothing is applied although node 5 comes first
example : XG.ctlStep (.updateNodeAttrs [5, 4] [(7, [.tok 9, .tok 8]), (0, [.tok 1, .tok 1])]) = (XG, .err .value) ∧
    (XG.ctlStep (.updateNodeAttrs [5, 99] [(1, [.tok 9, .tok 8])])).2 = .err .value := by
  obtain ⟨e, he⟩ := (C11_controller_update_attrs_protected XG).1 5 [4]
    [(7, [.tok 9, .tok 8]), (0, [.tok 1, .tok 1])] ⟨(0, [.tok 1, .tok 1]), by simp, by decide⟩
  have h2 : (XG.ctlStep (.updateNodeAttrs [5, 4] [(7, [.tok 9, .tok 8]), (0, [.tok 1, .tok 1])])).2 = .err .value := by
    decide
  rw [he] at h2 ⊢
  cases h2
  exact ⟨rfl, by decide⟩
#print axioms C11_controller_update_attrs_protected

/-- **`is_valid` is sound for C03, and what it adds to `UserAddEdge`.** From an `Inv` state, for an
    edge that `is_valid` accepts:
    (1) whatever `UserAddEdge` answers (with or without `force`), the state after it satisfies `Inv`
        again — accepted: the edge was added and the forest kept; refused: the state is `E`-equal to
        the one before;
    (2) if the pair is forward in time AS GIVEN, `UserAddEdge` accepts it with `force=True`, and
        without `force` when the target has no parent: on forward pairs every refusal of
        `UserAddEdge(force=True)` is a refusal of `is_valid`.
    `is_valid` refuses strictly more than that: see `C03_controller_is_valid_strict` for edges it
    refuses and `UserAddEdge` accepts, and `C03_controller_is_valid_incomplete` for the converse
    (pairs it accepts — backward pairs, merges — and `UserAddEdge` raises on). -/
theorem C03_controller_is_valid_sound (s : St) (e : Edge) (f : Bool) (hI : Inv s)
    (hv : s.isValid e = .ok none) :
    Inv (s.step (.addEdge e f)).1 ∧ (s.step (.addEdge e f)).1.Forest ∧
    ((s.step (.addEdge e f)).2 = .ok → e ∈ (s.step (.addEdge e f)).1.edgeList) ∧
    (∀ x, (s.step (.addEdge e f)).2 = .err x → E (s.step (.addEdge e f)).1 s) ∧
    (∀ ta tb, s.timeOf e.1 = some ta → s.timeOf e.2 = some tb → ta < tb →
      (f = true ∨ s.indeg e.2 = 0) → (s.step (.addEdge e f)).2 = .ok) := by
  have hop : OpOK s (.addEdge e f) := .inr (.inr (.inr ⟨rfl, trivial⟩))
  have hn := inv_next paintLaw refusalHyps hI hop (fun h => by cases h) (fun h => by cases h)
  refine ⟨hn, hn.valid.forest, fun hok => ?_, fun x hx => ?_, fun ta tb h1 h2 hlt hroot => ?_⟩
  · obtain ⟨r, recs, hu, hr, hs'⟩ := step_edit_group s (.addEdge e f) rfl hok
    simp only [userPart, Option.some.injEq] at hu
    subst hu
    rw [hs']
    exact uAddEdge_ok_mem hr
  · exact (editStep paintLaw refusalHyps (op := .addEdge e f) rfl hI trivial).2 x hx
  · exact isValid_accepts hI h1 h2 hlt hv f hroot
-- on `XG`: (3, 5) is accepted by both; (3, 4) (a merge) is accepted by `is_valid`, refused by
-- `UserAddEdge` without force and the state stays `XG` up to `E`; with force it is accepted
example : XG.isValid (3, 5) = .ok none ∧ (XG.step (.addEdge (3, 5) false)).2 = .ok ∧
    (XG.step (.addEdge (3, 5) false)).1.Forest ∧ (3, 5) ∈ (XG.step (.addEdge (3, 5) false)).1.edgeList ∧
    XG.isValid (3, 4) = .ok none ∧ (XG.step (.addEdge (3, 4) false)).2 = .err .forceable ∧
    E (XG.step (.addEdge (3, 4) false)).1 XG ∧ (XG.step (.addEdge (3, 4) true)).2 = .ok := by
  have h1 : XG.isValid (3, 5) = .ok none := rfl
  have h2 : XG.isValid (3, 4) = .ok none := rfl
  obtain ⟨_, a2, a3, _, a5⟩ := C03_controller_is_valid_sound XG (3, 5) false XG_inv h1
  obtain ⟨_, _, _, b4, _⟩ := C03_controller_is_valid_sound XG (3, 4) false XG_inv h2
  have hok := a5 1 2 (by decide) (by decide) (by decide) (.inr (by decide))
  obtain ⟨_, _, _, _, c5⟩ := C03_controller_is_valid_sound XG (3, 4) true XG_inv h2
  exact ⟨h1, hok, a2, a3 hok, h2, by decide, b4 .forceable (by decide),
    c5 1 3 (by decide) (by decide) (by decide) (.inl rfl)⟩
#print axioms C03_controller_is_valid_sound

/-- **"strictly more" (witnesses).** Edges `is_valid` refuses although `UserAddEdge` accepts them and
    keeps a valid solution: (a) the closest-node rule — on `chain3` (1 → 2 → 3 on one track) the skip
    edge (1, 3) with `force` (UserAddEdge removes (2, 3), makes 1 a division) —, (b) an existing edge
    re-added with `force` (on `XG`). `add_edges` is then a silent no-op. -/
theorem C03_controller_is_valid_strict :
    chain3.isValid (1, 3) = .ok (some .closest) ∧
    (chain3.step (.addEdge (1, 3) true)).2 = .ok ∧
    (chain3.step (.addEdge (1, 3) true)).1.edgeList = [(1, 2), (1, 3)] ∧
    chain3.ctlStep (.addEdges [(1, 3)] true) = (chain3, .ok) ∧
    XG.isValid (2, 4) = .ok (some .exists_) ∧ (XG.step (.addEdge (2, 4) true)).2 = .ok ∧
    (XG.ctlStep (.addEdges [(2, 4)] true)).1.hist.undo = [] := by
  refine ⟨rfl, by decide, by decide, ?_, rfl, by decide, by decide⟩
  exact (C02_controller_steps chain3).2.2.2.2.2.2.2.1 [(1, 3)] true (.reject .closest) (by decide)
#print axioms C03_controller_is_valid_strict

/-- **`is_valid` does not refuse everything `UserAddEdge` refuses (witnesses).** (a) The pair is
    oriented by time for the checks only: `add_edges([(5, 3)])` on `XG` (5@2, 3@1) passes `is_valid`
    and `UserAddEdge((5, 3))` raises `InvalidActionError` — an exception instead of the silent
    refusal; (b) a merge: `is_valid((3, 4))` holds, `UserAddEdge` raises (forceable); (c) validation
    of ALL edges happens against the state before the call: on `star4`
    `add_edges([(1, 2), (1, 3), (1, 4)])` passes (out-degree of 1 is 0), the third `UserAddEdge` raises
    after two edges were added (two history entries). The forest survives in every case — because
    `UserAddEdge` checks again. -/
theorem C03_controller_is_valid_incomplete :
    XG.isValid (5, 3) = .ok none ∧ XG.ctlStep (.addEdges [(5, 3)] false) = (XG, .err .invalid) ∧
    XG.isValid (3, 4) = .ok none ∧ (XG.ctlStep (.addEdges [(3, 4)] false)).2 = .err .forceable ∧
    star4.checkEdges [(1, 2), (1, 3), (1, 4)] = .ok none ∧
    (star4.ctlStep (.addEdges [(1, 2), (1, 3), (1, 4)] false)).2 = .err .invalid ∧
    (star4.ctlStep (.addEdges [(1, 2), (1, 3), (1, 4)] false)).1.edgeList = [(1, 2), (1, 3)] ∧
    (star4.ctlStep (.addEdges [(1, 2), (1, 3), (1, 4)] false)).1.hist.undo.length = 2 := by
  refine ⟨rfl, ?_, rfl, by decide, rfl, by decide, by decide, by decide⟩
  have h : ctlExpand XG (.addEdges [(5, 3)] false) = [.addEdge (5, 3) false] := rfl
  have h2 : (XG.ctlStep (.addEdges [(5, 3)] false)).2 = .err .invalid := by decide
  have h3 : (XG.ctlStep (.addEdges [(5, 3)] false)).1 = XG := by
    rw [ctlStep_expand XG _ (show ¬ IsUpdAttrs (.addEdges [(5, 3)] false) from id), h]; rfl
  exact Prod.ext h3 h2
#print axioms C03_controller_is_valid_incomplete
