/-
  C01 / C11 (package R3C) — user-level inverse laws of the node actions.

  "Applying any edit - a primitive action or a composite user action - and then inverting it
   restores the observable tracks state exactly … Inverting the inverse reproduces the post-edit
   state exactly."  (C01)
  "An edit that is refused … leaves the tracks state as it was." (C11; here: the rollback path of
   a `UserAddNode` whose `AddNode` raises after forced removals were already applied)

  Vocabulary (FtProofs/R3CLemmas.lean, namespace `Ft.R3C`; `E`, `Good`, `EdgeInv`, `Chain E` from
  R3P / R2A1)
  * `NodeInv s`    the node-attribute invariant behind `AddPre` / `DelPre`: every visible node
                   attribute is a registered feature, active regionprops keys are registered;
                   without array every node carries its position; with array every stored
                   regionprops value is current (the function-level `RpOK`) and no node has id 0.
                   `NodeInv.of_records`: from record-level facts + `RpOK`.
  * `AddArgsPre s a`  documented preconditions of `UserAddNode`: distinct attribute keys, non-`None`
                   attributes registered; no array: position given; array: label non-zero and absent
                   from its frame, pixels on background inside that frame.
  * `Refused s a`  when `AddNode` raises: no pixels and a position key missing, or pixels without array.
  * `addNodeA1`    the partial run of `uAddNode` before AddNode (neighbour query, division checks with
                   forced removals, DeleteEdge of the split skip edge).

  Proved here (all paths, with and without array — the array only enters through `NodeInv`/`AddArgsPre`)
  * `C01_user_deleteNode`   accepted `uDeleteNode` from `Valid ∧ Good ∧ EdgeInv ∧ NodeInv`, pixels =
                            none or the node's pixels: the records are a `Chain E s recs s'`; `s'`
                            satisfies the four invariants again; explicit undo / redo reading from any
                            state in the class of `s'`.
  * `C01_note_deleteNode_foreign_pixels`  the pixel hypothesis is needed (decide-checked).
  * `C01_user_addNode`      the same for accepted `uAddNode` under `AddArgsPre` (plain paths: new
                            track, append, prepend, splice into a skip edge; forced paths: upstream
                            division, downstream division); `Valid s'` when no lineage is supplied.
  * `C01_user_deleteEdge_ctx`  (needed for the forced paths; R3B proves the official statement)
                            accepted `uDeleteEdge`: chain + invariants.
  * `C01_nodeInv_of_records`  `NodeInv` from record-level hypotheses and `RpOK`;
    `C01_nodeInv_of_joint`  … from R3A's `Joint` (array configuration).
  * `C11_addNode_refused_forced`  pre-phase accepted, AddNode refused ⇒ error `.value`, the returned
                            state is the rollback of what was applied, `E`-equal (so `ObsEq`) to the
                            start state, and again `Valid ∧ Good ∧ EdgeInv`.
-/
import FtProofs.R3CLemmas
open Ft Ft.St Ft.R2A1 Ft.R3P Ft.R3C List

/-- **user-level C01 for `UserDeleteNode`** (every path: isolated node, leaf, root, mid-track node
    with bridging edge, dividing node, first node after a division with sibling relabel; with and
    without array). From a valid state with sound bookkeeping maxima (`Good`), the edge-attribute
    invariant and the node-attribute invariant, when the call passes no pixels or exactly the node's
    pixels, an accepted call's record list is a lawful chain over the common equivalence, the result
    satisfies all four invariants again, and — explicitly — `ActionGroup.inverse()` run from any
    state in the class of the result restores `s` up to `ObsEq`, and inverting that inverse
    reproduces the result up to `ObsEq`. -/
theorem C01_user_deleteNode (s : St) (n : Node) (px : Option (List Pix)) (recs : List PrimRec)
    (hV : s.Valid) (hG : Good s) (hEI : EdgeInv s) (hNI : NodeInv s)
    (hpx : px = none ∨ px = s.getPixels n) (hok : (s.uDeleteNode n px).2 = .ok recs) :
    Chain E s recs (s.uDeleteNode n px).1 ∧
    ((s.uDeleteNode n px).1.Valid ∧ Good (s.uDeleteNode n px).1 ∧ EdgeInv (s.uDeleteNode n px).1 ∧
      NodeInv (s.uDeleteNode n px).1) ∧
    ∀ t, E t (s.uDeleteNode n px).1 →
      ∃ s₂ recs', t.invGroup recs = (s₂, .ok recs') ∧ ObsEq s₂ s ∧ recs'.length = recs.length ∧
        ∃ s₃ recs'', s₂.invGroup recs' = (s₃, .ok recs'') ∧ ObsEq s₃ (s.uDeleteNode n px).1 := by
  obtain ⟨h1, h2, h3, h4, h5⟩ := uDeleteNode_chain hV hG hEI hNI hpx hok
  exact ⟨h1, ⟨h5, h2, h3, h4⟩, chain_reading h1⟩

namespace C01R3CEx
/-- graph-only state with a position key: 1@0 → {2@1, 3@1}, 2 → 4@3 (a skip edge), 5@2 isolated -/
abbrev XG : St := St.exS
/-- `R2C`'s example forest (no position keys): 1 → 2 → {3, 4}; 3 → 8 → 9; 5 → 6; 7; 10 → {11, 12} -/
abbrev X0 : St := C03R2CEx.X0
/-- the array state: `XG` with a 4-frame array and all annotators computed -/
abbrev XA : St := R2A1.exCur

theorem XG_valid : XG.Valid := R2D.validB_sound (by decide)
theorem XG_good : Good XG := Good.of_b (by decide) (by decide)
theorem XG_seg : XG.seg = none := rfl
theorem XG_edgeInv : EdgeInv XG :=
  EdgeInv.of_records (by decide) (fun _ h => absurd h (by decide)) (fun g hg => by cases hg)
theorem XG_nodeInv : NodeInv XG :=
  NodeInv.of_records (by decide) (by decide) (fun _ => by decide) (fun g hg => by cases hg)
    (fun h => absurd h (by decide))

theorem X0_good : Good X0 := Good.of_b (by decide) (by decide)
theorem X0_edgeInv : EdgeInv X0 :=
  EdgeInv.of_records (by decide) (fun _ h => absurd h (by decide)) (fun g hg => by cases hg)
theorem X0_nodeInv : NodeInv X0 :=
  NodeInv.of_records (by decide) (by decide) (fun _ => by decide) (fun g hg => by cases hg)
    (fun h => absurd h (by decide))

theorem XA_valid : XA.Valid := R2D.validB_sound (by decide)
theorem XA_good : Good XA := Good.of_b (by decide) (by decide)
theorem XA_meas : MeasOK XA := by
  intro g hg; rw [exCur_seg] at hg; cases hg
  refine ⟨by decide, fun _ k hk => ?_⟩
  have h1 : exCur.iouKey = some 11 := by decide
  rw [h1] at hk; cases hk; decide
theorem XA_edgeInv : EdgeInv XA := by
  refine EdgeInv.of_records (by decide) ?_ XA_meas
  intro _ _ k hk
  have h1 : exCur.iouKey = some 11 := by decide
  rw [h1] at hk; cases hk; decide
theorem XA_nodeInv : NodeInv XA :=
  NodeInv.of_records (by decide) (by decide) (fun h => by rw [exCur_seg] at h; cases h)
    ((measOK_iff_sg _).1 XA_meas).1 (fun _ => by decide)
end C01R3CEx
open C01R3CEx

-- graph only: every path of `uDeleteNode` on `X0` (isolated 7, leaf 9, leaf after a division 4, roots
-- 5 and 1, mid-track 8 with bridging edge, dividing node 2, dividing root 10, first node after a
-- division 3): accepted, lawful chain, undo restores `X0` up to `ObsEq`
example : ∀ n ∈ [7, 9, 4, 5, 1, 8, 2, 10, 3], ∃ recs, (X0.uDeleteNode n none).2 = .ok recs ∧
    Chain E X0 recs (X0.uDeleteNode n none).1 ∧ NodeInv (X0.uDeleteNode n none).1 ∧
    ∃ s₂ recs', (X0.uDeleteNode n none).1.invGroup recs = (s₂, .ok recs') ∧ ObsEq s₂ X0 := by
  intro n hn
  have hok : ∃ recs, (X0.uDeleteNode n none).2 = .ok recs := by
    simp only [List.mem_cons, List.not_mem_nil, or_false] at hn
    rcases hn with rfl | rfl | rfl | rfl | rfl | rfl | rfl | rfl | rfl <;> exact ⟨_, rfl⟩
  obtain ⟨recs, hok⟩ := hok
  obtain ⟨h1, ⟨_, _, _, h4⟩, h5⟩ := C01_user_deleteNode X0 n none recs C03R2CEx.X0_valid X0_good X0_edgeInv
    X0_nodeInv (Or.inl rfl) hok
  obtain ⟨s₂, recs', a, b, _⟩ := h5 _ (E_isEquiv.refl _)
  exact ⟨recs, hok, h1, h4, s₂, recs', a, b⟩
-- the mid-track node 8: DeleteEdge ×2, AddEdge (3, 9), DeleteNode — four records
example : ∃ recs, (X0.uDeleteNode 8 none).2 = .ok recs ∧ recs.length = 4 := by
  refine ⟨_, rfl, ?_⟩; decide
-- with array: the mid-track node 2 (pixels 4, 5; regionprops and IoU values recomputed on undo)
example : ∃ recs, (XA.uDeleteNode 2 none).2 = .ok recs ∧ Chain E XA recs (XA.uDeleteNode 2 none).1 ∧
    (XA.uDeleteNode 2 none).1.seg = some ⟨4, [1,0,0,0, 0,0,3,0, 5,0,0,0, 4,4,0,0]⟩ ∧
    ∃ s₂ recs', (XA.uDeleteNode 2 none).1.invGroup recs = (s₂, .ok recs') ∧ ObsEq s₂ XA := by
  have hok : ∃ recs, (XA.uDeleteNode 2 none).2 = .ok recs := ⟨_, rfl⟩
  obtain ⟨recs, hok⟩ := hok
  obtain ⟨h1, _, h5⟩ := C01_user_deleteNode XA 2 none recs XA_valid XA_good XA_edgeInv XA_nodeInv (Or.inl rfl) hok
  obtain ⟨s₂, recs', a, b, _⟩ := h5 _ (E_isEquiv.refl _)
  exact ⟨recs, hok, h1, by decide, s₂, recs', a, b⟩
-- … and with the pixels passed explicitly (as `UserUpdateSegmentation` does)
example : ∃ recs, (XA.uDeleteNode 5 (some [8])).2 = .ok recs ∧ Chain E XA recs (XA.uDeleteNode 5 (some [8])).1 := by
  have hok : ∃ recs, (XA.uDeleteNode 5 (some [8])).2 = .ok recs := ⟨_, rfl⟩
  obtain ⟨recs, hok⟩ := hok
  exact ⟨recs, hok, (C01_user_deleteNode XA 5 (some [8]) recs XA_valid XA_good XA_edgeInv XA_nodeInv
    (Or.inr (by decide)) hok).1⟩
#print axioms C01_user_deleteNode

/-- Note: the pixel hypothesis of `C01_user_deleteNode` is needed. Without an array, a caller that
    passes pixels anyway gets the call accepted (DeleteNode stores them), but the recorded group
    cannot be inverted: the inverse `AddNode(pixels=…)` raises because there is no array to paint. -/
theorem C01_note_deleteNode_foreign_pixels :
    X0.seg = none ∧ (∃ recs, (X0.uDeleteNode 7 (some [1])).2 = .ok recs ∧
      ((X0.uDeleteNode 7 (some [1])).1.invGroup recs).2 = .error .value) :=
  ⟨rfl, _, rfl, rfl⟩
#print axioms C01_note_deleteNode_foreign_pixels

/-- **user-level C01 for `UserAddNode`** (every path: new track, append after the track
    predecessor, prepend before the track successor, splice into a skip edge; forced: upstream
    division — both division edges removed by nested `UserDeleteEdge`s —, downstream division —
    one division edge removed; with and without array). Under the documented preconditions
    `AddArgsPre` an accepted call's record list is a lawful chain over the common equivalence, the
    result is `Good` and satisfies `EdgeInv`, `NodeInv` again (`Valid` when the caller supplies no
    lineage id, R2D), and `ActionGroup.inverse()` from any state in the class of the result restores
    `s` up to `ObsEq`; inverting the inverse reproduces the result up to `ObsEq`. -/
theorem C01_user_addNode (s : St) (a : AddNodeArgs) (recs : List PrimRec)
    (hV : s.Valid) (hG : Good s) (hEI : EdgeInv s) (hNI : NodeInv s) (hA : AddArgsPre s a)
    (hok : (s.uAddNode a).2 = .ok recs) :
    Chain E s recs (s.uAddNode a).1 ∧
    (Good (s.uAddNode a).1 ∧ EdgeInv (s.uAddNode a).1 ∧ NodeInv (s.uAddNode a).1 ∧
      (a.lin = none → (s.uAddNode a).1.Valid)) ∧
    ∀ t, E t (s.uAddNode a).1 →
      ∃ s₂ recs', t.invGroup recs = (s₂, .ok recs') ∧ ObsEq s₂ s ∧ recs'.length = recs.length ∧
        ∃ s₃ recs'', s₂.invGroup recs' = (s₃, .ok recs'') ∧ ObsEq s₃ (s.uAddNode a).1 := by
  obtain ⟨h1, h2, h3, h4, h5⟩ := uAddNode_chain hV hG hEI hNI hA hok
  exact ⟨h1, ⟨h2, h3, h4, h5⟩, chain_reading h1⟩

-- graph only, no position keys (`R2D.exS`): the six paths — new track, append, prepend, splice into
-- the skip edge (5, 6), forced upstream division at 2, forced downstream division (edge (2, 3))
example : ∀ a ∈ ([⟨9, some 1, some 9, none, [], none, false⟩, ⟨9, some 5, some 4, none, [], none, false⟩,
      ⟨9, some 1, some 5, none, [], none, false⟩, ⟨9, some 1, some 4, none, [], none, false⟩,
      ⟨9, some 2, some 1, none, [], none, true⟩, ⟨9, some 1, some 2, none, [], none, true⟩] : List AddNodeArgs),
    ∃ recs, (R2D.exS.uAddNode a).2 = .ok recs ∧ Chain E R2D.exS recs (R2D.exS.uAddNode a).1 ∧
      (R2D.exS.uAddNode a).1.Valid ∧
      ∃ s₂ recs', (R2D.exS.uAddNode a).1.invGroup recs = (s₂, .ok recs') ∧ ObsEq s₂ R2D.exS := by
  have hg : Good R2D.exS := Good.of_b (by decide) (by decide)
  have hei : EdgeInv R2D.exS :=
    EdgeInv.of_records (by decide) (fun _ h => absurd h (by decide)) (fun g hg => by cases hg)
  have hni : NodeInv R2D.exS :=
    NodeInv.of_records (by decide) (by decide) (fun _ => by decide) (fun g hg => by cases hg)
      (fun h => absurd h (by decide))
  intro a ha
  have hpre : AddArgsPre R2D.exS a ∧ a.lin = none ∧ ∃ recs, (R2D.exS.uAddNode a).2 = .ok recs := by
    simp only [List.mem_cons, List.not_mem_nil, or_false] at ha
    rcases ha with rfl | rfl | rfl | rfl | rfl | rfl <;>
      exact ⟨AddArgsPre.of_noSeg rfl (by decide) (by decide) (by decide), rfl, _, rfl⟩
  obtain ⟨hA, hl, recs, hok⟩ := hpre
  obtain ⟨h1, ⟨_, _, _, h4⟩, h5⟩ := C01_user_addNode R2D.exS a recs R2D.exS_valid hg hei hni hA hok
  obtain ⟨s₂, recs', x, y, _⟩ := h5 _ (E_isEquiv.refl _)
  exact ⟨recs, hok, h1, h4 hl, s₂, recs', x, y⟩
-- the forced upstream path has 3 + 2 + 1 + 1 = 7 records (two nested `UserDeleteEdge`s, AddNode, AddEdge)
example : ∃ recs, (R2D.exS.uAddNode ⟨9, some 2, some 1, none, [], none, true⟩).2 = .ok recs ∧ recs.length = 7 := by
  refine ⟨_, rfl, ?_⟩; decide
-- graph only with a position key (`XG`, key 7): the position must be given
example : ∃ recs, (XG.uAddNode ⟨6, some 2, some 2, none, [(7, .tok 9)], none, false⟩).2 = .ok recs ∧
    recs.length = 4 ∧ Chain E XG recs (XG.uAddNode ⟨6, some 2, some 2, none, [(7, .tok 9)], none, false⟩).1 := by
  have hok : ∃ recs, (XG.uAddNode ⟨6, some 2, some 2, none, [(7, .tok 9)], none, false⟩).2 = .ok recs := ⟨_, rfl⟩
  obtain ⟨recs, hok⟩ := hok
  have hA : AddArgsPre XG ⟨6, some 2, some 2, none, [(7, .tok 9)], none, false⟩ :=
    AddArgsPre.of_noSeg rfl (by decide) (by decide) (by decide)
  refine ⟨recs, hok, ?_, (C01_user_addNode XG _ recs XG_valid XG_good XG_edgeInv XG_nodeInv hA hok).1⟩
  have : recs = _ := Except.ok.inj (hok.symm.trans rfl)
  rw [this]; rfl
-- with array: node 6 painted onto the background pixels 9, 10 of frame 2, spliced into the skip edge
-- (2, 4) of track 2: DeleteEdge, AddNode (regionprops computed), two AddEdges (IoU computed)
example : ∃ recs, (XA.uAddNode ⟨6, some 2, some 2, none, [(7, .tok 9)], some [9, 10], false⟩).2 = .ok recs ∧
    recs.length = 4 ∧
    Chain E XA recs (XA.uAddNode ⟨6, some 2, some 2, none, [(7, .tok 9)], some [9, 10], false⟩).1 ∧
    ∃ s₂ recs', (XA.uAddNode ⟨6, some 2, some 2, none, [(7, .tok 9)], some [9, 10], false⟩).1.invGroup recs
      = (s₂, .ok recs') ∧ ObsEq s₂ XA := by
  have hok : ∃ recs, (XA.uAddNode ⟨6, some 2, some 2, none, [(7, .tok 9)], some [9, 10], false⟩).2 = .ok recs :=
    ⟨_, rfl⟩
  obtain ⟨recs, hok⟩ := hok
  have hA : AddArgsPre XA ⟨6, some 2, some 2, none, [(7, .tok 9)], some [9, 10], false⟩ := by
    refine ⟨by decide, by decide, fun h => (by rw [exCur_seg] at h; cases h), fun _ _ => (by decide), ?_, ?_⟩
    · intro g t hg ht; rw [exCur_seg] at hg; cases hg; cases ht; decide
    · intro g ps t hg hps ht; rw [exCur_seg] at hg; cases hg; cases hps; cases ht; decide
  obtain ⟨h1, _, h5⟩ := C01_user_addNode XA _ recs XA_valid XA_good XA_edgeInv XA_nodeInv hA hok
  obtain ⟨s₂, recs', x, y, _⟩ := h5 _ (E_isEquiv.refl _)
  refine ⟨recs, hok, ?_, h1, s₂, recs', x, y⟩
  have : recs = _ := Except.ok.inj (hok.symm.trans rfl)
  rw [this]; rfl
-- with array, forced: node 6 painted onto the background pixel 7 of frame 1 on the track of the dividing
-- root 1 — both division edges are removed by nested `UserDeleteEdge`s (IoU values saved / recomputed)
example : ∃ recs, (XA.uAddNode ⟨6, some 1, some 1, none, [(7, .tok 9)], some [7], true⟩).2 = .ok recs ∧
    Chain E XA recs (XA.uAddNode ⟨6, some 1, some 1, none, [(7, .tok 9)], some [7], true⟩).1 ∧
    (XA.uAddNode ⟨6, some 1, some 1, none, [(7, .tok 9)], some [7], true⟩).1.Valid ∧
    ∃ s₂ recs', (XA.uAddNode ⟨6, some 1, some 1, none, [(7, .tok 9)], some [7], true⟩).1.invGroup recs
      = (s₂, .ok recs') ∧ ObsEq s₂ XA := by
  have hok : ∃ recs, (XA.uAddNode ⟨6, some 1, some 1, none, [(7, .tok 9)], some [7], true⟩).2 = .ok recs :=
    ⟨_, rfl⟩
  obtain ⟨recs, hok⟩ := hok
  have hA : AddArgsPre XA ⟨6, some 1, some 1, none, [(7, .tok 9)], some [7], true⟩ := by
    refine ⟨by decide, by decide, fun h => (by rw [exCur_seg] at h; cases h), fun _ _ => (by decide), ?_, ?_⟩
    · intro g t hg ht; rw [exCur_seg] at hg; cases hg; cases ht; decide
    · intro g ps t hg hps ht; rw [exCur_seg] at hg; cases hg; cases hps; cases ht; decide
  obtain ⟨h1, ⟨_, _, _, h4⟩, h5⟩ := C01_user_addNode XA _ recs XA_valid XA_good XA_edgeInv XA_nodeInv hA hok
  obtain ⟨s₂, recs', x, y, _⟩ := h5 _ (E_isEquiv.refl _)
  exact ⟨recs, hok, h1, h4 rfl, s₂, recs', x, y⟩
#print axioms C01_user_addNode

/-- accepted `UserDeleteEdge` (as used by the forced paths of `UserAddNode`; the official user-level
    statement for the edge actions is R3B's): lawful chain, `Valid`, `Good`, `EdgeInv` again, node
    attributes / array / registry untouched -/
theorem C01_user_deleteEdge_ctx (s : St) (e : Edge) (recs : List PrimRec) (hV : s.Valid) (hG : Good s)
    (hEI : EdgeInv s) (hok : (s.uDeleteEdge e).2 = .ok recs) :
    Chain E s recs (s.uDeleteEdge e).1 ∧ (s.uDeleteEdge e).1.Valid ∧ Good (s.uDeleteEdge e).1 ∧
      EdgeInv (s.uDeleteEdge e).1 ∧ R3C.Fr s (s.uDeleteEdge e).1 := by
  obtain ⟨h1, h2, h3⟩ := run_uDeleteEdge s s e hV (Ctx.refl hG hEI) recs hok
  exact ⟨h1, h2, h3.good, h3.einv, h3.fr⟩
-- a division edge (sibling relabel + own-id relabel: three records) and a plain edge (two records)
example : (∃ recs, (XG.uDeleteEdge (1, 2)).2 = .ok recs ∧ recs.length = 3 ∧
      Chain E XG recs (XG.uDeleteEdge (1, 2)).1) ∧
    (∃ recs, (XG.uDeleteEdge (2, 4)).2 = .ok recs ∧ recs.length = 2 ∧
      Chain E XG recs (XG.uDeleteEdge (2, 4)).1) :=
  ⟨⟨_, rfl, rfl, (C01_user_deleteEdge_ctx XG (1, 2) _ XG_valid XG_good XG_edgeInv rfl).1⟩,
   ⟨_, rfl, rfl, (C01_user_deleteEdge_ctx XG (2, 4) _ XG_valid XG_good XG_edgeInv rfl).1⟩⟩
#print axioms C01_user_deleteEdge_ctx

/-- `NodeInv` from record-level hypotheses: registered non-`None` attributes, registered active
    regionprops keys, positions without array, `RpOK` (node part of `MeasOK`) and non-zero ids with
    array -/
theorem C01_nodeInv_of_records (s : St)
    (h1 : ∀ r ∈ s.nodes, ∀ kv ∈ r.other, kv.2 ≠ Val.none → kv.1 ∈ s.regNode)
    (h2 : ∀ k ∈ s.rpActive, k ∈ s.regNode)
    (h3 : s.seg = none → ∀ r ∈ s.nodes, ∀ k ∈ s.posKeys, obsAttrs r.other k ≠ Val.none)
    (h4 : RpOK s) (h5 : s.seg.isSome = true → ∀ r ∈ s.nodes, r.id ≠ 0) : NodeInv s :=
  NodeInv.of_records h1 h2 h3 h4 h5
example : NodeInv XA ∧ NodeInv XG ∧ XA.seg.isSome = true ∧ XG.seg = none := ⟨XA_nodeInv, XG_nodeInv, by decide, rfl⟩
#print axioms C01_nodeInv_of_records

/-- with an array, `NodeInv` follows from R3A's joint invariant `Joint` (valid solution, `SegOK`,
    non-zero ids, `RpOK`) plus the registration of the node attributes — so the two theorems above
    apply to every state reached under `C07_valid_step` -/
theorem C01_nodeInv_of_joint (s : St) (f : Nat) (hJ : R3A.Joint s f)
    (h1 : ∀ r ∈ s.nodes, ∀ kv ∈ r.other, kv.2 ≠ Val.none → kv.1 ∈ s.regNode)
    (h2 : ∀ k ∈ s.rpActive, k ∈ s.regNode) : NodeInv s := NodeInv.of_joint hJ h1 h2
example : R3A.Joint R3A.exJ 4 ∧ NodeInv R3A.exJ :=
  ⟨R3A.exJ_joint, C01_nodeInv_of_joint R3A.exJ 4 R3A.exJ_joint (by decide) (by decide)⟩
#print axioms C01_nodeInv_of_joint

/-- **C11, rollback path of a refused forced add-node**: when the part of `UserAddNode` before
    `AddNode` (neighbour query, division checks *with their forced removals*, DeleteEdge of the split
    edge) was applied and `AddNode` then raises (`Refused`: no pixels and a position attribute missing,
    or pixels without an array), the action returns the error `ValueError`, its state is
    `ActionGroup._rollback` of what was applied, and that state is equal to the start state up to the
    common equivalence — observationally equal, and again `Valid`, `Good`, `EdgeInv`. -/
theorem C11_addNode_refused_forced (s : St) (a : AddNodeArgs) (time tid0 : Nat) (recs1 : List PrimRec)
    (hV : s.Valid) (hG : Good s) (hEI : EdgeInv s) (ht : a.time = some time) (hd : a.tid = some tid0)
    (hn : a.node ∉ s.ids) (h1 : (addNodeA1 s a tid0 time).2 = .ok recs1) (hre : Refused s a) :
    s.uAddNode a = ((addNodeA1 s a tid0 time).1.rollback recs1, .error .value) ∧
    E (s.uAddNode a).1 s ∧ ObsEq (s.uAddNode a).1 s ∧
    (s.uAddNode a).1.Valid ∧ Good (s.uAddNode a).1 ∧ EdgeInv (s.uAddNode a).1 := by
  obtain ⟨e1, e2, _⟩ := uAddNode_refused hV hG hEI ht hd hn h1 (refused_at_a1 hV hG hEI h1 hre)
  rw [e1]
  exact ⟨rfl, e2, e2.1, valid_congrE e2 hG.wf hV, Good.of_E e2 hG, edgeInv_congrE e2 hG.wf hEI⟩
-- `XG` has the position key 7. Forced add on track 1 in frame 1 without a position: the division
-- edges (1, 2) and (1, 3) are removed by two nested `UserDeleteEdge`s (five records), AddNode raises,
-- the rollback restores `XG` up to `ObsEq` (the edge table comes back in another order)
example : ∃ recs1, (addNodeA1 XG ⟨6, some 1, some 1, none, [], none, true⟩ 1 1).2 = .ok recs1 ∧ recs1.length = 5 ∧
    (XG.uAddNode ⟨6, some 1, some 1, none, [], none, true⟩).2 = .error .value ∧
    ObsEq (XG.uAddNode ⟨6, some 1, some 1, none, [], none, true⟩).1 XG ∧
    (XG.uAddNode ⟨6, some 1, some 1, none, [], none, true⟩).1.edges ≠ XG.edges := by
  have h1 : ∃ recs1, (addNodeA1 XG ⟨6, some 1, some 1, none, [], none, true⟩ 1 1).2 = .ok recs1 := ⟨_, rfl⟩
  obtain ⟨recs1, h1⟩ := h1
  obtain ⟨e1, _, e3, _⟩ := C11_addNode_refused_forced XG ⟨6, some 1, some 1, none, [], none, true⟩ 1 1 recs1
    XG_valid XG_good XG_edgeInv rfl rfl (by decide) h1 (Or.inl ⟨rfl, 7, by decide, rfl⟩)
  refine ⟨recs1, h1, ?_, by rw [e1], e3, by decide⟩
  have : recs1 = _ := Except.ok.inj (h1.symm.trans rfl)
  rw [this]; rfl
-- pixels passed although there is no array: refused as well, after the same forced removals
example : (XG.uAddNode ⟨6, some 1, some 1, none, [(7, .tok 9)], some [5], true⟩).2 = .error .value ∧
    ObsEq (XG.uAddNode ⟨6, some 1, some 1, none, [(7, .tok 9)], some [5], true⟩).1 XG := by
  have h1 : ∃ recs1, (addNodeA1 XG ⟨6, some 1, some 1, none, [(7, .tok 9)], some [5], true⟩ 1 1).2 = .ok recs1 :=
    ⟨_, rfl⟩
  obtain ⟨recs1, h1⟩ := h1
  obtain ⟨e1, _, e3, _⟩ := C11_addNode_refused_forced XG ⟨6, some 1, some 1, none, [(7, .tok 9)], some [5], true⟩
    1 1 recs1 XG_valid XG_good XG_edgeInv rfl rfl (by decide) h1 (Or.inr ⟨rfl, rfl⟩)
  exact ⟨by rw [e1], e3⟩
#print axioms C11_addNode_refused_forced
