/-
  C01 — every edit is exactly invertible: the primitive `UpdateTrackIDs` (package R2A2).

  `pUpdTid s start newT newL` relabels, by a breadth-first walk with one global flag, the chain of
  `start`'s segment at or below `start` with `newT`, and (if `newL` is given and the lineage
  feature is on) writes `newL` on every descendant; its record keeps `start`, the old/new track
  id and the *start node's* old lineage. `invPrim` of the record is `UpdateTrackIDs(start, old
  track id, old lineage)` applied to the post state.

  Proved here
  * `C01_prim_updTid`        under `Forest`, `TidOK`, `BookOK`, lineage constant along edges, and the
                             documented precondition "the new id is not found downstream": the
                             primitive succeeds, the post state is again a well-formed forest, and
                             from *every* well-formed state `Equiv`-equal to the post state the
                             inverse succeeds and lands `Equiv`-equal to `s` — in particular all
                             track ids, lineage ids and both lookups (as sets) are restored.
  * `C01_prim_updTid_again`  the symmetric law: the record of the inverse satisfies the same law
                             back to the post state (law form `InvLawE EquivW`), and inverting
                             the inverse reproduces a state `Equiv`-equal to the post state.
  * `C01_prim_updTid_law`    the law in the `InvLaw`/`Chain` form of `InverseLemmas`, over `EquivW`.
  * `C01_prim_updTid_view`   the same on the *view* (track ids, lineage ids, edge set, lookups as
                             sets) under the minimal precondition `ViewPre` — no `TidOK`: this
                             is the form that applies to the intermediate states inside the user
                             actions, where `TidOK` is temporarily broken.
  * `C01_prim_updTid_obs`    the law from states that agree with the post state only on the tracks
                             view `TEq` (ids per node, edge set, lookups as sets): view of `s`
                             restored, everything else of `t'` untouched (`Frame`), record again
                             a recorded step — the form to combine with a coarser `ObsEq`.
  * `C01_updTid_rec_inverse` the record relation `UpdRecF` is closed under inversion (the shape
                             `C01Obligation.inverse` of `HistoryLemmas` needs, per primitive).
  * `C01_updTid_pre`         the three situations of the user actions (fresh id / same id / id of
                             a segment not below `start`) imply the documented precondition.
  * `C01_group_wf`           `C01_group` over `EquivW` (chains of such laws are undone by
                             `ActionGroup.inverse`).
  * `C01_note_updTid_needs_fresh`   the law fails if the new id occurs downstream (`decide`).
  * `C01_note_updTid_needs_lineage` the lineage part fails if a descendant carried a different
                             lineage: the inverse writes the start node's old lineage on all.
  * `C01_note_updTid_needs_wf`      why the law is guarded by well-formedness: `St.Equiv` compares
                             lookups as sets, a state that lists a node twice is `Equiv`-equal
                             but is not put back by the inverse (`list.remove` removes one):
                             `¬ InvLaw …` for a concrete step, while `InvLawE EquivW …` holds.

  About the form: `InvLaw` of `InverseLemmas` quantifies over *all* `Equiv`-equal states; for
  this primitive that is false (`C01_note_updTid_needs_wf`), so the law is stated over
  `EquivW a b := Equiv a b ∧ (WF a ↔ WF b)`, `WF = Forest ∧ BookOK`, which is an equivalence
  relation on all states and is what `C02_session` can take as its parameter `E`.
-/
import FtProofs.R2A2Lemmas
open Ft Ft.St Ft.R2A2 List

/-- `UpdateTrackIDs`, then `inverse()` from any well-formed state `Equiv`-equal to the post state:
    the start state comes back up to `Equiv`; all track ids, lineage ids, lookups restored.
    `hLA` is `LinOK.along` (needed: the inverse writes the start node's old lineage on all
    descendants), `hLH` is `LinOK.has` at `start`, `hnew` the documented precondition. -/
theorem C01_prim_updTid (s : St) (start : Node) (oT nT : Nat) (nL : Option Nat)
    (hF : s.Forest) (hT : s.TidOK) (hB : s.BookOK)
    (hm : start ∈ s.ids) (ht : s.tidOf start = some oT)
    (hLA : s.linOn = true → ∀ e ∈ s.edgeList, s.linOf e.2 = s.linOf e.1)
    (hLH : s.linOn = true → nL.isSome = true → (s.linOf start).isSome = true)
    (hnew : ∀ n, s.Anc start n → ¬ s.SameSeg start n → s.tidOf n ≠ some nT) :
    ∃ t, s.pUpdTid start nT nL = .ok (t, .updTid start oT nT (s.linOf start) nL) ∧
      t.Forest ∧ t.BookOK ∧
      ∀ t', Equiv t' t → t'.Forest → t'.BookOK →
        ∃ s₂ r', t'.invPrim (.updTid start oT nT (s.linOf start) nL) = .ok (s₂, r') ∧
          Equiv s₂ s ∧ s₂.Forest ∧ s₂.BookOK ∧
          (∀ n, s₂.tidOf n = s.tidOf n) ∧ (∀ n, s₂.linOf n = s.linOf n) := by
  obtain ⟨h1, h2, h3⟩ := step_of_pre ⟨hF, hB⟩ (viewPre_of_tidOK hF hT hm ht hLA hLH hnew)
  refine ⟨_, h1, h2.wt.1, h2.wt.2, ?_⟩
  intro t' he hF' hB'
  have hteq := equiv_TEq he hF'.nodup_nodes h2.wt.1.nodup_nodes
  obtain ⟨s₂, hinv, hq, hwf, hfr, _⟩ := h2.inverse hteq ⟨hF', hB'⟩
  exact ⟨s₂, _, hinv, equiv_back he h3.toS hfr.toS hq hF.nodup_nodes h2.wt.1.nodup_nodes hF'.nodup_nodes
    hwf.1.nodup_nodes, hwf.1, hwf.2, hq.view.tid, hq.view.lin⟩
-- 1 → 2 → {3, 4}: relabel the chain {1, 2} with the fresh id 9 and the whole tree with lineage 7
example : ∃ t, tk_exState.pUpdTid 1 9 (some 7) = .ok (t, .updTid 1 1 9 (some 1) (some 7)) ∧
    t.tidOf 2 = some 9 ∧ t.tidOf 3 = some 2 ∧ t.linOf 4 = some 7 ∧
    ∃ s₂ r', t.invPrim (.updTid 1 1 9 (some 1) (some 7)) = .ok (s₂, r') ∧ Equiv s₂ tk_exState := by
  obtain ⟨t, h1, hF, hB, h2⟩ := C01_prim_updTid tk_exState 1 1 9 (some 7) ex_hyps.1 ex_hyps.2.1
    ex_hyps.2.2.1 (by decide) (by decide) ex_hyps.2.2.2 (fun _ _ => by decide)
    (notDownstream_of (oT := 1) ex_hyps.1 ex_hyps.2.1 (by decide) (by decide)
      (Or.inl (fresh_of_max ex_hyps.2.2.1 (by decide))))
  obtain ⟨s₂, r', h3, h4, _⟩ := h2 t (Equiv.refl t) hF hB
  have ht : t = tk_exState.walk 1 1 9 (some 1) (some 7) := by
    have : tk_exState.pUpdTid 1 9 (some 7) = .ok (tk_exState.walk 1 1 9 (some 1) (some 7), _) := rfl
    rw [this] at h1; injection h1 with h1; injection h1 with h1; exact h1.symm
  exact ⟨t, h1, by rw [ht]; decide, by rw [ht]; decide, by rw [ht]; decide, s₂, r', h3, h4⟩
#print axioms C01_prim_updTid

/-- the same in the `InvLaw` form of `InverseLemmas` (usable in chains), over `EquivW` -/
theorem C01_prim_updTid_law (s : St) (start : Node) (oT nT : Nat) (nL : Option Nat)
    (hF : s.Forest) (hT : s.TidOK) (hB : s.BookOK)
    (hm : start ∈ s.ids) (ht : s.tidOf start = some oT)
    (hLA : s.linOn = true → ∀ e ∈ s.edgeList, s.linOf e.2 = s.linOf e.1)
    (hLH : s.linOn = true → nL.isSome = true → (s.linOf start).isSome = true)
    (hnew : ∀ n, s.Anc start n → ¬ s.SameSeg start n → s.tidOf n ≠ some nT) :
    ∃ t, s.pUpdTid start nT nL = .ok (t, .updTid start oT nT (s.linOf start) nL) ∧
      InvLawE EquivW s (.updTid start oT nT (s.linOf start) nL) t := by
  obtain ⟨h1, h2⟩ := updTid_law hF hT hB hm ht hLA hLH hnew
  exact ⟨_, h1, h2.invLaw⟩
-- joining: relabel 3 (child of the division at 2) with 4, the id of the unrelated track {5, 6}
example : ∃ t, tk_exState.pUpdTid 3 4 none = .ok (t, .updTid 3 2 4 (some 1) none) ∧
    InvLawE EquivW tk_exState (.updTid 3 2 4 (some 1) none) t :=
  C01_prim_updTid_law tk_exState 3 2 4 none ex_hyps.1 ex_hyps.2.1 ex_hyps.2.2.1 (by decide) (by decide)
    ex_hyps.2.2.2 (fun _ h => by cases h)
    (notDownstream_of (oT := 2) ex_hyps.1 ex_hyps.2.1 (by decide) (by decide)
      (Or.inr (Or.inr ⟨5, by decide, fun h => by
        have := h.tm_le ex_hyps.1; revert this; decide⟩)))
#print axioms C01_prim_updTid_law

/-- the symmetric law: from any `t' ≈ t` the record `r'` of the inverse satisfies the law back
    (`t' ⟵ s₂`), and inverting the inverse lands `≈ t'`, hence `≈` the post state `t` -/
theorem C01_prim_updTid_again (s : St) (start : Node) (oT nT : Nat) (nL : Option Nat)
    (hF : s.Forest) (hT : s.TidOK) (hB : s.BookOK)
    (hm : start ∈ s.ids) (ht : s.tidOf start = some oT)
    (hLA : s.linOn = true → ∀ e ∈ s.edgeList, s.linOf e.2 = s.linOf e.1)
    (hLH : s.linOn = true → nL.isSome = true → (s.linOf start).isSome = true)
    (hnew : ∀ n, s.Anc start n → ¬ s.SameSeg start n → s.tidOf n ≠ some nT) :
    ∃ t, s.pUpdTid start nT nL = .ok (t, .updTid start oT nT (s.linOf start) nL) ∧
      ∀ t', EquivW t' t →
        ∃ s₂ r', t'.invPrim (.updTid start oT nT (s.linOf start) nL) = .ok (s₂, r') ∧ EquivW s₂ s ∧
          InvLawE EquivW t' r' s₂ ∧
          ∃ t₃ r'', s₂.invPrim r' = .ok (t₃, r'') ∧ EquivW t₃ t' ∧ EquivW t₃ t := by
  obtain ⟨h1, h2⟩ := updTid_law hF hT hB hm ht hLA hLH hnew
  refine ⟨_, h1, fun t' he => ?_⟩
  obtain ⟨s₂, r', hi, he2, hrec, _⟩ := h2.inverse he
  obtain ⟨t₃, r'', hi3, he3, _⟩ := hrec.inverse (EquivW.refl s₂)
  exact ⟨s₂, r', hi, he2, hrec.invLaw, t₃, r'', hi3, he3, he3.trans he⟩
-- same id, new lineage (what `UserDeleteEdge` does to the cut-off subtree of a division child)
example : ∃ t, tk_exState.pUpdTid 2 1 (some 3) = .ok (t, .updTid 2 1 1 (some 1) (some 3)) ∧
    ∃ s₂ r' t₃ r'', t.invPrim (.updTid 2 1 1 (some 1) (some 3)) = .ok (s₂, r') ∧ EquivW s₂ tk_exState ∧
      s₂.invPrim r' = .ok (t₃, r'') ∧ EquivW t₃ t := by
  obtain ⟨t, h1, h2⟩ := C01_prim_updTid_again tk_exState 2 1 1 (some 3) ex_hyps.1 ex_hyps.2.1
    ex_hyps.2.2.1 (by decide) (by decide) ex_hyps.2.2.2 (fun _ _ => by decide)
    (notDownstream_of (oT := 1) ex_hyps.1 ex_hyps.2.1 (by decide) (by decide) (Or.inr (Or.inl rfl)))
  obtain ⟨s₂, r', h3, h4, _, t₃, r'', h5, _, h6⟩ := h2 t (EquivW.refl t)
  exact ⟨t, h1, s₂, r', t₃, r'', h3, h4, h5, h6⟩
#print axioms C01_prim_updTid_again

/-- the law on the view, under the minimal precondition `ViewPre` (own id consistent on the chain
    below `start`; new id not on the children of the division that ends the chain; one lineage
    on the subtree) — no `TidOK`, so it applies to the intermediate states of the user actions -/
theorem C01_prim_updTid_view (s : St) (start : Node) (oT nT : Nat) (oL nL : Option Nat)
    (hF : s.Forest) (hB : s.BookOK) (hp : ViewPre s start oT nT oL nL) :
    ∃ t, s.pUpdTid start nT nL = .ok (t, .updTid start oT nT oL nL) ∧
      UpdRecF (.updTid start oT nT oL nL) s t ∧ InvLawE EquivW s (.updTid start oT nT oL nL) t := by
  obtain ⟨h1, h2, h3⟩ := step_of_pre ⟨hF, hB⟩ hp
  have hr : UpdRecF (.updTid start oT nT oL nL) s _ := ⟨⟨_, _, _, _, _, rfl, h2⟩, h3.toS⟩
  exact ⟨_, h1, hr, hr.invLaw⟩
-- the middle of `UserDeleteEdge (1, 2)`: edge removed, 1 and 2 still share id 1 (not `TidOK`)
example : ¬ (tk_exState.tk_delE (1, 2)).TidOK ∧
    ∃ t, (tk_exState.tk_delE (1, 2)).pUpdTid 2 5 (some 3) = .ok (t, .updTid 2 1 5 (some 1) (some 3)) ∧
      InvLawE EquivW (tk_exState.tk_delE (1, 2)) (.updTid 2 1 5 (some 1) (some 3)) t := by
  refine ⟨fun h => ?_, ?_⟩
  · exact h.heads 1 2 (tk_isHead_iff.2 (by decide)) (tk_isHead_iff.2 (by decide)) (by decide) (by decide)
  · obtain ⟨t, h1, _, h2⟩ := C01_prim_updTid_view (tk_exState.tk_delE (1, 2)) 2 1 5 (some 1) (some 3)
      (ex_hyps.1.tk_delE _) (PC.bookOK_of_check (by decide))
      (viewPre_after_cut ex_hyps.1 ex_hyps.2.1 (by decide) (by decide) ex_hyps.2.2.2 (fun _ _ => by decide)
        (fresh_of_max ex_hyps.2.2.1 (by decide)))
    exact ⟨t, h1, h2⟩
#print axioms C01_prim_updTid_view

/-- the law for states that agree with the post state only on the *tracks view* (`TEq`: times, track
    ids, lineage ids per node id, edge set, lineage switch, both lookups as sets — nothing about
    other attributes, the array, insertion orders): the inverse succeeds from every such
    well-formed `t'`, restores the view of `s` (all track ids, lineage ids, lookups as sets),
    changes nothing else in `t'` (`Frame`: node table up to the two ids and with its order, edge
    table, array, registry, history), and its record is again a recorded step, from `t'` to the
    result. This is the form to combine with a coarser observational equivalence. -/
theorem C01_prim_updTid_obs (s : St) (start : Node) (oT nT : Nat) (oL nL : Option Nat)
    (hF : s.Forest) (hB : s.BookOK) (hp : ViewPre s start oT nT oL nL) :
    ∃ t, s.pUpdTid start nT nL = .ok (t, .updTid start oT nT oL nL) ∧ Frame s t ∧
      ∀ t', TEq t' t → t'.Forest → t'.BookOK →
        ∃ s₂ r', t'.invPrim (.updTid start oT nT oL nL) = .ok (s₂, r') ∧
          (∀ n, s₂.tidOf n = s.tidOf n) ∧ (∀ n, s₂.linOf n = s.linOf n) ∧ T2Eq s₂ s ∧ L2Eq s₂ s ∧
          TEq s₂ s ∧ s₂.Forest ∧ s₂.BookOK ∧ Frame t' s₂ ∧ UpdRec r' t' s₂ := by
  obtain ⟨h1, h2, h3⟩ := step_of_pre ⟨hF, hB⟩ hp
  refine ⟨_, h1, h3, fun t' he hF' hB' => ?_⟩
  obtain ⟨s₂, hinv, hq, hwf, hfr, hst⟩ := h2.inverse he ⟨hF', hB'⟩
  exact ⟨s₂, _, hinv, hq.view.tid, hq.view.lin, hq.t2n, hq.l2n, hq, hwf.1, hwf.2, hfr,
    ⟨_, _, _, _, _, rfl, hst⟩⟩
-- from the post state with its node table reversed (same view, different insertion order)
example : ∃ (t t' s₂ : St) (r' : PrimRec), tk_exState.pUpdTid 1 9 (some 7) = .ok (t, .updTid 1 1 9 (some 1) (some 7)) ∧
    t'.nodes = t.nodes.reverse ∧ t'.invPrim (.updTid 1 1 9 (some 1) (some 7)) = .ok (s₂, r') ∧
    TEq s₂ tk_exState ∧ s₂.nodes ≠ tk_exState.nodes := by
  obtain ⟨t, h1, _, h2⟩ := C01_prim_updTid_obs tk_exState 1 1 9 (some 1) (some 7) ex_hyps.1 ex_hyps.2.2.1
    (viewPre_of_tidOK ex_hyps.1 ex_hyps.2.1 (by decide) (by decide) ex_hyps.2.2.2 (fun _ _ => by decide)
      (notDownstream_of (oT := 1) ex_hyps.1 ex_hyps.2.1 (by decide) (by decide)
        (Or.inl (fresh_of_max ex_hyps.2.2.1 (by decide)))))
  have ht : t = tk_exState.walk 1 1 9 (some 1) (some 7) := by
    have : tk_exState.pUpdTid 1 9 (some 7) = .ok (tk_exState.walk 1 1 9 (some 1) (some 7), _) := rfl
    rw [this] at h1; injection h1 with h1; injection h1 with h1; exact h1.symm
  subst ht
  have hF' : ({ tk_exState.walk 1 1 9 (some 1) (some 7) with
      nodes := (tk_exState.walk 1 1 9 (some 1) (some 7)).nodes.reverse } : St).Forest :=
    tk_forestB_sound (by decide)
  have hB' : ({ tk_exState.walk 1 1 9 (some 1) (some 7) with
      nodes := (tk_exState.walk 1 1 9 (some 1) (some 7)).nodes.reverse } : St).BookOK :=
    PC.bookOK_of_check (by decide)
  have he : Equiv ({ tk_exState.walk 1 1 9 (some 1) (some 7) with
      nodes := (tk_exState.walk 1 1 9 (some 1) (some 7)).nodes.reverse } : St)
      (tk_exState.walk 1 1 9 (some 1) (some 7)) :=
    ⟨fun _ => List.mem_reverse, fun _ => Iff.rfl, rfl, fun _ _ => Iff.rfl, fun _ _ => Iff.rfl,
      rfl, rfl, rfl, rfl, rfl, rfl, rfl, rfl⟩
  obtain ⟨s₂, r', h3, _, _, _, _, h4, _, _, hfr, _⟩ :=
    h2 _ (equiv_TEq he hF'.nodup_nodes (tk_forestB_sound (by decide) : St.Forest _).nodup_nodes) hF' hB'
  refine ⟨_, _, s₂, r', h1, rfl, h3, h4, fun hn => ?_⟩
  have := hfr.nodes
  unfold nstrip at this
  rw [hn] at this
  revert this; decide
#print axioms C01_prim_updTid_obs

/-- the record relation of `UpdateTrackIDs` is invariant under `EquivW` and closed under inversion:
    exactly the `congr` / `inverse` fields of `C01Obligation` (HistoryLemmas) for this primitive -/
theorem C01_updTid_rec_inverse (r : PrimRec) (s t : St) (h : UpdRecF r s t) :
    (∀ s' t', EquivW s s' → EquivW t t' → UpdRecF r s' t') ∧
    (∀ t', EquivW t' t →
      ∃ s₂ r', t'.invPrim r = .ok (s₂, r') ∧ EquivW s₂ s ∧ UpdRecF r' t' s₂ ∧ UpdRecF r' t s) :=
  ⟨fun _ _ es et => h.congr es et, fun _ he => h.inverse he⟩
example : ∃ r t, UpdRecF r tk_exState t ∧ t.tidOf 1 = some 9 :=
  ⟨_, _, (updTid_law (nT := 9) (nL := some 7) ex_hyps.1 ex_hyps.2.1 ex_hyps.2.2.1 (start := 1) (oT := 1)
    (by decide) (by decide) ex_hyps.2.2.2 (fun _ _ => by decide)
    (notDownstream_of (oT := 1) ex_hyps.1 ex_hyps.2.1 (by decide) (by decide)
      (Or.inl (fresh_of_max ex_hyps.2.2.1 (by decide))))).2, by decide⟩
#print axioms C01_updTid_rec_inverse

/-- the situations in which the user actions call `UpdateTrackIDs` satisfy the documented
    precondition: a fresh id, the id `start` already has, or the id of a segment that is not
    below `start` (the source segment a subtree is joined to) -/
theorem C01_updTid_pre (s : St) (start : Node) (oT nT : Nat) (hF : s.Forest) (hT : s.TidOK)
    (hm : start ∈ s.ids) (ht : s.tidOf start = some oT)
    (h : (∀ n, s.tidOf n ≠ some nT) ∨ nT = oT ∨ (∃ u, s.tidOf u = some nT ∧ ¬ s.Anc start u)) :
    ∀ n, s.Anc start n → ¬ s.SameSeg start n → s.tidOf n ≠ some nT :=
  notDownstream_of hF hT hm ht h
example : ∀ n, tk_exState.Anc 1 n → ¬ tk_exState.SameSeg 1 n → tk_exState.tidOf n ≠ some 1 :=
  C01_updTid_pre tk_exState 1 1 1 ex_hyps.1 ex_hyps.2.1 (by decide) (by decide) (Or.inr (Or.inl rfl))
#print axioms C01_updTid_pre

/-- `C01_group` over `EquivW`: a recorded run in which every primitive satisfies its law over
    `EquivW` is undone by `ActionGroup.inverse` from any state `EquivW`-equal to its end state -/
theorem C01_group_wf (s sₙ : St) (recs : List PrimRec) (h : ChainE EquivW s recs sₙ) (sₙ' : St)
    (he : EquivW sₙ' sₙ) :
    ∃ s' recs', sₙ'.invGroup recs = (s', .ok recs') ∧ EquivW s' s ∧ recs'.length = recs.length :=
  invGroup_chainE h sₙ' he
-- two relabellings in a row (the second one at the state the first one produced)
example : ∃ s₂, ChainE EquivW tk_exState [.updTid 1 1 9 (some 1) (some 7), .updTid 5 4 10 (some 2) none] s₂ ∧
    Equiv (s₂.rollback [.updTid 1 1 9 (some 1) (some 7), .updTid 5 4 10 (some 2) none]) tk_exState := by
  have h1 := (updTid_law (nT := 9) (nL := some 7) ex_hyps.1 ex_hyps.2.1 ex_hyps.2.2.1 (start := 1) (oT := 1)
    (by decide) (by decide) ex_hyps.2.2.2 (fun _ _ => by decide)
    (notDownstream_of (oT := 1) ex_hyps.1 ex_hyps.2.1 (by decide) (by decide)
      (Or.inl (fresh_of_max ex_hyps.2.2.1 (by decide))))).2
  have hF2 : (tk_exState.walk 1 1 9 (some 1) (some 7)).Forest := tk_forestB_sound (by decide)
  have hT2 : (tk_exState.walk 1 1 9 (some 1) (some 7)).TidOK := tk_tidOKB_sound (by decide)
  have hB2 : (tk_exState.walk 1 1 9 (some 1) (some 7)).BookOK := PC.bookOK_of_check (by decide)
  have h2 := (updTid_law (nT := 10) (nL := none) hF2 hT2 hB2 (start := 5) (oT := 4)
    (by decide) (by decide)
    (fun _ => (tk_linOKB_sound (by decide : (tk_exState.walk 1 1 9 (some 1) (some 7)).tk_linOKB = true)).along)
    (fun _ h => by cases h)
    (notDownstream_of (oT := 4) hF2 hT2 (by decide) (by decide) (Or.inl (fresh_of_max hB2 (by decide))))).2
  have hc : ChainE EquivW tk_exState [.updTid 1 1 9 (some 1) (some 7), .updTid 5 4 10 (some 2) none]
      ((tk_exState.walk 1 1 9 (some 1) (some 7)).walk 5 4 10 (some 2) none) :=
    ChainE.cons h1.invLaw (ChainE.cons h2.invLaw (ChainE.nil _))
  obtain ⟨s', recs', hg, he, _⟩ := C01_group_wf _ _ _ hc _ (EquivW.refl _)
  exact ⟨_, hc, by unfold rollback; rw [hg]; exact he.1⟩
#print axioms C01_group_wf

/-- the law fails when the new id occurs downstream: relabelling the chain {1, 2} of
    `1 → 2 → {3, 4}` with 2, the id of the division child 3, and inverting relabels 3 as well —
    the walk back (old id 2) does not stop at 3. The documented precondition is violated. -/
theorem C01_note_updTid_needs_fresh :
    (∃ n, tk_exState.Anc 1 n ∧ ¬ tk_exState.SameSeg 1 n ∧ tk_exState.tidOf n = some 2) ∧
    ∃ t r s₂ r', tk_exState.pUpdTid 1 2 none = .ok (t, r) ∧ t.invPrim r = .ok (s₂, r') ∧
      tk_exState.tidOf 3 = some 2 ∧ s₂.tidOf 3 = some 1 ∧ ¬ Equiv s₂ tk_exState := by
  refine ⟨⟨3, Anc.step _ 2 3 (Anc.step _ 1 2 (Anc.refl 1) (by decide)) (by decide), fun h => ?_, by decide⟩,
    _, _, _, _, rfl, rfl, by decide, by decide, fun h => ?_⟩
  · have := ex_hyps.2.1.of_sameSeg h
    revert this; decide
  · obtain ⟨l, hl, hm⟩ := (h.t2n 1 3).1 ⟨[1, 2, 3], by decide, by decide⟩
    have : alook 1 tk_exState.t2n = some [1, 2] := rfl
    rw [this] at hl; cases hl
    revert hm; decide
#print axioms C01_note_updTid_needs_fresh

/-- the lineage part needs "all descendants carried the start node's lineage" (`LinOK.along`): the
    inverse writes the *start node's* old lineage on every descendant. Here node 2 carried
    lineage 2 below node 1 with lineage 1; after the round trip it carries 1. -/
theorem C01_note_updTid_needs_lineage :
    exLinBad.Forest ∧ exLinBad.TidOK ∧ exLinBad.BookOK ∧ exLinBad.linOf 2 ≠ exLinBad.linOf 1 ∧
    ∃ t r s₂ r', exLinBad.pUpdTid 1 1 (some 5) = .ok (t, r) ∧ t.invPrim r = .ok (s₂, r') ∧
      s₂.tidOf 1 = exLinBad.tidOf 1 ∧ s₂.tidOf 2 = exLinBad.tidOf 2 ∧ s₂.linOf 1 = exLinBad.linOf 1 ∧
      exLinBad.linOf 2 = some 2 ∧ s₂.linOf 2 = some 1 :=
  ⟨tk_forestB_sound (by decide), tk_tidOKB_sound (by decide), PC.bookOK_of_check (by decide), by decide,
    _, _, _, _, rfl, rfl, by decide, by decide, by decide, by decide, by decide⟩
#print axioms C01_note_updTid_needs_lineage

/-- why the law is guarded by well-formedness: `exT` is `tk_exState` after relabelling the track
    {5, 6} with 9; `exDup` is `exT` with node 6 listed twice under 9 — `Equiv`-equal to `exT` (lookups
    are compared as sets) but not `BookOK`. Inverting from `exDup` leaves one copy of 6 under id 9
    (`list.remove` removes one occurrence). So the plain `InvLaw` of `InverseLemmas` (all
    `Equiv`-equal states) is false for `UpdateTrackIDs`, while the `EquivW` law holds. -/
theorem C01_note_updTid_needs_wf :
    tk_exState.pUpdTid 5 9 none = .ok (exT, .updTid 5 4 9 (some 2) none) ∧
    Equiv exDup exT ∧ ¬ exDup.BookOK ∧
    ¬ InvLaw tk_exState (.updTid 5 4 9 (some 2) none) exT ∧
    InvLawE EquivW tk_exState (.updTid 5 4 9 (some 2) none) exT := by
  have heq : Equiv exDup exT := by
    refine ⟨fun _ => Iff.rfl, fun _ => Iff.rfl, rfl, fun id n => ?_, fun _ _ => Iff.rfl,
      rfl, rfl, rfl, rfl, rfl, rfl, rfl, rfl⟩
    show (∃ l, alook id [(1, [1, 2]), (2, [3]), (3, [4]), (9, [5, 6, 6])] = some l ∧ n ∈ l) ↔
      (∃ l, alook id [(1, [1, 2]), (2, [3]), (3, [4]), (9, [5, 6])] = some l ∧ n ∈ l)
    simp only [alook]
    by_cases h1 : (1 == id) = true
    · simp [h1]
    · by_cases h2 : (2 == id) = true
      · simp [h1, h2]
      · by_cases h3 : (3 == id) = true
        · simp [h1, h2, h3]
        · by_cases h4 : (9 == id) = true
          · simp [h1, h2, h3, h4]
          · simp [h1, h2, h3, h4]
  refine ⟨rfl, heq, fun h => ?_, fun h => ?_, ?_⟩
  · have := h.t_nodup 9 [5, 6, 6] (by decide)
    revert this; decide
  · obtain ⟨s₂, r', hi, he⟩ := h exDup heq
    have hc : exDup.invPrim (.updTid 5 4 9 (some 2) none)
        = .ok (exDup.walk 5 9 4 (some 2) (some 2), .updTid 5 9 4 (some 2) (some 2)) := rfl
    rw [hc] at hi
    injection hi with hi; injection hi with hi _
    subst hi
    obtain ⟨l, hl, _⟩ := (he.t2n 9 6).1 ⟨[6], by decide, by decide⟩
    have : alook 9 tk_exState.t2n = none := rfl
    rw [this] at hl; cases hl
  · exact (updTid_law (nT := 9) (nL := none) ex_hyps.1 ex_hyps.2.1 ex_hyps.2.2.1 (start := 5) (oT := 4)
      (by decide) (by decide) ex_hyps.2.2.2 (fun _ h => by cases h)
      (notDownstream_of (oT := 4) ex_hyps.1 ex_hyps.2.1 (by decide) (by decide)
        (Or.inl (fresh_of_max ex_hyps.2.2.1 (by decide))))).2.invLaw
#print axioms C01_note_updTid_needs_wf
