/-
  C04 — track ids label exactly the maximal unbranched segments.

  "In a tracking solution - after construction from a graph without ids and after every accepted
   user action, undo or redo - two nodes carry the same track id if and only if they lie on the
   same unbranched segment, i.e. are connected without crossing an edge that leaves a dividing
   node. An edit leaves the track id of every node unchanged whose connected component contains
   neither a node the edit names nor a node of the track it names."

  `C04_tid_iff_sameSeg` turns the local invariant `TidOK` (+ `Forest`) into the property text;
  `C04_walk_segment` characterises the track-id part of the relabel walk; `C04_step_deleteEdge` /
  `C04_frame_deleteEdge` treat `uDeleteEdge`.

  Not proved here (statements for the record):
    C04_step_addEdge : Forest s → TidOK s → (∀ n t, tidOf n = some t → t ≤ maxTid) →
        (uAddEdge s e force).2 = .ok recs → TidOK (uAddEdge s e force).1   (and Forest, max bound)
      -- same plan as C05_step_addEdge: `tk_addTail_shape`/`tk_addHead_shape` give the walks; needed is
      -- the "graft" analogue of `tk_cutTid0/1` (chain below the target joins the source's track when
      -- the source had no child; the old child's chain gets a fresh id when a division is created)
    C04_frame_addEdge, C04_step_* for addNode / deleteNode / swap / updateSeg,
    C04_assign : Forest s → TidOK (assignTracklets s)
-/
import FtProofs.TrackLemmas
open Ft Ft.St

/-- equal track id ⇔ same unbranched segment (from the local invariants) -/
theorem C04_tid_iff_sameSeg {s : St} (hF : s.Forest) (hT : s.TidOK) {a b : Node}
    (ha : a ∈ s.ids) (hb : b ∈ s.ids) : s.tidOf a = s.tidOf b ↔ s.SameSeg a b :=
  tk_tid_iff_sameSeg hF hT ha hb

example : tk_exState.Forest ∧ tk_exState.TidOK ∧ (1 : Node) ∈ tk_exState.ids ∧ (2 : Node) ∈ tk_exState.ids ∧
    tk_exState.tidOf 1 = tk_exState.tidOf 2 ∧ tk_exState.tidOf 2 ≠ tk_exState.tidOf 3 ∧
    tk_exState.tidOf 5 = tk_exState.tidOf 6 :=
  ⟨tk_forestB_sound (by decide), tk_tidOKB_sound (by decide), by decide, by decide, by decide, by decide,
   by decide⟩
#print axioms C04_tid_iff_sameSeg

/-- in a forest with `TidOK`, the walk from `start` with `oldT` = the track id of `start` (what
    `pUpdTid` passes) writes `newT` on exactly the nodes of `start`'s segment at or below `start`
    and changes no other track id -/
theorem C04_walk_segment {s : St} (hF : s.Forest) (hT : s.TidOK) {start : Node}
    (hs : start ∈ s.ids) (oldT newT : Nat) (oldL newL : Option Nat)
    (hold : s.tidOf start = some oldT) :
    let s' := s.walk start oldT newT oldL newL
    (∀ n, s.Anc start n ∧ s.SameSeg start n → s'.tidOf n = some newT) ∧
    (∀ n, ¬ (s.Anc start n ∧ s.SameSeg start n) → s'.tidOf n = s.tidOf n) ∧
    s'.ids = s.ids ∧ s'.edges = s.edges ∧ (∀ n, s'.timeOf n = s.timeOf n) := by
  have h := tk_walk_tid hF hs oldT newT oldL newL hold (hT.chainHyp hF hs hold)
  have g := tk_walk_sameG s start oldT newT oldL newL
  refine ⟨fun n hn => h.1 n ((tk_segDown_iff hF hs).2 hn),
    fun n hn => h.2 n (fun hseg => hn ((tk_segDown_iff hF hs).1 hseg)), g.ids, g.edges, g.time⟩

-- walk from 1 (track 1 = {1,2}): 1 and 2 are relabelled, the children of the division are not
example : tk_exState.Forest ∧ tk_exState.TidOK ∧ tk_exState.tidOf 1 = some 1 ∧
    (tk_exState.walk 1 1 9 (some 1) none).tidOf 2 = some 9 ∧
    (tk_exState.walk 1 1 9 (some 1) none).tidOf 3 = some 2 ∧
    (tk_exState.walk 1 1 9 (some 1) none).tidOf 6 = some 4 :=
  ⟨tk_forestB_sound (by decide), tk_tidOKB_sound (by decide), by decide, by decide, by decide, by decide⟩
#print axioms C04_walk_segment

/-- accepted `uDeleteEdge` re-establishes `TidOK` (with the forest shape and the bound that makes
    `nextTid` fresh) -/
theorem C04_step_deleteEdge {s : St} (hF : s.Forest) (hT : s.TidOK)
    (hmax : ∀ n t, s.tidOf n = some t → t ≤ s.maxTid) {e : Edge} {recs}
    (hok : (s.uDeleteEdge e).2 = .ok recs) :
    let s' := (s.uDeleteEdge e).1
    s'.TidOK ∧ s'.Forest ∧ (∀ n t, s'.tidOf n = some t → t ≤ s'.maxTid) := by
  have h := (tk_uDeleteEdge_tidInv ⟨hF, hT, hmax⟩ hok).1
  exact ⟨h.tidOK, h.forest, h.max⟩

-- a non-division edge (1,2): node 2 gets the fresh id 5; a division edge (2,3): sibling 4 joins track 1
example : tk_exState.Forest ∧ tk_exState.TidOK ∧ (∀ n t, tk_exState.tidOf n = some t → t ≤ tk_exState.maxTid) ∧
    (∃ recs, (tk_exState.uDeleteEdge (1, 2)).2 = .ok recs) ∧
    (∃ recs, (tk_exState.uDeleteEdge (2, 3)).2 = .ok recs) ∧
    (tk_exState.uDeleteEdge (1, 2)).1.tidOf 2 = some 5 ∧
    (tk_exState.uDeleteEdge (2, 3)).1.tidOf 4 = some 1 :=
  ⟨tk_forestB_sound (by decide), tk_tidOKB_sound (by decide), tk_tidMaxB_sound (by decide),
   ⟨_, rfl⟩, ⟨_, rfl⟩, by decide, by decide⟩
#print axioms C04_step_deleteEdge

/-- frame clause for `uDeleteEdge`: a node not connected to the edge's source keeps its track id -/
theorem C04_frame_deleteEdge {s : St} (hF : s.Forest) (hT : s.TidOK)
    (hmax : ∀ n t, s.tidOf n = some t → t ≤ s.maxTid) {e : Edge} {recs}
    (hok : (s.uDeleteEdge e).2 = .ok recs) (n : Node) (hn : ¬ s.Conn n e.1) :
    (s.uDeleteEdge e).1.tidOf n = s.tidOf n := by
  apply (tk_uDeleteEdge_tidInv ⟨hF, hT, hmax⟩ hok).2
  intro hanc
  have hmem : e ∈ s.edgeList := tk_hasEdge_iff.1 (tk_uDeleteEdge_hasEdge hok)
  exact hn ((hanc.conn (hF.src_mem _ hmem)).symm hF)

example : ¬ tk_exState.Conn 6 2 ∧ (tk_exState.uDeleteEdge (2, 3)).1.tidOf 6 = tk_exState.tidOf 6 := by
  refine ⟨?_, by decide⟩
  intro h
  have := (LinOK.of_conn (tk_linOKB_sound (by decide : tk_exState.tk_linOKB = true)) h)
  revert this; decide
#print axioms C04_frame_deleteEdge
