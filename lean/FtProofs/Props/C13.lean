/-
  C13 — relabelling on import is pixel-exact.
  "When imported nodes refer to segmentation labels through a seg-id property, the resulting
   segmentation contains, for every node, exactly the source pixels of its (time, seg id)
   relabelled to the node's id, and background everywhere else.  This holds when label values are
   reused across frames, when a label value equals another node's id, and when a node id of 0
   forces all ids to shift by one - in which case graph and segmentation shift together."

  `rows` are the parallel arrays (node_ids, seg_ids, time_values); the theorems hold for arrays of
  any size, any label values, any ids (reused labels, label = other node's id, permutations,
  unlisted labels, id 0 are all instances).  Hypotheses: every time value indexes a frame
  (`rowsOK`, otherwise the real code raises IndexError) and (time, seg id) pairs are distinct per
  node.  `importSeg` (the caller `TracksBuilder.handle_segmentation`) is modelled AS REPAIRED by
  fixes/D11_import_seg_skip_branch.patch; `importSegOrig` is the unrepaired caller.
-/
import FtProofs.LabelsLemmas
open Ft Ft.Labels

/-- Every pixel whose source label is the seg id of a node of that frame carries that node's id
    (+ the offset); every other pixel (unlisted labels, background) is 0. -/
theorem C13_relabel (orig : Arr) (g : G) (rows : List Row)
    (hT : rowsOK orig.length rows = true)
    (hdist : ∀ r ∈ rows, ∀ r' ∈ rows, r.time = r'.time → r.seg = r'.seg → r = r') :
    ∃ out g', relabelSeg orig g rows = some (out, g') ∧
      ∀ i p x, px orig i p = some x →
        (∀ r ∈ rows, r.time = i → r.seg = x →
            px out i p = some (r.id + (if 0 ∈ rows.map (·.id) then 1 else 0))) ∧
        ((∀ r ∈ rows, ¬ (r.time = i ∧ r.seg = x)) → px out i p = some 0) := by
  refine ⟨applyWrites orig (segWrites (offsetOf rows) rows), shiftGraph (offsetOf rows) g,
    by simp only [relabelSeg, hT, if_true], ?_⟩
  intro i p x hpx
  rw [← offsetOf_eq]
  have key : ∀ w ∈ segWrites (offsetOf rows) rows, w.t = i ∧ x = w.sid →
      ∃ r ∈ rows, r.time = i ∧ r.seg = x ∧ w.v = r.id + offsetOf rows := by
    intro w hw hm
    obtain ⟨t, _, kv, hkv, rfl⟩ := mem_segWrites.mp hw
    obtain ⟨r, hr, hrt, hkv'⟩ := mem_rowsAt.mp (dictOf_sub hkv)
    simp only at hm
    refine ⟨r, hr, hrt.trans hm.1, ?_, ?_⟩
    · rw [hm.2, hkv']
    · simp only [hkv']
  constructor
  · intro r hr hrt hrs
    rw [px_applyWrites, hpx]
    show some (pxWrite i x (segWrites (offsetOf rows) rows)) = _
    congr 1
    rw [pxWrite_eq]
    apply foldl_wstep_some
    · have hin : (r.seg, r.id + offsetOf rows) ∈ rowsAt (offsetOf rows) rows i :=
        mem_rowsAt.mpr ⟨r, hr, hrt, rfl⟩
      obtain ⟨v', hv'⟩ := dictOf_key hin
      exact ⟨⟨i, r.seg, v'⟩, mem_segWrites.mpr ⟨i, mem_uniqTimes.mpr ⟨r, hr, hrt⟩, _, hv', rfl⟩,
        rfl, hrs.symm⟩
    · intro w hw hm
      obtain ⟨r', hr', ht', hs', hv⟩ := key w hw hm
      have : r' = r := hdist r' hr' r hr (ht'.trans hrt.symm) (hs'.trans hrs.symm)
      rw [hv, this]
  · intro hno
    rw [px_applyWrites, hpx]
    show some (pxWrite i x (segWrites (offsetOf rows) rows)) = _
    congr 1
    rw [pxWrite_eq]
    apply foldl_wstep_none
    intro w hw hm
    obtain ⟨r', hr', ht', hs', _⟩ := key w hw hm
    exact hno r' hr' ⟨ht', hs'⟩

/-- non-vacuity: label 5 reused in both frames, label 9 equals node 9's id … which owns label 1,
    node id 0 present (everything shifts by one), label 7 of frame 0 unlisted. -/
example :
    relabelSeg [[5, 7, 0, 5], [5, 9, 1, 0]] ⟨[0, 5, 7, 9], [(0, 5), (0, 7), (5, 9)]⟩
      [⟨0, 5, 0⟩, ⟨5, 5, 1⟩, ⟨7, 9, 1⟩, ⟨9, 1, 1⟩]
    = some ([[1, 0, 0, 1], [6, 8, 10, 0]], ⟨[1, 6, 8, 10], [(1, 6), (1, 8), (6, 10)]⟩) := by decide
#print axioms C13_relabel

/-- Graph and segmentation shift together: with the same `off` as in `C13_relabel`, the graph
    returned has exactly the node names `n + off` and the edges `(u + off, v + off)`; in
    particular node `r.id + off` of the graph is the label written for row `r`, and after the
    shift no node is called 0. -/
theorem C13_shift (orig : Arr) (g : G) (rows : List Row) (out : Arr) (g' : G)
    (h : relabelSeg orig g rows = some (out, g')) :
    let off := if 0 ∈ rows.map (·.id) then 1 else 0
    g'.nodes = g.nodes.map (· + off) ∧
    g'.edges = g.edges.map (fun e => (e.1 + off, e.2 + off)) ∧
    (∀ r ∈ rows, r.id ∈ g.nodes → r.id + off ∈ g'.nodes) ∧
    (∀ r ∈ rows, r.id + off ≠ 0) := by
  intro off
  have hoff : off = offsetOf rows := (offsetOf_eq rows).symm
  unfold relabelSeg at h
  split at h
  · simp only [Option.some.injEq, Prod.mk.injEq] at h
    obtain ⟨_, hg⟩ := h
    subst hg
    refine ⟨by rw [hoff]; rfl, by rw [hoff]; rfl, ?_, ?_⟩
    · intro r _ hr
      rw [hoff]
      exact List.mem_map.mpr ⟨r.id, hr, rfl⟩
    · intro r hr h0
      have hz : r.id = 0 := by omega
      have : off = 1 := by
        show (if 0 ∈ rows.map (·.id) then 1 else 0) = 1
        rw [if_pos (List.mem_map.mpr ⟨r, hr, hz⟩)]
      omega
  · cases h

example : ∃ out g', relabelSeg [[3]] ⟨[0, 4], [(0, 4)]⟩ [⟨0, 3, 0⟩] = some (out, g') ∧
    g'.nodes = [1, 5] ∧ g'.edges = [(1, 5)] ∧ px out 0 0 = some 1 :=
  ⟨_, _, rfl, by decide, by decide, by decide⟩
#print axioms C13_shift

/-- The public caller (as repaired) satisfies the same statement: it always relabels. -/
theorem C13_import (orig : Arr) (g : G) (rows : List Row) :
    importSeg orig g rows = relabelSeg orig g rows := rfl

example : importSeg [[1, 0, 0, 3]] ⟨[3], []⟩ [⟨3, 3, 0⟩] = some ([[0, 0, 0, 3]], ⟨[3], []⟩) := by
  decide
#print axioms C13_import

/-- Mutation guard: relabelling IN PLACE (masks read from the array being rewritten) does not
    satisfy `C13_relabel`.  Labels 1, 2 ↦ ids 2, 1: the in-place loop turns 1 into 2 and then
    every 2 into 1. -/
theorem C13_chained_counterexample :
    ∃ (orig : Arr) (g : G) (rows : List Row),
      rowsOK orig.length rows = true ∧
      (∀ r ∈ rows, ∀ r' ∈ rows, r.time = r'.time → r.seg = r'.seg → r = r') ∧
      ∃ out g', relabelSegChained orig g rows = some (out, g') ∧
        ∃ i p x, px orig i p = some x ∧ ∃ r ∈ rows, r.time = i ∧ r.seg = x ∧
          px out i p ≠ some (r.id + (if 0 ∈ rows.map (·.id) then 1 else 0)) :=
  ⟨[[1, 2]], ⟨[1, 2], []⟩, [⟨2, 1, 0⟩, ⟨1, 2, 0⟩], by decide, by decide,
    [[1, 1]], ⟨[1, 2], []⟩, by decide, 0, 0, 1, by decide, ⟨2, 1, 0⟩, by decide, rfl, rfl,
    by decide⟩

example : relabelSeg [[1, 2]] ⟨[1, 2], []⟩ [⟨2, 1, 0⟩, ⟨1, 2, 0⟩]
    = some ([[2, 1]], ⟨[1, 2], []⟩) := by decide
#print axioms C13_chained_counterexample

/-- The UNREPAIRED caller (defect D11) violates the property: when every seg id equals its node
    id the relabelling is skipped and a label that belongs to no node (1) stays in the array. -/
theorem C13_counterexample_skip_unlisted :
    ∃ (orig : Arr) (g : G) (rows : List Row),
      rowsOK orig.length rows = true ∧
      (∀ r ∈ rows, ∀ r' ∈ rows, r.time = r'.time → r.seg = r'.seg → r = r') ∧
      ∃ out g', importSegOrig orig g rows = some (out, g') ∧
        ∃ i p x, px orig i p = some x ∧ (∀ r ∈ rows, ¬ (r.time = i ∧ r.seg = x)) ∧
          px out i p ≠ some 0 :=
  ⟨[[1, 0, 0, 3]], ⟨[3], []⟩, [⟨3, 3, 0⟩], by decide, by decide,
    [[1, 0, 0, 3]], ⟨[3], []⟩, by decide, 0, 0, 1, by decide, by decide, by decide⟩
#print axioms C13_counterexample_skip_unlisted
