/-
  C01 / C03 (package R3P) — ONE equivalence for all seven primitive inverse laws, and congruence of
  the invariants under it.

  "Applying any edit - a primitive action or a composite user action - and then inverting it
   restores the observable tracks state exactly … Inverting the inverse reproduces the post-edit
   state exactly."  (C01)            "… the graph stays a forward-in-time binary forest …" (C03)

  Vocabulary (FtProofs/R3PLemmas.lean, namespace `Ft.R3P`; `ObsEq`, `WF`, `ObsW`, `InvLaw`, `Chain`
  from `Ft.R2A1`)
  * `MaxOK s`   the id maxima bound every track id in use and (lineage on) every lineage id in use —
                the `t_max`/`l_max` part of `BookOK`, the one thing `ObsEq` cannot see.
  * `E s t`     := `ObsEq s t ∧ (WF s ↔ WF t) ∧ (MaxOK s ↔ MaxOK t)` — **the common equivalence**.
                An equivalence relation on all states, blind to `hist`/`refreshes`/`lastPayload`;
                on `Good` (= `WF ∧ MaxOK`) states it is `ObsEq`.  It implies the relation
                suggested in PROOF_TASKS_R3 (`Forest ∧ BookOK` together: `E.forestBook_iff`).
  * `Good s`    `WF s ∧ MaxOK s`; follows from `Forest ∧ BookOK` + distinct attribute keys.

  Proved here
  * `C01_common_equivalence`  `E` is an equivalence, ignores the control fields, refines `ObsEq`,
                              and is `ObsEq` between `Good` states.
  * `C01_prim_addEdge_obs`    AddEdge of a new edge (`AddEdgePre`): law over `E` (and `ObsW`), explicit
                              undo/redo reading.
  * `C01_prim_delEdge_obs`    DeleteEdge (`DelEdgePre`: end points present, visible attributes
                              registered, active IoU current): the same.  A `None`-valued attribute
                              need not be registered (it is dropped by the inverse, which `ObsEq`
                              does not see) — weaker than the `St.Equiv` version `C01_prim_delEdge`.
  * `C01_prim_updTid_obsW`    UpdateTrackIDs under `WF`, `Forest`, `BookOK`, `ViewPre` (no `TidOK`):
                              law over `E`, closed form of record and post state, post state again
                              `Good`/`Forest`/`BookOK`, explicit reading.
  * `C01_prims_common`        all seven primitives: `InvLaw E s rec s₁ ∧ Good s₁` under the exact
                              preconditions of each.
  * `C01_group_common`        `ActionGroup.inverse` of a lawful run over `E`, and its redo.
  * `C01_edgeInv_common`      the state-level edge invariant `EdgeInv` gives `AddEdgePre`/`DelEdgePre`, is
                              `E`-invariant and kept by AddEdge, DeleteEdge, UpdateNodeAttrs, UpdateTrackIDs.
  * `C01_obligation_common`   `C01Obligation (Chain E) E` — what `C02_session` takes.
  * `C03_valid_congr_obs`     `Valid` is invariant under `ObsEq` between well-formed states whose
                              maxima are sound; `C03_valid_congr_E`: under `E` (so undo/redo inherit it).
  * `C03_invariants_congr_obs` `Forest`, `TidOK`, `LinOK`, `BookOK` (given `MaxOK`), `SegOK`, `MeasOK`
                              (given `SegOK`) likewise.
  * `C03_note_bookOK_needs_max`  `BookOK` is NOT invariant under `ObsEq` on `WF` states (the maxima
                              are not observed): concrete pair — hence the third component of `E`.
  * `C03_note_measOK_needs_segOK` `MeasOK` is not invariant under `ObsEq` for a node without pixels
                              (`MeasOK` stores `Val.none` there, which `ObsEq` identifies with absent).
-/
import FtProofs.R3PLemmas
import FtProofs.R2BLemmas
open Ft Ft.St Ft.R2A1 Ft.R3P List

/-- the common equivalence: an equivalence relation on all states that ignores the history and
    refresh log, refines `ObsEq`, and coincides with `ObsEq` between `Good` states -/
theorem C01_common_equivalence :
    IsEquiv E ∧ (∀ u h, E (stepped u h) u) ∧ (∀ s t, E s t → ObsEq s t) ∧
    (∀ s t, Good s → Good t → (E s t ↔ ObsEq s t)) ∧
    (∀ s t, E s t → WF t → ((Forest s ∧ BookOK s) ↔ (Forest t ∧ BookOK t))) :=
  ⟨E_isEquiv, E_stepped, fun _ _ h => h.1, fun _ _ hs ht => ⟨fun h => h.1, fun h => E.of_good h hs ht⟩,
    fun _ _ h ht => h.forestBook_iff ht⟩
-- another insertion order, other maxima / counter, `None` attributes: `E`-equal, not `Equiv`-equal
example : E exS' exS ∧ ¬ St.Equiv exS' exS ∧ exS'.maxTid ≠ exS.maxTid ∧ Good exS := by
  refine ⟨exS'_E, fun h => ?_, by decide, Good.of_b (by decide) (by decide)⟩
  exact absurd ((h.nodes ⟨1, 0, 1, some 1, [(7, .tok 0)]⟩).mpr (by simp [exS])) (by simp [exS'])
#print axioms C01_common_equivalence

/-- AddEdge of a new edge whose visible attributes are registered: inverse law over the common
    equivalence to every depth (and over `ObsW`); explicitly: `inverse()` restores the state up to
    `ObsEq`, inverting the inverse reproduces the post state up to `ObsEq`. -/
theorem C01_prim_addEdge_obs (s s₁ : St) (e : Edge) (attrs : List (Key × Val)) (rec : PrimRec)
    (hp : AddEdgePre s e attrs) (hm : MaxOK s) (h : s.pAddEdge e attrs = .ok (s₁, rec)) :
    InvLaw E s rec s₁ ∧ InvLaw ObsW s rec s₁ ∧ Good s₁ ∧
    ∃ s₂ r', s₁.invPrim rec = .ok (s₂, r') ∧ ObsEq s₂ s ∧
      ∃ s₃ r'', s₂.invPrim r' = .ok (s₃, r'') ∧ ObsEq s₃ s₁ :=
  ⟨law_addEdge hp hm h, invLaw_addEdge_obsW hp h, good_addEdge hp hm h,
    (invLaw_addEdge_obsW hp h).undo_redo_obs⟩
-- with an array and an active, registered IoU: the new edge (3,5) gets an IoU value
example : ∃ s₁ rec, exCur.pAddEdge (3, 5) [] = .ok (s₁, rec) ∧ InvLaw E exCur rec s₁ ∧
    s₁.edges.length = 4 ∧
    ∃ s₂ r', s₁.invPrim rec = .ok (s₂, r') ∧ ObsEq s₂ exCur ∧
      ∃ s₃ r'', s₂.invPrim r' = .ok (s₃, r'') ∧ ObsEq s₃ s₁ := by
  have hp : AddEdgePre exCur (3, 5) [] := by
    refine AddEdgePre.of_records exCur_wf (by decide) (by decide) (by decide) ?_
    intro _ _ k hk
    have h1 : exCur.iouKey = some 11 := by decide
    rw [h1] at hk; cases hk; decide
  obtain ⟨hl, _, _, hx⟩ := C01_prim_addEdge_obs exCur _ (3, 5) [] _ hp (MaxOK.of_b (by decide)) rfl
  exact ⟨_, _, rfl, hl, by decide, hx⟩
#print axioms C01_prim_addEdge_obs

/-- DeleteEdge under `DelEdgePre`: inverse law over the common equivalence, explicit reading. -/
theorem C01_prim_delEdge_obs (s s₁ : St) (e : Edge) (rec : PrimRec)
    (hp : DelEdgePre s e) (hm : MaxOK s) (h : s.pDelEdge e = .ok (s₁, rec)) :
    InvLaw E s rec s₁ ∧ InvLaw ObsW s rec s₁ ∧ Good s₁ ∧
    ∃ s₂ r', s₁.invPrim rec = .ok (s₂, r') ∧ ObsEq s₂ s ∧
      ∃ s₃ r'', s₂.invPrim r' = .ok (s₃, r'') ∧ ObsEq s₃ s₁ :=
  ⟨law_delEdge hp hm h, invLaw_delEdge_obsW hp h, good_delEdge hp hm h,
    (invLaw_delEdge_obsW hp h).undo_redo_obs⟩
-- edge (1,2) carries a current IoU; after delete + inverse it sits at the end of the insertion
-- order: `ObsEq`, not equal
example : ∃ s₁ rec, exCur.pDelEdge (1, 2) = .ok (s₁, rec) ∧ InvLaw E exCur rec s₁ ∧
    ∃ s₂ r', s₁.invPrim rec = .ok (s₂, r') ∧ ObsEq s₂ exCur ∧ s₂.edges.map (·.e) = [(1, 3), (2, 4), (1, 2)] ∧
      ∃ s₃ r'', s₂.invPrim r' = .ok (s₃, r'') ∧ ObsEq s₃ s₁ := by
  have hp : DelEdgePre exCur (1, 2) := by
    refine DelEdgePre.of_records exCur_wf (by decide) (by decide) (by decide) ?_
    intro k hk _ _
    have h1 : exCur.iouKey = some 11 := by decide
    rw [h1] at hk; cases hk; decide
  obtain ⟨hl, _, _, s₂, r', h1, h2, h3⟩ := C01_prim_delEdge_obs exCur _ (1, 2) _ hp (MaxOK.of_b (by decide)) rfl
  refine ⟨_, _, rfl, hl, s₂, r', h1, h2, ?_, h3⟩
  have : s₂ = _ := (Prod.mk.inj (Except.ok.inj (h1.symm.trans rfl))).1
  rw [this]; decide
#print axioms C01_prim_delEdge_obs

/-- UpdateTrackIDs on a well-formed forest with consistent bookkeeping, under the view precondition
    `R2A2.ViewPre` (own id consistent on the chain below `start`; new id not on the children of the
    division that ends the chain; one lineage on the subtree — no `TidOK`, so it applies to the
    intermediate states of the user actions): closed form of the record, inverse law over the common
    equivalence to every depth, the post state is again `Good`, a forest, `BookOK`; explicit reading. -/
theorem C01_prim_updTid_obsW (s s₁ : St) (start : Node) (oT nT : Nat) (oL nL : Option Nat) (rec : PrimRec)
    (hw : WF s) (hF : s.Forest) (hB : s.BookOK) (hp : R2A2.ViewPre s start oT nT oL nL)
    (h : s.pUpdTid start nT nL = .ok (s₁, rec)) :
    rec = .updTid start oT nT oL nL ∧ InvLaw E s rec s₁ ∧ (Good s₁ ∧ s₁.Forest ∧ s₁.BookOK) ∧
    ∃ s₂ r', s₁.invPrim rec = .ok (s₂, r') ∧ ObsEq s₂ s ∧
      ∃ s₃ r'', s₂.invPrim r' = .ok (s₃, r'') ∧ ObsEq s₃ s₁ := by
  obtain ⟨h1, _, h3, h4, h5⟩ := good_updTid hw hF hB hp h
  have hl := law_updTid hw hF hB hp h
  obtain ⟨s₂, r', a1, a2, s₃, r'', a3, a4⟩ := hl.undo_redo E_isEquiv
  exact ⟨h1, hl, ⟨h3, h4, h5⟩, s₂, r', a1, a2.1, s₃, r'', a3, a4.1⟩
-- relabel the track of node 1 with the fresh id 9 and lineage 7; then invert from a state that lists
-- the nodes in reverse order and has larger maxima (in the `E`-class of the post state, not `Equiv`)
example : ∃ t rec, tk_exState.pUpdTid 1 9 (some 7) = .ok (t, rec) ∧ InvLaw E tk_exState rec t ∧
    ∃ t' s₂ r', E t' t ∧ t'.nodes = t.nodes.reverse ∧ t'.maxTid = 50 ∧
      t'.invPrim rec = .ok (s₂, r') ∧ E s₂ tk_exState := by
  have hw : WF tk_exState := WF.of_b (by decide)
  have hp : R2A2.ViewPre tk_exState 1 1 9 (some 1) (some 7) :=
    R2A2.viewPre_of_tidOK R2A2.ex_hyps.1 R2A2.ex_hyps.2.1 (by decide) (by decide) R2A2.ex_hyps.2.2.2
      (fun _ _ => by decide)
      (R2A2.notDownstream_of (oT := 1) R2A2.ex_hyps.1 R2A2.ex_hyps.2.1 (by decide) (by decide)
        (Or.inl (R2A2.fresh_of_max R2A2.ex_hyps.2.2.1 (by decide))))
  obtain ⟨_, hl, ⟨hg, _, _⟩, _⟩ := C01_prim_updTid_obsW tk_exState _ 1 1 9 (some 1) (some 7) _ hw
    R2A2.ex_hyps.1 R2A2.ex_hyps.2.2.1 hp rfl
  have he : E ({ tk_exState.walk 1 1 9 (some 1) (some 7) with
        nodes := (tk_exState.walk 1 1 9 (some 1) (some 7)).nodes.reverse, maxTid := 50 } : St)
      (tk_exState.walk 1 1 9 (some 1) (some 7)) :=
    E.of_good (obsEq_of_check (WF.of_b (by decide)) hg.wf (by decide) (by decide) rfl rfl)
      (Good.of_b (by decide) (by decide)) hg
  obtain ⟨s₂, r', h1, h2, _⟩ := hl.step he
  exact ⟨_, _, rfl, hl, _, s₂, r', he, rfl, rfl, h1, h2⟩
#print axioms C01_prim_updTid_obsW

/-- **all seven primitives over the one equivalence `E`**: under the exact precondition of each
    (`Good` = `WF ∧ MaxOK`; `SegPre`, `AddPre`, `DelPre` of R2A1; `AddEdgePre`, `DelEdgePre`;
    `WF ∧ Forest ∧ BookOK ∧ ViewPre` for UpdateTrackIDs) the recorded primitive satisfies the
    two-way inverse law over `E` to every depth, and the post state is again `Good` — so the laws
    chain (`Chain E`) inside the user actions and inside the history. -/
theorem C01_prims_common :
    (∀ (s s₁ : St) (n : Node) (attrs : List (Key × Val)) (rec : PrimRec),
      Good s → s.pUpdAttrs n attrs = .ok (s₁, rec) → InvLaw E s rec s₁ ∧ Good s₁) ∧
    (∀ (s s₁ : St) (g : Seg) (n : Node) (px : List Pix) (added : Bool) (rec : PrimRec),
      SegPre s g n px added → MaxOK s → s.pUpdSeg n px added = .ok (s₁, rec) → InvLaw E s rec s₁ ∧ Good s₁) ∧
    (∀ (s s₁ : St) (r : NodeRec) (px : Option (List Pix)) (rec : PrimRec),
      AddPre s r px → MaxOK s → s.pAddNode r px = .ok (s₁, rec) → InvLaw E s rec s₁ ∧ Good s₁) ∧
    (∀ (s s₁ : St) (n : Node) (px : Option (List Pix)) (rec : PrimRec),
      DelPre s n → (px = none ∨ px = s.getPixels n) → MaxOK s → s.pDelNode n px = .ok (s₁, rec) →
      InvLaw E s rec s₁ ∧ Good s₁) ∧
    (∀ (s s₁ : St) (e : Edge) (attrs : List (Key × Val)) (rec : PrimRec),
      AddEdgePre s e attrs → MaxOK s → s.pAddEdge e attrs = .ok (s₁, rec) → InvLaw E s rec s₁ ∧ Good s₁) ∧
    (∀ (s s₁ : St) (e : Edge) (rec : PrimRec),
      DelEdgePre s e → MaxOK s → s.pDelEdge e = .ok (s₁, rec) → InvLaw E s rec s₁ ∧ Good s₁) ∧
    (∀ (s s₁ : St) (start : Node) (oT nT : Nat) (oL nL : Option Nat) (rec : PrimRec),
      WF s → s.Forest → s.BookOK → R2A2.ViewPre s start oT nT oL nL →
      s.pUpdTid start nT nL = .ok (s₁, rec) → InvLaw E s rec s₁ ∧ Good s₁) :=
  ⟨fun _ _ _ _ _ hg h => ⟨law_updAttrs hg h, good_updAttrs hg h⟩,
   fun _ _ _ _ _ _ _ hp hm h => ⟨law_updSeg hp hm h, good_updSeg hp hm h⟩,
   fun _ _ _ _ _ hp hm h => ⟨law_addNode hp hm h, good_addNode hp hm h⟩,
   fun _ _ _ _ _ hp hpx hm h => ⟨law_delNode hp hpx hm h, good_delNode hp hpx hm h⟩,
   fun _ _ _ _ _ hp hm h => ⟨law_addEdge hp hm h, good_addEdge hp hm h⟩,
   fun _ _ _ _ hp hm h => ⟨law_delEdge hp hm h, good_delEdge hp hm h⟩,
   fun _ _ _ _ _ _ _ _ hw hF hB hp h => ⟨law_updTid hw hF hB hp h, (good_updTid hw hF hB hp h).2.2.1⟩⟩
-- UpdateNodeAttrs (a fresh key and a present one)
example : ∃ s₁ rec, exS.pUpdAttrs 1 [(8, .tok 1), (7, .tok 5)] = .ok (s₁, rec) ∧ InvLaw E exS rec s₁ ∧ Good s₁ :=
  ⟨_, _, rfl, C01_prims_common.1 exS _ 1 [(8, .tok 1), (7, .tok 5)] _ (Good.of_b (by decide) (by decide)) rfl⟩
-- UpdateNodeSeg: node 3 grows by the background pixel 7
example : ∃ s₁ rec, exCur.pUpdSeg 3 [7] true = .ok (s₁, rec) ∧ InvLaw E exCur rec s₁ ∧ Good s₁ := by
  have hp : SegPre exCur ⟨4, [1,0,0,0, 2,2,3,0, 5,0,0,0, 4,4,0,0]⟩ 3 [7] true := by
    refine ⟨exCur_wf, exCur_seg, by decide, ?_, ?_⟩
    · intro t ht
      have h1 : exCur.timeOf 3 = some 1 := by decide
      rw [h1] at ht; cases ht; decide
    · intro k hk _
      have h1 : exCur.iouKey = some 11 := by decide
      rw [h1] at hk; cases hk; decide
  exact ⟨_, _, rfl, C01_prims_common.2.1 exCur _ _ 3 [7] true _ hp (MaxOK.of_b (by decide)) rfl⟩
-- AddNode with pixels: node 6 in frame 2 on the background pixels 9, 10
example : ∃ s₁ rec, exCur.pAddNode ⟨6, 2, 5, some 3, [(7, .tok 9)]⟩ (some [9, 10]) = .ok (s₁, rec) ∧
    InvLaw E exCur rec s₁ ∧ Good s₁ := by
  have hp : AddPre exCur ⟨6, 2, 5, some 3, [(7, .tok 9)]⟩ (some [9, 10]) := by
    refine ⟨exCur_wf, by decide, by decide, by decide, by decide, notInBook_of_all (by decide),
      notInBook_of_all (by decide), by decide, by decide, ?_, ?_, ?_⟩
    · intro h; rw [exCur_seg] at h; cases h
    · intro g hg; rw [exCur_seg] at hg; cases hg; decide
    · intro g ps hg hps; rw [exCur_seg] at hg; cases hg; cases hps; decide
  exact ⟨_, _, rfl, C01_prims_common.2.2.1 exCur _ _ _ _ hp (MaxOK.of_b (by decide)) rfl⟩
-- DeleteNode of the isolated node 5 with its pixels looked up
example : ∃ s₁ rec, exCur.pDelNode 5 none = .ok (s₁, rec) ∧ InvLaw E exCur rec s₁ ∧ Good s₁ := by
  have hp : DelPre exCur 5 := by
    refine ⟨exCur_wf, by decide, by decide, book_dec (by decide) (by decide) (by decide),
      book_dec (by decide) (by decide) (by decide), registered_dec (by decide), ?_, ?_⟩
    · intro h; rw [exCur_seg] at h; cases h
    · intro g t hg ht
      rw [exCur_seg] at hg; cases hg
      have h1 : exCur.timeOf 5 = some 2 := by decide
      rw [h1] at ht; cases ht; decide
  exact ⟨_, _, rfl, C01_prims_common.2.2.2.1 exCur _ 5 none _ hp (Or.inl rfl) (MaxOK.of_b (by decide)) rfl⟩
-- (AddEdge, DeleteEdge, UpdateTrackIDs: the examples of the three theorems above)
#print axioms C01_prims_common

/-- the compositional step over the common equivalence: `ActionGroup.inverse` of a lawful recorded
    run, from any state in the `E`-class of its end state, succeeds, lands in the class of its start
    state and returns a lawful run back; inverting that again lands in the class of the end state. -/
theorem C01_group_common (s sₙ : St) (recs : List PrimRec) (h : Chain E s recs sₙ) (sₙ' : St)
    (he : E sₙ' sₙ) :
    ∃ s' recs', sₙ'.invGroup recs = (s', .ok recs') ∧ E s' s ∧ recs'.length = recs.length ∧
      Chain E sₙ recs' s ∧
      ∃ s'' recs'', s'.invGroup recs' = (s'', .ok recs'') ∧ E s'' sₙ ∧ Chain E s recs'' sₙ :=
  chain_undo_redo h he
-- a three-primitive group mixing the three families: delete edge (1,2), relabel node 2's track with
-- the fresh id 9, re-add the edge — built with the `Run` helpers the user-level packages will use
example : ∃ a : UOut, Run tk_exState a ∧ ∃ recs, a.2 = .ok recs ∧ recs.length = 3 ∧
    E (a.1.rollback recs) tk_exState := by
  have hg0 : Good tk_exState := Good.of_b (by decide) (by decide)
  -- 1. delete (1,2)
  have hp1 : DelEdgePre tk_exState (1, 2) :=
    DelEdgePre.of_records hg0.wf (by decide) (by decide) (by decide) (fun k hk => by cases hk)
  obtain ⟨r1, hs1⟩ := Run.thenPrim (f := fun st => st.pDelEdge (1, 2)) (Run.start tk_exState) rfl
    (law_delEdge hp1 hg0.max rfl)
  have hg1 := good_delEdge hp1 hg0.max (rfl : tk_exState.pDelEdge (1, 2) = .ok (_, _))
  -- 2. relabel below node 2 with the fresh id 9 (TidOK is broken here; ViewPre holds)
  have hp2 := R2A2.viewPre_after_cut (nT := 9) (nL := none) R2A2.ex_hyps.1 R2A2.ex_hyps.2.1
    (u := 1) (v := 2) (t := 1) (by decide) (by decide) R2A2.ex_hyps.2.2.2 (fun _ h => by cases h)
    (R2A2.fresh_of_max R2A2.ex_hyps.2.2.1 (by decide))
  have hF1 : (tk_exState.tk_delE (1, 2)).Forest := R2A2.ex_hyps.1.tk_delE _
  have hB1 : (tk_exState.tk_delE (1, 2)).BookOK := PC.bookOK_of_check (by decide)
  have hw1 : WF (tk_exState.tk_delE (1, 2)) := WF.of_b (by decide)
  have e1 : (St.thenPrim (tk_exState, .ok []) (fun st => st.pDelEdge (1, 2))).1 = tk_exState.tk_delE (1, 2) := rfl
  rw [e1] at hs1
  obtain ⟨_, _, hg2, hF2, hB2⟩ := good_updTid hw1 hF1 hB1 hp2 rfl
  obtain ⟨r2, hs2⟩ := Run.thenPrim (f := fun st => st.pUpdTid 2 9 none) r1 (by rw [e1]; rfl)
    (by rw [e1]; exact law_updTid hw1 hF1 hB1 hp2 rfl)
  -- 3. add (1,2) back
  have hp3 : AddEdgePre ((tk_exState.tk_delE (1, 2)).walk 2 1 9 (tk_exState.linOf 2) none) (1, 2) [] :=
    AddEdgePre.of_records hg2.wf (by decide) (by decide) (by decide) (fun h => by cases h)
  obtain ⟨r3, hs3⟩ := Run.thenPrim (f := fun st => st.pAddEdge (1, 2) []) r2 (by rw [hs2]; rfl)
    (by rw [hs2]; exact law_addEdge hp3 hg2.max rfl)
  obtain ⟨recs, hr, hc⟩ := r3
  refine ⟨_, ⟨recs, hr, hc⟩, recs, hr, ?_, Run.rollback ⟨recs, hr, hc⟩ hr⟩
  have : recs = _ := (Except.ok.inj (hr.symm.trans rfl))
  rw [this]; rfl
#print axioms C01_group_common

/-- the state-level edge invariant `EdgeInv` (visible edge attributes registered, active IoU key
    registered, active IoU current — on observed edges) yields the preconditions of the two edge laws,
    is invariant under the common equivalence, and is kept by the four primitives that the edge
    user actions (delete-edge, add-edge, swap, update-attrs) are made of -/
theorem C01_edgeInv_common :
    (∀ (s : St) (e : Edge), WF s → e ∉ s.edgeList → EdgeInv s → AddEdgePre s e []) ∧
    (∀ (s : St) (e : Edge), WF s → e.1 ∈ s.ids → e.2 ∈ s.ids → EdgeInv s → DelEdgePre s e) ∧
    (∀ (s t : St), E s t → WF t → EdgeInv t → EdgeInv s) ∧
    (∀ (s s₁ : St) (e : Edge) (attrs : List (Key × Val)) (r : PrimRec),
      AddEdgePre s e attrs → EdgeInv s → s.pAddEdge e attrs = .ok (s₁, r) → EdgeInv s₁) ∧
    (∀ (s s₁ : St) (e : Edge) (r : PrimRec),
      DelEdgePre s e → EdgeInv s → s.pDelEdge e = .ok (s₁, r) → EdgeInv s₁) ∧
    (∀ (s s₁ : St) (n : Node) (attrs : List (Key × Val)) (r : PrimRec),
      WF s → EdgeInv s → s.pUpdAttrs n attrs = .ok (s₁, r) → EdgeInv s₁) ∧
    (∀ (s s₁ : St) (start : Node) (oT nT : Nat) (oL nL : Option Nat) (r : PrimRec),
      WF s → s.Forest → s.BookOK → R2A2.ViewPre s start oT nT oL nL → EdgeInv s →
      s.pUpdTid start nT nL = .ok (s₁, r) → EdgeInv s₁) :=
  ⟨fun _ _ hw hf hi => AddEdgePre.of_edgeInv hw hf hi,
   fun _ _ hw h1 h2 hi => DelEdgePre.of_edgeInv hw h1 h2 hi,
   fun _ _ h ht hi => edgeInv_congrE h ht hi,
   fun _ _ _ _ _ hp hi h => edgeInv_addEdge hp hi h,
   fun _ _ _ _ hp hi h => edgeInv_delEdge hp hi h,
   fun _ _ _ _ _ hw hi h => edgeInv_updAttrs hw hi h,
   fun _ _ _ _ _ _ _ _ hw hF hB hp hi h => edgeInv_updTid hw hF hB hp hi h⟩
-- `exCur` (array, active registered IoU, every IoU current) satisfies it; deleting the skip edge (2,4)
-- keeps it and satisfies the law
example : EdgeInv exCur ∧ ∃ s₁ rec, exCur.pDelEdge (2, 4) = .ok (s₁, rec) ∧ EdgeInv s₁ ∧ InvLaw E exCur rec s₁ := by
  have hmeas : MeasOK exCur := by
    intro g hg; rw [exCur_seg] at hg; cases hg
    refine ⟨by decide, fun _ k hk => ?_⟩
    have h1 : exCur.iouKey = some 11 := by decide
    rw [h1] at hk; cases hk; decide
  have hi : EdgeInv exCur := by
    refine EdgeInv.of_records (by decide) ?_ hmeas
    intro _ _ k hk
    have h1 : exCur.iouKey = some 11 := by decide
    rw [h1] at hk; cases hk; decide
  have hp := C01_edgeInv_common.2.1 exCur (2, 4) exCur_wf (by decide) (by decide) hi
  exact ⟨hi, _, _, rfl, C01_edgeInv_common.2.2.2.2.1 exCur _ (2, 4) _ hp hi rfl,
    law_delEdge hp (MaxOK.of_b (by decide)) rfl⟩
#print axioms C01_edgeInv_common

/-- the C01 obligation of the history theorem `C02_session`, for the common equivalence with
    `Rec := Chain E` -/
theorem C01_obligation_common : C01Obligation (fun a s t => Chain E s a t) E := obligation_E
example : E (stepped exS {}) exS ∧ Chain E exS [] exS := ⟨C01_obligation_common.ctl _ _, chain_nil _⟩
#print axioms C01_obligation_common

/-- `Valid` (forest ∧ exact track ids ∧ exact lineage ids ∧ exact lookups ∧ lineage on) is invariant
    under `ObsEq` between well-formed states, provided the maxima of the target are sound -/
theorem C03_valid_congr_obs (s t : St) (h : ObsEq s t) (hs : WF s) (ht : WF t) (hm : MaxOK t)
    (hv : Valid s) : Valid t :=
  valid_congr_obs h hs ht hm hv
example : Valid exS ∧ Valid exS' ∧ exS'.nodes ≠ exS.nodes := by
  have hv : Valid exS := R2B.valid_of_check (by decide)
  exact ⟨hv, C03_valid_congr_obs exS exS' exS'_E.1.symm (WF.of_b (by decide)) (WF.of_b (by decide))
    (MaxOK.of_b (by decide)) hv, by decide⟩
#print axioms C03_valid_congr_obs

/-- … hence under the common equivalence: whatever is `E`-equal to a well-formed `Valid` state is
    well-formed, `Good` and `Valid` — this is how undo / redo inherit every invariant -/
theorem C03_valid_congr_E (s t : St) (h : E s t) (ht : WF t) (hv : Valid t) :
    Valid s ∧ Good s ∧ Good t :=
  have hgt : Good t := ⟨ht, MaxOK.of_book ht.ids hv.book⟩
  ⟨valid_congrE h ht hv, Good.of_E h hgt, hgt⟩
example : Valid exS' ∧ Good exS' :=
  have h := C03_valid_congr_E exS' exS exS'_E (WF.of_b (by decide)) (R2B.valid_of_check (by decide))
  ⟨h.1, h.2.1⟩
#print axioms C03_valid_congr_E

/-- every invariant of SessionSpec is invariant under `ObsEq` between well-formed states
    (`BookOK`: given sound maxima; `MeasOK`: given `SegOK`; `SegOK` needs no well-formedness) -/
theorem C03_invariants_congr_obs (s t : St) (h : ObsEq s t) (hs : WF s) (ht : WF t) :
    (Forest s → Forest t) ∧ (TidOK s → TidOK t) ∧ (LinOK s → LinOK t) ∧
    (MaxOK t → BookOK s → BookOK t) ∧ (SegOK s → SegOK t) ∧ (SegOK s → MeasOK s → MeasOK t) :=
  ⟨forest_congr_obs h hs ht, tidOK_congr_obs h hs ht, linOK_congr_obs h hs ht,
    fun hm => bookOK_congr_obs h hs ht hm, segOK_congr_obs h, measOK_congr_obs h hs ht⟩
-- `exCurRev`: `exCur` with node and edge tables reversed
example : SegOK exCur ∧ MeasOK exCur ∧ SegOK exCurRev ∧ MeasOK exCurRev ∧ exCurRev.nodes ≠ exCur.nodes := by
  have hseg : SegOK exCur := by
    intro g hg; rw [exCur_seg] at hg; cases hg; decide
  have hmeas : MeasOK exCur := by
    intro g hg; rw [exCur_seg] at hg; cases hg
    refine ⟨by decide, fun _ k hk => ?_⟩
    have h1 : exCur.iouKey = some 11 := by decide
    rw [h1] at hk; cases hk; decide
  have hw : WF exCurRev := WF.of_b (by decide)
  have he : ObsEq exCur exCurRev := obsEq_of_check exCur_wf hw (by decide) (by decide) rfl rfl
  obtain ⟨_, _, _, _, h5, h6⟩ := C03_invariants_congr_obs exCur exCurRev he exCur_wf hw
  exact ⟨hseg, hmeas, h5 hseg, h6 hseg hmeas, by decide⟩
#print axioms C03_invariants_congr_obs

/-- Note: `BookOK` is **not** invariant under `ObsEq` on well-formed states — `ObsEq` does not
    compare the id maxima, `BookOK.t_max` reads them. Hence the `MaxOK` component of `E`. -/
theorem C03_note_bookOK_needs_max :
    ObsEq exSlow exS ∧ WF exSlow ∧ WF exS ∧ BookOK exS ∧ ¬ BookOK exSlow ∧ ¬ MaxOK exSlow :=
  ⟨⟨fun _ => Iff.rfl, fun _ => Iff.rfl, rfl, fun _ _ => Iff.rfl, fun _ _ => Iff.rfl, rfl⟩,
    WF.of_b (by decide), WF.of_b (by decide), PC.bookOK_of_check (by decide),
    fun h => absurd (h.t_max 3 3 (by decide)) (by decide),
    fun h => absurd (h ⟨3, 1, 3, some 1, [(7, .tok 2)]⟩ (by simp [exSlow, exS])).1 (by decide)⟩
#print axioms C03_note_bookOK_needs_max

/-- Note: `MeasOK` alone is **not** invariant under `ObsEq`: for a node without pixels it demands
    a stored `None`, which `ObsEq` (like every reader) identifies with "absent". Under `SegOK`
    every node has pixels and the invariant transfers (`C03_invariants_congr_obs`). -/
theorem C03_note_measOK_needs_segOK :
    ObsEq exNoPix exNoPix' ∧ WF exNoPix ∧ WF exNoPix' ∧ MeasOK exNoPix ∧ ¬ MeasOK exNoPix' ∧ ¬ SegOK exNoPix := by
  refine ⟨obsEq_of_check (WF.of_b (by decide)) (WF.of_b (by decide)) (by decide) (by decide) rfl rfl,
    WF.of_b (by decide), WF.of_b (by decide), ?_, ?_, ?_⟩
  · intro g hg
    have : g = ⟨2, [0, 0]⟩ := by cases hg; rfl
    subst this
    exact ⟨by decide, fun h => by cases h⟩
  · intro h
    have := (h ⟨2, [0, 0]⟩ rfl).1 10 (by decide) ⟨1, 0, 1, some 1, []⟩ (by simp [exNoPix'])
    revert this; decide
  · intro h
    exact absurd ((h ⟨2, [0, 0]⟩ rfl).1 ⟨1, 0, 1, some 1, [(10, .none)]⟩ (by simp [exNoPix])) (by decide)
#print axioms C03_note_measOK_needs_segOK
