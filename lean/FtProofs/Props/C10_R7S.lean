/-
  C10 (feature registry) on the CONSTRUCTION of a Tracks / SolutionTracks object — package R7S.

  C10: "… exactly the static plus currently enabled features are listed in the feature registry …".
  The session theorems start from the state of an object right after construction; here the
  constructor itself is the subject (model `FtModel/Construct.lean`: `construct`, `enable`,
  `fromTracks`).  Everything is about `out := construct i`, for EVERY input `i` (any key names,
  including colliding ones; any node list; any segmentation flag) unless a hypothesis says so.

  * `C10_construct_registry` (no FeatureDict given) / `C10_construct_registry_prebuilt`
    (FeatureDict given): registry = static keys ∪ active annotator keys (`Ft.R7S.RegInv`), the list
    of registered and of active keys, and which special keys are registered.
  * `C10_counterexample_plain_tracklet_key_unregistered`: "every special key that is not None is
    registered" is FALSE for a plain `Tracks`: `tracklet_key`/`lineage_key` are set, the features
    are not registered.  Consequence `C10_counterexample_from_tracks_ids_inactive_unfixed`: the
    UNREPAIRED `SolutionTracks.from_tracks` (`fromTracksUnfixed`) of such tracks whose graph carries
    ids yields a solution whose id features are neither registered nor active (the TrackAnnotator
    ignores every later edit).  `C10_counterexample_from_tracks_keyerror_unfixed`: it raises KeyError
    on tracks whose FeatureDict has no lineage key.  Both were replayed on the real code and then
    repaired (fix commit 895cc32); `fromTracks` is the repaired function
    (`C04_from_tracks_ids_active` in `Props/C04_R7S.lean`).
  * `C10_construct_position_registered` + `C10_construct_position_D10_witness`.
  * `C10_construct_enable_sets_special_keys` + `C10_construct_enable_D17_witness`.
  * `C10_construct_enable_registry`: `enable_features` on a constructed object keeps the registry
    invariant (the construction-model counterpart of `C10_registry_enable`).
-/
import FtProofs.R7SLemmas
open Ft Ft.Construct Ft.R7S List

namespace Ft.R7S

/-- example graph: 1 → {2, 3}; node 1 (the FIRST node) carries no ids, nodes 2 and 3 do -/
def exNodes : List CNode :=
  [{ id := 1, time := 0, hasMask := true, attrs := [("time", some 0), ("pos", some 0)] },
   { id := 2, time := 1, hasMask := true,
     attrs := [("time", some 1), ("pos", some 0), ("track_id", some 7), ("lineage_id", some 9)] },
   { id := 3, time := 1, attrs := [("time", some 1), ("pos", some 0), ("track_id", some 7), ("lineage_id", some 9)] }]

/-- the same graph with ids on every node (tracklets {1}, {2}, {3}; one lineage) -/
def exNodesIds : List CNode :=
  [{ id := 1, time := 0, hasMask := true,
     attrs := [("time", some 0), ("pos", some 0), ("track_id", some 4), ("lineage_id", some 9)] },
   { id := 2, time := 1, hasMask := true,
     attrs := [("time", some 1), ("pos", some 0), ("track_id", some 7), ("lineage_id", some 9)] },
   { id := 3, time := 1, attrs := [("time", some 1), ("pos", some 0), ("track_id", some 8), ("lineage_id", some 9)] }]

def exEdges : List Edge := [(1, 2), (1, 3)]

/-- SolutionTracks(graph, ndim=3) -/
def exSol : CInput := { solution := true, hasSeg := false, ndim := 3, nodes := exNodes, edges := exEdges }
/-- SolutionTracks(graph, segmentation=seg) -/
def exSolSeg : CInput := { solution := true, hasSeg := true, ndim := 3, nodes := exNodes, edges := exEdges }
/-- Tracks(graph, ndim=3) on the graph with ids -/
def exPlain : CInput := { solution := false, hasSeg := false, ndim := 3, nodes := exNodesIds, edges := exEdges }
/-- SolutionTracks(graph, ndim=3, pos_attr=["y", "x"]) -/
def exAxes : CInput :=
  { solution := true, hasSeg := false, ndim := 3, posAttr := .multi ["y", "x"],
    nodes := [{ id := 1, time := 0, attrs := [("time", some 0), ("y", some 0), ("x", some 0)] }], edges := [] }
/-- an "old project file": FeatureDict with track ids but without the lineage feature -/
def exOldDict : Prebuilt :=
  { feats := [("time", .time), ("pos", .position 2), ("track_id", .tracklet)],
    timeKey := some "time", posKey := .single "pos", trackletKey := some "track_id", lineageKey := none }
def exOld : CInput :=
  { solution := true, hasSeg := false, ndim := 3, prebuilt := some exOldDict,
    nodes := [{ id := 1, time := 0, attrs := [("time", some 0), ("pos", some 0), ("track_id", some 1)] },
              { id := 2, time := 1, attrs := [("time", some 1), ("pos", some 0), ("track_id", some 1)] }],
    edges := [(1, 2)] }

/-- what `FeatureDict.__init__` validates: the time key and every position key are features -/
def PrebuiltWF (p : Prebuilt) : Prop :=
  (∃ t, p.timeKey = some t ∧ t ∈ keysOf p.feats) ∧ ∀ k ∈ posKeyList p.posKey, k ∈ keysOf p.feats

end Ft.R7S

/-! ## registry = static ∪ active, special keys -/

/-- **no FeatureDict given** (every combination of plain / solution, with / without array, single /
    per-axis / default position attribute, any key names, any graph): after construction
    (1) the registry lists exactly the static keys (time, and the position key(s) when there is no
        array) plus the active annotator keys;
    (2) it lists exactly the static keys plus the core keys (`pos`, `area` with an array; the
        tracklet and lineage key for a solution), and exactly the core keys are active —
        whether they were found on the first node (activated) or not (computed);
    (3) the time key and every position key is registered;
    (4) for a solution the tracklet and the lineage key are set, registered and active. -/
theorem C10_construct_registry (i : CInput) (hp : i.prebuilt = none) :
    RegInv (staticKeysFresh i) (construct i) ∧
    (∀ k, k ∈ regKeys (construct i) ↔ k ∈ staticKeysFresh i ∨ k ∈ coreList i) ∧
    (∀ k, k ∈ activeKeys (construct i) ↔ k ∈ coreList i) ∧
    ((construct i).timeKey = some (i.timeAttr.getD "time") ∧ i.timeAttr.getD "time" ∈ regKeys (construct i)) ∧
    ((construct i).posKey = (if i.hasSeg then PosKey.single "pos" else effPosAttr i) ∧
      ∀ k ∈ posKeyList (construct i).posKey, k ∈ regKeys (construct i)) ∧
    (i.solution = true →
      (construct i).trackletKey = some (i.trackletAttr.getD "track_id") ∧
      (construct i).lineageKey = some (i.lineageAttr.getD "lineage_id") ∧
      i.trackletAttr.getD "track_id" ∈ regKeys (construct i) ∧
      i.lineageAttr.getD "lineage_id" ∈ regKeys (construct i) ∧
      i.trackletAttr.getD "track_id" ∈ activeKeys (construct i) ∧
      i.lineageAttr.getD "lineage_id" ∈ activeKeys (construct i)) := by
  have e : construct i = (coreList i).foldl setupKey (fresh0 i) := construct_fresh_eq i hp
  rw [e]
  have hG := setupFold_grow (coreList i) (fresh0 i) (coreList_sub i)
  obtain ⟨f1, f2, f3, f4, f5, f6, f7, f8, _, _, _, _⟩ := fresh0_fields i
  generalize (coreList i).foldl setupKey (fresh0 i) = out at hG ⊢
  have hreg : ∀ k, k ∈ regKeys out ↔ k ∈ staticKeysFresh i ∨ k ∈ coreList i := by
    intro k; rw [hG.reg, f1, mem_regKeys_featureSet]
  have hact : ∀ k, k ∈ activeKeys out ↔ k ∈ coreList i := by
    intro k; rw [hG.act, f2]; simp
  have h0 : RegInv (staticKeysFresh i) (fresh0 i) := by
    intro k; rw [f1, f2, mem_regKeys_featureSet]; simp
  refine ⟨hG.regInv h0, hreg, hact, ⟨hG.timeKey.trans f3, ?_⟩, ⟨hG.posKey.trans f4, ?_⟩, ?_⟩
  · rw [hreg]; left; unfold staticKeysFresh; exact mem_cons_self
  · intro k hk
    rw [hG.posKey, f4] at hk
    rw [hreg]
    cases hs : i.hasSeg
    · rw [hs] at hk
      left; unfold staticKeysFresh; rw [hs]; exact mem_cons_of_mem _ hk
    · rw [hs] at hk
      simp only [if_true, posKeyList, mem_singleton] at hk
      right; unfold coreList; rw [hs, hk]; simp
  · intro hsol
    have hc1 : i.trackletAttr.getD "track_id" ∈ coreList i := by unfold coreList; rw [hsol]; simp
    have hc2 : i.lineageAttr.getD "lineage_id" ∈ coreList i := by unfold coreList; rw [hsol]; simp
    rw [hsol] at f7
    simp only [if_true] at f7
    refine ⟨?_, ?_, (hreg _).2 (Or.inr hc1), (hreg _).2 (Or.inr hc2), (hact _).2 hc1, (hact _).2 hc2⟩
    · rcases hG.tracklet with e | ⟨a, ha, _, e⟩
      · exact e.trans f5
      · rw [f7] at ha; injection ha with ha; rw [e, ← ha, mkTrack_tKey]; rfl
    · rcases hG.lineage with e | ⟨a, ha, _, e⟩
      · exact e.trans f6
      · rw [f7] at ha; injection ha with ha; rw [e, ← ha, mkTrack_lKey]; rfl

-- first node without ids: both id features are computed, everything registered
example : exSol.prebuilt = none ∧ regKeys (construct exSol) = ["time", "pos", "track_id", "lineage_id"] ∧
    activeKeys (construct exSol) = ["track_id", "lineage_id"] ∧
    (construct exSol).computed = [(.track, "track_id"), (.track, "lineage_id")] := by decide
-- with an array: pos and area are core keys too (pos found on the first node: activated only)
example : regKeys (construct exSolSeg) = ["time", "pos", "area", "track_id", "lineage_id"] ∧
    activeKeys (construct exSolSeg) = ["pos", "area", "track_id", "lineage_id"] ∧
    (construct exSolSeg).computed = [(.rp, "area"), (.track, "track_id"), (.track, "lineage_id")] := by decide
#print axioms C10_construct_registry

/-- **FeatureDict given**: the constructor registers nothing and changes no special key; it
    activates exactly the annotator keys that are features of the dict, computes nothing, leaves
    the graph alone.  Hence registry = (dict keys no annotator manages) ∪ active keys, and a
    special key is registered iff the dict lists it: the time key and the position key(s) under
    the validation `FeatureDict.__init__` performs (`PrebuiltWF`), the tracklet / lineage key only
    if the caller put them there (nothing checks that — see the `from_tracks` witnesses below). -/
theorem C10_construct_registry_prebuilt (i : CInput) (p : Prebuilt) (hp : i.prebuilt = some p) :
    (construct i).reg = p.feats ∧
    (construct i).timeKey = p.timeKey ∧ (construct i).posKey = p.posKey ∧
    (construct i).trackletKey = p.trackletKey ∧ (construct i).lineageKey = p.lineageKey ∧
    tableKeys (construct i) = tableKeys (mkAnnotators (ofPrebuilt i p)) ∧
    (∀ k, k ∈ activeKeys (construct i) ↔ k ∈ keysOf p.feats ∧ k ∈ tableKeys (construct i)) ∧
    RegInv ((keysOf p.feats).filter (fun k => decide (k ∉ tableKeys (mkAnnotators (ofPrebuilt i p)))))
      (construct i) ∧
    (construct i).computed = [] ∧ (construct i).nodes = i.nodes ∧
    (PrebuiltWF p → (∃ t, (construct i).timeKey = some t ∧ t ∈ regKeys (construct i)) ∧
        ∀ k ∈ posKeyList (construct i).posKey, k ∈ regKeys (construct i)) := by
  have e : construct i = activateFromDict (mkAnnotators (ofPrebuilt i p)) := by
    unfold construct; rw [hp]
  rw [e]
  have hA := activateFromDict_actOnly (mkAnnotators (ofPrebuilt i p))
  have h0 : activeKeys (mkAnnotators (ofPrebuilt i p)) = [] := activeKeys_mkAnnotators _
  have hr0 : regKeys (mkAnnotators (ofPrebuilt i p)) = keysOf p.feats := rfl
  generalize activateFromDict (mkAnnotators (ofPrebuilt i p)) = out at hA ⊢
  have hreg : out.reg = p.feats := hA.same.reg
  have hact : ∀ k, k ∈ activeKeys out ↔ k ∈ keysOf p.feats ∧ k ∈ tableKeys out := by
    intro k; rw [hA.act, h0, hr0, hA.tabKeys]; simp
  refine ⟨hreg, hA.same.timeKey, hA.same.posKey, hA.same.trackletKey, hA.same.lineageKey, hA.tabKeys, hact,
    ?_, hA.computed, hA.nodes, ?_⟩
  · intro k
    unfold regKeys
    rw [hreg, hact, hA.tabKeys, mem_filter]
    by_cases hk : k ∈ tableKeys (mkAnnotators (ofPrebuilt i p))
    · simp [hk]
    · simp [hk]
  · rintro ⟨⟨t, ht, ht'⟩, hpos⟩
    unfold regKeys
    rw [hreg, hA.same.timeKey, hA.same.posKey]
    exact ⟨⟨t, ht, ht'⟩, hpos⟩

-- the "old project file": nothing computed, bookkeeping from the graph, lineage neither special nor active
example : exOld.prebuilt = some exOldDict ∧ PrebuiltWF exOldDict ∧
    regKeys (construct exOld) = ["time", "pos", "track_id"] ∧ activeKeys (construct exOld) = ["track_id"] ∧
    (construct exOld).lineageKey = none ∧
    ((construct exOld).track.map (fun a => (a.tSrc, a.lSrc, a.t2n))) = some (.fromGraph, .notBuilt, [(1, [1, 2])]) := by
  refine ⟨rfl, ⟨⟨"time", rfl, by decide⟩, by decide⟩, by decide, by decide, by decide, by decide⟩
#print axioms C10_construct_registry_prebuilt

/-- "every special key that is not None is a registered key" is FALSE for a plain `Tracks` built
    without FeatureDict: `_get_feature_set` stores `tracklet_key="track_id"`,
    `lineage_key="lineage_id"` in the FeatureDict, and without a TrackAnnotator nothing registers
    those features (replayed: `Tracks(g, ndim=3).features` = {time, pos}, `.tracklet_key == "track_id"`). -/
theorem C10_counterexample_plain_tracklet_key_unregistered :
    exPlain.prebuilt = none ∧ exPlain.solution = false ∧
    (construct exPlain).trackletKey = some "track_id" ∧ (construct exPlain).lineageKey = some "lineage_id" ∧
    regKeys (construct exPlain) = ["time", "pos"] ∧
    "track_id" ∉ regKeys (construct exPlain) ∧ "lineage_id" ∉ regKeys (construct exPlain) := by decide
#print axioms C10_counterexample_plain_tracklet_key_unregistered

/-- consequence, found with this model and since REPAIRED (fix commit 895cc32; the repaired
    function is `fromTracks`, see `C04_from_tracks_ids_active`): the unrepaired
    `SolutionTracks.from_tracks(tracks)` (`fromTracksUnfixed`) of such plain tracks whose graph
    carries a track id and a lineage id on EVERY node: `force_recompute` stays False, the
    constructor gets the FeatureDict of the plain tracks — which does not list the id features —
    so nothing is activated: the solution's id features are neither registered nor active although
    `tracklet_key`/`lineage_key` name them; the bookkeeping is the one read from the graph at
    construction and `TrackAnnotator.update` returns early on every later edit (replayed on the
    unrepaired code: `UserDeleteEdge` after `from_tracks` relabelled nothing). -/
theorem C10_counterexample_from_tracks_ids_inactive_unfixed :
    ∃ s, fromTracksUnfixed (construct exPlain) = some s ∧ s.solution = true ∧
      s.trackletKey = some "track_id" ∧ s.lineageKey = some "lineage_id" ∧
      regKeys s = ["time", "pos"] ∧ activeKeys s = [] ∧ tableKeys s = ["track_id", "lineage_id"] ∧
      s.computed = [] ∧
      s.track.map (fun a => (a.tSrc, a.t2n, a.maxT)) = some (.fromGraph, [(4, [1]), (7, [2]), (8, [3])], 8) :=
  ⟨_, rfl, by decide, by decide, by decide, by decide, by decide, by decide, by decide, by decide⟩
#print axioms C10_counterexample_from_tracks_ids_inactive_unfixed

/-- the repaired function on the same input: registered, active, nothing recomputed, same lookups -/
theorem C10_from_tracks_ids_active_example :
    ∃ s, fromTracks (construct exPlain) = some s ∧
      regKeys s = ["time", "pos", "track_id", "lineage_id"] ∧ activeKeys s = ["track_id", "lineage_id"] ∧
      s.computed = [] ∧
      s.track.map (fun a => (a.tSrc, a.t2n, a.maxT)) = some (.fromGraph, [(4, [1]), (7, [2]), (8, [3])], 8) :=
  ⟨_, rfl, by decide, by decide, by decide, by decide⟩
#print axioms C10_from_tracks_ids_active_example

/-- with one id missing the call recomputes and registers (repaired and unrepaired alike; the
    branch the test suite covers) -/
theorem C10_from_tracks_recompute_example :
    (∃ s, fromTracks (construct { exPlain with nodes := exNodes }) = some s ∧
      regKeys s = ["time", "pos", "track_id", "lineage_id"] ∧ activeKeys s = ["track_id", "lineage_id"] ∧
      s.computed = [(.track, "track_id"), (.track, "lineage_id")]) ∧
    fromTracksUnfixed (construct { exPlain with nodes := exNodes }) =
      fromTracks (construct { exPlain with nodes := exNodes }) :=
  ⟨⟨_, rfl, by decide, by decide, by decide⟩, by decide⟩
#print axioms C10_from_tracks_recompute_example

/-- the unrepaired `from_tracks` of tracks whose FeatureDict has a tracklet key but no lineage key
    (the "old project file" of D17) and at least one node: `get_node_attr(node, None)` is None, so
    `force_recompute` is set and `enable_features(["track_id", None])` raised
    `KeyError: 'Features not available: [None]'` (replayed on the unrepaired code).  The repaired
    function enables the tracklet key alone (and, `force_recompute` being set, recomputes the track
    ids); the lineage key stays None. -/
theorem C10_counterexample_from_tracks_keyerror_unfixed :
    (construct { exOld with solution := false }).trackletKey = some "track_id" ∧
    (construct { exOld with solution := false }).lineageKey = none ∧
    fromTracksUnfixed (construct { exOld with solution := false }) = none ∧
    ∃ s, fromTracks (construct { exOld with solution := false }) = some s ∧
      s.lineageKey = none ∧ regKeys s = ["time", "pos", "track_id"] ∧ activeKeys s = ["track_id"] ∧
      s.computed = [(.track, "track_id")] :=
  ⟨by decide, by decide, by decide, _, rfl, by decide, by decide, by decide, by decide⟩
#print axioms C10_counterexample_from_tracks_keyerror_unfixed

/-! ## D10 guard: every position key is registered -/

/-- every position key of a constructed object is a registered feature — for every constructor
    call without FeatureDict, and for every call with a FeatureDict that passed its own validation -/
theorem C10_construct_position_registered (i : CInput)
    (h : i.prebuilt = none ∨ ∃ p, i.prebuilt = some p ∧ PrebuiltWF p) :
    ∀ k ∈ posKeyList (construct i).posKey, k ∈ regKeys (construct i) := by
  rcases h with h | ⟨p, hp, hw⟩
  · exact (C10_construct_registry i h).2.2.2.2.1.2
  · exact ((C10_construct_registry_prebuilt i p hp).2.2.2.2.2.2.2.2.2.2 hw).2

example : (construct exAxes).posKey = .multi ["y", "x"] ∧
    regKeys (construct exAxes) = ["time", "y", "x", "track_id", "lineage_id"] := by decide
#print axioms C10_construct_position_registered

/-- the pinned code (per-axis features written into the plain dict AFTER the FeatureDict had
    copied it) violated it: the position key is the list, none of its members is registered -/
theorem C10_construct_position_D10_witness :
    exAxes.prebuilt = none ∧ (constructD10 exAxes).posKey = .multi ["y", "x"] ∧
    regKeys (constructD10 exAxes) = ["time", "track_id", "lineage_id"] ∧
    ¬ (∀ k ∈ posKeyList (constructD10 exAxes).posKey, k ∈ regKeys (constructD10 exAxes)) := by decide
#print axioms C10_construct_position_D10_witness

/-! ## D17 guard: `enable_features` sets the special keys -/

/-- enabling the TrackAnnotator's tracklet (lineage) key — with or without recomputation, alone or
    among other keys, whatever the FeatureDict said before — sets the FeatureDict's tracklet
    (lineage) key to it, registers it and activates it; a special key that is not enabled keeps
    its value -/
theorem C10_construct_enable_sets_special_keys (o o' : COut) (keys : List Name) (rc : Bool) (a : TrackAnn)
    (h : enable o keys rc = some o') (ha : o.track = some a) :
    (a.tKey ∈ keys → o'.trackletKey = some a.tKey ∧ a.tKey ∈ regKeys o' ∧ a.tKey ∈ activeKeys o') ∧
    (a.lKey ∈ keys → o'.lineageKey = some a.lKey ∧ a.lKey ∈ regKeys o' ∧ a.lKey ∈ activeKeys o') ∧
    (a.tKey ∉ keys → o'.trackletKey = o.trackletKey) ∧ (a.lKey ∉ keys → o'.lineageKey = o.lineageKey) := by
  obtain ⟨h1, h2⟩ := enable_special h ha
  have hG := enable_grow h
  refine ⟨fun hk => ⟨?_, (hG.reg _).2 (Or.inr hk), (hG.act _).2 (Or.inr hk)⟩,
          fun hk => ⟨?_, (hG.reg _).2 (Or.inr hk), (hG.act _).2 (Or.inr hk)⟩, fun hk => ?_, fun hk => ?_⟩
  · rw [h1, if_pos (by simpa using hk)]
  · rw [h2, if_pos (by simpa using hk)]
  · rw [h1, if_neg (by simpa using hk)]
  · rw [h2, if_neg (by simpa using hk)]

-- the D17 situation: registry without lineage, then enable_features(["lineage_id"])
example : ∃ o', enable (construct exOld) ["lineage_id"] true = some o' ∧
    o'.lineageKey = some "lineage_id" ∧ regKeys o' = ["time", "pos", "track_id", "lineage_id"] ∧
    o'.computed = [(.track, "lineage_id")] ∧ o'.track.map (fun a => (a.lSrc, a.l2n)) = some (.computed, [(1, [1, 2])]) :=
  ⟨_, rfl, by decide, by decide, by decide, by decide⟩
#print axioms C10_construct_enable_sets_special_keys

/-- the unrepaired `enable_features` registers, activates and computes the lineage ids but leaves
    `FeatureDict.lineage_key` at None (so `get_lineage_id` answers None and no user action maintains
    the ids): D17 -/
theorem C10_construct_enable_D17_witness :
    ∃ o', enableD17 (construct exOld) ["lineage_id"] true = some o' ∧
      o'.lineageKey = none ∧ "lineage_id" ∈ regKeys o' ∧ "lineage_id" ∈ activeKeys o' ∧
      o'.computed = [(.track, "lineage_id")] :=
  ⟨_, rfl, by decide, by decide, by decide, by decide⟩
#print axioms C10_construct_enable_D17_witness

/-- `enable_features` keeps "registry = static ∪ active" on the constructed object, and an
    unknown key is a KeyError that changes nothing (the call returns no new object) -/
theorem C10_construct_enable_registry (o : COut) (keys : List Name) (rc : Bool) (S : List Name)
    (hr : RegInv S o) :
    (∀ o', enable o keys rc = some o' → RegInv S o' ∧ tableKeys o' = tableKeys o) ∧
    (enable o keys rc = none ↔ ∃ k ∈ keys, k ∉ tableKeys o) :=
  ⟨fun _ h => ⟨(enable_grow h).regInv hr, (enable_grow h).tableKeys⟩, enable_eq_none_iff o keys rc⟩

example : RegInv ["time"] (construct exSolSeg) ∧
    (∃ o', enable (construct exSolSeg) ["iou", "circularity"] true = some o' ∧
      regKeys o' = ["time", "pos", "area", "track_id", "lineage_id", "iou", "circularity"] ∧
      o'.computed = [(.rp, "area"), (.track, "track_id"), (.track, "lineage_id"), (.rp, "circularity"), (.edge, "iou")]) ∧
    enable (construct exSolSeg) ["iou", "bogus"] true = none :=
  ⟨(C10_construct_registry exSolSeg rfl).1, ⟨_, rfl, by decide, by decide⟩, by decide⟩
#print axioms C10_construct_enable_registry
