/-
  C03 / C04 / C05 / C06 through `UserDeleteNode` (package R2C).

  `UserDeleteNode(n)` (model `Ft.St.uDeleteNode`, mirror of the repaired Python): relabel the
  sibling when the parent divides, remove the in-edge and the out-edges, ask
  `get_track_neighbors` for `n`'s own track id and time, bridge `pred → succ` when both exist,
  give every remaining orphan except the first orphan of a root a fresh lineage id, remove `n`.

  Results (all without `sorry`; helper lemmas in `FtProofs/R2CLemmas.lean`, namespace `Ft.R2C`):
    * `C03_delNbrOK`           closes the gap of `C03_step_deleteNode_partial`
                               (`Forest ∧ TidOK ∧ BookOK → DelNbrOK`)
    * `C03_step_deleteNode`    `Forest` preserved, from `Forest ∧ TidOK ∧ BookOK` only
    * `C04_valid_uDeleteNode`  the joint invariant `Valid` is preserved (all cases: leaf, root
                               with one child, mid-track node, dividing node with / without
                               parent, first node after a division with / without child)
    * `C04_step_deleteNode`, `C05_step_deleteNode`, `C06_book_uDeleteNode` its components
    * `C03_deleteNode_effect`  nodes / times / edge set of the result
    * `C04_frame_deleteNode`, `C05_frame_deleteNode` frame clauses; `C04_deleteNode_tids`,
      `C05_deleteNode_lins` the exact sets of nodes whose ids may change
-/
import FtProofs.R2CLemmas
open Ft Ft.St

namespace C03R2CEx
/-- 1 → 2 → {3, 4};  3 → 8 → 9;  5 → 6;  7 isolated;  10 → {11, 12} (a dividing root) -/
def X0 : St :=
  { nodes := [⟨1, 0, 1, some 1, []⟩, ⟨2, 1, 1, some 1, []⟩, ⟨3, 2, 2, some 1, []⟩, ⟨4, 2, 3, some 1, []⟩,
              ⟨5, 0, 4, some 2, []⟩, ⟨6, 1, 4, some 2, []⟩, ⟨7, 2, 5, some 3, []⟩,
              ⟨8, 3, 2, some 1, []⟩, ⟨9, 4, 2, some 1, []⟩,
              ⟨10, 0, 6, some 4, []⟩, ⟨11, 1, 7, some 4, []⟩, ⟨12, 1, 8, some 4, []⟩],
    edges := [⟨(1, 2), []⟩, ⟨(2, 3), []⟩, ⟨(2, 4), []⟩, ⟨(5, 6), []⟩, ⟨(3, 8), []⟩, ⟨(8, 9), []⟩,
              ⟨(10, 11), []⟩, ⟨(10, 12), []⟩],
    t2n := [(1, [1, 2]), (2, [3, 8, 9]), (3, [4]), (4, [5, 6]), (5, [7]), (6, [10]), (7, [11]), (8, [12])],
    l2n := [(1, [1, 2, 3, 4, 8, 9]), (2, [5, 6]), (3, [7]), (4, [10, 11, 12])],
    maxTid := 8, maxLin := 4, counter := 13 }

theorem X0_valid : X0.Valid :=
  ⟨by decide, tidB_sound (by decide), tk_linOKB_sound (by decide), bookB_sound (by decide), rfl⟩
end C03R2CEx
open C03R2CEx

/-! ### C03: the forest -/

/-- the condition left open by `C03_step_deleteNode_partial` follows from the invariants -/
theorem C03_delNbrOK (s : St) (n : Node) (hf : Forest s) (ht : TidOK s) (hb : BookOK s) :
    DelNbrOK s n :=
  Ft.R2C.delNbrOK_of_book hf ht hb n

example : Forest X0 ∧ TidOK X0 ∧ BookOK X0 ∧ DelNbrOK X0 8 :=
  ⟨X0_valid.forest, X0_valid.tid, X0_valid.book, by decide⟩
#print axioms C03_delNbrOK

/-- `UserDeleteNode` keeps the forest of a state with consistent lookup and track ids
    (full statement announced in `Props/C03.lean`) -/
theorem C03_step_deleteNode (s : St) (n : Node) (pixels : Option (List Pix)) (recs : List PrimRec)
    (hf : Forest s) (ht : TidOK s) (hb : BookOK s)
    (h : (s.uDeleteNode n pixels).2 = .ok recs) : Forest (s.uDeleteNode n pixels).1 :=
  Ft.R2C.uDeleteNode_forest hf ht hb h

-- mid-track node 8 (bridge 3 → 9), dividing node 2, dividing root 10
example : Forest X0 ∧ TidOK X0 ∧ BookOK X0 ∧ (∃ r, (X0.uDeleteNode 8 none).2 = .ok r) ∧
    (∃ r, (X0.uDeleteNode 2 none).2 = .ok r) ∧ (∃ r, (X0.uDeleteNode 10 none).2 = .ok r) ∧
    (X0.uDeleteNode 8 none).1.edgeList =
      [(1, 2), (2, 3), (2, 4), (5, 6), (10, 11), (10, 12), (3, 9)] :=
  ⟨X0_valid.forest, X0_valid.tid, X0_valid.book, ⟨_, rfl⟩, ⟨_, rfl⟩, ⟨_, rfl⟩, by decide⟩
#print axioms C03_step_deleteNode

/-- nodes, times and edges after an accepted `UserDeleteNode(n)`: `n` disappears with its edges;
    one edge `p → c` is added exactly when `p → n → c` and neither `p` nor `n` divides -/
theorem C03_deleteNode_effect {s : St} (hV : s.Valid) {n : Node} {pixels : Option (List Pix)}
    {recs : List PrimRec} (h : (s.uDeleteNode n pixels).2 = .ok recs) :
    let s' := (s.uDeleteNode n pixels).1
    n ∈ s.ids ∧ (∀ x, x ∈ s'.ids ↔ x ∈ s.ids ∧ x ≠ n) ∧ (∀ x, x ≠ n → s'.timeOf x = s.timeOf x) ∧
    (∀ e, e ∈ s'.edgeList ↔ (e ∈ s.edgeList ∧ e.1 ≠ n ∧ e.2 ≠ n) ∨
        ((e.1, n) ∈ s.edgeList ∧ (n, e.2) ∈ s.edgeList ∧ s.outdeg e.1 = 1 ∧ s.outdeg n = 1)) := by
  obtain ⟨hn, hP⟩ := Ft.R2C.uDeleteNode_post hV h
  obtain ⟨b, hb, hes⟩ := hP.edges
  refine ⟨hn, hP.ids, hP.time, ?_⟩
  intro e
  rw [hes, List.mem_append, Ft.R2C.mem_midE]
  constructor
  · rintro (h1 | h1)
    · exact Or.inl h1
    · exact Or.inr (hb.src h1)
  · rintro (h1 | ⟨h1, h2, h3, h4⟩)
    · exact Or.inl h1
    · right
      rcases hb with ⟨_, hno⟩ | ⟨p, c, hbb, hp, hc, _, _⟩
      · exact (hno e.1 e.2 h1 h2 ⟨h3, h4⟩).elim
      · have e1 : e.1 = p := hV.forest.par_unique h1 hp
        have e2 : e.2 = c := tk_child_unique h4 h2 hc
        rw [hbb, List.mem_singleton]; exact Prod.ext e1 e2

example : (∃ r, (X0.uDeleteNode 8 none).2 = .ok r) ∧ (3, 8) ∈ X0.edgeList ∧ (8, 9) ∈ X0.edgeList ∧
    X0.outdeg 3 = 1 ∧ X0.outdeg 8 = 1 := ⟨⟨_, rfl⟩, by decide, by decide, by decide, by decide⟩
#print axioms C03_deleteNode_effect

/-! ### the joint invariant -/

/-- **accepted `UserDeleteNode` preserves the joint invariant `Valid`** -/
theorem C04_valid_uDeleteNode {s : St} (hV : s.Valid) {n : Node} {pixels : Option (List Pix)}
    {recs : List PrimRec} (h : (s.uDeleteNode n pixels).2 = .ok recs) :
    (s.uDeleteNode n pixels).1.Valid :=
  (Ft.R2C.uDeleteNode_post hV h).2.valid

-- every case: isolated leaf 7, leaf 9, leaf after a division 4, root with one child 5 and 1,
-- mid-track 8, dividing node with parent 2, dividing root 10, first node after a division
-- with child 3
example : X0.Valid ∧ (∃ r, (X0.uDeleteNode 7 none).2 = .ok r) ∧ (∃ r, (X0.uDeleteNode 9 none).2 = .ok r) ∧
    (∃ r, (X0.uDeleteNode 4 none).2 = .ok r) ∧ (∃ r, (X0.uDeleteNode 5 none).2 = .ok r) ∧
    (∃ r, (X0.uDeleteNode 1 none).2 = .ok r) ∧ (∃ r, (X0.uDeleteNode 8 none).2 = .ok r) ∧
    (∃ r, (X0.uDeleteNode 2 none).2 = .ok r) ∧ (∃ r, (X0.uDeleteNode 10 none).2 = .ok r) ∧
    (∃ r, (X0.uDeleteNode 3 none).2 = .ok r) :=
  ⟨X0_valid, ⟨_, rfl⟩, ⟨_, rfl⟩, ⟨_, rfl⟩, ⟨_, rfl⟩, ⟨_, rfl⟩, ⟨_, rfl⟩, ⟨_, rfl⟩, ⟨_, rfl⟩, ⟨_, rfl⟩⟩
-- the sibling 4 joins track 1 when 3 is deleted and 8 starts a new lineage; deleting the
-- dividing root 10 leaves the first orphan 11 its lineage and gives 12 a fresh one
example : (X0.uDeleteNode 3 none).1.tidOf 4 = some 1 ∧ (X0.uDeleteNode 3 none).1.linOf 8 = some 5 ∧
    (X0.uDeleteNode 3 none).1.linOf 9 = some 5 ∧ (X0.uDeleteNode 10 none).1.linOf 11 = some 4 ∧
    (X0.uDeleteNode 10 none).1.linOf 12 = some 5 ∧ (X0.uDeleteNode 2 none).1.linOf 3 = some 5 ∧
    (X0.uDeleteNode 2 none).1.linOf 4 = some 6 := by decide
#print axioms C04_valid_uDeleteNode

/-- C04 component: `TidOK` (with the forest and the bound that makes `nextTid` fresh) -/
theorem C04_step_deleteNode {s : St} (hV : s.Valid) {n : Node} {pixels : Option (List Pix)}
    {recs : List PrimRec} (h : (s.uDeleteNode n pixels).2 = .ok recs) :
    let s' := (s.uDeleteNode n pixels).1
    s'.TidOK ∧ s'.Forest ∧ (∀ x t, s'.tidOf x = some t → t ≤ s'.maxTid) :=
  have hv := C04_valid_uDeleteNode hV h
  ⟨hv.tid, hv.forest, hv.book.t_max⟩

example : X0.Valid ∧ (∃ r, (X0.uDeleteNode 3 none).2 = .ok r) ∧
    (X0.uDeleteNode 3 none).1.tidOf 4 = (X0.uDeleteNode 3 none).1.tidOf 2 :=
  ⟨X0_valid, ⟨_, rfl⟩, by decide⟩
#print axioms C04_step_deleteNode

/-- C05 component: `LinOK` (with the forest, the lineage feature and the bound that makes
    `nextLin` fresh) -/
theorem C05_step_deleteNode {s : St} (hV : s.Valid) {n : Node} {pixels : Option (List Pix)}
    {recs : List PrimRec} (h : (s.uDeleteNode n pixels).2 = .ok recs) :
    let s' := (s.uDeleteNode n pixels).1
    s'.LinOK ∧ s'.Forest ∧ s'.linOn = true ∧ (∀ x l, s'.linOf x = some l → l ≤ s'.maxLin) :=
  have hv := C04_valid_uDeleteNode hV h
  ⟨hv.lin, hv.forest, hv.linOn, hv.book.l_max hv.linOn⟩

example : X0.Valid ∧ (∃ r, (X0.uDeleteNode 2 none).2 = .ok r) ∧
    (X0.uDeleteNode 2 none).1.linOf 3 ≠ (X0.uDeleteNode 2 none).1.linOf 4 ∧
    (X0.uDeleteNode 2 none).1.linOf 3 = (X0.uDeleteNode 2 none).1.linOf 9 :=
  ⟨X0_valid, ⟨_, rfl⟩, by decide, by decide⟩
#print axioms C05_step_deleteNode

/-- C06 component: the lookups stay exact -/
theorem C06_book_uDeleteNode {s : St} (hV : s.Valid) {n : Node} {pixels : Option (List Pix)}
    {recs : List PrimRec} (h : (s.uDeleteNode n pixels).2 = .ok recs) :
    (s.uDeleteNode n pixels).1.BookOK :=
  (C04_valid_uDeleteNode hV h).book

example : X0.Valid ∧ (∃ r, (X0.uDeleteNode 3 none).2 = .ok r) ∧
    (X0.uDeleteNode 3 none).1.t2n = [(1, [1, 2, 4]), (2, [8, 9]), (4, [5, 6]), (5, [7]), (6, [10]),
      (7, [11]), (8, [12])] :=
  ⟨X0_valid, ⟨_, rfl⟩, by decide⟩
#print axioms C06_book_uDeleteNode

/-! ### frame clauses -/

/-- the only track ids that change: the chain below the sibling of `n` (when the parent of `n`
    divides) takes the parent's id -/
theorem C04_deleteNode_tids {s : St} (hV : s.Valid) {n : Node} {pixels : Option (List Pix)}
    {recs : List PrimRec} (h : (s.uDeleteNode n pixels).2 = .ok recs) :
    let s' := (s.uDeleteNode n pixels).1
    (∀ p sib x, (p, n) ∈ s.edgeList → (p, sib) ∈ s.edgeList → sib ≠ n → s.tk_SegDown sib x →
        s'.tidOf x = s.tidOf p) ∧
    (∀ x, x ≠ n → (¬ ∃ p sib, (p, n) ∈ s.edgeList ∧ (p, sib) ∈ s.edgeList ∧ sib ≠ n ∧
        s.tk_SegDown sib x) → s'.tidOf x = s.tidOf x) := by
  obtain ⟨_, hP⟩ := Ft.R2C.uDeleteNode_post hV h
  exact ⟨fun p sib x h1 h2 h3 h4 => hP.tidIn p x h1 ⟨p, sib, h1, h2, h3, h4⟩,
    fun x hx hn => hP.tidOut x hx hn⟩

example : X0.Valid ∧ (∃ r, (X0.uDeleteNode 3 none).2 = .ok r) ∧ (2, 3) ∈ X0.edgeList ∧
    (2, 4) ∈ X0.edgeList ∧ X0.tk_SegDown 4 4 :=
  ⟨X0_valid, ⟨_, rfl⟩, by decide, by decide, .refl 4⟩
#print axioms C04_deleteNode_tids

/-- C04 frame clause: a node whose connected component does not contain `n` keeps its track id -/
theorem C04_frame_deleteNode {s : St} (hV : s.Valid) {n : Node} {pixels : Option (List Pix)}
    {recs : List PrimRec} (h : (s.uDeleteNode n pixels).2 = .ok recs) (x : Node)
    (hx : ¬ s.Conn x n) : (s.uDeleteNode n pixels).1.tidOf x = s.tidOf x := by
  obtain ⟨hn, hP⟩ := Ft.R2C.uDeleteNode_post hV h
  have hxn : x ≠ n := fun e => hx (e ▸ Conn.refl n hn)
  exact hP.tidOut x hxn (fun hs => hx (Ft.R2C.sibSeg_conn hV.forest hs))

example : X0.Valid ∧ (∃ r, (X0.uDeleteNode 3 none).2 = .ok r) ∧ ¬ X0.Conn 6 3 := by
  refine ⟨X0_valid, ⟨_, rfl⟩, ?_⟩
  intro hc
  have := LinOK.of_conn X0_valid.lin hc
  revert this; decide
#print axioms C04_frame_deleteNode

/-- the only lineage ids that change: the subtrees of the children of `n`, except that of the
    first child when `n` is a root -/
theorem C05_deleteNode_lins {s : St} (hV : s.Valid) {n : Node} {pixels : Option (List Pix)}
    {recs : List PrimRec} (h : (s.uDeleteNode n pixels).2 = .ok recs) (x : Node) (hxn : x ≠ n)
    (hx : ∀ c ∈ (if !(s.preds n).isEmpty then s.succs n else (s.succs n).tail), ¬ s.Anc c x) :
    (s.uDeleteNode n pixels).1.linOf x = s.linOf x :=
  (Ft.R2C.uDeleteNode_post hV h).2.linOut x hxn hx

-- deleting the dividing root 10: only the subtree of its second child 12 is relabelled
example : X0.Valid ∧ (∃ r, (X0.uDeleteNode 10 none).2 = .ok r) ∧
    (if !(X0.preds 10).isEmpty then X0.succs 10 else (X0.succs 10).tail) = [12] ∧
    (X0.uDeleteNode 10 none).1.linOf 11 = X0.linOf 11 ∧
    (X0.uDeleteNode 10 none).1.linOf 12 ≠ X0.linOf 12 :=
  ⟨X0_valid, ⟨_, rfl⟩, by decide, by decide, by decide⟩
#print axioms C05_deleteNode_lins

/-- … in particular the first orphan of a root keeps the lineage -/
theorem C05_deleteNode_root_keeps {s : St} (hV : s.Valid) {n c : Node} {pixels : Option (List Pix)}
    {recs : List PrimRec} (h : (s.uDeleteNode n pixels).2 = .ok recs)
    (hroot : ∀ p, (p, n) ∉ s.edgeList) (hc : (s.succs n).head? = some c) (x : Node)
    (hx : s.Anc c x) : (s.uDeleteNode n pixels).1.linOf x = s.linOf x := by
  have hF := hV.forest
  have hnc : (n, c) ∈ s.edgeList := tk_mem_succs.1 (List.mem_of_head? hc)
  have hxn : x ≠ n := by
    intro e; subst e
    have := hx.tm_le hF; have := hF.tm_lt hnc; omega
  apply C05_deleteNode_lins hV h x hxn
  have hp : s.preds n = [] := by
    match hq : s.preds n with
    | [] => rfl
    | p :: _ => exact (hroot p (tk_mem_preds.1 (by rw [hq]; exact List.mem_cons_self))).elim
  rw [hp]
  simp only [List.isEmpty_nil, Bool.not_true, Bool.false_eq_true, if_false]
  intro c' hc' hanc
  -- c' is another child of n: x would have two ancestors among the children of n
  match hs : s.succs n, hc, hc' with
  | c0 :: t, hc, hc' =>
    simp only [List.head?_cons, Option.some.injEq] at hc
    subst hc
    simp only [List.tail_cons] at hc'
    have hnd := hF.succs_nodup n
    rw [hs] at hnd
    have hne : c' ≠ c0 := fun e => (List.nodup_cons.1 hnd).1 (e ▸ hc')
    have hnc' : (n, c') ∈ s.edgeList := tk_mem_succs.1 (by rw [hs]; exact List.mem_cons_of_mem _ hc')
    -- both c0 and c' are ancestors of x at the same depth below n
    have key : ∀ {a b y : Node}, s.Anc a y → s.Anc b y → s.tk_tm a ≤ s.tk_tm b → s.Anc a b := by
      intro a b y ha hb
      induction hb with
      | refl => intro _; exact ha
      | step q d _ hqd ih =>
        intro hle
        rcases ha.tail with e | ⟨q', hq', hq'd⟩
        · subst e
          have := hF.tm_lt hqd
          have := (show s.Anc b q by assumption).tm_le hF
          omega
        · have := hF.par_unique hqd hq'd; subst this
          exact ih hq' hle
    have hsub : ∀ {a b : Node}, (n, a) ∈ s.edgeList → (n, b) ∈ s.edgeList → s.Anc a b → a = b := by
      intro a b ha hb hab
      rcases hab.tail with e | ⟨q, hq, hqb⟩
      · exact e
      · have := hF.par_unique hqb hb; subst this
        have := hq.tm_le hF; have := hF.tm_lt ha; omega
    rcases Nat.le_total (s.tk_tm c0) (s.tk_tm c') with hle | hle
    · exact hne (hsub hnc hnc' (key hx hanc hle)).symm
    · exact hne (hsub hnc' hnc (key hanc hx hle))

example : X0.Valid ∧ (∃ r, (X0.uDeleteNode 10 none).2 = .ok r) ∧ (∀ p, (p, 10) ∉ X0.edgeList) ∧
    (X0.succs 10).head? = some 11 ∧ X0.Anc 11 11 :=
  ⟨X0_valid, ⟨_, rfl⟩, (by
    intro p hp
    have h := tk_mem_preds.2 hp
    have e : X0.preds 10 = [] := by decide
    rw [e] at h; cases h), by decide, .refl 11⟩
#print axioms C05_deleteNode_root_keeps

/-- C05 frame clause: a node whose connected component does not contain `n` keeps its lineage -/
theorem C05_frame_deleteNode {s : St} (hV : s.Valid) {n : Node} {pixels : Option (List Pix)}
    {recs : List PrimRec} (h : (s.uDeleteNode n pixels).2 = .ok recs) (x : Node)
    (hx : ¬ s.Conn x n) : (s.uDeleteNode n pixels).1.linOf x = s.linOf x := by
  obtain ⟨hn, hP⟩ := Ft.R2C.uDeleteNode_post hV h
  have hF := hV.forest
  have hxn : x ≠ n := fun e => hx (e ▸ Conn.refl n hn)
  apply hP.linOut x hxn
  intro c hc hanc
  have hnc : (n, c) ∈ s.edgeList := by
    apply tk_mem_succs.1
    unfold Ft.R2C.relTargets at hc
    split at hc
    · exact hc
    · exact List.mem_of_mem_tail hc
  have h1 : s.Conn n c := Conn.down n n c (Conn.refl n hn) hnc
  have h2 : s.Conn c x := hanc.conn (hF.dst_mem _ hnc)
  exact hx ((h1.trans h2).symm hF)

example : X0.Valid ∧ (∃ r, (X0.uDeleteNode 2 none).2 = .ok r) ∧ ¬ X0.Conn 6 2 ∧
    (X0.uDeleteNode 2 none).1.linOf 6 = X0.linOf 6 := by
  refine ⟨X0_valid, ⟨_, rfl⟩, ?_, by decide⟩
  intro hc
  have := LinOK.of_conn X0_valid.lin hc
  revert this; decide
#print axioms C05_frame_deleteNode
