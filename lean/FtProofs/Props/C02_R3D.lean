/-
  C01 / C02 / C03 (package R3D, whole-history part) — the assembly over `St.step`.

  "Every edit is exactly invertible" (C01), "undo / redo follow a never-forgetting linear timeline"
  (C02), "edits keep a solution a forward-in-time binary forest" with exact track / lineage ids and
  lookups (C03–C06) — for EVERY admissible session, not for one step.

  Vocabulary (`FtProofs/R3DBase.lean`, `FtProofs/R3DHistLemmas.lean`, namespace `Ft.R3D`)
  * `Inv s`        the bundle invariant: `Valid` (forest, exact track ids, exact lineage ids, exact
                   lookups, lineage feature on) ∧ `Good` (well-formed, sound id maxima) ∧ `EdgeInv`
                   ∧ `NodeInv` ∧ `SegOK` ∧ only available regionprops keys active ∧ frame size > 0.
  * `OpPre s op`   the documented argument preconditions of one operation at state `s`
                   (add-node: `AddArgsPre`, no caller-supplied lineage, `StepPre`; paint: the stroke
                   preconditions `PaintArgs`; update-attrs: non-`None` values on registered keys, no
                   position erased without array; enable / disable are excluded).
  * `PaintLaw`     C01 + C11 for a paint at `St.step` level — proved separately (R3D paint part);
                   here an explicit hypothesis `hP`.
  * `RefusalHyps`  the refusal paths that are taken after sub-actions were applied without a rollback
                   (impossible on `Inv` states, but not proved so): `delNode` (delete-node of an
                   *existing* node refused), `swapNested` (swap whose argument validations passed and
                   a nested delete-edge / add-edge is refused), `addNodeLate` (add-node whose division
                   checks were accepted and then the DeleteEdge of the split edge or a linking AddEdge
                   raises).  Explicit hypothesis `hR`, used for these three operations only.  All other
                   refusal paths are proved (`editStep'`, `addNode_refused`, `pre_err`).
  * `C01_user_edge_ops` is free of both hypotheses (add-edge, delete-edge, update-attrs).
  * `SessOK s ops` along the run every operation is undo, redo, a query, or a top-level edit with
                   `OpPre` at the state where it is applied.
  * `E`            the common equivalence of R3P (`ObsEq`, well-formed together, maxima sound together).
-/
import FtProofs.R3DHistLemmas
open Ft Ft.St Ft.R2A1 Ft.R3P Ft.R3D List

namespace C02R3DEx
open C01R3CEx
theorem XA_segOK : SegOK XA := by
  intro g hg
  rw [exCur_seg] at hg; cases hg
  decide
/-- the array state of R2A1 / R3C (`exCur`: 1@0 → {2@1, 3@1}, 2 → 4@3, 5@2 isolated; 4 frames of 4
    pixels; regionprops key 10 and IoU key 11 active and current) satisfies the bundle invariant -/
theorem XA_inv : Inv XA :=
  ⟨XA_valid, XA_good, XA_edgeInv, XA_nodeInv, XA_segOK, by decide,
    fun g hg => by rw [exCur_seg] at hg; cases hg; decide⟩
/-- … and so does the graph-only state `XG` (same graph, position key 7, no array) -/
theorem XG_inv : Inv XG :=
  ⟨XG_valid, XG_good, XG_edgeInv, XG_nodeInv, fun g hg => (by cases hg), by decide,
    fun g hg => (by cases hg)⟩
theorem XA_hist : XA.hist = {} := rfl
theorem XG_hist : XG.hist = {} := rfl
/-- a session on `XG`: delete-edge, update-attrs, undo, undo, redo, a refused add-edge (merge), a
    query, delete-node, undo, redo, undo -/
def sessG : List Op :=
  [.delEdge (1, 2), .updAttrs 5 [(7, .tok 9)], .undo, .undo, .redo, .addEdge (3, 4) false,
   .qNeighbors 2 2, .delNode 2, .undo, .redo, .undo]
end C02R3DEx
open C02R3DEx C01R3CEx

/-- the bundle invariant is invariant under the common equivalence (this is how undo / redo and the
    refused edits inherit it), and blind to the history / refresh log -/
theorem C03_inv_congr_E {s t : St} (h : E s t) (ht : Inv t) : Inv s := Inv.of_E h ht
example : Inv (XA.trackNeighbors 2 2).1 := C03_inv_congr_E (E_trackNeighbors XA 2 2) XA_inv
#print axioms C03_inv_congr_E

/-- **C01 over `St.step`, all seven edit operations.** From an `Inv` state, under the argument
    preconditions `OpPre`: an accepted edit appends exactly one history entry `recs`, which is a
    lawful chain over the common equivalence from the old to the new state (the record relation of
    `C02_session`), the new state satisfies `Inv` again, and — explicitly — `ActionGroup.inverse()`
    of the entry, from any state in the class of the new state, restores the old state up to `ObsEq`
    and inverting that inverse reproduces the new state up to `ObsEq`; a refused edit (C11) leaves a
    state in the `E`-class of the old one (observationally equal, `Inv` again).
    Hypotheses: `hP` (`PaintLaw`, used for a paint only), `hR` (`RefusalHyps`, used for delete-node,
    swap and add-node only) — see `C01_user_all_of`, `C01_user_edge_ops`. -/
theorem C01_user_step (s : St) (op : Op) (hP : isPaint op = true → PaintLaw)
    (hR : needsR op = true → RefusalHyps)
    (he : op.isTopEdit = true) (hI : Inv s) (hpre : OpPre s op) :
    ((s.step op).2 = .ok → ∃ recs, (s.step op).1.hist = s.hist.add recs ∧
        Chain E s recs (s.step op).1 ∧ Inv (s.step op).1 ∧
        ∀ t, E t (s.step op).1 →
          ∃ s₂ recs', t.invGroup recs = (s₂, .ok recs') ∧ ObsEq s₂ s ∧ recs'.length = recs.length ∧
            ∃ s₃ recs'', s₂.invGroup recs' = (s₃, .ok recs'') ∧ ObsEq s₃ (s.step op).1) ∧
    (∀ e, (s.step op).2 = .err e →
        E (s.step op).1 s ∧ ObsEq (s.step op).1 s ∧ Inv (s.step op).1) := by
  obtain ⟨hok, herr⟩ := editStep' hP hR he hI hpre
  refine ⟨fun h => ?_, fun e h => ⟨herr e h, (herr e h).1, Inv.of_E (herr e h) hI⟩⟩
  obtain ⟨recs, a, b, c⟩ := hok h
  exact ⟨recs, a, b, c, R3C.chain_reading b⟩
-- delete-edge of a division edge on the graph-only state: neither hypothesis is used
example : ∃ recs, (XG.step (.delEdge (1, 2))).1.hist = XG.hist.add recs ∧
    Chain E XG recs (XG.step (.delEdge (1, 2))).1 ∧ Inv (XG.step (.delEdge (1, 2))).1 := by
  obtain ⟨recs, a, b, c, _⟩ := (C01_user_step XG (.delEdge (1, 2)) (fun h => nomatch h)
    (fun h => nomatch h) rfl XG_inv trivial).1 rfl
  exact ⟨recs, a, b, c⟩
#print axioms C01_user_step

/-- … for all seven edit operations, under both hypotheses -/
theorem C01_user_all_of (hP : PaintLaw) (hR : RefusalHyps) (s : St) (op : Op)
    (he : op.isTopEdit = true) (hI : Inv s) (hpre : OpPre s op) :
    ((s.step op).2 = .ok → ∃ recs, (s.step op).1.hist = s.hist.add recs ∧
        Chain E s recs (s.step op).1 ∧ Inv (s.step op).1 ∧
        ∀ t, E t (s.step op).1 →
          ∃ s₂ recs', t.invGroup recs = (s₂, .ok recs') ∧ ObsEq s₂ s ∧ recs'.length = recs.length ∧
            ∃ s₃ recs'', s₂.invGroup recs' = (s₃, .ok recs'') ∧ ObsEq s₃ (s.step op).1) ∧
    (∀ e, (s.step op).2 = .err e →
        E (s.step op).1 s ∧ ObsEq (s.step op).1 s ∧ Inv (s.step op).1) :=
  C01_user_step s op (fun _ => hP) (fun _ => hR) he hI hpre
-- with array: an accepted unforced add-edge (2 records) and an accepted delete-node (mid-track node
-- 2 with its pixels); a refused add-edge (merge) leaves an observationally equal state
example (hP : PaintLaw) (hR : RefusalHyps) :
    (∃ recs, (XA.step (.addEdge (3, 5) false)).1.hist = XA.hist.add recs ∧ recs.length = 2 ∧
      Chain E XA recs (XA.step (.addEdge (3, 5) false)).1 ∧ Inv (XA.step (.addEdge (3, 5) false)).1) ∧
    (∃ recs, Chain E XA recs (XA.step (.delNode 2)).1 ∧ Inv (XA.step (.delNode 2)).1) ∧
    (XA.step (.addEdge (3, 4) false)).2 = .err .forceable ∧
      ObsEq (XA.step (.addEdge (3, 4) false)).1 XA := by
  refine ⟨?_, ?_, rfl, ?_⟩
  · obtain ⟨recs, a, b, c, _⟩ := (C01_user_all_of hP hR XA (.addEdge (3, 5) false) rfl XA_inv trivial).1 rfl
    refine ⟨recs, a, ?_, b, c⟩
    have h1 : (XA.step (.addEdge (3, 5) false)).1.hist.undo = [recs] := by rw [a]; rfl
    have h2 : ∃ r, (XA.step (.addEdge (3, 5) false)).1.hist.undo = [r] ∧ r.length = 2 := ⟨_, rfl, rfl⟩
    obtain ⟨r, h3, h4⟩ := h2
    rw [h1] at h3; cases h3; exact h4
  · obtain ⟨recs, _, b, c, _⟩ := (C01_user_all_of hP hR XA (.delNode 2) rfl XA_inv trivial).1 rfl
    exact ⟨recs, b, c⟩
  · exact ((C01_user_all_of hP hR XA (.addEdge (3, 4) false) rfl XA_inv trivial).2 _ rfl).2.1
-- without array: update-attrs of the registered position key
example (hP : PaintLaw) (hR : RefusalHyps) :
    ∃ recs, Chain E XG recs (XG.step (.updAttrs 5 [(7, .tok 9)])).1 ∧
      Inv (XG.step (.updAttrs 5 [(7, .tok 9)])).1 := by
  have hpre : OpPre XG (.updAttrs 5 [(7, .tok 9)]) := by
    intro kv hkv
    rw [List.mem_singleton.1 hkv]
    exact ⟨fun _ => by decide, fun _ _ => by decide⟩
  obtain ⟨recs, _, b, c, _⟩ := (C01_user_all_of hP hR XG (.updAttrs 5 [(7, .tok 9)]) rfl XG_inv hpre).1 rfl
  exact ⟨recs, b, c⟩
#print axioms C01_user_all_of

/-- **… hypothesis-free for add-edge (forced or not), delete-edge and update-attrs**: these three
    need neither `PaintLaw` nor `RefusalHyps` — every acceptance and every refusal path is proved. -/
theorem C01_user_edge_ops (s : St) (op : Op) (he : op.isTopEdit = true)
    (hnp : isPaint op = false) (hnr : needsR op = false) (hI : Inv s) (hpre : OpPre s op) :
    ((s.step op).2 = .ok → ∃ recs, (s.step op).1.hist = s.hist.add recs ∧
        Chain E s recs (s.step op).1 ∧ Inv (s.step op).1 ∧
        ∀ t, E t (s.step op).1 →
          ∃ s₂ recs', t.invGroup recs = (s₂, .ok recs') ∧ ObsEq s₂ s ∧ recs'.length = recs.length ∧
            ∃ s₃ recs'', s₂.invGroup recs' = (s₃, .ok recs'') ∧ ObsEq s₃ (s.step op).1) ∧
    (∀ e, (s.step op).2 = .err e →
        E (s.step op).1 s ∧ ObsEq (s.step op).1 s ∧ Inv (s.step op).1) :=
  C01_user_step s op (fun h => by rw [hnp] at h; cases h) (fun h => by rw [hnr] at h; cases h) he hI hpre
-- no hypothesis left: forced add-edge on the array state (4 records, IoU values saved / recomputed),
-- a refused one (forced triple division: rolled back, `ObsEq` but not equal), update-attrs
example :
    (∃ recs, Chain E XA recs (XA.step (.addEdge (3, 4) true)).1 ∧ Inv (XA.step (.addEdge (3, 4) true)).1 ∧
      ∃ s₂ recs', (XA.step (.addEdge (3, 4) true)).1.invGroup recs = (s₂, .ok recs') ∧ ObsEq s₂ XA) ∧
    ((XA.step (.addEdge (1, 4) true)).2 = .err .invalid ∧ ObsEq (XA.step (.addEdge (1, 4) true)).1 XA ∧
      Inv (XA.step (.addEdge (1, 4) true)).1) ∧
    (∃ recs, Chain E XA recs (XA.step (.delEdge (1, 2))).1 ∧ Inv (XA.step (.delEdge (1, 2))).1) := by
  refine ⟨?_, ?_, ?_⟩
  · obtain ⟨recs, _, b, c, d⟩ := (C01_user_edge_ops XA (.addEdge (3, 4) true) rfl rfl rfl XA_inv trivial).1 rfl
    obtain ⟨s₂, recs', h1, h2, _⟩ := d _ (E_isEquiv.refl _)
    exact ⟨recs, b, c, s₂, recs', h1, h2⟩
  · have h := (C01_user_edge_ops XA (.addEdge (1, 4) true) rfl rfl rfl XA_inv trivial).2 _ rfl
    exact ⟨rfl, h.2.1, h.2.2⟩
  · obtain ⟨recs, _, b, c, _⟩ := (C01_user_edge_ops XA (.delEdge (1, 2)) rfl rfl rfl XA_inv trivial).1 rfl
    exact ⟨recs, b, c⟩
#print axioms C01_user_edge_ops

/-- Note: why `OpPre` asks `UserUpdateNodeAttrs` for *registered* keys.  `DeleteNode` saves the
    registered features only (`savedAttrs`), so an attribute written under an unregistered key is
    lost by delete-node + undo: on `XG` (registry `[7]`), write key 8 on node 5, delete node 5, undo —
    all three calls succeed, node 5 is back, but the attribute is gone. -/
theorem C01_note_updAttrs_unregistered :
    8 ∉ XG.regNode ∧
    (XG.step (.updAttrs 5 [(8, .tok 1)])).2 = .ok ∧
    ((XG.step (.updAttrs 5 [(8, .tok 1)])).1.step (.delNode 5)).2 = .ok ∧
    (((XG.step (.updAttrs 5 [(8, .tok 1)])).1.step (.delNode 5)).1.step .undo).2 = .bool true ∧
    (XG.step (.updAttrs 5 [(8, .tok 1)])).1.otherOf 5 8 = .tok 1 ∧
    (((XG.step (.updAttrs 5 [(8, .tok 1)])).1.step (.delNode 5)).1.step .undo).1.hasNode 5 = true ∧
    (((XG.step (.updAttrs 5 [(8, .tok 1)])).1.step (.delNode 5)).1.step .undo).1.otherOf 5 8 = Val.none := by
  decide
#print axioms C01_note_updAttrs_unregistered

/-- **C02 for every admissible session.** From a start state with `Inv` and an empty history, for
    EVERY operation list in which each operation is undo, redo, a query, or a top-level edit whose
    arguments satisfy `OpPre` at the state where it is applied (accepted or refused): the session
    refines the never-forgetting timeline — the current state is `E`-equal (so `ObsEq`) to the
    timeline state under the cursor, `|states| = |undo_stack| + 1`, `cursor + |redo_stack| =
    |undo_stack|`, every `undo` / `redo` returned the Boolean the timeline predicts (in particular
    never raised), and the refinement invariant holds (with `Rec := Chain E`).  No per-step
    hypothesis is left: the side conditions `SessValid` of `C02_session` are derived. -/
theorem C02_session_valid_of (hP : PaintLaw) (hR : RefusalHyps) (s0 : St) (h0 : s0.hist = {})
    (hI : Inv s0) (ops : List Op) (hs : SessOK s0 ops) :
    (∃ x, (sessFinal s0 ⟨[s0], 0⟩ ops).2.states[(sessFinal s0 ⟨[s0], 0⟩ ops).2.cur]? = some x ∧
          E (sessFinal s0 ⟨[s0], 0⟩ ops).1 x ∧ ObsEq (sessFinal s0 ⟨[s0], 0⟩ ops).1 x) ∧
    (sessFinal s0 ⟨[s0], 0⟩ ops).2.states.length = (sessFinal s0 ⟨[s0], 0⟩ ops).1.hist.undo.length + 1 ∧
    (sessFinal s0 ⟨[s0], 0⟩ ops).2.cur + (sessFinal s0 ⟨[s0], 0⟩ ops).1.hist.redo.length
      = (sessFinal s0 ⟨[s0], 0⟩ ops).1.hist.undo.length ∧
    SessAgree s0 ⟨[s0], 0⟩ ops ∧
    Hist.Refines RecE E ((sessFinal s0 ⟨[s0], 0⟩ ops).1.hist, (sessFinal s0 ⟨[s0], 0⟩ ops).1)
      (sessFinal s0 ⟨[s0], 0⟩ ops).2 ∧
    SessValid RecE E s0 ops := by
  have hv := (sess_all hP hR s0 h0 hI ops hs).1
  obtain ⟨⟨x, a1, a2⟩, b, c, d, e⟩ := C02_session obligation_E s0 h0 ops hv
  exact ⟨⟨x, a1, a2, a2.1⟩, b, c, d, e, hv⟩
example : SessOK XG sessG := by
  refine ⟨.inr (.inr (.inr ⟨rfl, trivial⟩)), .inr (.inr (.inr ⟨rfl, ?_⟩)), .inl rfl, .inl rfl,
    .inr (.inl rfl), .inr (.inr (.inr ⟨rfl, trivial⟩)), .inr (.inr (.inl trivial)),
    .inr (.inr (.inr ⟨rfl, trivial⟩)), .inl rfl, .inr (.inl rfl), .inl rfl, trivial⟩
  intro kv hkv
  rw [List.mem_singleton.1 hkv]
  exact ⟨fun _ => by decide, fun _ _ => by decide⟩
example : (sessFinal XG ⟨[XG], 0⟩ sessG).2.cur = 3 ∧ (sessFinal XG ⟨[XG], 0⟩ sessG).2.states.length = 5 ∧
    (sessFinal XG ⟨[XG], 0⟩ sessG).1.hist.redo.length = 1 := by decide
#print axioms C02_session_valid_of

/-- **C03 (– C06) for every admissible session.** Under the same hypotheses every state reached —
    after the whole list and after every prefix of it —, and every state on the timeline, satisfies
    the bundle invariant; in particular it is `Valid`: a forward-in-time binary forest (`Forest`)
    with exact track ids (`TidOK`), exact lineage ids (`LinOK`) and exact lookups / id maxima
    (`BookOK`), and labels and nodes correspond one-to-one (`SegOK`). -/
theorem C03_reach_of (hP : PaintLaw) (hR : RefusalHyps) (s0 : St) (h0 : s0.hist = {})
    (hI : Inv s0) (ops : List Op) (hs : SessOK s0 ops) :
    (∀ pre, pre <+: ops → Inv (sessFinal s0 ⟨[s0], 0⟩ pre).1) ∧
    Inv (sessFinal s0 ⟨[s0], 0⟩ ops).1 ∧
    (sessFinal s0 ⟨[s0], 0⟩ ops).1.Forest ∧ (sessFinal s0 ⟨[s0], 0⟩ ops).1.TidOK ∧
    (sessFinal s0 ⟨[s0], 0⟩ ops).1.LinOK ∧ (sessFinal s0 ⟨[s0], 0⟩ ops).1.BookOK ∧
    SegOK (sessFinal s0 ⟨[s0], 0⟩ ops).1 ∧
    (∀ x ∈ (sessFinal s0 ⟨[s0], 0⟩ ops).2.states, Inv x) := by
  obtain ⟨-, a, b⟩ := sess_all hP hR s0 h0 hI ops hs
  refine ⟨fun pre hp => ?_, a, a.valid.forest, a.valid.tid, a.valid.lin, a.valid.book, a.segOK, b⟩
  obtain ⟨rest, rfl⟩ := hp
  exact (sess_all hP hR s0 h0 hI pre (sessOK_append pre rest s0 hs)).2.1
/-- the readings of C04 / C05 at every reached state: equal track id ⇔ same unbranched segment,
    equal lineage id ⇔ connected -/
theorem C03_reach_ids_of (hP : PaintLaw) (hR : RefusalHyps) (s0 : St) (h0 : s0.hist = {})
    (hI : Inv s0) (ops : List Op) (hs : SessOK s0 ops) :
    let s := (sessFinal s0 ⟨[s0], 0⟩ ops).1
    (∀ a b, a ∈ s.ids → b ∈ s.ids → (s.tidOf a = s.tidOf b ↔ s.SameSeg a b)) ∧
    (∀ a b, a ∈ s.ids → b ∈ s.ids → (s.linOf a = s.linOf b ↔ s.Conn a b)) := by
  intro s
  have a : Inv s := (C03_reach_of hP hR s0 h0 hI ops hs).2.1
  exact ⟨fun x y hx hy => tk_tid_iff_sameSeg a.valid.forest a.valid.tid hx hy,
    fun x y hx hy => tk_lin_iff_conn a.valid.forest a.valid.lin hx hy⟩
example (hP : PaintLaw) (hR : RefusalHyps) (h : SessOK XG sessG) :
    (sessFinal XG ⟨[XG], 0⟩ sessG).1.tidOf 2 = (sessFinal XG ⟨[XG], 0⟩ sessG).1.tidOf 4 ↔
      (sessFinal XG ⟨[XG], 0⟩ sessG).1.SameSeg 2 4 :=
  (C03_reach_ids_of hP hR XG XG_hist XG_inv sessG h).1 2 4 (by decide) (by decide)
example (hP : PaintLaw) (hR : RefusalHyps) : (sessFinal XG ⟨[XG], 0⟩ sessG).1.Valid :=
  (C03_reach_of hP hR XG XG_hist XG_inv sessG (by
    refine ⟨.inr (.inr (.inr ⟨rfl, trivial⟩)), .inr (.inr (.inr ⟨rfl, ?_⟩)), .inl rfl, .inl rfl,
      .inr (.inl rfl), .inr (.inr (.inr ⟨rfl, trivial⟩)), .inr (.inr (.inl trivial)),
      .inr (.inr (.inr ⟨rfl, trivial⟩)), .inl rfl, .inr (.inl rfl), .inl rfl, trivial⟩
    intro kv hkv
    rw [List.mem_singleton.1 hkv]
    exact ⟨fun _ => by decide, fun _ _ => by decide⟩)).2.1.valid
#print axioms C03_reach_of
#print axioms C03_reach_ids_of

/-- **undo restores, redo re-applies — anywhere in a session.** At any state `s` with `Inv` (every
    state reached by an admissible session: `C03_reach_of`), for an edit `op` with `OpPre s op` that is
    accepted: the following `undo()` answers `True` and restores `s` up to `ObsEq`; the `redo()` after
    it answers `True` and reproduces the post-edit state up to `ObsEq`. -/
theorem C01_undo_restores_of (hP : PaintLaw) (hR : RefusalHyps) (s : St) (op : Op)
    (he : op.isTopEdit = true) (hI : Inv s) (hpre : OpPre s op) (hok : (s.step op).2 = .ok) :
    ((s.step op).1.step .undo).2 = .bool true ∧ ObsEq ((s.step op).1.step .undo).1 s ∧
    (((s.step op).1.step .undo).1.step .redo).2 = .bool true ∧
    ObsEq (((s.step op).1.step .undo).1.step .redo).1 (s.step op).1 ∧
    Inv ((s.step op).1.step .undo).1 ∧ Inv (((s.step op).1.step .undo).1.step .redo).1 := by
  obtain ⟨recs, a, b, c⟩ := (editStep hP hR he hI hpre).1 hok
  obtain ⟨h1, h2, h3, h4⟩ := undo_redo_reading a b
  exact ⟨h1, h2.1, h3, h4.1, Inv.of_E h2 hI, Inv.of_E h4 c⟩
example (hP : PaintLaw) (hR : RefusalHyps) :
    ((XA.step (.delNode 2)).1.step .undo).2 = .bool true ∧
    ObsEq ((XA.step (.delNode 2)).1.step .undo).1 XA :=
  have h := C01_undo_restores_of hP hR XA (.delNode 2) rfl XA_inv trivial rfl
  ⟨h.1, h.2.1⟩
#print axioms C01_undo_restores_of
