/-
  C01 (package R2A1) — primitive inverse laws for UpdateNodeAttrs, UpdateNodeSeg, AddNode and
  DeleteNode over the observational equivalence `ObsEq`, and the compositional step over it.

  "Applying any edit - a primitive action or a composite user action - and then inverting it
   restores the observable tracks state exactly: the same nodes and edges, the same value of
   every registered node and edge feature (time, position, track and lineage ids, computed and
   custom features) and the same segmentation array. Inverting the inverse reproduces the
   post-edit state exactly."
   (preconditions: a primitive add-node paints onto background, a primitive delete-node has no
    incident edges)

  Vocabulary (FtProofs/R2A1Lemmas.lean, namespace `Ft.R2A1`)
  * `ObsEq s t`   same observed nodes (id ↦ time, track id, lineage id, key ↦ value with
                  None ≡ absent), same observed edges (e ↦ key ↦ value, None ≡ absent), same
                  array, same lookups as sets, same registry. Not compared: insertion orders,
                  id maxima, node-id counter, history, refresh log.
  * `WF s`        structural well-formedness the Python containers guarantee by construction
                  (dict keys / node ids / edge keys distinct, lookup lists duplicate-free);
                  follows from `Forest ∧ BookOK` + distinct attribute keys (`WF.of_invariants`).
  * `ObsW s t`    `ObsEq s t ∧ (WF s ↔ WF t)` — the equivalence to plug into `C02_session`.
                  On well-formed states it *is* `ObsEq`. (`ObsEq` alone is too coarse for an
                  `InvLaw` that quantifies over the whole class: `C01_note_obsEq_needs_wf`.)
  * `InvLaw E s r s₁`  two-way inverse law of one recorded primitive, to every depth: from every
                  state `E`-equivalent to `s₁`, `invPrim r` succeeds, lands in the `E`-class of
                  `s`, and the record it returns satisfies the law from `s₁` back to `s`.
  * `Chain E s recs sₙ`  a recorded run in which every primitive satisfies its law.

  Every `C01_prim_*` theorem states (a) the robust law `InvLaw ObsW s rec s₁` (usable inside
  groups and inside the history) and (b) its explicit reading: inverting from the post state
  succeeds and restores `s` up to `ObsEq`; inverting that inverse succeeds and reproduces the
  post state up to `ObsEq`.
-/
import FtProofs.R2A1Lemmas
open Ft Ft.St Ft.R2A1 List

/-- `ObsEq` is an equivalence relation, coarser than the structural `Equiv` of SessionSpec, blind
    to the control fields; `ObsW` is an equivalence too and coincides with `ObsEq` on well-formed
    states; on well-formed states `ObsEq` means that every reader returns the same answer. -/
theorem C01_obsEq_equivalence :
    (∀ s, ObsEq s s) ∧ (∀ s t, ObsEq s t → ObsEq t s) ∧ (∀ s t u, ObsEq s t → ObsEq t u → ObsEq s u) ∧
    (∀ s t, St.Equiv s t → ObsEq s t) ∧ (∀ u h, ObsEq (stepped u h) u) ∧
    IsEquiv ObsW ∧ (∀ u h, ObsW (stepped u h) u) ∧
    (∀ s t, WF s → WF t → (ObsW s t ↔ ObsEq s t)) ∧
    (∀ s t, ObsEq s t → WF s → WF t →
      (∀ n, n ∈ s.ids ↔ n ∈ t.ids) ∧ (∀ n, s.timeOf n = t.timeOf n) ∧ (∀ n, s.tidOf n = t.tidOf n) ∧
      (∀ n, s.linOf n = t.linOf n) ∧ (∀ n k, s.otherOf n k = t.otherOf n k) ∧
      (∀ e, e ∈ s.edgeList ↔ e ∈ t.edgeList) ∧ s.seg = t.seg) :=
  ⟨ObsEq.refl, fun _ _ => ObsEq.symm, fun _ _ _ => ObsEq.trans, fun _ _ => ObsEq.of_equiv,
    ObsEq.stepped, obsW_isEquiv, ObsW.stepped,
    fun _ _ hs ht => ⟨fun h => h.1, fun h => ObsW.mk' h hs ht⟩,
    fun _ _ h hs ht => h.readers hs ht⟩
-- two different states in one class: the history / refresh log differ
example : ObsEq (stepped exS { undo := [[.addEdge (3, 5) []]] }) exS ∧
    (stepped exS { undo := [[.addEdge (3, 5) []]] }).refreshes ≠ exS.refreshes :=
  ⟨C01_obsEq_equivalence.2.2.2.2.1 _ _, by decide⟩
example : WF exS ∧ WF exSeg := ⟨WF.of_b (by decide), WF.of_b (by decide)⟩
#print axioms C01_obsEq_equivalence

/-- UpdateNodeAttrs on a well-formed state (any keys — present on the node or not): inverse law
    over `ObsW` to every depth; explicitly: `inverse()` restores the state up to `ObsEq`, and
    inverting the inverse reproduces the post state up to `ObsEq`. -/
theorem C01_prim_updAttrs (s s₁ : St) (n : Node) (attrs : List (Key × Val)) (rec : PrimRec)
    (hw : WF s) (h : s.pUpdAttrs n attrs = .ok (s₁, rec)) :
    InvLaw ObsW s rec s₁ ∧
    ∃ s₂ r', s₁.invPrim rec = .ok (s₂, r') ∧ ObsEq s₂ s ∧
      ∃ s₃ r'', s₂.invPrim r' = .ok (s₃, r'') ∧ ObsEq s₃ s₁ :=
  ⟨invLaw_updAttrs hw h, (invLaw_updAttrs hw h).undo_redo_obs⟩
-- a key the node does not carry yet (8) and one it carries (7), in one call
example : ∃ s₁ rec, exS.pUpdAttrs 1 [(8, .tok 1), (7, .tok 5)] = .ok (s₁, rec) ∧ InvLaw ObsW exS rec s₁ ∧
    ∃ s₂ r', s₁.invPrim rec = .ok (s₂, r') ∧ ObsEq s₂ exS ∧ s₂.nodes ≠ exS.nodes ∧
      ∃ s₃ r'', s₂.invPrim r' = .ok (s₃, r'') ∧ ObsEq s₃ s₁ := by
  obtain ⟨hl, s₂, r', h1, h2, h3⟩ := C01_prim_updAttrs exS _ 1 [(8, .tok 1), (7, .tok 5)] _
    (WF.of_b (by decide)) rfl
  refine ⟨_, _, rfl, hl, s₂, r', h1, h2, ?_, h3⟩
  have : s₂ = _ := (Prod.mk.inj (Except.ok.inj (h1.symm.trans rfl))).1
  rw [this]; decide
#print axioms C01_prim_updAttrs

/-- UpdateNodeSeg under `SegPre` (pixels inside the array carrying the opposite value; regionprops
    values of the node and IoU of its incident edges current): inverse law and explicit reading. -/
theorem C01_prim_updSeg (s s₁ : St) (g : Seg) (n : Node) (px : List Pix) (added : Bool) (rec : PrimRec)
    (hp : SegPre s g n px added) (h : s.pUpdSeg n px added = .ok (s₁, rec)) :
    InvLaw ObsW s rec s₁ ∧
    ∃ s₂ r', s₁.invPrim rec = .ok (s₂, r') ∧ ObsEq s₂ s ∧
      ∃ s₃ r'', s₂.invPrim r' = .ok (s₃, r'') ∧ ObsEq s₃ s₁ :=
  ⟨invLaw_updSeg hp h, (invLaw_updSeg hp h).undo_redo_obs⟩
-- node 3 (frame 1, pixel 6) grows by the background pixel 7; its mask and the IoU of (1,3) change
example : ∃ s₁ rec, exCur.pUpdSeg 3 [7] true = .ok (s₁, rec) ∧ InvLaw ObsW exCur rec s₁ ∧
    s₁.otherOf 3 10 ≠ exCur.otherOf 3 10 ∧
    ∃ s₂ r', s₁.invPrim rec = .ok (s₂, r') ∧ ObsEq s₂ exCur ∧
      ∃ s₃ r'', s₂.invPrim r' = .ok (s₃, r'') ∧ ObsEq s₃ s₁ := by
  have hp : SegPre exCur ⟨4, [1,0,0,0, 2,2,3,0, 5,0,0,0, 4,4,0,0]⟩ 3 [7] true := by
    refine ⟨exCur_wf, exCur_seg, by decide, ?_, ?_⟩
    · intro t ht
      have h1 : exCur.timeOf 3 = some 1 := by decide
      rw [h1] at ht; cases ht; decide
    · intro k hk _
      have h1 : exCur.iouKey = some 11 := by decide
      rw [h1] at hk; cases hk; decide
  obtain ⟨hl, hx⟩ := C01_prim_updSeg exCur _ _ 3 [7] true _ hp rfl
  exact ⟨_, _, rfl, hl, by decide, hx⟩
#print axioms C01_prim_updSeg

/-- AddNode under `AddPre` (fresh id; attributes registered; with array: label absent from the
    frame, pixels on background inside the frame; without array: position given and not None):
    inverse law and explicit reading. Covers the variants without and with pixels. -/
theorem C01_prim_addNode (s s₁ : St) (r : NodeRec) (px : Option (List Pix)) (rec : PrimRec)
    (hp : AddPre s r px) (h : s.pAddNode r px = .ok (s₁, rec)) :
    InvLaw ObsW s rec s₁ ∧
    ∃ s₂ r', s₁.invPrim rec = .ok (s₂, r') ∧ ObsEq s₂ s ∧
      ∃ s₃ r'', s₂.invPrim r' = .ok (s₃, r'') ∧ ObsEq s₃ s₁ :=
  ⟨invLaw_addNode hp h, (invLaw_addNode hp h).undo_redo_obs⟩
-- with array: node 6 in frame 2 on the background pixels 9, 10 (its regionprops value is computed)
example : ∃ s₁ rec, exCur.pAddNode ⟨6, 2, 5, some 3, [(7, .tok 9)]⟩ (some [9, 10]) = .ok (s₁, rec) ∧
    InvLaw ObsW exCur rec s₁ ∧ s₁.otherOf 6 10 = .mask [9, 10] ∧
    ∃ s₂ r', s₁.invPrim rec = .ok (s₂, r') ∧ ObsEq s₂ exCur ∧
      ∃ s₃ r'', s₂.invPrim r' = .ok (s₃, r'') ∧ ObsEq s₃ s₁ := by
  have hp : AddPre exCur ⟨6, 2, 5, some 3, [(7, .tok 9)]⟩ (some [9, 10]) := by
    refine ⟨exCur_wf, by decide, by decide, by decide, by decide, notInBook_of_all (by decide),
      notInBook_of_all (by decide), by decide, by decide, ?_, ?_, ?_⟩
    · intro h; rw [exCur_seg] at h; cases h
    · intro g hg; rw [exCur_seg] at hg; cases hg; decide
    · intro g ps hg hps; rw [exCur_seg] at hg; cases hg; cases hps; decide
  obtain ⟨hl, hx⟩ := C01_prim_addNode exCur _ _ _ _ hp rfl
  exact ⟨_, _, rfl, hl, by decide, hx⟩
-- without array: node 6 with its position attribute
example : ∃ s₁ rec, exS.pAddNode ⟨6, 2, 5, some 3, [(7, .tok 9)]⟩ none = .ok (s₁, rec) ∧
    InvLaw ObsW exS rec s₁ ∧
    ∃ s₂ r', s₁.invPrim rec = .ok (s₂, r') ∧ ObsEq s₂ exS ∧
      ∃ s₃ r'', s₂.invPrim r' = .ok (s₃, r'') ∧ ObsEq s₃ s₁ := by
  have hp : AddPre exS ⟨6, 2, 5, some 3, [(7, .tok 9)]⟩ none := by
    refine ⟨WF.of_b (by decide), by decide, by decide, by decide, by decide, notInBook_of_all (by decide),
      notInBook_of_all (by decide), by decide, by decide, by decide, ?_, ?_⟩
    · intro g hg; cases hg
    · intro g ps hg; cases hg
  obtain ⟨hl, hx⟩ := C01_prim_addNode exS _ _ _ _ hp rfl
  exact ⟨_, _, rfl, hl, hx⟩
#print axioms C01_prim_addNode

/-- DeleteNode under `DelPre` (no incident edges; listed in the lookups under its ids; attributes
    registered; regionprops values current), with the pixels looked up (`none`) or passed as
    looked up: inverse law and explicit reading. -/
theorem C01_prim_delNode (s₁ s : St) (n : Node) (px : Option (List Pix)) (rec : PrimRec)
    (hp : DelPre s₁ n) (hpx : px = none ∨ px = s₁.getPixels n) (h : s₁.pDelNode n px = .ok (s, rec)) :
    InvLaw ObsW s₁ rec s ∧
    ∃ s₂ r', s.invPrim rec = .ok (s₂, r') ∧ ObsEq s₂ s₁ ∧
      ∃ s₃ r'', s₂.invPrim r' = .ok (s₃, r'') ∧ ObsEq s₃ s :=
  ⟨invLaw_delNode hp hpx h, (invLaw_delNode hp hpx h).undo_redo_obs⟩
-- the isolated node 5 (frame 2, pixel 8) with its pixels looked up
example : ∃ s rec, exCur.pDelNode 5 none = .ok (s, rec) ∧ InvLaw ObsW exCur rec s ∧
    s.seg ≠ exCur.seg ∧
    ∃ s₂ r', s.invPrim rec = .ok (s₂, r') ∧ ObsEq s₂ exCur ∧
      ∃ s₃ r'', s₂.invPrim r' = .ok (s₃, r'') ∧ ObsEq s₃ s := by
  have hp : DelPre exCur 5 := by
    refine ⟨exCur_wf, by decide, by decide, book_dec (by decide) (by decide) (by decide),
      book_dec (by decide) (by decide) (by decide), registered_dec (by decide), ?_, ?_⟩
    · intro h; rw [exCur_seg] at h; cases h
    · intro g t hg ht
      rw [exCur_seg] at hg; cases hg
      have h1 : exCur.timeOf 5 = some 2 := by decide
      rw [h1] at ht; cases ht; decide
  obtain ⟨hl, hx⟩ := C01_prim_delNode exCur _ 5 none _ hp (Or.inl rfl) rfl
  exact ⟨_, _, rfl, hl, by decide, hx⟩
#print axioms C01_prim_delNode

/-- the compositional step over `ObsW`: `ActionGroup.inverse` of a lawful recorded run, from any
    state in the class of its end state, succeeds, lands in the class of its start state, and
    returns a lawful run back (so it can be inverted again, and again). -/
theorem C01_group_obs (s sₙ : St) (recs : List PrimRec) (h : Chain ObsW s recs sₙ) (sₙ' : St)
    (he : ObsW sₙ' sₙ) :
    ∃ s' recs', sₙ'.invGroup recs = (s', .ok recs') ∧ ObsW s' s ∧ recs'.length = recs.length ∧
      Chain ObsW sₙ recs' s :=
  invGroup_chain obsW_isEquiv h sₙ' he
-- a two-primitive group (attributes of node 1, then AddNode 6) and its inversion
example : ∃ sₙ recs s' recs', Chain ObsW exS recs sₙ ∧ recs.length = 2 ∧
    sₙ.invGroup recs = (s', .ok recs') ∧ ObsW s' exS ∧ Chain ObsW sₙ recs' exS := by
  have h1 := invLaw_updAttrs (s := exS) (n := 1) (attrs := [(8, .tok 1)]) (WF.of_b (by decide)) rfl
  have hp : AddPre (setAttrs exS 1 [(8, .tok 1)]) ⟨6, 2, 5, some 3, [(7, .tok 9)]⟩ none := by
    refine ⟨WF.of_b (by decide), by decide, by decide, by decide, by decide, notInBook_of_all (by decide),
      notInBook_of_all (by decide), by decide, by decide, by decide, ?_, ?_⟩
    · intro g hg; cases hg
    · intro g ps hg; cases hg
  have h2 := invLaw_addNode hp rfl
  have hc := Chain.cons h1 (Chain.cons h2 (Chain.nil (obsW_isEquiv.refl _)))
  obtain ⟨s', recs', g1, g2, _, g4⟩ := C01_group_obs _ _ _ hc _ (obsW_isEquiv.refl _)
  exact ⟨_, _, s', recs', hc, rfl, g1, g2, g4⟩
#print axioms C01_group_obs

/-- … stated for an arbitrary equivalence (parameter of `C02_session`) -/
theorem C01_group_gen (E : St → St → Prop) (hE : IsEquiv E) (s sₙ : St) (recs : List PrimRec)
    (h : Chain E s recs sₙ) (sₙ' : St) (he : E sₙ' sₙ) :
    ∃ s' recs', sₙ'.invGroup recs = (s', .ok recs') ∧ E s' s ∧ recs'.length = recs.length ∧
      Chain E sₙ recs' s :=
  invGroup_chain hE h sₙ' he
#print axioms C01_group_gen

/-- the C01 obligation of `C02_session`, discharged for `E := ObsW`, `Rec := Chain ObsW`:
    what remains for a user action is to show that its recorded primitives form a `Chain`. -/
theorem C01_obligation_obs : C01Obligation (fun a s t => Chain ObsW s a t) ObsW :=
  obligation obsW_isEquiv ObsW.stepped
#print axioms C01_obligation_obs

/-- Why the law is stated over `ObsW` and not over bare `ObsEq`: "lookups as sets" identifies a
    lookup list with a duplicate entry with the duplicate-free one, but `list.remove` takes out
    one occurrence only — deleting node 5 from two `ObsEq`-equivalent states gives states that
    are not `ObsEq` (5 is still listed under track 4 in one of them). The model (and the Python
    code) never produces such a list (`BookOK`), which is what `WF` records. -/
theorem C01_note_obsEq_needs_wf :
    ∃ s₁' s₂' r' s₂ r, ObsEq s₁' exS ∧ s₁'.pDelNode 5 none = .ok (s₂', r') ∧
      exS.pDelNode 5 none = .ok (s₂, r) ∧ ¬ ObsEq s₂' s₂ := by
  refine ⟨{ exS with t2n := [(1, [1]), (2, [4, 2]), (3, [3]), (4, [5, 5])] }, _, _, _, _, ?_, rfl, rfl, ?_⟩
  · refine ⟨fun _ => Iff.rfl, fun _ => Iff.rfl, rfl, ?_, fun _ _ => Iff.rfl, rfl⟩
    intro id n
    rw [inBook_iff_mem (by decide), inBook_iff_mem (by decide)]
    constructor
    · rintro ⟨p, hp, rfl, hn⟩
      revert n; revert p; decide
    · rintro ⟨p, hp, rfl, hn⟩
      revert n; revert p; decide
  · intro h
    obtain ⟨l, hl, _⟩ := (h.t2n 4 5).mp ⟨[5], by decide, by decide⟩
    have : alook 4 (delRes exS 5 ⟨5, 2, 4, some 2, [(7, .tok 4)]⟩ none).t2n = none := by decide
    exact absurd (this ▸ hl) (by simp)
#print axioms C01_note_obsEq_needs_wf
