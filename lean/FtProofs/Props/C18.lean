/-
  C18 — "The candidate graph built from a segmentation or a point list has exactly one node per
  detection carrying its time, scaled centroid (and area), and an edge from a detection to
  another if and only if the second is in the immediately following frame and their distance is
  at most the given maximum; requested IoU attributes equal the true mask overlap.  Frames
  without detections never cause links across the gap or missing links after it."

  Model: FtModel/CandGraph.lean (the REPAIRED loop of add_cand_edges, fix D7; the unrepaired
  loop is `addCandEdgesOrig` and is refuted below).  All theorems hold for every number of
  frames / detections / gaps and for EVERY relation `near` (which stands for
  "distance ≤ max_edge_distance" as answered by scipy's KD-tree — trusted, and compared with a
  brute-force computation on every harness case).
  Not covered by the theorems (numerics, checked by the harness on every case, tolerance 1e-9):
  centroid = coordinate sums / count · scale, area = count · ∏ scale, float value of inter/union.
-/
import FtProofs.CandGraphLemmas
open Ft Ft.CandGraph

/-! ## edges -/

/-- For every `near`, node list and frame dictionary that lists each node exactly once under
    its own time: `(u,v)` is an edge iff `u`, `v` are detections, `v` is in the frame
    immediately following `u`'s, and they are near.  (Gaps, empty frames, any frame numbers.) -/
theorem C18_edges (near : Node → Node → Bool) (nodes : List (Node × Nat)) (d : FrameDict)
    (hwf : WF nodes d) (u v : Node) :
    (u, v) ∈ addCandEdges near nodes d ↔
      ∃ tu tv, (u, tu) ∈ nodes ∧ (v, tv) ∈ nodes ∧ tv = tu + 1 ∧ near u v = true :=
  mem_addCandEdges hwf

example :
    WF [(0, 0), (1, 1), (2, 3), (3, 4), (7, 4)] [(0, [0]), (1, [1]), (4, [3, 7]), (3, [2])] ∧
    addCandEdges (fun u v => u + v != 9) [(0, 0), (1, 1), (2, 3), (3, 4), (7, 4)]
      [(0, [0]), (1, [1]), (4, [3, 7]), (3, [2])] = [(0, 1), (2, 3)] := by decide

#print axioms C18_edges

/-- no edge is stored twice -/
theorem C18_edges_nodup (near : Node → Node → Bool) (nodes : List (Node × Nat)) (d : FrameDict) :
    (addCandEdges near nodes d).Nodup :=
  nodup_addCandEdgesD List.nodup_nil

example : (addCandEdges (fun _ _ => true) [(0, 0), (1, 1), (2, 1)] [(0, [0]), (1, [1, 2])]).length = 2 := by
  decide

#print axioms C18_edges_nodup

/-! ## nodes -/

/-- points list: node `i` is row `i`, its time is the row's frame number times `scale[0]`;
    the frame dictionary handed to `add_cand_edges` is well-formed. -/
theorem C18_nodes_points (s0 : Nat) (times : List Nat) :
    (nodesFromPoints s0 times).1 = times.zipIdx.map (fun p => (p.2, p.1 * s0)) ∧
    (∀ i t, (i, t) ∈ (nodesFromPoints s0 times).1 ↔ ∃ r, times[i]? = some r ∧ t = r * s0) ∧
    WF (nodesFromPoints s0 times).1 (nodesFromPoints s0 times).2 := by
  have h := nodesFromPointsAux_spec s0 times 0 [] [] WF_nil (by intro q hq; cases hq)
  simp only [List.nil_append] at h
  refine ⟨h.1, ?_, h.2⟩
  intro i t
  show (i, t) ∈ (nodesFromPointsAux s0 times 0 [] []).1 ↔ _
  rw [h.1, List.mem_map]
  constructor
  · rintro ⟨p, hp, e⟩
    have := List.mem_zipIdx_iff_getElem?.mp hp
    obtain ⟨e1, e2⟩ := Prod.mk.inj e
    exact ⟨p.1, by rw [← e1]; exact this, e2.symm⟩
  · rintro ⟨r, hr, rfl⟩
    exact ⟨(r, i), List.mem_zipIdx_iff_getElem?.mpr hr, rfl⟩

example : nodesFromPoints 1 [3, 0, 1, 0] =
    ([(0, 3), (1, 0), (2, 1), (3, 0)], [(3, [0]), (0, [1, 3]), (1, [2])]) := by decide

#print axioms C18_nodes_points

/-- label array: when `nodes_from_segmentation` succeeds, the nodes are exactly the
    (frame, non-zero label) detections — id = label, time = frame, area = pixel count,
    position sums = coordinate sums of the label's pixels — no id occurs twice, and the frame
    dictionary is well-formed. -/
theorem C18_nodes (shape : List Nat) (frames : List (List Nat)) (nodes : List Det) (d : FrameDict)
    (h : nodesFromSeg shape frames = some (nodes, d)) :
    (∀ n : Det, n ∈ nodes ↔
      ∃ f, frames[n.time]? = some f ∧ n.id ≠ 0 ∧ n.id ∈ f ∧
        n.area = f.count n.id ∧ n.psum = posSum shape f n.id) ∧
    (nodes.map Det.id).Nodup ∧ WF (detTimes nodes) d := by
  obtain ⟨hw, hm⟩ := nodesFromSegAux_some shape frames 0 [] [] nodes d h WF_nil
  refine ⟨fun n => ?_, by rw [← detTimes_fst]; exact hw.2.1, hw⟩
  rw [hm n]
  constructor
  · rintro (hn | ⟨p, hp, h1, h2, h3⟩)
    · cases hn
    · have hp' := List.mem_zipIdx_iff_getElem?.mp hp
      have ht : n.time = p.2 := by rw [h3]; rfl
      have ha : n.area = p.1.count n.id := congrArg Det.area h3
      have hs : n.psum = posSum shape p.1 n.id := congrArg Det.psum h3
      exact ⟨p.1, by rw [ht]; exact hp', h1, h2, ha, hs⟩
  · rintro ⟨f, hf, h1, h2, ha, hs⟩
    refine Or.inr ⟨(f, n.time), List.mem_zipIdx_iff_getElem?.mpr hf, h1, h2, ?_⟩
    cases n
    simp only [mkDet] at *
    simp [ha, hs]

example : nodesFromSeg [2, 2] [[0, 5, 5, 0], [0, 0, 0, 0], [2, 2, 9, 0]] =
    some ([⟨5, 0, 2, [1, 1]⟩, ⟨2, 2, 2, [0, 1]⟩, ⟨9, 2, 1, [1, 0]⟩], [(0, [5]), (2, [2, 9])]) := by
  decide

#print axioms C18_nodes

/-- `nodes_from_segmentation` refuses (ValueError "Duplicate values found among nodes") exactly
    when some non-zero label occurs in two different frames. -/
theorem C18_nodes_refusal (shape : List Nat) (frames : List (List Nat)) :
    nodesFromSeg shape frames = none ↔
      ∃ (t1 t2 : Nat) (f1 f2 : List Nat) (l : Nat), t1 < t2 ∧ frames[t1]? = some f1 ∧ frames[t2]? = some f2 ∧
        l ≠ 0 ∧ l ∈ f1 ∧ l ∈ f2 := by
  unfold nodesFromSeg
  rw [nodesFromSegAux_none]
  constructor
  · rintro (⟨p, _, l, _, _, hl⟩ | ⟨p1, hp1, p2, hp2, hlt, l, h0, h1, h2⟩)
    · cases hl
    · exact ⟨p1.2, p2.2, p1.1, p2.1, l, hlt, List.mem_zipIdx_iff_getElem?.mp hp1,
        List.mem_zipIdx_iff_getElem?.mp hp2, h0, h1, h2⟩
  · rintro ⟨t1, t2, f1, f2, l, hlt, hf1, hf2, h0, h1, h2⟩
    exact Or.inr ⟨(f1, t1), List.mem_zipIdx_iff_getElem?.mpr hf1, (f2, t2),
      List.mem_zipIdx_iff_getElem?.mpr hf2, hlt, l, h0, h1, h2⟩

example : nodesFromSeg [2, 2] [[0, 5, 5, 0], [0, 0, 0, 0], [2, 5, 9, 0]] = none := by decide

#print axioms C18_nodes_refusal

/-! ## end to end: public entry points -/

/-- `compute_graph_from_points_list`: edge `(i, j)` iff row `j`'s time is row `i`'s time + 1 and
    the two rows are near. -/
theorem C18_edges_points (near : Node → Node → Bool) (s0 : Nat) (times : List Nat) (u v : Node) :
    (u, v) ∈ (graphFromPoints near s0 times).2 ↔
      ∃ ru rv, times[u]? = some ru ∧ times[v]? = some rv ∧ rv * s0 = ru * s0 + 1 ∧
        near u v = true := by
  obtain ⟨_, hm, hw⟩ := C18_nodes_points s0 times
  show (u, v) ∈ addCandEdges near (nodesFromPoints s0 times).1 (nodesFromPoints s0 times).2 ↔ _
  rw [mem_addCandEdges hw]
  constructor
  · rintro ⟨tu, tv, h1, h2, e, hn⟩
    obtain ⟨ru, hru, rfl⟩ := (hm u tu).mp h1
    obtain ⟨rv, hrv, rfl⟩ := (hm v tv).mp h2
    exact ⟨ru, rv, hru, hrv, e, hn⟩
  · rintro ⟨ru, rv, hru, hrv, e, hn⟩
    exact ⟨ru * s0, rv * s0, (hm u _).mpr ⟨ru, hru, rfl⟩, (hm v _).mpr ⟨rv, hrv, rfl⟩, e, hn⟩

example : graphFromPoints (fun _ _ => true) 1 [0, 1, 3, 4, 4] =
    ([(0, 0), (1, 1), (2, 3), (3, 4), (4, 4)], [(0, 1), (2, 3), (2, 4)]) := by decide

#print axioms C18_edges_points

/-- `compute_graph_from_seg`: edge `(u, v)` iff `u` is a non-zero label of some frame `t`, `v` a
    non-zero label of frame `t + 1`, and they are near. -/
theorem C18_edges_seg (near : Node → Node → Bool) (shape : List Nat) (frames : List (List Nat))
    (iou : Bool) (g : SegGraph) (h : graphFromSeg near shape frames iou = some g) (u v : Node) :
    (u, v) ∈ g.edges ↔
      ∃ t fu fv, frames[t]? = some fu ∧ frames[t + 1]? = some fv ∧
        u ≠ 0 ∧ u ∈ fu ∧ v ≠ 0 ∧ v ∈ fv ∧ near u v = true := by
  unfold graphFromSeg at h
  cases hn : nodesFromSeg shape frames with
  | none => rw [hn] at h; cases h
  | some nd =>
    obtain ⟨nodes, d⟩ := nd
    rw [hn] at h
    simp only [Option.some.injEq] at h
    subst h
    obtain ⟨hm, _, hw⟩ := C18_nodes shape frames nodes d hn
    show (u, v) ∈ addCandEdges near (detTimes nodes) d ↔ _
    rw [mem_addCandEdges hw]
    constructor
    · rintro ⟨tu, tv, h1, h2, rfl, hnear⟩
      obtain ⟨nu, hnu, eu⟩ := List.mem_map.mp h1
      obtain ⟨nv, hnv, ev⟩ := List.mem_map.mp h2
      obtain ⟨fu, hfu, hu0, huf, _, _⟩ := (hm nu).mp hnu
      obtain ⟨fv, hfv, hv0, hvf, _, _⟩ := (hm nv).mp hnv
      obtain ⟨eu1, eu2⟩ := Prod.mk.inj eu
      obtain ⟨ev1, ev2⟩ := Prod.mk.inj ev
      rw [eu1] at hu0 huf; rw [ev1] at hv0 hvf
      rw [eu2] at hfu; rw [ev2] at hfv
      exact ⟨tu, fu, fv, hfu, hfv, hu0, huf, hv0, hvf, hnear⟩
    · rintro ⟨t, fu, fv, hfu, hfv, hu0, huf, hv0, hvf, hnear⟩
      refine ⟨t, t + 1, ?_, ?_, rfl, hnear⟩
      · exact List.mem_map.mpr ⟨mkDet shape fu t u,
          (hm _).mpr ⟨fu, hfu, hu0, huf, rfl, rfl⟩, rfl⟩
      · exact List.mem_map.mpr ⟨mkDet shape fv (t + 1) v,
          (hm _).mpr ⟨fv, hfv, hv0, hvf, rfl, rfl⟩, rfl⟩

example : (graphFromSeg (fun u v => u + v != 13) [2, 2]
    [[0, 5, 5, 0], [0, 0, 0, 0], [2, 2, 9, 0], [4, 0, 0, 1]] false).map (·.edges)
    = some [(2, 1), (2, 4), (9, 1)] := by decide

#print axioms C18_edges_seg

/-! ## IoU -/

/-- requested IoU: every edge `(u, v)` produced carries an `iou` attribute, and it is the true
    overlap `(|A ∩ B|, |A ∪ B|)` of the mask `A` of `u` in its frame `t` and the mask `B` of `v`
    in frame `t + 1`, counted over pixel positions (`none` = the literal 0 when `A ∩ B = ∅`).
    Hypothesis: all frames have the same number of pixels (they are slices of one array). -/
theorem C18_iou (near : Node → Node → Bool) (shape : List Nat) (frames : List (List Nat))
    (g : SegGraph) (h : graphFromSeg near shape frames true = some g)
    (hshape : ∀ f1 ∈ frames, ∀ f2 ∈ frames, f1.length = f2.length)
    (u v : Node) (he : (u, v) ∈ g.edges) :
    ∃ t fu fv, frames[t]? = some fu ∧ frames[t + 1]? = some fv ∧ u ∈ fu ∧ v ∈ fv ∧
      alook (u, v) g.iou = some (overlap u v fu fv) := by
  unfold graphFromSeg at h
  cases hn : nodesFromSeg shape frames with
  | none => rw [hn] at h; cases h
  | some nd =>
    obtain ⟨nodes, d⟩ := nd
    rw [hn] at h
    simp only [Option.some.injEq, if_true] at h
    subst h
    obtain ⟨hm, _, hw⟩ := C18_nodes shape frames nodes d hn
    have he' : (u, v) ∈ addCandEdges near (detTimes nodes) d := he
    obtain ⟨tu, tv, h1, h2, rfl, _⟩ := (mem_addCandEdges hw).mp he'
    obtain ⟨nu, hnu, eu⟩ := List.mem_map.mp h1
    obtain ⟨nv, hnv, ev⟩ := List.mem_map.mp h2
    obtain ⟨fu, hfu, hu0, huf, _, _⟩ := (hm nu).mp hnu
    obtain ⟨fv, hfv, hv0, hvf, _, _⟩ := (hm nv).mp hnv
    obtain ⟨eu1, eu2⟩ := Prod.mk.inj eu
    obtain ⟨ev1, ev2⟩ := Prod.mk.inj ev
    rw [eu1] at hu0 huf; rw [ev1] at hv0 hvf
    rw [eu2] at hfu; rw [ev2] at hfv
    refine ⟨tu, fu, fv, hfu, hfv, huf, hvf, ?_⟩
    show alook (u, v) (addIou frames d (addCandEdges near (detTimes nodes) d)) = _
    rw [alook_addIou hw frames _ he' h1 h2]
    congr 1
    apply alook_getIouDict frames u v tu fu fv hu0 hv0 hfu hfv
    · exact hshape fu (List.mem_of_getElem? hfu) fv (List.mem_of_getElem? hfv)
    · intro i f hf hmem
      have : (u, i) ∈ detTimes nodes :=
        List.mem_map.mpr ⟨mkDet shape f i u, (hm _).mpr ⟨f, hf, hu0, hmem, rfl, rfl⟩, rfl⟩
      exact hw.time_unique this h1

example : (graphFromSeg (fun _ _ => true) [2, 2]
    [[0, 5, 5, 0], [2, 2, 9, 0], [0, 0, 0, 0], [4, 0, 0, 1]] true).map (·.iou)
    = some [((5, 2), some (1, 3)), ((5, 9), some (1, 2))] := by decide

#print axioms C18_iou

/-- IoU not requested: no `iou` attribute at all -/
theorem C18_iou_absent (near : Node → Node → Bool) (shape : List Nat) (frames : List (List Nat))
    (g : SegGraph) (h : graphFromSeg near shape frames false = some g) : g.iou = [] := by
  unfold graphFromSeg at h
  cases hn : nodesFromSeg shape frames with
  | none => rw [hn] at h; cases h
  | some nd =>
    rw [hn] at h
    simp only [Option.some.injEq] at h
    subst h
    rfl

example : (graphFromSeg (fun _ _ => true) [2, 2] [[0, 5, 5, 0], [2, 2, 9, 0]] false).map (·.iou)
    = some [] := by decide

#print axioms C18_iou_absent

/-! ## the unrepaired loop (defect D7) -/

/-- The loop of `add_cand_edges` as it stood before the repair (carried `prev` not advanced
    over a gap) violates `C18_edges`: detections 0,1,2,3 in frames 0,1,3,4, everything near.
    It links node 1 (frame 1) to node 3 (frame 4) across the gap and misses 2 → 3
    (frames 3 → 4).  Replayed on the real code by harness/fam_candgraph.py (FIXED_CASES[0]). -/
theorem C18_counterexample_unfixed :
    ∃ (nodes : List (Node × Nat)) (d : FrameDict) (es : List Edge),
      WF nodes d ∧ addCandEdgesOrig (fun _ _ => true) nodes d = some es ∧
      (1, 1) ∈ nodes ∧ (3, 4) ∈ nodes ∧ (1, 3) ∈ es ∧
      (2, 3) ∈ nodes ∧ (2, 3) ∉ es ∧
      addCandEdges (fun _ _ => true) nodes d = [(0, 1), (2, 3)] :=
  ⟨[(0, 0), (1, 1), (2, 3), (3, 4)], [(0, [0]), (1, [1]), (3, [2]), (4, [3])],
    [(0, 1), (1, 3)], by decide⟩

/-- hence the specification of `C18_edges` is false of the unrepaired loop -/
theorem C18_counterexample_unfixed_spec :
    ¬ ∀ (near : Node → Node → Bool) (nodes : List (Node × Nat)) (d : FrameDict)
        (es : List Edge), WF nodes d → addCandEdgesOrig near nodes d = some es →
        ∀ u v, ((u, v) ∈ es ↔
          ∃ tu tv, (u, tu) ∈ nodes ∧ (v, tv) ∈ nodes ∧ tv = tu + 1 ∧ near u v = true) := by
  intro hall
  have h := hall (fun _ _ => true) [(0, 0), (1, 1), (2, 3), (3, 4)]
    [(0, [0]), (1, [1]), (3, [2]), (4, [3])] [(0, 1), (1, 3)] (by decide) (by decide) 2 3
  have : (2, 3) ∈ [((0 : Nat), (1 : Nat)), (1, 3)] :=
    h.mpr ⟨3, 4, by decide, by decide, rfl, rfl⟩
  exact absurd this (by decide)

/-- the unrepaired loop also fails on an input without detections (`frames[0]` → IndexError) -/
example : addCandEdgesOrig (fun _ _ => true) [] [] = none := by decide

#print axioms C18_counterexample_unfixed
#print axioms C18_counterexample_unfixed_spec
