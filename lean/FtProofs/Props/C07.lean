/-
  C07 — labels and nodes stay in one-to-one correspondence.

  "When tracks carry a segmentation, after any sequence of user actions, undos and redos starting
   from a consistent state every node's id labels at least one pixel and only in the node's own
   time frame, every non-zero label belongs to a node, and the pixel query for a node returns
   exactly its pixels. A paint or erase edit leaves the array exactly as painted, and undoing it
   restores the previous array bit for bit."

  Proved here
  * `C07_array_write`, `C07_pixels`, `C07_getPixels` — the array primitive and the pixel query.
  * `C07_as_painted` (FULL, session level) — an accepted paint/erase leaves exactly the array the
    caller painted, for every stroke and every state (no precondition at all).
  * `C07_step_paint_partial` — an accepted paint leaves the painted array and a node table whose
    (id, time) skeleton is the explicit function `paintSkel` of the old skeleton, the painted array
    and the stroke: nodes whose label vanished from the stroke's frame are removed, a new node
    `(v, frame of the stroke)` is appended iff `v` was not a node. (What is missing for the full
    `C07_step` for paint is the purely combinatorial step "SegOK s ∧ PaintPre ⟹ the pair
    (painted array, paintSkel) satisfies SegOK"; see the comment at the theorem.)
  * `C07_step_addNode`, `C07_step_delNode`, `C07_step_noarray` — `SegOK` is preserved by the
    primitives AddNode / DeleteNode under their documented preconditions and by everything that
    does not write the array.
  * `C07_undo_bits_updSeg`, `C07_undo_bits_delNode` — inverting a recorded array-writing primitive
    restores the array bit for bit, with the exact precondition in each case.

  Not proved (statements):
  * `C07_step_updSeg`: `SegOK` through the primitive UpdateNodeSeg (grow: pixels in the node's
    frame carrying 0 or the label; shrink: pixels carry the label and one pixel of the node
    remains).
  * `C07_undo_bits_addNode`: inverting a recorded `addNode r (some px)` (= DeleteNode r.id with the
    pixels recomputed from the array) restores the array iff `px` was background, lies in frame
    `r.time`, and no cell of that frame carried `r.id` before.
  * `C07_undo_bits` for the whole record list of a paint: needs, besides the two lemmas above, that
    the inverses of the graph-only records (updTid, delEdge, addEdge) of the nested delete-node /
    add-node succeed (C01 territory); conditional on `invGroup` returning `.ok`, the array part
    follows from `C07_undo_bits_*` applied right-to-left because the groups of a stroke are
    disjoint and every group pixel is in the stroke.
-/
import FtProofs.SegLemmas
open Ft Ft.St List

namespace Ft.St

/-- the (id, time) skeleton after an accepted paint of value `v` over `groups`, computed from the
    PAINTED array `gP` and the old skeleton `k` -/
def paintSkel (gP : Seg) (k : List (Node × Nat)) (v : Nat) (groups : List Grp) : List (Node × Nat) :=
  let ak := groups.foldl segAbsStep (gP, k)
  if v ≠ 0 ∧ groups ≠ [] then
    if v ∈ ak.2.map (·.1) then ak.2
    else ak.2 ++ [(v, ((groups.flatMap (·.1)).head?.getD 0) / gP.frame)]
  else ak.2

/-- example: 2 frames of 4 pixels; node 1 (frame 0, pixels 0,1), node 2 (frame 1, pixels 4,5,6),
    node 3 (frame 0, pixel 3) -/
def exC07 : St :=
  { nodes := [{ id := 1, time := 0, tid := 1, lin := some 1 },
              { id := 2, time := 1, tid := 1, lin := some 1 },
              { id := 3, time := 0, tid := 2, lin := some 2 }],
    edges := [{ e := (1, 2) }],
    seg := some { frame := 4, data := [1, 1, 0, 3,  2, 2, 2, 0] },
    t2n := [(1, [1, 2]), (2, [3])], l2n := [(1, [1, 2]), (2, [3])], maxTid := 2, maxLin := 2, counter := 4 }

def exC07g : Seg := { frame := 4, data := [1, 1, 0, 3,  2, 2, 2, 0] }

theorem exC07_segOK : SegOK exC07 := by
  intro g hg
  have : g = exC07g := by cases hg; rfl
  subst this
  decide

end Ft.St

/-- `segmentation[pixels] = value`: every listed in-range cell reads `v`, every other cell is
    unchanged, shape unchanged. -/
theorem C07_array_write (g : Seg) (ps : List Pix) (v : Nat) :
    (∀ i, (g.setPixels ps v).data.getD i 0 = if i ∈ ps ∧ i < g.data.length then v else g.data.getD i 0) ∧
    (g.setPixels ps v).data.length = g.data.length ∧ (g.setPixels ps v).frame = g.frame :=
  ⟨fun i => Seg.setPixels_getD g ps v i, Seg.setPixels_length g ps v, rfl⟩

example : (exC07g.setPixels [2, 5, 99] 7).data = [1, 1, 7, 3, 2, 7, 2, 0] := by decide
#print axioms C07_array_write

/-- The pixel query: `pixelsOf t l` lists exactly the flat indices of frame `t` that carry `l`
    (for a non-zero label these are in range). -/
theorem C07_pixels (g : Seg) (t l p : Nat) :
    (p ∈ g.pixelsOf t l ↔ 0 < g.frame ∧ p / g.frame = t ∧ g.data.getD p 0 = l) ∧
    (l ≠ 0 → p ∈ g.pixelsOf t l → p < g.data.length) := by
  refine ⟨Seg.mem_pixelsOf, fun hl hp => ?_⟩
  have := (Seg.mem_pixelsOf.mp hp).2.2
  exact getD_ne_zero_lt_sg (by rw [this]; exact hl)

example : exC07g.pixelsOf 1 2 = [4, 5, 6] ∧ exC07g.pixelsOf 0 2 = [] := by decide
#print axioms C07_pixels

/-- `tracks.get_pixels(node)` returns exactly the pixels of the node's own frame that carry its id. -/
theorem C07_getPixels (s : St) (n : Node) (g : Seg) (t : Nat) (hg : s.seg = some g)
    (ht : s.timeOf n = some t) :
    ∃ ps, s.getPixels n = some ps ∧
      ∀ p, p ∈ ps ↔ 0 < g.frame ∧ p / g.frame = t ∧ g.data.getD p 0 = n := by
  refine ⟨g.pixelsOf t n, ?_, fun p => Seg.mem_pixelsOf⟩
  simp [getPixels, hg, ht]

example : exC07.getPixels 2 = some [4, 5, 6] := by decide
#print axioms C07_getPixels

/-- FULL. An accepted paint or erase leaves the array exactly as the caller painted it: for every
    state with an array, every value, every stroke decomposition, every outcome of the nested
    delete-node / add-node sub-actions. -/
theorem C07_as_painted (s s' : St) (v : Nat) (groups : List (List Pix × Nat)) (tid : Nat) (force : Bool)
    (g : Seg) (hg : s.seg = some g) (h : s.step (.paint v groups tid force) = (s', .ok)) :
    s'.seg = some (g.setPixels (groups.flatMap (·.1)) v) := by
  obtain ⟨recs, hok, hseg, -, -⟩ := paint_ok_sg hg h
  rw [hseg]
  generalize hP : g.setPixels (groups.flatMap (·.1)) v = P at hok ⊢
  have hPget : ∀ i, P.data.getD i 0
      = if i ∈ groups.flatMap (·.1) ∧ i < g.data.length then v else g.data.getD i 0 := by
    intro i; rw [← hP]; exact Seg.setPixels_getD ..
  have hPlen : P.data.length = g.data.length := by rw [← hP]; exact Seg.setPixels_length ..
  obtain ⟨k1, k2⟩ := uUpdateSeg_ok_sg (s := s.withSeg P) (g := P) rfl hok
  obtain ⟨f1, f2⟩ := foldl_segAbsStep_frame groups (P, (s.withSeg P).skel)
  have hz := foldl_segAbsStep_getD groups (P, (s.withSeg P).skel)
  generalize groups.foldl segAbsStep (P, (s.withSeg P).skel) = ak at k1 k2 f1 f2 hz
  simp only at f1 f2 hz
  have hsub : ∀ i, (∃ grp ∈ groups, grp.2 ≠ 0 ∧ i ∈ grp.1) → i ∈ groups.flatMap (·.1) := by
    rintro i ⟨grp, hm, -, hi⟩
    exact List.mem_flatMap.mpr ⟨grp, hm, hi⟩
  by_cases hc : v ≠ 0 ∧ groups ≠ []
  · obtain ⟨p0, -, hs, -⟩ := k1 hc
    rw [hs]
    congr 1
    apply Seg.ext_getD
    · exact f1
    · rw [Seg.setPixels_length]; exact f2
    · intro i _
      rw [Seg.setPixels_getD, hPget i, f2, hPlen]
      by_cases hin : i ∈ groups.flatMap (·.1) ∧ i < g.data.length
      · simp only [hin, and_self, if_true]
      · rw [if_neg hin, if_neg hin]
        rcases hz i with h1 | ⟨hex, hlt, -⟩
        · rw [h1, hPget i, if_neg hin]
        · exact absurd ⟨hsub i hex, hPlen ▸ hlt⟩ hin
  · obtain ⟨hs, -⟩ := k2 hc
    rw [hs]
    congr 1
    apply Seg.ext_getD f1 f2
    intro i _
    rcases hz i with h1 | ⟨hex, hlt, h0⟩
    · exact h1
    · rw [h0, hPget i, if_pos ⟨hsub i hex, hPlen ▸ hlt⟩]
      -- the stroke value is 0 here (an erase): `groups ≠ []` because a group contains `i`
      have hne : groups ≠ [] := by
        obtain ⟨grp, hm, -⟩ := hex
        intro e; rw [e] at hm; cases hm
      apply Classical.byContradiction
      intro hv
      exact hc ⟨fun e => hv (e ▸ rfl), hne⟩

/-- overwrite part of node 1 and all of node 3 with the new label 9 in frame 0 -/
example : ∃ s', exC07.step (.paint 9 [([1], 1), ([3], 3), ([2], 0)] 5 false) = (s', .ok) ∧
    s'.seg = some { frame := 4, data := [1, 9, 9, 9, 2, 2, 2, 0] } ∧ s'.ids = [1, 2, 9] :=
  ⟨_, rfl, by decide, by decide⟩
#print axioms C07_as_painted

/-- PARTIAL (towards `C07_step` for paint). An accepted paint leaves the painted array and exactly
    the node skeleton `paintSkel`: per group (in order) the node is removed iff its label no longer
    occurs in the stroke's frame of the current array, and `(v, frame of the stroke)` is appended
    iff `v ≠ 0`, the stroke is non-empty and `v` is not a node.

    Full statement (not proved):
      theorem C07_step (s s') : s.ids.Nodup → 0 ∉ s.ids → SegOK s → g.WF →
        PaintPre s g v groups →      -- DESIGN §3: one frame, in range, grouped by the true previous
                                     -- labels (`∀ (px,l) ∈ groups, ∀ p ∈ px, g[p] = l ∧ l ≠ v`,
                                     -- each label in one group), an existing `v` lives in that frame
        s.step (.paint v groups tid force) = (s', .ok) → SegOK s'
    Missing: the combinatorial lemma `SegOK (g, k) ∧ PaintPre → SegOK (painted g, paintSkel …)`
    about lists/arrays only (no model state); with it `C07_step` follows from this theorem and
    `C07_as_painted` by `segOK` depending only on array and skeleton. -/
theorem C07_step_paint_partial (s s' : St) (v : Nat) (groups : List (List Pix × Nat)) (tid : Nat)
    (force : Bool) (g : Seg) (hg : s.seg = some g)
    (h : s.step (.paint v groups tid force) = (s', .ok)) :
    s'.seg = some (g.setPixels (groups.flatMap (·.1)) v) ∧
    s'.skel = paintSkel (g.setPixels (groups.flatMap (·.1)) v) s.skel v groups := by
  refine ⟨C07_as_painted s s' v groups tid force g hg h, ?_⟩
  obtain ⟨recs, hok, -, hnodes, -⟩ := paint_ok_sg hg h
  have hsk : s'.skel = ((s.withSeg (g.setPixels (groups.flatMap (·.1)) v)).uUpdateSeg v groups tid force).1.1.skel := by
    simp only [St.skel, hnodes]
  rw [hsk]
  obtain ⟨k1, k2⟩ := uUpdateSeg_ok_sg (s := s.withSeg (g.setPixels (groups.flatMap (·.1)) v))
    (g := g.setPixels (groups.flatMap (·.1)) v) rfl hok
  unfold paintSkel
  simp only [withSeg_skel] at k1 k2
  by_cases hc : v ≠ 0 ∧ groups ≠ []
  · obtain ⟨p0, hp0, -, hk⟩ := k1 hc
    rw [if_pos hc]
    simp only [hp0, Option.getD_some]
    rcases hk with ⟨hin, hk⟩ | ⟨hin, hk⟩
    · rw [if_pos hin]; exact hk
    · rw [if_neg hin]; exact hk
  · rw [if_neg hc]; exact (k2 hc).2

example : ∃ s', exC07.step (.paint 9 [([1], 1), ([3], 3), ([2], 0)] 5 false) = (s', .ok) ∧
    paintSkel (exC07g.setPixels [1, 3, 2] 9) exC07.skel 9 [([1], 1), ([3], 3), ([2], 0)]
      = [(1, 0), (2, 1), (9, 0)] ∧ s'.skel = [(1, 0), (2, 1), (9, 0)] ∧ SegOK exC07 :=
  ⟨_, rfl, by decide, by decide, exC07_segOK⟩
#print axioms C07_step_paint_partial

/-- Undo of a recorded UpdateNodeSeg restores the array bit for bit — exactly when, before the
    action, the pixels all carried the opposite value (background for `added = true`, the node's
    label for `added = false`). The inverse may run in any later state with the same array. -/
theorem C07_undo_bits_updSeg (s s1 s1' s2 : St) (n : Node) (px : List Pix) (added : Bool)
    (rec rec' : PrimRec) (g : Seg) (hg : s.seg = some g)
    (hpre : ∀ p ∈ px, p < g.data.length → g.data.getD p 0 = if added then 0 else n)
    (h1 : s.pUpdSeg n px added = .ok (s1, rec)) (hsame : s1'.seg = s1.seg)
    (h2 : s1'.invPrim rec = .ok (s2, rec')) : s2.seg = s.seg := by
  obtain ⟨e1, -, -⟩ := pUpdSeg_seg_skel h1 hg
  obtain ⟨-, -, -, hrec, -⟩ := pUpdSeg_ok_sg h1
  subst hrec
  simp only [invPrim] at h2
  obtain ⟨e2, -, -⟩ := pUpdSeg_seg_skel h2 (hsame.trans e1)
  rw [e2, hg]
  congr 1
  cases added
  · simp only [Bool.not_false, if_true, Bool.false_eq_true, if_false] at hpre ⊢
    exact Seg.setPixels_restore hpre
  · simp only [Bool.not_true, Bool.false_eq_true, if_false, if_true] at hpre ⊢
    exact Seg.setPixels_restore hpre

example : ∃ s1 r s2 r', exC07.pUpdSeg 1 [2] true = .ok (s1, r) ∧ s1.invPrim r = .ok (s2, r') ∧
    s1.seg = some { frame := 4, data := [1, 1, 1, 3, 2, 2, 2, 0] } ∧ s2.seg = exC07.seg :=
  ⟨_, _, _, _, rfl, rfl, by decide, by decide⟩
#print axioms C07_undo_bits_updSeg

/-- Undo of a recorded DeleteNode (re-adding the node with the saved pixels) restores the array
    bit for bit — exactly when the zeroed pixels all carried the node's label, which is always the
    case when DeleteNode computed the pixels itself (`pixels = none`). -/
theorem C07_undo_bits_delNode (s s1 s1' s2 : St) (n : Node) (pixels : Option (List Pix))
    (rec rec' : PrimRec) (g : Seg) (hg : s.seg = some g)
    (hpre : ∀ px, pixels = some px → ∀ p ∈ px, p < g.data.length → g.data.getD p 0 = n)
    (h1 : s.pDelNode n pixels = .ok (s1, rec)) (hsame : s1'.seg = s1.seg)
    (h2 : s1'.invPrim rec = .ok (s2, rec')) : s2.seg = s.seg := by
  obtain ⟨r, hr, hrec, hs1⟩ := pDelNode_ok_sg h1
  have hid : r.id = n := findNode_id_sg hr
  subst hrec
  simp only [invPrim] at h2
  obtain ⟨-, -, hs2⟩ := pAddNode_ok_sg h2
  have hseg1 : s1.seg = (s.paintWith (s.delPixels n pixels) 0).seg := by
    rw [hs1]; exact (Fr.trackOnDelete _ _).seg
  have hseg2 : s2.seg = (s1'.paintWith (s.delPixels n pixels) n).seg := by
    rw [hs2]
    refine ((Fr.trackAdd _ _).seg.trans ((rpUpdate_seg _ _).trans ?_))
    show (St.addNodeRaw _ _).seg = _
    have hsid : (s.savedAttrs r).id = n := hid
    rw [hsid]
    unfold St.addNodeRaw; split <;> rfl
  rw [hseg2]
  -- the pixels actually zeroed all carried `n`
  have hcarry : ∀ px, s.delPixels n pixels = some px → ∀ p ∈ px, p < g.data.length → g.data.getD p 0 = n := by
    intro px hpx
    cases pixels with
    | some q => simp only [delPixels, Option.some.injEq] at hpx; subst hpx; exact hpre q rfl
    | none =>
      simp only [delPixels, getPixels, hg] at hpx
      split at hpx
      · simp only [Option.some.injEq] at hpx
        rename_i g' t hg' _
        cases hg'
        subst hpx
        intro p hp _
        exact (Seg.mem_pixelsOf.mp hp).2.2
      · cases hpx
  cases hdp : s.delPixels n pixels with
  | none =>
    have e1 : s1.seg = s.seg := by rw [hseg1, hdp]; rfl
    show (match (none : Option (List Pix)), s1'.seg with
      | some ps, some g => s1'.withSeg (g.setPixels ps n)
      | _, _ => s1').seg = _
    simp only
    rw [hsame, e1]
  | some px =>
    have e1 : s1.seg = some (g.setPixels px 0) := by
      rw [hseg1, hdp]; simp only [paintWith, hg]; rfl
    simp only [paintWith, hsame, e1]
    show some ((g.setPixels px 0).setPixels px n) = _
    rw [hg, Seg.setPixels_restore (hcarry px hdp)]

example : ∃ s1 r s2 r', exC07.pDelNode 3 none = .ok (s1, r) ∧ s1.invPrim r = .ok (s2, r') ∧
    s1.seg = some { frame := 4, data := [1, 1, 0, 0, 2, 2, 2, 0] } ∧ s2.seg = exC07.seg :=
  ⟨_, _, _, _, rfl, rfl, by decide, by decide⟩
#print axioms C07_undo_bits_delNode

/-- `SegOK` is preserved by the primitive AddNode of a new node with pixels: the pixels lie in the
    node's frame, at least one is in range, and they are background (or already carry the label). -/
theorem C07_step_addNode (s s' : St) (r : NodeRec) (px : List Pix) (rec : PrimRec) (g : Seg)
    (hg : s.seg = some g) (hpos : 0 < g.frame) (h0 : ∀ r' ∈ s.nodes, r'.id ≠ 0)
    (hnew : s.hasNode r.id = false)
    (hbg : ∀ p ∈ px, p < g.data.length → g.data.getD p 0 = 0 ∨ g.data.getD p 0 = r.id)
    (hfr : ∀ p ∈ px, p < g.data.length → p / g.frame = r.time)
    (hne : ∃ p ∈ px, p < g.data.length) (hs : SegOK s)
    (h : s.pAddNode r (some px) = .ok (s', rec)) : SegOK s' := by
  obtain ⟨e1, e2⟩ := pAddNode_seg_skel h hg hnew
  rw [segOK_iff_skel] at hs ⊢
  intro g' hg'
  rw [e1] at hg'; cases hg'
  rw [e2]
  exact segOKk_add (hs g hg) hpos (skel_ne_zero h0) hbg hfr hne (skel_ne_of_hasNode_false hnew)

example : ∃ s' r, exC07.pAddNode { id := 5, time := 1, tid := 3, lin := some 3 } (some [7]) = .ok (s', r) ∧
    s'.seg = some { frame := 4, data := [1, 1, 0, 3, 2, 2, 2, 5] } ∧ s'.ids = [1, 2, 3, 5] ∧
    exC07.hasNode 5 = false ∧ SegOK exC07 :=
  ⟨_, _, rfl, by decide, by decide, by decide, exC07_segOK⟩
#print axioms C07_step_addNode

/-- `SegOK` is preserved by the primitive DeleteNode when the zeroed pixels are exactly the cells
    that carry the node's label (they may already be background). -/
theorem C07_step_delNode (s s' : St) (n : Node) (pixels : Option (List Pix)) (px : List Pix)
    (rec : PrimRec) (g : Seg) (hg : s.seg = some g) (h0 : ∀ r' ∈ s.nodes, r'.id ≠ 0)
    (hdp : s.delPixels n pixels = some px)
    (hcover : ∀ i, i < g.data.length → g.data.getD i 0 = n → i ∈ px)
    (honly : ∀ p ∈ px, p < g.data.length → g.data.getD p 0 = n ∨ g.data.getD p 0 = 0)
    (hs : SegOK s) (h : s.pDelNode n pixels = .ok (s', rec)) : SegOK s' := by
  obtain ⟨e1, e2⟩ := pDelNode_seg_skel' h hg hdp
  rw [segOK_iff_skel] at hs ⊢
  intro g' hg'
  rw [e1] at hg'; cases hg'
  rw [e2]
  exact segOKk_del (hs g hg) (skel_ne_zero h0) hcover honly

example : ∃ s' r, exC07.pDelNode 3 none = .ok (s', r) ∧ exC07.delPixels 3 none = some [3] ∧
    s'.seg = some { frame := 4, data := [1, 1, 0, 0, 2, 2, 2, 0] } ∧ s'.ids = [1, 2] :=
  ⟨_, _, rfl, by decide, by decide, by decide⟩
#print axioms C07_step_delNode

/-- `SegOK` is preserved by every primitive that does not write the array (AddEdge, DeleteEdge,
    UpdateTrackIDs), by the whole of `uDeleteEdge`, and by the track-neighbour query. -/
theorem C07_step_noarray (s s' : St) (rec : PrimRec) (hs : SegOK s)
    (h : (∃ e attrs, s.pAddEdge e attrs = .ok (s', rec)) ∨ (∃ e, s.pDelEdge e = .ok (s', rec)) ∨
         (∃ start newT newL, s.pUpdTid start newT newL = .ok (s', rec)) ∨
         (∃ e, s' = (s.uDeleteEdge e).1) ∨ (∃ tid t, s' = (s.trackNeighbors tid t).1)) : SegOK s' := by
  rcases h with ⟨e, attrs, h⟩ | ⟨e, h⟩ | ⟨start, newT, newL, h⟩ | ⟨e, rfl⟩ | ⟨tid, t, rfl⟩
  · exact (FsPrim.pAddEdge e attrs s s' rec h).segOK hs
  · exact (FsPrim.pDelEdge (fun _ => e) s s' rec h).segOK hs
  · exact (Fr.pUpdTid h).toFs.segOK hs
  · exact (Fs.uDeleteEdge s e).segOK hs
  · exact (Fr.trackNeighbors s tid t).toFs.segOK hs

example : ∃ s' r, exC07.pDelEdge (1, 2) = .ok (s', r) ∧ s'.edges = [] ∧ SegOK exC07 :=
  ⟨_, _, rfl, by decide, exC07_segOK⟩
#print axioms C07_step_noarray
