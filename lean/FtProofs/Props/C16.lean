/-
  C16 — "Exporting to CSV or GEFF, saving, and calling any query leaves the graph, all
  attributes, the segmentation, the scale, the feature registry, the track lookups and the undo
  history of the tracks object unchanged."

  PLAINLY: in the model a read-only operation is a function `State → State × Output` that
  returns the state as the code leaves it.  Once the model returns its argument, the theorem
  "the state is unchanged" is near-trivial (one `rfl` per operation); the only operation with
  content is `get_track_neighbors`, which sorts the lookup list it reads IN PLACE (so the state
  it returns differs, and "unchanged" has to be read — as the property does — with lookups
  compared as sets: `State.same`).  The assurance for C16 therefore does NOT rest on this file.
  It rests on harness/fam_export.py: (i) a deep snapshot of the real object (graph + every
  attribute with its Python type, array bytes, scale incl. type and None-ness, registry, special
  keys, lookups, max ids, counter, history sizes, annotator flags) before vs after every
  read-only call, over scale ∈ {None, given} × storage styles × with/without array × full/subset;
  (ii) the comparison of every model output and post-state with the real call, which is what
  justifies that the model may return its argument.
  What the file does contribute: the statement that the model of the code as it stood BEFORE
  the repair (fix D5) violates the property — `C16_counterexample_unfixed` — and that the repair
  does not change what is written (`C16_repair_same_output`).
-/
import FtProofs.ExportLemmas
open Ft Ft.Export

/-- every modelled read-only operation leaves the state unchanged (lookups as sets) -/
theorem C16_readonly (one : Val) (op : ROp) (st : State) : State.same (runRO one op st).1 st := by
  cases op with
  | trackNeighbors tid t =>
    unfold runRO
    simp only
    cases h : alook tid st.t2n with
    | none => exact State.same_refl st
    | some cands =>
      cases cands with
      | nil => exact State.same_refl st
      | cons c cs =>
        exact ⟨rfl, lookupEquiv_aset st.tr tid (c :: cs) st.t2n h, rfl, rfl, rfl, rfl, rfl, rfl, rfl⟩
  | _ => exact State.same_refl st

/-- … and literally unchanged for every operation other than `get_track_neighbors` -/
theorem C16_readonly_eq (one : Val) (op : ROp) (st : State)
    (h : ∀ tid t, op ≠ .trackNeighbors tid t) : (runRO one op st).1 = st := by
  cases op with
  | trackNeighbors tid t => exact absurd rfl (h tid t)
  | _ => rfl

def exC16 : State :=
  { tr := { ndim := 3
            nodes := [⟨3, 2, 5, 1, [10, 11], []⟩, ⟨1, 0, 5, 1, [12, 13], [(4, [20])]⟩,
                      ⟨2, 1, 5, 1, [14, 15], []⟩, ⟨9, 1, 7, 2, [16, 17], []⟩]
            edges := [⟨1, 2, []⟩, ⟨2, 3, [(6, [21])]⟩]
            seg := some [[1, 0], [2, 9], [3, 3]]
            scale := none
            registry := [0, 1, 2, 3, 4, 6]
            perAxis := false }
    t2n := [(5, [3, 1, 2]), (7, [9])]
    l2n := [(1, [3, 1, 2]), (2, [9])]
    maxTid := 7, maxLin := 2, counter := 1, undo := 2, redo := 1, active := [1, 2] }

/-- non-vacuity: the query with content really reorders the lookup it reads, and answers -/
example : (runRO 99 (.trackNeighbors 5 1) exC16).1.t2n = [(5, [1, 2, 3]), (7, [9])] ∧
    (runRO 99 (.trackNeighbors 5 1) exC16).2 = .optPair (some 1) (some 3) ∧
    (runRO 99 (.exportGeff (some [2])) exC16).1 = exC16 ∧
    (runRO 99 (.getPixels 3) exC16).2 = .pixels (some [4, 5]) := by decide

#print axioms C16_readonly
#print axioms C16_readonly_eq

/-- The exporter as it stood before the repair (defect D5) writes `tracks.scale` when it is
    None: on a state with `scale = none` it returns a state WITH a scale — the property is false
    of that code.  Replayed on the real code by harness/fam_export.py (FIXED_CASES[0]). -/
theorem C16_counterexample_unfixed :
    exC16.tr.scale = none ∧
    (exportGeffOrig 99 none exC16).1.tr.scale = some [99, 99, 99] ∧
    ¬ State.same (exportGeffOrig 99 none exC16).1 exC16 := by
  refine ⟨rfl, rfl, ?_⟩
  intro h
  have := congrArg Tracks.scale h.1
  exact absurd this (by decide)

/-- the repair changes nothing in what is written: both variants produce the same store -/
theorem C16_repair_same_output (one : Val) (sel : Option (List Nat)) (st : State) :
    (exportGeffOrig one sel st).2 = (runRO one (.exportGeff sel) st).2 := by
  unfold exportGeffOrig runRO
  simp only
  cases hs : selOk st.tr sel
  · rfl
  · simp only [if_true]
    cases hsc : st.tr.scale with
    | none => exact congrArg Out.geff (encodeGeff_withScale one st.tr sel hsc)
    | some v => rfl

#print axioms C16_counterexample_unfixed
#print axioms C16_repair_same_output
