/-
  C12 (package R9C, part 2) — a stacked (list-mapped) NODE property with a component that is
  missing on some node: per-row stacking (`Import.combine`, what `importGeff` / `ImportExt` do) versus
  the real code's column-wise stacking with OR-ed `missing` masks (`FtModel/ImportStackOr.lean`).

  FULL statement asked for (`C12_stack_missing_or`):
      ∀ nm header nodes, geffNodesPerRow nm header nodes = geffNodesOr nm header nodes
  It is FALSE: `C12_counterexample_stack_missing_or`. On a node that lacks one component the
  per-row model keeps the surviving components as attributes of the node; the real code deletes
  the component columns for every node (checked on the real `import_from_geff`, see the final
  report of R9C: node 2 of the witness comes back with `time` and `pos` only).
  Proved instead: `C12_stack_missing_or_step` — one loop iteration on one node: the two agree on a
  node that has every component, and differ exactly by "components (and an older value of the key)
  removed" on a node that lacks one.
-/
import FtModel.ImportStackOr
import FtProofs.R8ILemmas
open Ft Ft.Import Ft.ImportExt Ft.R9C

namespace Ft.R9C
/-- time ← t, pos ← [y, x], vel ← [vy, vx] -/
def exNm : NameMap := [("time", .one "t"), ("pos", .many ["y", "x"]), ("vel", .many ["vy", "vx"])]
def exHeader : List String := ["t", "y", "x", "vy", "vx"]
/-- three nodes; `vx` is missing on node 2 -/
def exNodes : List (Int × Attrs) :=
  [(1, [("t", .sc "0"), ("y", .sc "1"), ("x", .sc "2"), ("vy", .sc "10"), ("vx", .sc "11")]),
   (2, [("t", .sc "1"), ("y", .sc "3"), ("x", .sc "4"), ("vy", .sc "20")]),
   (3, [("t", .sc "2"), ("y", .sc "5"), ("x", .sc "6"), ("vy", .sc "30"), ("vx", .sc "31")])]
end Ft.R9C

/-- **The per-row treatment is NOT the OR-of-masks treatment.** Store with node properties
    t, y, x, vy, vx; `vx` missing on node 2; map time ← t, pos ← [y, x], vel ← [vy, vx]. Column-wise
    (real code): node 2 has `time` and `pos` only. Per row (`Import.combine`): node 2 also keeps
    `vy`. The two agree on nodes 1 and 3. -/
theorem C12_counterexample_stack_missing_or :
    geffNodesPerRow exNm exHeader exNodes ≠ geffNodesOr exNm exHeader exNodes ∧
    geffNodesOr exNm exHeader exNodes =
      [(1, [("time", .sc "0"), ("pos", .vec ["1", "2"]), ("vel", .vec ["10", "11"])]),
       (2, [("time", .sc "1"), ("pos", .vec ["3", "4"])]),
       (3, [("time", .sc "2"), ("pos", .vec ["5", "6"]), ("vel", .vec ["30", "31"])])] ∧
    geffNodesPerRow exNm exHeader exNodes =
      [(1, [("time", .sc "0"), ("pos", .vec ["1", "2"]), ("vel", .vec ["10", "11"])]),
       (2, [("time", .sc "1"), ("vy", .sc "20"), ("pos", .vec ["3", "4"])]),
       (3, [("time", .sc "2"), ("pos", .vec ["5", "6"]), ("vel", .vec ["30", "31"])])] ∧
    -- it is what the existing import model returns
    (importGeff ["pos"] exNm exHeader exNodes [(1, 2), (2, 3)]).toOption.map (·.nodes) =
      some (geffNodesPerRow exNm exHeader exNodes) := by
  decide +kernel
#print axioms C12_counterexample_stack_missing_or

/-- **One loop iteration on one node** (entry `k ← cs`, `cs ≠ []`, all component columns exist):
    on a node that has every component both treatments give the stacked value and delete the
    components; on a node that lacks a component the per-row treatment leaves the row alone while
    the column-wise one removes the components other than `k` and any older value of `k`. -/
theorem C12_stack_missing_or_step (k : String) (cs : List String) (row : Attrs)
    (hne : cs.isEmpty = false) :
    ((cs.all (fun c => (alook c row).isSome)) = true →
        stackRowOr k cs row = combineStep row (k, .many cs)) ∧
    ((cs.all (fun c => (alook c row).isSome)) = false →
        combineStep row (k, .many cs) = row ∧ stackRowOr k cs row = delComps k cs (adelAll k row)) := by
  refine ⟨fun h => ?_, fun h => ⟨?_, ?_⟩⟩
  · simp only [stackRowOr, combineStep, hne, h, if_true]; rfl
  · simp only [combineStep, hne, h]; rfl
  · simp only [stackRowOr, h]; rfl
example : (["vy", "vx"].all (fun c => (alook c
      [("time", Val.sc "1"), ("y", .sc "3"), ("x", .sc "4"), ("vy", .sc "20")]).isSome)) = false ∧
    stackRowOr "vel" ["vy", "vx"] [("time", Val.sc "1"), ("y", .sc "3"), ("x", .sc "4"), ("vy", .sc "20")] =
      [("time", .sc "1"), ("y", .sc "3"), ("x", .sc "4")] ∧
    stackRowOr "vel" ["vy", "vx"] [("time", Val.sc "0"), ("vy", .sc "10"), ("vx", .sc "11")] =
      [("time", .sc "0"), ("vel", .vec ["10", "11"])] := by
  decide
#print axioms C12_stack_missing_or_step
