/-
  C06 — "At every reachable state the per-track and per-lineage node lookups list exactly the
  nodes that carry that id on the graph (no stale, missing or duplicated entries), and the
  'neighbours of a track around time t' and 'track present at time t' queries return what a scan
  of the graph returns.  A newly issued track id, lineage id or node id is never one that is
  already in use."

  Model: FtModel/{Annot,Prim,User}.lean.  Invariant: `Ft.St.BookOK` (SessionSpec.lean).
  Helper lemmas: FtProofs/BookLemmas.lean (namespace `Ft.PC`).

  Status
  * fresh ids, both queries: full strength.
  * `BookOK` preserved by the primitives `pAddNode` (new node), `pDelNode`, `pUpdTid` (= the
    relabel walk; needs `Forest` and, for the lineage lookups, the local lineage rule
    `LinAlong` = `LinOK.along`) and by `trackNeighbors`: full strength.
  * `BookOK` preserved by `uDeleteEdge`: full strength under `Forest ∧ BookOK ∧ LinAlong`.
    WITHOUT the lineage rule the statement of PROOF_TASKS (`Forest s → BookOK s → … → BookOK s'`)
    is FALSE of the model (and of the code: the walk removes the visited nodes from the lineage
    list of the *start* node only) — `C06_counterexample_book_needs_lineage_rule`.
  * other user actions: see the comment block at the end (statements, what is missing).
-/
import FtProofs.BookLemmas
open Ft Ft.St Ft.PC

/-! ## example states -/

/-- chain 1 → 2 → 3 plus a division 3 → {4, 5}; three tracks, one lineage; an isolated node 9 -/
def C06_ex : St :=
  { nodes := [⟨1, 0, 1, some 1, []⟩, ⟨2, 1, 1, some 1, []⟩, ⟨3, 2, 1, some 1, []⟩,
              ⟨4, 3, 2, some 1, []⟩, ⟨5, 4, 3, some 1, []⟩, ⟨9, 1, 7, some 4, []⟩],
    edges := [⟨(1, 2), []⟩, ⟨(2, 3), []⟩, ⟨(3, 4), []⟩, ⟨(3, 5), []⟩],
    t2n := [(1, [3, 1, 2]), (2, [4]), (3, [5]), (7, [9])],
    l2n := [(1, [1, 2, 3, 4, 5]), (4, [9])],
    maxTid := 7, maxLin := 4, counter := 3 }

theorem ex06_book : BookOK C06_ex := bookOK_of_check (by decide)
theorem ex06_forest : Forest C06_ex := forest_of_check (by decide)
theorem ex06_along : LinAlong C06_ex := by unfold LinAlong; decide

/-! ## fresh ids -/

/-- the next track id is carried by no node and has no entry with nodes in the lookup -/
theorem C06_fresh_tid (s : St) (h : BookOK s) :
    (∀ n, s.tidOf n ≠ some s.nextTid) ∧ (∀ n, ¬ ∃ l, alook s.nextTid s.t2n = some l ∧ n ∈ l) := by
  have h1 : ∀ n, s.tidOf n ≠ some s.nextTid := by
    intro n hn
    have := h.t_max n _ hn
    unfold St.nextTid at this; omega
  exact ⟨h1, fun n hb => h1 n ((h.t_iff _ n).1 hb).2⟩

example : BookOK C06_ex ∧ C06_ex.nextTid = 8 := ⟨ex06_book, rfl⟩
#print axioms C06_fresh_tid

/-- the next lineage id is carried by no node (lineage feature active) -/
theorem C06_fresh_lin (s : St) (h : BookOK s) (hon : s.linOn = true) :
    (∀ n, s.linOf n ≠ some s.nextLin) ∧ (∀ n, ¬ ∃ l, alook s.nextLin s.l2n = some l ∧ n ∈ l) := by
  have h1 : ∀ n, s.linOf n ≠ some s.nextLin := by
    intro n hn
    have := h.l_max hon n _ hn
    unfold St.nextLin at this; omega
  exact ⟨h1, fun n hb => h1 n ((h.l_iff hon _ n).1 hb).2⟩

example : BookOK C06_ex ∧ C06_ex.linOn = true ∧ C06_ex.nextLin = 5 := ⟨ex06_book, rfl, rfl⟩
#print axioms C06_fresh_lin

/-- `_get_new_node_ids(k)`: `k` ids, duplicate-free, none of them a node, all below the new
    counter; the counter only grows (by at least `k`); nothing else changes.  No hypothesis. -/
theorem C06_fresh_nodes (s : St) (k : Nat) :
    (s.newNodeIds k).2.Nodup ∧ (s.newNodeIds k).2.length = k ∧
    (∀ x ∈ (s.newNodeIds k).2, x ∉ s.ids ∧ x < (s.newNodeIds k).1.counter) ∧
    s.counter + k ≤ (s.newNodeIds k).1.counter ∧
    (s.newNodeIds k).1 = { s with counter := (s.newNodeIds k).1.counter } :=
  newNodeIds_spec s k

-- counter 3: candidates 3,4,5 are nodes → replaced by 6,7,8 (the loop is exercised)
example : (C06_ex.newNodeIds 3).2 = [6, 7, 8] ∧ (C06_ex.newNodeIds 3).1.counter = 9 := by decide
#print axioms C06_fresh_nodes

/-! ## queries -/

/-- `has_track_id_at_time` = a scan of the graph -/
theorem C06_has_track (s : St) (h : BookOK s) (tid time : Nat) :
    s.hasTrackAt tid time = true ↔
      ∃ n, n ∈ s.ids ∧ s.tidOf n = some tid ∧ s.timeOf n = some time :=
  hasTrackAt_spec s ((bookOK_iff s).1 h).1 tid time

example : C06_ex.hasTrackAt 1 2 = true ∧ C06_ex.hasTrackAt 1 3 = false ∧ C06_ex.hasTrackAt 5 0 = false := by
  decide
#print axioms C06_has_track

/-- `get_track_neighbors(tid, t)` = (a node of the track with maximal time `< t`, a node of the
    track with minimal time `> t`), `none` exactly when there is no such node; the call only
    re-sorts one lookup entry (`BookOK` and the lookups as sets are unchanged).
    Times of nodes: `timeOf x = some (tm s x)` for every node (`timeOf_eq_tm`). -/
theorem C06_neighbors (s : St) (h : BookOK s) (tid time : Nat) :
    (∀ x, (s.trackNeighbors tid time).2.1 = some x →
        (x ∈ s.ids ∧ s.tidOf x = some tid) ∧ tm s x < time ∧
        ∀ y, y ∈ s.ids → s.tidOf y = some tid → tm s y < time → tm s y ≤ tm s x) ∧
    ((s.trackNeighbors tid time).2.1 = none →
        ∀ y, y ∈ s.ids → s.tidOf y = some tid → ¬ tm s y < time) ∧
    (∀ x, (s.trackNeighbors tid time).2.2 = some x →
        (x ∈ s.ids ∧ s.tidOf x = some tid) ∧ time < tm s x ∧
        ∀ y, y ∈ s.ids → s.tidOf y = some tid → time < tm s y → tm s x ≤ tm s y) ∧
    ((s.trackNeighbors tid time).2.2 = none →
        ∀ y, y ∈ s.ids → s.tidOf y = some tid → ¬ time < tm s y) ∧
    BookOK (s.trackNeighbors tid time).1 ∧
    (s.trackNeighbors tid time).1 = { s with t2n := (s.trackNeighbors tid time).1.t2n } ∧
    (∀ id n, (∃ l, alook id (s.trackNeighbors tid time).1.t2n = some l ∧ n ∈ l) ↔
             (∃ l, alook id s.t2n = some l ∧ n ∈ l)) := by
  obtain ⟨hT, hL⟩ := (bookOK_iff s).1 h
  obtain ⟨a, b, c, d⟩ := trackNeighbors_spec s hT tid time
  obtain ⟨e1, e2, e3⟩ := trackNeighbors_state s tid time
  refine ⟨a, b, c, d, ?_, e1, e3⟩
  rw [bookOK_iff]
  constructor
  · refine ⟨e2 hT.wf, ?_, ?_⟩
    · intro id n
      rw [e3 id n, e1]
      exact hT.iff id n
    · intro n t; rw [e1]; exact hT.max n t
  · rw [e1]; exact ⟨hL.wf, hL.iff, hL.max⟩

-- the lookup entry is unsorted ([3,1,2]); around time 1 on track 1: pred 1, succ 3
example : (C06_ex.trackNeighbors 1 1).2 = (some 1, some 3) ∧ (C06_ex.trackNeighbors 1 0).2 = (none, some 2)
    ∧ (C06_ex.trackNeighbors 1 9).2 = (some 3, none) ∧ (C06_ex.trackNeighbors 5 1).2 = (none, none) := by
  decide
#print axioms C06_neighbors

/-! ## the lookups stay exact: primitives -/

/-- `AddNode` of a node that is not yet in the graph (what every caller guarantees:
    `UserAddNode` refuses existing ids; the inverse of `DeleteNode` re-adds a deleted node) -/
theorem C06_book_pAddNode (s s' : St) (r : NodeRec) (px : Option (List Pix)) (rec : PrimRec)
    (h : BookOK s) (hnew : r.id ∉ s.ids) (hok : s.pAddNode r px = .ok (s', rec)) : BookOK s' := by
  obtain ⟨hT, hL⟩ := (bookOK_iff s).1 h
  exact (bookOK_iff s').2 (pAddNode_book hT hL hnew hok)

example : BookOK C06_ex ∧ (8 : Node) ∉ C06_ex.ids ∧
    ∃ s' rec, C06_ex.pAddNode ⟨8, 5, 3, some 1, []⟩ none = .ok (s', rec) ∧
      alook 3 s'.t2n = some [5, 8] :=
  ⟨ex06_book, by decide, _, _, rfl, by decide⟩
#print axioms C06_book_pAddNode

/-- `DeleteNode` (the ids are read from the saved attributes = the node's own ids) -/
theorem C06_book_pDelNode (s s' : St) (n : Node) (px : Option (List Pix)) (rec : PrimRec)
    (h : BookOK s) (hok : s.pDelNode n px = .ok (s', rec)) : BookOK s' := by
  obtain ⟨hT, hL⟩ := (bookOK_iff s).1 h
  exact (bookOK_iff s').2 (pDelNode_book hT hL hok)

example : BookOK C06_ex ∧ ∃ s' rec, C06_ex.pDelNode 9 none = .ok (s', rec) ∧ alook 7 s'.t2n = none :=
  ⟨ex06_book, _, _, rfl, by decide⟩
#print axioms C06_book_pDelNode

/-- `UpdateTrackIDs` (the relabel walk `_handle_update_track_ids`) on a forest: the nodes moved
    between the lookup lists are exactly the nodes whose ids the walk rewrites; each is visited
    once.  `LinAlong` (every edge keeps the lineage id, `LinOK.along`) is needed for the lineage
    lookups only: the walk removes the visited nodes from the list of the start node's lineage. -/
theorem C06_book_pUpdTid (s s' : St) (start : Node) (newT : Nat) (newL : Option Nat) (rec : PrimRec)
    (hF : Forest s) (h : BookOK s) (hA : LinAlong s)
    (hok : s.pUpdTid start newT newL = .ok (s', rec)) : BookOK s' ∧ Forest s' := by
  obtain ⟨hT, hL⟩ := (bookOK_iff s).1 h
  obtain ⟨h1, h2, h3, _⟩ := pUpdTid_book hF hT hL hA hok
  exact ⟨(bookOK_iff s').2 ⟨h1, h2⟩, h3⟩

/-- the track part needs no lineage hypothesis (any old id, any start node of the forest) -/
theorem C06_book_walk_tracks (s : St) (start : Node) (oldT newT : Nat) (oldL newL : Option Nat)
    (hF : Forest s) (h : BookOK s) (hs : start ∈ s.ids) :
    let s' := s.walk start oldT newT oldL newL
    (s'.t2n.map (·.1)).Nodup ∧ (∀ id l, alook id s'.t2n = some l → l.Nodup) ∧
    (∀ id n, (∃ l, alook id s'.t2n = some l ∧ n ∈ l) ↔ (n ∈ s'.ids ∧ s'.tidOf n = some id)) ∧
    (∀ n t, s'.tidOf n = some t → t ≤ s'.maxTid) := by
  have := walk_TOK hF ((bookOK_iff s).1 h).1 hs oldT newT oldL newL
  exact ⟨this.wf.keys, this.wf.nodup, this.iff, this.max⟩

-- relabel the subtree of node 2 (track 1 → 8, lineage 1 → 5): 2,3 change track, 2..5 lineage
example : Forest C06_ex ∧ BookOK C06_ex ∧ LinAlong C06_ex ∧
    ∃ s' rec, C06_ex.pUpdTid 2 8 (some 5) = .ok (s', rec) ∧
      s'.t2n = [(1, [1]), (2, [4]), (3, [5]), (7, [9]), (8, [2, 3])] ∧
      s'.l2n = [(1, [1]), (4, [9]), (5, [2, 3, 4, 5])] :=
  ⟨ex06_forest, ex06_book, ex06_along, _, _, rfl, by decide, by decide⟩
#print axioms C06_book_pUpdTid
#print axioms C06_book_walk_tracks

/-! ## the lookups stay exact: user actions -/

/-- `UserDeleteEdge`, accepted -/
theorem C06_book_uDeleteEdge (s : St) (e : Edge) (recs : List PrimRec)
    (hF : Forest s) (h : BookOK s) (hA : LinAlong s) (hok : (s.uDeleteEdge e).2 = .ok recs) :
    BookOK (s.uDeleteEdge e).1 ∧ Forest (s.uDeleteEdge e).1 := by
  obtain ⟨hT, hL⟩ := (bookOK_iff s).1 h
  obtain ⟨h1, h2, h3⟩ := uDeleteEdge_book e ⟨hF, hT, hL, hA⟩ hok
  exact ⟨(bookOK_iff _).2 ⟨h1, h2⟩, h3⟩

-- delete the division edge (3,4): sibling 5 joins track 1, subtree of 4 gets lineage 5
example : Forest C06_ex ∧ BookOK C06_ex ∧ LinAlong C06_ex ∧
    ∃ recs, (C06_ex.uDeleteEdge (3, 4)).2 = .ok recs ∧
      (C06_ex.uDeleteEdge (3, 4)).1.t2n = [(1, [3, 1, 2, 5]), (7, [9]), (2, [4])] ∧
      (C06_ex.uDeleteEdge (3, 4)).1.l2n = [(1, [1, 2, 3, 5]), (4, [9]), (5, [4])] :=
  ⟨ex06_forest, ex06_book, ex06_along, _, rfl, by decide, by decide⟩
#print axioms C06_book_uDeleteEdge

/-- chain 1 → 2 → 3 whose last node carries another lineage id (the local lineage rule fails
    on the edge (2,3)); the lookups are exact and the graph is a forest -/
def C06_cex : St :=
  { nodes := [⟨1, 0, 1, some 1, []⟩, ⟨2, 1, 1, some 1, []⟩, ⟨3, 2, 1, some 2, []⟩],
    edges := [⟨(1, 2), []⟩, ⟨(2, 3), []⟩],
    t2n := [(1, [1, 2, 3])], l2n := [(1, [1, 2]), (2, [3])], maxTid := 1, maxLin := 2 }

/-- `Forest s → BookOK s → uDeleteEdge accepted → BookOK s'` is FALSE without the lineage rule:
    the walk relabels node 3 (lineage 2 → 3) but removes it from the list of lineage 1 (the
    start node's), so it stays listed under lineage 2. -/
theorem C06_counterexample_book_needs_lineage_rule :
    Forest C06_cex ∧ BookOK C06_cex ∧ (∃ recs, (C06_cex.uDeleteEdge (1, 2)).2 = .ok recs) ∧
    ¬ BookOK (C06_cex.uDeleteEdge (1, 2)).1 := by
  refine ⟨forest_of_check (by decide), bookOK_of_check (by decide), ⟨_, rfl⟩, ?_⟩
  intro h
  have := (h.l_iff (by decide) 2 3).1 ⟨[3], by decide, by decide⟩
  exact absurd this.2 (by decide)
#print axioms C06_counterexample_book_needs_lineage_rule

/-- the primitives `AddEdge`, `DeleteEdge`, `UpdateNodeSeg`, `UpdateNodeAttrs` touch neither ids
    nor lookups -/
theorem C06_book_prims_other (s s' : St) (rec : PrimRec) (h : BookOK s)
    (hok : (∃ e attrs, s.pAddEdge e attrs = .ok (s', rec)) ∨ (∃ e, s.pDelEdge e = .ok (s', rec)) ∨
      (∃ n px added, s.pUpdSeg n px added = .ok (s', rec)) ∨
      (∃ n attrs, s.pUpdAttrs n attrs = .ok (s', rec))) : BookOK s' := by
  obtain ⟨hT, hL⟩ := (bookOK_iff s).1 h
  have hbv : BV s s' := by
    rcases hok with ⟨e, a, h1⟩ | ⟨e, h1⟩ | ⟨n, px, ad, h1⟩ | ⟨n, a, h1⟩
    · exact pAddEdge_BV h1
    · exact pDelEdge_BV h1
    · exact pUpdSeg_BV h1
    · exact pUpdAttrs_BV h1
  exact (bookOK_iff s').2 ⟨hbv.TOK hT, hbv.LOK hL⟩

example : BookOK C06_ex ∧ ∃ s' rec, C06_ex.pAddEdge (9, 5) [] = .ok (s', rec) := ⟨ex06_book, _, _, rfl⟩
#print axioms C06_book_prims_other

/-- `UserUpdateNodeAttrs`, accepted -/
theorem C06_book_uUpdateAttrs (s : St) (n : Node) (attrs : List (Key × Val)) (recs : List PrimRec)
    (h : BookOK s) (hok : (s.uUpdateAttrs n attrs).2 = .ok recs) : BookOK (s.uUpdateAttrs n attrs).1 := by
  obtain ⟨hT, hL⟩ := (bookOK_iff s).1 h
  exact (bookOK_iff _).2 (uUpdateAttrs_book n attrs hT hL hok)

example : BookOK C06_ex ∧ ∃ recs, (C06_ex.uUpdateAttrs 2 [(11, Val.tok 5)]).2 = .ok recs :=
  ⟨ex06_book, _, rfl⟩
#print axioms C06_book_uUpdateAttrs

/- FULL statement (not proved):
   theorem C06_book_uAddEdge (force : Bool) : Forest s → BookOK s → LinOK s →
       (s.uAddEdge e force).2 = .ok recs → BookOK (s.uAddEdge e force).1
   Proved below: the case `force = false` (then an accepted call never removes an edge first).
   Missing for `force = true`: after the nested `uDeleteEdge` the second walk needs `LinAlong`
   of the intermediate state, i.e. that a lineage walk started at a parentless node rewrites the
   WHOLE subtree (completeness of the fuel-bounded BFS — package PF's `C05_walk_subtree`). -/
theorem C06_book_uAddEdge_partial (s : St) (e : Edge) (recs : List PrimRec)
    (hF : Forest s) (h : BookOK s) (hA : LinAlong s) (hok : (s.uAddEdge e false).2 = .ok recs) :
    BookOK (s.uAddEdge e false).1 := by
  obtain ⟨hT, hL⟩ := (bookOK_iff s).1 h
  exact (bookOK_iff _).2 (uAddEdge_noforce_book e ⟨hF, hT, hL, hA⟩ hok)

-- connect the isolated node 9 (time 1) below... no: 9 → 5 is refused (5 has a parent); 1 → 9 is
-- accepted: node 1 becomes a division, its child 2 gets a new track, 9 joins lineage 1
example : Forest C06_ex ∧ BookOK C06_ex ∧ LinAlong C06_ex ∧
    ∃ recs, (C06_ex.uAddEdge (1, 9) false).2 = .ok recs ∧
      (C06_ex.uAddEdge (1, 9) false).1.l2n = [(1, [1, 2, 3, 4, 5, 9])] :=
  ⟨ex06_forest, ex06_book, ex06_along, _, rfl, by decide⟩
#print axioms C06_book_uAddEdge_partial

/-
  NOT PROVED — full statements and what is missing (all are compositions of the lemmas above
  through `thenPrim` / `thenUser`; `Inv s := Forest s ∧ TOK s ∧ LOK s ∧ LinAlong s` of
  BookLemmas.lean is the joint invariant that has to be carried from sub-action to sub-action):

  theorem C06_book_uAddEdge  : Forest s → BookOK s → LinOK s → (s.uAddEdge e true).2 = .ok recs →
      BookOK (s.uAddEdge e true).1                                  -- force = false: proved above
  theorem C06_book_uSwap     : Forest s → BookOK s → LinOK s → (s.uSwap a b).2 = .ok recs →
      BookOK (s.uSwap a b).1
  theorem C06_book_uDeleteNode : Forest s → TidOK s → LinOK s → BookOK s →
      (s.uDeleteNode n px).2 = .ok recs → BookOK (s.uDeleteNode n px).1
  theorem C06_book_uAddNode  : Forest s → TidOK s → LinOK s → BookOK s →
      (s.uAddNode a).2 = .ok recs → BookOK (s.uAddNode a).1
  theorem C06_book_uUpdateSeg : (same hypotheses) → ((s.uUpdateSeg v groups tid force).1).2 = .ok recs →
      BookOK ((s.uUpdateSeg v groups tid force).1).1
  theorem C06_book_assign    : BookOK-track part of `s.assignTracklets`, lineage part of
      `s.assignLineages` (the `t_iff` / `l_iff` clauses established from scratch)

  Missing pieces:
  (1) `LinAlong` AFTER a lineage-writing walk (needed by the next walk of the same composite):
      a walk started at a node without parent rewrites the whole subtree.  `BInv.closed` in
      BookLemmas.lean is the closure half; the other half is that the fuel `|nodes| + 1` suffices
      (levels are non-empty and pairwise disjoint: `BInv.nodup` + `List.Nodup.length_le_of_subset`).
      This is `C05_walk_subtree` of package PF.
  (2) `Forest` after the `pAddEdge` inside `uAddEdge` / `uDeleteNode` / `uAddNode`
      (package PB, `C03_step_*`); for `uDeleteNode`/`uAddNode` the reconnecting edge
      `(pred, succ)` comes from the *track lookup*, so `Forest` there needs `TidOK ∧ BookOK`
      (C06_neighbors gives pred/succ as nodes of the track; TidOK makes them the graph
      neighbours).
  (3) `uAddNode` without forced removals is already a composition of proved steps only
      (`C06_neighbors` state part, `C06_book_prims_other` for `pDelEdge`/`pAddEdge`,
      `C06_book_pAddNode` with `a.node ∉ ids`, ids being preserved by all earlier steps); the
      case analysis over its eight branches was not written for lack of time.
  As the counterexample shows, none of the user-action statements holds with `Forest ∧ BookOK`
  alone: the lineage rule (`LinOK.along`) is a genuine hypothesis.
-/
