/-
  C01 — every edit is exactly invertible (primitive level + the compositional step).

  "Applying any edit - a primitive action or a composite user action - and then inverting it
   restores the observable tracks state exactly: the same nodes and edges, the same value of
   every registered node and edge feature ... and the same segmentation array. Inverting the
   inverse reproduces the post-edit state exactly."

  Proved here
  * `C01_prim_addEdge`      AddEdge of a new edge: inverse restores the *identical* state;
                            inverting the inverse reproduces the post state identically.
  * `C01_prim_addEdge_law`  the same, robust against `Equiv` (usable inside groups).
  * `C01_prim_delEdge`      DeleteEdge: inverse restores the state up to `Equiv` (the edge moves
                            to the end of the insertion order), inverting again reproduces the
                            post-delete state identically.  Needs: distinct edge keys, end points
                            present, every attribute on the edge registered and non-None (only
                            those are saved — this is where defect D10-like registry gaps bite),
                            active IoU current (it is recomputed, not saved).
  * `C01_group`             the compositional step: if every recorded primitive satisfies its
                            inverse law at the state where it was applied, `ActionGroup.inverse`
                            (`invGroup`) succeeds and restores the start state up to `Equiv`,
                            returning one inverse record per primitive.  This lifts primitive
                            laws to all seven user actions.

  Not proved (full statements, for the record)
  * C01_prim_updAttrs : ids distinct → every key of `attrs` already present on the node →
      pUpdAttrs s n attrs = .ok (s₁, r) → ∃ r', s₁.invPrim r = .ok (s, r') ∧ ∃ r'', s.invPrim r' = .ok (s₁, r'').
      (For a key that is *absent* the inverse writes `Val.none` instead of removing the key:
       the states agree under every reader — `otherOf` — but not under the structural `Equiv`
       of SessionSpec; see `C01_note_updAttrs_fresh_key`.)
  * C01_prim_updSeg : SegOK-style stroke precondition (added: pixels were background; removed:
      pixels carried `n`) → MeasOK s → rpActive.Nodup → pUpdSeg s n px b = .ok (s₁, r) →
      ∃ s₂ r', s₁.invPrim r = .ok (s₂, r') ∧ Equiv s₂ s ∧ ∃ s₃ r'', s₂.invPrim r' = .ok (s₃, r'') ∧ Equiv s₃ s₁.
      (`setAll_setAll_restore` in InverseLemmas is the attribute-list half of this.)
  * C01_prim_addNode / C01_prim_delNode : node id fresh in graph, edges and lookups; every
      attribute registered and non-None, position keys registered; lineage feature on →
      pAddNode s r px = .ok (s₁, rec) → ∃ s₂ r', s₁.invPrim rec = .ok (s₂, r') ∧ Equiv s₂ s ∧ …; dually
      for DeleteNode of a node without incident edges.
  * C01_prim_updTid : Forest s → BookOK s → new id not found downstream →
      pUpdTid s start t l = .ok (s₁, r) → ∃ s₂ r', s₁.invPrim r = .ok (s₂, r') ∧ Equiv s₂ s.
-/
import FtProofs.InverseLemmas
open Ft Ft.St List

/-- AddEdge of a new edge between existing nodes, then `inverse()`: the identical state comes
    back (not only an equivalent one); and if everything on the new edge is a registered
    non-None feature, inverting the inverse reproduces the post-edit state identically. -/
theorem C01_prim_addEdge (s : St) (e : Edge) (attrs : List (Key × Val))
    (h1 : s.hasNode e.1 = true) (h2 : s.hasNode e.2 = true) (hne : s.hasEdge e = false) :
    ∃ s₁, s.pAddEdge e attrs = .ok (s₁, .addEdge e attrs) ∧
      ∃ r', s₁.invPrim (.addEdge e attrs) = .ok (s, r') ∧
        ((∀ kv ∈ iouF s e attrs, kv.1 ∈ s.regEdge ∧ kv.2 ≠ Val.none) →
          ∃ r'', s.invPrim r' = .ok (s₁, r'')) :=
  ⟨_, pAddEdge_new attrs h1 h2 hne, _, inv_addEdge attrs hne,
    fun hreg => ⟨_, inv_inv_addEdge attrs h1 h2 hne hreg⟩⟩
-- with an array and an active, registered IoU: the new edge (3,5) gets an IoU value that
-- DeleteEdge saves, so the redo direction applies too
example : ∃ s₁, exSeg.pAddEdge (3, 5) [] = .ok (s₁, .addEdge (3, 5) []) ∧
    ∃ r', s₁.invPrim (.addEdge (3, 5) []) = .ok (exSeg, r') ∧ ∃ r'', exSeg.invPrim r' = .ok (s₁, r'') := by
  obtain ⟨s₁, h1, r', h2, h3⟩ := C01_prim_addEdge exSeg (3, 5) [] (by decide) (by decide) (by decide)
  exact ⟨s₁, h1, r', h2, h3 (by decide)⟩
#print axioms C01_prim_addEdge

/-- the inverse law of AddEdge in the `Equiv`-robust form needed inside groups -/
theorem C01_prim_addEdge_law (s : St) (e : Edge) (attrs : List (Key × Val))
    (h1 : s.hasNode e.1 = true) (h2 : s.hasNode e.2 = true) (hne : s.hasEdge e = false) :
    ∃ s₁, s.pAddEdge e attrs = .ok (s₁, .addEdge e attrs) ∧ InvLaw s (.addEdge e attrs) s₁ :=
  ⟨_, pAddEdge_new attrs h1 h2 hne, invLaw_addEdge attrs hne⟩
example : ∃ s₁, exS.pAddEdge (3, 5) [] = .ok (s₁, .addEdge (3, 5) []) ∧ InvLaw exS (.addEdge (3, 5) []) s₁ :=
  C01_prim_addEdge_law exS (3, 5) [] (by decide) (by decide) (by decide)
#print axioms C01_prim_addEdge_law

/-- DeleteEdge, then `inverse()`, then `inverse()` again -/
theorem C01_prim_delEdge (s : St) (e : Edge) (r : EdgeRec) (hf : s.findEdge e = some r)
    (h1 : s.hasNode e.1 = true) (h2 : s.hasNode e.2 = true) (hn : s.edgeList.Nodup)
    (hreg : ∀ kv ∈ r.attrs, kv.1 ∈ s.regEdge ∧ kv.2 ≠ Val.none)
    (hiou : ∀ k, s.iouKey = some k → s.iouActive = true → s.seg.isSome = true →
        alook k r.attrs = some (s.iouOf e)) :
    ∃ s₁ rec, s.pDelEdge e = .ok (s₁, rec) ∧
      ∃ s₂ r', s₁.invPrim rec = .ok (s₂, r') ∧ Equiv s₂ s ∧
        ∃ r'', s₂.invPrim r' = .ok (s₁, r'') := by
  obtain ⟨sv, hsv⟩ := inv_inv_delEdge (s := s) (e := e) (r := r)
  exact ⟨_, _, pDelEdge_eq hf, _, _, inv_delEdge_eq r h1 h2, readdEdge_equiv hf hn hreg hiou, _, hsv⟩
example : ∃ s₁ rec, exS.pDelEdge (2, 4) = .ok (s₁, rec) ∧
    ∃ s₂ r', s₁.invPrim rec = .ok (s₂, r') ∧ Equiv s₂ exS ∧ ∃ r'', s₂.invPrim r' = .ok (s₁, r'') :=
  C01_prim_delEdge exS (2, 4) ⟨(2, 4), []⟩ rfl (by decide) (by decide) (by decide) (by decide)
    (fun k hk => by cases hk)
-- the restored state really differs in insertion order: (1,2) moves behind (2,4)
example : ∃ s₁ rec s₂ r', exS.pDelEdge (1, 2) = .ok (s₁, rec) ∧ s₁.invPrim rec = .ok (s₂, r') ∧
    s₂.edges.map (·.e) = [(1, 3), (2, 4), (1, 2)] := ⟨_, _, _, _, rfl, rfl, by decide⟩
#print axioms C01_prim_delEdge

/-- the compositional step: a recorded run in which every primitive satisfies its inverse law
    (`Chain`) is undone by `ActionGroup.inverse` from any state equivalent to its end state -/
theorem C01_group (s sₙ : St) (recs : List PrimRec) (h : Chain s recs sₙ) (sₙ' : St)
    (he : Equiv sₙ' sₙ) :
    ∃ s' recs', sₙ'.invGroup recs = (s', .ok recs') ∧ Equiv s' s ∧ recs'.length = recs.length :=
  invGroup_chain h sₙ' he
-- a two-primitive group (add (3,5), then add (5,4)) satisfying the hypothesis, and its rollback
example : ∃ s₂, Chain exS [.addEdge (3, 5) [], .addEdge (5, 4) []] s₂ ∧
    Equiv (s₂.rollback [.addEdge (3, 5) [], .addEdge (5, 4) []]) exS := by
  have hc := Chain.cons (invLaw_addEdge (s := exS) (e := (3, 5)) [] (by decide))
    (Chain.cons (invLaw_addEdge (e := (5, 4)) [] (by decide)) (Chain.nil _))
  obtain ⟨s', recs', hg, he, _⟩ := C01_group _ _ _ hc _ (Equiv.refl _)
  exact ⟨_, hc, by unfold rollback; rw [hg]; exact he⟩
#print axioms C01_group

/-- … in particular `_rollback` of such a run restores the start state -/
theorem C01_group_rollback (s sₙ : St) (recs : List PrimRec) (h : Chain s recs sₙ) :
    Equiv (sₙ.rollback recs) s := by
  obtain ⟨s', recs', hg, he, _⟩ := invGroup_chain h sₙ (Equiv.refl _)
  unfold rollback; rw [hg]; exact he
example : Equiv ((exS.setEdges (exS.edges ++ [{ e := (3, 5), attrs := iouF exS (3, 5) [] }])).rollback
    [.addEdge (3, 5) []]) exS :=
  C01_group_rollback _ _ _ (Chain.cons (invLaw_addEdge [] (by decide)) (Chain.nil _))
#print axioms C01_group_rollback


/-- Note on `UpdateNodeAttrs` with a key the node does not carry yet: the inverse writes the
    previous value `None` instead of removing the key. Every reader treats None as absent
    (`otherOf` agrees), but the node records differ structurally, so the structural `Equiv` of
    SessionSpec cannot hold for this primitive in general — the law for `updAttrs` has to be
    stated for keys already present, or over an `Equiv` that identifies None with absent. -/
theorem C01_note_updAttrs_fresh_key :
    ∃ s₁ r s₂ r', exS.pUpdAttrs 1 [(8, .tok 1)] = .ok (s₁, r) ∧ s₁.invPrim r = .ok (s₂, r') ∧
      s₂.nodes ≠ exS.nodes ∧ s₂.otherOf 1 8 = exS.otherOf 1 8 ∧ s₂.otherOf 1 7 = exS.otherOf 1 7 :=
  ⟨_, _, _, _, rfl, rfl, by decide, by decide, by decide⟩
#print axioms C01_note_updAttrs_fresh_key
