/-
  C17 — inferred column mappings lose no column and prefer exact names.

  "The automatically inferred name map uses every source column exactly once - as the value
   of a standard key, as an element of a multi-column value, or mapped to itself as a custom
   property - and never assigns one column to two keys. A column spelled exactly like a
   required key or like the seg-id key is mapped to that key."
  Quantifier: every list of distinct source column names, every set of required keys, every
  dimensionality (the dimensionality only selects the feature table; the theorems hold for
  every feature table).

  The theorems are about `Ft.NameMap.inferNode` / `inferEdge`, the model of
  `_name_mapping.py` AS REPAIRED by fixes/D6_name_mapping.patch, for every fuzzy matcher
  `fz` that answers with one of its candidates (`FzOk`; `difflib.get_close_matches` returns a
  sub-list of `possibilities`) and every `lower`.  `C17_counterexample_unfixed*` show that the
  partition property is FALSE of the model of the pinned, unrepaired code (defect D6).
-/
import FtProofs.NameMapLemmas
open Ft Ft.NameMap List

namespace Ft.NameMap

/-- the only assumption on `difflib.get_close_matches`: an answer is one of the candidates -/
def FzOk (fz : String → List String → Option String) : Prop :=
  ∀ q cs c, fz q cs = some c → c ∈ cs

/-- a duplicate-free list of used columns pins every column to a single entry -/
theorem entry_unique : ∀ (l : Mapping), (mcols l).Nodup →
    ∀ e₁ ∈ l, ∀ e₂ ∈ l, ∀ c, c ∈ e₁.2.cols → c ∈ e₂.2.cols → e₁ = e₂ := by
  intro l
  induction l with
  | nil => intro _ e₁ h; simp at h
  | cons e r ih =>
    intro hn e₁ h₁ e₂ h₂ c hc₁ hc₂
    rw [mcols_cons, nodup_append] at hn
    obtain ⟨_, hr, hdis⟩ := hn
    have inr : ∀ x ∈ r, c ∈ x.2.cols → c ∈ mcols r := fun x hx hc => by
      simp only [mcols, mem_flatMap]; exact ⟨x, hx, hc⟩
    rcases mem_cons.mp h₁ with h₁ | h₁ <;> rcases mem_cons.mp h₂ with h₂ | h₂
    · rw [h₁, h₂]
    · rw [h₁] at hc₁
      exact absurd rfl (hdis c hc₁ c (inr _ h₂ hc₂))
    · rw [h₂] at hc₂
      exact absurd rfl (hdis c hc₂ c (inr _ h₁ hc₁))
    · exact ih hr e₁ h₁ e₂ h₂ c hc₁ hc₂

theorem Spec.perm {cols res} (h : Spec cols res) : (mcols res).Perm cols :=
  perm_iff_count.mpr h.count

/-- toy matcher for the examples: "time" finds column "t", "Area"/"area" find each other,
    "xx" finds "x", anything else only finds itself -/
def exFz (q : String) (cs : List String) : Option String :=
  if q = "time" ∧ "t" ∈ cs then some "t"
  else if q = "xx" ∧ "x" ∈ cs then some "x"
  else if q = "area" ∧ "Area" ∈ cs then some "Area"
  else if q ∈ cs then some q else none

theorem exFz_ok : FzOk exFz := by
  intro q cs c h
  unfold exFz at h
  split at h
  · rename_i h1; cases h; exact h1.2
  · split at h
    · rename_i h1; cases h; exact h1.2
    · split at h
      · rename_i h1; cases h; exact h1.2
      · split at h
        · rename_i h1; cases h; exact h1
        · cases h

/-- the live 2-D node/edge feature table, abridged -/
def exFeats : List Feat :=
  [⟨"pos", "node", 2, some "position", ["y", "x"]⟩,
   ⟨"area", "node", 1, some "Area", []⟩,
   ⟨"iou", "edge", 1, some "IoU", []⟩]

end Ft.NameMap

/-! ## node variant -/

/-- Every column is used exactly once: the columns occurring as values / list elements of the
    inferred node map are a permutation of the input columns. -/
theorem C17_partition (fz : String → List String → Option String) (lower : String → String)
    (hfz : FzOk fz) (cols required : List String) (feats : List Feat) (hc : cols.Nodup) :
    (mcols (inferNode fz lower cols required feats)).Perm cols :=
  (inferNode_spec fz lower hfz cols required feats hc).1.perm

-- non-vacuity: distinct columns, a matcher that does answer, all five steps fire
-- (exact "id"/"area", fuzzy "t", value names "y","x", skipped "Area", self-mapped rest)
example : ["t", "id", "y", "x", "area", "Area", "xx", "pos2"].Nodup := by decide
example : FzOk exFz := exFz_ok
example : inferNode exFz id ["t", "id", "y", "x", "area", "Area", "xx", "pos2"] ["time", "id"] exFeats
    = [("id", .one "id"), ("area", .one "area"), ("time", .one "t"), ("pos", .many ["y", "x"]),
       ("Area", .one "Area"), ("xx", .one "xx"), ("pos2", .one "pos2")] := by decide
#print axioms C17_partition

/-- No column is assigned to two keys (nor twice inside one multi-column value), and the
    result is a well-formed dict (no key twice). -/
theorem C17_no_dup (fz : String → List String → Option String) (lower : String → String)
    (hfz : FzOk fz) (cols required : List String) (feats : List Feat) (hc : cols.Nodup) :
    let res := inferNode fz lower cols required feats
    (keys res).Nodup ∧ (mcols res).Nodup ∧
    ∀ k₁ v₁ k₂ v₂ c, (k₁, v₁) ∈ res → (k₂, v₂) ∈ res → c ∈ v₁.cols → c ∈ v₂.cols → k₁ = k₂ := by
  intro res
  have hs := (inferNode_spec fz lower hfz cols required feats hc).1
  have hn : (mcols res).Nodup := hs.perm.nodup_iff.mpr hc
  refine ⟨hs.nodup, hn, ?_⟩
  intro k₁ v₁ k₂ v₂ c h₁ h₂ hc₁ hc₂
  have := entry_unique res hn _ h₁ _ h₂ c hc₁ hc₂
  exact congrArg Prod.fst this

-- non-vacuity: "area" and "Area" compete for the key `area`, "x" and "xx" for slot 1 of `pos`
example : let res := inferNode exFz id ["y", "x", "xx", "area", "Area"] ["time"] exFeats
    (("area", Val.one "area") ∈ res ∧ ("Area", Val.one "Area") ∈ res
      ∧ ("pos", Val.many ["y", "x"]) ∈ res ∧ ("xx", Val.one "xx") ∈ res) := by decide
#print axioms C17_no_dup

/-- A column spelled exactly like a required key, or like "seg_id", is mapped to that key. -/
theorem C17_exact (fz : String → List String → Option String) (lower : String → String)
    (hfz : FzOk fz) (cols required : List String) (feats : List Feat) (hc : cols.Nodup)
    (c : String) (hcol : c ∈ cols) (hkey : c ∈ required ∨ c = "seg_id") :
    alook c (inferNode fz lower cols required feats) = some (.one c) := by
  obtain ⟨hs, hkeep⟩ := inferNode_spec fz lower hfz cols required feats hc
  apply alook_of_mem_nodup _ _ _ hs.nodup
  apply hkeep
  apply matchExact_exact _ c cols [] (by simp) _ hcol (by simp)
  simp only [buildStandardFields, mem_append, mem_singleton]
  exact hkey

-- non-vacuity: "pos" is a required key AND a multi-value feature key whose value names are
-- present; "seg_id" is present; a fuzzy candidate ("t") exists for "time" as well
example : "pos" ∈ ["pos", "time"] ∨ "pos" = "seg_id" := by decide
example : inferNode exFz id ["t", "y", "x", "pos", "seg_id", "time"] ["pos", "time"] exFeats
    = [("pos", .one "pos"), ("time", .one "time"), ("seg_id", .one "seg_id"),
       ("t", .one "t"), ("y", .one "y"), ("x", .one "x")] := by decide
#print axioms C17_exact

/-! ## edge variant (`infer_edge_name_map`; no required keys, so no exact-name clause) -/

theorem C17_partition_edge (fz : String → List String → Option String) (lower : String → String)
    (hfz : FzOk fz) (cols : List String) (feats : List Feat) (hc : cols.Nodup) :
    (mcols (inferEdge fz lower cols feats)).Perm cols :=
  (inferEdge_spec fz lower hfz cols feats hc).perm

example : inferEdge exFz id ["IoU", "iou", "w"] exFeats
    = [("iou", .one "iou"), ("IoU", .one "IoU"), ("w", .one "w")] := by decide
#print axioms C17_partition_edge

theorem C17_no_dup_edge (fz : String → List String → Option String) (lower : String → String)
    (hfz : FzOk fz) (cols : List String) (feats : List Feat) (hc : cols.Nodup) :
    let res := inferEdge fz lower cols feats
    (keys res).Nodup ∧ (mcols res).Nodup ∧
    ∀ k₁ v₁ k₂ v₂ c, (k₁, v₁) ∈ res → (k₂, v₂) ∈ res → c ∈ v₁.cols → c ∈ v₂.cols → k₁ = k₂ := by
  intro res
  have hs := inferEdge_spec fz lower hfz cols feats hc
  have hn : (mcols res).Nodup := hs.perm.nodup_iff.mpr hc
  refine ⟨hs.nodup, hn, ?_⟩
  intro k₁ v₁ k₂ v₂ c h₁ h₂ hc₁ hc₂
  exact congrArg Prod.fst (entry_unique res hn _ h₁ _ h₂ c hc₁ hc₂)

example : ["IoU", "iou", "w"].Nodup := by decide
#print axioms C17_no_dup_edge

/-! ## the pinned code (before the repair) violates the partition clause — defect D6 -/

/-- Step 5 overwrites the key `pos` (already holding `["y","x"]`) with the leftover column
    "pos": columns "y" and "x" are used nowhere.  No fuzzy answer is involved. -/
theorem C17_counterexample_unfixed :
    let fz : String → List String → Option String := fun _ _ => none
    let cols := ["t", "y", "x", "pos"]
    cols.Nodup ∧ FzOk fz ∧ "y" ∈ cols
      ∧ inferNodeOrig fz id cols ["time"] exFeats = [("pos", .one "pos"), ("t", .one "t")]
      ∧ "y" ∉ mcols (inferNodeOrig fz id cols ["time"] exFeats)
      ∧ ¬ (mcols (inferNodeOrig fz id cols ["time"] exFeats)).Perm cols := by
  refine ⟨by decide, ?_, by decide, by decide, by decide, by decide⟩
  intro q cs c h; cases h

-- the repaired model keeps every column on the same witness
example : inferNode (fun _ _ => none) id ["t", "y", "x", "pos"] ["time"] exFeats
    = [("pos", .one "pos"), ("t", .one "t"), ("y", .one "y"), ("x", .one "x")] := by decide
#print axioms C17_counterexample_unfixed

/-- Step 4 overwrites the multi-value slot / the key filled by step 3: "xx" fuzzy-matches the
    value name "x", and `pos` becomes `["xx"]`; "y" and "x" are used nowhere. -/
theorem C17_counterexample_unfixed_fuzzy :
    let cols := ["y", "x", "xx"]
    cols.Nodup ∧ FzOk exFz
      ∧ inferNodeOrig exFz id cols [] exFeats = [("pos", .many ["xx"])]
      ∧ ¬ (mcols (inferNodeOrig exFz id cols [] exFeats)).Perm cols := by
  exact ⟨by decide, exFz_ok, by decide, by decide⟩

example : inferNode exFz id ["y", "x", "xx"] [] exFeats
    = [("pos", .many ["y", "x"]), ("xx", .one "xx")] := by decide
#print axioms C17_counterexample_unfixed_fuzzy

/-- Step 4 overwrites the single-value key matched by step 3: "Area" (exact display name) is
    replaced by "area" (fuzzy); "Area" is used nowhere. -/
theorem C17_counterexample_unfixed_display :
    let cols := ["area", "Area"]
    cols.Nodup ∧ FzOk exFz
      ∧ inferNodeOrig exFz id cols [] exFeats = [("area", .one "area")]
      ∧ ¬ (mcols (inferNodeOrig exFz id cols [] exFeats)).Perm cols := by
  exact ⟨by decide, exFz_ok, by decide, by decide⟩

example : inferNode exFz id ["area", "Area"] [] exFeats
    = [("area", .one "area"), ("Area", .one "Area")] := by decide
#print axioms C17_counterexample_unfixed_display
