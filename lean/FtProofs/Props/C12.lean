/-
  C12 — "Importing a node table (CSV/DataFrame) or a GEFF store with a given key mapping yields a
  solution whose nodes are exactly the source ids, whose edges are exactly the source parent-child
  links and whose time, position and every mapped property equal the source values, with
  multi-column properties combined in the mapped order and non-integer ids renumbered one-to-one
  with links preserved.  Malformed sources — duplicate ids, links to unknown nodes, self-links,
  missing required columns — are rejected with ValueError instead of being partially imported."

  Model: FtModel/Import.lean — the pipeline AS REPAIRED (fixes D9, D9b, D9c); the unrepaired id
  remapping is `importTableOrig` and is refuted at the end.  All theorems hold for tables / graphs
  of any size, any tokens, any spatial-key list.  A result is `Except ErrKind Graph`: an error is
  a ValueError of the real code and carries no graph, so "rejected" = `∃ err, … = .error err`.

  Vocabulary (FtProofs/ImportLemmas.lean):
    newId t tok        the integer the import gives to source id `tok`
                       (integer id column: the numeral's value; otherwise the renumbering)
    isNoParent p       the parent cell is one of the "no parent" encodings -1, "", "-1"
                       (a missing cell is `none`)
    NameMapOK nm       the key mapping is unambiguous (no key twice; a stacked column is used in
                       one list only, once, and is not the name of a key)
    Rect header cells  the row has a cell for every column of the header
  Trusted / not covered: pandas dtype decisions (the `intIds` flag), float/NaN carrying, CSV and
  zarr I/O — checked on every harness case by the correspondence run.
-/
import FtProofs.ImportLemmas
open Ft Ft.Import

/-! ## nodes -/

/-- The nodes of the result are exactly the source ids, row by row (as integers; after the
    renumbering when the id column is not of integer type), and no node occurs twice. -/
theorem C12_nodes (sp : List String) (nm : NameMap) (t : Table) (g : Graph)
    (h : importTable sp nm t = .ok g) :
    g.nodes.map (fun n => some n.1) = t.rows.map (fun r => newId t r.id) ∧
      (g.nodes.map (·.1)).Nodup := by
  obtain ⟨irows, _, hl, hn, _, hnd, _, _⟩ := importTable_ok sp nm t g h
  obtain ⟨_, hlen, hidx, _⟩ := loadRows_spec t irows hl
  refine ⟨?_, hnd⟩
  rw [hn]
  apply List.ext_getElem?
  intro i
  simp only [List.getElem?_map, List.map_map]
  cases hr : t.rows[i]? with
  | none =>
    have : irows[i]? = none := by
      rw [List.getElem?_eq_none_iff] at hr ⊢
      omega
    simp [this]
  | some r =>
    obtain ⟨ir, h1, h2, _⟩ := hidx i r hr
    simp [h1, h2]

example : importTable ["pos"] [("id", .one "id"), ("parent_id", .one "p"), ("time", .one "t"),
      ("pos", .many ["y", "x"])]
    ⟨["t", "y", "x", "id", "p"], false,
      [⟨"sa", some "s", [("t", .sc "n0"), ("y", .sc "f1.5"), ("x", .sc "n2")]⟩,
       ⟨"sb", some "sa", [("t", .sc "n1"), ("y", .sc "n3"), ("x", .sc "n4")]⟩]⟩
    = .ok ⟨[(1, [("time", .sc "n0"), ("pos", .vec ["f1.5", "n2"])]),
            (2, [("time", .sc "n1"), ("pos", .vec ["n3", "n4"])])], [(1, 2)]⟩ := by decide

/-- integer id column: ids kept (non-contiguous, any order), `-1` / missing = no parent -/
example : importTable ["pos"] [("id", .one "id"), ("parent_id", .one "p"), ("time", .one "t"),
      ("pos", .many ["y", "x"])]
    ⟨["t", "y", "x", "id", "p"], true,
      [⟨"40", some "7", []⟩, ⟨"7", some "-1", []⟩, ⟨"12", none, []⟩, ⟨"3", some "40", []⟩]⟩
    = .ok ⟨[(40, []), (7, []), (12, []), (3, [])], [(7, 40), (40, 3)]⟩ := by decide

#print axioms C12_nodes

/-! ## edges -/

/-- ids never look like a "no parent" cell (only needed when ids are renumbered: there a parent
    cell is first looked up among the ids) -/
def NoSentinelIds (t : Table) : Prop := t.intIds = false → ∀ r ∈ t.rows, isNoParent r.id = false

instance (t : Table) : Decidable (NoSentinelIds t) := by unfold NoSentinelIds; exact inferInstance

/-- The edges of the result are exactly the source links: `(u, v)` is an edge iff some row with
    id ↦ `v` has a parent cell that is not a "no parent" encoding and names the id ↦ `u`.
    No edge occurs twice, and every edge joins two distinct nodes of the result. -/
theorem C12_edges (sp : List String) (nm : NameMap) (t : Table) (g : Graph)
    (h : importTable sp nm t = .ok g) (hs : NoSentinelIds t) :
    (∀ u v : Int, (u, v) ∈ g.edges ↔
      ∃ r ∈ t.rows, ∃ p, r.parent = some p ∧ isNoParent p = false ∧
        newId t p = some u ∧ newId t r.id = some v) ∧
    g.edges.Nodup ∧
    (∀ e ∈ g.edges, e.1 ∈ g.nodes.map (·.1) ∧ e.2 ∈ g.nodes.map (·.1) ∧ e.1 ≠ e.2) := by
  obtain ⟨irows, _, hl, _, he, _, hends, hend⟩ := importTable_ok sp nm t g h
  obtain ⟨hnodup, _, hidx, hmem⟩ := loadRows_spec t irows hl
  refine ⟨?_, hend, hends⟩
  intro u v
  rw [he, mem_linksOf]
  constructor
  · rintro ⟨ir, hir, hp, hid⟩
    obtain ⟨r, hr, h1, _, h3⟩ := hmem ir hir
    refine ⟨r, hr, ?_⟩
    rw [hp] at h3
    rw [hid] at h1
    unfold resolveParent at h3
    cases hint : t.intIds with
    | true =>
      rw [hint] at h3
      simp only [if_true] at h3
      cases hpar : r.parent with
      | none => rw [hpar] at h3; simp [parseParent] at h3
      | some p =>
        rw [hpar] at h3
        obtain ⟨a, b⟩ := (parseParent_some p u).mp h3
        refine ⟨p, rfl, a, ?_, h1.symm⟩
        unfold newId
        rw [hint]
        simpa using b
    | false =>
      rw [hint] at h3
      simp only [Bool.false_eq_true, if_false] at h3
      cases hpar : r.parent with
      | none => rw [hpar] at h3; simp [mapParent] at h3
      | some p =>
        rw [hpar] at h3
        have a := (mapParent_some _ p u).mp h3
        have hpin : p ∈ tableIds t := by
          have hm := mem_of_alook p u _ a
          have hk : p ∈ (idMapping (tableIds t)).map (·.1) := List.mem_map.mpr ⟨(p, u), hm, rfl⟩
          rwa [idMapping_keys _ hnodup] at hk
        obtain ⟨r', hr', hrid⟩ := List.mem_map.mp hpin
        refine ⟨p, rfl, ?_, ?_, h1.symm⟩
        · rw [← hrid]; exact hs hint r' hr'
        · unfold newId
          rw [hint]
          simpa using a
  · rintro ⟨r, hr, p, hpar, hnp, hu, hv⟩
    obtain ⟨i, hi⟩ := List.getElem?_of_mem hr
    obtain ⟨ir, h1, h2, _, h4⟩ := hidx i r hi
    refine ⟨ir, List.mem_of_getElem? h1, ?_, ?_⟩
    · rw [hpar] at h4
      unfold resolveParent at h4
      unfold newId at hu
      cases hint : t.intIds with
      | true =>
        rw [hint] at h4 hu
        simp only [if_true] at h4 hu
        have := (parseParent_some p u).mpr ⟨hnp, hu⟩
        rw [this] at h4
        exact (Except.ok.inj h4).symm
      | false =>
        rw [hint] at h4 hu
        simp only [Bool.false_eq_true, if_false] at h4 hu
        have := (mapParent_some _ p u).mpr hu
        rw [this] at h4
        exact (Except.ok.inj h4).symm
    · rw [hv] at h2
      exact Option.some.inj h2

example : importTable ["pos"] [("id", .one "id"), ("parent_id", .one "p"), ("time", .one "t"),
      ("pos", .many ["y", "x"])]
    ⟨["t", "y", "x", "id", "p"], false,
      [⟨"sc", some "sa", []⟩, ⟨"sa", some "s-1", []⟩, ⟨"f2.5", some "sa", []⟩, ⟨"sd", none, []⟩,
       ⟨"7", some "f2.5", []⟩]⟩
    = .ok ⟨[(1, []), (2, []), (3, []), (4, []), (5, [])], [(2, 1), (2, 3), (3, 5)]⟩ := by decide

example : NoSentinelIds ⟨[], false, [⟨"sc", some "sa", []⟩, ⟨"sa", some "s-1", []⟩]⟩ := by decide

#print axioms C12_edges

/-! ## attributes -/

/-- Every mapped property of every node equals the source value: for row `i` the `i`-th node
    carries, under a single-mapped key, the cell of the mapped column, and under a list-mapped
    key the cells of the mapped columns stacked in mapped order (this includes time and the
    composite position). -/
theorem C12_attrs (sp : List String) (nm : NameMap) (t : Table) (g : Graph)
    (h : importTable sp nm t = .ok g) (hok : NameMapOK nm) (hne : t.header ≠ [])
    (i : Nat) (r : Row) (hr : t.rows[i]? = some r) (hrect : Rect t.header r.cells) :
    ∃ n, g.nodes[i]? = some n ∧ some n.1 = newId t r.id ∧
      (∀ k c, (k, Src.one c) ∈ nm → k ≠ "id" → k ≠ "parent_id" →
        alook k n.2 = alook c r.cells) ∧
      (∀ k cs, (k, Src.many cs) ∈ nm → cs ≠ [] → alook k n.2 = some (stack cs r.cells)) := by
  obtain ⟨irows, hv, hl, hn, _, _, _, _⟩ := importTable_ok sp nm t g h
  obtain ⟨_, _, hidx, _⟩ := loadRows_spec t irows hl
  obtain ⟨ir, h1, h2, h3, _⟩ := hidx i r hr
  obtain ⟨hreq, _, hcols⟩ := vnm_ok _ _ _ _ hv
  refine ⟨(ir.id, nodeAttrs t.header nm csvPops ir.cells), ?_, h2, ?_, ?_⟩
  · rw [hn]; simp [h1]
  · intro k c hk hk1 hk2
    simp only
    rw [h3]
    apply nodeAttrs_one t.header nm csvPops r.cells hok k c hk
    · exact hcols hne _ hk c (by simp [Src.cols])
    · simp [csvPops, hk1, hk2]
  · intro k cs hk hcs
    simp only
    rw [h3]
    apply nodeAttrs_many t.header nm csvPops r.cells hok hrect k cs hk hcs
    · intro c hc
      exact hcols hne _ hk c (by simpa [Src.cols] using hc)
    · intro p hp
      have : p ∈ csvRequired := by
        simp only [csvPops, List.mem_cons, List.not_mem_nil, or_false] at hp
        rcases hp with rfl | rfl <;> simp [csvRequired]
      exact (alook_isSome_iff p nm).mp (hreq p this)

example : NameMapOK [("id", .one "node"), ("parent_id", .one "p"), ("time", .one "t"),
    ("pos", .many ["y", "x"]), ("score", .one "s_col"), ("vec", .many ["a", "b", "c"]),
    ("ycopy", .one "y")] := by decide

example : importTable ["pos"] [("id", .one "node"), ("parent_id", .one "p"), ("time", .one "t"),
      ("pos", .many ["y", "x"]), ("score", .one "s_col"), ("vec", .many ["a", "b", "c"]),
      ("ycopy", .one "y")]
    ⟨["t", "y", "x", "node", "p", "s_col", "a", "b", "c", "unused"], false,
      [⟨"sq", none, [("t", .sc "n0"), ("y", .sc "f1.5"), ("x", .sc "n2"), ("node", .sc "sq"),
         ("p", .sc "na"), ("s_col", .sc "f0.25"), ("a", .sc "n7"), ("b", .sc "n8"), ("c", .sc "n9"),
         ("unused", .sc "n5")]⟩]⟩
    = .ok ⟨[(1, [("time", .sc "n0"), ("score", .sc "f0.25"), ("ycopy", .sc "f1.5"),
                 ("pos", .vec ["f1.5", "n2"]), ("vec", .vec ["n7", "n8", "n9"])])], []⟩ := by decide

#print axioms C12_attrs

/-! ## renumbering -/

/-- A non-integer id column is renumbered 1 … n by first occurrence (row `i` ↦ `i + 1`), the
    renumbering is one-to-one on the ids of the table, and links are preserved: a parent cell
    naming a row of the table becomes an edge between the two new ids. -/
theorem C12_renumber (sp : List String) (nm : NameMap) (t : Table) (g : Graph)
    (h : importTable sp nm t = .ok g) (hni : t.intIds = false) :
    (∀ (i : Nat) (r : Row), t.rows[i]? = some r → newId t r.id = some ((i : Int) + 1)) ∧
    g.nodes.map (·.1) = (List.range t.rows.length).map (fun i : Nat => (i : Int) + 1) ∧
    (∀ r ∈ t.rows, ∀ r' ∈ t.rows, newId t r.id = newId t r'.id → r.id = r'.id) ∧
    (∀ r ∈ t.rows, ∀ p, r.parent = some p → p ∈ tableIds t →
      ∃ u v, newId t p = some u ∧ newId t r.id = some v ∧ (u, v) ∈ g.edges) := by
  obtain ⟨irows, _, hl, hn, he, _, _, _⟩ := importTable_ok sp nm t g h
  obtain ⟨hnodup, hlen, hidx, _⟩ := loadRows_spec t irows hl
  have hnum : ∀ (i : Nat) (r : Row), t.rows[i]? = some r → newId t r.id = some ((i : Int) + 1) := by
    intro i r hr
    unfold newId
    rw [hni]
    simp only [Bool.false_eq_true, if_false]
    apply alook_idMapping _ hnodup i
    unfold tableIds
    simp [hr]
  refine ⟨hnum, ?_, ?_, ?_⟩
  · rw [hn]
    apply List.ext_getElem?
    intro i
    simp only [List.getElem?_map, List.map_map]
    cases hr : t.rows[i]? with
    | none =>
      have h0 : t.rows.length ≤ i := List.getElem?_eq_none_iff.mp hr
      have h1 : irows[i]? = none := by
        rw [List.getElem?_eq_none_iff]; omega
      have h2 : (List.range t.rows.length)[i]? = none := by
        rw [List.getElem?_eq_none_iff]; simpa using h0
      simp [h1, h2]
    | some r =>
      obtain ⟨ir, h1, h2, _⟩ := hidx i r hr
      have hlt : i < t.rows.length := by
        have := (List.getElem?_eq_some_iff.mp hr).1
        exact this
      have h3 : (List.range t.rows.length)[i]? = some i := by
        simp [hlt]
      rw [hnum i r hr] at h2
      simp [h1, h3, Option.some.inj h2]
  · intro r hr r' hr' heq
    obtain ⟨i, hi⟩ := List.getElem?_of_mem hr
    obtain ⟨j, hj⟩ := List.getElem?_of_mem hr'
    rw [hnum i r hi, hnum j r' hj] at heq
    have : i = j := by
      have := Option.some.inj heq
      omega
    subst this
    rw [hi] at hj
    rw [Option.some.inj hj]
  · intro r hr p hpar hp
    obtain ⟨i, hi⟩ := List.getElem?_of_mem hr
    obtain ⟨ir, h1, h2, _, h4⟩ := hidx i r hi
    obtain ⟨j, hj⟩ := List.getElem?_of_mem hp
    have hpm : alook p (idMapping (tableIds t)) = some ((j : Int) + 1) :=
      alook_idMapping _ hnodup j p hj
    refine ⟨(j : Int) + 1, ir.id, ?_, h2.symm, ?_⟩
    · unfold newId
      rw [hni]
      simpa using hpm
    · rw [he, mem_linksOf]
      refine ⟨ir, List.mem_of_getElem? h1, ?_, rfl⟩
      rw [hpar] at h4
      unfold resolveParent at h4
      rw [hni] at h4
      simp only [Bool.false_eq_true, if_false] at h4
      rw [(mapParent_some _ p _).mpr hpm] at h4
      exact (Except.ok.inj h4).symm

example : (importTable [] [("id", .one "id"), ("parent_id", .one "p"), ("time", .one "t"),
      ("pos", .many ["y", "x"])]
    ⟨["t", "y", "x", "id", "p"], false,
      [⟨"sz", some "sm", []⟩, ⟨"sm", none, []⟩, ⟨"f0.5", some "sm", []⟩]⟩).toOption.map (·.edges)
    = some [(2, 1), (2, 3)] := by decide

#print axioms C12_renumber

/-! ## malformed sources are rejected (never partially imported) -/

/-- two rows with the same id -/
theorem C12_reject_dup (sp : List String) (nm : NameMap) (t : Table)
    (hdup : ¬ (tableIds t).Nodup) : ∃ err, importTable sp nm t = .error err := by
  unfold importTable
  cases hv : validateNameMap csvRequired t.header sp nm with
  | error e => exact ⟨e, rfl⟩
  | ok u =>
    have : loadRows t = .error .dupId := by
      unfold loadRows
      have : nodupB (t.rows.map (·.id)) = false := by
        cases hb : nodupB (t.rows.map (·.id)) with
        | false => rfl
        | true => exact absurd ((nodupB_iff _).mp hb) hdup
      simp [this]
    exact ⟨.dupId, by simp only [this]⟩

example : ¬ (tableIds ⟨["t"], false, [⟨"sa", none, []⟩, ⟨"sb", some "sa", []⟩, ⟨"sa", none, []⟩]⟩).Nodup := by
  decide

#print axioms C12_reject_dup

/-- a parent cell that is not a "no parent" encoding and names no row of the table -/
def UnknownParent (t : Table) : Prop :=
  ∃ r ∈ t.rows, ∃ p, r.parent = some p ∧ isNoParent p = false ∧
    if t.intIds then ∀ r' ∈ t.rows, tokInt r'.id ≠ tokInt p else ∀ r' ∈ t.rows, r'.id ≠ p

theorem C12_reject_unknown (sp : List String) (nm : NameMap) (t : Table)
    (hunk : UnknownParent t) : ∃ err, importTable sp nm t = .error err := by
  obtain ⟨r, hr, p, hpar, hnp, hno⟩ := hunk
  apply importTable_err_of_rows
  intro irows hl
  obtain ⟨hnodup, _, hidx, hmem⟩ := loadRows_spec t irows hl
  obtain ⟨i, hi⟩ := List.getElem?_of_mem hr
  obtain ⟨ir, h1, h2, _, h4⟩ := hidx i r hi
  rw [hpar] at h4
  unfold resolveParent at h4
  cases hint : t.intIds with
  | true =>
    rw [hint] at h4 hno
    simp only [if_true] at h4 hno
    unfold parseParent at h4
    simp only [hnp, Bool.false_eq_true, if_false] at h4
    cases hpi : tokInt p with
    | none => simp [hpi] at h4
    | some u =>
      simp only [hpi, Except.ok.injEq] at h4
      unfold importRows
      apply finish_err
      right; left
      refine ⟨(u, ir.id), (mem_linksOf irows u ir.id).mpr ⟨ir, List.mem_of_getElem? h1, h4.symm, rfl⟩, Or.inl ?_⟩
      simp only [List.map_map, List.mem_map, Function.comp_apply, not_exists, not_and]
      intro ir' hir' heq
      obtain ⟨r', hr', h5, _, _⟩ := hmem ir' hir'
      unfold newId at h5
      rw [hint] at h5
      simp only [if_true] at h5
      apply hno r' hr'
      rw [hpi, ← h5, heq]
  | false =>
    rw [hint] at h4 hno
    simp only [Bool.false_eq_true, if_false] at h4 hno
    have hnone : alook p (idMapping (tableIds t)) = none := by
      rw [alook_eq_none_iff, idMapping_keys _ hnodup]
      intro hin
      obtain ⟨r', hr', hrid⟩ := List.mem_map.mp hin
      exact hno r' hr' hrid
    simp [mapParent, hnone, hnp] at h4

example : UnknownParent ⟨[], false, [⟨"sa", some "s", []⟩, ⟨"sb", some "sa", []⟩, ⟨"sc", some "szzz", []⟩]⟩ :=
  ⟨⟨"sc", some "szzz", []⟩, by decide, "szzz", rfl, by decide, by decide⟩

example : UnknownParent ⟨[], true, [⟨"1", some "-1", []⟩, ⟨"2", some "99", []⟩]⟩ :=
  ⟨⟨"2", some "99", []⟩, by decide, "99", rfl, by decide, by decide⟩

#print axioms C12_reject_unknown

/-- a row whose parent cell is its own id -/
theorem C12_reject_self (sp : List String) (nm : NameMap) (t : Table)
    (hself : ∃ r ∈ t.rows, r.parent = some r.id ∧ isNoParent r.id = false) :
    ∃ err, importTable sp nm t = .error err := by
  obtain ⟨r, hr, hpar, hnp⟩ := hself
  apply importTable_err_of_rows
  intro irows hl
  obtain ⟨hnodup, _, hidx, _⟩ := loadRows_spec t irows hl
  obtain ⟨i, hi⟩ := List.getElem?_of_mem hr
  obtain ⟨ir, h1, h2, _, h4⟩ := hidx i r hi
  have hpe : ir.parent = some ir.id := by
    rw [hpar] at h4
    unfold resolveParent at h4
    unfold newId at h2
    cases hint : t.intIds with
    | true =>
      rw [hint] at h4 h2
      simp only [if_true] at h4 h2
      have := (parseParent_some r.id ir.id).mpr ⟨hnp, h2.symm⟩
      rw [this] at h4
      exact (Except.ok.inj h4).symm
    | false =>
      rw [hint] at h4 h2
      simp only [Bool.false_eq_true, if_false] at h4 h2
      have := (mapParent_some _ r.id ir.id).mpr h2.symm
      rw [this] at h4
      exact (Except.ok.inj h4).symm
  unfold importRows
  apply finish_err
  right; right
  exact ⟨(ir.id, ir.id), (mem_linksOf irows _ _).mpr ⟨ir, List.mem_of_getElem? h1, hpe, rfl⟩, rfl⟩

example : ∃ r ∈ [(⟨"sa", none, []⟩ : Row), ⟨"sb", some "sb", []⟩],
    r.parent = some r.id ∧ isNoParent r.id = false := ⟨⟨"sb", some "sb", []⟩, by decide, rfl, by decide⟩

#print axioms C12_reject_self

/-- a required key (time, id, parent_id, pos) is not mapped, or a mapped column does not exist
    in the table -/
theorem C12_reject_missing (sp : List String) (nm : NameMap) (t : Table)
    (hmiss : (∃ k ∈ ["time", "id", "parent_id", "pos"], alook k nm = none) ∨
      (t.header ≠ [] ∧ ∃ e ∈ nm, ∃ c ∈ e.2.cols, c ∉ t.header)) :
    ∃ err, importTable sp nm t = .error err := by
  have : ∃ err, validateNameMap csvRequired t.header sp nm = .error err := by
    rcases hmiss with ⟨k, hk, hn⟩ | ⟨hne, e, he, c, hc, hnot⟩
    · by_cases hp : k = "pos"
      · subst hp
        exact vnm_err_pos _ _ _ _ hn
      · apply vnm_err_required _ _ _ _ k _ hn
        simp only [List.mem_cons, List.not_mem_nil, or_false] at hk
        rcases hk with rfl | rfl | rfl | rfl
        · simp [csvRequired]
        · simp [csvRequired]
        · simp [csvRequired]
        · exact absurd rfl hp
    · exact vnm_err_column _ _ _ _ e c hne he hc hnot
  obtain ⟨err, he⟩ := this
  unfold importTable
  exact ⟨err, by simp only [he]⟩

example : alook "time" [("id", Src.one "id"), ("parent_id", .one "p"), ("pos", .many ["y", "x"])] = none := by
  decide
example : "x" ∈ (Src.many ["y", "x"]).cols ∧ "x" ∉ ["t", "y", "id", "p"] := by decide

#print axioms C12_reject_missing

/-! ## GEFF -/

/-- `import_from_geff`: the nodes are the stored node ids, the edges the stored edges, and every
    mapped property of every node is the stored value (list-mapped properties stacked in mapped
    order). -/
theorem C12_geff_import (sp : List String) (nm : NameMap) (header : List String)
    (nodes : List (Int × Attrs)) (edges : List (Int × Int)) (g : Graph)
    (h : importGeff sp nm header nodes edges = .ok g) :
    g.nodes.map (·.1) = nodes.map (·.1) ∧ g.edges = edges ∧
    (NameMapOK nm → header ≠ [] → ∀ (i : Nat) (n : Int × Attrs), nodes[i]? = some n →
      Rect header n.2 →
      ∃ n', g.nodes[i]? = some n' ∧ n'.1 = n.1 ∧
        (∀ k c, (k, Src.one c) ∈ nm → alook k n'.2 = alook c n.2) ∧
        (∀ k cs, (k, Src.many cs) ∈ nm → cs ≠ [] → alook k n'.2 = some (stack cs n.2))) := by
  obtain ⟨hv, hn, he, _, _, _⟩ := importGeff_ok sp nm header nodes edges g h
  obtain ⟨_, _, hcols⟩ := vnm_ok _ _ _ _ hv
  refine ⟨?_, he, ?_⟩
  · rw [hn]; simp [Function.comp_def]
  · intro hok hne i n hi hrect
    refine ⟨(n.1, nodeAttrs header nm [] n.2), ?_, rfl, ?_, ?_⟩
    · rw [hn]; simp [hi]
    · intro k c hk
      exact nodeAttrs_one header nm [] n.2 hok k c hk (hcols hne _ hk c (by simp [Src.cols])) (by simp)
    · intro k cs hk hcs
      exact nodeAttrs_many header nm [] n.2 hok hrect k cs hk hcs
        (fun c hc => hcols hne _ hk c (by simpa [Src.cols] using hc)) (by simp)

example : importGeff ["pos"] [("time", .one "t"), ("pos", .one "p"), ("score", .one "sc")] ["t", "p", "sc"]
    [(5, [("t", .sc "n0"), ("p", .vec ["n1", "f2.5"]), ("sc", .sc "f0.5")]),
     (2, [("t", .sc "n1"), ("p", .vec ["n3", "n4"])])] [(5, 2)]
    = .ok ⟨[(5, [("time", .sc "n0"), ("pos", .vec ["n1", "f2.5"]), ("score", .sc "f0.5")]),
            (2, [("time", .sc "n1"), ("pos", .vec ["n3", "n4"])])], [(5, 2)]⟩ := by decide

#print axioms C12_geff_import

/-- a GEFF store with a duplicate node id, an edge to an unknown node, a self-edge, an unmapped
    required key or a mapped property that does not exist is rejected -/
theorem C12_geff_reject (sp : List String) (nm : NameMap) (header : List String)
    (nodes : List (Int × Attrs)) (edges : List (Int × Int))
    (hbad : ¬ (nodes.map (·.1)).Nodup ∨
      (∃ e ∈ edges, e.1 ∉ nodes.map (·.1) ∨ e.2 ∉ nodes.map (·.1)) ∨
      (∃ e ∈ edges, e.1 = e.2) ∨
      (∃ k ∈ ["time", "pos"], alook k nm = none) ∨
      (header ≠ [] ∧ ∃ e ∈ nm, ∃ c ∈ e.2.cols, c ∉ header)) :
    ∃ err, importGeff sp nm header nodes edges = .error err := by
  unfold importGeff
  cases hv : validateNameMap ["time"] header sp nm with
  | error e => exact ⟨e, rfl⟩
  | ok u =>
    simp only
    have hgraph : ¬ (nodes.map (·.1)).Nodup ∨
        (∃ e ∈ edges, e.1 ∉ nodes.map (·.1) ∨ e.2 ∉ nodes.map (·.1)) ∨ (∃ e ∈ edges, e.1 = e.2) := by
      cases u
      obtain ⟨hreq, hpos, hcols⟩ := vnm_ok _ _ _ _ hv
      rcases hbad with h | h | h | ⟨k, hk, hn⟩ | ⟨hne, e, he, c, hc, hnot⟩
      · exact Or.inl h
      · exact Or.inr (Or.inl h)
      · exact Or.inr (Or.inr h)
      · exfalso
        simp only [List.mem_cons, List.not_mem_nil, or_false] at hk
        rcases hk with rfl | rfl
        · have := hreq "time" (by simp)
          rw [hn] at this
          cases this
        · rw [hn] at hpos
          cases hpos
      · exact absurd (hcols hne e he c hc) hnot
    apply finish_err
    simpa [List.map_map, Function.comp_def] using hgraph

example : ¬ ([((1 : Int), ([] : Attrs)), (2, []), (1, [])].map (·.1)).Nodup := by decide
example : ∃ e ∈ [((1 : Int), (2 : Int)), (9, 2)], e.1 ∉ [(1 : Int), 2] ∨ e.2 ∉ [(1 : Int), 2] :=
  ⟨(9, 2), by decide, Or.inl (by decide)⟩

#print axioms C12_geff_reject

/-! ## the unrepaired id remapping (defect D9) -/

/-- `_ensure_integer_ids` as it stood before the repair maps a parent that names no row to NA,
    which is then read as "no parent": the table a,b,c with c's parent "zzz" is imported with the
    link silently dropped, although it has an unknown parent (`C12_reject_unknown` demands a
    rejection, and the repaired pipeline rejects it).  Replayed on the real code by
    harness/fam_import.py (FIXED_CASES[0]). -/
theorem C12_counterexample_unfixed :
    ∃ (nm : NameMap) (t : Table) (g : Graph),
      UnknownParent t ∧ importTableOrig [] nm t = .ok g ∧
      g.nodes.map (·.1) = [1, 2, 3] ∧ g.edges = [(1, 2)] ∧
      importTable [] nm t = .error .unknownParent :=
  ⟨[("id", .one "id"), ("parent_id", .one "parent_id"), ("time", .one "time"), ("pos", .many ["y", "x"])],
   ⟨["time", "y", "x", "id", "parent_id"], false,
     [⟨"sa", some "s", []⟩, ⟨"sb", some "sa", []⟩, ⟨"sc", some "szzz", []⟩]⟩,
   ⟨[(1, []), (2, []), (3, [])], [(1, 2)]⟩,
   ⟨⟨"sc", some "szzz", []⟩, by decide, "szzz", rfl, by decide, by decide⟩,
   by decide, by decide, by decide, by decide⟩

#print axioms C12_counterexample_unfixed
