/-
  C11 — note on the hypothesis `EdgeInv` ("every visible edge attribute is a registered feature")
  of `C11_addEdge_refused` / `C11_addEdge_forced_triple`: it cannot be dropped.

  The rollback of a refused composite inverts the recorded delete actions, and a delete action
  saves REGISTERED features only (`DeleteEdge.attributes`, model: `pDelEdge`).  An attribute that
  sits on the removed edge under a key that is not in `tracks.features` is therefore gone after the
  refusal.  The real code behaves the same way (replay: corpus/C11-rollback-unregistered-attribute.json,
  recorded as known finding D18); the property as stated ("all attribute values") is false of the
  code and of the model at this point, and true on the states with registered attributes only,
  which is what the theorems claim.
-/
import FtProofs.Props.C01_R3B
open Ft Ft.St

namespace Ft.D18

/-- `R2B.exState` (2 → {3, 4} divides; 6 has the parent 5) with the value 51 stored on the edge
    (5, 6) under key 99, which is not a registered edge feature (`regEdge = []`). -/
def exUnreg : St :=
  { R2B.exState with
    edges := [⟨(1, 2), []⟩, ⟨(2, 3), []⟩, ⟨(2, 4), []⟩, ⟨(5, 6), [(99, .tok 51)]⟩] }

end Ft.D18

open Ft.D18 in
/-- The forced add-edge 2 → 6 is refused (`invalid`: 2 already has two children) after the nested
    delete-edge of (5, 6) was applied; the rollback re-creates the edge (5, 6) — without the
    unregistered attribute. -/
theorem C11_note_rollback_loses_unregistered_attr :
    (exUnreg.uAddEdge (2, 6) true).2 = .error .invalid ∧
    (exUnreg.findEdge (5, 6)).map (·.attrs) = some [(99, .tok 51)] ∧
    ((exUnreg.uAddEdge (2, 6) true).1.findEdge (5, 6)).map (·.attrs) = some [] :=
  ⟨rfl, by decide, by decide⟩
#print axioms C11_note_rollback_loses_unregistered_attr
