/-
  C14 (package R8S) — **a saved and reloaded solution is the same solution for every later editing
  session — up to the id counters.**

  `C14_internal` / `C14_after_session_internal` say that `load_tracks(save_tracks(s))` returns the whole
  TABLE of `s`.  Here the reloaded OBJECT is modelled (`Ft.R8S.reload`, FtProofs/R8SLemmas.lean, table in
  its header): the table of `s` (nodes, edges, all attributes, array, registry and activation flags —
  nothing recomputed), bookkeeping rebuilt by `TrackAnnotator.__init__` from the stored ids in ONE pass
  over the nodes in stored order (`Construct.maxIdMap`, the R7S model), empty history, node-id counter 1.

  What is the same and what is not (`C14_reload_same_observables`, `C14_reload_note_what_differs`):
    same      nodes, edges, every attribute, the label array, the registry / active set, the lookups as
              SETS per id (an id has an entry iff a node carries it), `Inv` (`C14_reload_inv`)
    differs   the history (empty), the node-id counter (1), the order of the ids inside the lookup dicts
              and of the nodes inside a lookup list (graph order instead of the order in which the
              edits appended them), and **the id maxima `max_tracklet_id` / `max_lineage_id`: rebuilt as
              the largest id IN USE, whereas the live object remembers every id it ever issued** (a
              deleted top track, an undone split, two lineages joined …).

  Consequence (`C14_counterexample_reload_bisim`, replayed on the real code): the full-strength
  bisimulation "every operation list gives the same outcomes and observables from `reload s` and from
  `s` with its history cleared" is FALSE — the next fresh track / lineage id differs, an operation that
  names an id (`UserAddNode(track_id=…)`) then attaches to different nodes, and a later operation is
  refused on one side and accepted on the other.

  What holds (`C14_reload_bisim_partial`, no hypothesis beyond `Inv s` and admissibility): `reload s`
  and `tightened s` (= `s` with history / node-id counter / refresh log cleared AND the two id maxima
  lowered to the largest id in use) give, for EVERY admissible operation list, the same outcome at
  every step and end in states that are equal field by field — nodes, edges, attributes, array,
  registry, maxima, counter, the whole HISTORY — except for the order inside the lookups (per id a
  permutation).  With `TightMax s` (no id was issued and abandoned) `tightened s` IS `s` with its
  history cleared.  The order inside a lookup list cannot influence a later step on a valid solution
  (`C14_reload_step_congr`, the congruence lemma for `step`); on an invalid one it can
  (`C14_reload_note_order_needs_valid`).
-/
import FtProofs.R8SSimLemmas
import FtProofs.R4ALemmas
import FtProofs.Props.C14_R5A
import FtProofs.Props.C02_R3D_main
open Ft Ft.St Ft.R2A1 Ft.R3P Ft.R3D Ft.R5A Ft.R8S Ft.Export

/-! ## the example states -/

namespace C14R8SEx

/-- graph only, position key 7, free feature 9, edge feature 12; a division (2 → {3, 4}), a skip edge
    (3@2 → 6@4), three lineages (1, 5, 8), non-contiguous track ids (1, 4, 7, 9, 12) and lineage ids:
    1@0 → 2@1 → {3@2, 4@2}, 3 → 6@4; 5@1 and 7@3 isolated -/
def X8 : St :=
  { nodes := [⟨1, 0, 1, some 1, [(7, .tok 10)]⟩, ⟨2, 1, 1, some 1, [(7, .tok 20), (9, .tok 5)]⟩,
              ⟨3, 2, 4, some 1, [(7, .tok 30)]⟩, ⟨4, 2, 7, some 1, [(7, .tok 40), (9, .none)]⟩,
              ⟨5, 1, 9, some 5, [(7, .tok 50)]⟩, ⟨6, 4, 4, some 1, [(7, .tok 60)]⟩,
              ⟨7, 3, 12, some 8, [(7, .tok 70), (9, .tok 6)]⟩]
    edges := [⟨(1, 2), [(12, .tok 70)]⟩, ⟨(2, 3), []⟩, ⟨(2, 4), []⟩, ⟨(3, 6), []⟩]
    posKeys := [7], regNode := [7, 9], regEdge := [12]
    t2n := [(1, [1, 2]), (4, [3, 6]), (7, [4]), (9, [5]), (12, [7])]
    l2n := [(1, [1, 2, 3, 4, 6]), (5, [5]), (8, [7])]
    maxTid := 12, maxLin := 8, counter := 1 }

/-- an editing session: delete node 7 (the top track id 12 and lineage id 8 go out of use), delete the
    division edge 2 → 3 (lineage 9 is issued), undo it (lineage 9 is abandoned; the nodes return to
    their lookup lists at the END), ask for two fresh node ids -/
def sessW : List Op := [.delNode 7, .delEdge (2, 3), .undo, .qNewIds 2]

/-- the solution that is saved: `X8` after `sessW` -/
def W : St := reached X8 sessW

theorem X8_inv : Inv X8 := R4A.invB_sound (by decide)
theorem sessW_ok : SessOK X8 sessW := R4A.sessOKB_sound (by decide +kernel)
theorem W_inv : Inv W := (C03_reach X8 rfl X8_inv sessW sessW_ok).2.1

/-- a later session on the reloaded / original object: a split, a node inserted into track 4 between
    3@2 and 6@4, undo, a neighbour query, a refused swap, an attribute update -/
def opsC : List Op :=
  [.delEdge (1, 2), .addNode ⟨8, some 3, some 4, none, [(7, .tok 80)], none, false⟩, .undo,
   .qNeighbors 4 3, .swap 3 4, .updAttrs 5 [(9, .tok 3)]]

/-- the session on which the reloaded object and the original diverge: split 3 → 6 (node 6 gets the
    next fresh track id), add node 8@5 asking for track 10, link 6 → 8 -/
def opsA : List Op :=
  [.delEdge (3, 6), .addNode ⟨8, some 5, some 10, none, [(7, .tok 80)], none, false⟩, .addEdge (6, 8) false]

/-- an INVALID object: nodes 2 and 3 of track 1 sit in the same frame -/
def N1 : St :=
  { nodes := [⟨1, 0, 1, some 1, []⟩, ⟨2, 1, 1, some 1, []⟩, ⟨3, 1, 1, some 1, []⟩]
    t2n := [(1, [1, 2, 3])], l2n := [(1, [1, 2, 3])], maxTid := 1, maxLin := 1, counter := 4 }
/-- the same object with nodes 2 and 3 listed in the other order -/
def N2 : St := { N1 with t2n := [(1, [1, 3, 2])] }

end C14R8SEx
open C14R8SEx

/-! ## the reloaded object -/

/-- **`reload s` is what `load_tracks(save_tracks(s))` builds.** For an `Inv` state (per-axis position
    storage: with the hypotheses of `C14_after_session_internal`): decoding the saved files gives the
    table of `reload s` (= the table of `s`: `C14_internal`); the bookkeeping of `reload s` is what the
    R7S construction model (`Construct.mkTrack` = `TrackAnnotator.__init__` with both id keys given)
    builds from the stored ids, "from the graph", nothing recomputed; the history is empty and the
    node-id counter is 1. -/
theorem C14_reload_is_load (enc : Ft.Val → Nat) (ndim : Nat) (scale : Option (List Nat)) (s : St)
    (hI : Inv s) (hpa : 1 < s.posKeys.length → PosSrc s ∧ s.posKeys.length = ndim - 1) :
    decodeInternal (encodeInternal (toExport enc ndim scale s)) = some (toExport enc ndim scale (reload s)) ∧
    toExport enc ndim scale (reload s) = toExport enc ndim scale s ∧
    (reload s).hist = {} ∧ (reload s).counter = 1 ∧
    (s.nodes ≠ [] →
      (Construct.mkTrack (cnodes s) (some tKey) (some lKey)).t2n = (reload s).t2n ∧
      (Construct.mkTrack (cnodes s) (some tKey) (some lKey)).maxT = (reload s).maxTid ∧
      (Construct.mkTrack (cnodes s) (some tKey) (some lKey)).l2n = (reload s).l2n ∧
      (Construct.mkTrack (cnodes s) (some tKey) (some lKey)).maxL = (reload s).maxLin ∧
      (Construct.mkTrack (cnodes s) (some tKey) (some lKey)).tSrc = Construct.BookSrc.fromGraph ∧
      (Construct.mkTrack (cnodes s) (some tKey) (some lKey)).lSrc = Construct.BookSrc.fromGraph) := by
  refine ⟨?_, rfl, rfl, rfl, fun h => reload_book_mkTrack s h⟩
  show decodeInternal (encodeInternal (toExport enc ndim scale s)) = some (toExport enc ndim scale s)
  refine C14_internal _ (fun hp => ?_)
  have h1 : 1 < s.posKeys.length := of_decide_eq_true hp
  obtain ⟨hP, hd⟩ := hpa h1
  exact (C14_export_wf_of_inv enc ndim scale s hI (posVals_of_inv hI hP) hd).1.pos_len
example : decodeInternal (encodeInternal (toExport C14R5AEx.encEx 3 none W)) =
      some (toExport C14R5AEx.encEx 3 none (reload W)) ∧
    (reload W).t2n = [(1, [1, 2]), (4, [3, 6]), (7, [4]), (9, [5])] ∧
    (reload W).l2n = [(1, [1, 2, 3, 4, 6]), (5, [5])] ∧
    W.t2n = [(1, [1, 2]), (9, [5]), (4, [3, 6]), (7, [4])] ∧ W.l2n = [(1, [1, 2, 3, 6, 4]), (5, [5])] :=
  ⟨(C14_reload_is_load C14R5AEx.encEx 3 none W W_inv (fun h => absurd h (by decide))).1,
    by decide +kernel, by decide +kernel, by decide +kernel, by decide +kernel⟩
#print axioms C14_reload_is_load

/-- **the reloaded object satisfies the bundle invariant** — so `C03_reach`, `C01_user_all`,
    `C02_session_valid`, `C01_undo_restores`, `C14_after_session_*` (start state with `Inv` and empty
    history) and `C20_refresh` apply to every admissible session on a reloaded solution. -/
theorem C14_reload_inv (s : St) (hI : Inv s) :
    Inv (reload s) ∧ (reload s).hist = {} ∧ E (reload s) s := ⟨inv_reload hI, rfl, E_reload hI⟩
-- the whole-history theorem on the reloaded object
example : Inv (reload W) ∧ (reached (reload W) opsC).Valid ∧ (reached (reload W) opsC).ids = [1, 2, 3, 4, 5, 6] :=
  ⟨(C14_reload_inv W W_inv).1,
   (C03_reach (reload W) rfl (C14_reload_inv W W_inv).1 opsC (R4A.sessOKB_sound (by decide +kernel))).2.2.1,
   by decide +kernel⟩
#print axioms C14_reload_inv

/-- **what the reloaded object shows.** For an `Inv` state: the node list, the edge list (with every
    attribute), the label array and the registry (registered keys, position keys, activation flags)
    are LITERALLY those of `s`, hence every reader of the graph agrees; under every id the rebuilt
    lookups list exactly the nodes that carry it, in node insertion order (`nodesT` / `nodesL`) — a
    permutation of what `s` lists, and an id that no node carries has no entry; the rebuilt maxima are
    the largest ids in use: they bound every id and never exceed the maxima of `s`; the node-id
    counter is 1, the history empty.  (`ObsEq` and `E`: the equivalences of the history theorems.) -/
theorem C14_reload_same_observables (s : St) (hI : Inv s) :
    ((reload s).nodes = s.nodes ∧ (reload s).edges = s.edges ∧ (reload s).seg = s.seg ∧
      (reload s).reg = s.reg) ∧
    (∀ n k, (reload s).otherOf n k = s.otherOf n k ∧ (reload s).tidOf n = s.tidOf n ∧
      (reload s).linOf n = s.linOf n ∧ (reload s).timeOf n = s.timeOf n) ∧
    (∀ id, ((alook id (reload s).t2n).getD []).Perm ((alook id s.t2n).getD []) ∧
           ((alook id (reload s).l2n).getD []).Perm ((alook id s.l2n).getD [])) ∧
    (∀ id, alook id (reload s).t2n = (if nodesT s id = [] then none else some (nodesT s id)) ∧
           alook id (reload s).l2n = (if nodesL s id = [] then none else some (nodesL s id))) ∧
    ((reload s).maxTid = tightT s ∧ (reload s).maxLin = tightL s ∧
      tightT s ≤ s.maxTid ∧ tightL s ≤ s.maxLin ∧
      (∀ r ∈ s.nodes, r.tid ≤ tightT s ∧ ∀ l, r.lin = some l → l ≤ tightL s)) ∧
    ((reload s).counter = 1 ∧ (reload s).hist = {}) ∧
    ObsEq (reload s) s := by
  have hE := E_reload hI
  have hw := wf_reload hI.good.wf
  refine ⟨⟨rfl, rfl, rfl, rfl⟩, fun _ _ => ⟨rfl, rfl, rfl, rfl⟩, fun id => ⟨?_, ?_⟩,
    fun id => ⟨alook_reload_t2n s id, alook_reload_l2n s id⟩,
    ⟨reload_maxTid s, reload_maxLin s, tightT_le hI.good.max, tightL_le hI.good.max hI.valid.linOn,
      fun r hr => ⟨tid_le_tightT hr, fun l hl => lin_le_tightL hr hl⟩⟩, ⟨rfl, rfl⟩, hE.1⟩
  · exact perm_of_inBook hw.t2n hI.good.wf.t2n hE.1.t2n id
  · exact perm_of_inBook hw.l2n hI.good.wf.l2n hE.1.l2n id
example : (reload W).nodes = W.nodes ∧
    ((alook 1 (reload W).l2n).getD []).Perm ((alook 1 W.l2n).getD []) ∧
    alook 1 (reload W).l2n = some [1, 2, 3, 4, 6] ∧ alook 1 W.l2n = some [1, 2, 3, 6, 4] ∧
    alook 12 (reload W).t2n = none :=
  ⟨rfl, ((C14_reload_same_observables W W_inv).2.2.1 1).2, by decide +kernel, by decide +kernel,
    by decide +kernel⟩
#print axioms C14_reload_same_observables

/-- **what differs** (witness by evaluation on `W` = `X8` after the session `sessW`; the same numbers on
    the real code: `SolutionTracks` built from the graph of `X8`, `UserDeleteNode(7)`,
    `UserDeleteEdge((2, 3))`, `undo()`, `_get_new_node_ids(2)`, `save_tracks`, `load_tracks`): the live object remembers the ids it issued
    (`max_tracklet_id = 12`, `max_lineage_id = 9`), the reloaded one rebuilds the largest ids in use
    (9 and 5); the node-id counter restarts at 1; the history is gone; the lookup dicts have another
    key order and the list of lineage 1 another node order.  `W` is neither `TightMax` nor
    `BookCanon`. -/
theorem C14_reload_note_what_differs :
    Inv W ∧
    (W.maxTid = 12 ∧ (reload W).maxTid = 9 ∧ W.maxLin = 9 ∧ (reload W).maxLin = 5) ∧
    (W.counter = 9 ∧ (reload W).counter = 1) ∧
    (W.hist.undo.length = 2 ∧ W.hist.redo.length = 1 ∧ (reload W).hist.undo = [] ∧ (reload W).hist.redo = []) ∧
    (W.t2n.map (·.1) = [1, 9, 4, 7] ∧ (reload W).t2n.map (·.1) = [1, 4, 7, 9]) ∧
    (alook 1 W.l2n = some [1, 2, 3, 6, 4] ∧ alook 1 (reload W).l2n = some [1, 2, 3, 4, 6]) ∧
    ¬ TightMax W ∧ ¬ BookCanon W ∧
    -- the queries that read the counters answer differently
    (outs W [.qNewIds 1] = [.nodes [some 9]] ∧ outs (reload W) [.qNewIds 1] = [.nodes [some 7]]) := by
  refine ⟨W_inv, ?_, ?_, ?_, ?_, ?_, ?_, ?_, ?_⟩ <;> decide +kernel
#print axioms C14_reload_note_what_differs

/-! ## the bisimulation -/

/-
  FULL STRENGTH (FALSE of the model and of the real code, see the witness below):

    theorem C14_reload_bisim (s : St) (hI : Inv s) (ops : List Op) (hs : SessOK (cleared s) ops) :
        outs (reload s) ops = outs (cleared s) ops ∧
        ObsEq (reached (reload s) ops) (reached (cleared s) ops)

  where `cleared s` is `s` with its history, node-id counter and refresh log reset.
-/

/-- **the full-strength bisimulation is false** (witness by evaluation; replayed on the real code).
    `W` (an `Inv` state reached by an admissible session) has `max_tracklet_id = 12` although the
    largest track id in use is 9; the reloaded object has 9.  The operation list `opsA` is admissible
    from `cleared W`.  Its first step (delete the edge 3 → 6) is accepted on both sides, but node 6
    gets track id 13 on the original and 10 on the reloaded object (lineage 10 vs 6): the OBSERVABLES
    differ after one step.  Step 2 adds node 8@5 asking for track 10: on the reloaded object that is
    the track of node 6, the new node is linked 6 → 8; on the original track 10 does not exist, the
    node stays alone.  Step 3 (`UserAddEdge (6, 8)`) is then REFUSED on the reloaded object (node 8
    already has a parent: "Cannot make a merge edge", forceable) and ACCEPTED on the original: the
    OUTCOMES differ.
    Real code (same graph, `UserDeleteNode(7)`, `UserDeleteEdge((2,3))`, `undo()`,
    `_get_new_node_ids(2)`, then `save_tracks` / `load_tracks(solution=True)` against a deep copy with a
    fresh `ActionHistory`): `['ok', 'ok', 'InvalidActionError: Cannot make a merge edge …']` on the
    reloaded object, `['ok', 'ok', 'ok']` on the original; track ids of node 6: 10 / 13. -/
theorem C14_counterexample_reload_bisim :
    Inv W ∧ SessOK (cleared W) opsA ∧
    outs (cleared W) opsA = [.ok, .ok, .ok] ∧
    outs (reload W) opsA = [.ok, .ok, .err .forceable] ∧
    ((reached (cleared W) [.delEdge (3, 6)]).tidOf 6 = some 13 ∧
      (reached (reload W) [.delEdge (3, 6)]).tidOf 6 = some 10 ∧
      (reached (cleared W) [.delEdge (3, 6)]).linOf 6 = some 10 ∧
      (reached (reload W) [.delEdge (3, 6)]).linOf 6 = some 6) ∧
    ((reached (cleared W) (opsA.take 2)).edgeList = [(1, 2), (2, 4), (2, 3)] ∧
      (reached (reload W) (opsA.take 2)).edgeList = [(1, 2), (2, 4), (2, 3), (6, 8)]) := by
  refine ⟨W_inv, R4A.sessOKB_sound (by decide +kernel), ?_, ?_, ?_, ?_⟩ <;> decide +kernel
#print axioms C14_counterexample_reload_bisim

/-- **the congruence lemma for `step`.** `Sim s t`: `t` is `s` with other lookups that list, under
    every id, a permutation of what `s` lists (every other field — nodes, edges, array, registry,
    maxima, counter, history, refresh log — equal).  From a `Valid` solution, every operation other
    than a feature switch gives the same outcome on both and keeps the relation.  (`Valid` is used in
    one place: the nodes of a track have pairwise distinct times, so the stable sort of
    `get_track_neighbors` has one possible result — in the start state and in the middle state of
    `UserDeleteNode`.) -/
theorem C14_reload_step_congr (s t : St) (h : Sim s t) (hV : s.Valid) (op : Op) (hop : NoSwitch op) :
    (t.step op).2 = (s.step op).2 ∧ Sim (s.step op).1 (t.step op).1 :=
  ⟨(step_sim h hV op hop).2, (step_sim h hV op hop).1⟩
example : Sim (tightened W) (reload W) ∧ (tightened W).Valid ∧
    ((reload W).step (.delEdge (3, 6))).2 = .ok ∧
    ((tightened W).step (.delEdge (3, 6))).1.t2n ≠ ((reload W).step (.delEdge (3, 6))).1.t2n := by
  have hs : Sim (tightened W) (reload W) := sim_tightened_reload W_inv
  have hv := (inv_tightened W_inv).valid
  refine ⟨hs, hv, ?_, by decide +kernel⟩
  rw [(C14_reload_step_congr _ _ hs hv (.delEdge (3, 6)) trivial).1]
  decide +kernel
#print axioms C14_reload_step_congr

/-- **the order inside a lookup list can matter on an INVALID object** (witness by evaluation): `N1`
    and `N2` differ in the order of the nodes 2 and 3 listed under track 1 only (`Sim N1 N2`); both
    nodes sit in frame 1 (two nodes of one track in one frame: `TidOK` fails); the stable sort of
    `get_track_neighbors(1, 2)` keeps the listed order and the predecessor returned is 3 on `N1` and 2
    on `N2`.  So the hypothesis `Valid` of `C14_reload_step_congr` cannot be dropped. -/
theorem C14_reload_note_order_needs_valid :
    Sim N1 N2 ∧ ¬ N1.TidOK ∧
    (N1.step (.qNeighbors 1 2)).2 = .nodes [some 3, none] ∧
    (N2.step (.qNeighbors 1 2)).2 = .nodes [some 2, none] := by
  refine ⟨⟨rfl, ⟨by decide, by decide, fun k => ?_⟩, BS.refl (by decide)⟩, fun h => ?_, by decide, by decide⟩
  · show LRel (alook k [(1, [1, 2, 3])]) (alook k [(1, [1, 3, 2])])
    unfold LRel
    by_cases hk : k = 1
    · subst hk; decide
    · have : ((1 : Nat) == k) = false := by simpa using fun e => hk e.symm
      simp [alook, this]
  · exact h.heads 2 3 ⟨by decide, fun p hp => by simp [N1, St.edgeList] at hp⟩
      ⟨by decide, fun p hp => by simp [N1, St.edgeList] at hp⟩ (by decide) (by decide)
#print axioms C14_reload_note_order_needs_valid

/-- **the bisimulation that holds** (`_partial`: the id maxima of the comparison object are the rebuilt
    ones; everything else of the full statement is proved, and the witness above shows that this
    restriction cannot be removed).  For every `Inv` state `s` and EVERY operation list that is
    admissible from `tightened s` (`SessOK`: undo, redo, queries, the seven edits under `OpPre` —
    accepted or refused): running it from `reload s` and from `tightened s` gives the same outcome at
    every step (`outs`), and the two final states are equal field by field — nodes, edges, attributes,
    array, registry, id maxima, node-id counter, the whole history and the refresh log — except for
    the order inside the lookups, which list under every id permutations of each other (`Sim`); the
    state reached from `reload s` satisfies `Inv` and is `ObsEq` to the other one; the same after every
    prefix of the list.
    `tightened s` is `s` with history, node-id counter and refresh log cleared and `max_tracklet_id` /
    `max_lineage_id` lowered to the largest id in use; when `s` never issued an id that is out of use
    now (`TightMax s`) it IS `s` with its history cleared; when moreover the lookups of `s` are in
    graph order (`BookCanon s`) `reload s` is literally that state. -/
theorem C14_reload_bisim_partial (s : St) (hI : Inv s) (ops : List Op) (hs : SessOK (tightened s) ops) :
    outs (reload s) ops = outs (tightened s) ops ∧
    Sim (reached (tightened s) ops) (reached (reload s) ops) ∧
    Inv (reached (reload s) ops) ∧ ObsEq (reached (reload s) ops) (reached (tightened s) ops) ∧
    (∀ pre, pre <+: ops → outs (reload s) pre = outs (tightened s) pre ∧
      Sim (reached (tightened s) pre) (reached (reload s) pre) ∧ Inv (reached (reload s) pre)) ∧
    (TightMax s → tightened s = cleared s) ∧ (BookCanon s → reload s = tightened s) := by
  obtain ⟨h1, h2, h3, h4⟩ := bisim_core hI ops hs
  refine ⟨h1, h2, h3, h4, fun pre hp => ?_, tightened_eq_cleared, reload_eq_tightened⟩
  obtain ⟨r, rfl⟩ := hp
  obtain ⟨g1, g2, g3, -⟩ := bisim_core hI pre (sessOK_append pre r _ hs)
  exact ⟨g1, g2, g3⟩
-- `W` (maxima not tight, lookups not in graph order, non-empty history) and the session `opsC`: the same
-- six outcomes, final lookups with different key orders, everything else equal
example : SessOK (tightened W) opsC ∧
    outs (reload W) opsC = [.ok, .ok, .bool true, .nodes [some 3, some 6], .err .invalid, .ok] ∧
    outs (reload W) opsC = outs (tightened W) opsC ∧
    (reached (reload W) opsC).t2n = [(1, [1]), (4, [3, 6]), (7, [4]), (9, [5]), (10, [2])] ∧
    (reached (tightened W) opsC).t2n = [(1, [1]), (9, [5]), (4, [3, 6]), (7, [4]), (10, [2])] ∧
    (reached (reload W) opsC).hist.undo.length = 4 ∧
    Sim (reached (tightened W) opsC) (reached (reload W) opsC) := by
  have hs : SessOK (tightened W) opsC := R4A.sessOKB_sound (by decide +kernel)
  obtain ⟨h1, h2, -⟩ := C14_reload_bisim_partial W W_inv opsC hs
  exact ⟨hs, by decide +kernel, h1, by decide +kernel, by decide +kernel, by decide +kernel, h2⟩
-- a state with tight maxima: `X8` itself (its lookups are in graph order too) — there the comparison
-- object is `X8` with its history cleared, and `reload X8` is literally that object
example : TightMax X8 ∧ BookCanon X8 ∧ tightened X8 = cleared X8 ∧ reload X8 = cleared X8 := by
  have h := C14_reload_bisim_partial X8 X8_inv [] trivial
  have t : TightMax X8 := by decide
  have b : BookCanon X8 := by decide
  exact ⟨t, b, h.2.2.2.2.2.1 t, (h.2.2.2.2.2.2 b).trans (h.2.2.2.2.2.1 t)⟩
#print axioms C14_reload_bisim_partial
