/-
  C14 / C15 (package R5A) — **exports of every state an editing session can reach.**

  C14: "Writing any reachable tracks - also after an editing session - to CSV, GEFF or the internal
  save format and reading it back … yields the same nodes, edges, times, positions and track ids …".
  `Props/C14.lean` / `Props/C15.lean` prove the round-trip and closure statements for every TABLE
  (`Ft.Export.Tracks`) that satisfies `Export.WF` / `TimeInc` / `EdgesIn`.  Here those hypotheses are
  derived for the table of every state of the SESSION model (`Ft.St`) that an admissible operation
  list reaches — exactly the hypotheses of `C03_reach` (`Inv` start state, empty history, `SessOK`)
  plus two explicit ones that `Inv` does not contain:

  * `PosSrc s0`  "with an array, the position keys are active regionprops keys" (without array it
                 holds trivially: `s.seg = none ∨ …`).  Needed: with an array a node created from
                 pixels gets its position only from the regionprops annotator — if the position key is
                 a static attribute (or a switched-off feature), an accepted paint leaves a node
                 WITHOUT position and the table is not `WF` (`C14_export_needs_posSrc`, by `decide`).
                 It is a registry condition, `E`-invariant and preserved by every accepted edit
                 (`C14_posSrc_step`), hence by every admissible session (`C14_posSrc_reach`).
  * `s0.posKeys.length = ndim - 1`  one stored position value per spatial axis (`toExport`), or
                 `s0.posKeys.length * w = ndim - 1` when one stored value stands for `w` axes
                 (`toExportP`; single-key storage `pos_attr = "pos"`: one key, `w = ndim - 1`).
                 `ndim` is a parameter of the table, not part of the session state.

  `Ft.R5A.toExport enc ndim scale s` (FtProofs/R5ALemmas.lean, table in its header) is the table the
  exporters see; `C14_export_faithful` pins it down in terms of the session state's own readers
  (`ids`, `timeOf`, `tidOf`, `linOf`, `otherOf`, `edgeList`, `preds`, the array), so the theorems
  below are statements about the session state and not about an arbitrary encoding.
  `Ft.R5A.reached s0 ops` is the state after the operation list (`= (sessFinal s0 ⟨[s0], 0⟩ ops).1
  = ops.foldl step s0`, `C14_reached_eq`).

  `enc : Ft.Val → Nat` (how an opaque session value becomes an opaque file token) is universally
  quantified everywhere.

  Theorems
  * one state:   `C14_export_wf_of_inv` (+ `_pos`), `C14_export_positions`, `C14_export_faithful`
  * invariant:   `C14_reached_eq`, `C14_posSrc_step`, `C14_posSrc_reach`, `C14_export_needs_posSrc`
                 (witness: `Inv` alone is not enough), `C14_counterexample_position_switched_off`
                 (witness with `disable`: the round trip fails; replayed on the real code)
  * C14:         `C14_after_session_csv`, `C14_after_session_geff` (hypotheses of `C03_reach` + `PosSrc`
                 + dimension), `C14_after_session_internal` (hypotheses of `C03_reach`; `PosSrc` +
                 dimension for per-axis storage only), `C14_after_session_pos` (all three, `toExportP`)
  * C15:         `C15_after_session`, `C15_after_session_seg` (EXACTLY the hypotheses of `C03_reach`),
                 `C15_after_session_csv` (+ `PosSrc` + dimension: the rows carry the position)
-/
import FtProofs.R5ALemmas
import FtProofs.R4ALemmas
import FtProofs.Props.C14
import FtProofs.Props.C15
import FtProofs.Props.C02_R3D_main
open Ft Ft.R3D Ft.R5A Ft.Export

/-! ## the example states -/

namespace C14R5AEx

/-- how the examples turn a session value into a file token -/
def encEx : Ft.Val → Nat
  | .tok n => n.toNat
  | .mask ps => 100 + ps.foldl (· + ·) 0
  | .iou i u => 1000 + 10 * i + u
  | .zero => 1000
  | .none => 0

/-- graph only, 2D+t, per-axis position storage (keys 7 = y, 8 = x), a free feature 9, an edge
    feature 12: 1@0 → 2@1 → {3@2, 4@2}, 5@1 and 6@3 isolated; node 3 stores x before y, node 4
    stores `None` under 9 -/
def X6 : St :=
  { nodes := [⟨1, 0, 1, some 1, [(7, .tok 10), (8, .tok 11)]⟩,
              ⟨2, 1, 1, some 1, [(7, .tok 20), (8, .tok 21), (9, .tok 5)]⟩,
              ⟨3, 2, 2, some 1, [(8, .tok 31), (7, .tok 30)]⟩,
              ⟨4, 2, 3, some 1, [(7, .tok 40), (8, .tok 41), (9, .none)]⟩,
              ⟨5, 1, 4, some 2, [(7, .tok 50), (8, .tok 51)]⟩,
              ⟨6, 3, 5, some 3, [(7, .tok 60), (8, .tok 61), (9, .tok 6)]⟩]
    edges := [⟨(1, 2), [(12, .tok 70)]⟩, ⟨(2, 3), []⟩, ⟨(2, 4), []⟩]
    posKeys := [7, 8], regNode := [7, 8, 9], regEdge := [12]
    t2n := [(1, [1, 2]), (2, [3]), (3, [4]), (4, [5]), (5, [6])]
    l2n := [(1, [1, 2, 3, 4]), (2, [5]), (3, [6])]
    maxTid := 5, maxLin := 3, counter := 7 }

/-- an edge edit (4 → 6: node 6 joins track 3 / lineage 1), a node delete (the dividing node 2: its
    children become roots of new lineages), an undo (node 2 and its three edges come back — at the
    END of the insertion orders) -/
def sess6 : List Op := [.addEdge (4, 6) false, .delNode 2, .undo]

theorem X6_inv : Inv X6 := R4A.invB_sound (by decide)
theorem sess6_ok : SessOK X6 sess6 := R4A.sessOKB_sound (by decide +kernel)

/-- the array state `XA` of R3D (1@0 → {2@1, 3@1}, 2 → 4@3, 5@2 isolated; 4 frames of 4 pixels,
    regionprops key 10 and IoU key 11 active) with the position key being the regionprops key 10
    (in `XA` itself the position key is the static attribute 7) -/
abbrev XP : St := { C01R3CEx.XA with posKeys := [10] }

def sessP : List Op := [.delEdge (1, 2), .delNode 5, .undo]

theorem XP_inv : Inv XP := R4A.invB_sound (by decide)
theorem sessP_ok : SessOK XP sessP := R4A.sessOKB_sound (by decide +kernel)

/-- the table of `reached X6 sess6` -/
def T6 : Tracks :=
  { ndim := 3
    nodes := [⟨1, 0, 1, 1, [10, 11], []⟩, ⟨3, 2, 2, 1, [30, 31], []⟩, ⟨4, 2, 3, 1, [40, 41], []⟩,
              ⟨5, 1, 4, 2, [50, 51], []⟩, ⟨6, 3, 3, 1, [60, 61], [(9, [6])]⟩,
              ⟨2, 1, 1, 1, [20, 21], [(9, [5])]⟩]
    edges := [⟨4, 6, []⟩, ⟨2, 4, []⟩, ⟨2, 3, []⟩, ⟨1, 2, [(12, [70])]⟩]
    seg := none, scale := none, registry := [0, 1, 2, 7, 8, 9, 12], perAxis := true }

theorem T6_eq : toExport encEx 3 none (reached X6 sess6) = T6 := by decide

/-- the table of `reached XP sessP` -/
def TP : Tracks :=
  { ndim := 2
    nodes := [⟨1, 0, 1, 1, [100], [(7, [0])]⟩, ⟨2, 1, 2, 3, [109], [(7, [1])]⟩,
              ⟨3, 1, 1, 1, [106], [(7, [2])]⟩, ⟨4, 3, 2, 3, [125], [(7, [3])]⟩,
              ⟨5, 2, 4, 2, [108], [(7, [4])]⟩]
    edges := [⟨1, 3, [(11, [1000])]⟩, ⟨2, 4, [(11, [1022])]⟩]
    seg := some [[1, 0, 0, 0], [2, 2, 3, 0], [5, 0, 0, 0], [4, 4, 0, 0]]
    scale := some [1, 1], registry := [0, 1, 2, 7, 10, 11], perAxis := false }

theorem TP_eq : toExport encEx 2 (some [1, 1]) (reached XP sessP) = TP := by decide

end C14R5AEx
open C14R5AEx

/-! ## the table of one state -/

/-- **`Inv` ⇒ the hypotheses of C14 / C15.** For a state with the bundle invariant of R3D in which
    every node carries a value under every position key (`PosVals`; see `C14_export_positions` for
    where it comes from) and which stores one position value per spatial axis: the table the
    exporters see is well-formed (`Export.WF`: distinct ids, distinct edges whose child is a node, at
    most one parent, one position value per axis), every edge goes forward in time (`TimeInc`) and
    both endpoints of every edge are nodes (`EdgesIn`). -/
theorem C14_export_wf_of_inv (enc : Ft.Val → Nat) (ndim : Nat) (scale : Option (List Nat)) (s : St)
    (hI : Inv s) (hV : PosVals s) (hd : s.posKeys.length = ndim - 1) :
    WF (toExport enc ndim scale s) ∧ TimeInc (toExport enc ndim scale s) ∧
    EdgesIn (toExport enc ndim scale s) :=
  wf_of_inv (w := 1) (fun _ _ => rfl) (by rw [Nat.mul_one]; exact hd) hI hV
example : Inv X6 ∧ PosVals X6 ∧ X6.posKeys.length = 3 - 1 ∧ WF (toExport encEx 3 none X6) ∧
    Inv XP ∧ PosVals XP ∧ WF (toExport encEx 2 none XP) ∧ TimeInc (toExport encEx 2 none XP) :=
  ⟨X6_inv, by decide, rfl, by decide, XP_inv, by decide, by decide, by decide⟩
#print axioms C14_export_wf_of_inv

/-- the same when one stored position value stands for `w` axes (`encP v` is its coordinate list):
    single-key storage `pos_attr = "pos"` is one key with `w = ndim - 1`. -/
theorem C14_export_wf_of_inv_pos (encP : Ft.Val → List Nat) (enc : Ft.Val → Nat) (ndim w : Nat)
    (scale : Option (List Nat)) (s : St) (hw : ∀ v, v ≠ Ft.Val.none → (encP v).length = w)
    (hI : Inv s) (hV : PosVals s) (hd : s.posKeys.length * w = ndim - 1) :
    WF (toExportP encP enc ndim scale s) ∧ TimeInc (toExportP encP enc ndim scale s) ∧
    EdgesIn (toExportP encP enc ndim scale s) :=
  wf_of_inv hw hd hI hV
-- `XG` (graph only, ONE position key 7) exported as 2D+t: the stored token `n` stands for `[n, n+1]`
example : WF (toExportP (fun v => [encEx v, encEx v + 1]) encEx 3 none C01R3CEx.XG) ∧
    (toExportP (fun v => [encEx v, encEx v + 1]) encEx 3 none C01R3CEx.XG).nodes.map NodeRec.pos =
      [[0, 1], [1, 2], [2, 3], [3, 4], [4, 5]] ∧
    (toExportP (fun v => [encEx v, encEx v + 1]) encEx 3 none C01R3CEx.XG).perAxis = false :=
  ⟨(C14_export_wf_of_inv_pos _ encEx 3 2 none _ (fun _ _ => rfl) C02R3DEx.XG_inv (by decide) rfl).1,
    by decide, by decide⟩
#print axioms C14_export_wf_of_inv_pos

/-- **where the position values come from.** Without array, `Inv` contains them (`NodeInv.pos`,
    established by the `AddPre` of every node ever added).  With an array the position is a computed
    feature: under `PosSrc` (the position keys are ACTIVE regionprops keys) the stored value is the
    current mask value (`NodeInv.cur`) of a non-empty mask (`SegOK`), hence not `None`. -/
theorem C14_export_positions (s : St) (hI : Inv s) :
    (s.seg = none → PosSrc s) ∧ (PosSrc s → PosVals s) :=
  ⟨posSrc_of_seg_none, posVals_of_inv hI⟩
example : PosSrc X6 ∧ PosSrc XP ∧ ¬ PosSrc C01R3CEx.XA := by decide
#print axioms C14_export_positions

/-- **the table is the session state.** For an `Inv` state with its position values: the table has
    the state's node ids in insertion order with their time, track id and lineage id (the `none ↦ 0`
    of the lineage column is never taken: every node HAS a lineage id), the position is the list of
    the encoded values under the position keys in key order, `nodeAttr n k` (the read-only query of
    `Export.runRO`) is the encoded `get_node_attr(n, k)` for every non-position key with a non-`None`
    value and nothing otherwise, the edges are the state's edges in insertion order, predecessors
    and the ancestor relation are the state's, and the frames are the frames of the array. -/
theorem C14_export_faithful (enc : Ft.Val → Nat) (ndim : Nat) (scale : Option (List Nat)) (s : St)
    (hI : Inv s) (hV : PosVals s) :
    ids (toExport enc ndim scale s) = s.ids ∧
    (toExport enc ndim scale s).nodes.map (fun n => (n.id, n.time, n.tid, some n.lin)) =
      s.nodes.map (fun r => (r.id, r.time, r.tid, r.lin)) ∧
    (∀ n ∈ s.ids, (nodeOf (toExport enc ndim scale s) n).map (fun x => (some x.time, some x.tid, some x.lin))
      = some (s.timeOf n, s.tidOf n, s.linOf n)) ∧
    (∀ n ∈ s.ids, (nodeOf (toExport enc ndim scale s) n).map NodeRec.pos =
      some (s.posKeys.map (fun k => enc (s.otherOf n k)))) ∧
    (∀ n k, (nodeOf (toExport enc ndim scale s) n).bind (fun x => alook k x.feats) =
      if n ∈ s.ids ∧ k ∉ s.posKeys ∧ s.otherOf n k ≠ Ft.Val.none then some [enc (s.otherOf n k)]
      else none) ∧
    edgePairs (toExport enc ndim scale s) = s.edgeList ∧
    (∀ n, preds (toExport enc ndim scale s) n = s.preds n) ∧
    (∀ a n, Export.Anc (toExport enc ndim scale s) a n ↔ St.Anc s a n) ∧
    (toExport enc ndim scale s).seg = s.seg.map framesOf ∧
    (∀ g t p, s.seg = some g → t < g.nframes → p < g.frame →
      ((framesOf g)[t]?.bind (fun fr => fr[p]?)) = some (g.data.getD (t * g.frame + p) 0)) := by
  have hnd := hI.valid.forest.nodup_nodes
  have hfind : ∀ n ∈ s.ids, ∃ r, r ∈ s.nodes ∧ r.id = n ∧ s.findNode n = some r := by
    intro n hn
    obtain ⟨r, hr⟩ := St.findNode_of_mem hn
    obtain ⟨h1, h2⟩ := PC.findNode_some_mem hr
    exact ⟨r, h1, h2, hr⟩
  refine ⟨ids_toExportP s, ?_, ?_, ?_, ?_, edgePairs_toExportP s, preds_toExportP s, anc_iff s, rfl,
    fun g t p _ ht hp => framesOf_get g t p ht hp⟩
  · show (s.nodes.map _).map _ = _
    rw [List.map_map]
    apply List.map_congr_left
    intro r hr
    show (r.id, r.time, r.tid, some (nodeX _ enc s.posKeys r).lin) = _
    rw [← lin_some hI hr]
  · intro n hn
    obtain ⟨r, hr, hid, hf⟩ := hfind n hn
    show (nodeOf (toExportP _ enc ndim scale s) n).map _ = _
    rw [nodeOf_toExportP, hf]
    unfold St.timeOf St.tidOf St.linOf
    rw [hf]
    show some (some r.time, some r.tid, some (nodeX _ enc s.posKeys r).lin) = _
    rw [← lin_some hI hr]
    rfl
  · intro n hn
    obtain ⟨r, hr, hid, hf⟩ := hfind n hn
    show (nodeOf (toExportP _ enc ndim scale s) n).map _ = _
    rw [nodeOf_toExportP, hf]
    show some (posOfRec (fun v => [enc v]) s.posKeys r) = _
    rw [posOfRec_single r _ (hV r hr)]
    congr 1
    apply List.map_congr_left
    intro k _
    rw [← hid, otherOf_eq_recVal hnd hr]
  · intro n k
    show (nodeOf (toExportP _ enc ndim scale s) n).bind _ = _
    rw [nodeOf_toExportP]
    cases hf : s.findNode n with
    | none =>
      have hn : n ∉ s.ids := fun h => by
        obtain ⟨r, hr⟩ := St.findNode_of_mem h
        rw [hf] at hr; cases hr
      rw [if_neg (fun h => hn h.1)]
      rfl
    | some r =>
      obtain ⟨hr, hid⟩ := PC.findNode_some_mem hf
      have hn : n ∈ s.ids := List.mem_map.mpr ⟨r, hr, hid⟩
      show alook k (featsOf enc s.posKeys r.other) = _
      rw [alook_featsOf s.posKeys k r.other (hI.good.wf.nkeys r hr)]
      have ho : s.otherOf n k = (alook k r.other).getD Ft.Val.none := by
        unfold St.otherOf; rw [hf]
      rw [← ho]
      by_cases hc : s.posKeys.contains k = true ∨ s.otherOf n k = Ft.Val.none
      · rw [if_pos hc, if_neg]
        rintro ⟨_, h2, h3⟩
        rcases hc with hc | hc
        · exact h2 (List.contains_iff_mem.mp hc)
        · exact h3 hc
      · rw [if_neg hc, if_pos]
        refine ⟨hn, fun h => hc (Or.inl (List.contains_iff_mem.mpr h)), fun h => hc (Or.inr h)⟩
example : (∀ n ∈ X6.ids, (nodeOf (toExport encEx 3 none X6) n).map NodeRec.pos =
      some (X6.posKeys.map (fun k => encEx (X6.otherOf n k)))) ∧
    (nodeOf (toExport encEx 3 none X6) 3).map NodeRec.pos = some [30, 31] ∧
    (nodeOf (toExport encEx 3 none X6) 2).bind (fun x => alook 9 x.feats) = some [5] ∧
    (nodeOf (toExport encEx 3 none X6) 4).bind (fun x => alook 9 x.feats) = none ∧
    (nodeOf (toExport encEx 3 none X6) 2).bind (fun x => alook 7 x.feats) = none :=
  ⟨(C14_export_faithful encEx 3 none X6 X6_inv (by decide)).2.2.2.1, by decide, by decide, by decide,
    by decide⟩
#print axioms C14_export_faithful

/-! ## the extra invariant `PosSrc` -/

/-- `reached s0 ops` is the first component of `sessFinal` (the state `C03_reach` talks about), and
    simply the iteration of `St.step` -/
theorem C14_reached_eq (s0 : St) (ops : List Op) :
    reached s0 ops = (St.sessFinal s0 ⟨[s0], 0⟩ ops).1 ∧
    reached s0 ops = ops.foldl (fun x op => (x.step op).1) s0 :=
  ⟨rfl, reached_eq_foldl s0 ops⟩
example : (reached X6 sess6).ids = [1, 3, 4, 5, 6, 2] := by decide
#print axioms C14_reached_eq

/-- **`PosSrc` is preserved by every top-level edit** from an `Inv` state under the argument
    preconditions — accepted (the registry is untouched and no user action creates an array out of
    nothing) or refused (the state stays in the `E`-class). -/
theorem C14_posSrc_step (s : St) (op : Op) (he : op.isTopEdit = true) (hI : Inv s) (hpre : OpPre s op)
    (hQ : PosSrc s) : PosSrc (s.step op).1 := by
  rcases edit_out (s := s) he with h | ⟨e, h⟩
  · exact PosSrc.step_ok hI hQ he hpre h
  · exact PosSrc.of_E ((C01_user_all s op he hI hpre).2 e h).1 hQ
example : PosSrc (XP.step (.delNode 2)).1 ∧ PosSrc (X6.step (.delNode 2)).1 :=
  ⟨C14_posSrc_step XP _ rfl XP_inv trivial (by decide), C14_posSrc_step X6 _ rfl X6_inv trivial (by decide)⟩
#print axioms C14_posSrc_step

/-- **`PosSrc`, the position values and the registry at every reached state.** For every admissible
    operation list (edits accepted or refused, undo, redo, queries — the hypotheses of `C03_reach`)
    from an `Inv` start state with empty history that satisfies `PosSrc`: the reached state satisfies
    `Inv` and `PosSrc`, every node carries a value under every position key, and the registry
    (feature keys, position keys, activation flags) is the start state's. -/
theorem C14_posSrc_reach (s0 : St) (h0 : s0.hist = {}) (hI : Inv s0) (hP : PosSrc s0) (ops : List Op)
    (hs : SessOK s0 ops) :
    Inv (reached s0 ops) ∧ PosSrc (reached s0 ops) ∧ PosVals (reached s0 ops) ∧
    (reached s0 ops).reg = s0.reg :=
  reached_facts s0 h0 hI hP ops hs
example : PosVals (reached XP sessP) ∧ PosVals (reached X6 sess6) :=
  ⟨(C14_posSrc_reach XP rfl XP_inv (by decide) sessP sessP_ok).2.2.1,
    (C14_posSrc_reach X6 rfl X6_inv (by decide) sess6 sess6_ok).2.2.1⟩
#print axioms C14_posSrc_reach

/-- **`Inv` alone is not enough** (witness, by evaluation). `XA` satisfies `Inv`, has an array, and
    its position key 7 is a static attribute (not an active regionprops key: `¬ PosSrc XA`); every
    node carries a position, the table of `XA` is well-formed.  The admissible one-operation session
    "paint the new label 6 over a pixel of node 5 and two background pixels" is accepted, creates
    node 6 from its pixels — with the regionprops value 10 but WITHOUT a value under the position
    key —, the reached state satisfies `Inv` again (`C03_reach`), and its table is not well-formed
    (`pos_len` fails: the CSV / GEFF exporters have no position to write for node 6). -/
theorem C14_export_needs_posSrc :
    Inv C01R3CEx.XA ∧ ¬ PosSrc C01R3CEx.XA ∧ PosVals C01R3CEx.XA ∧
    WF (toExport encEx 2 none C01R3CEx.XA) ∧
    SessOK C01R3CEx.XA [.paint 6 [([8], 5), ([9, 10], 0)] 2 false] ∧
    (C01R3CEx.XA.step (.paint 6 [([8], 5), ([9, 10], 0)] 2 false)).2 = .ok ∧
    Inv (reached C01R3CEx.XA [.paint 6 [([8], 5), ([9, 10], 0)] 2 false]) ∧
    ¬ PosVals (reached C01R3CEx.XA [.paint 6 [([8], 5), ([9, 10], 0)] 2 false]) ∧
    (nodeOf (toExport encEx 2 none (reached C01R3CEx.XA [.paint 6 [([8], 5), ([9, 10], 0)] 2 false])) 6).map
      (fun x => (x.pos, x.feats)) = some ([], [(10, [127])]) ∧
    ¬ WF (toExport encEx 2 none (reached C01R3CEx.XA [.paint 6 [([8], 5), ([9, 10], 0)] 2 false])) := by
  have hs : SessOK C01R3CEx.XA [.paint 6 [([8], 5), ([9, 10], 0)] 2 false] :=
    R4A.sessOKB_sound (by decide +kernel)
  refine ⟨C02R3DEx.XA_inv, by decide, by decide, by decide, hs, by decide,
    (C03_reach _ rfl C02R3DEx.XA_inv _ hs).2.1, by decide, by decide, ?_⟩
  intro hw
  have := hw.pos_len
  revert this
  decide
#print axioms C14_export_needs_posSrc

/-- **C14 is false when the position feature is switched off** (witness by evaluation, outside the
    operation language of `C03_reach`: it uses `disable`).  On the array state `XP` (position key =
    regionprops key 10, active): `disable_features([10])` is accepted (the key leaves the registry,
    `posKeys` still names it: `PosSrc` is gone), the paint of the new label 6 (over the only pixel of
    node 5 and two background pixels of frame 2) is accepted and creates node 6 — on track 2, between
    nodes 2 and 4 — WITHOUT a position.  The table of that state has an empty position for node 6:
    the CSV and GEFF re-imports fail (`none`); the internal format (single position key) still
    round-trips.  Real code (replayed, `tests` fixture `get_tracks(ndim=3, with_seg=True,
    is_solution=True)`): `tracks.disable_features(["pos"])`, then `UserUpdateSegmentation` painting a
    new label — the new node has no `"pos"` attribute and `export_to_csv` raises `KeyError: 'pos'`
    (the model's exporter writes an empty cell instead of raising; either way nothing comes back). -/
theorem C14_counterexample_position_switched_off :
    (XP.step (.disable [10])).2 = .ok ∧ ¬ PosSrc (XP.step (.disable [10])).1 ∧
    ((XP.step (.disable [10])).1.step (.paint 6 [([8], 5), ([9, 10], 0)] 2 false)).2 = .ok ∧
    (toExport encEx 2 none ((XP.step (.disable [10])).1.step (.paint 6 [([8], 5), ([9, 10], 0)] 2 false)).1).nodes.map
      (fun n => (n.id, n.pos)) = [(1, [100]), (2, [109]), (3, [106]), (4, [125]), (6, [])] ∧
    decodeCsv 1 (encodeCsv (toExport encEx 2 none
      ((XP.step (.disable [10])).1.step (.paint 6 [([8], 5), ([9, 10], 0)] 2 false)).1) none) = none ∧
    decodeGeff 1 [] [] (encodeGeff 1 (toExport encEx 2 none
      ((XP.step (.disable [10])).1.step (.paint 6 [([8], 5), ([9, 10], 0)] 2 false)).1) none) = none ∧
    decodeInternal (encodeInternal (toExport encEx 2 none
      ((XP.step (.disable [10])).1.step (.paint 6 [([8], 5), ([9, 10], 0)] 2 false)).1)) =
      some (toExport encEx 2 none
        ((XP.step (.disable [10])).1.step (.paint 6 [([8], 5), ([9, 10], 0)] 2 false)).1) := by
  decide
#print axioms C14_counterexample_position_switched_off

/-! ## round trips of every reached state (C14) -/

/-- **CSV after any session.** For EVERY admissible operation list from an `Inv` start state with
    empty history (the hypotheses of `C03_reach`) with `PosSrc` and one position key per spatial
    axis: exporting the table of the reached state with the default column layout and re-importing it
    succeeds; the imported nodes are the reached state's nodes in insertion order with the same id,
    time and track id, the position is the list of the (encoded) values `get_node_attr` returns for
    the position keys, and the imported edges are the reached state's edges (up to order). -/
theorem C14_after_session_csv (enc : Ft.Val → Nat) (ndim : Nat) (scale : Option (List Nat))
    (s0 : St) (h0 : s0.hist = {}) (hI : Inv s0) (hP : PosSrc s0) (hd : s0.posKeys.length = ndim - 1)
    (ops : List Op) (hs : SessOK s0 ops) (T : Tracks) (hT : T = toExport enc ndim scale (reached s0 ops)) :
    ∃ t : CsvTracks, decodeCsv (nax T) (encodeCsv T none) = some t ∧
      t.nodes = T.nodes.map core ∧ t.edges.Perm (edgePairs T) ∧
      t.nodes.map (fun n => (n.id, n.time, n.tid)) =
        (reached s0 ops).nodes.map (fun r => (r.id, r.time, r.tid)) ∧
      t.nodes.map (fun n => n.pos) =
        (reached s0 ops).nodes.map (fun r => s0.posKeys.map (fun k => enc ((reached s0 ops).otherOf r.id k))) ∧
      t.edges.Perm (reached s0 ops).edgeList := by
  obtain ⟨hIr, -, hV, -⟩ := reached_facts s0 h0 hI hP ops hs
  have hk := reached_posKeys s0 h0 hI ops hs
  have hw := (C14_export_wf_of_inv enc ndim scale _ hIr hV (hk ▸ hd)).1
  subst hT
  obtain ⟨t, h1, h2, h3⟩ := C14_csv _ hw
  refine ⟨t, h1, h2, h3, ?_, ?_, ?_⟩
  · rw [h2]
    show ((((reached s0 ops).nodes.map _).map core).map _) = _
    rw [List.map_map, List.map_map]
    rfl
  · rw [h2]
    show ((((reached s0 ops).nodes.map _).map core).map _) = _
    rw [List.map_map, List.map_map]
    apply List.map_congr_left
    intro r hr
    show posOfRec (fun v => [enc v]) (reached s0 ops).posKeys r = _
    rw [posOfRec_single r _ (hV r hr), hk]
    apply List.map_congr_left
    intro k _
    rw [otherOf_eq_recVal hIr.valid.forest.nodup_nodes hr]
  · rw [← edgePairs_toExportP (encP := fun v => [enc v]) (enc := enc) (ndim := ndim) (scale := scale)]
    exact h3
-- the reached table `T6` written out (`T6_eq`), its round trip evaluated, and the theorem applied
example : toExport encEx 3 none (reached X6 sess6) = T6 ∧
    decodeCsv (nax T6) (encodeCsv T6 none) =
      some ⟨[⟨1, 0, 1, [10, 11]⟩, ⟨3, 2, 2, [30, 31]⟩, ⟨4, 2, 3, [40, 41]⟩, ⟨5, 1, 4, [50, 51]⟩,
             ⟨6, 3, 3, [60, 61]⟩, ⟨2, 1, 1, [20, 21]⟩], [(2, 3), (2, 4), (4, 6), (1, 2)]⟩ ∧
    (reached X6 sess6).edgeList = [(4, 6), (2, 4), (2, 3), (1, 2)] ∧
    ∃ t, decodeCsv (nax T6) (encodeCsv T6 none) = some t ∧ t.edges.Perm (reached X6 sess6).edgeList := by
  obtain ⟨t, h1, _, _, _, _, h6⟩ :=
    C14_after_session_csv encEx 3 none X6 rfl X6_inv (by decide) rfl sess6 sess6_ok T6 T6_eq.symm
  exact ⟨T6_eq, by decide, by decide, t, h1, h6⟩
#print axioms C14_after_session_csv

/-- **GEFF after any session.** Same hypotheses: `export_to_geff` of the table of the reached state
    followed by `import_from_geff` with the key map naming the node features `ks` and the edge
    features `eks` returns the reached state's nodes in insertion order — id, time, track id, lineage
    id (every node has one: the column is `some`), position — carrying exactly the features named in
    `ks`, its edges in insertion order with the features named in `eks`, and its label array frame
    by frame. -/
theorem C14_after_session_geff (enc : Ft.Val → Nat) (ndim : Nat) (scale : Option (List Nat)) (one : Nat)
    (ks eks : List Nat)
    (s0 : St) (h0 : s0.hist = {}) (hI : Inv s0) (hP : PosSrc s0) (hd : s0.posKeys.length = ndim - 1)
    (ops : List Op) (hs : SessOK s0 ops) (T : Tracks) (hT : T = toExport enc ndim scale (reached s0 ops)) :
    decodeGeff (nax T) ks eks (encodeGeff one T none) =
      some ⟨T.nodes.map (restrictN ks), T.edges.map (restrictE eks), T.seg⟩ ∧
    (T.nodes.map (restrictN ks)).map (fun n => (n.id, n.time, n.tid, some n.lin, n.pos)) =
      (reached s0 ops).nodes.map (fun r => (r.id, r.time, r.tid, r.lin,
        s0.posKeys.map (fun k => enc ((reached s0 ops).otherOf r.id k)))) ∧
    (T.edges.map (restrictE eks)).map endpoints = (reached s0 ops).edgeList ∧
    T.seg = (reached s0 ops).seg.map framesOf := by
  obtain ⟨hIr, -, hV, -⟩ := reached_facts s0 h0 hI hP ops hs
  have hk := reached_posKeys s0 h0 hI ops hs
  have hw := (C14_export_wf_of_inv enc ndim scale _ hIr hV (hk ▸ hd)).1
  subst hT
  refine ⟨C14_geff one _ ks eks hw.pos_len, ?_, ?_, rfl⟩
  · show ((((reached s0 ops).nodes.map _).map (restrictN ks)).map _) = _
    rw [List.map_map, List.map_map]
    apply List.map_congr_left
    intro r hr
    show (r.id, r.time, r.tid, some (nodeX (fun v => [enc v]) enc (reached s0 ops).posKeys r).lin,
      posOfRec (fun v => [enc v]) (reached s0 ops).posKeys r) = _
    rw [← lin_some hIr hr, posOfRec_single r _ (hV r hr), hk]
    congr 4
    apply List.map_congr_left
    intro k _
    rw [otherOf_eq_recVal hIr.valid.forest.nodup_nodes hr]
  · show ((((reached s0 ops).edges.map _).map (restrictE eks)).map endpoints) = _
    rw [List.map_map, List.map_map]
    rfl
example : toExport encEx 2 (some [1, 1]) (reached XP sessP) = TP ∧
    decodeGeff (nax TP) [7] [11] (encodeGeff 1 TP none) = some ⟨TP.nodes, TP.edges, TP.seg⟩ ∧
    decodeGeff (nax T6) [9] [] (encodeGeff 1 T6 none) =
      some ⟨T6.nodes, [⟨4, 6, []⟩, ⟨2, 4, []⟩, ⟨2, 3, []⟩, ⟨1, 2, []⟩], none⟩ ∧
    TP.seg = (reached XP sessP).seg.map framesOf :=
  ⟨TP_eq, by decide, by decide,
    (C14_after_session_geff encEx 2 (some [1, 1]) 1 [7] [11] XP rfl XP_inv (by decide) rfl sessP
      sessP_ok TP TP_eq.symm).2.2.2⟩
#print axioms C14_after_session_geff

/-- **internal format after any session.** Hypotheses of `C03_reach`; `PosSrc` and the dimension
    are needed for per-axis position storage only (more than one position key: `load_tracks` then
    recombines the axis columns).  `save_tracks` followed by `load_tracks` returns the whole table of
    the reached state — all nodes and edges with ALL their (non-`None`) attributes in insertion
    order, the label array, the scale, the dimensionality and the feature registry (the start
    state's: no admissible operation touches it) with the position-storage style. -/
theorem C14_after_session_internal (enc : Ft.Val → Nat) (ndim : Nat) (scale : Option (List Nat))
    (s0 : St) (h0 : s0.hist = {}) (hI : Inv s0)
    (hpa : 1 < s0.posKeys.length → PosSrc s0 ∧ s0.posKeys.length = ndim - 1)
    (ops : List Op) (hs : SessOK s0 ops) (T : Tracks) (hT : T = toExport enc ndim scale (reached s0 ops)) :
    decodeInternal (encodeInternal T) = some T ∧
    T.registry = registryOf s0 ∧ T.perAxis = decide (s0.posKeys.length > 1) ∧ T.scale = scale := by
  have hreg : (reached s0 ops).reg = s0.reg := reach_reg s0 h0 hI ops hs
  have hk := reached_posKeys s0 h0 hI ops hs
  subst hT
  refine ⟨C14_internal _ (fun hp => ?_), ?_, ?_, rfl⟩
  · have h1 : 1 < s0.posKeys.length := by
      have : decide ((reached s0 ops).posKeys.length > 1) = true := hp
      rw [hk] at this
      exact of_decide_eq_true this
    obtain ⟨hP, hd⟩ := hpa h1
    obtain ⟨hIr, -, hV, -⟩ := reached_facts s0 h0 hI hP ops hs
    exact (C14_export_wf_of_inv enc ndim scale _ hIr hV (hk ▸ hd)).1.pos_len
  · obtain ⟨q1, q2, -, -, -, -, q7, -⟩ := R2A1.reg_fields hreg
    show registryOf (reached s0 ops) = _
    unfold registryOf
    rw [q1, q2, q7]
  · show decide ((reached s0 ops).posKeys.length > 1) = _
    rw [hk]
-- per-axis storage (`X6`), single-key storage with array (`XP`), and the state `XA` whose position
-- key is NOT an active feature (single key: the internal format does not care) after the paint of
-- `C14_export_needs_posSrc`
example : decodeInternal (encodeInternal T6) = some T6 ∧ decodeInternal (encodeInternal TP) = some TP ∧
    decodeInternal (encodeInternal (toExport encEx 2 none
      (reached C01R3CEx.XA [.paint 6 [([8], 5), ([9, 10], 0)] 2 false]))) =
      some (toExport encEx 2 none (reached C01R3CEx.XA [.paint 6 [([8], 5), ([9, 10], 0)] 2 false])) :=
  ⟨(C14_after_session_internal encEx 3 none X6 rfl X6_inv (fun _ => ⟨by decide, rfl⟩) sess6 sess6_ok T6
      T6_eq.symm).1,
   (C14_after_session_internal encEx 2 (some [1, 1]) XP rfl XP_inv (fun h => absurd h (by decide)) sessP
      sessP_ok TP TP_eq.symm).1,
   (C14_after_session_internal encEx 2 none C01R3CEx.XA rfl C02R3DEx.XA_inv (fun h => absurd h (by decide))
      _ (R4A.sessOKB_sound (by decide +kernel)) _ rfl).1⟩
#print axioms C14_after_session_internal

/-- **all three round trips when one stored position value stands for `w` axes** (`toExportP`;
    single-key storage `pos_attr = "pos"`: one key, `w = ndim - 1`).  Hypotheses of `C03_reach`,
    `PosSrc`, `|posKeys| · w = ndim - 1`, every non-`None` value expands to `w` coordinates: the table
    of the reached state satisfies `WF`, `TimeInc`, `EdgesIn` (so every `C14_*` / `C15_*` theorem
    applies to it), and the CSV, GEFF and internal round trips hold. -/
theorem C14_after_session_pos (encP : Ft.Val → List Nat) (enc : Ft.Val → Nat) (ndim w : Nat)
    (scale : Option (List Nat)) (one : Nat) (ks eks : List Nat)
    (hw : ∀ v, v ≠ Ft.Val.none → (encP v).length = w)
    (s0 : St) (h0 : s0.hist = {}) (hI : Inv s0) (hP : PosSrc s0) (hd : s0.posKeys.length * w = ndim - 1)
    (ops : List Op) (hs : SessOK s0 ops) (T : Tracks) (hT : T = toExportP encP enc ndim scale (reached s0 ops)) :
    (WF T ∧ TimeInc T ∧ EdgesIn T) ∧
    (∃ t : CsvTracks, decodeCsv (nax T) (encodeCsv T none) = some t ∧ t.nodes = T.nodes.map core ∧
      t.edges.Perm (reached s0 ops).edgeList) ∧
    decodeGeff (nax T) ks eks (encodeGeff one T none) =
      some ⟨T.nodes.map (restrictN ks), T.edges.map (restrictE eks), T.seg⟩ ∧
    decodeInternal (encodeInternal T) = some T := by
  obtain ⟨hIr, -, hV, -⟩ := reached_facts s0 h0 hI hP ops hs
  have hk := reached_posKeys s0 h0 hI ops hs
  have h3 := C14_export_wf_of_inv_pos encP enc ndim w scale _ hw hIr hV (hk ▸ hd)
  subst hT
  obtain ⟨t, h1, h2, h4⟩ := C14_csv _ h3.1
  refine ⟨h3, ⟨t, h1, h2, ?_⟩, C14_geff one _ ks eks h3.1.pos_len, C14_internal _ (fun _ => h3.1.pos_len)⟩
  rw [← edgePairs_toExportP (encP := encP) (enc := enc) (ndim := ndim) (scale := scale)]
  exact h4
-- `XG` (graph only, ONE position key 7, default storage) after the R3D session `sessG`, as 2D+t
example : WF (toExportP (fun v => [encEx v, encEx v + 1]) encEx 3 none (reached C01R3CEx.XG C02R3DEx.sessG)) ∧
    (toExportP (fun v => [encEx v, encEx v + 1]) encEx 3 none (reached C01R3CEx.XG C02R3DEx.sessG)).nodes.map
      (fun n => (n.id, n.pos)) = [(1, [0, 1]), (3, [2, 3]), (4, [3, 4]), (5, [4, 5]), (2, [1, 2])] :=
  ⟨(C14_after_session_pos _ encEx 3 2 none 1 [] [] (fun _ _ => rfl) C01R3CEx.XG rfl C02R3DEx.XG_inv
      (by decide) rfl C02R3DEx.sessG (R4A.sessOKB_sound (by decide +kernel)) _ rfl).1.1, by decide⟩
#print axioms C14_after_session_pos

/-! ## subset export of every reached state (C15) -/

/-- **subset export after any session — exactly the hypotheses of `C03_reach`.** For every
    admissible operation list from an `Inv` start state with empty history and every selection `sel`
    of nodes of the reached state `s`, with `X` the ids of the exported rows:
    (1) `X` is exactly the selection closed under the session state's own ancestor relation
        (`St.Anc s a m`: a directed path `a → … → m` in `s.edgeList`, or `a = m`);
    (2) the CSV rows and the GEFF node table carry exactly the ids `X`;
    (3) no exported node has a missing parent: `(p, n) ∈ s.edgeList`, `n ∈ X` ⇒ `p ∈ X`;
    (4) GEFF: the exported edges are exactly the table's edges with both ends in `X`.
    (No position is read: neither `PosSrc` nor a dimension hypothesis is needed.) -/
theorem C15_after_session (enc : Ft.Val → Nat) (ndim : Nat) (scale : Option (List Nat)) (one : Nat)
    (s0 : St) (h0 : s0.hist = {}) (hI : Inv s0)
    (ops : List Op) (hs : SessOK s0 ops) (T : Tracks) (hT : T = toExport enc ndim scale (reached s0 ops))
    (sel : List Nat) (hsel : ∀ m ∈ sel, m ∈ (reached s0 ops).ids) :
    (∀ n, n ∈ (exported T (some sel)).map Export.NodeRec.id ↔ ∃ m ∈ sel, St.Anc (reached s0 ops) n m) ∧
    ((encodeCsv T (some sel)).rows.filterMap (fun d => getNat d .id) = (exported T (some sel)).map Export.NodeRec.id ∧
      (encodeGeff one T (some sel)).nodes.map Prod.fst = (exported T (some sel)).map Export.NodeRec.id) ∧
    (∀ n p, n ∈ (exported T (some sel)).map Export.NodeRec.id → (p, n) ∈ (reached s0 ops).edgeList →
      p ∈ (exported T (some sel)).map Export.NodeRec.id) ∧
    (∀ e, e ∈ exportedEdges T (some sel) ↔ e ∈ T.edges ∧ e.src ∈ (exported T (some sel)).map Export.NodeRec.id ∧
      e.dst ∈ (exported T (some sel)).map Export.NodeRec.id) := by
  have hIr : Inv (reached s0 ops) := (C03_reach s0 h0 hI ops hs).2.1
  have ht : TimeInc (toExport enc ndim scale (reached s0 ops)) := timeInc_of_forest hIr.valid.forest
  have he : EdgesIn (toExport enc ndim scale (reached s0 ops)) := edgesIn_of_forest hIr.valid.forest
  subst hT
  have hsel' : ∀ m ∈ sel, m ∈ ids (toExport enc ndim scale (reached s0 ops)) := by
    intro m hm
    show m ∈ ids (toExportP _ enc ndim scale (reached s0 ops))
    rw [ids_toExportP]; exact hsel m hm
  refine ⟨fun n => ?_, C15_closure_files one _ (some sel), fun n p hn hp => ?_, C15_edges _ sel⟩
  · rw [C15_closure _ ht he sel hsel' n]
    constructor
    · rintro ⟨m, hm, ha⟩; exact ⟨m, hm, (anc_iff _ n m).1 ha⟩
    · rintro ⟨m, hm, ha⟩; exact ⟨m, hm, (anc_iff _ n m).2 ha⟩
  · refine C15_parent_closed _ ht he sel hsel' n p hn ?_
    show p ∈ preds (toExportP _ enc ndim scale (reached s0 ops)) n
    rw [preds_toExportP]; exact St.tk_mem_preds.2 hp
-- select node 6 (child of 4 after the session) and node 5: 6's ancestors 4, 2, 1 come along, 3 does not
example : (exported T6 (some [6, 5])).map Export.NodeRec.id = [1, 4, 5, 6, 2] ∧
    (exportedEdges T6 (some [6, 5])).map endpoints = [(4, 6), (2, 4), (1, 2)] ∧
    (∀ n, n ∈ [1, 4, 5, 6, 2] ↔ ∃ m ∈ [6, 5], St.Anc (reached X6 sess6) n m) := by
  have h := (C15_after_session encEx 3 none 1 X6 rfl X6_inv sess6 sess6_ok T6 T6_eq.symm
    [6, 5] (by decide)).1
  have e : (exported T6 (some [6, 5])).map Export.NodeRec.id = [1, 4, 5, 6, 2] := by decide
  rw [e] at h
  exact ⟨e, by decide, h⟩
#print axioms C15_after_session

/-- **CSV links of a subset export after any session.** Hypotheses of `C03_reach`, `PosSrc`, one
    position key per axis (the CSV rows carry the position): the re-import of the subset CSV
    succeeds and its links are exactly the edges of the reached state with both ends exported. -/
theorem C15_after_session_csv (enc : Ft.Val → Nat) (ndim : Nat) (scale : Option (List Nat))
    (s0 : St) (h0 : s0.hist = {}) (hI : Inv s0) (hP : PosSrc s0) (hd : s0.posKeys.length = ndim - 1)
    (ops : List Op) (hs : SessOK s0 ops) (T : Tracks) (hT : T = toExport enc ndim scale (reached s0 ops))
    (sel : List Nat) (hsel : ∀ m ∈ sel, m ∈ (reached s0 ops).ids) :
    ∃ t, decodeCsv (nax T) (encodeCsv T (some sel)) = some t ∧
      t.nodes = (exported T (some sel)).map core ∧
      ∀ p c, (p, c) ∈ t.edges ↔
        (p, c) ∈ (reached s0 ops).edgeList ∧ p ∈ (exported T (some sel)).map Export.NodeRec.id ∧
          c ∈ (exported T (some sel)).map Export.NodeRec.id := by
  obtain ⟨hIr, -, hV, -⟩ := reached_facts s0 h0 hI hP ops hs
  have hk := reached_posKeys s0 h0 hI ops hs
  obtain ⟨hw, ht, he⟩ := C14_export_wf_of_inv enc ndim scale _ hIr hV (hk ▸ hd)
  subst hT
  have hsel' : ∀ m ∈ sel, m ∈ ids (toExport enc ndim scale (reached s0 ops)) := by
    intro m hm
    show m ∈ ids (toExportP _ enc ndim scale (reached s0 ops))
    rw [ids_toExportP]; exact hsel m hm
  refine ⟨_, decodeCsv_encodeCsv _ (some sel) hw.pos_len, rfl, fun p c => ?_⟩
  obtain ⟨t', h1', h2'⟩ := C15_edges_csv _ hw ht he sel hsel' p c
  rw [decodeCsv_encodeCsv _ (some sel) hw.pos_len] at h1'
  cases h1'
  rw [h2']
  show (p, c) ∈ edgePairs (toExportP _ enc ndim scale (reached s0 ops)) ∧ _ ↔ _
  rw [edgePairs_toExportP]
example : (decodeCsv (nax T6) (encodeCsv T6 (some [6, 5]))).map (·.edges) = some [(2, 4), (4, 6), (1, 2)] ∧
    ∃ t, decodeCsv (nax T6) (encodeCsv T6 (some [6, 5])) = some t ∧
      ((2, 4) ∈ t.edges ↔ (2, 4) ∈ (reached X6 sess6).edgeList ∧ 2 ∈ [1, 4, 5, 6, 2] ∧ 4 ∈ [1, 4, 5, 6, 2]) := by
  obtain ⟨t, h1, _, h3⟩ := C15_after_session_csv encEx 3 none X6 rfl X6_inv (by decide) rfl sess6 sess6_ok
    T6 T6_eq.symm [6, 5] (by decide)
  have e : (exported T6 (some [6, 5])).map Export.NodeRec.id = [1, 4, 5, 6, 2] := by decide
  have h := h3 2 4
  rw [e] at h
  exact ⟨by decide, t, h1, h⟩
#print axioms C15_after_session_csv

/-- **exported segmentation after any session — exactly the hypotheses of `C03_reach`.** The reached
    state `s` has the array `g`.  For every pixel `p` of every frame `t`, with
    `l = g.data[t·frame + p]` its label:
    GEFF — the exported array has the shape of `g` and carries `l` if `l` is an exported node and
    background otherwise; CSV (`export_seg=True`) — the pixel carries background if `l` is not an
    exported node, and the TRACK ID of the session node `r` with `r.id = l` if that node is exported. -/
theorem C15_after_session_seg (enc : Ft.Val → Nat) (ndim : Nat) (scale : Option (List Nat)) (one : Nat)
    (s0 : St) (h0 : s0.hist = {}) (hI : Inv s0)
    (ops : List Op) (hs : SessOK s0 ops) (T : Tracks) (hT : T = toExport enc ndim scale (reached s0 ops))
    (sel : List Nat) (hsel : ∀ m ∈ sel, m ∈ (reached s0 ops).ids)
    (g : Seg) (hg : (reached s0 ops).seg = some g) :
    (∃ out, (encodeGeff one T (some sel)).seg = some out ∧
      out.length = g.nframes ∧ (∀ fr ∈ out, fr.length = g.frame) ∧
      ∀ t p, t < g.nframes → p < g.frame →
        (out[t]?.bind (fun r => r[p]?)) =
          some (if g.data.getD (t * g.frame + p) 0 ∈ (exported T (some sel)).map Export.NodeRec.id
                then g.data.getD (t * g.frame + p) 0 else 0)) ∧
    (∀ t p, t < g.nframes → p < g.frame →
      (g.data.getD (t * g.frame + p) 0 ∉ (exported T (some sel)).map Export.NodeRec.id →
        ((csvSeg T (some sel) (framesOf g))[t]?.bind (fun r => r[p]?)) = some 0) ∧
      (∀ r ∈ (reached s0 ops).nodes, r.id = g.data.getD (t * g.frame + p) 0 →
        r.id ∈ (exported T (some sel)).map Export.NodeRec.id →
        ((csvSeg T (some sel) (framesOf g))[t]?.bind (fun r => r[p]?)) = some r.tid)) := by
  have hIr : Inv (reached s0 ops) := (C03_reach s0 h0 hI ops hs).2.1
  have ht : TimeInc (toExport enc ndim scale (reached s0 ops)) := timeInc_of_forest hIr.valid.forest
  have he : EdgesIn (toExport enc ndim scale (reached s0 ops)) := edgesIn_of_forest hIr.valid.forest
  have hnd := hIr.valid.forest.nodup_nodes
  have hndT : (ids (toExport enc ndim scale (reached s0 ops))).Nodup := by
    show (ids (toExportP _ enc ndim scale (reached s0 ops))).Nodup
    rw [ids_toExportP]; exact hnd
  subst hT
  have hsel' : ∀ m ∈ sel, m ∈ ids (toExport enc ndim scale (reached s0 ops)) := by
    intro m hm
    show m ∈ ids (toExportP _ enc ndim scale (reached s0 ops))
    rw [ids_toExportP]; exact hsel m hm
  have hseg : (toExport enc ndim scale (reached s0 ops)).seg = some (framesOf g) := by
    show Option.map framesOf (reached s0 ops).seg = _
    rw [hg]; rfl
  -- reading a pixel of the frames
  have hread : ∀ t p, t < g.nframes → p < g.frame →
      ∃ fr, (framesOf g)[t]? = some fr ∧ fr[p]? = some (g.data.getD (t * g.frame + p) 0) := by
    intro t p htt hp
    have h := framesOf_get g t p htt hp
    cases hfr : (framesOf g)[t]? with
    | none => rw [hfr] at h; cases h
    | some fr => rw [hfr] at h; exact ⟨fr, rfl, h⟩
  constructor
  · obtain ⟨out, h1, h2, h3⟩ := C15_seg one _ ht he sel hsel' (framesOf g) hseg
    have hlen : out.length = g.nframes := by
      have := congrArg List.length h2
      simpa [(framesOf_shape g).1] using this
    refine ⟨out, h1, hlen, fun fr hfr => ?_, fun t p htt hp => ?_⟩
    · obtain ⟨i, hi, rfl⟩ := List.getElem_of_mem hfr
      have h4 : (out.map List.length)[i]? = ((framesOf g).map List.length)[i]? := by rw [h2]
      have hi' : i < (framesOf g).length := by rw [(framesOf_shape g).1, ← hlen]; exact hi
      simp only [List.getElem?_map, List.getElem?_eq_getElem hi, List.getElem?_eq_getElem hi',
        Option.map_some, Option.some.injEq] at h4
      rw [h4]
      exact (framesOf_shape g).2 _ (List.getElem_mem hi')
    · obtain ⟨fr, hfr, hl⟩ := hread t p htt hp
      exact h3 t p fr _ hfr hl
  · intro t p htt hp
    obtain ⟨fr, hfr, hl⟩ := hread t p htt hp
    obtain ⟨c1, c2⟩ := csvSeg_get _ hndT (some sel) (framesOf g) t p fr _ hfr hl
    refine ⟨c1, fun r hr hid hx => ?_⟩
    obtain ⟨n, hn, hnid⟩ := List.mem_map.mp hx
    have hn' := exported_sub _ (some sel) n hn
    obtain ⟨r', hr', rfl⟩ := List.mem_map.mp hn'
    have hrr : r' = r := by
      have e : r'.id = r.id := hnid
      have f1 := St.findNode_of_mem_sg hnd hr'
      have f2 := St.findNode_of_mem_sg hnd hr
      rw [e, f2] at f1
      exact (Option.some.inj f1).symm
    subst hrr
    exact c2 _ hn (hnid.trans hid)
-- select node 4 of the array state after its session: ancestors 2 (a root now: the edge 1 → 2 was
-- deleted) — the masks of 2 and 4 are exported, in the CSV array relabelled to their track id 2
example : (reached XP sessP).seg = some ⟨4, [1,0,0,0, 2,2,3,0, 5,0,0,0, 4,4,0,0]⟩ ∧
    (exported TP (some [4])).map Export.NodeRec.id = [2, 4] ∧
    (encodeGeff 1 TP (some [4])).seg = some [[0, 0, 0, 0], [2, 2, 0, 0], [0, 0, 0, 0], [4, 4, 0, 0]] ∧
    csvSeg TP (some [4]) (framesOf ⟨4, [1,0,0,0, 2,2,3,0, 5,0,0,0, 4,4,0,0]⟩) =
      [[0, 0, 0, 0], [2, 2, 0, 0], [0, 0, 0, 0], [2, 2, 0, 0]] ∧
    ∃ out, (encodeGeff 1 TP (some [4])).seg = some out ∧ out.length = 4 := by
  have hg : (reached XP sessP).seg = some ⟨4, [1,0,0,0, 2,2,3,0, 5,0,0,0, 4,4,0,0]⟩ := by decide
  obtain ⟨⟨out, h1, h2, _⟩, _⟩ := C15_after_session_seg encEx 2 (some [1, 1]) 1 XP rfl XP_inv sessP sessP_ok TP
    TP_eq.symm [4] (by decide) _ hg
  exact ⟨hg, by decide, by decide, by decide, out, h1, h2⟩
#print axioms C15_after_session_seg
