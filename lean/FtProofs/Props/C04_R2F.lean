/-
  C04 / C05 (bulk assignment) and C03 / C04 / C10 (feature switching, graph side) — package R2F.

  C04: "In a tracking solution - after construction from a graph without ids and after every
        accepted user action, undo or redo - two nodes carry the same track id if and only if
        they lie on the same unbranched segment …"
  C05: the same for lineage ids and connected components (ignoring edge direction).

  This file treats the clause "after construction from a graph without ids": the bulk assignment
  `assignTracklets` / `assignLineages` (Python `_assign_ids`, built on the BFS `component` and the
  discovery-order loop `components`), and `St.enable` (Python `Tracks.enable_features`), which
  re-runs the bulk assignment when asked to recompute the id features.

  * `C04_component_sound`, `C04_component_complete`, `C04_components_partition` — the executable
    BFS against the inductive reachability relation `Ft.R2F.Reach es` (undirected reachability
    inside the edge list `es`; `C04_reach_sameSeg` / `C05_reach_conn` identify it with `SameSeg` /
    `Conn` of SessionSpec for the two edge lists used by the model).
  * `C04_assign`, `C04_assign_iff`, `C04_assign_book`, `C04_assign_forest`, `C04_assign_order`
    and the `C05_…` counterparts.
  * `C03_step_enable`, `C04_step_enable` (+ `_recompute`, `_tid`, `_lin`, `_session`),
    `C05_hyp_needed_enable_norecompute`, `C04_step_disable`,
    `C10_enable_ids_current`, `C10_enable_ids_graph_only`.

  All at full strength; nothing in this package is `_partial`.  The only hypothesis on the input of
  the bulk assignment is `Forest s` (used: edge end points are nodes — for the fuel bound —, and
  the degree bounds / unique parent — for "distinct heads / roots carry distinct ids").
-/
import FtProofs.R2FLemmas
open Ft Ft.St Ft.R2F

/-! ## the BFS -/

/-- (1) soundness: whatever fuel, everything `component` returns from the seed `n` is connected to
    `n` inside the given edge list -/
theorem C04_component_sound (es : List Edge) (fuel : Nat) (n x : Node)
    (h : x ∈ component es fuel [n] [n]) : Reach es n x := by
  refine component_sound es (Reach es n) (fun x hx y hy => hx.nbr hy) fuel [n] [n] ?_ ?_ x h
  · intro y hy; rw [List.mem_singleton] at hy; subst hy; exact Reach.refl _
  · intro y hy; rw [List.mem_singleton] at hy; subst hy; exact Reach.refl _

-- one round of fuel: a sound under-approximation of the class {1, 2, 3}
example : component [(1, 2), (3, 2), (5, 6)] 1 [1] [1] = [1, 2] ∧
    component [(1, 2), (3, 2), (5, 6)] 7 [1] [1] = [1, 2, 3] := by decide
#print axioms C04_component_sound

/-- (2) completeness: with fuel |nodes|+1 (what `components` passes) the BFS returns exactly the
    class of the seed, without duplicates and inside the node list — provided the edges end in
    nodes (each round either adds a new node or stops; at most |nodes| additions) -/
theorem C04_component_complete (nodes : List Node) (es : List Edge)
    (hes : ∀ e ∈ es, e.1 ∈ nodes ∧ e.2 ∈ nodes) (n : Node) (hn : n ∈ nodes) :
    (∀ x, x ∈ component es (nodes.length + 1) [n] [n] ↔ Reach es n x) ∧
    (component es (nodes.length + 1) [n] [n]).Nodup ∧
    (∀ x ∈ component es (nodes.length + 1) [n] [n], x ∈ nodes) :=
  comp_spec hes hn

-- a path 1 - 2 - 3 - 4 needs three rounds; fuel |nodes|+1 = 5 finds it, fuel 2 does not
example : component [(1, 2), (3, 2), (3, 4)] 5 [1] [1] = [1, 2, 3, 4] ∧
    component [(1, 2), (3, 2), (3, 4)] 2 [1] [1] = [1, 2, 3] := by decide
#print axioms C04_component_complete

/-- (3) `components` lists every class exactly once: each listed class is the `Reach`-class of a
    node (duplicate-free, inside the node list), every node lies in a listed class, and no node
    lies in two listed classes (positions `i ≠ j`) -/
theorem C04_components_partition (nodes : List Node) (es : List Edge)
    (hes : ∀ e ∈ es, e.1 ∈ nodes ∧ e.2 ∈ nodes) :
    (∀ (i : Nat) (c : List Node), (components nodes es)[i]? = some c →
        ∃ m ∈ nodes, (∀ x, x ∈ c ↔ Reach es m x) ∧ c.Nodup ∧ ∀ x ∈ c, x ∈ nodes) ∧
    (∀ n ∈ nodes, ∃ (i : Nat) (c : List Node), (components nodes es)[i]? = some c ∧ n ∈ c) ∧
    (∀ (i j : Nat) (c c' : List Node) (x : Node), (components nodes es)[i]? = some c →
        (components nodes es)[j]? = some c' → x ∈ c → x ∈ c' → i = j) :=
  let h := components_part hes
  ⟨h.cls, h.cover, h.uniq⟩

example : components [3, 1, 2, 5, 4, 6] [(1, 2), (5, 6)] = [[3], [1, 2], [5, 6], [4]] := by decide
#print axioms C04_components_partition

/-- `Reach` over the tracklet edges (edges whose source does not divide) is `SameSeg` -/
theorem C04_reach_sameSeg (s : St) (a b : Node) (ha : a ∈ s.ids) :
    Reach s.trackletEdges a b ↔ s.SameSeg a b := reach_sameSeg ha

example : (1 : Node) ∈ exBare.ids ∧ exBare.trackletEdges = [(1, 2), (5, 6)] := by decide
#print axioms C04_reach_sameSeg

/-- `Reach` over all edges is `Conn` -/
theorem C05_reach_conn (s : St) (a b : Node) (ha : a ∈ s.ids) :
    Reach s.edgeList a b ↔ s.Conn a b := reach_conn ha

example : (1 : Node) ∈ exBare.ids ∧ exBare.edgeList = [(1, 2), (2, 3), (2, 4), (5, 6)] := by decide
#print axioms C05_reach_conn

/-! ## C04: `assignTracklets` -/

/-- the bulk track-id assignment establishes `TidOK` on any forest, whatever ids were stored -/
theorem C04_assign (s : St) (hF : s.Forest) : s.assignTracklets.TidOK ∧ s.assignTracklets.Forest :=
  ⟨assign_tidOK hF, forest_congr (assignTracklets_G s) hF⟩

example : exBare.Forest ∧
    exBare.assignTracklets.nodes.map (fun r => (r.id, r.tid)) =
      [(3, 1), (1, 2), (2, 2), (5, 3), (4, 4), (6, 3)] := ⟨by decide, by decide⟩
#print axioms C04_assign

/-- the property text itself: after the bulk assignment two nodes carry the same track id iff they
    lie on the same unbranched segment (of the input graph = of the output graph) -/
theorem C04_assign_iff (s : St) (hF : s.Forest) (a b : Node) (ha : a ∈ s.ids) (hb : b ∈ s.ids) :
    (s.assignTracklets.tidOf a = s.assignTracklets.tidOf b ↔ s.SameSeg a b) ∧
    (s.assignTracklets.SameSeg a b ↔ s.SameSeg a b) :=
  ⟨assign_tid_iff hF ha hb, sameSeg_iff_of_G (assignTracklets_G s)⟩

example : exBare.Forest ∧ (1 : Node) ∈ exBare.ids ∧ (2 : Node) ∈ exBare.ids ∧ (3 : Node) ∈ exBare.ids ∧
    exBare.assignTracklets.tidOf 1 = exBare.assignTracklets.tidOf 2 ∧
    exBare.assignTracklets.tidOf 2 ≠ exBare.assignTracklets.tidOf 3 := by decide
#print axioms C04_assign_iff

/-- the track part of `BookOK` after the bulk assignment (the lookup is rebuilt from scratch),
    and all of `BookOK` if the lineage part held before -/
theorem C04_assign_book (s : St) (hF : s.Forest) :
    let s' := s.assignTracklets
    (s'.t2n.map (·.1)).Nodup ∧
    (∀ id l, alook id s'.t2n = some l → l.Nodup) ∧
    (∀ id n, (∃ l, alook id s'.t2n = some l ∧ n ∈ l) ↔ (n ∈ s'.ids ∧ s'.tidOf n = some id)) ∧
    (∀ n t, s'.tidOf n = some t → t ≤ s'.maxTid) ∧
    (s.BookOK → s'.BookOK) := by
  have h := assign_TOK hF
  refine ⟨h.wf.keys, h.wf.nodup, h.iff, h.max, fun hb => ?_⟩
  exact (PC.bookOK_iff _).2 ⟨h, assign_LOK_keep ((PC.bookOK_iff s).1 hb).2⟩

example : exBare.Forest ∧
    exBare.assignTracklets.t2n = [(1, [3]), (2, [1, 2]), (3, [5, 6]), (4, [4])] ∧
    exBare.assignTracklets.maxTid = 4 := by decide
example : tk_exState.Forest ∧ tk_exState.BookOK := ⟨by decide, bookB_sound (by decide)⟩
#print axioms C04_assign_book

/-- the assignment touches nothing but the track-id column, the track lookup and its maximum:
    same graph view (node ids, times, edges), same lineage ids, same everything else -/
theorem C04_assign_forest (s : St) :
    (s.Forest → s.assignTracklets.Forest) ∧
    G s.assignTracklets = G s ∧
    (∀ n, s.assignTracklets.linOf n = s.linOf n) ∧
    s.assignTracklets = { s with nodes := s.assignTracklets.nodes, t2n := s.assignTracklets.t2n,
                                 maxTid := s.assignTracklets.maxTid } :=
  ⟨forest_congr (assignTracklets_G s), assignTracklets_G s, assignTracklets_linOf s,
   assignTracklets_frame s⟩

example : exBare.Forest ∧ exBare.assignTracklets.edges = exBare.edges ∧
    exBare.assignTracklets.linOf 1 = some 9 := by decide
#print axioms C04_assign_forest

/-- discovery order (`nx.weakly_connected_components` order, ids 1, 2, … as met): on every prefix
    of the node list the track ids in use after the assignment are an initial segment `1..k`,
    and `k ≤ maxTid'` = the number of segments -/
theorem C04_assign_order (s : St) (hF : s.Forest) (pre suf : List Node) (h : s.ids = pre ++ suf) :
    ∃ k, k ≤ s.assignTracklets.maxTid ∧
      ∀ t, (∃ n ∈ pre, s.assignTracklets.tidOf n = some t) ↔ (1 ≤ t ∧ t ≤ k) :=
  assigned_prefix (rd := s.assignTracklets.tidOf)
    (fun e he => ⟨hF.src_mem e (mem_trackletEdges.1 he).1, hF.dst_mem e (mem_trackletEdges.1 he).1⟩)
    (fun i c n hi hn => tWritten_tid hF i c n hi hn) pre suf h

example : exBare.Forest ∧ exBare.ids = [3, 1, 2] ++ [5, 4, 6] ∧
    [3, 1, 2].map exBare.assignTracklets.tidOf = [some 1, some 2, some 2] := by decide
#print axioms C04_assign_order

/-! ## C05: `assignLineages` -/

/-- the bulk lineage assignment establishes `LinOK` on any forest -/
theorem C05_assign (s : St) (hF : s.Forest) : s.assignLineages.LinOK ∧ s.assignLineages.Forest :=
  ⟨assign_linOK hF, forest_congr (assignLineages_G s) hF⟩

example : exBare.Forest ∧
    exBare.assignLineages.nodes.map (fun r => (r.id, r.lin)) =
      [(3, some 1), (1, some 1), (2, some 1), (5, some 2), (4, some 1), (6, some 2)] :=
  ⟨by decide, by decide⟩
#print axioms C05_assign

/-- after the bulk assignment two nodes carry the same lineage id iff they are connected
    (ignoring edge direction) -/
theorem C05_assign_iff (s : St) (hF : s.Forest) (a b : Node) (ha : a ∈ s.ids) (hb : b ∈ s.ids) :
    (s.assignLineages.linOf a = s.assignLineages.linOf b ↔ s.Conn a b) ∧
    (s.assignLineages.Conn a b ↔ s.Conn a b) :=
  ⟨assign_lin_iff hF ha hb, conn_iff_of_G (assignLineages_G s)⟩

example : exBare.Forest ∧ (3 : Node) ∈ exBare.ids ∧ (4 : Node) ∈ exBare.ids ∧ (5 : Node) ∈ exBare.ids ∧
    exBare.assignLineages.linOf 3 = exBare.assignLineages.linOf 4 ∧
    exBare.assignLineages.linOf 4 ≠ exBare.assignLineages.linOf 5 := by decide
#print axioms C05_assign_iff

/-- the lineage part of `BookOK` after the bulk assignment (unconditionally — also when the
    lineage feature flag is off), and all of `BookOK` if the track part held before -/
theorem C05_assign_book (s : St) (hF : s.Forest) :
    let s' := s.assignLineages
    (s'.l2n.map (·.1)).Nodup ∧
    (∀ id l, alook id s'.l2n = some l → l.Nodup) ∧
    (∀ id n, (∃ l, alook id s'.l2n = some l ∧ n ∈ l) ↔ (n ∈ s'.ids ∧ s'.linOf n = some id)) ∧
    (∀ n l, s'.linOf n = some l → l ≤ s'.maxLin) ∧
    (s.BookOK → s'.BookOK) := by
  have hG := assignLineages_G s
  have hP := lComps_part hF
  have hrd : ∀ (i : Nat) (c : List Node) (n : Node), (lComps s)[i]? = some c → n ∈ c →
      s.assignLineages.linOf n = some (i + 1) := fun i c n hi hn => lWritten_lin hF i c n hi hn
  have h := assign_LOK hF
  refine ⟨h.wf.keys, h.wf.nodup, ?_, ?_, fun hb => ?_⟩
  · intro id n
    show (∃ l, alook id (bookOf (lComps s)) = some l ∧ n ∈ l) ↔ _
    rw [G_ids hG]
    exact assigned_book_iff hP hrd id n
  · intro n t ht
    have hn : n ∈ s.ids := by rw [← G_ids hG]; exact PC.linOf_some_mem ht
    rcases assigned_some hP hrd hn with ⟨i, hlt, e⟩
    rw [ht] at e
    have : t = i + 1 := by simpa using e
    show t ≤ (lComps s).length
    omega
  · exact (PC.bookOK_iff _).2 ⟨assign_TOK_keep ((PC.bookOK_iff s).1 hb).1, h⟩

example : exBare.Forest ∧ exBare.linOn = false ∧
    exBare.assignLineages.l2n = [(1, [3, 2, 4, 1]), (2, [5, 6])] ∧ exBare.assignLineages.maxLin = 2 := by
  decide
example : tk_exState.Forest ∧ tk_exState.BookOK := ⟨by decide, bookB_sound (by decide)⟩
#print axioms C05_assign_book

/-- the assignment touches nothing but the lineage column, the lineage lookup and its maximum -/
theorem C05_assign_forest (s : St) :
    (s.Forest → s.assignLineages.Forest) ∧
    G s.assignLineages = G s ∧
    (∀ n, s.assignLineages.tidOf n = s.tidOf n) ∧
    s.assignLineages = { s with nodes := s.assignLineages.nodes, l2n := s.assignLineages.l2n,
                                maxLin := s.assignLineages.maxLin } :=
  ⟨forest_congr (assignLineages_G s), assignLineages_G s, assignLineages_tidOf s,
   assignLineages_frame s⟩

example : exBare.Forest ∧ exBare.assignLineages.edges = exBare.edges ∧
    exBare.assignLineages.tidOf 1 = some 7 := by decide
#print axioms C05_assign_forest

/-- discovery order for lineage ids -/
theorem C05_assign_order (s : St) (hF : s.Forest) (pre suf : List Node) (h : s.ids = pre ++ suf) :
    ∃ k, k ≤ s.assignLineages.maxLin ∧
      ∀ t, (∃ n ∈ pre, s.assignLineages.linOf n = some t) ↔ (1 ≤ t ∧ t ≤ k) :=
  assigned_prefix (rd := s.assignLineages.linOf)
    (fun e he => ⟨hF.src_mem e he, hF.dst_mem e he⟩)
    (fun i c n hi hn => lWritten_lin hF i c n hi hn) pre suf h

example : exBare.Forest ∧ exBare.ids = [3, 1, 2] ++ [5, 4, 6] ∧
    [3, 1, 2].map exBare.assignLineages.linOf = [some 1, some 1, some 1] := by decide
#print axioms C05_assign_order

/-! ## `St.enable` -/

/-- `enable` never changes the graph view, so it preserves `Forest` -/
theorem C03_step_enable (s s' : St) (keys : List Key) (rc : Bool)
    (h : s.enable keys rc = some s') : G s' = G s ∧ (s.Forest → s'.Forest) :=
  ⟨enable_G h, forest_congr (enable_G h)⟩

example : exBare.Forest ∧ (exBare.enable [keyTid, keyLin] true).isSome = true := by decide
#print axioms C03_step_enable

/-- preservation: on a valid solution every accepted `enable` (any keys, recompute or not) gives a
    valid solution -/
theorem C04_step_enable (s s' : St) (keys : List Key) (rc : Bool) (hV : s.Valid)
    (h : s.enable keys rc = some s') : s'.Valid := enable_valid hV h

example : tk_exState.Valid ∧ (tk_exState.enable [keyTid] true).isSome = true ∧
    (tk_exState.enable [keyLin] false).isSome = true :=
  ⟨⟨tk_forestB_sound (by decide), tk_tidOKB_sound (by decide), tk_linOKB_sound (by decide),
    bookB_sound (by decide), by decide⟩, by decide, by decide⟩
#print axioms C04_step_enable

/-- the hypothesis of `C04_step_enable` is needed: switching the lineage feature on *without*
    recompute on a state whose lineage ids are missing leaves them missing (documented behaviour of
    `enable_features(recompute=False)`, not a defect) — `Valid` is not created out of nothing -/
theorem C05_hyp_needed_enable_norecompute :
    ∃ s s' : St, s.Forest ∧ s.enable [keyLin] false = some s' ∧ s'.linOn = true ∧ ¬ s'.LinOK := by
  refine ⟨exBare, en1 exBare [keyLin], by decide, rfl, by decide, ?_⟩
  intro h
  exact absurd (h.has 3 (by decide)) (by decide)
#print axioms C05_hyp_needed_enable_norecompute

/-- `disable` only edits the registry: it preserves `Valid` unless the lineage key is switched off
    (then `linOn` — a component of `Valid` — is false by definition, everything else is kept) -/
theorem C04_step_disable (s s' : St) (keys : List Key) (hV : s.Valid) (hk : keyLin ∉ keys)
    (h : s.disable keys = some s') : s'.Valid := disable_valid hV hk h

example : tk_exState.Valid ∧ (tk_exState.disable [keyTid]).isSome = true :=
  ⟨⟨tk_forestB_sound (by decide), tk_tidOKB_sound (by decide), tk_linOKB_sound (by decide),
    bookB_sound (by decide), by decide⟩, by decide⟩
#print axioms C04_step_disable

/-- re-establishment: `enable` with recompute of both id features turns *any* forest — stale,
    missing or inconsistent ids and lookups, lineage feature off — into a valid solution -/
theorem C04_step_enable_recompute (s s' : St) (keys : List Key) (hF : s.Forest)
    (hT : keyTid ∈ keys) (hL : keyLin ∈ keys) (h : s.enable keys true = some s') : s'.Valid :=
  enable_recompute_valid hF (List.contains_iff_mem.2 hT) (List.contains_iff_mem.2 hL) h

example : exBare.Forest ∧ ¬ exBare.TidOK ∧ exBare.linOn = false ∧
    (exBare.enable [keyTid, keyLin] true).isSome = true := by
  refine ⟨by decide, ?_, by decide, by decide⟩
  intro h
  exact absurd (h.along (1, 2) (by decide) (by decide)) (by decide)
#print axioms C04_step_enable_recompute

/-- recompute of the track-id feature alone re-establishes the track part (`TidOK` and the `t_*`
    clauses of `BookOK`) on any forest -/
theorem C04_step_enable_tid (s s' : St) (keys : List Key) (hF : s.Forest)
    (hT : keyTid ∈ keys) (h : s.enable keys true = some s') :
    s'.TidOK ∧ (s'.t2n.map (·.1)).Nodup ∧
    (∀ id l, alook id s'.t2n = some l → l.Nodup) ∧
    (∀ id n, (∃ l, alook id s'.t2n = some l ∧ n ∈ l) ↔ (n ∈ s'.ids ∧ s'.tidOf n = some id)) ∧
    (∀ n t, s'.tidOf n = some t → t ≤ s'.maxTid) := by
  have h' := enable_tid_part hF (List.contains_iff_mem.2 hT) h
  exact ⟨h'.1, h'.2.wf.keys, h'.2.wf.nodup, h'.2.iff, h'.2.max⟩

example : exBare.Forest ∧ (exBare.enable [keyTid] true).isSome = true := by decide
#print axioms C04_step_enable_tid

/-- recompute of the lineage feature alone switches it on and re-establishes the lineage part
    (`LinOK` and the `l_*` clauses of `BookOK`) on any forest -/
theorem C05_step_enable_lin (s s' : St) (keys : List Key) (hF : s.Forest)
    (hL : keyLin ∈ keys) (h : s.enable keys true = some s') :
    s'.linOn = true ∧ s'.LinOK ∧ (s'.l2n.map (·.1)).Nodup ∧
    (∀ id l, alook id s'.l2n = some l → l.Nodup) ∧
    (∀ id n, (∃ l, alook id s'.l2n = some l ∧ n ∈ l) ↔ (n ∈ s'.ids ∧ s'.linOf n = some id)) ∧
    (∀ n l, s'.linOf n = some l → l ≤ s'.maxLin) := by
  have h' := enable_lin_part hF (List.contains_iff_mem.2 hL) h
  exact ⟨h'.2.2, h'.1, h'.2.1.wf.keys, h'.2.1.wf.nodup, h'.2.1.iff h'.2.2, h'.2.1.max h'.2.2⟩

example : exBare.Forest ∧ (exBare.enable [keyLin] true).isSome = true := by decide
#print axioms C05_step_enable_lin

/-- the session step `enable` (accepted or refused with a KeyError) preserves `Valid` -/
theorem C04_step_enable_session (s : St) (keys : List Key) (rc : Bool) (hV : s.Valid) :
    (s.step (.enable keys rc)).1.Valid := by
  show (match s.enable keys rc with | some s' => (s', Out.ok) | none => (s, Out.err Err.key)).1.Valid
  cases h : s.enable keys rc with
  | none => exact hV
  | some s' => exact enable_valid hV h

example : (tk_exState.step (.enable [keyTid, keyLin] true)).2 = Out.ok ∧
    (tk_exState.step (.enable [77] true)).2 = Out.err Err.key := by decide
#print axioms C04_step_enable_session

/-- C10 for the id features: after `enable keys true` the values of the id keys among `keys` are
    current — same track id ⇔ same unbranched segment, same lineage id ⇔ connected, in the
    resulting state — whatever ids were stored before -/
theorem C10_enable_ids_current (s s' : St) (keys : List Key) (hF : s.Forest)
    (h : s.enable keys true = some s') :
    (keyTid ∈ keys → ∀ a b, a ∈ s'.ids → b ∈ s'.ids → (s'.tidOf a = s'.tidOf b ↔ s'.SameSeg a b)) ∧
    (keyLin ∈ keys → ∀ a b, a ∈ s'.ids → b ∈ s'.ids → (s'.linOf a = s'.linOf b ↔ s'.Conn a b)) := by
  have hG := enable_G h
  refine ⟨fun hT a b ha hb => ?_, fun hL a b ha hb => ?_⟩
  · rw [G_ids hG] at ha hb
    rw [enable_tid_eq hF (List.contains_iff_mem.2 hT) h, enable_tid_eq hF (List.contains_iff_mem.2 hT) h,
      sameSeg_iff_of_G hG]
    exact assign_tid_iff hF ha hb
  · rw [G_ids hG] at ha hb
    rw [enable_lin_eq hF (List.contains_iff_mem.2 hL) h, enable_lin_eq hF (List.contains_iff_mem.2 hL) h,
      conn_iff_of_G hG]
    exact assign_lin_iff hF ha hb

example : exBare.Forest ∧
    (exBare.enable [keyTid, keyLin] true).map (fun s => s.nodes.map (fun r => (r.id, r.tid, r.lin))) =
      some [(3, 1, some 1), (1, 2, some 1), (2, 2, some 1), (5, 3, some 2), (4, 4, some 1), (6, 3, some 2)] := by
  decide
#print axioms C10_enable_ids_current

/-- history independence of the recomputed ids: they are a function of the graph view (node ids in
    insertion order, times, edges in insertion order) alone — two states with the same graph view
    get the same track and lineage ids, whatever their stored ids, lookups, registry and
    measurements were -/
theorem C10_enable_ids_graph_only (s t s' t' : St) (ks kt : List Key) (hF : s.Forest)
    (hG : G t = G s) (hs : s.enable ks true = some s') (ht : t.enable kt true = some t') :
    (keyTid ∈ ks → keyTid ∈ kt → ∀ n, t'.tidOf n = s'.tidOf n) ∧
    (keyLin ∈ ks → keyLin ∈ kt → ∀ n, t'.linOf n = s'.linOf n) := by
  have hFt : t.Forest := forest_congr hG hF
  refine ⟨fun h1 h2 n => ?_, fun h1 h2 n => ?_⟩
  · rw [enable_tid_eq hF (List.contains_iff_mem.2 h1) hs, enable_tid_eq hFt (List.contains_iff_mem.2 h2) ht]
    exact assign_tid_indep hF hG n
  · rw [enable_lin_eq hF (List.contains_iff_mem.2 h1) hs, enable_lin_eq hFt (List.contains_iff_mem.2 h2) ht]
    exact assign_lin_indep hF hG n

-- `exBare` and the consistent state with the same graph view inserted in the same order
example : exBare.Forest ∧
    G { exBare with nodes := exBare.nodes.map (fun r => { r with tid := r.id, lin := some r.id }) } = G exBare ∧
    (exBare.enable [keyTid, keyLin] true).isSome = true := by decide
#print axioms C10_enable_ids_graph_only
