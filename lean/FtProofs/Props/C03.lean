/-
  C03 — edits keep a solution a forward-in-time binary forest.

  "Starting from a valid tracking solution, after every accepted user action, undo or redo each
   node has at most one parent and at most two children, and every edge leads from an earlier to
   a strictly later time point, so the graph stays acyclic. An edit that would create a merge, a
   third child or a non-forward edge is refused with InvalidActionError, or - where forcing is
   offered - carried out by removing only edges that conflict with it."

  The theorems are about the user actions of `FtModel/User.lean` (the model of
  `src/funtracks/user_actions/*.py` as repaired by the fix commits D1-D3) and the invariant
  `Ft.St.Forest` of `SessionSpec.lean`.  Undo/redo are covered through C01/C02 (they land, up to
  `Equiv`, on a state visited before).  Helper lemmas: `FtProofs/ForestLemmas.lean`.
-/
import FtProofs.ForestLemmas
open Ft Ft.St

namespace C03Ex
/-- example solution: track 1 = 1→2, dividing into 3 and 4; track 4 = 5→6; isolated node 7 -/
def S0 : St :=
  { nodes := [⟨1, 0, 1, some 1, []⟩, ⟨2, 1, 1, some 1, []⟩, ⟨3, 2, 2, some 1, []⟩, ⟨4, 2, 3, some 1, []⟩,
              ⟨5, 0, 4, some 2, []⟩, ⟨6, 1, 4, some 2, []⟩, ⟨7, 2, 5, some 3, []⟩],
    edges := [⟨(1, 2), []⟩, ⟨(2, 3), []⟩, ⟨(2, 4), []⟩, ⟨(5, 6), []⟩],
    t2n := [(1, [1, 2]), (2, [3]), (3, [4]), (4, [5, 6]), (5, [7])],
    l2n := [(1, [1, 2, 3, 4]), (2, [5, 6]), (3, [7])],
    maxTid := 5, maxLin := 3, counter := 8 }
end C03Ex
open C03Ex

/-! ### directed paths and acyclicity -/

/-- a directed path with at least one edge -/
inductive Ft.St.Path (s : St) : Node → Node → Prop where
  | single {a b : Node} : (a, b) ∈ s.edgeList → Path s a b
  | cons {a b c : Node} : (a, b) ∈ s.edgeList → Path s b c → Path s a c

theorem Ft.St.Path.time_lt {s : St} (hf : Forest s) {a b : Node} (p : Path s a b) :
    ∃ ta tb, s.timeOf a = some ta ∧ s.timeOf b = some tb ∧ ta < tb := by
  have tm : ∀ n, n ∈ s.ids → ∃ t, s.timeOf n = some t := by
    intro n hn; rw [timeOf_eq_nt]; exact tlook_isSome (by rw [← ids_eq_nt]; exact hn)
  induction p with
  | single h =>
    obtain ⟨ta, ha⟩ := tm _ (hf.src_mem _ h)
    obtain ⟨tb, hb⟩ := tm _ (hf.dst_mem _ h)
    exact ⟨ta, tb, ha, hb, hf.forward _ h ta tb ha hb⟩
  | cons h _ ih =>
    obtain ⟨tb, tc, hb, hc, hlt⟩ := ih
    obtain ⟨ta, ha⟩ := tm _ (hf.src_mem _ h)
    exact ⟨ta, tc, ha, hc, Nat.lt_trans (hf.forward _ h ta tb ha hb) hlt⟩

/-- a forest has no directed cycle: times strictly increase along every path -/
theorem C03_acyclic (s : St) (hf : Forest s) (a : Node) : ¬ Path s a a := by
  intro p
  obtain ⟨ta, tb, ha, hb, hlt⟩ := p.time_lt hf
  rw [ha] at hb; cases hb; omega

example : Forest S0 ∧ Path S0 1 4 :=
  ⟨by decide, .cons (b := 2) (by decide) (.single (by decide))⟩
#print axioms C03_acyclic

/-- degrees and direction, spelled out (what `Forest` says about one node / one edge) -/
theorem C03_forest_reading (s : St) (hf : Forest s) :
    (∀ v, (s.preds v).length ≤ 1) ∧ (∀ u, (s.succs u).length ≤ 2) ∧
    (∀ u v, (u, v) ∈ s.edgeList → ∃ tu tv, s.timeOf u = some tu ∧ s.timeOf v = some tv ∧ tu < tv) :=
  ⟨hf.indeg_le, hf.outdeg_le, fun _ _ h => (Path.single h).time_lt hf⟩

example : Forest S0 := by decide
#print axioms C03_forest_reading

/-! ### accepted user actions keep the forest -/

/-- `UserDeleteEdge` -/
theorem C03_step_deleteEdge (s : St) (e : Edge) (recs : List PrimRec)
    (hf : Forest s) (_h : (s.uDeleteEdge e).2 = .ok recs) : Forest (s.uDeleteEdge e).1 :=
  uDeleteEdge_forest e hf

example : Forest S0 ∧ ∃ recs, (S0.uDeleteEdge (2, 3)).2 = .ok recs := ⟨by decide, _, rfl⟩
#print axioms C03_step_deleteEdge

/-- … and exactly the requested edge disappears, whether or not the call is accepted
    (a refusal after the `DeleteEdge` primitive leaves the edge deleted: that is C11's concern) -/
theorem C03_deleteEdge_effect (s : St) (e : Edge) :
    (s.uDeleteEdge e).1.ids = s.ids ∧
    (∀ n, (s.uDeleteEdge e).1.timeOf n = s.timeOf n) ∧
    (s.uDeleteEdge e).1.edgeList = s.edgeList.filter (· != e) := by
  have h := uDeleteEdge_G s e
  refine ⟨?_, ?_, ?_⟩
  · rw [ids_eq_nt, ids_eq_nt, G_nt' h]
  · intro n; rw [timeOf_eq_nt, timeOf_eq_nt, G_nt' h]
  · rw [G_es' h]
    split
    · rfl
    · rename_i hne
      symm; rw [List.filter_eq_self]
      intro x hx; simp; intro hxe; exact hne (hxe ▸ hx)

example : (S0.uDeleteEdge (2, 3)).1.edgeList = [(1, 2), (2, 4), (5, 6)] := by decide
#print axioms C03_deleteEdge_effect

/-- `UserAddEdge`, forced or not -/
theorem C03_step_addEdge (s : St) (e : Edge) (force : Bool) (recs : List PrimRec)
    (hf : Forest s) (h : (s.uAddEdge e force).2 = .ok recs) : Forest (s.uAddEdge e force).1 :=
  uAddEdge_forest hf h

example : Forest S0 ∧ (∃ recs, (S0.uAddEdge (6, 4) true).2 = .ok recs) ∧
    (∃ recs, (S0.uAddEdge (6, 7) false).2 = .ok recs) := ⟨by decide, ⟨_, rfl⟩, ⟨_, rfl⟩⟩
#print axioms C03_step_addEdge

/-- `UserUpdateNodeAttrs` -/
theorem C03_step_updateAttrs (s : St) (n : Node) (attrs : List (Key × Val)) (recs : List PrimRec)
    (hf : Forest s) (_h : (s.uUpdateAttrs n attrs).2 = .ok recs) :
    Forest (s.uUpdateAttrs n attrs).1 :=
  forest_congr (uUpdateAttrs_G s n attrs) hf

example : Forest S0 ∧ ∃ recs, (S0.uUpdateAttrs 3 [(7, .tok 5)]).2 = .ok recs := ⟨by decide, _, rfl⟩
#print axioms C03_step_updateAttrs

/-- `UserSwapPredecessors` -/
theorem C03_step_swap (s : St) (n1 n2 : Node) (recs : List PrimRec)
    (hf : Forest s) (h : (s.uSwap n1 n2).2 = .ok recs) : Forest (s.uSwap n1 n2).1 :=
  uSwap_forest hf h

example : Forest S0 ∧ (∃ recs, (S0.uSwap 3 7).2 = .ok recs) ∧ (∃ recs, (S0.uSwap 2 6).2 = .ok recs) :=
  ⟨by decide, ⟨_, rfl⟩, ⟨_, rfl⟩⟩
#print axioms C03_step_swap

/-! ### refusals -/

/-- a merge is refused as forceable, nothing changed -/
theorem C03_refuse_merge (s : St) (u t : Node) (tu tt : Nat)
    (hu : s.timeOf u = some tu) (ht : s.timeOf t = some tt) (hlt : tu < tt)
    (hin : s.indeg t > 0) : s.uAddEdge (u, t) false = (s, .error .forceable) := by
  have nu : s.hasNode u = true := by
    unfold timeOf at hu; unfold hasNode; cases hq : s.findNode u <;> simp [hq] at hu ⊢
  have nt_ : s.hasNode t = true := by
    unfold timeOf at ht; unfold hasNode; cases hq : s.findNode t <;> simp [hq] at ht ⊢
  rw [uAddEdge_eq]
  simp only [nu, nt_, hu, ht, Option.getD_some, Bool.not_true, Bool.false_eq_true, if_false]
  rw [if_neg (by omega)]
  have : addEdgePre s (u, t) false = (s, .error .forceable) := by
    unfold addEdgePre; simp [hin]
  rw [this]

example : S0.timeOf 6 = some 1 ∧ S0.timeOf 4 = some 2 ∧ S0.indeg 4 > 0 := by decide
#print axioms C03_refuse_merge

/-- a backward or same-frame edge is refused (forced or not), nothing changed -/
theorem C03_refuse_backward (s : St) (u t : Node) (force : Bool)
    (h : ∀ tu tt, s.timeOf u = some tu → s.timeOf t = some tt → tt ≤ tu) :
    s.uAddEdge (u, t) force = (s, .error .invalid) := by
  rw [uAddEdge_eq]
  by_cases c1 : s.hasNode u = true
  · by_cases c2 : s.hasNode t = true
    · simp only [c1, c2, Bool.not_true, Bool.false_eq_true, if_false]
      have e1 : ∃ a, s.timeOf u = some a := by
        unfold hasNode at c1; unfold timeOf; cases hq : s.findNode u <;> simp [hq] at c1 ⊢
      have e2 : ∃ a, s.timeOf t = some a := by
        unfold hasNode at c2; unfold timeOf; cases hq : s.findNode t <;> simp [hq] at c2 ⊢
      obtain ⟨a, ha⟩ := e1; obtain ⟨b, hb⟩ := e2
      have := h a b ha hb
      rw [if_pos (by rw [ha, hb]; simpa using this)]
    · simp [c1, c2]
  · simp [c1]

example : S0.timeOf 3 = some 2 ∧ S0.timeOf 1 = some 0 ∧ S0.timeOf 4 = some 2 := by decide
#print axioms C03_refuse_backward

/-- a third child is refused (unforced case, or target without parent): nothing changed -/
theorem C03_refuse_triple (s : St) (u t : Node) (force : Bool) (tu tt : Nat)
    (hu : s.timeOf u = some tu) (ht : s.timeOf t = some tt) (hlt : tu < tt)
    (hin : s.indeg t = 0) (hout : s.outdeg u ≥ 2) :
    s.uAddEdge (u, t) force = (s, .error .invalid) := by
  have nu : s.hasNode u = true := by
    unfold timeOf at hu; unfold hasNode; cases hq : s.findNode u <;> simp [hq] at hu ⊢
  have nt_ : s.hasNode t = true := by
    unfold timeOf at ht; unfold hasNode; cases hq : s.findNode t <;> simp [hq] at ht ⊢
  rw [uAddEdge_eq]
  simp only [nu, nt_, hu, ht, Option.getD_some, Bool.not_true, Bool.false_eq_true, if_false]
  rw [if_neg (by omega)]
  have : addEdgePre s (u, t) force = (s, .ok []) := by
    unfold addEdgePre; simp [hin]
  rw [this]
  simp only [addEdgeTail]
  have h0 : (s.outdeg u == 0) = false := by simp; omega
  have h1 : (s.outdeg u == 1) = false := by simp; omega
  simp only [h0, h1, Bool.false_eq_true, if_false]
  rfl

example : S0.timeOf 2 = some 1 ∧ S0.timeOf 7 = some 2 ∧ S0.indeg 7 = 0 ∧ S0.outdeg 2 ≥ 2 := by decide
#print axioms C03_refuse_triple

/-! ### forcing removes only what conflicts -/

/-- an accepted (forced) add-edge adds the requested edge and removes nothing but in-edges of
    the target; nodes and times are untouched -/
theorem C03_force_minimal (s : St) (u t : Node) (force : Bool) (recs : List PrimRec)
    (h : (s.uAddEdge (u, t) force).2 = .ok recs) :
    (s.uAddEdge (u, t) force).1.ids = s.ids ∧
    (∀ e, e ∈ (s.uAddEdge (u, t) force).1.edgeList → e ∈ s.edgeList ∨ e = (u, t)) ∧
    (u, t) ∈ (s.uAddEdge (u, t) force).1.edgeList ∧
    (∀ e, e ∈ s.edgeList → e ∉ (s.uAddEdge (u, t) force).1.edgeList → e.2 = t ∧ force = true) := by
  obtain ⟨_, _, _, es0, hes, _, hG⟩ := uAddEdge_ok h
  have hsub : ∀ e, e ∈ es0 → e ∈ s.edgeList := by
    rcases hes with ⟨h1, _⟩ | ⟨_, p, _, h1⟩
    · rw [h1]; exact fun _ h => h
    · rw [h1]; exact fun _ h => (List.mem_filter.mp h).1
  have hE := G_es' hG
  refine ⟨by rw [ids_eq_nt, ids_eq_nt, G_nt' hG], ?_, ?_, ?_⟩
  · intro e he; rw [hE] at he
    split at he
    · exact Or.inl (hsub e he)
    · rcases List.mem_append.mp he with h1 | h1
      · exact Or.inl (hsub e h1)
      · right; simpa using h1
  · rw [hE]; split
    · assumption
    · simp
  · intro e he hne
    rw [hE] at hne
    have hne0 : e ∉ es0 := by
      intro h0; apply hne; split
      · exact h0
      · exact List.mem_append_left _ h0
    rcases hes with ⟨h1, _⟩ | ⟨hfo, p, _, h1⟩
    · rw [h1] at hne0; exact absurd he hne0
    · rw [h1, List.mem_filter] at hne0
      have : e = (p, t) := by
        apply Classical.byContradiction; intro hc; apply hne0; exact ⟨he, by simpa using hc⟩
      exact ⟨by rw [this], hfo⟩

example : (∃ recs, (S0.uAddEdge (6, 4) true).2 = .ok recs) ∧
    (S0.uAddEdge (6, 4) true).1.edgeList = [(1, 2), (2, 3), (5, 6), (6, 4)] := ⟨⟨_, rfl⟩, by decide⟩
#print axioms C03_force_minimal

/-! ### node-level actions: `Forest` alone is not enough

`UserAddNode` and `UserDeleteNode` pick the edges they create from the answer of
`get_track_neighbors`, i.e. from the lookup `t2n` and the stored track ids.  On a forest whose
lookup or track ids are inconsistent the accepted action can create a merge (states below), so
the weakest hypotheses from `SessionSpec` are `BookOK` (lookup = nodes carrying the id) and
`TidOK` (only rule T1 `along` is used for add-node).  These are not defects of the code: every
state reached from a valid solution satisfies both (C04/C06). -/

namespace C03Ex
/-- forest, `TidOK`, but the lookup lists node 2 under track 5 (not `BookOK`) -/
def B1 : St :=
  { nodes := [⟨1, 0, 1, some 1, []⟩, ⟨2, 2, 1, some 1, []⟩], edges := [⟨(1, 2), []⟩],
    t2n := [(1, [1]), (5, [2])], l2n := [(1, [1, 2])], maxTid := 5, maxLin := 1, counter := 3 }
/-- forest, `BookOK`, but the non-division edge 1→2 changes the track id (not `TidOK`) -/
def B2 : St :=
  { nodes := [⟨1, 0, 1, some 1, []⟩, ⟨2, 2, 5, some 1, []⟩], edges := [⟨(1, 2), []⟩],
    t2n := [(1, [1]), (5, [2])], l2n := [(1, [1, 2])], maxTid := 5, maxLin := 1, counter := 3 }
def argsB : AddNodeArgs :=
  { node := 9, time := some 1, tid := some 5, lin := none, other := [], pixels := none, force := false }
/-- chain 1→2→3 and 4→5; the lookup lists 5 (not 3) under track 1 (not `BookOK`) -/
def D1 : St :=
  { nodes := [⟨1, 0, 1, some 1, []⟩, ⟨2, 1, 1, some 1, []⟩, ⟨3, 2, 1, some 1, []⟩,
              ⟨4, 0, 2, some 2, []⟩, ⟨5, 2, 2, some 2, []⟩],
    edges := [⟨(1, 2), []⟩, ⟨(2, 3), []⟩, ⟨(4, 5), []⟩],
    t2n := [(1, [1, 2, 5]), (2, [4])], l2n := [(1, [1, 2, 3]), (2, [4, 5])],
    maxTid := 2, maxLin := 2, counter := 6 }
/-- same graph, lookup consistent with the stored ids, but ids violate T1 (not `TidOK`) -/
def D2 : St :=
  { nodes := [⟨1, 0, 1, some 1, []⟩, ⟨2, 1, 1, some 1, []⟩, ⟨3, 2, 7, some 1, []⟩,
              ⟨4, 0, 2, some 2, []⟩, ⟨5, 2, 1, some 2, []⟩],
    edges := [⟨(1, 2), []⟩, ⟨(2, 3), []⟩, ⟨(4, 5), []⟩],
    t2n := [(1, [1, 2, 5]), (7, [3]), (2, [4])], l2n := [(1, [1, 2, 3]), (2, [4, 5])],
    maxTid := 7, maxLin := 2, counter := 6 }
/-- chain 1→2→3, one track -/
def S1 : St :=
  { nodes := [⟨1, 0, 1, some 1, []⟩, ⟨2, 1, 1, some 1, []⟩, ⟨3, 2, 1, some 1, []⟩],
    edges := [⟨(1, 2), []⟩, ⟨(2, 3), []⟩],
    t2n := [(1, [1, 2, 3])], l2n := [(1, [1, 2, 3])], maxTid := 1, maxLin := 1, counter := 4 }
end C03Ex

/-- `Forest ∧ TidOK` without `BookOK`: an accepted `UserAddNode` creates a merge -/
theorem C03_hyp_needed_addNode_book :
    Forest B1 ∧ TidOK B1 ∧ (∃ r, (B1.uAddNode argsB).2 = .ok r) ∧ ¬ Forest (B1.uAddNode argsB).1 :=
  ⟨by decide, tidB_sound (by decide), ⟨_, rfl⟩, by decide⟩
#print axioms C03_hyp_needed_addNode_book

/-- `Forest ∧ BookOK` without `TidOK`: an accepted `UserAddNode` creates a merge -/
theorem C03_hyp_needed_addNode_tid :
    Forest B2 ∧ BookOK B2 ∧ (∃ r, (B2.uAddNode argsB).2 = .ok r) ∧ ¬ Forest (B2.uAddNode argsB).1 :=
  ⟨by decide, bookB_sound (by decide), ⟨_, rfl⟩, by decide⟩
#print axioms C03_hyp_needed_addNode_tid

/-- `UserAddNode` (forced or not) keeps the forest of a state with consistent lookup and ids -/
theorem C03_step_addNode (s : St) (a : AddNodeArgs) (recs : List PrimRec)
    (hf : Forest s) (ht : TidOK s) (hb : BookOK s)
    (h : (s.uAddNode a).2 = .ok recs) : Forest (s.uAddNode a).1 :=
  uAddNode_forest_of hf (fun time tid0 _ _ => nbrAddOK_of_book hf ht hb tid0 time) h

example : Forest S0 ∧ TidOK S0 ∧ BookOK S0 ∧
    -- appended to track 4, inserted into track 1 between 1 and 2, forced below the division
    (∃ r, (S0.uAddNode ⟨9, some 2, some 4, none, [], none, false⟩).2 = .ok r) ∧
    (∃ r, (S1.uAddNode ⟨9, some 1, some 7, none, [], none, false⟩).2 = .ok r) ∧
    (∃ r, (S0.uAddNode ⟨9, some 1, some 2, none, [], none, true⟩).2 = .ok r) ∧
    (S0.uAddNode ⟨9, some 1, some 2, none, [], none, true⟩).1.edgeList =
      [(1, 2), (2, 4), (5, 6), (9, 3)] :=
  ⟨by decide, tidB_sound (by decide), bookB_sound (by decide), ⟨_, rfl⟩, ⟨_, rfl⟩, ⟨_, rfl⟩, by decide⟩
#print axioms C03_step_addNode

/-- `Forest ∧ TidOK` without `BookOK`: an accepted `UserDeleteNode` creates a merge -/
theorem C03_hyp_needed_deleteNode_book :
    Forest D1 ∧ TidOK D1 ∧ (∃ r, (D1.uDeleteNode 2 none).2 = .ok r) ∧
    ¬ Forest (D1.uDeleteNode 2 none).1 :=
  ⟨by decide, tidB_sound (by decide), ⟨_, rfl⟩, by decide⟩
#print axioms C03_hyp_needed_deleteNode_book

/-- `Forest ∧ BookOK` without `TidOK`: an accepted `UserDeleteNode` creates a merge -/
theorem C03_hyp_needed_deleteNode_tid :
    Forest D2 ∧ BookOK D2 ∧ (∃ r, (D2.uDeleteNode 2 none).2 = .ok r) ∧
    ¬ Forest (D2.uDeleteNode 2 none).1 :=
  ⟨by decide, bookB_sound (by decide), ⟨_, rfl⟩, by decide⟩
#print axioms C03_hyp_needed_deleteNode_tid

/-
  Full statement (not proved here):
    theorem C03_step_deleteNode (s n pixels recs) :
      Forest s → TidOK s → BookOK s → (s.uDeleteNode n pixels).2 = .ok recs →
      Forest (s.uDeleteNode n pixels).1
  Proved: the same with `TidOK s ∧ BookOK s` replaced by the decidable condition `DelNbrOK s n`
  ("in the state `delNodeMid s n` — all edges at `n` removed, sibling relabelled — the pair
  (pred, succ) returned by get_track_neighbors has indeg succ = 0 and outdeg pred ≤ 1").
  Missing: `Forest s → TidOK s → BookOK s → DelNbrOK s n`.  That needs (i) the entry
  `t2n[tid n]` and `tidOf n` are unchanged by the sibling relabel (walk only touches the entries
  of the sibling's old id and of the parent's id, both ≠ tid n by T2) and (ii) the nodes of one
  track id form a chain of non-division edges (C04 `tid_iff_sameSeg` + linearity), so that the
  earliest later node of the track is the child of `n` and the latest earlier one its parent.
  `trackNeighbors_spec` (sort + scan = max below / min above) is already in ForestLemmas.
-/
theorem C03_step_deleteNode_partial (s : St) (n : Node) (pixels : Option (List Pix))
    (recs : List PrimRec) (hf : Forest s) (hN : DelNbrOK s n)
    (h : (s.uDeleteNode n pixels).2 = .ok recs) : Forest (s.uDeleteNode n pixels).1 :=
  uDeleteNode_forest_of hf hN h

example : Forest S0 ∧ DelNbrOK S0 2 ∧ (∃ r, (S0.uDeleteNode 2 none).2 = .ok r) ∧
    Forest S1 ∧ DelNbrOK S1 2 ∧ (∃ r, (S1.uDeleteNode 2 none).2 = .ok r) ∧
    (S1.uDeleteNode 2 none).1.edgeList = [(1, 3)] :=
  ⟨by decide, by decide, ⟨_, rfl⟩, by decide, by decide, ⟨_, rfl⟩, by decide⟩
#print axioms C03_step_deleteNode_partial

/-
  Full statement (not proved here):
    theorem C03_step_updateSeg (s v groups tid force recs) :
      Forest s → TidOK s → BookOK s → (s.uUpdateSeg v groups tid force).1.2 = .ok recs →
      Forest (s.uUpdateSeg v groups tid force).1.1
  Proved: the composition argument for an arbitrary invariant `I ⊆ Forest`.  Instantiating
  `I := Forest ∧ TidOK ∧ BookOK` needs C03_step_deleteNode (above) and the preservation of
  `TidOK`/`BookOK` by accepted `uDeleteNode` and by `pUpdSeg` (packages C04/C06);
  `hAdd` is then `C03_step_addNode`.
-/
theorem C03_step_updateSeg_partial (I : St → Prop)
    (hIF : ∀ st, I st → Forest st)
    (hDel : ∀ st n px r, I st → (st.uDeleteNode n px).2 = .ok r → I (st.uDeleteNode n px).1)
    (hSeg : ∀ st st' n px b r, I st → st.pUpdSeg n px b = .ok (st', r) → I st')
    (hAdd : ∀ st a r, I st → (st.uAddNode a).2 = .ok r → Forest (st.uAddNode a).1)
    (s : St) (newValue : Nat) (groups : List (List Pix × Nat)) (curTid : Nat) (force : Bool)
    (recs : List PrimRec) (hI : I s)
    (h : (s.uUpdateSeg newValue groups curTid force).1.2 = .ok recs) :
    Forest (s.uUpdateSeg newValue groups curTid force).1.1 :=
  uUpdateSeg_forest_of I hIF hDel hSeg hAdd hI h

namespace C03Ex
/-- an invariant that meets the hypotheses: nothing tracked yet (empty canvas) -/
def EmptyI (st : St) : Prop := Forest st ∧ st.nodes = [] ∧ st.t2n = []

theorem emptyI_del : ∀ st n px r, EmptyI st → (st.uDeleteNode n px).2 = .ok r →
    EmptyI (st.uDeleteNode n px).1 := by
  intro st n px r hI h
  have : st.hasNode n = false := by simp [hasNode, findNode, hI.2.1]
  simp [uDeleteNode, this] at h

theorem emptyI_seg : ∀ st st' n px b r, EmptyI st → st.pUpdSeg n px b = .ok (st', r) →
    EmptyI st' := by
  intro st st' n px b r hI h
  have : st.hasNode n = false := by simp [hasNode, findNode, hI.2.1]
  unfold pUpdSeg at h
  split at h
  · cases h
  · simp [this] at h

theorem emptyI_add : ∀ st a r, EmptyI st → (st.uAddNode a).2 = .ok r →
    Forest (st.uAddNode a).1 := by
  intro st a r hI h
  refine uAddNode_forest_of hI.1 ?_ h
  intro time tid0 _ _
  have hq : ∀ tid, st.trackNeighbors tid time = (st, none, none) := by
    intro tid; simp [trackNeighbors, hI.2.2, alook]
  refine ⟨?_, ?_⟩
  · intro p hp; rw [hq] at hp; cases hp
  · intro _ sc hs; rw [hq] at hs; cases hs

/-- two frames of four pixels, label 1 just painted on pixels 1,2 of frame 0 -/
def E0 : St := { seg := some ⟨4, [0, 1, 1, 0, 0, 0, 0, 0]⟩ }
end C03Ex

example : EmptyI E0 ∧ (∃ r, (E0.uUpdateSeg 1 [([1, 2], 0)] 1 false).1.2 = .ok r) ∧
    Forest (E0.uUpdateSeg 1 [([1, 2], 0)] 1 false).1.1 :=
  ⟨⟨by decide, rfl, rfl⟩, ⟨_, rfl⟩,
   C03_step_updateSeg_partial EmptyI (fun _ h => h.1) emptyI_del emptyI_seg emptyI_add
     E0 1 [([1, 2], 0)] 1 false _ ⟨by decide, rfl, rfl⟩ rfl⟩
#print axioms C03_step_updateSeg_partial

/-! ### session level -/

/-- `St.step`: every operation except paint / undo / redo / enable that does not answer with an
    error leaves a forest (top-level edits only add a history entry and a refresh on top of the
    user action; disable and the queries do not touch nodes or edges).  `delNode` under the
    condition of `C03_step_deleteNode_partial`. -/
theorem C03_step_session (s : St) (op : Op) (hf : Forest s) (ht : TidOK s) (hb : BookOK s)
    (hd : ∀ n, op = .delNode n → DelNbrOK s n) (hop : c03Covered op = true)
    (hne : ∀ e, (s.step op).2 ≠ .err e) : Forest (s.step op).1 :=
  step_forest hf ht hb hd hop hne

example : Forest S0 ∧ TidOK S0 ∧ BookOK S0 ∧ (S0.step (.addEdge (6, 4) true)).2 = .ok ∧
    (S0.step (.swap 3 7)).2 = .ok ∧ DelNbrOK S0 2 ∧ (S0.step (.delNode 2)).2 = .ok :=
  ⟨by decide, tidB_sound (by decide), bookB_sound (by decide), by decide, by decide, by decide,
   by decide⟩
#print axioms C03_step_session

/-! ### forced add-edge refused for a third child: rolled back -/

namespace C03Ex
/-- `S0` with a further node 8 below 6 -/
def S2 : St :=
  { nodes := [⟨1, 0, 1, some 1, []⟩, ⟨2, 1, 1, some 1, []⟩, ⟨3, 2, 2, some 1, []⟩, ⟨4, 2, 3, some 1, []⟩,
              ⟨5, 0, 4, some 2, []⟩, ⟨6, 1, 4, some 2, []⟩, ⟨8, 2, 4, some 2, []⟩],
    edges := [⟨(1, 2), []⟩, ⟨(2, 3), []⟩, ⟨(2, 4), []⟩, ⟨(5, 6), []⟩, ⟨(6, 8), []⟩],
    t2n := [(1, [1, 2]), (2, [3]), (3, [4]), (4, [5, 6, 8])],
    l2n := [(1, [1, 2, 3, 4]), (2, [5, 6, 8])],
    maxTid := 4, maxLin := 2, counter := 9 }
end C03Ex

/-- forced add-edge onto a target with parent `p ≠ u` while `u` already has two children: the
    in-edge `(p,t)` is removed by the nested UserDeleteEdge, the out-degree test fails, the group
    is rolled back; the call answers `invalid` and nodes, times and the edge set are as before
    (edge order and track/lineage ids after the rollback are C11's concern).  The hypothesis `hd`
    (the nested delete-edge itself is accepted) holds in every forest with existing track ids; it
    is kept explicit because that fact is not proved here. -/

theorem C03_refuse_triple_forced (s : St) (u t p : Node) (tu tt : Nat) (recs0 : List PrimRec)
    (hf : Forest s) (hu : s.timeOf u = some tu) (ht : s.timeOf t = some tt) (hlt : tu < tt)
    (hp : (p, t) ∈ s.edgeList) (hpu : p ≠ u) (hout : s.outdeg u ≥ 2)
    (hd : (s.uDeleteEdge (p, t)).2 = .ok recs0) :
    (s.uAddEdge (u, t) true).2 = .error .invalid ∧
    (s.uAddEdge (u, t) true).1.ids = s.ids ∧
    (∀ n, (s.uAddEdge (u, t) true).1.timeOf n = s.timeOf n) ∧
    (∀ e, e ∈ (s.uAddEdge (u, t) true).1.edgeList ↔ e ∈ s.edgeList) := by
  have nu : s.hasNode u = true := by
    unfold timeOf at hu; unfold hasNode; cases hq : s.findNode u <;> simp [hq] at hu ⊢
  have nt_ : s.hasNode t = true := by
    unfold timeOf at ht; unfold hasNode; cases hq : s.findNode t <;> simp [hq] at ht ⊢
  have hin : s.indeg t > 0 := by
    rw [indeg_eq]; exact List.length_pos_of_mem (List.mem_filter.mpr ⟨hp, by simp⟩)
  -- the in-edge that is removed is `(p, t)`
  have hpre : addEdgePre s (u, t) true = ((s.uDeleteEdge (p, t)).1, .ok recs0) := by
    unfold addEdgePre
    simp only [hin, if_true, Bool.not_true, Bool.false_eq_true, if_false]
    rcases hh : (s.preds t).head? with _ | p'
    · have := head?_none_indeg hh; omega
    · have hm := head?_preds_mem hh
      have : (p', t) = (p, t) := eq_of_length_le_one (by rw [← indeg_eq]; exact hf.indeg_le t)
        (List.mem_filter.mpr ⟨hm, by simp⟩) (List.mem_filter.mpr ⟨hp, by simp⟩)
      cases this
      simp [thenUser, hd]
  have hG := uDeleteEdge_G' s (p, t)
  have hout' : (s.uDeleteEdge (p, t)).1.outdeg u = s.outdeg u := by
    rw [outdeg_eq, outdeg_eq, G_es' hG, List.filter_filter]
    congr 1
    apply List.filter_congr
    intro x _
    by_cases hx : x.1 = u
    · have : x ≠ (p, t) := fun h => hpu (by rw [← hx, h])
      simp [hx, this]
    · simp [hx]
  have hres : s.uAddEdge (u, t) true =
      ((s.uDeleteEdge (p, t)).1.rollback recs0, .error .invalid) := by
    rw [uAddEdge_eq]
    simp only [nu, nt_, hu, ht, Option.getD_some, Bool.not_true, Bool.false_eq_true, if_false]
    rw [if_neg (by omega), hpre]
    simp only [addEdgeTail]
    have h0 : ((s.uDeleteEdge (p, t)).1.outdeg u == 0) = false := by rw [hout']; simp; omega
    have h1 : ((s.uDeleteEdge (p, t)).1.outdeg u == 1) = false := by rw [hout']; simp; omega
    simp only [h0, h1, Bool.false_eq_true, if_false]
    rfl
  have hR := rollback_uDeleteEdge (e := (p, t)) (hf.src_mem _ hp) (hf.dst_mem _ hp) hd
  rw [hres]
  refine ⟨rfl, ?_, ?_, ?_⟩
  · show ((s.uDeleteEdge (p, t)).1.rollback recs0).ids = s.ids
    rw [ids_eq_nt, ids_eq_nt, G_nt' hR]
  · intro n
    show ((s.uDeleteEdge (p, t)).1.rollback recs0).timeOf n = s.timeOf n
    rw [timeOf_eq_nt, timeOf_eq_nt, G_nt' hR]
  · intro e
    show e ∈ ((s.uDeleteEdge (p, t)).1.rollback recs0).edgeList ↔ e ∈ s.edgeList
    rw [G_es' hR]
    simp only [List.mem_append, List.mem_filter, List.mem_singleton]
    constructor
    · rintro (h | h)
      · exact h.1
      · rw [h]; exact hp
    · intro h
      by_cases c : e = (p, t)
      · right; exact c
      · left; exact ⟨h, by simpa using c⟩

example : Forest S2 ∧ S2.timeOf 2 = some 1 ∧ S2.timeOf 8 = some 2 ∧ (6, 8) ∈ S2.edgeList ∧
    S2.outdeg 2 ≥ 2 ∧ (∃ r, (S2.uDeleteEdge (6, 8)).2 = .ok r) ∧
    (S2.uAddEdge (2, 8) true).1.edgeList = [(1, 2), (2, 3), (2, 4), (5, 6), (6, 8)] :=
  ⟨by decide, by decide, by decide, by decide, by decide, ⟨_, rfl⟩, by decide⟩
#print axioms C03_refuse_triple_forced
