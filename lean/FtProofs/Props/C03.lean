/-
  C03 — edits keep a solution a forward-in-time binary forest.

  "Starting from a valid tracking solution, after every accepted user action, undo or redo each
   node has at most one parent and at most two children, and every edge leads from an earlier to
   a strictly later time point, so the graph stays acyclic. An edit that would create a merge, a
   third child or a non-forward edge is refused with InvalidActionError, or - where forcing is
   offered - carried out by removing only edges that conflict with it."

  The theorems are about the user actions of `FtModel/User.lean` (the model of
  `src/funtracks/user_actions/*.py` as repaired by the fix commits D1-D3) and the invariant
  `Ft.St.Forest` of `SessionSpec.lean`.  Undo/redo are covered through C01/C02 (they land, up to
  `Equiv`, on a state visited before).  Helper lemmas: `FtProofs/ForestLemmas.lean`.
-/
import FtProofs.ForestLemmas
open Ft Ft.St

namespace C03Ex
/-- example solution: track 1 = 1→2, dividing into 3 and 4; track 4 = 5→6; isolated node 7 -/
def S0 : St :=
  { nodes := [⟨1, 0, 1, some 1, []⟩, ⟨2, 1, 1, some 1, []⟩, ⟨3, 2, 2, some 1, []⟩, ⟨4, 2, 3, some 1, []⟩,
              ⟨5, 0, 4, some 2, []⟩, ⟨6, 1, 4, some 2, []⟩, ⟨7, 2, 5, some 3, []⟩],
    edges := [⟨(1, 2), []⟩, ⟨(2, 3), []⟩, ⟨(2, 4), []⟩, ⟨(5, 6), []⟩],
    t2n := [(1, [1, 2]), (2, [3]), (3, [4]), (4, [5, 6]), (5, [7])],
    l2n := [(1, [1, 2, 3, 4]), (2, [5, 6]), (3, [7])],
    maxTid := 5, maxLin := 3, counter := 8 }
end C03Ex
open C03Ex

/-! ### directed paths and acyclicity -/

/-- a directed path with at least one edge -/
inductive Ft.St.Path (s : St) : Node → Node → Prop where
  | single {a b : Node} : (a, b) ∈ s.edgeList → Path s a b
  | cons {a b c : Node} : (a, b) ∈ s.edgeList → Path s b c → Path s a c

theorem Ft.St.Path.time_lt {s : St} (hf : Forest s) {a b : Node} (p : Path s a b) :
    ∃ ta tb, s.timeOf a = some ta ∧ s.timeOf b = some tb ∧ ta < tb := by
  have tm : ∀ n, n ∈ s.ids → ∃ t, s.timeOf n = some t := by
    intro n hn; rw [timeOf_eq_nt]; exact tlook_isSome (by rw [← ids_eq_nt]; exact hn)
  induction p with
  | single h =>
    obtain ⟨ta, ha⟩ := tm _ (hf.src_mem _ h)
    obtain ⟨tb, hb⟩ := tm _ (hf.dst_mem _ h)
    exact ⟨ta, tb, ha, hb, hf.forward _ h ta tb ha hb⟩
  | cons h _ ih =>
    obtain ⟨tb, tc, hb, hc, hlt⟩ := ih
    obtain ⟨ta, ha⟩ := tm _ (hf.src_mem _ h)
    exact ⟨ta, tc, ha, hc, Nat.lt_trans (hf.forward _ h ta tb ha hb) hlt⟩

/-- a forest has no directed cycle: times strictly increase along every path -/
theorem C03_acyclic (s : St) (hf : Forest s) (a : Node) : ¬ Path s a a := by
  intro p
  obtain ⟨ta, tb, ha, hb, hlt⟩ := p.time_lt hf
  rw [ha] at hb; cases hb; omega

example : Forest S0 ∧ Path S0 1 4 :=
  ⟨by decide, .cons (b := 2) (by decide) (.single (by decide))⟩
#print axioms C03_acyclic

/-- degrees and direction, spelled out (what `Forest` says about one node / one edge) -/
theorem C03_forest_reading (s : St) (hf : Forest s) :
    (∀ v, (s.preds v).length ≤ 1) ∧ (∀ u, (s.succs u).length ≤ 2) ∧
    (∀ u v, (u, v) ∈ s.edgeList → ∃ tu tv, s.timeOf u = some tu ∧ s.timeOf v = some tv ∧ tu < tv) :=
  ⟨hf.indeg_le, hf.outdeg_le, fun _ _ h => (Path.single h).time_lt hf⟩

example : Forest S0 := by decide
#print axioms C03_forest_reading

/-! ### accepted user actions keep the forest -/

/-- `UserDeleteEdge` -/
theorem C03_step_deleteEdge (s : St) (e : Edge) (recs : List PrimRec)
    (hf : Forest s) (_h : (s.uDeleteEdge e).2 = .ok recs) : Forest (s.uDeleteEdge e).1 :=
  uDeleteEdge_forest e hf

example : Forest S0 ∧ ∃ recs, (S0.uDeleteEdge (2, 3)).2 = .ok recs := ⟨by decide, _, rfl⟩
#print axioms C03_step_deleteEdge

/-- … and exactly the requested edge disappears, whether or not the call is accepted
    (a refusal after the `DeleteEdge` primitive leaves the edge deleted: that is C11's concern) -/
theorem C03_deleteEdge_effect (s : St) (e : Edge) :
    (s.uDeleteEdge e).1.ids = s.ids ∧
    (∀ n, (s.uDeleteEdge e).1.timeOf n = s.timeOf n) ∧
    (s.uDeleteEdge e).1.edgeList = s.edgeList.filter (· != e) := by
  have h := uDeleteEdge_G s e
  refine ⟨?_, ?_, ?_⟩
  · rw [ids_eq_nt, ids_eq_nt, G_nt' h]
  · intro n; rw [timeOf_eq_nt, timeOf_eq_nt, G_nt' h]
  · rw [G_es' h]
    split
    · rfl
    · rename_i hne
      symm; rw [List.filter_eq_self]
      intro x hx; simp; intro hxe; exact hne (hxe ▸ hx)

example : (S0.uDeleteEdge (2, 3)).1.edgeList = [(1, 2), (2, 4), (5, 6)] := by decide
#print axioms C03_deleteEdge_effect

/-- `UserAddEdge`, forced or not -/
theorem C03_step_addEdge (s : St) (e : Edge) (force : Bool) (recs : List PrimRec)
    (hf : Forest s) (h : (s.uAddEdge e force).2 = .ok recs) : Forest (s.uAddEdge e force).1 :=
  uAddEdge_forest hf h

example : Forest S0 ∧ (∃ recs, (S0.uAddEdge (6, 4) true).2 = .ok recs) ∧
    (∃ recs, (S0.uAddEdge (6, 7) false).2 = .ok recs) := ⟨by decide, ⟨_, rfl⟩, ⟨_, rfl⟩⟩
#print axioms C03_step_addEdge

/-- `UserUpdateNodeAttrs` -/
theorem C03_step_updateAttrs (s : St) (n : Node) (attrs : List (Key × Val)) (recs : List PrimRec)
    (hf : Forest s) (_h : (s.uUpdateAttrs n attrs).2 = .ok recs) :
    Forest (s.uUpdateAttrs n attrs).1 :=
  forest_congr (uUpdateAttrs_G s n attrs) hf

example : Forest S0 ∧ ∃ recs, (S0.uUpdateAttrs 3 [(7, .tok 5)]).2 = .ok recs := ⟨by decide, _, rfl⟩
#print axioms C03_step_updateAttrs

/-- `UserSwapPredecessors` -/
theorem C03_step_swap (s : St) (n1 n2 : Node) (recs : List PrimRec)
    (hf : Forest s) (h : (s.uSwap n1 n2).2 = .ok recs) : Forest (s.uSwap n1 n2).1 :=
  uSwap_forest hf h

example : Forest S0 ∧ (∃ recs, (S0.uSwap 3 7).2 = .ok recs) ∧ (∃ recs, (S0.uSwap 2 6).2 = .ok recs) :=
  ⟨by decide, ⟨_, rfl⟩, ⟨_, rfl⟩⟩
#print axioms C03_step_swap

/-! ### refusals -/

/-- a merge is refused as forceable, nothing changed -/
theorem C03_refuse_merge (s : St) (u t : Node) (tu tt : Nat)
    (hu : s.timeOf u = some tu) (ht : s.timeOf t = some tt) (hlt : tu < tt)
    (hin : s.indeg t > 0) : s.uAddEdge (u, t) false = (s, .error .forceable) := by
  have nu : s.hasNode u = true := by
    unfold timeOf at hu; unfold hasNode; cases hq : s.findNode u <;> simp [hq] at hu ⊢
  have nt_ : s.hasNode t = true := by
    unfold timeOf at ht; unfold hasNode; cases hq : s.findNode t <;> simp [hq] at ht ⊢
  rw [uAddEdge_eq]
  simp only [nu, nt_, hu, ht, Option.getD_some, Bool.not_true, Bool.false_eq_true, if_false]
  rw [if_neg (by omega)]
  have : addEdgePre s (u, t) false = (s, .error .forceable) := by
    unfold addEdgePre; simp [hin]
  rw [this]

example : S0.timeOf 6 = some 1 ∧ S0.timeOf 4 = some 2 ∧ S0.indeg 4 > 0 := by decide
#print axioms C03_refuse_merge

/-- a backward or same-frame edge is refused (forced or not), nothing changed -/
theorem C03_refuse_backward (s : St) (u t : Node) (force : Bool)
    (h : ∀ tu tt, s.timeOf u = some tu → s.timeOf t = some tt → tt ≤ tu) :
    s.uAddEdge (u, t) force = (s, .error .invalid) := by
  rw [uAddEdge_eq]
  by_cases c1 : s.hasNode u = true
  · by_cases c2 : s.hasNode t = true
    · simp only [c1, c2, Bool.not_true, Bool.false_eq_true, if_false]
      have e1 : ∃ a, s.timeOf u = some a := by
        unfold hasNode at c1; unfold timeOf; cases hq : s.findNode u <;> simp [hq] at c1 ⊢
      have e2 : ∃ a, s.timeOf t = some a := by
        unfold hasNode at c2; unfold timeOf; cases hq : s.findNode t <;> simp [hq] at c2 ⊢
      obtain ⟨a, ha⟩ := e1; obtain ⟨b, hb⟩ := e2
      have := h a b ha hb
      rw [if_pos (by rw [ha, hb]; simpa using this)]
    · simp [c1, c2]
  · simp [c1]

example : S0.timeOf 3 = some 2 ∧ S0.timeOf 1 = some 0 ∧ S0.timeOf 4 = some 2 := by decide
#print axioms C03_refuse_backward

/-- a third child is refused (unforced case, or target without parent): nothing changed -/
theorem C03_refuse_triple (s : St) (u t : Node) (force : Bool) (tu tt : Nat)
    (hu : s.timeOf u = some tu) (ht : s.timeOf t = some tt) (hlt : tu < tt)
    (hin : s.indeg t = 0) (hout : s.outdeg u ≥ 2) :
    s.uAddEdge (u, t) force = (s, .error .invalid) := by
  have nu : s.hasNode u = true := by
    unfold timeOf at hu; unfold hasNode; cases hq : s.findNode u <;> simp [hq] at hu ⊢
  have nt_ : s.hasNode t = true := by
    unfold timeOf at ht; unfold hasNode; cases hq : s.findNode t <;> simp [hq] at ht ⊢
  rw [uAddEdge_eq]
  simp only [nu, nt_, hu, ht, Option.getD_some, Bool.not_true, Bool.false_eq_true, if_false]
  rw [if_neg (by omega)]
  have : addEdgePre s (u, t) force = (s, .ok []) := by
    unfold addEdgePre; simp [hin]
  rw [this]
  simp only [addEdgeTail]
  have h0 : (s.outdeg u == 0) = false := by simp; omega
  have h1 : (s.outdeg u == 1) = false := by simp; omega
  simp only [h0, h1, Bool.false_eq_true, if_false]
  rfl

example : S0.timeOf 2 = some 1 ∧ S0.timeOf 7 = some 2 ∧ S0.indeg 7 = 0 ∧ S0.outdeg 2 ≥ 2 := by decide
#print axioms C03_refuse_triple

/-! ### forcing removes only what conflicts -/

/-- an accepted (forced) add-edge adds the requested edge and removes nothing but in-edges of
    the target; nodes and times are untouched -/
theorem C03_force_minimal (s : St) (u t : Node) (force : Bool) (recs : List PrimRec)
    (h : (s.uAddEdge (u, t) force).2 = .ok recs) :
    (s.uAddEdge (u, t) force).1.ids = s.ids ∧
    (∀ e, e ∈ (s.uAddEdge (u, t) force).1.edgeList → e ∈ s.edgeList ∨ e = (u, t)) ∧
    (u, t) ∈ (s.uAddEdge (u, t) force).1.edgeList ∧
    (∀ e, e ∈ s.edgeList → e ∉ (s.uAddEdge (u, t) force).1.edgeList → e.2 = t ∧ force = true) := by
  obtain ⟨_, _, _, es0, hes, _, hG⟩ := uAddEdge_ok h
  have hsub : ∀ e, e ∈ es0 → e ∈ s.edgeList := by
    rcases hes with ⟨h1, _⟩ | ⟨_, p, _, h1⟩
    · rw [h1]; exact fun _ h => h
    · rw [h1]; exact fun _ h => (List.mem_filter.mp h).1
  have hE := G_es' hG
  refine ⟨by rw [ids_eq_nt, ids_eq_nt, G_nt' hG], ?_, ?_, ?_⟩
  · intro e he; rw [hE] at he
    split at he
    · exact Or.inl (hsub e he)
    · rcases List.mem_append.mp he with h1 | h1
      · exact Or.inl (hsub e h1)
      · right; simpa using h1
  · rw [hE]; split
    · assumption
    · simp
  · intro e he hne
    rw [hE] at hne
    have hne0 : e ∉ es0 := by
      intro h0; apply hne; split
      · exact h0
      · exact List.mem_append_left _ h0
    rcases hes with ⟨h1, _⟩ | ⟨hfo, p, _, h1⟩
    · rw [h1] at hne0; exact absurd he hne0
    · rw [h1, List.mem_filter] at hne0
      have : e = (p, t) := by
        apply Classical.byContradiction; intro hc; apply hne0; exact ⟨he, by simpa using hc⟩
      exact ⟨by rw [this], hfo⟩

example : (∃ recs, (S0.uAddEdge (6, 4) true).2 = .ok recs) ∧
    (S0.uAddEdge (6, 4) true).1.edgeList = [(1, 2), (2, 3), (5, 6), (6, 4)] := ⟨⟨_, rfl⟩, by decide⟩
#print axioms C03_force_minimal
