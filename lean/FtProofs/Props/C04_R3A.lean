/-
  C04 / C03–C08 (round 3, package R3A) — the joint invariant `Valid`
  (= Forest ∧ TidOK ∧ LinOK ∧ BookOK ∧ lineage feature on) through a paint and through every
  accepted session step; the joint graph / array invariant through accepted edits.

  * `C04_valid_pUpdSeg`, `C04_valid_uUpdateAttrs` — the two user-visible actions that write no id,
    edge or lookup.
  * `C04_valid_uUpdateSeg` (FULL) — an accepted `UserUpdateSegmentation` preserves `Valid`.  No
    stroke precondition is needed: whatever the groups say, the action is a sequence of accepted
    `UserDeleteNode` / `UpdateNodeSeg` followed by `UpdateNodeSeg` or `UserAddNode` with
    `lin := none`.
  * `C04_valid_step` (FULL) — every `St.step` other than undo / redo that does not answer with an
    error preserves `Valid` (`StepOK`: add-node lets the action choose the lineage, disable does
    not switch the lineage feature off).  Covers the seven edits (answer `.ok`), enable / disable /
    nop (`.ok`) and the queries (`.nodes`, `.bool`).  `C04_valid_step_ok` is the `.ok` corollary.
  * `C04_frame_updateSeg`, `C05_frame_updateSeg` — frame clauses of a paint.
  * `C04_valid_run` — hence along every run of covered, non-refused operations;
    `C04_valid_step_hist_false` — undo / redo that answer `false` change nothing (the accepted
    undo / redo are NOT in this package: they need the inverse laws of C01).
  * `C07_valid_step_all` — the same joint statement for every operation other than undo / redo that
    is not refused: edits, `enable` (with recompute on whole frames, or without recompute when no new
    regionprops key is switched on), `disable` (lineage key excepted), queries, `nop`.
    `C07_shape_step` — every accepted step keeps the array's frame size and length, so `Seg.WF`
    (whole frames) is inherited.
  * `C07_valid_step` (FULL for the seven edits) — `Joint` = Valid ∧ array present with frame size
    `f` ∧ SegOK ∧ non-zero ids (unique by Valid) ∧ node clause of MeasOK ∧ active ⊆ available
    regionprops keys, through every accepted edit under `StepOK` and `StepPre`.
-/
import FtProofs.R3ALemmas
open Ft Ft.St Ft.R3A

/-- `UpdateNodeSeg` writes the array, regionprops values and IoU attributes only -/
theorem C04_valid_pUpdSeg {s s' : St} {n : Node} {px : List Pix} {b : Bool} {r : PrimRec}
    (hV : s.Valid) (h : s.pUpdSeg n px b = .ok (s', r)) : s'.Valid :=
  pUpdSeg_valid hV h

example : exJ.Valid ∧ ∃ s' r, exJ.pUpdSeg 1 [2] true = .ok (s', r) ∧
    s'.seg = some { frame := 4, data := [1, 1, 1, 3,  2, 2, 2, 0,  4, 4, 0, 0] } :=
  ⟨exJ_valid, _, _, rfl, by decide⟩
#print axioms C04_valid_pUpdSeg

/-- `UserUpdateNodeAttrs` writes free-form attributes only -/
theorem C04_valid_uUpdateAttrs {s : St} {n : Node} {attrs : List (Key × Val)} {recs : List PrimRec}
    (hV : s.Valid) (h : (s.uUpdateAttrs n attrs).2 = .ok recs) : (s.uUpdateAttrs n attrs).1.Valid :=
  uUpdateAttrs_valid hV h

example : exJ.Valid ∧ ∃ recs, (exJ.uUpdateAttrs 2 [(9, Val.tok 8)]).2 = .ok recs :=
  ⟨exJ_valid, _, rfl⟩
#print axioms C04_valid_uUpdateAttrs

/-- **accepted `UserUpdateSegmentation` preserves `Valid`** (any groups, any value, forced or not) -/
theorem C04_valid_uUpdateSeg {s : St} {v : Nat} {groups : List (List Pix × Nat)} {tid : Nat}
    {force : Bool} {recs : List PrimRec} (hV : s.Valid)
    (h : (s.uUpdateSeg v groups tid force).1.2 = .ok recs) :
    (s.uUpdateSeg v groups tid force).1.1.Valid :=
  uUpdateSeg_valid hV h

-- `exP v groups` = `exJ` after the caller painted `v` on the pixels of `groups`
-- (i) new label 9 over part of node 1, all of node 3 and a free pixel: 1 shrinks, 3 is deleted,
--     9 is created on the new track 5
-- (ii) new label 7 over all of node 2 with the id of track 1: 2 is deleted (1 → 4 reconnected),
--     7 is spliced into the skip edge
-- (iii) erase node 4
example :
    (∃ r, ((exP 9 [([1], 1), ([3], 3), ([2], 0)]).uUpdateSeg 9 [([1], 1), ([3], 3), ([2], 0)] 5 false).1.2 = .ok r) ∧
    ((exP 9 [([1], 1), ([3], 3), ([2], 0)]).uUpdateSeg 9 [([1], 1), ([3], 3), ([2], 0)] 5 false).1.1.ids = [1, 2, 4, 9] ∧
    (∃ r, ((exP 7 [([4, 5, 6], 2)]).uUpdateSeg 7 [([4, 5, 6], 2)] 1 false).1.2 = .ok r) ∧
    ((exP 7 [([4, 5, 6], 2)]).uUpdateSeg 7 [([4, 5, 6], 2)] 1 false).1.1.edgeList = [(1, 7), (7, 4)] ∧
    R2D.validB ((exP 7 [([4, 5, 6], 2)]).uUpdateSeg 7 [([4, 5, 6], 2)] 1 false).1.1 = true ∧
    (∃ r, ((exP 0 [([8, 9], 4)]).uUpdateSeg 0 [([8, 9], 4)] 1 false).1.2 = .ok r) ∧
    ((exP 0 [([8, 9], 4)]).uUpdateSeg 0 [([8, 9], 4)] 1 false).1.1.ids = [1, 2, 3] :=
  ⟨⟨_, rfl⟩, by decide, ⟨_, rfl⟩, by decide, by decide, ⟨_, rfl⟩, by decide⟩
#print axioms C04_valid_uUpdateSeg

/-- **every session step other than undo / redo that does not answer with an error preserves
    `Valid`**: the seven edits (history entry and refresh included), feature switching, `nop`
    (answer `.ok`) and the queries (answers `.nodes` / `.bool`) -/
theorem C04_valid_step {s : St} {op : Op} (hV : s.Valid) (hop : StepOK op)
    (hne : ∀ e, (s.step op).2 ≠ .err e) : (s.step op).1.Valid :=
  step_valid hV hop hne

/-- the `.ok` form -/
theorem C04_valid_step_ok {s s' : St} {op : Op} (hV : s.Valid) (hop : StepOK op)
    (h : s.step op = (s', .ok)) : s'.Valid := by
  have := step_valid (op := op) hV hop (by rw [h]; intro e he; cases he)
  rwa [h] at this

example : exJ.Valid ∧
    StepOK (.paint 9 [([1], 1), ([3], 3), ([2], 0)] 5 false) ∧
    (exJ.step (.paint 9 [([1], 1), ([3], 3), ([2], 0)] 5 false)).2 = .ok ∧
    (exJ.step (.paint 7 [([4, 5, 6], 2)] 1 false)).2 = .ok ∧
    StepOK (.addNode ⟨8, some 2, some 2, none, [], some [10], false⟩) ∧
    (exJ.step (.addNode ⟨8, some 2, some 2, none, [], some [10], false⟩)).2 = .ok ∧
    (exJ.step (.delNode 2)).2 = .ok ∧ (exJ.step (.swap 3 2)).2 = .err .invalid ∧
    (exJ.step (.addEdge (3, 2) true)).2 = .ok ∧ (exJ.step (.delEdge (1, 2))).2 = .ok ∧
    (exJ.step (.updAttrs 2 [(9, Val.tok 1)])).2 = .ok ∧
    StepOK (.disable [5]) ∧ (exJ.step (.disable [5])).2 = .ok ∧ ¬ StepOK (.disable [keyLin]) ∧
    (exJ.step (.enable [6] true)).2 = .ok ∧
    (exJ.step (.qNeighbors 1 1)).2 = .nodes [some 1, some 4] ∧
    (exJ.step (.qHasTrack 1 1)).2 = .bool true ∧ ¬ StepOK .undo := by
  refine ⟨exJ_valid, by decide, by decide, by decide, by decide, by decide, by decide, by decide,
    by decide, by decide, by decide, by decide, by decide, by decide, by decide, by decide, by decide,
    by decide⟩
#print axioms C04_valid_step
#print axioms C04_valid_step_ok

/-- C04 frame clause of a paint: a node that is connected neither to the node of an overwritten
    (non-zero) label nor to a node of the requested track keeps its track id.  (`x` is any node
    other than a newly created `v`; deletions only ever disconnect, and if the requested track is
    occupied in the frame the new node goes to a fresh track, which touches nobody.) -/
theorem C04_frame_updateSeg {s : St} {v : Nat} {groups : List (List Pix × Nat)} {tid : Nat}
    {force : Bool} {recs : List PrimRec} (hV : s.Valid)
    (hok : (s.uUpdateSeg v groups tid force).1.2 = .ok recs) (x : Node)
    (hxv : x ≠ v ∨ x ∈ s.ids)
    (hdel : ∀ grp ∈ groups, grp.2 ≠ 0 → ¬ s.Conn x grp.2)
    (hfar : ∀ m, s.tidOf m = some tid → ¬ s.Conn x m) :
    (s.uUpdateSeg v groups tid force).1.1.tidOf x = s.tidOf x :=
  (uUpdateSeg_frame hV hok x hxv hdel hfar).1

/-- C05 frame clause of a paint, same hypotheses: the lineage id is kept -/
theorem C05_frame_updateSeg {s : St} {v : Nat} {groups : List (List Pix × Nat)} {tid : Nat}
    {force : Bool} {recs : List PrimRec} (hV : s.Valid)
    (hok : (s.uUpdateSeg v groups tid force).1.2 = .ok recs) (x : Node)
    (hxv : x ≠ v ∨ x ∈ s.ids)
    (hdel : ∀ grp ∈ groups, grp.2 ≠ 0 → ¬ s.Conn x grp.2)
    (hfar : ∀ m, s.tidOf m = some tid → ¬ s.Conn x m) :
    (s.uUpdateSeg v groups tid force).1.1.linOf x = s.linOf x :=
  (uUpdateSeg_frame hV hok x hxv hdel hfar).2

-- paint (ii) deletes node 2 of track 1 / lineage 1 and splices 7 in: the isolated node 3 (other
-- lineage) is connected to neither; the hypotheses are satisfiable and the ids of 4 do not move
-- either here (same track before and after)
example : (∃ r, ((exP 7 [([4, 5, 6], 2)]).uUpdateSeg 7 [([4, 5, 6], 2)] 1 false).1.2 = .ok r) ∧
    (3 ≠ 7 ∨ 3 ∈ (exP 7 [([4, 5, 6], 2)]).ids) ∧
    (∀ grp ∈ [(([4, 5, 6] : List Pix), 2)], grp.2 ≠ 0 → ¬ (exP 7 [([4, 5, 6], 2)]).Conn 3 grp.2) ∧
    (∀ m, (exP 7 [([4, 5, 6], 2)]).tidOf m = some 1 → ¬ (exP 7 [([4, 5, 6], 2)]).Conn 3 m) := by
  have hV := exP_valid 7 [([4, 5, 6], 2)]
  have key : ∀ m ∈ (exP 7 [([4, 5, 6], 2)]).ids, (exP 7 [([4, 5, 6], 2)]).linOf 3 = (exP 7 [([4, 5, 6], 2)]).linOf m → m = 3 := by decide
  refine ⟨⟨_, rfl⟩, Or.inl (by decide), ?_, ?_⟩
  · intro grp hg _ hc
    simp only [List.mem_singleton] at hg; subst hg
    have := key 2 (by decide) (LinOK.of_conn hV.lin hc)
    revert this; decide
  · intro m hm hc
    have h1 := key m (PC.tidOf_some_mem hm) (LinOK.of_conn hV.lin hc)
    subst h1
    revert hm; decide
#print axioms C04_frame_updateSeg
#print axioms C05_frame_updateSeg

/-- **the joint graph / array statement**: a valid solution whose labels and nodes correspond, with
    non-zero ids, current regionprops values and only available keys active, stays so through every
    accepted edit (add-node with the lineage left to the action; paint and add-node under their
    documented preconditions `StepPre`); the frame size is kept. -/
theorem C07_valid_step {s s' : St} {op : Op} {f : Nat} {g : Seg} (hJ : Joint s f) (hf : 0 < f)
    (hg : s.seg = some g) (hed : isEdit op = true) (hop : StepOK op) (hpre : R2G.StepPre s g op)
    (h : s.step op = (s', .ok)) : Joint s' f :=
  step_joint hJ hf hg hed hop hpre h

/-- what `Joint` says, in the vocabulary of `SessionSpec.lean` -/
theorem C07_valid_reading {s : St} {f : Nat} (hJ : Joint s f) :
    s.Forest ∧ s.TidOK ∧ s.LinOK ∧ s.BookOK ∧ s.linOn = true ∧ SegOK s ∧ s.ids.Nodup ∧
    (∀ r ∈ s.nodes, r.id ≠ 0) ∧ (∃ g, s.seg = some g ∧ g.frame = f) ∧
    (∀ g, s.seg = some g → ∀ k ∈ s.rpActive, ∀ r ∈ s.nodes,
      alook k r.other = some (if g.pixelsOf r.time r.id = [] then Val.none
                              else Val.mask (g.pixelsOf r.time r.id))) :=
  ⟨hJ.valid.forest, hJ.valid.tid, hJ.valid.lin, hJ.valid.book, hJ.valid.linOn, hJ.segOK,
   hJ.valid.forest.nodup_nodes, hJ.ne0, hJ.seg, fun g hg k hk r hr => hJ.rp g hg k hk r hr⟩

example : Joint exJ 4 ∧ exJ.seg = some exJg ∧
    R2G.StepPre exJ exJg (.paint 9 [([1], 1), ([3], 3), ([2], 0)] 5 false) ∧
    (∃ s', exJ.step (.paint 9 [([1], 1), ([3], 3), ([2], 0)] 5 false) = (s', .ok) ∧
      s'.nodes.map (fun r => (r.id, r.tid, alook 5 r.other)) =
        [(1, 1, some (.mask [0])), (2, 1, some (.mask [4, 5, 6])), (4, 1, some (.mask [8, 9])),
         (9, 5, some (.mask [1, 2, 3]))]) ∧
    R2G.StepPre exJ exJg (.paint 7 [([4, 5, 6], 2)] 1 false) ∧
    (∃ s', exJ.step (.paint 7 [([4, 5, 6], 2)] 1 false) = (s', .ok)) ∧
    R2G.StepPre exJ exJg (.addNode ⟨8, some 2, some 2, none, [], some [10], false⟩) ∧
    (∃ s', exJ.step (.addNode ⟨8, some 2, some 2, none, [], some [10], false⟩) = (s', .ok) ∧
      s'.edgeList = [(1, 2), (2, 4), (3, 8)]) ∧
    (∃ s', exJ.step (.delNode 2) = (s', .ok) ∧ s'.edgeList = [(1, 4)]) :=
  ⟨exJ_joint, rfl, ⟨0, by decide⟩, ⟨_, rfl, by decide⟩, ⟨1, by decide⟩, ⟨_, rfl⟩,
   ⟨by decide, [10], 2, rfl, rfl, by decide, by decide⟩, ⟨_, rfl, by decide⟩, ⟨_, rfl, by decide⟩⟩
#print axioms C07_valid_step
#print axioms C07_valid_reading

/-- `Valid` along every run of covered operations none of which is refused -/
theorem C04_valid_run {s : St} {ops : List Op} (hV : s.Valid) (h : RunOK s ops) :
    (run s ops).Valid :=
  run_valid hV h

-- `exOps`: paint (node 3 deleted, node 9 created), delete node 2, forced add-edge, add-node with
-- pixels spliced into the new skip edge, enable with recompute, a query, delete-edge, nop
example : exJ.Valid ∧ RunOK exJ exOps ∧ (run exJ exOps).edgeList = [(8, 4)] ∧
    (run exJ exOps).nodes.map (fun r => (r.id, r.time, r.tid, r.lin)) =
      [(1, 0, 1, some 1), (4, 2, 7, some 5), (9, 0, 5, some 3), (8, 1, 7, some 5)] := by
  refine ⟨exJ_valid, by decide, by decide, by decide⟩
#print axioms C04_valid_run

/-- undo / redo that answer `false` (nothing to undo / redo) leave the state as it is -/
theorem C04_valid_step_hist_false {s : St} {op : Op} (hop : op = .undo ∨ op = .redo)
    (h : (s.step op).2 = .bool false) : (s.step op).1 = s :=
  step_hist_false hop h

example : (exJ.step .undo).2 = .bool false ∧ (exJ.step .redo).2 = .bool false := by decide
#print axioms C04_valid_step_hist_false

/-- the joint statement for every operation other than undo / redo that is not refused -/
theorem C07_valid_step_all {s : St} {op : Op} {f : Nat} {g : Seg} (hJ : Joint s f) (hf : 0 < f)
    (hg : s.seg = some g) (hop : StepOK op) (hpre : JPre s g op)
    (hne : ∀ e, (s.step op).2 ≠ .err e) : Joint (s.step op).1 f :=
  step_joint_all hJ hf hg hop hpre hne

-- switching key 6 on with recompute (whole frames), switching key 5 off, and switching an active
-- key "on" again without recompute
example : Joint exJ 4 ∧ exJ.seg = some exJg ∧
    JPre exJ exJg (.enable [6] true) ∧ (exJ.step (.enable [6] true)).2 = .ok ∧
    (exJ.step (.enable [6] true)).1.nodes.map (fun r => alook 6 r.other) =
      [some (.mask [0, 1]), some (.mask [4, 5, 6]), some (.mask [3]), some (.mask [8, 9])] ∧
    JPre exJ exJg (.disable [5]) ∧ (exJ.step (.disable [5])).2 = .ok ∧
    JPre exJ exJg (.enable [5] false) ∧ ¬ JPre exJ exJg (.enable [6] false) ∧
    JPre exJ exJg (.qNeighbors 1 1) := by
  refine ⟨exJ_joint, rfl, ?_, by decide, by decide, trivial, by decide, ?_, ?_, trivial⟩
  · show exJg.WF
    decide
  · show ∀ k ∈ [5], k ∈ exJ.rpAvail → k ∈ exJ.rpActive
    decide
  · show ¬ ∀ k ∈ [6], k ∈ exJ.rpAvail → k ∈ exJ.rpActive
    decide
#print axioms C07_valid_step_all

/-- every accepted step keeps the frame size and the length of the array; in particular whole
    frames (`Seg.WF`) stay whole frames — no hypothesis on the state -/
theorem C07_shape_step {s s' : St} {op : Op} {g : Seg} (hg : s.seg = some g)
    (h : s.step op = (s', .ok)) :
    ∃ g', s'.seg = some g' ∧ g'.frame = g.frame ∧ g'.data.length = g.data.length ∧
      (g.WF → g'.WF) := by
  obtain ⟨g', e, f, l⟩ := step_shape h g hg
  refine ⟨g', e, f, l, fun hwf => ?_⟩
  unfold Seg.WF at hwf ⊢; rw [f, l]; exact hwf

example : ∃ s', exJ.step (.delNode 2) = (s', .ok) ∧
    s'.seg = some { frame := 4, data := [1, 1, 0, 3,  0, 0, 0, 0,  4, 4, 0, 0] } :=
  ⟨_, rfl, by decide⟩
#print axioms C07_shape_step
