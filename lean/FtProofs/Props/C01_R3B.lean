/-
  C01 / C11 (package R3B) — user-level inverse laws of the composite *edge* actions.

  "Applying any edit - a primitive action or a composite user action - and then inverting it
   restores the observable tracks state exactly … Inverting the inverse reproduces the post-edit
   state exactly."  (C01)      "A refused edit leaves the state as it was." (C11)

  Vocabulary (`Ft.R2A1`, `Ft.R3P`): `ObsEq` observational equality; `E` the common equivalence
  (`ObsEq` + well-formed together + id maxima sound together; on `Good` states it *is* `ObsEq`);
  `Good s = WF s ∧ MaxOK s` (distinct attribute keys / lookup keys; follows from `Valid` + distinct
  attribute keys); `EdgeInv s` (every visible edge attribute is a registered feature, an active IoU
  key is registered, an active IoU is current on every edge — follows from `MeasOK` + registered
  attributes: `EdgeInv.of_records`); `Chain E s recs s'` (the recorded primitives form a run in which
  every primitive satisfies its two-way inverse law over `E` at the state where it was applied — the
  record relation `C02_session` takes, see `C01_obligation_common`).

  Proved here, each from `Valid s ∧ WF s ∧ EdgeInv s` (`Good s` follows) and "the call was accepted":
  * `C01_user_deleteEdge`, `C01_user_addEdge` (forced or not), `C01_user_swap`,
    `C01_user_updateAttrs`:
      (1) the returned record list is a `Chain E` from `s` to the result `s'`;
      (2) `s'` again satisfies `Valid ∧ Good ∧ EdgeInv` (so the statements compose over a session);
      (3) explicit reading: from every state `t` in the `E`-class of `s'` (in particular `s'` itself),
          `ActionGroup.inverse` (`invGroup`, the recorded primitives inverted in reverse order)
          succeeds, returns as many records, and restores `s` up to `ObsEq`; inverting the returned
          group again succeeds and reproduces `s'` up to `ObsEq`.
    No further hypothesis: the view preconditions of the `UpdateTrackIDs` primitives at the
    intermediate states (where `TidOK` is broken) are derived (`R3BLemmas` §2).
  * `C11_deleteEdge_accepts`   `uDeleteEdge` of an existing edge of a forest is always accepted
                               (discharges the explicit hypothesis of `C03_refuse_triple_forced`).
  * `C11_addEdge_forced_triple` forced add-edge onto a source that already has two children, when the
                               target has another parent: the nested delete-edge is applied, the call
                               is refused with `invalid`, and the returned (rolled back) state is in
                               the `E`-class of the input, hence `ObsEq` to it and again
                               `Valid ∧ Good ∧ EdgeInv`.  It is in general *not equal* to the input
                               (id maxima and insertion orders differ): see the example.
  * `C11_addEdge_refused`      **every** refused `uAddEdge` (forced or not, whatever the error) returns a
                               state in the `E`-class of the input (the early refusals return the
                               input itself; the only refusal after a mutation is the one above).
  * `C11_deleteEdge_refused`   a refused `uDeleteEdge` on a forest: the edge is absent, the input state
                               is returned unchanged, the error is `invalid`.
-/
import FtProofs.R3BLemmas
open Ft Ft.St Ft.R2A1 Ft.R3P Ft.R3B List

/-- **UserDeleteEdge.** An accepted delete-edge on a valid, well-formed state whose edge attributes
    are registered and whose IoU values are current: the record list is a lawful chain over the
    common equivalence, the result satisfies the same invariants, `inverse()` restores the input up
    to `ObsEq` (from any state `E`-equal to the result), inverting the inverse reproduces the result
    up to `ObsEq`. -/
theorem C01_user_deleteEdge (s : St) (e : Edge) (recs : List PrimRec)
    (hv : s.Valid) (hw : WF s) (hi : EdgeInv s) (hok : (s.uDeleteEdge e).2 = .ok recs) :
    Chain E s recs (s.uDeleteEdge e).1 ∧
    ((s.uDeleteEdge e).1.Valid ∧ Good (s.uDeleteEdge e).1 ∧ EdgeInv (s.uDeleteEdge e).1) ∧
    ∀ t, E t (s.uDeleteEdge e).1 →
      ∃ s₁ recs', t.invGroup recs = (s₁, .ok recs') ∧ ObsEq s₁ s ∧ recs'.length = recs.length ∧
        ∃ s₂ recs'', s₁.invGroup recs' = (s₂, .ok recs'') ∧ ObsEq s₂ (s.uDeleteEdge e).1 :=
  user_c01 (uDeleteEdge_run (Inv3.mk' hv hw hi) hok) hok
-- `exCur` (label array, active current IoU): the division edge (1,2) — DeleteEdge, relabel of the
-- sibling's chain, relabel below 2 with a fresh lineage (3 records); the plain edge (2,4) (2 records)
example : ∃ recs, (exCur.uDeleteEdge (1, 2)).2 = .ok recs ∧ recs.length = 3 ∧
    Chain E exCur recs (exCur.uDeleteEdge (1, 2)).1 ∧
    ∃ s₁ recs', (exCur.uDeleteEdge (1, 2)).1.invGroup recs = (s₁, .ok recs') ∧ ObsEq s₁ exCur ∧
      ∃ s₂ recs'', s₁.invGroup recs' = (s₂, .ok recs'') ∧ ObsEq s₂ (exCur.uDeleteEdge (1, 2)).1 := by
  obtain ⟨hc, _, hrd⟩ := C01_user_deleteEdge exCur (1, 2) _ exCur_inv3.valid exCur_inv3.good.wf
    exCur_inv3.edge rfl
  obtain ⟨s₁, recs', h1, h2, _, h3⟩ := hrd _ (E_isEquiv.refl _)
  exact ⟨_, rfl, rfl, hc, s₁, recs', h1, h2, h3⟩
example : ∃ recs, (exCur.uDeleteEdge (2, 4)).2 = .ok recs ∧ recs.length = 2 ∧
    Chain E exCur recs (exCur.uDeleteEdge (2, 4)).1 :=
  ⟨_, rfl, rfl, (C01_user_deleteEdge exCur (2, 4) _ exCur_inv3.valid exCur_inv3.good.wf exCur_inv3.edge rfl).1⟩
#print axioms C01_user_deleteEdge

/-- **UserAddEdge** (forced or not): the same statement. With `force = true` and a target that has a
    parent the chain starts with the records of the nested delete-edge. -/
theorem C01_user_addEdge (s : St) (e : Edge) (force : Bool) (recs : List PrimRec)
    (hv : s.Valid) (hw : WF s) (hi : EdgeInv s) (hok : (s.uAddEdge e force).2 = .ok recs) :
    Chain E s recs (s.uAddEdge e force).1 ∧
    ((s.uAddEdge e force).1.Valid ∧ Good (s.uAddEdge e force).1 ∧ EdgeInv (s.uAddEdge e force).1) ∧
    ∀ t, E t (s.uAddEdge e force).1 →
      ∃ s₁ recs', t.invGroup recs = (s₁, .ok recs') ∧ ObsEq s₁ s ∧ recs'.length = recs.length ∧
        ∃ s₂ recs'', s₁.invGroup recs' = (s₂, .ok recs'') ∧ ObsEq s₂ (s.uAddEdge e force).1 :=
  user_c01 (uAddEdge_run (Inv3.mk' hv hw hi) hok) hok
-- unforced onto a childless source (3 → 5: relabel below 5, AddEdge with a computed IoU)
example : ∃ recs, (exCur.uAddEdge (3, 5) false).2 = .ok recs ∧ recs.length = 2 ∧
    Chain E exCur recs (exCur.uAddEdge (3, 5) false).1 ∧
    ∃ s₁ recs', (exCur.uAddEdge (3, 5) false).1.invGroup recs = (s₁, .ok recs') ∧ ObsEq s₁ exCur := by
  obtain ⟨hc, _, hrd⟩ := C01_user_addEdge exCur (3, 5) false _ exCur_inv3.valid exCur_inv3.good.wf
    exCur_inv3.edge rfl
  obtain ⟨s₁, recs', h1, h2, _⟩ := hrd _ (E_isEquiv.refl _)
  exact ⟨_, rfl, rfl, hc, s₁, recs', h1, h2⟩
-- unforced onto a source with one child (2 → 5 creates a division: the child's chain gets a fresh
-- id, relabel below 5, AddEdge: 3 records)
example : ∃ recs, (exCur.uAddEdge (2, 5) false).2 = .ok recs ∧ recs.length = 3 ∧
    Chain E exCur recs (exCur.uAddEdge (2, 5) false).1 :=
  ⟨_, rfl, rfl, (C01_user_addEdge exCur (2, 5) false _ exCur_inv3.valid exCur_inv3.good.wf exCur_inv3.edge rfl).1⟩
-- forced: 4 has the parent 2; nested delete-edge (2 records), then relabel below 4 and AddEdge
example : ∃ recs, (exCur.uAddEdge (3, 4) true).2 = .ok recs ∧ recs.length = 4 ∧
    Chain E exCur recs (exCur.uAddEdge (3, 4) true).1 ∧
    ∃ s₁ recs', (exCur.uAddEdge (3, 4) true).1.invGroup recs = (s₁, .ok recs') ∧ ObsEq s₁ exCur ∧
      ∃ s₂ recs'', s₁.invGroup recs' = (s₂, .ok recs'') ∧ ObsEq s₂ (exCur.uAddEdge (3, 4) true).1 := by
  obtain ⟨hc, _, hrd⟩ := C01_user_addEdge exCur (3, 4) true _ exCur_inv3.valid exCur_inv3.good.wf
    exCur_inv3.edge rfl
  obtain ⟨s₁, recs', h1, h2, _, h3⟩ := hrd _ (E_isEquiv.refl _)
  exact ⟨_, rfl, rfl, hc, s₁, recs', h1, h2, h3⟩
#print axioms C01_user_addEdge

/-- **UserSwapPredecessors**: up to two nested delete-edge and two nested unforced add-edge; the
    same statement. -/
theorem C01_user_swap (s : St) (n1 n2 : Node) (recs : List PrimRec)
    (hv : s.Valid) (hw : WF s) (hi : EdgeInv s) (hok : (s.uSwap n1 n2).2 = .ok recs) :
    Chain E s recs (s.uSwap n1 n2).1 ∧
    ((s.uSwap n1 n2).1.Valid ∧ Good (s.uSwap n1 n2).1 ∧ EdgeInv (s.uSwap n1 n2).1) ∧
    ∀ t, E t (s.uSwap n1 n2).1 →
      ∃ s₁ recs', t.invGroup recs = (s₁, .ok recs') ∧ ObsEq s₁ s ∧ recs'.length = recs.length ∧
        ∃ s₂ recs'', s₁.invGroup recs' = (s₂, .ok recs'') ∧ ObsEq s₂ (s.uSwap n1 n2).1 :=
  user_c01 (uSwap_run (Inv3.mk' hv hw hi) hok) hok
-- both nodes have a parent (3 ← 2, 6 ← 5): all four nested actions run (3 + 2 + 3 + 2 records)
example : ∃ recs, (R2B.exState.uSwap 3 6).2 = .ok recs ∧ recs.length = 10 ∧
    Chain E R2B.exState recs (R2B.exState.uSwap 3 6).1 ∧
    (2, 6) ∈ (R2B.exState.uSwap 3 6).1.edgeList ∧ (5, 3) ∈ (R2B.exState.uSwap 3 6).1.edgeList ∧
    ∃ s₁ recs', (R2B.exState.uSwap 3 6).1.invGroup recs = (s₁, .ok recs') ∧ ObsEq s₁ R2B.exState := by
  obtain ⟨hc, _, hrd⟩ := C01_user_swap R2B.exState 3 6 _ exState_inv3.valid exState_inv3.good.wf
    exState_inv3.edge rfl
  obtain ⟨s₁, recs', h1, h2, _⟩ := hrd _ (E_isEquiv.refl _)
  exact ⟨_, rfl, rfl, hc, by decide, by decide, s₁, recs', h1, h2⟩
-- with an array: only node 4 has a parent
example : ∃ recs, (exCur.uSwap 4 5).2 = .ok recs ∧ recs.length = 4 ∧
    Chain E exCur recs (exCur.uSwap 4 5).1 :=
  ⟨_, rfl, rfl, (C01_user_swap exCur 4 5 _ exCur_inv3.valid exCur_inv3.good.wf exCur_inv3.edge rfl).1⟩
#print axioms C01_user_swap

/-- **UserUpdateNodeAttrs**: one `UpdateNodeAttrs` primitive; the same statement. (A key the node
    did not carry comes back as `None` after the inverse — `ObsEq`, not equality.) -/
theorem C01_user_updateAttrs (s : St) (n : Node) (attrs : List (Key × Val)) (recs : List PrimRec)
    (hv : s.Valid) (hw : WF s) (hi : EdgeInv s) (hok : (s.uUpdateAttrs n attrs).2 = .ok recs) :
    Chain E s recs (s.uUpdateAttrs n attrs).1 ∧
    ((s.uUpdateAttrs n attrs).1.Valid ∧ Good (s.uUpdateAttrs n attrs).1 ∧
      EdgeInv (s.uUpdateAttrs n attrs).1) ∧
    ∀ t, E t (s.uUpdateAttrs n attrs).1 →
      ∃ s₁ recs', t.invGroup recs = (s₁, .ok recs') ∧ ObsEq s₁ s ∧ recs'.length = recs.length ∧
        ∃ s₂ recs'', s₁.invGroup recs' = (s₂, .ok recs'') ∧ ObsEq s₂ (s.uUpdateAttrs n attrs).1 :=
  user_c01 (uUpdateAttrs_run (Inv3.mk' hv hw hi) hok) hok
-- a fresh key 8 and the present key 7 on node 1; after the inverse the node carries `(8, None)`
example : ∃ recs, (exCur.uUpdateAttrs 1 [(8, .tok 1), (7, .tok 5)]).2 = .ok recs ∧ recs.length = 1 ∧
    ∃ s₁ recs', (exCur.uUpdateAttrs 1 [(8, .tok 1), (7, .tok 5)]).1.invGroup recs = (s₁, .ok recs') ∧
      ObsEq s₁ exCur ∧ s₁.nodes ≠ exCur.nodes := by
  obtain ⟨_, _, hrd⟩ := C01_user_updateAttrs exCur 1 [(8, .tok 1), (7, .tok 5)] _ exCur_inv3.valid
    exCur_inv3.good.wf exCur_inv3.edge rfl
  obtain ⟨s₁, recs', h1, h2, _⟩ := hrd _ (E_isEquiv.refl _)
  refine ⟨_, rfl, rfl, s₁, recs', h1, h2, ?_⟩
  have : s₁ = _ := (Prod.mk.inj (h1.symm.trans rfl)).1
  rw [this]; decide
#print axioms C01_user_updateAttrs

/-- `uDeleteEdge` of an existing edge of a forward-in-time binary forest is always accepted (the
    hypothesis kept explicit in `C03_refuse_triple_forced`). -/
theorem C11_deleteEdge_accepts (s : St) (e : Edge) (hf : s.Forest) (he : e ∈ s.edgeList) :
    ∃ recs, (s.uDeleteEdge e).2 = .ok recs :=
  uDeleteEdge_accepts hf he
example : R2B.exState.Forest ∧ (2, 3) ∈ R2B.exState.edgeList ∧
    ∃ recs, (R2B.exState.uDeleteEdge (2, 3)).2 = .ok recs ∧ recs.length = 3 :=
  ⟨R2B.exState_valid.forest, by decide, _, rfl, rfl⟩
#print axioms C11_deleteEdge_accepts

/-- **C11, the rollback path of the forced add-edge.** Source `u` with two children, target `v` later
    in time with another parent `p ≠ u`, `force = true`: the forced call first applies the nested
    delete-edge `(p, v)`, then finds the triple division, rolls the applied group back and raises
    `InvalidActionError` (not forceable).  The returned state is in the `E`-class of the input:
    observationally equal to it, and again `Valid ∧ Good ∧ EdgeInv`. -/
theorem C11_addEdge_forced_triple (s : St) (u v p : Node)
    (hv : s.Valid) (hw : WF s) (hi : EdgeInv s)
    (hu : u ∈ s.ids) (hp : (p, v) ∈ s.edgeList) (hpu : p ≠ u)
    (ht : (s.timeOf u).getD 0 < (s.timeOf v).getD 0) (hout : s.outdeg u = 2) :
    (s.uAddEdge (u, v) true).2 = .error .invalid ∧
    E (s.uAddEdge (u, v) true).1 s ∧ ObsEq (s.uAddEdge (u, v) true).1 s ∧
    ((s.uAddEdge (u, v) true).1.Valid ∧ Good (s.uAddEdge (u, v) true).1 ∧
      EdgeInv (s.uAddEdge (u, v) true).1) := by
  obtain ⟨h1, h2⟩ := triple_forced (Inv3.mk' hv hw hi) hu hp hpu ht hout
  have h3 := Inv3.of_E h2 (Inv3.mk' hv hw hi)
  exact ⟨h1, h2, h2.1, h3.valid, h3.good, h3.edge⟩
-- 2 → {3, 4} divides; 6 has the parent 5. The refused call returns a state that is `ObsEq` to the
-- input but not equal: the nested delete-edge consumed a lineage id (`maxLin` 3 → 4)
example : (R2B.exState.uAddEdge (2, 6) true).2 = .error .invalid ∧
    ObsEq (R2B.exState.uAddEdge (2, 6) true).1 R2B.exState ∧
    (R2B.exState.uAddEdge (2, 6) true).1.maxLin = 4 ∧ R2B.exState.maxLin = 3 := by
  obtain ⟨h1, _, h2, _⟩ := C11_addEdge_forced_triple R2B.exState 2 6 5 exState_inv3.valid
    exState_inv3.good.wf exState_inv3.edge (by decide) (by decide) (by decide) (by decide) (by decide)
  exact ⟨h1, h2, by decide, by decide⟩
-- with an array and IoU values: 1 → {2, 3} divides; 4 has the parent 2 (edge (2,4) carries an IoU)
example : (exCur.uAddEdge (1, 4) true).2 = .error .invalid ∧ ObsEq (exCur.uAddEdge (1, 4) true).1 exCur :=
  have h := C11_addEdge_forced_triple exCur 1 4 2 exCur_inv3.valid exCur_inv3.good.wf exCur_inv3.edge
    (by decide) (by decide) (by decide) (by decide) (by decide)
  ⟨h.1, h.2.2.1⟩
#print axioms C11_addEdge_forced_triple

/-- **C11 for UserAddEdge, complete.** Whatever the reason of the refusal (unknown end point, backward
    or same-frame edge, merge without `force`, triple division with or without a forced removal
    before it), the state returned with the error is in the `E`-class of the input — observationally
    equal to it and again `Valid ∧ Good ∧ EdgeInv`. -/
theorem C11_addEdge_refused (s : St) (e : Edge) (force : Bool) (err : Err)
    (hv : s.Valid) (hw : WF s) (hi : EdgeInv s) (herr : (s.uAddEdge e force).2 = .error err) :
    E (s.uAddEdge e force).1 s ∧ ObsEq (s.uAddEdge e force).1 s ∧
    ((s.uAddEdge e force).1.Valid ∧ Good (s.uAddEdge e force).1 ∧ EdgeInv (s.uAddEdge e force).1) := by
  have h2 := uAddEdge_refused (Inv3.mk' hv hw hi) herr
  have h3 := Inv3.of_E h2 (Inv3.mk' hv hw hi)
  exact ⟨h2, h2.1, h3.valid, h3.good, h3.edge⟩
-- merge without force (target 4 has the parent 2): `forceable`, nothing applied; forced triple: `invalid`
example : (exCur.uAddEdge (3, 4) false).2 = .error .forceable ∧ ObsEq (exCur.uAddEdge (3, 4) false).1 exCur ∧
    (exCur.uAddEdge (1, 4) true).2 = .error .invalid ∧ ObsEq (exCur.uAddEdge (1, 4) true).1 exCur :=
  ⟨rfl, (C11_addEdge_refused exCur (3, 4) false _ exCur_inv3.valid exCur_inv3.good.wf exCur_inv3.edge rfl).2.1,
   rfl, (C11_addEdge_refused exCur (1, 4) true _ exCur_inv3.valid exCur_inv3.good.wf exCur_inv3.edge rfl).2.1⟩
#print axioms C11_addEdge_refused

/-- a refused `uDeleteEdge` on a forest: the edge does not exist, the call returns the input state
    unchanged with `invalid` (an existing edge is never refused: `C11_deleteEdge_accepts`). -/
theorem C11_deleteEdge_refused (s : St) (e : Edge) (err : Err) (hf : s.Forest)
    (herr : (s.uDeleteEdge e).2 = .error err) :
    s.uDeleteEdge e = (s, .error .invalid) ∧ e ∉ s.edgeList :=
  uDeleteEdge_refused hf herr
example : R2B.exState.uDeleteEdge (1, 3) = (R2B.exState, .error .invalid) :=
  (C11_deleteEdge_refused R2B.exState (1, 3) _ R2B.exState_valid.forest rfl).1
#print axioms C11_deleteEdge_refused
