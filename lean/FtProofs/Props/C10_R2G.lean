/-
  C10 (round 2, package R2G) — the two statements left open in `Props/C10.lean`.

  * `C10_enable_current` (FULL): after an accepted `enable ks true`, whatever was stored before,
    every key of `ks` that the regionprops annotator can manage is active and its stored value on
    EVERY node is the mask of the current array; if the IoU key is in `ks` the IoU feature is
    active and every edge carries `iouOf` of the final state.  Hypotheses: the consistent state of
    C07 (`SegOK`, unique non-zero ids, whole frames).
    `C10_enable_current_pixels` is the same statement under the weaker hypothesis that a label
    which is a node id occurs only in that node's own frame (orphan labels and nodes without
    pixels allowed): then every node THAT HAS PIXELS gets the mask.
  * `C10_disabled_frozen_user_*` (FULL, one theorem per user action) and the summary over
    `St.step`, `C10_disabled_frozen_user`: the column `col k` (node id ↦ stored value of `k`, in
    insertion order) of a key that is not active
      - is unchanged by delete-edge (any outcome), by accepted add-edge / swap, and by
        update-attributes for every annotator key (any outcome);
      - loses exactly the entry of `n` through an accepted delete-node of `n`;
      - gains exactly the entry `(a.node, value given by the caller)` through an accepted add-node;
      - through an accepted paint loses the entries of the deleted nodes (each the previous label of
        a group of the stroke) and gains at most the entry `(v, absent)` of a newly created node.
    No surviving node's value is ever changed.
  * `C10_disabled_frozen_recreate`: a node deleted and re-created by the inverse of the recorded
    DeleteNode (undo) comes back WITHOUT a key that was not registered when it was deleted — the
    column gets the entry `(n, absent)`, whatever the node stored before; it is absent, not changed.
-/
import FtProofs.R2GLemmas
import FtProofs.Props.C10
open Ft Ft.St Ft.R2G List

namespace Ft.R2G

/-- all annotators switched off, stale / missing values everywhere -/
def exOff : St := { exSeg with rpActive := [], regNode := [7], iouActive := false, regEdge := [] }

def exOffg : Seg := ⟨4, [1,0,0,0, 2,2,3,0, 5,0,0,0, 4,4,0,0]⟩

theorem exOff_segOK : SegOK exOff := by
  intro g hg
  have : g = exOffg := by cases hg; rfl
  subst this
  decide

/-- `exOff` plus a node 9 without pixels and an orphan label 8 -/
def exOffOrphan : St :=
  { exOff with nodes := exOff.nodes ++ [⟨9, 2, 7, some 3, []⟩],
               seg := some ⟨4, [1,0,0,8, 2,2,3,0, 5,0,0,0, 4,4,0,0]⟩ }

/-- `exOff` where node 2 carries a stale value of the disabled, unregistered key 10 -/
def exOffStale : St :=
  { exOff with nodes := exOff.nodes.map (fun r =>
      if r.id == 2 then { r with other := r.other ++ [(10, .mask [4])] } else r) }

end Ft.R2G

/-- FULL. `enable ks true` makes every enabled key current, whatever was stored before. -/
theorem C10_enable_current (s s' : St) (ks : List Key) (g : Seg) (hg : s.seg = some g) (hwf : g.WF)
    (hnd : s.ids.Nodup) (h0 : ∀ r ∈ s.nodes, r.id ≠ 0) (hseg : SegOK s)
    (h : s.enable ks true = some s') :
    s'.seg = some g ∧
    (∀ k ∈ ks, k ∈ s.rpAvail → k ∈ s'.rpActive ∧
      ∀ r ∈ s'.nodes, alook k r.other = some (Val.mask (g.pixelsOf r.time r.id))) ∧
    (∀ k, s.iouKey = some k → k ∈ ks → s'.iouActive = true ∧
      ∀ er ∈ s'.edges, alook k er.attrs = some (s'.iouOf er.e)) := by
  have he := enable_true_eq h
  subst he
  obtain ⟨e1, e2, e3, e4⟩ := enableRecompute_current (enableReg s ks) ks g hg hwf h0
    (labelsInFrame_of_segOK (s := enableReg s ks) hg hnd hseg)
  have hseg' : (enableRecompute (enableReg s ks) ks).seg = some g := e1.trans hg
  refine ⟨hseg', ?_, ?_⟩
  · intro k hk ha
    have hact := mem_rpActive_enableReg hk ha
    refine ⟨?_, fun r hr => ?_⟩
    · have := reg_enableRecompute (enableReg s ks) ks
      simp only [reg, Prod.mk.injEq] at this
      rw [this.2.2.1]; exact hact
    · have hsk : (r.id, r.time) ∈ s.skel := by
        have : (r.id, r.time) ∈ (enableRecompute (enableReg s ks) ks).skel := mem_skel_of_mem hr
        rw [e2] at this; exact this
      obtain ⟨r0, hr0, he⟩ := List.mem_map.mp hsk
      simp only [Prod.mk.injEq] at he
      have hpx : g.pixelsOf r.time r.id ≠ [] := by
        rw [← he.1, ← he.2]; exact (hseg g hg).1 r0 hr0
      exact e3 k hk hact g hseg' r hr hpx
  · intro k hkey hk
    have hon : (enableReg s ks).iouActive = true := by
      simp [enableReg, hkey, hk]
    obtain ⟨i1, i2, i3⟩ := e4 k hkey hk hon
    exact ⟨i2, fun er her => i3 g hseg' i2 k i1 er her⟩

/-- everything off and nothing stored; enabling area (10) and IoU (11) computes all of them -/
example : ∃ s', exOff.enable [10, 11] true = some s' ∧ exOffg.WF ∧ exOff.ids.Nodup ∧
    (∀ r ∈ exOff.nodes, r.id ≠ 0) ∧ SegOK exOff ∧
    s'.nodes.map (fun r => alook 10 r.other) =
      [some (.mask [0]), some (.mask [4, 5]), some (.mask [6]), some (.mask [12, 13]), some (.mask [8])] ∧
    s'.edges.map (fun r => alook 11 r.attrs) = [some (.iou 1 2), some .zero, some (.iou 2 2)] :=
  ⟨_, enable_eq exOff [10, 11] true (by decide), by decide, by decide, by decide, exOff_segOK,
    by decide, by decide⟩
#print axioms C10_enable_current

/-- The regionprops clause under the weaker hypothesis "a label that is a node id occurs only in
    that node's own frame" (orphan labels and nodes without pixels are allowed): every node that
    has pixels gets the mask of the current array. -/
theorem C10_enable_current_pixels (s s' : St) (ks : List Key) (g : Seg) (hg : s.seg = some g)
    (hwf : g.WF) (h0 : ∀ r ∈ s.nodes, r.id ≠ 0) (hfr : LabelsInFrame s g)
    (h : s.enable ks true = some s') :
    s'.seg = some g ∧ s'.skel = s.skel ∧
    ∀ k ∈ ks, k ∈ s.rpAvail → ∀ r ∈ s'.nodes, g.pixelsOf r.time r.id ≠ [] →
      alook k r.other = some (Val.mask (g.pixelsOf r.time r.id)) := by
  have he := enable_true_eq h
  subst he
  obtain ⟨e1, e2, e3, -⟩ := enableRecompute_current (enableReg s ks) ks g hg hwf h0 hfr
  exact ⟨e1.trans hg, e2, fun k hk ha r hr hpx =>
    e3 k hk (mem_rpActive_enableReg hk ha) g (e1.trans hg) r hr hpx⟩

/-- node 9 has no pixels, label 8 is an orphan: the nodes with pixels still get their masks -/
example : ∃ s', exOffOrphan.enable [10] true = some s' ∧
    s'.nodes.map (fun r => alook 10 r.other) =
      [some (.mask [0]), some (.mask [4, 5]), some (.mask [6]), some (.mask [12, 13]), some (.mask [8]), none] :=
  ⟨_, enable_eq _ [10] true (by decide), by decide⟩
#print axioms C10_enable_current_pixels

/-! ### a disabled key through the seven user actions -/

/-- delete-edge never touches a node attribute (any key, any outcome) -/
theorem C10_disabled_frozen_user_deleteEdge (s : St) (e : Edge) (k : Key) :
    col k (s.uDeleteEdge e).1 = col k s := (Fc.uDeleteEdge s e).col k
example : col 10 (exSeg.uDeleteEdge (1, 2)).1 = col 10 exSeg ∧ (exSeg.uDeleteEdge (1, 2)).2.toOption.isSome :=
  ⟨C10_disabled_frozen_user_deleteEdge _ _ _, by decide⟩
#print axioms C10_disabled_frozen_user_deleteEdge

/-- accepted add-edge (forced or not): no node attribute changes -/
theorem C10_disabled_frozen_user_addEdge (s : St) (e : Edge) (force : Bool) (k : Key)
    (recs : List PrimRec) (h : (s.uAddEdge e force).2 = .ok recs) :
    col k (s.uAddEdge e force).1 = col k s := (uAddEdge_okc h).col k
example : ∃ recs, (exOff.uAddEdge (3, 5) false).2 = .ok recs ∧
    col 10 (exOff.uAddEdge (3, 5) false).1 = col 10 exOff :=
  ⟨_, rfl, C10_disabled_frozen_user_addEdge _ _ _ _ _ rfl⟩
#print axioms C10_disabled_frozen_user_addEdge

/-- accepted swap of predecessors: no node attribute changes -/
theorem C10_disabled_frozen_user_swap (s : St) (n1 n2 : Node) (k : Key)
    (recs : List PrimRec) (h : (s.uSwap n1 n2).2 = .ok recs) :
    col k (s.uSwap n1 n2).1 = col k s := (uSwap_okc h).col k
example : ∃ recs, (exOff.uSwap 4 5).2 = .ok recs ∧ col 10 (exOff.uSwap 4 5).1 = col 10 exOff :=
  ⟨_, rfl, C10_disabled_frozen_user_swap _ _ _ _ _ rfl⟩
#print axioms C10_disabled_frozen_user_swap

/-- update-attributes can never write an annotator key, active or not (any outcome) -/
theorem C10_disabled_frozen_user_updAttrs (s : St) (n : Node) (attrs : List (Key × Val)) (k : Key)
    (hk : k ∈ s.annotKeys) : col k (s.uUpdateAttrs n attrs).1 = col k s := by
  unfold St.uUpdateAttrs St.thenPrim
  simp only
  split
  · rename_i s' r hf
    exact C10_disabled_frozen_updAttrs s s' k n attrs r hk hf
  · rfl
example : col 10 (exOff.uUpdateAttrs 1 [(8, .tok 1)]).1 = col 10 exOff ∧
    (exOff.uUpdateAttrs 1 [(8, .tok 1)]).2.toOption.isSome :=
  ⟨C10_disabled_frozen_user_updAttrs _ _ _ _ (by decide), by decide⟩
#print axioms C10_disabled_frozen_user_updAttrs

/-- accepted delete-node of `n`: the column loses exactly the entry of `n` -/
theorem C10_disabled_frozen_user_deleteNode (s : St) (n : Node) (px : Option (List Pix)) (k : Key)
    (recs : List PrimRec) (h : (s.uDeleteNode n px).2 = .ok recs) :
    col k (s.uDeleteNode n px).1 = (col k s).filter (fun p => p.1 != n) := (col_uDeleteNode h).1
example : ∃ recs, (exOff.uDeleteNode 2 none).2 = .ok recs ∧
    (col 7 (exOff.uDeleteNode 2 none).1).map (·.1) = [1, 3, 4, 5] :=
  ⟨_, rfl, by decide⟩
#print axioms C10_disabled_frozen_user_deleteNode

/-- accepted add-node: the column gains exactly the entry of the new node with the value the
    caller supplied (absent if none); no annotator writes a disabled key on it -/
theorem C10_disabled_frozen_user_addNode (s : St) (a : AddNodeArgs) (k : Key) (hk : k ∉ s.rpActive)
    (recs : List PrimRec) (h : (s.uAddNode a).2 = .ok recs) :
    col k (s.uAddNode a).1 = col k s ++ [(a.node, alook k a.other)] ∧ a.node ∉ s.ids := by
  obtain ⟨c, -, hn⟩ := col_uAddNode hk h
  refine ⟨c, fun hm => ?_⟩
  rw [← hasNode_iff_mem_ids_sg, hn] at hm; cases hm
example : ∃ recs, (exOff.uAddNode ⟨8, some 2, some 9, none, [], some [9, 10], false⟩).2 = .ok recs ∧
    col 10 (exOff.uAddNode ⟨8, some 2, some 9, none, [], some [9, 10], false⟩).1
      = col 10 exOff ++ [(8, none)] :=
  ⟨_, rfl, (C10_disabled_frozen_user_addNode _ _ _ (by decide) _ rfl).1⟩
#print axioms C10_disabled_frozen_user_addNode

/-- accepted paint (the caller has painted, `uUpdateSeg` runs): the column loses the entries of
    the deleted nodes — each the previous label of a group of the stroke — and gains at most the
    entry `(v, absent)` of a node that did not exist -/
theorem C10_disabled_frozen_user_updateSeg (s : St) (v : Nat) (groups : List (List Pix × Nat))
    (tid : Nat) (force : Bool) (k : Key) (hk : k ∉ s.rpActive) (recs : List PrimRec)
    (h : (s.uUpdateSeg v groups tid force).1.2 = .ok recs) :
    ∃ dels, (∀ d ∈ dels, ∃ grp ∈ groups, grp.2 = d) ∧
      (col k (s.uUpdateSeg v groups tid force).1.1 = colDrop k s dels ∨
       (v ∉ (colDrop k s dels).map (·.1) ∧
        col k (s.uUpdateSeg v groups tid force).1.1 = colDrop k s dels ++ [(v, none)])) :=
  col_uUpdateSeg hk h
/-- overwrite all of node 3 and the free pixel 7 of frame 1 with the new label 9 -/
example : ∃ s', exOff.step (.paint 9 [([6], 3), ([7], 0)] 6 false) = (s', .ok) ∧
    (col 10 s').map (·.1) = [1, 2, 4, 5, 9] ∧ col 10 s' = colDrop 10 exOff [3] ++ [(9, none)] :=
  ⟨_, rfl, by decide, by decide⟩
#print axioms C10_disabled_frozen_user_updateSeg

/-- Summary over `St.step`: for every accepted operation other than `enable` (the seven edits,
    `disable`, `nop`; undo / redo / queries do not answer `.ok`) the column of a key that is an
    annotator key and not active keeps every surviving entry unchanged and in place; entries are
    only dropped (deleted nodes) and at most one entry of a node that was not there is appended —
    with the caller's value for add-node, absent for the node created by a paint. -/
theorem C10_disabled_frozen_user (s s' : St) (op : Op) (k : Key) (hk : k ∉ s.rpActive)
    (hk' : k ∈ s.annotKeys) (hop : ∀ ks rc, op ≠ .enable ks rc) (h : s.step op = (s', .ok)) :
    ∃ dels extra, col k s' = colDrop k s dels ++ extra ∧ extra.length ≤ 1 ∧
      ∀ p ∈ extra, p.1 ∉ (colDrop k s dels).map (·.1) ∧
        (p.2 = none ∨ ∃ a, op = .addNode a ∧ p = (a.node, alook k a.other)) := by
  have same : col k s' = col k s → ∃ dels extra, col k s' = colDrop k s dels ++ extra ∧
      extra.length ≤ 1 ∧ ∀ p ∈ extra, p.1 ∉ (colDrop k s dels).map (·.1) ∧
        (p.2 = none ∨ ∃ a, op = .addNode a ∧ p = (a.node, alook k a.other)) := by
    intro hc
    exact ⟨[], [], by rw [hc, colDrop_nil, List.append_nil], by simp, fun p hp => by cases hp⟩
  cases op with
  | addEdge e f =>
    obtain ⟨recs, hr, hn, -, -⟩ := commit_ok h
    exact same ((col_congr hn).trans ((uAddEdge_okc hr).col k))
  | delEdge e =>
    obtain ⟨recs, hr, hn, -, -⟩ := commit_ok h
    exact same ((col_congr hn).trans ((Fc.uDeleteEdge s e).col k))
  | swap a b =>
    obtain ⟨recs, hr, hn, -, -⟩ := commit_ok h
    exact same ((col_congr hn).trans ((uSwap_okc hr).col k))
  | updAttrs n attrs =>
    obtain ⟨recs, hr, hn, -, -⟩ := commit_ok h
    exact same ((col_congr hn).trans (C10_disabled_frozen_user_updAttrs s n attrs k hk'))
  | delNode n =>
    obtain ⟨recs, hr, hn, -, -⟩ := commit_ok h
    refine ⟨[n], [], ?_, by simp, fun p hp => by cases hp⟩
    rw [col_congr hn, (col_uDeleteNode hr).1, List.append_nil, ← colDrop_nil k s, colDrop_filter]
    rfl
  | addNode a =>
    obtain ⟨recs, hr, hn, -, -⟩ := commit_ok h
    obtain ⟨c, -, hnew⟩ := col_uAddNode hk hr
    refine ⟨[], [(a.node, alook k a.other)], by rw [col_congr hn, c, colDrop_nil], by simp, ?_⟩
    intro p hp
    rw [List.mem_singleton.mp hp]
    refine ⟨?_, Or.inr ⟨a, rfl, rfl⟩⟩
    rw [colDrop_nil]
    intro hm
    have : a.node ∈ s.ids := by simpa [col, ids] using hm
    rw [← hasNode_iff_mem_ids_sg, hnew] at this; cases this
  | paint v groups tid f =>
    cases hg : s.seg with
    | none => simp [St.step, hg] at h
    | some g =>
      obtain ⟨recs, hr, -, hn, -⟩ := paint_ok_sg hg h
      obtain ⟨dels, -, hc⟩ := col_uUpdateSeg (k := k)
        (s := s.withSeg (g.setPixels (groups.flatMap (·.1)) v)) hk hr
      rcases hc with hc | ⟨hv, hc⟩
      · exact ⟨dels, [], by rw [col_congr hn, hc, List.append_nil]; rfl, by simp,
          fun p hp => by cases hp⟩
      · refine ⟨dels, [(v, none)], by rw [col_congr hn, hc]; rfl, by simp, ?_⟩
        intro p hp
        rw [List.mem_singleton.mp hp]
        exact ⟨hv, Or.inl rfl⟩
  | undo =>
    have := congrArg Prod.snd h
    rw [step_undo_eq] at this
    exact absurd this (histCore_ne_ok s _ _)
  | redo =>
    have := congrArg Prod.snd h
    rw [step_redo_eq] at this
    exact absurd this (histCore_ne_ok s _ _)
  | enable ks rc => exact absurd rfl (hop ks rc)
  | disable ks =>
    simp only [St.step] at h
    split at h
    · rename_i s1 hd
      simp only [Prod.mk.injEq, and_true] at h
      subst h
      unfold St.disable at hd
      split at hd
      · cases hd
      · simp only [Option.some.injEq] at hd
        subst hd
        exact same rfl
    · cases h
  | qNeighbors tid time => simp [St.step] at h
  | qHasTrack tid time => simp [St.step] at h
  | qNewIds n => simp [St.step] at h
  | nop =>
    simp only [St.step, Prod.mk.injEq, and_true] at h
    subst h
    exact same rfl
example : ∃ s', exOff.step (.delNode 2) = (s', .ok) ∧ (col 10 s').map (·.1) = [1, 3, 4, 5] ∧
    10 ∉ exOff.rpActive ∧ 10 ∈ exOff.annotKeys :=
  ⟨_, rfl, by decide, by decide, by decide⟩
#print axioms C10_disabled_frozen_user

/-- A node deleted and re-created (undo of the DeleteNode) comes back without the attribute that
    was not registered when it was deleted: the column of a key that is neither registered nor
    active gets the entry `(n, absent)` — absent, not changed — whatever the node stored before.
    `s1'` is any later state in which the node is still missing. -/
theorem C10_disabled_frozen_recreate (s s1 s1' s2 : St) (n : Node) (px : Option (List Pix))
    (rec rec' : PrimRec) (k : Key) (hreg : k ∉ s.regNode) (hk : k ∉ s1'.rpActive)
    (hgone : s1'.hasNode n = false) (h1 : s.pDelNode n px = .ok (s1, rec))
    (h2 : s1'.invPrim rec = .ok (s2, rec')) :
    col k s1 = (col k s).filter (fun p => p.1 != n) ∧ col k s2 = col k s1' ++ [(n, none)] := by
  refine ⟨(col_pDelNode h1).1, ?_⟩
  obtain ⟨r, hr, hrec, -⟩ := pDelNode_ok_sg h1
  have hid : r.id = n := findNode_id_sg hr
  subst hrec
  simp only [St.invPrim] at h2
  have hsid : (s.savedAttrs r).id = n := hid
  obtain ⟨c, -⟩ := col_pAddNode_new (k := k) hk (by rw [hsid]; exact hgone) h2
  rw [c, hsid, alook_savedAttrs hreg]
/-- node 2 carries a stale value of the disabled, unregistered key 10; delete + undo drops it -/
example : ∃ s1 r s2 r', exOffStale.pDelNode 2 none = .ok (s1, r) ∧ col 10 exOffStale ≠ col 10 exOff ∧ s1.invPrim r = .ok (s2, r') ∧ col 10 s2 = col 10 s1 ++ [(2, none)] ∧
    col 7 s2 = col 7 s1 ++ [(2, some (.tok 1))] :=
  ⟨_, _, _, _, rfl, by decide, rfl, by decide, by decide⟩
#print axioms C10_disabled_frozen_recreate
