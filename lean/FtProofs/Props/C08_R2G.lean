/-
  C08 (round 2, package R2G) — the node clause of `MeasOK` over a WHOLE accepted paint.

  Inside `UserUpdateSegmentation` the clause is broken between the sub-actions (the caller has
  already written the new value `v` over pixels that a later shrink / delete sub-action zeroes), so
  it is not a step invariant of the sub-actions.  The intermediate invariant is explicit
  (`Ft.R2G.PInv P v gs st`, `P` = painted array, `gs` = groups still to be processed):
    * ids unique and non-zero;
    * the running array is `P` with some cells that read `v` in `P` zeroed (`Ft.R2G.Rel`);
    * every node whose id is neither `v` nor the label of a group in `gs` is current w.r.t. the
      running array.
  `C08_meas_paint_invariant` states that it holds at the start, is kept by every accepted round of
  the group loop (for the shorter list), and that the final grow step turns `PInv P v []` into the
  full node clause.  `C08_meas_step_paint` (FULL) is the composition at session level.

  Of the stroke preconditions only `PaintPre.prev` ("every stroke pixel carried the label of its
  group") is needed for this clause; `SegOK` is not needed at all.  `C08_meas_step_paint_measOK`
  restates the result with the hypotheses `SegOK ∧ MeasOK ∧ PaintPre` of the task and the literal
  node clause of `MeasOK`, together with `SegOK s'` (so that the pair is inductive over paints).

  Not covered: the edge clause (IoU) of `MeasOK` over a whole paint.
-/
import FtProofs.R2GLemmas
import FtProofs.Props.C08
import FtProofs.Props.C07_R2G
open Ft Ft.St Ft.R2G List

/-- FULL. After a whole accepted paint / erase every stored regionprops value of every node equals
    the snapshot of that node's mask in the final array. -/
theorem C08_meas_step_paint (s s' : St) (v : Nat) (groups : List (List Pix × Nat)) (tid : Nat)
    (force : Bool) (g : Seg) (hg : s.seg = some g) (hnd : s.ids.Nodup)
    (h0 : ∀ r ∈ s.nodes, r.id ≠ 0) (hm : RpOK s)
    (hprev : ∀ grp ∈ groups, ∀ p ∈ grp.1, p < g.data.length → g.data.getD p 0 = grp.2)
    (h : s.step (.paint v groups tid force) = (s', .ok)) : RpOK s' := by
  obtain ⟨recs, hok, e1, e2, e3⟩ := paint_ok_rp hg h
  exact rpOK_congr e1 e2 e3 (rpOK_uUpdateSeg_painted hg hnd h0 hm hprev hok)

/-- paint the new label 7 over one pixel of node 1 and one free pixel: node 1 is recomputed
    (shrink), node 7 is created with its mask, node 2 is untouched -/
example : ∃ s', exC08.step (.paint 7 [([1], 1), ([2], 0)] 3 false) = (s', .ok) ∧
    RpOK exC08 ∧ exC08.ids.Nodup ∧
    (∀ grp ∈ [([1], 1), ([2], 0)], ∀ p ∈ grp.1, p < exC08g.data.length → exC08g.data.getD p 0 = grp.2) ∧
    s'.seg = some { frame := 4, data := [1, 7, 7, 0, 2, 2, 2, 0] } ∧
    s'.nodes.map (fun r => (r.id, alook 5 r.other)) =
      [(1, some (.mask [0])), (2, some (.mask [4, 5, 6])), (7, some (.mask [1, 2]))] :=
  ⟨_, rfl, exC08_rpOK, by decide, by decide, by decide, by decide⟩
/-- overwrite ALL of node 1 with the new label 7: node 1 is deleted, node 7 created -/
example : ∃ s', exC08.step (.paint 7 [([0, 1], 1)] 3 false) = (s', .ok) ∧
    s'.nodes.map (fun r => (r.id, alook 5 r.other)) =
      [(2, some (.mask [4, 5, 6])), (7, some (.mask [0, 1]))] :=
  ⟨_, rfl, by decide⟩
#print axioms C08_meas_step_paint

/-- The explicit intermediate invariant of the group loop of a paint. -/
theorem C08_meas_paint_invariant (s : St) (g : Seg) (v : Nat) (groups : List (List Pix × Nat))
    (hg : s.seg = some g) (hnd : s.ids.Nodup) (h0 : ∀ r ∈ s.nodes, r.id ≠ 0) (hm : RpOK s)
    (hprev : ∀ grp ∈ groups, ∀ p ∈ grp.1, p < g.data.length → g.data.getD p 0 = grp.2) :
    -- (1) it holds when `uUpdateSeg` starts on the painted array
    PInv (g.setPixels (groups.flatMap (·.1)) v) v groups
      (s.withSeg (g.setPixels (groups.flatMap (·.1)) v)) ∧
    -- (2) every accepted round of the loop keeps it, for the remaining groups
    (∀ (grp : List Pix × Nat) (gs : List (List Pix × Nat)) (acc : UOut) (recs : List PrimRec),
      PInv (g.setPixels (groups.flatMap (·.1)) v) v (grp :: gs) acc.1 → grp ∈ groups →
      (segGrpStep acc grp).2 = .ok recs →
      PInv (g.setPixels (groups.flatMap (·.1)) v) v gs (segGrpStep acc grp).1) ∧
    -- (3) after the last group the grow step re-establishes the whole node clause
    (∀ (a0 : UOut) (recs0 recs : List PrimRec) (tid : Nat) (force : Bool),
      PInv (g.setPixels (groups.flatMap (·.1)) v) v [] a0.1 → groups ≠ [] →
      (uusGrow a0 recs0 v groups tid force).1.2 = .ok recs →
      RpOK (uusGrow a0 recs0 v groups tid force).1.1) := by
  have hpx : ∀ p ∈ groups.flatMap (·.1), p < (g.setPixels (groups.flatMap (·.1)) v).data.length →
      (g.setPixels (groups.flatMap (·.1)) v).data.getD p 0 = v := by
    intro p hp hlt
    rw [Seg.setPixels_length] at hlt
    rw [Seg.setPixels_getD, if_pos ⟨hp, hlt⟩]
  refine ⟨?_, ?_, ?_⟩
  · refine ⟨hnd, h0, _, rfl, Rel.refl _ v, ?_⟩
    intro k hk r hr hex
    have hu : g.Untouched (groups.flatMap (·.1)) v r.id := by
      refine ⟨fun e => hex (Or.inl e), fun p hp hlt e => ?_⟩
      obtain ⟨grp, hm', hi⟩ := List.mem_flatMap.mp hp
      exact hex (Or.inr ⟨grp, hm', by rw [← hprev grp hm' p hi hlt, e]⟩)
    rw [Seg.maskVal_setPixels_other hu]
    exact hm g hg k hk r hr
  · intro grp gs acc recs hinv hmem hok
    exact pinv_step hinv (fun p hp hlt => hpx p (List.mem_flatMap.mpr ⟨grp, hmem, hp⟩) hlt) hok
  · intro a0 recs0 recs tid force hinv hgr hok
    exact rpOK_uusGrow hinv hpx hgr hok

example : PInv (exC08g.setPixels [1, 2] 7) 7 [([1], 1), ([2], 0)] (exC08.withSeg (exC08g.setPixels [1, 2] 7)) :=
  (C08_meas_paint_invariant exC08 exC08g 7 [([1], 1), ([2], 0)] rfl (by decide) (by decide)
    exC08_rpOK (by decide)).1
#print axioms C08_meas_paint_invariant

/-- The statement of the task: under `SegOK ∧ MeasOK ∧ PaintPre` an accepted paint re-establishes
    the node clause of `MeasOK` (literally), and `SegOK`, unique non-zero ids — the hypotheses hold
    again for the next paint. -/
theorem C08_meas_step_paint_measOK (s s' : St) (v : Nat) (groups : List (List Pix × Nat)) (tid : Nat)
    (force : Bool) (g : Seg) (t0 : Nat) (hg : s.seg = some g) (hpos : 0 < g.frame)
    (hnd : s.ids.Nodup) (h0 : ∀ r ∈ s.nodes, r.id ≠ 0) (hs : SegOK s) (hm : MeasOK s)
    (hpre : PaintPre g s.skel v groups t0)
    (h : s.step (.paint v groups tid force) = (s', .ok)) :
    (∀ g', s'.seg = some g' → ∀ k ∈ s'.rpActive, ∀ r ∈ s'.nodes,
      alook k r.other = some (if g'.pixelsOf r.time r.id = [] then Val.none
                              else Val.mask (g'.pixelsOf r.time r.id))) ∧
    SegOK s' ∧ s'.ids.Nodup ∧ (∀ r ∈ s'.nodes, r.id ≠ 0) := by
  have hrp : RpOK s' := C08_meas_step_paint s s' v groups tid force g hg hnd h0
    ((measOK_iff_sg s).mp hm).1 (fun grp hm' p hp _ => hpre.prev grp hm' p hp) h
  obtain ⟨i1, i2⟩ := C07_step_paint_ids s s' v groups tid force g hg hnd h0 h
  exact ⟨fun g' hg' k hk r hr => hrp g' hg' k hk r hr,
    C07_step_paint s s' v groups tid force g t0 hg hpos hnd h0 hs hpre h, i1, i2⟩

namespace Ft.R2G

theorem exC08_segOK' : SegOK exC08 := by
  intro g hg
  have : g = exC08g := by cases hg; rfl
  subst this
  decide

theorem exC08_measOK : MeasOK exC08 := by
  rw [measOK_iff_sg]
  refine ⟨exC08_rpOK, ?_⟩
  intro g _ ha
  cases ha

end Ft.R2G

example : ∃ s', exC08.step (.paint 7 [([1], 1), ([2], 0)] 3 false) = (s', .ok) ∧
    PaintPre exC08g exC08.skel 7 [([1], 1), ([2], 0)] 0 ∧ SegOK exC08 ∧ MeasOK exC08 :=
  ⟨_, rfl, by decide, exC08_segOK', exC08_measOK⟩
#print axioms C08_meas_step_paint_measOK
