/-
  C14 / C15 for the DISPLAY-NAME CSV layout (package R6H).

  C14 — "Writing any reachable tracks … to CSV … and reading it back with the corresponding key
  mapping yields the same nodes, edges, times, positions and track ids and the same values of the
  features that were loaded rather than recomputed."
  C15 — "Exporting with a node selection writes exactly the selected nodes plus all their
  ancestors …"

  Model: FtModel/ExportDisplay.lean — `encodeCsvDisplay` (= `export_to_csv(use_display_names=True)`:
  header `ID, Parent ID`, then the column name(s) of every feature of the registry in registry
  order; per node the cells of a list-named feature are the list elements — no cell at all when
  the node has no value —, of a single-named feature the value — empty when None) and
  `decodeCsvDisplay` (= `tracks_from_df` with an explicit `node_name_map`, following
  `CSVTracksBuilder.load_source` and `TracksBuilder.build`: validate the map, rename/copy the
  mapped columns — first writer of a target name wins —, stack list-valued keys, validate the
  graph).  `nameMapOf nax feats ns` is the corresponding key map
  `{id: "ID", parent_id: "Parent ID", time: <col>, pos: [<cols>], track_id: <col>,
  lineage_id: <col>, k: <col or list> …}` (a feature no exported node has a value of is not
  mapped: the real importer raises on a column that is empty in every row).
  Column names and std keys are real strings; values are opaque tokens (float formatting is
  checked by the harness, outside Lean).

  Hypotheses (all decidable, `RegOK` / `NodeOK` in FtProofs/R6HLemmas.lean, R6HRowLemmas.lean):
  * `RegOK`: (1) the column names of the file are pairwise distinct and distinct from `ID` /
    `Parent ID` (`(headerD feats).Nodup`); (2) no registry key is "id" / "parent_id" (it would
    redirect the ID column: `column_map[feature_name] = names`); (3) the std keys of the key map
    are pairwise distinct; (4) THE NAMES THE IMPORTER GIVES THE LOADED COLUMNS — the std key for a
    single column, the column's own name for a component of a list — are pairwise distinct;
    (5) a list-valued std key is none of those names and has at least one column; (6) the keys
    of the other features are pairwise distinct and none of time / pos / track_id / lineage_id.
    (1) alone is NOT enough: `C14_csv_display_needs_distinct_targets`.
  * `NodeOK`: the export loop does not raise for the node (a list-named feature holds a list of
    that length) and a single-named other feature holds one value.
  * the graph: `WF` (distinct ids, one parent), `EdgesIn`, no self-links (the importer refuses).
-/
import FtProofs.R6HTableLemmas
import FtProofs.Props.C15
open Ft Ft.Export Ft.ExportDisplay Ft.R6H

/-! ## name resolution (header of the file) -/

/-- The column names of one feature, exactly as `export_to_csv` builds them: more than one value ⇒
    `value_names` if given, else a list display name of that length, else `<display name or
    key>_<i>`; one value ⇒ display name or key. -/
theorem C14_csv_display_names (f : FeatSpec) :
    (∀ nv vn, f.numValues = some nv → 1 < nv → f.valueNames = some vn →
      colsOfSpec f = some (.many vn)) ∧
    (∀ nv l, f.numValues = some nv → 1 < nv → f.valueNames = none → f.displayName = some (.list l) →
      l.length = nv → colsOfSpec f = some (.many l)) ∧
    (∀ nv b, f.numValues = some nv → 1 < nv → f.valueNames = none → f.displayName = some (.str b) →
      colsOfSpec f = some (.many ((List.range nv).map (fun i => b ++ "_" ++ toString i)))) ∧
    (∀ nv, f.numValues = some nv → 1 < nv → f.valueNames = none → f.displayName = none →
      colsOfSpec f = some (.many ((List.range nv).map (fun i => f.keyName ++ "_" ++ toString i)))) ∧
    (∀ b, (f.numValues.getD 1) ≤ 1 → f.displayName = some (.str b) → colsOfSpec f = some (.one b)) ∧
    ((f.numValues.getD 1) ≤ 1 → f.displayName = none → colsOfSpec f = some (.one f.keyName)) := by
  refine ⟨?_, ?_, ?_, ?_, ?_, ?_⟩
  · intro nv vn h1 h2 h3
    unfold colsOfSpec
    simp [h1, h2, h3]
  · intro nv l h1 h2 h3 h4 h5
    unfold colsOfSpec
    simp [h1, h2, h3, h4, h5]
  · intro nv b h1 h2 h3 h4
    unfold colsOfSpec
    simp [h1, h2, h3, h4, suffixed]
  · intro nv h1 h2 h3 h4
    unfold colsOfSpec
    simp [h1, h2, h3, h4, suffixed]
  · intro b h1 h2
    unfold colsOfSpec
    have : ¬ (f.numValues.getD 1 > 1) := by omega
    simp [this, h2]
  · intro h1 h2
    unfold colsOfSpec
    have : ¬ (f.numValues.getD 1 > 1) := by omega
    simp [this, h2]

/-- registry of a 2D+t solution: time, position (value names y, x), track and lineage id, a
    single-value feature with a display name, a 2-value feature without any names, an edge
    feature (no node carries it) -/
def exSpecs : List FeatSpec :=
  [⟨0, "time", .time, some 1, none, some (.str "Time")⟩,
   ⟨1, "pos", .pos, some 2, some ["y", "x"], some (.str "position")⟩,
   ⟨2, "track_id", .tid, some 1, none, some (.str "Tracklet ID")⟩,
   ⟨3, "lineage_id", .lin, some 1, none, some (.str "Lineage ID")⟩,
   ⟨9, "score", .other, some 1, none, some (.str "Score")⟩,
   ⟨8, "vel", .other, some 2, none, none⟩,
   ⟨6, "iou", .other, none, none, some (.str "IoU")⟩]

def exFeats : List FeatDesc :=
  [⟨0, "time", .time, .one "Time"⟩, ⟨1, "pos", .pos, .many ["y", "x"]⟩,
   ⟨2, "track_id", .tid, .one "Tracklet ID"⟩, ⟨3, "lineage_id", .lin, .one "Lineage ID"⟩,
   ⟨9, "score", .other, .one "Score"⟩, ⟨8, "vel", .other, .many ["vel_0", "vel_1"]⟩,
   ⟨6, "iou", .other, .one "IoU"⟩]

example : describeAll exSpecs = some exFeats ∧
    headerD exFeats = ["ID", "Parent ID", "Time", "y", "x", "Tracklet ID", "Lineage ID", "Score",
      "vel_0", "vel_1", "IoU"] := by decide

#print axioms C14_csv_display_names

/-! ## layout of the rows -/

/-- What the file shows for a node, column by column (registry with pairwise distinct column
    names): the ID and Parent ID cells; under the name of a single-named feature the value (empty
    when the node has none); under the names of a list-named feature the list elements in order —
    and nothing but empty cells when the node has no value (D19). -/
theorem C14_csv_display_layout (s : Tracks) (feats : List FeatDesc) (n : NodeRec)
    (hn : (headerD feats).Nodup) (hk : NoIdKey feats) :
    (encodeCsvDisplay s feats none).header = [idName, parentName] ++ feats.flatMap FeatDesc.names ∧
    cellAt s feats n idName = .nat n.id ∧ cellAt s feats n parentName = parentCell s n ∧
    (∀ f ∈ feats, ∀ c, f.cols = .one c → cellAt s feats n c = singleCell (attrOf n f)) ∧
    (∀ f ∈ feats, ∀ cs vs, f.cols = .many cs → attrOf n f = some (.vals vs) → cs.length = vs.length →
      cs.map (cellAt s feats n) = vs.map Cell.val) ∧
    (∀ f ∈ feats, ∀ cs, f.cols = .many cs → attrOf n f = none →
      ∀ c ∈ cs, cellAt s feats n c = Cell.empty) :=
  ⟨rfl, (cellAt_id s feats n hn hk).1, (cellAt_id s feats n hn hk).2,
   fun f hf c hc => cellAt_one s feats n hn hk f hf c hc,
   fun f hf cs vs hc ha hl => cellAt_many s feats n hn hk f hf cs hc vs ha hl,
   fun f hf cs hc ha => cellAt_many_none s feats n hn hk f hf cs hc ha⟩

/-- 2D+t: a division (1 → 2, 1 → 7), a skip edge (7 → 30, t 1 → 3), an isolated node (12);
    `score` (key 9) on two nodes, `vel` (key 8, two values) on one node, an unregistered
    attribute (key 5) on node 2. -/
def exD : Tracks :=
  { ndim := 3
    nodes := [⟨7, 1, 5, 2, [40, 41], [(9, [50])]⟩, ⟨1, 0, 3, 2, [42, 43], []⟩,
              ⟨30, 3, 5, 2, [44, 45], [(9, [51]), (8, [52, 53])]⟩, ⟨2, 1, 11, 2, [46, 47], [(5, [54])]⟩,
              ⟨12, 2, 4, 6, [48, 49], []⟩]
    edges := [⟨7, 30, [(6, [60])]⟩, ⟨1, 2, []⟩, ⟨1, 7, []⟩]
    seg := none
    scale := none
    registry := [0, 1, 2, 3, 9, 8, 6]
    perAxis := false }

example : (encodeCsvDisplay exD exFeats none).rows.map (fun d => d.map Prod.snd) =
    [[.nat 7, .nat 1, .nat 1, .val 40, .val 41, .nat 5, .nat 2, .val 50, .empty, .empty, .empty],
     [.nat 1, .empty, .nat 0, .val 42, .val 43, .nat 3, .nat 2, .empty, .empty, .empty, .empty],
     [.nat 30, .nat 7, .nat 3, .val 44, .val 45, .nat 5, .nat 2, .val 51, .val 52, .val 53, .empty],
     [.nat 2, .nat 1, .nat 1, .val 46, .val 47, .nat 11, .nat 2, .empty, .empty, .empty, .empty],
     [.nat 12, .empty, .nat 2, .val 48, .val 49, .nat 4, .nat 6, .empty, .empty, .empty, .empty]] := by
  decide

#print axioms C14_csv_display_layout

/-! ## round trip -/

/-- `export_to_csv(use_display_names=True)` followed by `tracks_from_df` with the corresponding
    key map.  For every well-formed table (distinct node ids, distinct edges whose ends are nodes,
    at most one parent, no self-link, one position value per axis, at least two axes) and every
    registry that satisfies `RegOK`, has a time feature and provides the position (one list-named
    feature, or one single-named feature per axis), on a table that satisfies `NodeOK`:
    the export does not raise, the re-import succeeds, its nodes are the original nodes in the
    original order — same id, time, position; same track / lineage id when the registry has such a
    feature and geff's validation of the loaded ids passes (`tv` / `lv`: library calls, universally
    quantified; when it fails the ids are dropped, `none`, and recomputed by the importer); every
    registered other feature with its original value under its key, a missing value staying
    missing, and nothing else — and its edges are the original edges up to order. -/
theorem C14_csv_display (s : Tracks) (feats : List FeatDesc) (tv lv : Bool)
    (hw : WF s) (he : EdgesIn s) (hs : NoSelf s) (hnax : 2 ≤ nax s)
    (hR : RegOK (nax s) feats s.nodes) (hok : ∀ n ∈ s.nodes, NodeOK feats n)
    (ht : ∃ f ∈ feats, f.role = Role.time)
    (hp : PosFeat (nax s) feats ∨ AxisFeats (nax s) feats) :
    exportOk s feats none = true ∧
    ∃ t, decodeCsvDisplay tv lv (nameMapOf (nax s) feats s.nodes) (encodeCsvDisplay s feats none) = some t ∧
      Pointwise (Agrees feats tv lv) s.nodes t.nodes ∧ t.edges.Perm (edgePairs s) := by
  refine ⟨exportOk_of_nodeOK s feats none hR.2.1 hok, ?_⟩
  have hpm : PosMapOK s feats (nameMapOf (nax s) feats s.nodes) s.nodes := by
    rcases hp with hp | hp
    · exact posMapOK_of_pos s _ feats _ hR hnax hp hw.pos_len
    · exact posMapOK_of_axes s _ feats _ hR hnax hp hw.pos_len
  have hcl : ∀ n ∈ s.nodes, ∀ p, parentOf s n.id = some p → p ∈ s.nodes.map NodeRec.id ∧ p ≠ n.id := by
    intro n _ p hpar
    obtain ⟨e, hem, hd, hsrc⟩ := parentOf_some hpar
    refine ⟨hsrc ▸ (he e hem).1, ?_⟩
    rw [← hd, ← hsrc]
    exact hs e hem
  obtain ⟨t, htd, hA, hE⟩ := decode_encode_rows s (nax s) feats s.nodes hR tv lv hw.ids_nodup hcl hok ht hpm
  exact ⟨t, htd, hA, hE ▸ parentEdges_perm s hw⟩

example : WF exD ∧ EdgesIn exD ∧ NoSelf exD ∧ 2 ≤ nax exD ∧ RegOK (nax exD) exFeats exD.nodes ∧
    (∀ n ∈ exD.nodes, NodeOK exFeats n) ∧ (∃ f ∈ exFeats, f.role = Role.time) ∧
    PosFeat (nax exD) exFeats := by decide

example : nameMapOf (nax exD) exFeats exD.nodes =
      [("id", .one "ID"), ("parent_id", .one "Parent ID"), ("time", .one "Time"),
       ("pos", .many ["y", "x"]), ("track_id", .one "Tracklet ID"),
       ("lineage_id", .one "Lineage ID"), ("score", .one "Score"), ("vel", .many ["vel_0", "vel_1"])] ∧
    decodeCsvDisplay true true (nameMapOf (nax exD) exFeats exD.nodes) (encodeCsvDisplay exD exFeats none) =
      some ⟨[⟨7, 1, some 5, some 2, [40, 41], [("score", [50])], []⟩,
             ⟨1, 0, some 3, some 2, [42, 43], [], []⟩,
             ⟨30, 3, some 5, some 2, [44, 45], [("score", [51]), ("vel", [52, 53])], []⟩,
             ⟨2, 1, some 11, some 2, [46, 47], [], []⟩,
             ⟨12, 2, some 4, some 6, [48, 49], [], []⟩],
            [(1, 7), (7, 30), (1, 2)]⟩ := by decide

/-- per-axis position storage (`pos_attr = ["y", "x"]`): two single-value features named by their
    keys; the key map stacks them under "pos" -/
def exFeatsAx : List FeatDesc :=
  [⟨0, "time", .time, .one "Time"⟩, ⟨1, "y", .axis 0, .one "y"⟩, ⟨4, "x", .axis 1, .one "x"⟩,
   ⟨2, "track_id", .tid, .one "Tracklet ID"⟩, ⟨3, "lineage_id", .lin, .one "Lineage ID"⟩,
   ⟨9, "score", .other, .one "Score"⟩]

example : RegOK (nax exD) exFeatsAx exD.nodes ∧ (∀ n ∈ exD.nodes, NodeOK exFeatsAx n) ∧
    AxisFeats (nax exD) exFeatsAx ∧
    (decodeCsvDisplay true false (nameMapOf (nax exD) exFeatsAx exD.nodes)
        (encodeCsvDisplay exD exFeatsAx none)).map (fun t => t.nodes.map (fun d => (d.id, d.pos, d.tid, d.lin))) =
      some [(7, [40, 41], some 5, none), (1, [42, 43], some 3, none), (30, [44, 45], some 5, none),
            (2, [46, 47], some 11, none), (12, [48, 49], some 4, none)] := by decide

#print axioms C14_csv_display

/-- `Pointwise` unfolded: same number of nodes, and the i-th re-imported node agrees with the i-th
    original node. -/
theorem C14_csv_display_nodes (feats : List FeatDesc) (tv lv : Bool) (ns : List NodeRec)
    (ds : List DNode) (h : Pointwise (Agrees feats tv lv) ns ds) :
    ds.length = ns.length ∧ ds.map DNode.id = ns.map NodeRec.id ∧
    ∀ (i : Nat) (h1 : i < ns.length) (h2 : i < ds.length), Agrees feats tv lv (ns[i]'h1) (ds[i]'h2) := by
  refine ⟨h.length_eq.symm, ?_, h.get⟩
  induction h with
  | nil => rfl
  | cons hab _ ih => simp [hab.id, ih]

example : Pointwise (Agrees exFeats true true) [⟨7, 1, 5, 2, [40, 41], [(9, [50]), (5, [54])]⟩]
    [⟨7, 1, some 5, some 2, [40, 41], [("score", [50])], []⟩] := by
  refine .cons ⟨rfl, rfl, rfl, fun _ _ => rfl, fun _ _ => rfl, fun h => Bool.noConfusion h,
    fun h => Bool.noConfusion h, ?_, ?_, rfl⟩ .nil
  · decide
  · intro k vs hk
    refine ⟨⟨9, "score", .other, .one "Score"⟩, by decide, rfl, ?_⟩
    simp only [alook_cons] at hk
    split at hk
    · rename_i h; simpa using h
    · cases hk

#print axioms C14_csv_display_nodes

/-! ## what goes wrong without the hypotheses (witnesses) -/

def exCollide : Tracks :=
  { ndim := 3
    nodes := [⟨1, 0, 1, 1, [40, 41], [(9, [50]), (8, [60])]⟩, ⟨2, 1, 1, 1, [42, 43], [(9, [51])]⟩]
    edges := [⟨1, 2, []⟩]
    seg := none, scale := none, registry := [0, 1, 2, 3, 9, 8], perAxis := false }

def exCore : List FeatDesc :=
  [⟨0, "time", .time, .one "Time"⟩, ⟨1, "pos", .pos, .many ["y", "x"]⟩,
   ⟨2, "track_id", .tid, .one "Tracklet ID"⟩, ⟨3, "lineage_id", .lin, .one "Lineage ID"⟩]

/-- Two features with the same display name: the header shows the name twice, both columns carry
    the value of the LATER feature (the row is a dict), the value 50 of the first one is nowhere
    in the file, and the re-import gives feature `a` the value of feature `b`. -/
theorem C14_csv_display_needs_distinct_names :
    let feats := exCore ++ [⟨9, "a", .other, .one "Score"⟩, ⟨8, "b", .other, .one "Score"⟩]
    ¬ (headerD feats).Nodup ∧
    (encodeCsvDisplay exCollide feats none).rows.map (fun d => (d.map Prod.snd).drop 7) =
      [[.val 60, .val 60], [.empty, .empty]] ∧
    (decodeCsvDisplay true true (nameMapOf 2 feats exCollide.nodes) (encodeCsvDisplay exCollide feats none)).map
        (fun t => t.nodes.map DNode.feats) =
      some [[("a", [60]), ("b", [60])], []] := by decide

#print axioms C14_csv_display_needs_distinct_names

/-- Pairwise distinct column names are NOT enough.  A single-value feature whose KEY is `y`
    (display name `Ycoord`) next to the position feature with value names `y`, `x`: the file is
    fine (every hypothesis of `RegOK` but the distinct target names holds), but `flatten_name_map` keeps the
    names of list components as target names, so the column `Ycoord` (target `y`) is dropped
    because the target `y` is already taken by the position component — the re-imported nodes
    have no attribute `y`.  (Replayed on the real importer: same loss, no error.) -/
theorem C14_csv_display_needs_distinct_targets :
    let feats := exCore ++ [⟨9, "y", .other, .one "Ycoord"⟩]
    (headerD feats).Nodup ∧ NoIdKey feats ∧ (mapKeys (nameMapOf 2 feats exCollide.nodes)).Nodup ∧
    ¬ (targets (nameMapOf 2 feats exCollide.nodes)).Nodup ∧
    manyFresh (nameMapOf 2 feats exCollide.nodes) = true ∧
    ((feats.filter (fun f => f.role == Role.other)).map FeatDesc.keyName).Nodup ∧
    (∀ f ∈ feats, f.role = Role.other → f.keyName ∉ coreKeys) ∧
    (∀ n ∈ exCollide.nodes, NodeOK feats n) ∧
    (encodeCsvDisplay exCollide feats none).rows.map (fun d => (d.map Prod.snd).drop 7) =
      [[.val 50], [.val 51]] ∧
    (decodeCsvDisplay true true (nameMapOf 2 feats exCollide.nodes) (encodeCsvDisplay exCollide feats none)).map
        (fun t => t.nodes.map (fun d => (d.pos, d.feats))) =
      some [([40, 41], []), ([42, 43], [])] := by decide

#print axioms C14_csv_display_needs_distinct_targets

/-- A mapped column that is empty in every row makes the importer raise (`values[0].dtype` on an
    array of None): that is why `nameMapOf` maps only features some exported node has a value of. -/
theorem C14_csv_display_empty_column_refused :
    let feats := exCore ++ [⟨6, "iou", .other, .one "IoU"⟩]
    decodeCsvDisplay true true (nameMapOf 2 feats exCollide.nodes ++ [("iou", .one "IoU")])
      (encodeCsvDisplay exCollide feats none) = none ∧
    (decodeCsvDisplay true true (nameMapOf 2 feats exCollide.nodes)
      (encodeCsvDisplay exCollide feats none)).isSome := by
  decide

#print axioms C14_csv_display_empty_column_refused

/-- A self-link is written into the Parent ID column and refused by the importer's graph
    validation: `NoSelf` is needed. -/
theorem C14_csv_display_self_link_refused :
    let s : Tracks := { exCollide with edges := [⟨1, 1, []⟩] }
    WF s ∧ EdgesIn s ∧
    decodeCsvDisplay true true (nameMapOf 2 exCore s.nodes) (encodeCsvDisplay s exCore none) = none := by decide

#print axioms C14_csv_display_self_link_refused

/-! ## subset export -/

/-- With a selection, the rows of the display-name file are exactly the ancestor closure of the
    selection (reusing `C15_closure`), and the file re-imports (key map of the exported nodes) to
    exactly those nodes — each agreeing with the original — with exactly the edges of the graph
    among them.  (On a subset file geff's tracklet validation typically FAILS — the closure keeps one
    child of a division, so two track ids sit on one unbranched path — and the real importer then
    recomputes the track ids: that is the case `tv = false`, where `Agrees` says `tid = none`.) -/
theorem C15_csv_display_subset (s : Tracks) (feats : List FeatDesc) (sel : List Nat) (tv lv : Bool)
    (hw : WF s) (ht : TimeInc s) (he : EdgesIn s) (hsel : ∀ m ∈ sel, m ∈ ids s) (hnax : 2 ≤ nax s)
    (hR : RegOK (nax s) feats (exported s (some sel))) (hok : ∀ n ∈ s.nodes, NodeOK feats n)
    (htime : ∃ f ∈ feats, f.role = Role.time)
    (hp : PosFeat (nax s) feats ∨ AxisFeats (nax s) feats) :
    (∀ n, n ∈ (encodeCsvDisplay s feats (some sel)).rows.filterMap rowNodeId ↔ ∃ m ∈ sel, Anc s n m) ∧
    exportOk s feats (some sel) = true ∧
    ∃ t, decodeCsvDisplay tv lv (nameMapOf (nax s) feats (exported s (some sel)))
        (encodeCsvDisplay s feats (some sel)) = some t ∧
      Pointwise (Agrees feats tv lv) (exported s (some sel)) t.nodes ∧
      ∀ p c, (p, c) ∈ t.edges ↔ (p, c) ∈ edgePairs s ∧ p ∈ (exported s (some sel)).map NodeRec.id ∧
        c ∈ (exported s (some sel)).map NodeRec.id := by
  refine ⟨?_, exportOk_of_nodeOK s feats (some sel) hR.2.1 hok, ?_⟩
  · intro n
    rw [rows_ids s feats (some sel) hR.1 hR.2.1]
    exact C15_closure s ht he sel hsel n
  have hsub := exported_sub s (some sel)
  have hlen : ∀ n ∈ exported s (some sel), n.pos.length = nax s := fun n hn => hw.pos_len n (hsub n hn)
  have hpm : PosMapOK s feats (nameMapOf (nax s) feats (exported s (some sel))) (exported s (some sel)) := by
    rcases hp with hp | hp
    · exact posMapOK_of_pos s _ feats _ hR hnax hp hlen
    · exact posMapOK_of_axes s _ feats _ hR hnax hp hlen
  have hcl : ∀ n ∈ exported s (some sel), ∀ p, parentOf s n.id = some p →
      p ∈ (exported s (some sel)).map NodeRec.id ∧ p ≠ n.id := by
    intro n hn p hpar
    obtain ⟨e, hem, hd, hsrc⟩ := parentOf_some hpar
    refine ⟨?_, ?_⟩
    · exact C15_parent_closed s ht he sel hsel n.id p (List.mem_map.mpr ⟨n, hn, rfl⟩)
        (List.mem_of_mem_head? hpar)
    · rw [← hd, ← hsrc]
      exact NoSelf.of_timeInc ht e hem
  obtain ⟨t, htd, hA, hE⟩ := decode_encode_rows s (nax s) feats _ hR tv lv
    (exported_ids_nodup s (some sel) hw.ids_nodup) hcl (fun n hn => hok n (hsub n hn)) htime hpm
  refine ⟨t, htd, hA, ?_⟩
  intro p c
  rw [hE, mem_parentEdges]
  constructor
  · rintro ⟨n, hn, hid, hq⟩
    obtain ⟨e, hem, hd, hsrc⟩ := parentOf_some hq
    have hc : c ∈ (exported s (some sel)).map NodeRec.id := List.mem_map.mpr ⟨n, hn, hid⟩
    refine ⟨List.mem_map.mpr ⟨e, hem, by simp [endpoints, hd, hsrc]⟩, ?_, hc⟩
    exact C15_parent_closed s ht he sel hsel c p hc (List.mem_of_mem_head? hq)
  · rintro ⟨hedge, _, hc⟩
    obtain ⟨n, hn, hid⟩ := List.mem_map.mp hc
    obtain ⟨e, hem, hx⟩ := List.mem_map.mp hedge
    simp only [endpoints, Prod.mk.injEq] at hx
    refine ⟨n, hn, hid, ?_⟩
    rw [← hx.2, ← hx.1]
    exact parentOf_of_edge hw hem

example : TimeInc exD ∧ (∀ m ∈ [30, 2], m ∈ ids exD) ∧
    RegOK (nax exD) exFeats (exported exD (some [30, 2])) ∧
    (encodeCsvDisplay exD exFeats (some [30, 2])).rows.filterMap rowNodeId = [7, 1, 30, 2] ∧
    (decodeCsvDisplay false true (nameMapOf (nax exD) exFeats (exported exD (some [30, 2])))
        (encodeCsvDisplay exD exFeats (some [30, 2]))).map
        (fun t => (t.nodes.map (fun d => (d.id, d.tid, d.lin)), t.edges)) =
      some ([(7, none, some 2), (1, none, some 2), (30, none, some 2), (2, none, some 2)],
            [(1, 7), (7, 30), (1, 2)]) := by decide

#print axioms C15_csv_display_subset
