/-
  FtProofs.R6PFrozenLemmas — package R6P, part 4: a key that is NOT active is not written.

  Node part (`col k`, the column of key `k` over the node table, `R5B.FrzL` = "surviving entries
  unchanged and in place, deleted ones dropped, new ones appended"):
    `FzNPre k`   AddNode brings no value of `k` unless the node is new; UpdateNodeAttrs does not
                 name `k` unless `k` is a managed key (then the call is refused);
    `closedFzN`  `k ∉ rpActive ∧ FrzL c0 (col k ·)` is `Closed` for `enable` calls that do not name `k`.
  Edge part (`ecol k`, the column of key `k` over the edge table, `FrzE` the same relation on it):
    `FzEPre k`   AddEdge brings no value of `k` unless the edge is new;
    `closedFzE`  `¬(k is the active IoU key) ∧ FrzE c0 (ecol k ·)` is `Closed` for `enable` calls that
                 do not name `k` when it is the IoU key.
  In both cases the inverse of the record of an accepted command is admissible again, so an `inv`
  right after an accepted command needs no side condition (the re-created node / edge is NEW).
-/
import FtProofs.R6PMeasLemmas
namespace Ft.R6P
open Ft Ft.St Ft.R2G Ft.R5B List

/-! ### 1. nodes -/

def FzNPre (k : Key) (s : St) : PCmd → Prop
  | .addNode r _ => alook k r.other = none ∨ s.hasNode r.id = false
  | .updAttrs _ a => alook k a = none ∨ k ∈ s.annotKeys
  | _ => True

instance (k : Key) (s : St) (c : PCmd) : Decidable (FzNPre k s c) := by
  cases c <;> unfold FzNPre <;> infer_instance

theorem annotKeys_of_cfg {s t : St} (h : t.cfg = s.cfg) : t.annotKeys = s.annotKeys :=
  annotKeys_of_avail (avail_of_reg (St.reg_of_cfg h))

theorem alook_map_fst {k : Key} {a : List (Key × Val)} (f : Key × Val → Val) (h : alook k a = none) :
    alook k (a.map (fun kv => (kv.1, f kv))) = none := by
  induction a with
  | nil => rfl
  | cons x l ih =>
    obtain ⟨k', v'⟩ := x
    simp only [alook, List.map_cons] at h ⊢
    split at h
    · cases h
    · rename_i hne
      simp only [hne, Bool.false_eq_true, if_false]
      exact ih h

theorem col_foldl_setOther_none {k : Key} (n : Node) (a : List (Key × Val)) (h : alook k a = none) (st : St) :
    col k (a.foldl (fun st kv => st.setOther n kv.1 kv.2) st) = col k st := by
  induction a generalizing st with
  | nil => rfl
  | cons x l ih =>
    obtain ⟨k', v'⟩ := x
    have hne : k ≠ k' := by
      intro e; subst e; simp [alook] at h
    have hl : alook k l = none := by
      have : (k' == k) = false := by simpa using (Ne.symm hne)
      simpa [alook, this] using h
    rw [List.foldl_cons, ih hl, col_setOther hne]

theorem col_pUpdAttrs_none {k : Key} {s s' : St} {n : Node} {a : List (Key × Val)} {rec : PrimRec}
    (hk : alook k a = none) (h : s.pUpdAttrs n a = .ok (s', rec)) : col k s' = col k s := by
  unfold St.pUpdAttrs at h
  split at h
  · cases h
  · split at h
    · cases h
    · injection h with h; injection h with h _; subst h
      exact col_foldl_setOther_none n a hk s

theorem prev_pUpdAttrs {s s' : St} {n : Node} {a : List (Key × Val)} {rec : PrimRec}
    (h : s.pUpdAttrs n a = .ok (s', rec)) :
    ∃ f : Key × Val → Val, rec = .updAttrs n (a.map (fun kv => (kv.1, f kv))) a := by
  unfold St.pUpdAttrs at h
  split at h
  · cases h
  · split at h
    · cases h
    · rename_i r _
      injection h with h; injection h with _ h
      exact ⟨fun kv => (alook kv.1 r.other).getD Val.none, h.symm⟩

theorem fzN_prim {k : Key} {c0 : Col} {s s' : St} {c : PCmd} {r : PrimRec}
    (hJ : k ∉ s.rpActive ∧ FrzL c0 (col k s)) (hpre : FzNPre k s c) (h : c.run s = .ok (s', r)) :
    (k ∉ s'.rpActive ∧ FrzL c0 (col k s')) ∧ FzNPre k s' (invCmd r) := by
  obtain ⟨hoff, hfz⟩ := hJ
  cases c with
  | addEdge e a =>
    have hc := cfg_pAddEdge h
    refine ⟨⟨by rw [rpActive_of_cfg hc]; exact hoff, ?_⟩, by rw [(shape_pAddEdge h).2.2.2.2.2.2]; trivial⟩
    rw [(FcPrim.pAddEdge e a _ _ _ h).col k]; exact hfz
  | delEdge e =>
    have hc := cfg_pDelEdge h
    obtain ⟨-, -, -, saved, hrec⟩ := shape_pDelEdge h
    refine ⟨⟨by rw [rpActive_of_cfg hc]; exact hoff, ?_⟩, by rw [hrec]; trivial⟩
    rw [(FcPrim.pDelEdge (fun _ => e) _ _ _ h).col k]; exact hfz
  | addNode nr px =>
    have hc := cfg_pAddNode h
    refine ⟨⟨by rw [rpActive_of_cfg hc]; exact hoff, ?_⟩, by rw [(pAddNode_ok_sg h).1]; trivial⟩
    cases hn : s.hasNode nr.id with
    | true =>
      have hq : alook k nr.other = none := by
        rcases hpre with hq | hq
        · exact hq
        · rw [hn] at hq; cases hq
      rw [col_pAddNode_old hoff hq hn h]; exact hfz
    | false =>
      rw [(col_pAddNode_new hoff hn h).1]
      refine hfz.trans (FrzL.push _ _ _ ?_)
      intro hm
      have : nr.id ∈ s.ids := by simpa [col, ids] using hm
      rw [← hasNode_iff_mem_ids_sg, hn] at this; cases this
  | delNode n px =>
    have hc := cfg_pDelNode h
    obtain ⟨r0, hr0, hrec, -, e2, -, -⟩ := shape_pDelNode h
    refine ⟨⟨by rw [rpActive_of_cfg hc]; exact hoff, ?_⟩, ?_⟩
    · rw [(col_pDelNode h).1]; exact hfz.trans (FrzL.drop _ _)
    · rw [hrec]
      show _ ∨ s'.hasNode (s.savedAttrs r0).id = false
      right
      have hid : (s.savedAttrs r0).id = n := findNode_id_sg (r := r0) hr0
      rw [hid]
      cases hh : s'.hasNode n with
      | false => rfl
      | true =>
        have := mem_ids_skel.1 ((hasNode_iff_mem_ids_sg _ _).1 hh)
        rw [e2] at this
        obtain ⟨p, hp, hpn⟩ := List.mem_map.1 this
        have := (List.mem_filter.1 hp).2
        simp [hpn] at this
  | updTid st t l =>
    have hc := cfg_pUpdTid h
    obtain ⟨a, b, c', d, hrec⟩ := rec_pUpdTid h
    refine ⟨⟨by rw [rpActive_of_cfg hc]; exact hoff, ?_⟩, by rw [hrec]; trivial⟩
    rw [(Fc.ofFr (Fr.pUpdTid h)).col k]; exact hfz
  | updSeg n ps added =>
    have hc := cfg_pUpdSeg h
    refine ⟨⟨by rw [rpActive_of_cfg hc]; exact hoff, ?_⟩, by rw [(pUpdSeg_ok_sg h).choose_spec.2.2.1]; trivial⟩
    rw [col_pUpdSeg hoff h]; exact hfz
  | updAttrs n a =>
    have hc := cfg_pUpdAttrs h
    obtain ⟨f, hrec⟩ := prev_pUpdAttrs h
    refine ⟨⟨by rw [rpActive_of_cfg hc]; exact hoff, ?_⟩, ?_⟩
    · rcases hpre with hq | hq
      · rw [col_pUpdAttrs_none hq h]; exact hfz
      · rw [C10_disabled_frozen_updAttrs s s' k n a r hq h]; exact hfz
    · rw [hrec]
      show alook k (a.map (fun kv => (kv.1, f kv))) = none ∨ k ∈ s'.annotKeys
      rcases hpre with hq | hq
      · exact Or.inl (alook_map_fst f hq)
      · exact Or.inr (by rw [annotKeys_of_cfg hc]; exact hq)

theorem fzN_enable {k : Key} {c0 : Col} {s s' : St} {ks : List Key} {rc : Bool}
    (hJ : k ∉ s.rpActive ∧ FrzL c0 (col k s)) (hk : k ∉ ks) (h : s.enable ks rc = some s') :
    k ∉ s'.rpActive ∧ FrzL c0 (col k s') := by
  cases hany : ks.any (fun k => !(s.annotKeys.contains k)) with
  | true => rw [enable_none s ks rc hany] at h; cases h
  | false =>
    rw [enable_eq s ks rc hany] at h
    injection h with h
    subst h
    have h1 : k ∉ (enableReg s ks).rpActive := by
      intro hm
      rcases mem_enableReg_rpActive.1 hm with hm | ⟨hm, -, -⟩
      · exact hJ.1 hm
      · exact hk hm
    cases rc with
    | false => exact ⟨h1, hJ.2⟩
    | true =>
      show k ∉ (enableRecompute (enableReg s ks) ks).rpActive ∧ _
      have hr := reg_enableRecompute (enableReg s ks) ks
      simp only [reg, Prod.mk.injEq] at hr
      refine ⟨by rw [hr.2.2.1]; exact h1, ?_⟩
      show FrzL c0 (col k (enableRecompute (enableReg s ks) ks))
      rw [col_enableRecompute h1]; exact hJ.2

theorem fzN_disable {k : Key} {c0 : Col} {s s' : St} {ks : List Key}
    (hJ : k ∉ s.rpActive ∧ FrzL c0 (col k s)) (h : s.disable ks = some s') :
    k ∉ s'.rpActive ∧ FrzL c0 (col k s') := by
  unfold St.disable at h
  split at h
  · cases h
  · injection h with h
    subst h
    exact ⟨fun hm => hJ.1 (List.mem_filter.1 hm).1, hJ.2⟩

theorem closedFzN (k : Key) (c0 : Col) :
    Closed (fun s => k ∉ s.rpActive ∧ FrzL c0 (col k s)) (FzNPre k) (fun _ ks _ => k ∉ ks) (fun _ _ => True) where
  prim := fun hJ hp h => fzN_prim hJ hp h
  enable := fun hJ hp h => fzN_enable hJ hp h
  disable := fun hJ _ h => fzN_disable hJ h

/-! ### 2. edges -/

abbrev ECol := List (Edge × Option Val)

/-- the `k`-column of the edge table -/
def ecol (k : Key) (s : St) : ECol := s.edges.map (fun r => (r.e, alook k r.attrs))

def dropE (c : ECol) (dels : List Edge) : ECol := c.filter (fun p => !(dels.contains p.1))

/-- surviving entries unchanged and in place, the others dropped, fresh ones appended -/
def FrzE (c c' : ECol) : Prop :=
  ∃ dels extra, c' = dropE c dels ++ extra ∧ ∀ p ∈ extra, p.1 ∉ (dropE c dels).map (·.1)

theorem dropE_nil (c : ECol) : dropE c [] = c := by
  unfold dropE
  rw [List.filter_eq_self]
  intro p _; rfl

theorem dropE_dropE (c : ECol) (d d' : List Edge) : dropE (dropE c d) d' = dropE c (d ++ d') := by
  unfold dropE
  rw [List.filter_filter]
  apply List.filter_congr
  intro p _
  by_cases h1 : p.1 ∈ d <;> by_cases h2 : p.1 ∈ d' <;> simp [h1, h2]

theorem dropE_append (c e : ECol) (d : List Edge) : dropE (c ++ e) d = dropE c d ++ dropE e d := by
  unfold dropE; rw [List.filter_append]

theorem mem_keys_dropE {c : ECol} {d : List Edge} {n : Edge} (h : n ∈ (dropE c d).map (·.1)) :
    n ∈ c.map (·.1) := by
  obtain ⟨p, hp, rfl⟩ := List.mem_map.1 h
  exact List.mem_map.2 ⟨p, (List.mem_filter.1 hp).1, rfl⟩

theorem FrzE.refl (c : ECol) : FrzE c c :=
  ⟨[], [], by rw [dropE_nil, List.append_nil], fun p hp => by cases hp⟩

theorem FrzE.of_eq {c c' : ECol} (h : c' = c) : FrzE c c' := h ▸ FrzE.refl c

theorem FrzE.trans {a b c : ECol} (h1 : FrzE a b) (h2 : FrzE b c) : FrzE a c := by
  obtain ⟨d, e, rfl, he⟩ := h1
  obtain ⟨d', e', rfl, he'⟩ := h2
  refine ⟨d ++ d', dropE e d' ++ e', ?_, ?_⟩
  · rw [dropE_append, dropE_dropE, List.append_assoc]
  · intro p hp
    rcases List.mem_append.1 hp with hp | hp
    · intro hm
      have hpe : p ∈ e := (List.mem_filter.1 hp).1
      apply he p hpe
      rw [← dropE_dropE] at hm
      exact mem_keys_dropE hm
    · intro hm
      apply he' p hp
      rw [dropE_append, List.map_append, dropE_dropE]
      exact List.mem_append_left _ hm

/-- dropping all entries whose edge fails a test -/
theorem FrzE.filter (c : ECol) (f : Edge → Bool) : FrzE c (c.filter (fun p => f p.1)) := by
  refine ⟨(c.map (·.1)).filter (fun e => !f e), [], ?_, fun p hp => by cases hp⟩
  rw [List.append_nil]
  unfold dropE
  apply List.filter_congr
  intro p hp
  by_cases h : f p.1 = true
  · simp [h]
  · have h' : f p.1 = false := by simpa using h
    simp only [h', List.contains_eq_mem, List.mem_filter, List.mem_map, Bool.not_false, and_true,
      decide_eq_true_eq, Bool.false_eq, Bool.not_eq_eq_eq_not, Bool.not_false]
    exact ⟨p, hp, rfl⟩

theorem FrzE.push (c : ECol) (e : Edge) (v : Option Val) (h : e ∉ c.map (·.1)) : FrzE c (c ++ [(e, v)]) := by
  refine ⟨[], [(e, v)], by rw [dropE_nil], ?_⟩
  intro p hp
  rw [List.mem_singleton.1 hp, dropE_nil]
  exact h

/-- `k` is not the key the edge annotator currently writes -/
def IouOff (k : Key) (s : St) : Prop := ¬(s.iouKey = some k ∧ s.iouActive = true)

instance (k : Key) (s : St) : Decidable (IouOff k s) := by unfold IouOff; infer_instance

def FzEPre (k : Key) (s : St) : PCmd → Prop
  | .addEdge e a => alook k a = none ∨ s.hasEdge e = false
  | _ => True

instance (k : Key) (s : St) (c : PCmd) : Decidable (FzEPre k s c) := by
  cases c <;> unfold FzEPre <;> infer_instance

theorem ecol_congr {k : Key} {s s' : St} (h : s'.edges = s.edges) : ecol k s' = ecol k s := by
  unfold ecol; rw [h]

theorem ecol_setEdgeAttr {k k' : Key} (h : k ≠ k') (s : St) (e : Edge) (v : Val) :
    ecol k (s.setEdgeAttr e k' v) = ecol k s := by
  unfold ecol setEdgeAttr
  simp only [List.map_map]
  apply List.map_congr_left
  intro r _
  simp only [Function.comp]
  split
  · simp only [alook_aset_ne h]
  · rfl

theorem ecol_iouUpdateEdge {k : Key} {s : St} (h : IouOff k s) (e : Edge) :
    ecol k (s.iouUpdateEdge e) = ecol k s := by
  unfold iouUpdateEdge
  split
  · rename_i k' hk'
    split
    · rename_i hact
      apply ecol_setEdgeAttr
      intro hkk
      apply h
      simp only [Bool.and_eq_true] at hact
      exact ⟨by rw [hk', hkk], hact.1⟩
    · rfl
  · rfl

theorem iouOff_iouUpdateEdge {k : Key} {s : St} (h : IouOff k s) (e : Edge) : IouOff k (s.iouUpdateEdge e) := by
  unfold IouOff; rw [iouUpdateEdge_iouKey, iouUpdateEdge_iouActive]; exact h

theorem ecol_foldl_iouUpdateEdge {k : Key} (es : List Edge) {s : St} (h : IouOff k s) :
    ecol k (es.foldl iouUpdateEdge s) = ecol k s := by
  induction es generalizing s with
  | nil => rfl
  | cons e es ih => rw [List.foldl_cons, ih (iouOff_iouUpdateEdge h e), ecol_iouUpdateEdge h]

theorem iouOff_of_cfg {k : Key} {s t : St} (hc : t.cfg = s.cfg) (h : IouOff k s) : IouOff k t := by
  unfold IouOff; rw [iouKey_of_cfg hc, iouActive_of_cfg hc]; exact h

theorem ecol_addEdgeRaw_old {k : Key} {s : St} {e : Edge} {a : List (Key × Val)} (hq : alook k a = none)
    (hh : s.hasEdge e = true) : ecol k (s.addEdgeRaw e a) = ecol k s := by
  unfold addEdgeRaw ecol
  rw [if_pos hh]
  simp only [List.map_map]
  apply List.map_congr_left
  intro r _
  simp only [Function.comp]
  split
  · simp only [alook_amerge_none hq]
  · rfl

theorem ecol_addEdgeRaw_new {k : Key} {s : St} {e : Edge} {a : List (Key × Val)}
    (hh : s.hasEdge e = false) : ecol k (s.addEdgeRaw e a) = ecol k s ++ [(e, alook k a)] := by
  unfold addEdgeRaw ecol
  simp [hh]

theorem not_mem_ecol_of_hasEdge_false {k : Key} {s : St} {e : Edge} (hh : s.hasEdge e = false) :
    e ∉ (ecol k s).map (·.1) := by
  intro hm
  simp only [ecol, List.map_map, List.mem_map, Function.comp] at hm
  obtain ⟨r, hr, hre⟩ := hm
  have : s.hasEdge e = true := by
    simp only [hasEdge, List.any_eq_true]
    exact ⟨r, hr, by simp [hre]⟩
  rw [hh] at this; cases this

theorem fzE_prim {k : Key} {c0 : ECol} {s s' : St} {c : PCmd} {r : PrimRec}
    (hJ : IouOff k s ∧ FrzE c0 (ecol k s)) (hpre : FzEPre k s c) (h : c.run s = .ok (s', r)) :
    (IouOff k s' ∧ FrzE c0 (ecol k s')) ∧ FzEPre k s' (invCmd r) := by
  obtain ⟨hoff, hfz⟩ := hJ
  cases c with
  | addEdge e a =>
    have hc := cfg_pAddEdge h
    obtain ⟨-, -, hrec, rfl⟩ := pAddEdge_ok_sg h
    have hoff1 : IouOff k (s.addEdgeRaw e a) := by
      unfold IouOff; rw [addEdgeRaw_iouKey, addEdgeRaw_iouActive]; exact hoff
    refine ⟨⟨iouOff_of_cfg hc hoff, ?_⟩, by rw [hrec]; trivial⟩
    rw [ecol_iouUpdateEdge hoff1]
    cases hh : s.hasEdge e with
    | true =>
      have hq : alook k a = none := by
        rcases hpre with hq | hq
        · exact hq
        · rw [hh] at hq; cases hq
      rw [ecol_addEdgeRaw_old hq hh]; exact hfz
    | false =>
      rw [ecol_addEdgeRaw_new hh]
      exact hfz.trans (FrzE.push _ _ _ (not_mem_ecol_of_hasEdge_false hh))
  | delEdge e =>
    have hc := cfg_pDelEdge h
    obtain ⟨-, -, e3, saved, hrec⟩ := shape_pDelEdge h
    refine ⟨⟨iouOff_of_cfg hc hoff, ?_⟩, ?_⟩
    · have : ecol k s' = (ecol k s).filter (fun p => p.1 != e) := by
        unfold ecol; rw [e3, List.filter_map]; rfl
      rw [this]; exact hfz.trans (FrzE.filter _ (fun x => x != e))
    · rw [hrec]
      show alook k saved = none ∨ s'.hasEdge e = false
      right
      simp only [hasEdge, e3]
      rw [Bool.eq_false_iff]
      intro hany
      simp only [List.any_eq_true, List.mem_filter] at hany
      obtain ⟨x, ⟨-, hx1⟩, hx2⟩ := hany
      simp only [bne_iff_ne, ne_eq] at hx1
      exact hx1 (by simpa using hx2)
  | addNode nr px =>
    have hc := cfg_pAddNode h
    obtain ⟨hrec, -, rfl⟩ := pAddNode_ok_sg h
    refine ⟨⟨iouOff_of_cfg hc hoff, ?_⟩, by rw [hrec]; trivial⟩
    have : (((s.paintWith px nr.id).addNodeRaw nr).rpUpdate nr.id |>.trackAdd nr.id).edges = s.edges := by
      rw [(Fr.trackAdd _ _).edges, rpUpdate_edges]
      unfold addNodeRaw; split <;> simp [updNode]
    rw [ecol_congr this]; exact hfz
  | delNode n px =>
    have hc := cfg_pDelNode h
    obtain ⟨r0, -, hrec, -, -, -, e4⟩ := shape_pDelNode h
    refine ⟨⟨iouOff_of_cfg hc hoff, ?_⟩, by rw [hrec]; trivial⟩
    have : ecol k s' = (ecol k s).filter (fun p => p.1.1 != n && p.1.2 != n) := by
      unfold ecol; rw [e4, List.filter_map]; rfl
    rw [this]; exact hfz.trans (FrzE.filter _ (fun x => x.1 != n && x.2 != n))
  | updTid st t l =>
    have hc := cfg_pUpdTid h
    obtain ⟨a, b, c', d, hrec⟩ := rec_pUpdTid h
    refine ⟨⟨iouOff_of_cfg hc hoff, ?_⟩, by rw [hrec]; trivial⟩
    rw [ecol_congr (Fr.pUpdTid h).edges]; exact hfz
  | updSeg n ps added =>
    have hc := cfg_pUpdSeg h
    obtain ⟨g, -, -, hrec, rfl⟩ := pUpdSeg_ok_sg h
    refine ⟨⟨iouOff_of_cfg hc hoff, ?_⟩, by rw [hrec]; trivial⟩
    have hoff1 : IouOff k ((s.withSeg (g.setPixels ps (if added then n else 0))).rpUpdate n) := by
      unfold IouOff; rw [rpUpdate_iouKey, rpUpdate_iouActive]; exact hoff
    rw [iouUpdateNode_eq, ecol_foldl_iouUpdateEdge _ hoff1, ecol_congr (rpUpdate_edges _ _)]
    exact hfz
  | updAttrs n a =>
    have hc := cfg_pUpdAttrs h
    obtain ⟨he, prev, hrec⟩ := edges_pUpdAttrs h
    refine ⟨⟨iouOff_of_cfg hc hoff, ?_⟩, by rw [hrec]; trivial⟩
    rw [ecol_congr he]; exact hfz

theorem ecol_enableRecompute {k : Key} {s1 : St} (ks : List Key)
    (hk : s1.iouKey = some k → k ∉ ks) : ecol k (enableRecompute s1 ks) = ecol k s1 := by
  unfold enableRecompute
  simp only
  have e2 : ecol k (s1.rpCompute ks) = ecol k s1 := ecol_congr (rpCompute_frame s1 ks).2.2
  have k2 : (s1.rpCompute ks).iouKey = s1.iouKey := iouKey_of_cfg (cfg_rpCompute _ _)
  generalize s1.rpCompute ks = s2 at e2 k2 ⊢
  have e3 : ecol k (if (match s1.iouKey with | some k => ks.contains k | none => false) = true
      then s2.iouCompute else s2) = ecol k s1 := by
    cases hb : (match s1.iouKey with | some k => ks.contains k | none => false) with
    | false => simp only [Bool.false_eq_true, if_false]; exact e2
    | true =>
      simp only [if_true]
      have hoff : IouOff k s2 := by
        intro hh
        rw [k2] at hh
        have := hk hh.1
        rw [hh.1] at hb
        simp only [List.contains_eq_mem, decide_eq_true_eq] at hb
        exact this hb
      unfold iouCompute
      rw [ecol_foldl_iouUpdateEdge _ hoff]; exact e2
  generalize (if (match s1.iouKey with | some k => ks.contains k | none => false) = true
      then s2.iouCompute else s2) = s3 at e3 ⊢
  have e4 : ecol k (if ks.contains keyTid = true then s3.assignTracklets else s3) = ecol k s1 := by
    split
    · rw [ecol_congr (Fr.assignTracklets s3).edges]; exact e3
    · exact e3
  generalize (if ks.contains keyTid = true then s3.assignTracklets else s3) = s4 at e4 ⊢
  split
  · rw [ecol_congr (Fr.assignLineages s4).edges]; exact e4
  · exact e4

theorem fzE_enable {k : Key} {c0 : ECol} {s s' : St} {ks : List Key} {rc : Bool}
    (hJ : IouOff k s ∧ FrzE c0 (ecol k s)) (hk : s.iouKey = some k → k ∉ ks)
    (h : s.enable ks rc = some s') : IouOff k s' ∧ FrzE c0 (ecol k s') := by
  cases hany : ks.any (fun k => !(s.annotKeys.contains k)) with
  | true => rw [enable_none s ks rc hany] at h; cases h
  | false =>
    rw [enable_eq s ks rc hany] at h
    injection h with h
    subst h
    have h1 : IouOff k (enableReg s ks) := by
      intro hh
      have hkey : s.iouKey = some k := hh.1
      have hks := hk hkey
      apply hJ.1
      refine ⟨hkey, ?_⟩
      have := hh.2
      simpa [enableReg, hkey, hks] using this
    cases rc with
    | false => exact ⟨h1, hJ.2⟩
    | true =>
      show IouOff k (enableRecompute (enableReg s ks) ks) ∧ _
      have hr := reg_enableRecompute (enableReg s ks) ks
      simp only [reg, Prod.mk.injEq] at hr
      refine ⟨by unfold IouOff; rw [hr.2.2.2.1, hr.2.2.2.2.1]; exact h1, ?_⟩
      show FrzE c0 (ecol k (enableRecompute (enableReg s ks) ks))
      rw [ecol_enableRecompute ks (s1 := enableReg s ks) hk]; exact hJ.2

theorem fzE_disable {k : Key} {c0 : ECol} {s s' : St} {ks : List Key}
    (hJ : IouOff k s ∧ FrzE c0 (ecol k s)) (h : s.disable ks = some s') :
    IouOff k s' ∧ FrzE c0 (ecol k s') := by
  unfold St.disable at h
  split at h
  · cases h
  · injection h with h
    subst h
    refine ⟨?_, hJ.2⟩
    intro hh
    apply hJ.1
    have hkey : s.iouKey = some k := hh.1
    refine ⟨hkey, ?_⟩
    have ha := hh.2
    change (match s.iouKey with
      | some k => if ks.contains k = true then false else s.iouActive
      | none => s.iouActive) = true at ha
    rw [hkey] at ha
    simp only at ha
    split at ha
    · cases ha
    · exact ha

theorem closedFzE (k : Key) (c0 : ECol) :
    Closed (fun s => IouOff k s ∧ FrzE c0 (ecol k s)) (FzEPre k)
      (fun s ks _ => s.iouKey = some k → k ∉ ks) (fun _ _ => True) where
  prim := fun hJ hp h => fzE_prim hJ hp h
  enable := fun hJ hp h => fzE_enable hJ hp h
  disable := fun hJ _ h => fzE_disable hJ h

end Ft.R6P
