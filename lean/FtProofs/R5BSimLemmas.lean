/-
  FtProofs.R5BSimLemmas — package R5B, part B3: every composite user action, the commit of a
  top-level action, the paint protocol, undo and redo **commute with the annotation-free core**
  `coreWith A` on states with an array, for every key set `A` of protected keys.

  Side conditions (`IA A`): the state has an array (so every recorded `DeleteNode` carries its
  pixels and the `pixels = None` validation of `AddNode` never decides) and the keys of `A` are
  protected (so `UpdateNodeAttrs` never writes them).  Both are kept by every primitive, hence
  available at every intermediate state of a composite (`closedA`, via `Pz`).
-/
import FtProofs.R5BCoreLemmas
import FtProofs.R5BGenLemmas
namespace Ft.R5B
open Ft Ft.St List

/-! ### the side conditions are primitive-closed -/

def IA (A : List Key) (s : St) : Prop := s.seg.isSome = true ∧ PA A s

theorem paintWith_isSome {s : St} (h : s.seg.isSome = true) (px : Option (List Pix)) (v : Nat) :
    (s.paintWith px v).seg.isSome = true := by
  unfold paintWith
  cases px with
  | none => exact h
  | some p =>
    cases hg : s.seg with
    | none => rw [hg] at h; cases h
    | some g => rfl

theorem addNodeRaw_seg' (s : St) (r : NodeRec) : (s.addNodeRaw r).seg = s.seg := by
  unfold addNodeRaw; split <;> rfl

theorem closedA (A : List Key) : PrimClosed (IA A) PxOK where
  recQ := fun _ => trivial
  qnil := trivial
  addNode := by
    intro s s' r px rec hI _ h
    obtain ⟨hr, -, hs⟩ := pAddNode_ok_sg h
    refine ⟨⟨?_, PA_of_cfg (cfg_pAddNode h) hI.2⟩, by rw [hr]; trivial⟩
    rw [hs, (Fr.trackAdd _ _).seg, rpUpdate_seg, addNodeRaw_seg']
    exact paintWith_isSome hI.1 _ _
  delNode := by
    intro s s' n px rec hI h
    obtain ⟨r, hf, hr, hs⟩ := pDelNode_ok_sg h
    refine ⟨⟨?_, PA_of_cfg (cfg_pDelNode h) hI.2⟩, ?_⟩
    · rw [hs, (Fr.trackOnDelete _ _).seg]
      show (s.paintWith _ 0).seg.isSome = true
      exact paintWith_isSome hI.1 _ _
    · rw [hr]
      show (s.delPixels n px).isSome = true
      unfold delPixels
      cases px with
      | some p => rfl
      | none =>
        show (s.getPixels n).isSome = true
        unfold getPixels timeOf
        rw [hf]
        cases hg : s.seg with
        | none => have := hI.1; rw [hg] at this; cases this
        | some g => rfl
  addEdge := by
    intro s s' e at_ rec hI h
    obtain ⟨-, -, hr, hs⟩ := pAddEdge_ok_sg h
    refine ⟨⟨?_, PA_of_cfg (cfg_pAddEdge h) hI.2⟩, by rw [hr]; trivial⟩
    rw [hs, iouUpdateEdge_seg, addEdgeRaw_seg]; exact hI.1
  delEdge := by
    intro s s' e rec hI h
    refine ⟨⟨?_, PA_of_cfg (cfg_pDelEdge h) hI.2⟩, ?_⟩
    · rw [pDelEdge_ok_sg h]; exact hI.1
    · unfold pDelEdge at h
      split at h
      · cases h
      · injection h with h; injection h with _ h; rw [← h]; trivial
  updTid := by
    intro s s' n t l rec hI h
    refine ⟨⟨by rw [(Fr.pUpdTid h).seg]; exact hI.1, PA_of_cfg (cfg_pUpdTid h) hI.2⟩, ?_⟩
    unfold pUpdTid at h
    split at h
    · cases h
    · injection h with h; injection h with _ h; rw [← h]; trivial
  updSeg := by
    intro s s' n px b rec hI h
    obtain ⟨g, -, -, hr, hs⟩ := pUpdSeg_ok_sg h
    refine ⟨⟨?_, PA_of_cfg (cfg_pUpdSeg h) hI.2⟩, by rw [hr]; trivial⟩
    rw [hs, iouUpdateNode_seg, rpUpdate_seg]; rfl
  updAttrs := by
    intro s s' n at_ rec hI h
    refine ⟨⟨by rw [(R2G.Fs.pUpdAttrs h).seg]; exact hI.1, PA_of_cfg (cfg_pUpdAttrs h) hI.2⟩, ?_⟩
    unfold pUpdAttrs at h
    split at h
    · cases h
    · split at h
      · cases h
      · injection h with h; injection h with _ h; rw [← h]; trivial
  nbrs := by
    intro s tid time hI
    exact ⟨by rw [(Fr.trackNeighbors s tid time).seg]; exact hI.1,
      PA_of_cfg (cfg_trackNeighbors s tid time) hI.2⟩

/-! ### `thenPrim` / `thenUser` with the same function on both sides -/

theorem thenPrim_lift {A : List Key} {acc : UOut} {f : St → Except Err (St × PrimRec)}
    (hf : ∀ st, f (coreWith A st) = liftP A (f st)) :
    St.thenPrim (liftU A acc) f = liftU A (St.thenPrim acc f) := thenPrim_lift_at (hf acc.1)

theorem thenUser_lift {A : List Key} {acc : UOut} {f : St → UOut}
    (hf : ∀ st, f (coreWith A st) = liftU A (f st)) :
    St.thenUser (liftU A acc) f = liftU A (St.thenUser acc f) := thenUser_lift_at (hf acc.1)

/-- the primitive calls inside the user actions whose arguments are read from the state -/
theorem coreP_updTid_next (A : List Key) (n : Node) (st : St) :
    (coreWith A st).pUpdTid n (coreWith A st).nextTid (some (coreWith A st).nextLin) =
      liftP A (st.pUpdTid n st.nextTid (some st.nextLin)) := by
  rw [cw_nextTid, cw_nextLin]; exact core_pUpdTid A st _ _ _

theorem coreP_updTid_next' (A : List Key) (n : Node) (st : St) :
    (coreWith A st).pUpdTid n (coreWith A st).nextTid none = liftP A (st.pUpdTid n st.nextTid none) := by
  rw [cw_nextTid]; exact core_pUpdTid A st _ _ _

theorem coreP_updTid_tidOf (A : List Key) (m n : Node) (l : St → Option Nat)
    (hl : ∀ st, l (coreWith A st) = l st) (st : St) :
    (match (coreWith A st).tidOf m with
      | some t => (coreWith A st).pUpdTid n t (l (coreWith A st))
      | none => .error .key) =
    liftP A (match st.tidOf m with
      | some t => st.pUpdTid n t (l st)
      | none => .error .key) := by
  rw [cw_tidOf, hl]
  cases st.tidOf m with
  | none => rfl
  | some t => exact core_pUpdTid A st _ _ _

theorem coreP_addEdge_nil (A : List Key) (e : Edge) (st : St) :
    (coreWith A st).pAddEdge e [] = liftP A (st.pAddEdge e []) := core_pAddEdge A st e []

/-! ### `uDeleteEdge` -/

theorem udeRest_lift (A : List Key) (e : Edge) (a : UOut) :
    R3D.udeRest e (liftU A a) = liftU A (R3D.udeRest e a) := by
  unfold R3D.udeRest
  simp only [liftU_fst, cw_outdeg, cw_succs]
  by_cases h0 : (a.1.outdeg e.1 == 0) = true
  · simp only [h0, if_true]
    exact thenPrim_lift (coreP_updTid_next A _)
  · simp only [h0, Bool.false_eq_true, if_false]
    by_cases h1 : (a.1.outdeg e.1 == 1) = true
    · simp only [h1, if_true]
      cases (a.1.succs e.1).head? with
      | none => rfl
      | some sib =>
        simp only
        rw [thenPrim_lift (coreP_updTid_tidOf A _ _ (fun _ => none) (fun _ => rfl)),
          thenPrim_lift (coreP_updTid_tidOf A _ _ (fun st => some st.nextLin) (fun _ => rfl))]
    · simp only [h1, Bool.false_eq_true, if_false]; rfl

theorem core_uDeleteEdge (A : List Key) (e : Edge) (st : St) :
    (coreWith A st).uDeleteEdge e = liftU A (st.uDeleteEdge e) := by
  rw [R3D.uDeleteEdge_def, R3D.uDeleteEdge_def, cw_hasEdge]
  by_cases h : (!(st.hasEdge e)) = true
  · simp only [h, if_true]; rfl
  · simp only [h, Bool.false_eq_true, if_false]
    rw [← udeRest_lift, ← thenPrim_lift (acc := (st, .ok [])) (fun st => core_pDelEdge A st e)]
    rfl

/-! ### `uDeleteNode` -/

theorem udnA0_lift (A : List Key) (s : St) (n : Node) : udnA0 (coreWith A s) n = liftU A (udnA0 s n) := by
  unfold St.udnA0
  rw [cw_preds]
  refine foldl_lift (A := A) _ _ ?_ (s.preds n) (s, .ok [])
  intro acc p
  simp only [liftU_fst, liftU_snd, cw_succs]
  rcases h2 : acc.2 with e | recs
  · simp only [liftU, liftR, h2]
  · simp only [liftR]
    rw [← thenPrim_lift (fun st => core_pDelEdge A st (p, n))]
    congr 1
    by_cases hl : ((acc.1.succs p).length == 2) = true
    · simp only [hl, if_true]
      cases ((acc.1.succs p).erase n).head? with
      | none => rfl
      | some sib =>
        exact thenPrim_lift (coreP_updTid_tidOf A _ _ (fun _ => none) (fun _ => rfl))
    · simp only [hl, Bool.false_eq_true, if_false]

theorem udnA1_lift (A : List Key) (a0 : UOut) (n : Node) :
    udnA1 (liftU A a0) n = liftU A (udnA1 a0 n) := by
  unfold St.udnA1
  rw [liftU_fst, cw_succs]
  refine foldl_lift (A := A) _ _ ?_ _ a0
  intro acc c
  exact thenPrim_lift (fun st => core_pDelEdge A st (n, c))

theorem udnA3_lift (A : List Key) (a2 : UOut) (o : List Node) (hp : Bool) :
    udnA3 (liftU A a2) o hp = liftU A (udnA3 a2 o hp) := by
  unfold St.udnA3
  refine foldl_lift (A := A) _ _ ?_ _ a2
  intro acc io
  by_cases h : (hp || decide (io.1 > 0)) = true
  · simp only [h, if_true]
    exact thenPrim_lift (coreP_updTid_tidOf A _ _ (fun st => some st.nextLin) (fun _ => rfl))
  · simp only [h, Bool.false_eq_true, if_false]

theorem udnA2_lift (A : List Key) (a1 : UOut) (pred succ : Option Node) (o : List Node) :
    udnA2 (liftU A a1) pred succ o = (liftU A (udnA2 a1 pred succ o).1, (udnA2 a1 pred succ o).2) := by
  unfold St.udnA2
  cases pred with
  | none => rfl
  | some p =>
    cases succ with
    | none => rfl
    | some sc =>
      simp only
      rw [thenPrim_lift (coreP_addEdge_nil A (p, sc))]

theorem udnTail_lift (A : List Key) (a1 : UOut) (n : Node) (px : Option (List Pix)) (hp : Bool)
    (o : List Node) :
    udnTail (liftU A a1) n px hp o = liftU A (udnTail a1 n px hp o) := by
  unfold St.udnTail
  simp only [liftU_fst, liftU_snd, cw_tidOf, cw_timeOf]
  rcases h2 : a1.2 with e | recs
  · simp only [liftR]; rfl
  · simp only [liftR]
    cases a1.1.tidOf n with
    | none => rfl
    | some tid =>
      cases a1.1.timeOf n with
      | none => rfl
      | some time =>
        simp only [cw_trackNeighbors]
        have e1 : ((coreWith A (a1.1.trackNeighbors tid time).1, Except.ok (coreA A recs)) : UOut) =
            liftU A ((a1.1.trackNeighbors tid time).1, a1.2) := by rw [h2]; rfl
        rw [← h2, e1, udnA2_lift]
        simp only
        rw [udnA3_lift, thenPrim_lift (fun st => core_pDelNode A st n px)]

theorem core_uDeleteNode (A : List Key) (n : Node) (px : Option (List Pix)) (s : St) :
    (coreWith A s).uDeleteNode n px = liftU A (s.uDeleteNode n px) := by
  rw [uDeleteNode_eq_sg, uDeleteNode_eq_sg]
  simp only [cw_hasNode, cw_preds, udnA0_lift, liftU_fst, liftU_snd, cw_succs]
  by_cases hn : (!(s.hasNode n)) = true
  · simp only [hn, if_true]; rfl
  · simp only [hn, Bool.false_eq_true, if_false]
    rcases h0 : (udnA0 s n).2 with e | recs0
    · rfl
    · simp only [liftR]
      rw [udnA1_lift, udnTail_lift]

/-! ### `uAddEdge` -/

theorem addEdgePre_lift (A : List Key) (s : St) (e : Edge) (force : Bool) :
    addEdgePre (coreWith A s) e force = liftU A (addEdgePre s e force) := by
  unfold St.addEdgePre
  simp only [cw_indeg, cw_preds]
  by_cases h : s.indeg e.2 > 0
  · simp only [h, if_true]
    cases force with
    | false => rfl
    | true =>
      simp only [Bool.not_true, Bool.false_eq_true, if_false]
      cases (s.preds e.2).head? with
      | none => rfl
      | some p => exact thenUser_lift (acc := (s, .ok [])) (fun st => core_uDeleteEdge A (p, e.2) st)
  · simp only [h, if_false]; rfl

theorem addEdgeTail_lift {A : List Key} {a0 : UOut} (hI : IA A a0.1) {recs0 : List PrimRec}
    (hp : ∀ r ∈ recs0, PxOK r) (e : Edge) :
    addEdgeTail (liftU A a0) (coreA A recs0) e = liftU A (addEdgeTail a0 recs0 e) := by
  unfold St.addEdgeTail
  simp only [liftU_fst, cw_outdeg, cw_succs]
  rw [← thenPrim_lift (coreP_addEdge_nil A e)]
  congr 1
  by_cases h0 : (a0.1.outdeg e.1 == 0) = true
  · simp only [h0, if_true]
    exact thenPrim_lift (coreP_updTid_tidOf A _ _ (fun st => st.linOf e.1) (fun st => cw_linOf A st _))
  · simp only [h0, Bool.false_eq_true, if_false]
    by_cases h1 : (a0.1.outdeg e.1 == 1) = true
    · simp only [h1, if_true]
      cases (a0.1.succs e.1).head? with
      | none => rfl
      | some succ =>
        simp only
        rw [thenPrim_lift (coreP_updTid_next' A succ),
          thenPrim_lift (coreP_updTid_tidOf A _ _ (fun st => st.linOf e.1) (fun st => cw_linOf A st _))]
    · simp only [h1, Bool.false_eq_true, if_false]
      rw [core_rollback hI.2 recs0 hp]
      rfl

theorem core_uAddEdge {A : List Key} {s : St} (hI : IA A s) (e : Edge) (force : Bool) :
    (coreWith A s).uAddEdge e force = liftU A (s.uAddEdge e force) := by
  rw [uAddEdge_eq, uAddEdge_eq]
  simp only [cw_hasNode, cw_timeOf, addEdgePre_lift, liftU_fst, liftU_snd]
  by_cases h1 : (!(s.hasNode e.1)) = true
  · simp only [h1, if_true]; rfl
  · simp only [h1, Bool.false_eq_true, if_false]
    by_cases h2 : (!(s.hasNode e.2)) = true
    · simp only [h2, if_true]; rfl
    · simp only [h2, Bool.false_eq_true, if_false]
      by_cases h3 : (s.timeOf e.1).getD 0 ≥ (s.timeOf e.2).getD 0
      · simp only [h3, if_true]; rfl
      · simp only [h3, if_false]
        have hz := Pz.addEdgePre (closedA A) hI e force
        rcases h0 : (addEdgePre s e force).2 with err | recs0
        · rfl
        · simp only [liftR]
          exact addEdgeTail_lift hz.1 (hz.2 recs0 h0) e

/-! ### `uAddNode` -/

/-- the caller's attributes without the annotators' keys -/
def coreArgs (A : List Key) (a : AddNodeArgs) : AddNodeArgs := { a with other := strip A a.other }

theorem uanSucc_lift (A : List Key) (sN : St) (succ : Option Node) (force : Bool) :
    uanSucc (coreWith A sN) succ force = liftU A (uanSucc sN succ force) := by
  unfold St.uanSucc
  cases succ with
  | none => rfl
  | some sc =>
    simp only [cw_preds, cw_outdeg]
    cases (sN.preds sc).head? with
    | none => rfl
    | some pos =>
      simp only
      by_cases h : (sN.outdeg pos == 2) = true
      · simp only [h, if_true]
        cases force with
        | false => rfl
        | true =>
          simp only [Bool.not_true, Bool.false_eq_true, if_false]
          exact thenUser_lift (acc := (sN, .ok [])) (fun st => core_uDeleteEdge A (pos, sc) st)
      · simp only [h, Bool.false_eq_true, if_false]; rfl

theorem uanDiv_lift (A : List Key) (sN : St) (pred succ : Option Node) (force : Bool) :
    uanDiv (coreWith A sN) pred succ force = liftU A (uanDiv sN pred succ force) := by
  unfold St.uanDiv
  cases pred with
  | none => exact uanSucc_lift A sN succ force
  | some p =>
    simp only [cw_outdeg, cw_succs]
    by_cases h : (sN.outdeg p == 2) = true
    · simp only [h, if_true]
      cases force with
      | false => rfl
      | true =>
        simp only [Bool.not_true, Bool.false_eq_true, if_false]
        rcases hs : sN.succs p with _ | ⟨c1, _ | ⟨c2, _ | ⟨c3, r⟩⟩⟩
        · rfl
        · rfl
        · simp only
          rw [← liftU_start, thenUser_lift (fun st => core_uDeleteEdge A (p, c1) st),
            thenUser_lift (fun st => core_uDeleteEdge A (p, c2) st)]
        · rfl
    · simp only [h, Bool.false_eq_true, if_false]
      exact uanSucc_lift A sN succ force

theorem uanLin_cw (A : List Key) (a : AddNodeArgs) (s0 : St) (pred succ : Option Node) :
    uanLin (coreArgs A a) (coreWith A s0) pred succ = uanLin a s0 pred succ := by
  unfold St.uanLin
  show (match a.lin with | some l => _ | none => _) = _
  cases a.lin with
  | some l => rfl
  | none =>
    cases pred <;> cases succ <;> simp only [cw_linOf, cw_nextLin]

theorem uanA1_lift (A : List Key) (a0 : UOut) (pred succ : Option Node) :
    R2G.uanA1 (liftU A a0) pred succ = liftU A (R2G.uanA1 a0 pred succ) := by
  unfold R2G.uanA1
  cases pred with
  | none => rfl
  | some p =>
    cases succ with
    | none => rfl
    | some sc => exact thenPrim_lift (fun st => core_pDelEdge A st (p, sc))

theorem uanEdges_lift (A : List Key) (a : AddNodeArgs) (pred succ : Option Node) (a2 : UOut) :
    uanEdges (coreArgs A a) pred succ (liftU A a2) = liftU A (uanEdges a pred succ a2) := by
  unfold St.uanEdges
  show (match succ with | some sc => _ | none => _) = _
  cases pred with
  | none =>
    cases succ with
    | none => rfl
    | some sc => exact thenPrim_lift (coreP_addEdge_nil A (a.node, sc))
  | some p =>
    cases succ with
    | none => exact thenPrim_lift (coreP_addEdge_nil A (p, a.node))
    | some sc =>
      simp only
      rw [show (coreArgs A a).node = a.node from rfl,
        thenPrim_lift (coreP_addEdge_nil A (p, a.node)), thenPrim_lift (coreP_addEdge_nil A (a.node, sc))]

theorem Pz.uanA1 {A : List Key} {a0 : UOut} (h : Pz (IA A) PxOK a0) (pred succ : Option Node) :
    Pz (IA A) PxOK (R2G.uanA1 a0 pred succ) := by
  unfold R2G.uanA1
  split
  · exact Pz.thenPrim h (fun st st' r hI hh => (closedA A).delEdge hI hh)
  · exact h

theorem uanRest_lift {A : List Key} (a : AddNodeArgs) (hpx : a.pixels.isSome = true) (time tid : Nat)
    (pred succ : Option Node) {a0 : UOut} (h0 : Pz (IA A) PxOK a0) :
    uanRest (coreArgs A a) time tid pred succ (liftU A a0) = liftU A (uanRest a time tid pred succ a0) := by
  rw [R2G.uanRest_eq, R2G.uanRest_eq]
  simp only [liftU_fst, liftU_snd, uanA1_lift, uanLin_cw]
  rcases h2 : a0.2 with err | recs
  · rfl
  · simp only [liftR]
    have h1 := Pz.uanA1 h0 pred succ
    rcases h3 : (R2G.uanA1 a0 pred succ).2 with err | recs1
    · rfl
    · simp only
      have hc := core_pAddNode A (R2G.uanA1 a0 pred succ).1
        ⟨a.node, time, tid, uanLin a a0.1 pred succ, a.other⟩ a.pixels (Or.inl hpx)
      have hc' : (coreWith A (R2G.uanA1 a0 pred succ).1).pAddNode
          ⟨(coreArgs A a).node, time, tid, uanLin a a0.1 pred succ, (coreArgs A a).other⟩ (coreArgs A a).pixels =
          liftP A ((R2G.uanA1 a0 pred succ).1.pAddNode ⟨a.node, time, tid, uanLin a a0.1 pred succ, a.other⟩ a.pixels) := hc
      rw [hc']
      rcases h4 : (R2G.uanA1 a0 pred succ).1.pAddNode ⟨a.node, time, tid, uanLin a a0.1 pred succ, a.other⟩ a.pixels
        with err | ⟨s2, r⟩
      · simp only [liftP]
        rw [core_rollback h1.1.2 recs1 (h1.2 recs1 h3)]
        rfl
      · simp only [liftP]
        have : ((coreWith A s2, Except.ok (coreA A recs1 ++ [coreR A r])) : UOut) = liftU A (s2, .ok (recs1 ++ [r])) := by
          simp only [liftU, liftR, coreA, List.map_append, List.map_cons, List.map_nil]
        rw [this, uanEdges_lift]

theorem core_uAddNode {A : List Key} {s : St} (hI : IA A s) (a : AddNodeArgs) (hpx : a.pixels.isSome = true) :
    (coreWith A s).uAddNode (coreArgs A a) = liftU A (s.uAddNode a) := by
  rw [uAddNode_eq_sg, uAddNode_eq_sg]
  show (match a.time, a.tid with | none, _ => _ | _, none => _ | some time, some tid0 => _) = _
  cases a.time with
  | none => rfl
  | some time =>
    cases a.tid with
    | none => rfl
    | some tid0 =>
      simp only [cw_hasNode, cw_hasTrackAt, cw_nextTid, cw_trackNeighbors, uanDiv_lift]
      rw [show (coreArgs A a).node = a.node from rfl, show (coreArgs A a).force = a.force from rfl]
      by_cases hn : s.hasNode a.node = true
      · simp only [hn, if_true]; rfl
      · simp only [hn, Bool.false_eq_true, if_false]
        apply uanRest_lift a hpx
        have hN := (closedA A).nbrs s (if s.hasTrackAt tid0 time = true then s.nextTid else tid0) time hI
        -- `Pz` of the division checks
        have hD : ∀ (sN : St), IA A sN → ∀ pred succ force, Pz (IA A) PxOK (uanDiv sN pred succ force) := by
          intro sN hsN pred succ force
          have hS : Pz (IA A) PxOK (uanSucc sN succ force) := by
            unfold St.uanSucc
            split
            · split
              · split
                · split
                  · exact Pz.err hsN _
                  · exact Pz.thenUser (Pz.start hsN) (fun st hst => Pz.uDeleteEdge (closedA A) hst _)
                · exact Pz.start hsN
              · exact Pz.start hsN
            · exact Pz.start hsN
          unfold St.uanDiv
          split
          · split
            · split
              · exact Pz.err hsN _
              · split
                · exact Pz.thenUser (Pz.thenUser (Pz.start hsN)
                    (fun st hst => Pz.uDeleteEdge (closedA A) hst _))
                    (fun st hst => Pz.uDeleteEdge (closedA A) hst _)
                · exact Pz.err hsN _
            · exact hS
          · exact hS
        exact hD _ hN _ _ _

/-! ### `uSwap` -/

theorem thenUser_delEdge_lift (A : List Key) (acc : UOut) (e : Edge) :
    St.thenUser (liftU A acc) (fun st => st.uDeleteEdge e) = liftU A (St.thenUser acc (fun st => st.uDeleteEdge e)) :=
  thenUser_lift (fun st => core_uDeleteEdge A e st)

theorem thenUser_addEdge_lift {A : List Key} {acc : UOut} (h : Pz (IA A) PxOK acc) (e : Edge) (f : Bool) :
    St.thenUser (liftU A acc) (fun st => st.uAddEdge e f) = liftU A (St.thenUser acc (fun st => st.uAddEdge e f)) :=
  thenUser_lift_at (core_uAddEdge h.1 e f)

theorem Pz.thenDel {A : List Key} {acc : UOut} (h : Pz (IA A) PxOK acc) (e : Edge) :
    Pz (IA A) PxOK (St.thenUser acc (fun st => st.uDeleteEdge e)) :=
  Pz.thenUser h (fun _ hst => Pz.uDeleteEdge (closedA A) hst _)

theorem Pz.thenAdd {A : List Key} {acc : UOut} (h : Pz (IA A) PxOK acc) (e : Edge) (f : Bool) :
    Pz (IA A) PxOK (St.thenUser acc (fun st => st.uAddEdge e f)) :=
  Pz.thenUser h (fun _ hst => Pz.uAddEdge (closedA A) hst _ _)

theorem swapTail_lift {A : List Key} {s : St} (hI : IA A s) (p1 p2 : Option Node) (n1 n2 : Node) :
    R2G.swapTail (coreWith A s) p1 p2 n1 n2 = liftU A (R2G.swapTail s p1 p2 n1 n2) := by
  unfold R2G.swapTail
  have hs : Pz (IA A) PxOK ((s, .ok []) : UOut) := Pz.start hI
  rw [← liftU_start]
  cases p1 with
  | none =>
    cases p2 with
    | none => rfl
    | some q =>
      simp only
      rw [thenUser_delEdge_lift, thenUser_addEdge_lift (hs.thenDel _)]
  | some p =>
    cases p2 with
    | none =>
      simp only
      rw [thenUser_delEdge_lift, thenUser_addEdge_lift (hs.thenDel _)]
    | some q =>
      simp only
      rw [thenUser_delEdge_lift, thenUser_delEdge_lift, thenUser_addEdge_lift ((hs.thenDel _).thenDel _),
        thenUser_addEdge_lift (((hs.thenDel _).thenDel _).thenAdd _ _)]

theorem swapBad_cw (A : List Key) (s : St) (p : Option Node) (t : Nat) :
    R2G.swapBad (coreWith A s) p t = R2G.swapBad s p t := by
  unfold R2G.swapBad
  cases p with
  | none => rfl
  | some q => simp only [cw_timeOf]

theorem core_uSwap {A : List Key} {s : St} (hI : IA A s) (n1 n2 : Node) :
    (coreWith A s).uSwap n1 n2 = liftU A (s.uSwap n1 n2) := by
  rw [R2G.uSwap_eq, R2G.uSwap_eq]
  simp only [cw_hasNode, cw_preds, cw_timeOf, swapBad_cw, swapTail_lift hI]
  repeat' split
  all_goals rfl

/-! ### `uUpdateSeg` -/

theorem segGrpStep_lift (A : List Key) (acc : UOut) (grp : Grp) :
    segGrpStep (liftU A acc) grp = liftU A (segGrpStep acc grp) := by
  unfold St.segGrpStep
  simp only [liftU_fst, liftU_snd, cw_seg]
  rcases h2 : acc.2 with e | recs
  · simp only [liftU, liftR, h2]
  · simp only [liftR]
    by_cases h0 : (grp.2 == 0) = true
    · simp only [h0, if_true]
    · simp only [h0, Bool.false_eq_true, if_false]
      cases acc.1.seg with
      | none => simp only [liftU, liftR]
      | some g =>
        cases grp.1.head? with
        | none => simp only [liftU, liftR]
        | some p0 =>
          simp only
          split
          · exact thenUser_lift (fun st => core_uDeleteNode A grp.2 (some grp.1) st)
          · exact thenPrim_lift (fun st => core_pUpdSeg A st grp.2 grp.1 false)

theorem Pz.segGrpStep {A : List Key} {acc : UOut} (h : Pz (IA A) PxOK acc) (grp : Grp) :
    Pz (IA A) PxOK (St.segGrpStep acc grp) := by
  unfold St.segGrpStep
  split
  · exact h
  · split
    · exact h
    · split
      · dsimp only
        split
        · exact Pz.thenUser h (fun st hst => Pz.uDeleteNode (closedA A) hst _ _)
        · exact Pz.thenPrim h (fun st st' r hI hh => (closedA A).updSeg hI hh)
      · exact h.toErr _

theorem uusGrow_lift {A : List Key} {a0 : UOut} (h0 : Pz (IA A) PxOK a0) {recs0 : List PrimRec}
    (hr : a0.2 = .ok recs0) (v : Nat) (groups : List Grp) (tid : Nat) (force : Bool) :
    uusGrow (liftU A a0) (coreA A recs0) v groups tid force =
      (liftU A (uusGrow a0 recs0 v groups tid force).1, (uusGrow a0 recs0 v groups tid force).2) := by
  unfold St.uusGrow
  simp only [liftU_fst, cw_seg, cw_hasNode]
  by_cases hc : (v != 0 && !groups.isEmpty) = true
  · simp only [hc, if_true]
    cases hg : a0.1.seg with
    | none => rfl
    | some g =>
      cases hh : (groups.flatMap (·.1)).head? with
      | none => rfl
      | some p0 =>
        simp only
        by_cases hn : a0.1.hasNode v = true
        · simp only [hn, if_true]
          rw [thenPrim_lift (fun st => core_pUpdSeg A st v (groups.flatMap (·.1)) true)]
        · simp only [hn, Bool.false_eq_true, if_false]
          have hx : coreArgs A (⟨v, some (p0 / g.frame), some tid, none, [], some (groups.flatMap (·.1)), force⟩ : AddNodeArgs) =
              ⟨v, some (p0 / g.frame), some tid, none, [], some (groups.flatMap (·.1)), force⟩ := rfl
          have hu := core_uAddNode h0.1
            (⟨v, some (p0 / g.frame), some tid, none, [], some (groups.flatMap (·.1)), force⟩ : AddNodeArgs) rfl
          rw [hx] at hu
          rw [hu]
          have hz := Pz.uAddNode (closedA A) h0.1
            ⟨v, some (p0 / g.frame), some tid, none, [], some (groups.flatMap (·.1)), force⟩ trivial
          generalize a0.1.uAddNode
            ⟨v, some (p0 / g.frame), some tid, none, [], some (groups.flatMap (·.1)), force⟩ = r at hz ⊢
          rcases r with ⟨r1, r2⟩
          cases r2 with
          | error err =>
            simp only [liftU, liftR]
            rw [core_rollback hz.1.2 recs0 (h0.2 recs0 hr)]
          | ok recs' =>
            simp only [liftU, liftR, coreA, List.map_append]
  · simp only [hc, Bool.false_eq_true, if_false]

theorem core_uUpdateSeg {A : List Key} {s : St} (hI : IA A s) (v : Nat) (groups : List Grp) (tid : Nat)
    (force : Bool) :
    (coreWith A s).uUpdateSeg v groups tid force =
      (liftU A (s.uUpdateSeg v groups tid force).1, (s.uUpdateSeg v groups tid force).2) := by
  rw [uUpdateSeg_eq_sg, uUpdateSeg_eq_sg, cw_seg]
  cases hg : s.seg with
  | none => rfl
  | some g =>
    simp only
    rw [← liftU_start, foldl_lift St.segGrpStep St.segGrpStep (segGrpStep_lift A)]
    have hz : Pz (IA A) PxOK (groups.foldl St.segGrpStep (s, .ok [])) :=
      Pz.foldl _ (fun acc x ha => Pz.segGrpStep ha x) _ _ (Pz.start hI)
    rcases h0 : (groups.foldl St.segGrpStep (s, .ok [])).2 with err | recs0
    · simp only [liftU_snd, h0, liftR]; rfl
    · simp only [liftU_snd, h0, liftR]
      exact uusGrow_lift hz h0 v groups tid force

/-! ### `uUpdateAttrs` -/

theorem core_uUpdateAttrs {A : List Key} {s : St} (hI : IA A s) (n : Node) (attrs : List (Key × Val)) :
    (coreWith A s).uUpdateAttrs n attrs = liftU A (s.uUpdateAttrs n attrs) := by
  unfold St.uUpdateAttrs
  rw [← liftU_start]
  exact thenPrim_lift_at (core_pUpdAttrs hI.2 n attrs)

end Ft.R5B
