/-
  FtProofs.R2A2Lemmas — package R2A2: the inverse law of `UpdateTrackIDs` (`pUpdTid`, C01).

  §1  the part of a node record the relabel walk never writes (`strip`), frame lemmas
  §2  the "tracks view" of a state (`TV`: times, track ids, lineage ids as functions, edges as a
      set, lineage switch) and what transfers along it (`Anc`, `tk_SegDown`, out-degree)
  §3  the precondition `UpdPre` of one `UpdateTrackIDs` and the effect of the walk on the view
  §4  the round trip: walk, inverse walk from any view-equal well-formed state, and the symmetric
      record relation `UpdRec`
  §5  from the view to `St.Equiv`: `EquivW` (= `Equiv` between states that are well-formed together),
      `InvLawE`/`ChainE` (the `InvLaw`/`Chain` of InverseLemmas over a parameter relation), the
      record relation `UpdRecF` (invariant under `EquivW`, closed under inversion); sufficient
      conditions for the documented precondition ("fresh", "same id", "id of a segment that is
      not downstream"), and the precondition at the intermediate state of `UserDeleteEdge`
  §6  example states for the property file
  Everything lives in `Ft.R2A2`.
-/
import FtProofs.TrackLemmas
import FtProofs.BookLemmas
import FtProofs.InverseLemmas
open List
namespace Ft.R2A2
open Ft Ft.St

/-! ## §1 what the walk never writes -/

/-- a node record without its track id and lineage id -/
def strip (r : NodeRec) : Node × Nat × List (Key × Val) := (r.id, r.time, r.other)

/-- the node table (in insertion order) without track / lineage ids -/
def nstrip (s : St) : List (Node × Nat × List (Key × Val)) := s.nodes.map strip

theorem nstrip_updNode (s : St) (n : Node) (f : NodeRec → NodeRec) (hf : ∀ r, strip (f r) = strip r) :
    nstrip (s.updNode n f) = nstrip s := by
  unfold nstrip updNode
  simp only [map_map]
  apply map_congr_left
  intro r _
  simp only [Function.comp]
  split
  · exact hf r
  · rfl

theorem nstrip_setTid (s : St) (n : Node) (t : Nat) : nstrip (s.setTid n t) = nstrip s :=
  nstrip_updNode s n _ (fun _ => rfl)

theorem nstrip_setLin (s : St) (n : Node) (l : Option Nat) : nstrip (s.setLin n l) = nstrip s :=
  nstrip_updNode s n _ (fun _ => rfl)

theorem nstrip_visit (old new nl ul) (c : tk_Core) (n : Node) :
    nstrip (tk_visit old new nl ul c n).s = nstrip c.s := by
  unfold tk_visit
  cases ul <;> simp only [Bool.false_eq_true, if_false, if_true] <;> split <;>
    simp only [nstrip_setTid, nstrip_setLin]

theorem nstrip_foldl_visit (old new nl ul) (l : List Node) (c : tk_Core) :
    nstrip (l.foldl (tk_visit old new nl ul) c).s = nstrip c.s := by
  induction l generalizing c with
  | nil => rfl
  | cons x l ih => rw [foldl_cons, ih, nstrip_visit]

/-- the walk rewrites track / lineage ids only: ids, times, every other attribute and the
    insertion order of the node table stay -/
theorem nstrip_walk (s : St) (start : Node) (oT nT : Nat) (oL nL : Option Nat) :
    nstrip (s.walk start oT nT oL nL) = nstrip s := by
  have h := (tk_walk_nodes_edges s start oT nT oL nL).1
  unfold nstrip at *
  rw [h]
  exact nstrip_foldl_visit oT nT nL _ _ ⟨s, true, [], []⟩

/-- a record is determined by `strip`, track id and lineage id -/
theorem rec_ext {r r' : NodeRec} (h1 : strip r = strip r') (h2 : r.tid = r'.tid) (h3 : r.lin = r'.lin) :
    r = r' := by
  cases r; cases r'
  simp only [strip, Prod.mk.injEq] at h1
  simp_all

/-- the `strip` of the record of node `n` -/
def stripOf (s : St) (n : Node) : Option (Node × Nat × List (Key × Val)) := (s.findNode n).map strip

theorem stripOf_of_nstrip {s s' : St} (h : nstrip s' = nstrip s) (n : Node) : stripOf s' n = stripOf s n := by
  have key : ∀ l : List NodeRec, (l.find? (·.id == n)).map strip = (l.map strip).find? (·.1 == n) := by
    intro l
    induction l with
    | nil => rfl
    | cons x l ih =>
      simp only [find?_cons, map_cons]
      have : (strip x).1 = x.id := rfl
      rw [this]
      split
      · rfl
      · exact ih
  unfold stripOf findNode
  rw [key, key]
  unfold nstrip at h
  rw [h]

theorem findNode_eq_iff (s : St) (n : Node) (r : NodeRec) :
    s.findNode n = some r ↔ (stripOf s n = some (strip r) ∧ s.tidOf n = some r.tid ∧ s.linOf n = r.lin) := by
  unfold stripOf tidOf linOf
  constructor
  · intro h; rw [h]; exact ⟨rfl, rfl, rfl⟩
  · rintro ⟨h1, h2, h3⟩
    cases hf : s.findNode n with
    | none => rw [hf] at h1; cases h1
    | some r0 =>
      rw [hf] at h1 h2 h3
      simp only [Option.map_some, Option.some.injEq, Option.bind_some] at h1 h2 h3
      rw [rec_ext h1 h2 h3]

theorem mem_nodes_iff {s : St} (hn : s.ids.Nodup) (r : NodeRec) :
    r ∈ s.nodes ↔ s.findNode r.id = some r := by
  constructor
  · intro hr
    unfold findNode
    have : ∀ l : List NodeRec, (l.map (·.id)).Nodup → r ∈ l → l.find? (·.id == r.id) = some r := by
      intro l
      induction l with
      | nil => intro _ h; cases h
      | cons x l ih =>
        intro hnd hm
        rw [map_cons, nodup_cons] at hnd
        rcases mem_cons.1 hm with rfl | hm'
        · exact find?_cons_of_pos (by simp)
        · have hne : x.id ≠ r.id := by
            intro he
            exact hnd.1 (he ▸ mem_map_of_mem hm')
          rw [find?_cons_of_neg (by simpa using hne)]
          exact ih hnd.2 hm'
    exact this s.nodes hn hr
  · intro h
    unfold findNode at h
    exact mem_of_find?_eq_some h

/-! ### lineage part of the walk when it is switched off -/

theorem walk_lin_off (s : St) (start : Node) (oT nT : Nat) (oL nL : Option Nat)
    (h : (nL.isSome && s.linOn) = false) (n : Node) :
    (s.walk start oT nT oL nL).linOf n = s.linOf n := by
  have hn := (tk_walk_nodes_edges s start oT nT oL nL).1
  have hl := tk_foldl_visit_nolin oT nT nL (tk_bfs s.succs (s.nodes.length + 1) [start])
    ⟨s, true, [], []⟩
  have hcore : s.tk_walkCore start oT nT nL =
      (tk_bfs s.succs (s.nodes.length + 1) [start]).foldl (tk_visit oT nT nL false)
        ⟨s, true, [], []⟩ := by
    unfold tk_walkCore; rw [h]
  rw [tk_linOf_congr hn, hcore]; exact hl.2 n

theorem walk_l2n_off {s : St} (hF : s.Forest) {start : Node} (hs : start ∈ s.ids) (oT nT : Nat)
    (oL nL : Option Nat) (h : (nL.isSome && s.linOn) = false) :
    (s.walk start oT nT oL nL).l2n = s.l2n := by
  obtain ⟨V, hd, _⟩ := PC.walkEnd_inv hF hs oT nT nL
  rcases PC.walk_cases s start oT nT oL nL with ⟨_, e⟩ | ⟨nl, h1, h2, _⟩
  · rw [e]
    show (PC.walkEnd s start oT nT nL).s.l2n = s.l2n
    rw [hd.frame]
  · rw [h1, h2] at h; cases h

/-! ## §2 the tracks view of a state -/

/-- same times, track ids, lineage ids (as functions of the node id), same edge set, same lineage
    switch — everything the relabel walk reads, independent of insertion orders -/
structure TV (a b : St) : Prop where
  time : ∀ n, a.timeOf n = b.timeOf n
  tid : ∀ n, a.tidOf n = b.tidOf n
  lin : ∀ n, a.linOf n = b.linOf n
  edges : ∀ e, e ∈ a.edgeList ↔ e ∈ b.edgeList
  linOn : a.linOn = b.linOn

theorem TV.refl (a : St) : TV a a := ⟨fun _ => rfl, fun _ => rfl, fun _ => rfl, fun _ => Iff.rfl, rfl⟩

theorem TV.symm {a b : St} (h : TV a b) : TV b a :=
  ⟨fun n => (h.time n).symm, fun n => (h.tid n).symm, fun n => (h.lin n).symm,
   fun e => (h.edges e).symm, h.linOn.symm⟩

theorem TV.trans {a b c : St} (h : TV a b) (g : TV b c) : TV a c :=
  ⟨fun n => (h.time n).trans (g.time n), fun n => (h.tid n).trans (g.tid n),
   fun n => (h.lin n).trans (g.lin n), fun e => (h.edges e).trans (g.edges e), h.linOn.trans g.linOn⟩

theorem TV.ids {a b : St} (h : TV a b) (n : Node) : n ∈ a.ids ↔ n ∈ b.ids := by
  rw [← PC.timeOf_isSome_iff, ← PC.timeOf_isSome_iff, h.time]

theorem TV.anc {a b : St} (h : TV a b) {x y : Node} : a.Anc x y ↔ b.Anc x y :=
  ⟨Anc.mono (fun e he => (h.edges e).1 he), Anc.mono (fun e he => (h.edges e).2 he)⟩

theorem TV.outdeg {a b : St} (h : TV a b) (ha : a.Forest) (hb : b.Forest) (u : Node) :
    a.outdeg u = b.outdeg u := by
  rw [tk_outdeg_eq, tk_outdeg_eq]
  exact (((perm_ext_iff_of_nodup ha.nodup_edges hb.nodup_edges).2 h.edges).filter _).length_eq

theorem TV.segDown_mp {a b : St} (h : TV a b) (ha : a.Forest) (hb : b.Forest) {x y : Node}
    (hd : a.tk_SegDown x y) : b.tk_SegDown x y := by
  induction hd with
  | refl => exact tk_SegDown.refl _
  | step p c _ he ho ih =>
    exact tk_SegDown.step _ p c ih ((h.edges _).1 he) (by rw [← h.outdeg ha hb]; exact ho)

theorem TV.segDown {a b : St} (h : TV a b) (ha : a.Forest) (hb : b.Forest) {x y : Node} :
    a.tk_SegDown x y ↔ b.tk_SegDown x y :=
  ⟨h.segDown_mp ha hb, h.symm.segDown_mp hb ha⟩

/-! ## §3 precondition and effect of one `UpdateTrackIDs` -/

/-- the view part of the precondition of `UpdateTrackIDs(start, newT, newL)` at a state whose start
    node carries `oldT` / `oldL`:
    * `chain`: below `start`, its own id `oldT` runs along non-division edges and stops at a division;
    * `noReuse`: **the new id is not found where the walk stops** — on the children of the division
      that ends `start`'s segment (the documented "not found downstream" precondition implies it);
    * `linSub`: all descendants of `start` carry `start`'s lineage (true under `LinOK.along`) — the
      inverse writes that one value on all of them;
    * `linHas`: if a lineage is written there was one before. -/
structure ViewPre (s : St) (start : Node) (oldT newT : Nat) (oldL newL : Option Nat) : Prop where
  mem : start ∈ s.ids
  tid : s.tidOf start = some oldT
  lin : s.linOf start = oldL
  chain : tk_ChainHyp s oldT start
  noReuse : ∀ p c, s.tk_SegDown start p → (p, c) ∈ s.edgeList → s.outdeg p = 2 → s.tidOf c ≠ some newT
  linSub : s.linOn = true → ∀ x, s.Anc start x → s.linOf x = oldL
  linHas : s.linOn = true → newL.isSome = true → oldL.isSome = true

theorem ViewPre.congr {a b : St} {start : Node} {oT nT : Nat} {oL nL : Option Nat}
    (hp : ViewPre a start oT nT oL nL) (h : TV a b) (ha : a.Forest) (hb : b.Forest) :
    ViewPre b start oT nT oL nL where
  mem := (h.ids _).1 hp.mem
  tid := by rw [← h.tid]; exact hp.tid
  lin := by rw [← h.lin]; exact hp.lin
  chain := by
    refine ⟨fun p c hd he ho => ?_, fun p c hd he ho => ?_⟩
    · rw [← h.tid]
      exact hp.chain.1 p c ((h.segDown ha hb).2 hd) ((h.edges _).2 he) (by rw [h.outdeg ha hb]; exact ho)
    · rw [← h.tid]
      exact hp.chain.2 p c ((h.segDown ha hb).2 hd) ((h.edges _).2 he) (by rw [h.outdeg ha hb]; exact ho)
  noReuse := by
    intro p c hd he ho
    rw [← h.tid]
    exact hp.noReuse p c ((h.segDown ha hb).2 hd) ((h.edges _).2 he) (by rw [h.outdeg ha hb]; exact ho)
  linSub := by
    intro hon x hx
    rw [← h.lin]
    exact hp.linSub (h.linOn.trans hon) x (h.anc.2 hx)
  linHas := fun hon => hp.linHas (h.linOn.trans hon)

/-- on the whole chain below `start` the old id is carried -/
theorem ViewPre.tid_chain {s : St} {start : Node} {oT nT : Nat} {oL nL : Option Nat}
    (hp : ViewPre s start oT nT oL nL) {n : Node} (hd : s.tk_SegDown start n) : s.tidOf n = some oT := by
  rcases hd.tail with rfl | ⟨p, hp', he, ho⟩
  · exact hp.tid
  · exact hp.chain.1 p n hp' he ho

/-- a child of a division is not on the chain below `start` -/
theorem not_segDown_of_division {s : St} (hF : s.Forest) {start p c : Node}
    (hp : s.tk_SegDown start p) (he : (p, c) ∈ s.edgeList) (ho : s.outdeg p = 2) :
    ¬ s.tk_SegDown start c := by
  intro hc
  rcases hc.tail with rfl | ⟨p', _, he', ho'⟩
  · have h1 := hp.anc.tm_le hF
    have h2 := hF.tm_lt he
    omega
  · rw [hF.par_unique he' he] at ho'
    omega

/-- `b` carries the ids that `UpdateTrackIDs(start, newT, newL)` produces out of `a`: `newT` on the
    chain below `start`, `newL` (if given and the lineage feature is on) on all descendants, every
    other id, all times, the edge set and the lineage switch unchanged -/
structure WalkEff (a : St) (start : Node) (newT : Nat) (newL : Option Nat) (b : St) : Prop where
  tid_in : ∀ n, a.tk_SegDown start n → b.tidOf n = some newT
  tid_out : ∀ n, ¬ a.tk_SegDown start n → b.tidOf n = a.tidOf n
  lin_in : a.linOn = true → newL.isSome = true → ∀ n, a.Anc start n → b.linOf n = newL
  lin_out : ∀ n, ¬ (a.linOn = true ∧ newL.isSome = true ∧ a.Anc start n) → b.linOf n = a.linOf n
  time : ∀ n, b.timeOf n = a.timeOf n
  edges : ∀ e, e ∈ b.edgeList ↔ e ∈ a.edgeList
  linOn : b.linOn = a.linOn

theorem WalkEff.congr {a a' b b' : St} {start : Node} {nT : Nat} {nL : Option Nat}
    (h : WalkEff a start nT nL b) (ha : TV a a') (hb : TV b b') (hFa : a.Forest) (hFa' : a'.Forest) :
    WalkEff a' start nT nL b' where
  tid_in := fun n hd => by rw [← hb.tid]; exact h.tid_in n ((ha.segDown hFa hFa').2 hd)
  tid_out := fun n hd => by
    rw [← hb.tid, ← ha.tid]; exact h.tid_out n (fun hd' => hd ((ha.segDown hFa hFa').1 hd'))
  lin_in := fun hon hs n hn => by
    rw [← hb.lin]; exact h.lin_in (ha.linOn.trans hon) hs n (ha.anc.2 hn)
  lin_out := fun n hn => by
    rw [← hb.lin, ← ha.lin]
    exact h.lin_out n (fun ⟨h1, h2, h3⟩ => hn ⟨ha.linOn.symm.trans h1, h2, ha.anc.1 h3⟩)
  time := fun n => by rw [← hb.time, ← ha.time]; exact h.time n
  edges := fun e => ((hb.edges e).symm.trans (h.edges e)).trans (ha.edges e)
  linOn := hb.linOn.symm.trans (h.linOn.trans ha.linOn)

/-- the effect determines the view -/
theorem WalkEff.det {a b b' : St} {start : Node} {nT : Nat} {nL : Option Nat}
    (h : WalkEff a start nT nL b) (h' : WalkEff a start nT nL b') : TV b b' := by
  refine ⟨fun n => (h.time n).trans (h'.time n).symm, fun n => ?_, fun n => ?_,
    fun e => (h.edges e).trans (h'.edges e).symm, h.linOn.trans h'.linOn.symm⟩
  · by_cases hd : a.tk_SegDown start n
    · rw [h.tid_in n hd, h'.tid_in n hd]
    · rw [h.tid_out n hd, h'.tid_out n hd]
  · by_cases hd : a.linOn = true ∧ nL.isSome = true ∧ a.Anc start n
    · rw [h.lin_in hd.1 hd.2.1 n hd.2.2, h'.lin_in hd.1 hd.2.1 n hd.2.2]
    · rw [h.lin_out n hd, h'.lin_out n hd]

/-- the view of the post state is a walk effect back to the pre state (with the old ids), and the
    post state satisfies the precondition of the way back -/
theorem WalkEff.inverse {a b : St} {start : Node} {oT nT : Nat} {oL nL : Option Nat}
    (hp : ViewPre a start oT nT oL nL) (hFa : a.Forest) (hFb : b.Forest)
    (h : WalkEff a start nT nL b) :
    WalkEff b start oT oL a ∧ ViewPre b start nT oT (b.linOf start) oL := by
  -- graph relations agree in `a` and `b`
  have hE : ∀ e, e ∈ a.edgeList ↔ e ∈ b.edgeList := fun e => (h.edges e).symm
  have hout : ∀ u, a.outdeg u = b.outdeg u := by
    intro u
    rw [tk_outdeg_eq, tk_outdeg_eq]
    exact (((perm_ext_iff_of_nodup hFa.nodup_edges hFb.nodup_edges).2 hE).filter _).length_eq
  have hanc : ∀ {x y}, a.Anc x y ↔ b.Anc x y :=
    ⟨Anc.mono (fun e he => (hE e).1 he), Anc.mono (fun e he => (hE e).2 he)⟩
  have hseg1 : ∀ {x y}, a.tk_SegDown x y → b.tk_SegDown x y := by
    intro x y hd
    induction hd with
    | refl => exact tk_SegDown.refl _
    | step p c _ he ho ih => exact tk_SegDown.step _ p c ih ((hE _).1 he) (by rw [← hout]; exact ho)
  have hseg2 : ∀ {x y}, b.tk_SegDown x y → a.tk_SegDown x y := by
    intro x y hd
    induction hd with
    | refl => exact tk_SegDown.refl _
    | step p c _ he ho ih => exact tk_SegDown.step _ p c ih ((hE _).2 he) (by rw [hout]; exact ho)
  have hbstart : b.linOf start = if (a.linOn = true ∧ nL.isSome = true) then nL else oL := by
    by_cases hc : a.linOn = true ∧ nL.isSome = true
    · rw [if_pos hc]; exact h.lin_in hc.1 hc.2 start (Anc.refl _)
    · rw [if_neg hc, h.lin_out start (fun ⟨h1, h2, _⟩ => hc ⟨h1, h2⟩)]; exact hp.lin
  refine ⟨⟨?_, ?_, ?_, ?_, fun n => (h.time n).symm, fun e => (h.edges e).symm, h.linOn.symm⟩,
    ⟨?_, ?_, rfl, ⟨?_, ?_⟩, ?_, ?_, ?_⟩⟩
  · intro n hd; exact hp.tid_chain (hseg2 hd)
  · intro n hd; exact (h.tid_out n (fun hd' => hd (hseg1 hd'))).symm
  · intro hon _ n hn; exact hp.linSub (h.linOn.symm.trans hon) n (hanc.2 hn)
  · intro n hn
    by_cases hc : a.linOn = true ∧ nL.isSome = true ∧ a.Anc start n
    · exact absurd ⟨h.linOn.trans hc.1, hp.linHas hc.1 hc.2.1, hanc.1 hc.2.2⟩ hn
    · exact (h.lin_out n hc).symm
  · rw [← PC.timeOf_isSome_iff, h.time, PC.timeOf_isSome_iff]; exact hp.mem
  · exact h.tid_in start (tk_SegDown.refl _)
  · intro p c hd he ho
    exact h.tid_in c (tk_SegDown.step _ p c (hseg2 hd) ((hE _).2 he) (by rw [hout]; exact ho))
  · intro p c hd he ho
    have hd' := hseg2 hd
    have he' := (hE _).2 he
    have ho' : a.outdeg p = 2 := by rw [hout]; exact ho
    rw [h.tid_out c (not_segDown_of_division hFa hd' he' ho')]
    exact hp.noReuse p c hd' he' ho'
  · intro p c hd he ho
    have hd' := hseg2 hd
    have he' := (hE _).2 he
    have ho' : a.outdeg p = 2 := by rw [hout]; exact ho
    rw [h.tid_out c (not_segDown_of_division hFa hd' he' ho')]
    exact hp.chain.2 p c hd' he' ho'
  · intro hon x hx
    have hon' : a.linOn = true := h.linOn.symm.trans hon
    have hx' := hanc.2 hx
    by_cases hc : nL.isSome = true
    · rw [h.lin_in hon' hc x hx', h.lin_in hon' hc start (Anc.refl _)]
    · rw [h.lin_out x (fun ⟨_, h2, _⟩ => hc h2), h.lin_out start (fun ⟨_, h2, _⟩ => hc h2),
        hp.linSub hon' x hx', hp.lin]
  · intro hon hs
    rw [hbstart]
    split
    · rename_i hc; exact hc.2
    · exact hs

/-! ## §4 the walk itself, and the round trip -/

theorem walk_eff {s : St} (hF : s.Forest) {start : Node} {oT nT : Nat} {oL nL : Option Nat}
    (hp : ViewPre s start oT nT oL nL) : WalkEff s start nT nL (s.walk start oT nT oL nL) := by
  have ht := tk_walk_tid hF hp.mem oT nT oL nL hp.tid hp.chain
  have hg := tk_walk_sameG s start oT nT oL nL
  refine ⟨ht.1, ht.2, ?_, ?_, hg.time, fun e => by rw [hg.edgeList], tk_walk_linOn s start oT nT oL nL⟩
  · intro hon hs n hn
    cases nL with
    | none => cases hs
    | some l => exact (tk_walk_lin hF hp.mem hon oT nT oL l).1 n hn
  · intro n hn
    by_cases hc : (nL.isSome && s.linOn) = true
    · cases nL with
      | none => simp at hc
      | some l =>
        have hon : s.linOn = true := by simpa using hc
        exact (tk_walk_lin hF hp.mem hon oT nT oL l).2.1 n (fun ha => hn ⟨hon, rfl, ha⟩)
    · exact walk_lin_off s start oT nT oL nL (by simpa using hc) n

/-- well-formedness the walk needs and keeps: forest shape + consistent bookkeeping -/
def WF (s : St) : Prop := s.Forest ∧ s.BookOK

theorem walk_wf {s : St} (hW : WF s) {start : Node} {oT nT : Nat} {oL nL : Option Nat}
    (hp : ViewPre s start oT nT oL nL) : WF (s.walk start oT nT oL nL) := by
  obtain ⟨hT, hL⟩ := (PC.bookOK_iff s).1 hW.2
  refine ⟨PC.walk_Forest hW.1 hp.mem _ _ _ _, (PC.bookOK_iff _).2
    ⟨PC.walk_TOK hW.1 hT hp.mem _ _ _ _, PC.walk_LOK hW.1 hL hp.mem _ _ _ _ ?_⟩⟩
  intro hon _ x hx
  exact hp.linSub hon x hx

/-- what the walk leaves exactly alone: node table up to track/lineage ids (with its order), edge
    table, array, registry/history/refresh log -/
structure Frame (a b : St) : Prop where
  nodes : nstrip b = nstrip a
  edges : b.edges = a.edges
  seg : b.seg = a.seg
  cfg : b.cfg = a.cfg

theorem walk_frame {s : St} (hF : s.Forest) {start : Node} (hs : start ∈ s.ids) (oT nT : Nat)
    (oL nL : Option Nat) : Frame s (s.walk start oT nT oL nL) := by
  have h := PC.walk_frame hF hs oT nT oL nL
  exact ⟨nstrip_walk s start oT nT oL nL, h.2.1, h.2.2.2.2, cfg_walk s start oT nT oL nL⟩

/-- the lookups, read as sets -/
def T2Eq (a b : St) : Prop :=
  ∀ id n, (∃ l, alook id a.t2n = some l ∧ n ∈ l) ↔ (∃ l, alook id b.t2n = some l ∧ n ∈ l)
def L2Eq (a b : St) : Prop :=
  ∀ id n, (∃ l, alook id a.l2n = some l ∧ n ∈ l) ↔ (∃ l, alook id b.l2n = some l ∧ n ∈ l)

theorem L2Eq.symm {a b : St} (h : L2Eq a b) : L2Eq b a := fun id n => (h id n).symm
theorem L2Eq.trans {a b c : St} (h : L2Eq a b) (g : L2Eq b c) : L2Eq a c :=
  fun id n => (h id n).trans (g id n)
theorem L2Eq.of_eq {a b : St} (h : a.l2n = b.l2n) : L2Eq a b := by
  intro id n; rw [h]
theorem T2Eq.symm {a b : St} (h : T2Eq a b) : T2Eq b a := fun id n => (h id n).symm
theorem T2Eq.trans {a b c : St} (h : T2Eq a b) (g : T2Eq b c) : T2Eq a c :=
  fun id n => (h id n).trans (g id n)

/-- consistent bookkeeping + same view ⇒ same lookups as sets -/
theorem book_of_TV {a b : St} (h : TV a b) (ha : a.BookOK) (hb : b.BookOK) :
    T2Eq a b ∧ (a.linOn = true → L2Eq a b) := by
  refine ⟨fun id n => ?_, fun hon id n => ?_⟩
  · rw [ha.t_iff, hb.t_iff, h.ids, h.tid]
  · rw [ha.l_iff hon, hb.l_iff (h.linOn.symm.trans hon), h.ids, h.lin]

/-- same tracks view and same lookups as sets -/
structure TEq (a b : St) : Prop where
  view : TV a b
  t2n : T2Eq a b
  l2n : L2Eq a b

theorem TEq.refl (a : St) : TEq a a := ⟨TV.refl a, fun _ _ => Iff.rfl, fun _ _ => Iff.rfl⟩
theorem TEq.symm {a b : St} (h : TEq a b) : TEq b a := ⟨h.view.symm, h.t2n.symm, h.l2n.symm⟩
theorem TEq.trans {a b c : St} (h : TEq a b) (g : TEq b c) : TEq a c :=
  ⟨h.view.trans g.view, h.t2n.trans g.t2n, h.l2n.trans g.l2n⟩

theorem pUpdTid_eq {s : St} {start : Node} {oT : Nat} {oL : Option Nat} (hm : start ∈ s.ids)
    (ht : s.tidOf start = some oT) (hl : s.linOf start = oL) (nT : Nat) (nL : Option Nat) :
    s.pUpdTid start nT nL = .ok (s.walk start oT nT oL nL, .updTid start oT nT oL nL) := by
  obtain ⟨r, hr⟩ := tk_mem_ids_iff.1 hm
  unfold tidOf at ht
  unfold linOf at hl
  rw [hr] at ht hl
  simp only [Option.map_some, Option.some.injEq, Option.bind_some] at ht hl
  unfold pUpdTid
  rw [hr]
  subst ht hl
  rfl

/-- **one recorded `UpdateTrackIDs` step** from `s` to `t`, read on the view: both states
    well-formed, the precondition held at `s`, `t` carries the effect of the walk; with the lineage
    feature off the lineage lookup is not touched -/
structure Step (s t : St) (start : Node) (oT nT : Nat) (oL nL : Option Nat) : Prop where
  ws : WF s
  wt : WF t
  pre : ViewPre s start oT nT oL nL
  eff : WalkEff s start nT nL t
  loff : s.linOn = false → L2Eq t s

/-- applying the primitive under its precondition: closed form, `Step`, frame -/
theorem step_of_pre {s : St} (hW : WF s) {start : Node} {oT nT : Nat} {oL nL : Option Nat}
    (hp : ViewPre s start oT nT oL nL) :
    s.pUpdTid start nT nL = .ok (s.walk start oT nT oL nL, .updTid start oT nT oL nL) ∧
    Step s (s.walk start oT nT oL nL) start oT nT oL nL ∧ Frame s (s.walk start oT nT oL nL) := by
  refine ⟨pUpdTid_eq hp.mem hp.tid hp.lin nT nL, ⟨hW, walk_wf hW hp, hp, walk_eff hW.1 hp, ?_⟩,
    walk_frame hW.1 hp.mem _ _ _ _⟩
  intro hoff
  exact L2Eq.of_eq (walk_l2n_off hW.1 hp.mem oT nT oL nL (by rw [hoff]; simp))

/-- a step can be read from any pair of well-formed states with the same views / lookups -/
theorem Step.congr {s t s' t' : St} {start : Node} {oT nT : Nat} {oL nL : Option Nat}
    (h : Step s t start oT nT oL nL) (hs : TEq s s') (hWs : WF s') (ht : TEq t t') (hWt : WF t') :
    Step s' t' start oT nT oL nL :=
  ⟨hWs, hWt, h.pre.congr hs.view h.ws.1 hWs.1, h.eff.congr hs.view ht.view h.ws.1 hWs.1,
   fun hoff => (ht.l2n.symm.trans (h.loff (hs.view.linOn.trans hoff))).trans hs.l2n⟩

/-- **the inverse law on the view.** `Step s t` recorded as `.updTid start oT nT oL nL`; from any
    well-formed `t'` with the same view and lookups-as-sets as `t`, `invPrim` succeeds with the
    closed form below, restores all track ids, lineage ids and lookups of `s` (as sets), touches
    nothing else (`Frame`), and its own record is again a `Step` (from `t'` to the result), so
    the same law applies to it: inverting the inverse reproduces the view of `t'`, i.e. of `t`. -/
theorem Step.inverse {s t : St} {start : Node} {oT nT : Nat} {oL nL : Option Nat}
    (h : Step s t start oT nT oL nL) {t' : St} (he : TEq t' t) (hW : WF t') :
    ∃ s₂, t'.invPrim (.updTid start oT nT oL nL) = .ok (s₂, .updTid start nT oT (t.linOf start) oL) ∧
      TEq s₂ s ∧ WF s₂ ∧ Frame t' s₂ ∧ Step t' s₂ start nT oT (t.linOf start) oL := by
  obtain ⟨hback, hpre_t⟩ := WalkEff.inverse h.pre h.ws.1 h.wt.1 h.eff
  have hpre' : ViewPre t' start nT oT (t.linOf start) oL := hpre_t.congr he.view.symm h.wt.1 hW.1
  have heff' := walk_eff hW.1 hpre'
  have hwf' := walk_wf hW hpre'
  have hfr' := walk_frame hW.1 hpre'.mem nT oT (t.linOf start) oL
  have hloff : t'.linOn = false → L2Eq (t'.walk start nT oT (t.linOf start) oL) t' := fun hoff =>
    L2Eq.of_eq (walk_l2n_off hW.1 hpre'.mem nT oT (t.linOf start) oL (by rw [hoff]; simp))
  have hTV : TV (t'.walk start nT oT (t.linOf start) oL) s :=
    (heff'.congr he.view (TV.refl _) hW.1 h.wt.1).det hback
  have hbk := book_of_TV hTV hwf'.2 h.ws.2
  refine ⟨_, ?_, ⟨hTV, hbk.1, ?_⟩, hwf', hfr', ⟨hW, hwf', hpre', heff', hloff⟩⟩
  · show t'.pUpdTid start oT oL = _
    exact pUpdTid_eq hpre'.mem hpre'.tid hpre'.lin oT oL
  · cases hon : s.linOn with
    | true => exact hbk.2 (hTV.linOn.trans hon)
    | false =>
      have h1 : t'.linOn = false := by
        rw [he.view.linOn, h.eff.linOn]; exact hon
      exact ((hloff h1).trans he.l2n).trans (h.loff hon)

/-- the record relation of `UpdateTrackIDs` (the shape `C01Obligation.Rec` wants for one primitive) -/
def UpdRec (r : PrimRec) (s t : St) : Prop :=
  ∃ start oT nT oL nL, r = .updTid start oT nT oL nL ∧ Step s t start oT nT oL nL

theorem UpdRec.congr {r : PrimRec} {s t s' t' : St} (h : UpdRec r s t) (hs : TEq s s') (hWs : WF s')
    (ht : TEq t t') (hWt : WF t') : UpdRec r s' t' := by
  obtain ⟨start, oT, nT, oL, nL, hr, hst⟩ := h
  exact ⟨start, oT, nT, oL, nL, hr, hst.congr hs hWs ht hWt⟩

/-- the symmetric inverse law in record form: inverting succeeds from every well-formed state
    view-equal to `t`, lands view-equal to `s`, and the new record relates `t` to `s` again -/
theorem UpdRec.inverse {r : PrimRec} {s t t' : St} (h : UpdRec r s t) (he : TEq t' t) (hW : WF t') :
    ∃ s₂ r', t'.invPrim r = .ok (s₂, r') ∧ TEq s₂ s ∧ WF s₂ ∧ Frame t' s₂ ∧
      UpdRec r' t' s₂ ∧ UpdRec r' t s := by
  obtain ⟨start, oT, nT, oL, nL, hr, hst⟩ := h
  obtain ⟨s₂, hinv, hteq, hwf, hfr, hstep⟩ := hst.inverse he hW
  subst hr
  have hrec : UpdRec (.updTid start nT oT (t.linOf start) oL) t' s₂ := ⟨_, _, _, _, _, rfl, hstep⟩
  exact ⟨s₂, _, hinv, hteq, hwf, hfr, hrec, hrec.congr he hst.wt hteq hst.ws⟩

/-! ## §5 from the view to `St.Equiv`; the guarded inverse law -/

theorem equiv_findNode {a b : St} (h : Equiv a b) (ha : a.ids.Nodup) (hb : b.ids.Nodup) (n : Node) :
    a.findNode n = b.findNode n := by
  have key : ∀ {x y : St}, (∀ r, r ∈ x.nodes ↔ r ∈ y.nodes) → y.ids.Nodup →
      ∀ r, x.findNode n = some r → y.findNode n = some r := by
    intro x y hxy hy r hr
    obtain ⟨hid, hm⟩ := tk_findNode_id hr
    have := (mem_nodes_iff hy r).1 ((hxy r).1 hm)
    rwa [hid] at this
  cases hfa : a.findNode n with
  | some r => exact (key h.nodes hb r hfa).symm
  | none =>
    cases hfb : b.findNode n with
    | none => rfl
    | some r =>
      have := key (fun r => (h.nodes r).symm) ha r hfb
      rw [hfa] at this; cases this

theorem equiv_TEq {a b : St} (h : Equiv a b) (ha : a.ids.Nodup) (hb : b.ids.Nodup) : TEq a b := by
  have hf := equiv_findNode h ha hb
  refine ⟨⟨fun n => ?_, fun n => ?_, fun n => ?_, fun e => ?_, h.reg.1⟩, h.t2n, h.l2n⟩
  · unfold timeOf; rw [hf]
  · unfold tidOf; rw [hf]
  · unfold linOf; rw [hf]
  · unfold edgeList
    simp only [mem_map]
    constructor
    · rintro ⟨r, hr, rfl⟩; exact ⟨r, (h.edges r).1 hr, rfl⟩
    · rintro ⟨r, hr, rfl⟩; exact ⟨r, (h.edges r).2 hr, rfl⟩

/-- `Frame`, read on sets (invariant under `Equiv` of duplicate-free states): per node id the same
    time and other attributes, same edge records, same array, same registry -/
structure FrameS (a b : St) : Prop where
  nodes : ∀ n, stripOf b n = stripOf a n
  edges : ∀ r, r ∈ b.edges ↔ r ∈ a.edges
  seg : b.seg = a.seg
  reg : b.linOn = a.linOn ∧ b.posKeys = a.posKeys ∧ b.regNode = a.regNode ∧ b.regEdge = a.regEdge
        ∧ b.rpAvail = a.rpAvail ∧ b.rpActive = a.rpActive ∧ b.iouKey = a.iouKey ∧ b.iouActive = a.iouActive

theorem Frame.toS {a b : St} (h : Frame a b) : FrameS a b := by
  have c := h.cfg
  simp only [St.cfg, Prod.mk.injEq] at c
  obtain ⟨_, _, _, c1, c2, c3, c4, c5, c6, c7, c8⟩ := c
  exact ⟨stripOf_of_nstrip h.nodes, fun r => by rw [h.edges], h.seg, c1, c2, c3, c4, c5, c6, c7, c8⟩

theorem FrameS.congr {a b a' b' : St} (h : FrameS a b) (ea : Equiv a a') (eb : Equiv b b')
    (ha : a.ids.Nodup) (ha' : a'.ids.Nodup) (hb : b.ids.Nodup) (hb' : b'.ids.Nodup) : FrameS a' b' := by
  obtain ⟨e1, e2, e3, e4, e5, e6, e7, e8⟩ := ea.reg
  obtain ⟨g1, g2, g3, g4, g5, g6, g7, g8⟩ := eb.reg
  obtain ⟨h1, h2, h3, h4, h5, h6, h7, h8⟩ := h.reg
  refine ⟨fun n => ?_, fun r => ?_, eb.seg.symm.trans (h.seg.trans ea.seg),
    g1.symm.trans (h1.trans e1), g2.symm.trans (h2.trans e2), g3.symm.trans (h3.trans e3),
    g4.symm.trans (h4.trans e4), g5.symm.trans (h5.trans e5), g6.symm.trans (h6.trans e6),
    g7.symm.trans (h7.trans e7), g8.symm.trans (h8.trans e8)⟩
  · have := h.nodes n
    unfold stripOf at this ⊢
    rw [← equiv_findNode eb hb hb', ← equiv_findNode ea ha ha']; exact this
  · rw [← eb.edges, ← ea.edges]; exact h.edges r

/-- the round trip is an `Equiv`: `s —walk→ t ≈ t' —inverse walk→ s₂` with `s₂` view-equal to `s` -/
theorem equiv_back {s t t' s₂ : St} (he : Equiv t' t) (f1 : FrameS s t) (f2 : FrameS t' s₂)
    (hq : TEq s₂ s) (hs : s.ids.Nodup) (ht : t.ids.Nodup) (ht' : t'.ids.Nodup) (hs₂ : s₂.ids.Nodup) :
    Equiv s₂ s := by
  have hstrip : ∀ n, stripOf s₂ n = stripOf s n := by
    intro n
    rw [f2.nodes, ← f1.nodes]
    unfold stripOf; rw [equiv_findNode he ht' ht]
  obtain ⟨a1, a2, a3, a4, a5, a6, a7, a8⟩ := f1.reg
  obtain ⟨b1, b2, b3, b4, b5, b6, b7, b8⟩ := f2.reg
  obtain ⟨e1, e2, e3, e4, e5, e6, e7, e8⟩ := he.reg
  refine ⟨fun r => ?_, fun r => ?_, f2.seg.trans (he.seg.trans f1.seg), hq.t2n, hq.l2n,
    b1.trans (e1.trans a1), b2.trans (e2.trans a2), b3.trans (e3.trans a3), b4.trans (e4.trans a4),
    b5.trans (e5.trans a5), b6.trans (e6.trans a6), b7.trans (e7.trans a7), b8.trans (e8.trans a8)⟩
  · rw [mem_nodes_iff hs₂, mem_nodes_iff hs, findNode_eq_iff, findNode_eq_iff, hstrip,
      hq.view.tid, hq.view.lin]
  · rw [f2.edges, he.edges, f1.edges]

/-- `Equiv` between well-formed states: `St.Equiv` compares node/edge tables and lookups as sets,
    so an `Equiv`-equal state may list a node or an edge twice; the relabel walk (like `Forest` and
    `BookOK`) is only meaningful on duplicate-free tables. `EquivW` is `Equiv` restricted to pairs
    that are well-formed together; it is an equivalence relation on all states. -/
def EquivW (a b : St) : Prop := Equiv a b ∧ (WF a ↔ WF b)

theorem EquivW.refl (a : St) : EquivW a a := ⟨Equiv.refl a, Iff.rfl⟩
theorem EquivW.symm {a b : St} (h : EquivW a b) : EquivW b a := ⟨h.1.symm, h.2.symm⟩
theorem EquivW.trans {a b c : St} (h : EquivW a b) (g : EquivW b c) : EquivW a c :=
  ⟨h.1.trans g.1, h.2.trans g.2⟩
theorem EquivW.of_wf {a b : St} (h : Equiv a b) (ha : WF a) (hb : WF b) : EquivW a b :=
  ⟨h, ⟨fun _ => hb, fun _ => ha⟩⟩

/-- `WF` does not look at the history / refresh log (what `undo`/`redo` write besides the inverse) -/
theorem WF_ctl (u : St) (h : Hist ActRec) (k : Nat) (p : Option Node) :
    WF { u with hist := h, refreshes := k, lastPayload := p } ↔ WF u := by
  constructor
  · rintro ⟨⟨a1, a2, a3, a4, a5, a6, a7⟩, ⟨b1, b2, b3, b4, b5, b6, b7, b8⟩⟩
    exact ⟨⟨a1, a2, a3, a4, a5, a6, a7⟩, ⟨b1, b2, b3, b4, b5, b6, b7, b8⟩⟩
  · rintro ⟨⟨a1, a2, a3, a4, a5, a6, a7⟩, ⟨b1, b2, b3, b4, b5, b6, b7, b8⟩⟩
    exact ⟨⟨a1, a2, a3, a4, a5, a6, a7⟩, ⟨b1, b2, b3, b4, b5, b6, b7, b8⟩⟩

/-- `InvLaw` / `Chain` / `invGroup_chain` of `InverseLemmas` over a parameter relation `E` -/
def InvLawE (E : St → St → Prop) (s : St) (r : PrimRec) (s₁ : St) : Prop :=
  ∀ s₁', E s₁' s₁ → ∃ s₂ r', s₁'.invPrim r = .ok (s₂, r') ∧ E s₂ s

inductive ChainE (E : St → St → Prop) : St → List PrimRec → St → Prop where
  | nil (s : St) : ChainE E s [] s
  | cons {s s₁ sₙ : St} {r : PrimRec} {rs : List PrimRec} :
      InvLawE E s r s₁ → ChainE E s₁ rs sₙ → ChainE E s (r :: rs) sₙ

theorem invGroup_chainE {E : St → St → Prop} {s sₙ : St} {recs : List PrimRec} (h : ChainE E s recs sₙ) :
    ∀ sₙ', E sₙ' sₙ → ∃ s' recs', sₙ'.invGroup recs = (s', .ok recs') ∧ E s' s ∧
      recs'.length = recs.length := by
  induction h with
  | nil s => intro sₙ' he; exact ⟨sₙ', [], rfl, he, rfl⟩
  | cons hl _ ih =>
    intro sₙ' he
    obtain ⟨s₁', recs', hg, he1, hlen⟩ := ih sₙ' he
    obtain ⟨s₂, r', hinv, he2⟩ := hl s₁' he1
    refine ⟨s₂, recs' ++ [r'], ?_, he2, by simp [hlen]⟩
    rw [invGroup_cons, hg]
    simp only [invStep, hinv]

/-- the plain law implies nothing about well-formedness, the `EquivW` law does: a chain over
    `EquivW` that starts well-formed stays well-formed -/
theorem InvLawE.to_equiv {s s₁ : St} {r : PrimRec} (h : InvLawE EquivW s r s₁) (s₁' : St)
    (he : Equiv s₁' s₁) (hw : WF s₁') (hw1 : WF s₁) :
    ∃ s₂ r', s₁'.invPrim r = .ok (s₂, r') ∧ Equiv s₂ s ∧ (WF s → WF s₂) := by
  obtain ⟨s₂, r', hi, he2⟩ := h s₁' (EquivW.of_wf he hw hw1)
  exact ⟨s₂, r', hi, he2.1, he2.2.2⟩

/-- the record relation with the frame: what one recorded `UpdateTrackIDs` from `s` to `t`
    satisfies. Invariant under `EquivW` on both states, closed under inversion. -/
def UpdRecF (r : PrimRec) (s t : St) : Prop := UpdRec r s t ∧ FrameS s t

theorem UpdRecF.congr {r : PrimRec} {s t s' t' : St} (h : UpdRecF r s t) (es : EquivW s s')
    (et : EquivW t t') : UpdRecF r s' t' := by
  obtain ⟨start, oT, nT, oL, nL, _, hst⟩ := h.1
  have hWs : WF s' := es.2.1 hst.ws
  have hWt : WF t' := et.2.1 hst.wt
  exact ⟨h.1.congr (equiv_TEq es.1 hst.ws.1.nodup_nodes hWs.1.nodup_nodes) hWs
      (equiv_TEq et.1 hst.wt.1.nodup_nodes hWt.1.nodup_nodes) hWt,
    h.2.congr es.1 et.1 hst.ws.1.nodup_nodes hWs.1.nodup_nodes hst.wt.1.nodup_nodes hWt.1.nodup_nodes⟩

/-- **symmetric inverse law of `UpdateTrackIDs` over `EquivW`**: from any `t' ≈ t` the inverse
    succeeds, lands `≈ s`, and its record is a recorded step `t' ⟶ s₂` — hence also `t ⟶ s` -/
theorem UpdRecF.inverse {r : PrimRec} {s t t' : St} (h : UpdRecF r s t) (he : EquivW t' t) :
    ∃ s₂ r', t'.invPrim r = .ok (s₂, r') ∧ EquivW s₂ s ∧ UpdRecF r' t' s₂ ∧ UpdRecF r' t s := by
  obtain ⟨start, oT, nT, oL, nL, hr, hst⟩ := h.1
  have hW : WF t' := he.2.2 hst.wt
  have hteq := equiv_TEq he.1 hW.1.nodup_nodes hst.wt.1.nodup_nodes
  obtain ⟨s₂, r', hinv, hq, hwf, hfr, hrec, _⟩ := UpdRec.inverse h.1 hteq hW
  have heq : EquivW s₂ s := EquivW.of_wf
    (equiv_back he.1 h.2 hfr.toS hq hst.ws.1.nodup_nodes hst.wt.1.nodup_nodes hW.1.nodup_nodes
      hwf.1.nodup_nodes) hwf hst.ws
  have hF : UpdRecF r' t' s₂ := ⟨hrec, hfr.toS⟩
  exact ⟨s₂, r', hinv, heq, hF, hF.congr he heq⟩

theorem UpdRecF.invLaw {r : PrimRec} {s t : St} (h : UpdRecF r s t) : InvLawE EquivW s r t := by
  intro t' he
  obtain ⟨s₂, r', hinv, he2, _⟩ := h.inverse he
  exact ⟨s₂, r', hinv, he2⟩

/-! ### sufficient conditions for the precondition -/

/-- the documented precondition, in the vocabulary of `SessionSpec`: the new id is not found
    downstream of `start` outside `start`'s own segment -/
def NotDownstream (s : St) (start : Node) (newT : Nat) : Prop :=
  ∀ n, s.Anc start n → ¬ s.SameSeg start n → s.tidOf n ≠ some newT

theorem viewPre_of_tidOK {s : St} (hF : s.Forest) (hT : s.TidOK) {start : Node} {oT nT : Nat}
    {nL : Option Nat} (hm : start ∈ s.ids) (ht : s.tidOf start = some oT)
    (hLA : s.linOn = true → ∀ e ∈ s.edgeList, s.linOf e.2 = s.linOf e.1)
    (hLH : s.linOn = true → nL.isSome = true → (s.linOf start).isSome = true)
    (hnew : NotDownstream s start nT) : ViewPre s start oT nT (s.linOf start) nL where
  mem := hm
  tid := ht
  lin := rfl
  chain := hT.chainHyp hF hm ht
  noReuse := by
    intro p c hd he ho
    apply hnew c (Anc.step _ p c hd.anc he)
    intro hss
    exact not_segDown_of_division hF hd he ho
      ((tk_segDown_iff hF hm).2 ⟨Anc.step _ p c hd.anc he, hss⟩)
  linSub := fun hon x hx => PC.linAlong_anc (hLA hon) hx
  linHas := hLH

/-- the three situations in which the user actions call `UpdateTrackIDs`: a fresh id; the id the
    start node already has; the id of a segment that is not below `start` (the source segment
    being joined) -/
theorem notDownstream_of {s : St} (hF : s.Forest) (hT : s.TidOK) {start : Node} {oT nT : Nat}
    (hm : start ∈ s.ids) (ht : s.tidOf start = some oT)
    (h : (∀ n, s.tidOf n ≠ some nT) ∨ nT = oT ∨ (∃ u, s.tidOf u = some nT ∧ ¬ s.Anc start u)) :
    NotDownstream s start nT := by
  intro n hanc hns hn
  rcases h with h | h | ⟨u, hu, hnu⟩
  · exact h n hn
  · subst h
    have hnm : n ∈ s.ids := hanc.mem hF hm
    exact hns ((tk_tid_iff_sameSeg hF hT hm hnm).1 (ht.trans hn.symm))
  · have hnm : n ∈ s.ids := hanc.mem hF hm
    have hum : u ∈ s.ids := tk_tidOf_some_mem hu
    have hss : s.SameSeg n u := (tk_tid_iff_sameSeg hF hT hnm hum).1 (hn.trans hu.symm)
    -- the head of that segment is an ancestor of both; `n` is below `start`, so the head is
    -- either below `start` (then so is `u`) or above it (then `start` is on the segment)
    rcases tk_exists_head hF _ n hnm rfl with ⟨h, hh, hhn⟩
    have hhu : s.tk_SegDown h u := (hss.head_iff hF h hh).1 hhn
    -- compare `h` and `start` on the ancestor line of `n`
    have hline : s.Anc start h ∨ s.Anc h start := by
      have : ∀ {x}, s.Anc h x → s.Anc start x → s.Anc start h ∨ s.Anc h start := by
        intro x hx
        induction hx with
        | refl => intro hs; exact Or.inl hs
        | step p c hp he ih =>
          intro hs
          rcases hs.tail with rfl | ⟨q, hq, hqe⟩
          · exact Or.inr (Anc.step _ p _ hp he)
          · rw [hF.par_unique hqe he] at hq
            exact ih hq
      exact this hhn.anc hanc
    rcases hline with hl | hl
    · exact hnu (hl.trans hhu.anc)
    · -- `start` lies on the chain from the head `h` down to `n`: same segment
      apply hns
      have hsd : s.tk_SegDown h start ∧ s.tk_SegDown start n := by
        have : ∀ {x}, s.tk_SegDown h x → s.Anc start x → s.Anc h start →
            s.tk_SegDown h start ∧ s.tk_SegDown start x := by
          intro x hx
          induction hx with
          | refl =>
            intro hs hhs
            have := Anc.antisymm hF hs hhs
            subst this
            exact ⟨tk_SegDown.refl _, tk_SegDown.refl _⟩
          | step p c hp he ho ih =>
            intro hs hhs
            rcases hs.tail with rfl | ⟨q, hq, hqe⟩
            · exact ⟨tk_SegDown.step _ p _ hp he ho, tk_SegDown.refl _⟩
            · rw [hF.par_unique hqe he] at hq
              have := ih hq hhs
              exact ⟨this.1, tk_SegDown.step _ p c this.2 he ho⟩
        exact this hhn hanc hl
      exact hsd.2.sameSeg hm

/-- the intermediate state of `UserDeleteEdge` (edge `(u, v)` removed, ids not yet repaired — `TidOK`
    is broken there: `u` and `v` carry the same id in different segments): the precondition of the
    `UpdateTrackIDs(v, fresh id, …)` that follows holds -/
theorem viewPre_after_cut {s : St} (hF : s.Forest) (hT : s.TidOK) {u v : Node} {t nT : Nat}
    {nL : Option Nat} (he : (u, v) ∈ s.edgeList) (ht : s.tidOf v = some t)
    (hLA : s.linOn = true → ∀ e ∈ s.edgeList, s.linOf e.2 = s.linOf e.1)
    (hLH : s.linOn = true → nL.isSome = true → (s.linOf v).isSome = true)
    (hfresh : ∀ n, s.tidOf n ≠ some nT) :
    ViewPre (s.tk_delE (u, v)) v t nT (s.linOf v) nL where
  mem := hF.dst_mem _ he
  tid := ht
  lin := rfl
  chain := by
    refine tk_chainHyp_delE hF hT (hF.dst_mem _ he) ?_ ht
    intro hvu
    have h1 := hvu.tm_le hF
    have h2 := hF.tm_lt he
    omega
  noReuse := fun _ c _ _ _ => hfresh c
  linSub := by
    intro hon x hx
    have hx' : s.Anc v x := Anc.mono (fun e he' => (tk_mem_delE.1 he').1) hx
    exact PC.linAlong_anc (hLA hon) hx'
  linHas := hLH

/-- an id above the bookkeeping maximum (e.g. `nextTid`) is carried by no node -/
theorem fresh_of_max {s : St} (hB : s.BookOK) {nT : Nat} (h : s.maxTid < nT) (n : Node) :
    s.tidOf n ≠ some nT := by
  intro hn
  have := hB.t_max n nT hn
  omega

/-- the law for a state with `Forest`, `TidOK`, `BookOK`, with the post state in closed form -/
theorem updTid_law {s : St} (hF : s.Forest) (hT : s.TidOK) (hB : s.BookOK) {start : Node} {oT nT : Nat}
    {nL : Option Nat} (hm : start ∈ s.ids) (ht : s.tidOf start = some oT)
    (hLA : s.linOn = true → ∀ e ∈ s.edgeList, s.linOf e.2 = s.linOf e.1)
    (hLH : s.linOn = true → nL.isSome = true → (s.linOf start).isSome = true)
    (hnew : NotDownstream s start nT) :
    s.pUpdTid start nT nL =
      .ok (s.walk start oT nT (s.linOf start) nL, .updTid start oT nT (s.linOf start) nL) ∧
    UpdRecF (.updTid start oT nT (s.linOf start) nL) s (s.walk start oT nT (s.linOf start) nL) := by
  obtain ⟨h1, h2, h3⟩ := step_of_pre ⟨hF, hB⟩ (viewPre_of_tidOK hF hT hm ht hLA hLH hnew)
  exact ⟨h1, ⟨_, _, _, _, _, rfl, h2⟩, h3.toS⟩

/-! ## §6 example states -/

/-- a parent and a child that carry different lineage ids (`LinOK.along` violated) -/
def exLinBad : St :=
  { nodes := [⟨1, 0, 1, some 1, []⟩, ⟨2, 1, 1, some 2, []⟩],
    edges := [⟨(1, 2), []⟩],
    t2n := [(1, [1, 2])], l2n := [(1, [1]), (2, [2])], maxTid := 1, maxLin := 2, counter := 3 }

/-- `tk_exState` after `UpdateTrackIDs(5, 9)` (track {5, 6} relabelled) -/
def exT : St := tk_exState.walk 5 4 9 (some 2) none

/-- `exT` with node 6 listed twice in its track lookup: `Equiv`-equal to `exT`, not `BookOK` -/
def exDup : St := { exT with t2n := [(1, [1, 2]), (2, [3]), (3, [4]), (9, [5, 6, 6])] }

theorem ex_hyps : tk_exState.Forest ∧ tk_exState.TidOK ∧ tk_exState.BookOK ∧
    (tk_exState.linOn = true → ∀ e ∈ tk_exState.edgeList, tk_exState.linOf e.2 = tk_exState.linOf e.1) :=
  ⟨tk_forestB_sound (by decide), tk_tidOKB_sound (by decide), PC.bookOK_of_check (by decide),
   fun _ => (tk_linOKB_sound (by decide : tk_exState.tk_linOKB = true)).along⟩

end Ft.R2A2
